// shared between harness/c18.cpp and harness/c18_opt.cpp
#ifndef VERIF_HARNESS_C18_HPP
#define VERIF_HARNESS_C18_HPP
#include <shark/Core/ISerializable.h>
#include <boost/archive/polymorphic_text_iarchive.hpp>
#include <boost/archive/polymorphic_text_oarchive.hpp>
#include <boost/archive/polymorphic_binary_iarchive.hpp>
#include <boost/archive/polymorphic_binary_oarchive.hpp>
#include <shark/LinAlg/Base.h>
#include <shark/Core/Shape.h>
#include <sstream>
#include <string>
#include "common.hpp"
namespace c18 {
// ---- shared behaviour probes (integer-valued inputs, exact output rendering)
inline long cell(std::size_t seed, std::size_t e, std::size_t j){ return long((seed * 7 + e * 3 + j * 5) % 11) - 5; }
inline shark::RealMatrix points(std::size_t n, std::size_t dim, std::size_t seed){
	shark::RealMatrix x(n, dim);
	for(std::size_t i = 0; i != n; ++i) for(std::size_t j = 0; j != dim; ++j) x(i,j) = double(cell(seed, i, j));
	return x;
}
inline shark::RealVector ramp(std::size_t n, double start, double step){
	shark::RealVector v(n); for(std::size_t i = 0; i != n; ++i) v(i) = start + step * double(i); return v;
}
inline std::string shapeStr(shark::Shape const& s){
	std::ostringstream os; os << "(";
	for(std::size_t i = 0; i != s.size(); ++i){ if(i) os << ","; os << s[i]; }
	os << ")"; return os.str();
}
template<class V> std::string vecStr(V const& v){
	std::ostringstream os; os << "(";
	for(std::size_t i = 0; i != v.size(); ++i){ if(i) os << ","; os << vh::exactDouble(v(i)); }
	os << ")"; return os.str();
}
template<class M> std::string matStr(M const& m){
	std::ostringstream os;
	for(std::size_t i = 0; i != m.size1(); ++i){ os << "["; for(std::size_t j = 0; j != m.size2(); ++j){ if(j) os << ","; os << vh::exactDouble(m(i,j)); } os << "]"; }
	return os.str();
}
template<class Model> std::string modelBehaviour(Model& m, std::size_t dim, std::size_t n = 4){
	shark::RealMatrix x = points(n, dim, 3), y;
	m.eval(x, y);
	return "params=" + vecStr(m.parameterVector()) + " in=" + shapeStr(m.inputShape()) + " out=" + shapeStr(m.outputShape()) + " eval=" + matStr(y);
}
template<class K> std::string kernelBehaviour(K& k, std::size_t dim){
	shark::RealMatrix x = points(3, dim, 1), y = points(2, dim, 5);
	shark::RealMatrix g = k(x, y);
	shark::RealVector a = row(x, 0), b = row(y, 1);
	return "params=" + vecStr(k.parameterVector()) + " gram=" + matStr(g) + " single=" + vh::exactDouble(k.eval(a, b));
}
// write `orig` to a polymorphic text or binary archive, read the bytes into `fresh`
template<class T>
void roundTrip(T const& orig, T& fresh, bool binary){
	std::stringstream ss(std::ios::in | std::ios::out | std::ios::binary);
	if(binary){
		{ boost::archive::polymorphic_binary_oarchive oa(ss); shark::OutArchive& o = oa; o << orig; }
		{ boost::archive::polymorphic_binary_iarchive ia(ss); shark::InArchive& i = ia; i >> fresh; }
	}else{
		{ boost::archive::polymorphic_text_oarchive oa(ss); shark::OutArchive& o = oa; o << orig; }
		{ boost::archive::polymorphic_text_iarchive ia(ss); shark::InArchive& i = ia; i >> fresh; }
	}
}
// archive bytes of an object / load bytes into an (arbitrarily used) object
template<class T>
std::string bytes(T const& orig, bool binary){
	std::stringstream ss(std::ios::in | std::ios::out | std::ios::binary);
	if(binary){ boost::archive::polymorphic_binary_oarchive oa(ss); shark::OutArchive& o = oa; o << orig; }
	else{ boost::archive::polymorphic_text_oarchive oa(ss); shark::OutArchive& o = oa; o << orig; }
	return ss.str();
}
template<class T>
void load(std::string const& b, T& target, bool binary){
	std::stringstream ss(b, std::ios::in | std::ios::out | std::ios::binary);
	if(binary){ boost::archive::polymorphic_binary_iarchive ia(ss); shark::InArchive& i = ia; i >> target; }
	else{ boost::archive::polymorphic_text_iarchive ia(ss); shark::InArchive& i = ia; i >> target; }
}
inline std::string differs(std::string const& label, std::string const& stage, std::string const& a, std::string const& b){
	return "obj " + label + " differs " + stage + " original{" + a.substr(0, 300) + "} restored{" + b.substr(0, 300) + "} !oracle " + stage;
}
// HISTORY of one class: `a`, `a2` two different states of the same type, `b` a target that was constructed /
// configured differently and used before. (1) write a, read into b: behaves like a; (2) write a2, read into the
// same b: behaves like a2 (everything a left behind is overwritten); (3) read a's archive twice: like a;
// (4) second generation: write b, read into the used a2: like a, and the archive of b is the archive of a byte
// for byte; (5) writing did not change a.
template<class T, class Beh>
std::string history(std::string const& label, T& a, T& a2, T& b, Beh beh, bool binary, bool compareBytes = true){
	std::string A = beh(a), A2 = beh(a2);
	std::string bytesA = bytes(a, binary), bytesA2 = bytes(a2, binary);
	load(bytesA, b, binary);
	{ std::string B = beh(b); if(B != A) return differs(label, "behaviour-differs", A, B); }
	load(bytesA2, b, binary);
	{ std::string B = beh(b); if(B != A2) return differs(label, "stale-state-not-overwritten", A2, B); }
	load(bytesA, b, binary); load(bytesA, b, binary);
	{ std::string B = beh(b); if(B != A) return differs(label, "read-twice-differs", A, B); }
	std::string bytesB = bytes(b, binary);
	load(bytesB, a2, binary);
	{ std::string B = beh(a2); if(B != A) return differs(label, "second-generation-differs", A, B); }
	{ std::string B = beh(a); if(B != A) return differs(label, "original-changed-by-write", A, B); }
	if(compareBytes && bytesB != bytesA) return differs(label, "rewritten-archive-differs", binary ? "(binary)" : bytesA, binary ? "(binary)" : bytesB);
	return "obj " + label + " same";
}
std::string runOptimizer(std::string const& label, bool binary);
std::string runModel(std::string const& label, bool binary);   // c18_models.cpp
std::string runMoo(std::string const& label, bool binary);     // c18_moo.cpp
std::string runMisc(std::string const& label, bool binary);    // c18_moo.cpp
}
#endif
