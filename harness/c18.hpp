// shared between harness/c18.cpp and harness/c18_opt.cpp
#ifndef VERIF_HARNESS_C18_HPP
#define VERIF_HARNESS_C18_HPP
#include <shark/Core/ISerializable.h>
#include <boost/archive/polymorphic_text_iarchive.hpp>
#include <boost/archive/polymorphic_text_oarchive.hpp>
#include <boost/archive/polymorphic_binary_iarchive.hpp>
#include <boost/archive/polymorphic_binary_oarchive.hpp>
#include <sstream>
#include <string>
namespace c18 {
// write `orig` to a polymorphic text or binary archive, read the bytes into `fresh`
template<class T>
void roundTrip(T const& orig, T& fresh, bool binary){
	std::stringstream ss(std::ios::in | std::ios::out | std::ios::binary);
	if(binary){
		{ boost::archive::polymorphic_binary_oarchive oa(ss); shark::OutArchive& o = oa; o << orig; }
		{ boost::archive::polymorphic_binary_iarchive ia(ss); shark::InArchive& i = ia; i >> fresh; }
	}else{
		{ boost::archive::polymorphic_text_oarchive oa(ss); shark::OutArchive& o = oa; o << orig; }
		{ boost::archive::polymorphic_text_iarchive ia(ss); shark::InArchive& i = ia; i >> fresh; }
	}
}
std::string runOptimizer(std::string const& label, bool binary);
}
#endif
