// C14: property harness for Shark's multi-objective optimizers.
// Line protocol: one op per line on stdin, exactly one observation line on stdout.
//   opt <algo> <problem> <nvars> <nobj> <mu> <seed> <steps> <refmode> [<initmode>]
// initmode (optional, default 0): 0 = init(f) (the optimizer proposes its own start points), 1/2/3 = init(f, points)
// with fewer (max(1, mu/2)) / exactly mu / more (mu + 3) feasible start points drawn from the problem.
// Runs the REAL optimizer with a local, seeded rng and checks after init and after
// every step with an independent oracle:
//   size       |solution()| == mu() (constant; == requested mu for mocma/ssmocma/smsemoa/nsga2)
//   fitness    s.value == f.eval(closest feasible point of s.point)   (exact, element-wise)
//   box        s.point feasible                (algorithms with SBX + polynomial mutation)
//   nan        all reported coordinates / objective values finite
//   hvdecrease refmode=1, ssmocma/smsemoa: hypervolume (own implementation, penalized
//              fitness of the parent population, fixed reference) never decreases
//   selected   after a step every surviving parent carries the 'selected' flag
//   mirror     solution()[i] is a copy of parent i (point and unpenalized fitness)
// Output: "opt ok steps=<steps>" (+ " !oracle <tag> step=<t> <detail>" per violated
// clause, at most 3), or "opt exception steps=<t> !oracle exception step=<t> <what>".
// Valid ops: exactly 9 tokens separated by single spaces, decimal numbers of at most 9
// digits, nobj in {2,3} (zdt*: 2 only), 2 <= nvars <= 1000 and nvars >= nobj,
// 2 <= mu <= 10000, steps <= 1000000, refmode in {0,1}; everything else prints "bad-op".
// nsga2 = CrowdingRealCodedNSGAII (crowding distance); moead uses T = min(10, max(2, mu/2));
// rvea gets maxIterations = steps. Reference point (refmode 1): see referenceValue().
// Step numbering in remarks: 0 = after init, t = after the t-th step().
#include <shark/Algorithms/DirectSearch/MOCMA.h>
#include <shark/Algorithms/DirectSearch/SteadyStateMOCMA.h>
#include <shark/Algorithms/DirectSearch/SMS-EMOA.h>
#include <shark/Algorithms/DirectSearch/RealCodedNSGAII.h>
#include <shark/Algorithms/DirectSearch/RealCodedNSGAIII.h>
#include <shark/Algorithms/DirectSearch/MOEAD.h>
#include <shark/Algorithms/DirectSearch/RVEA.h>
#include <shark/ObjectiveFunctions/Benchmarks/ZDT1.h>
#include <shark/ObjectiveFunctions/Benchmarks/ZDT2.h>
#include <shark/ObjectiveFunctions/Benchmarks/ZDT3.h>
#include <shark/ObjectiveFunctions/Benchmarks/ZDT4.h>
#include <shark/ObjectiveFunctions/Benchmarks/ZDT6.h>
#include <shark/ObjectiveFunctions/Benchmarks/DTLZ1.h>
#include <shark/ObjectiveFunctions/Benchmarks/DTLZ2.h>
#include <shark/ObjectiveFunctions/Benchmarks/DTLZ4.h>
#include <shark/ObjectiveFunctions/Benchmarks/DTLZ7.h>
#include "common.hpp"
#include <algorithm>
#include <memory>

using shark::RealVector;
typedef shark::MultiObjectiveFunction Function;
typedef shark::random::rng_type Rng;

// ---------------------------------------------------------------- problems
static std::unique_ptr<Function> makeFunction(std::string const& p, std::size_t nvars, std::size_t nobj){
	using namespace shark::benchmarks;
	std::unique_ptr<Function> f;
	if(p == "zdt1") f.reset(new ZDT1(nvars));
	else if(p == "zdt2") f.reset(new ZDT2(nvars));
	else if(p == "zdt3") f.reset(new ZDT3(nvars));
	else if(p == "zdt4") f.reset(new ZDT4(nvars));
	else if(p == "zdt6") f.reset(new ZDT6(nvars));
	else if(p == "dtlz1"){ DTLZ1* g = new DTLZ1(nvars); g->setNumberOfObjectives(nobj); f.reset(g); }
	else if(p == "dtlz2"){ DTLZ2* g = new DTLZ2(nvars); g->setNumberOfObjectives(nobj); f.reset(g); }
	else if(p == "dtlz4"){ DTLZ4* g = new DTLZ4(nvars); g->setNumberOfObjectives(nobj); f.reset(g); }
	else if(p == "dtlz7"){ DTLZ7* g = new DTLZ7(nvars); g->setNumberOfObjectives(nobj); f.reset(g); }
	return f;
}
static bool isZdt(std::string const& p){ return p.compare(0, 3, "zdt") == 0; }

// a reference point that every attainable objective vector (on the box) strictly dominates,
// kept tight so that the relative tolerance of the hvdecrease clause stays meaningful
static double referenceValue(std::string const& p, std::size_t nvars){
	if(p == "zdt4") return 50.0 * nvars;          // f2 <= g <= 1 + 45 (n-1)
	if(isZdt(p)) return 11.0;                     // f1 <= 1, f2 <= g + 1 <= 11
	if(p == "dtlz1") return 120.0 * nvars;        // f <= (1 + 225 k)/2
	if(p == "dtlz7") return 40.0;                 // f_M <= (1+g) M <= 33
	return 2.0 + nvars;                           // dtlz2/4: f <= 1 + k/4
}

// ---------------------------------------------------------------- independent hypervolume
typedef std::vector<double> Pt;
static double hv2(std::vector<std::pair<double,double> > pts, double r0, double r1){
	std::vector<std::pair<double,double> > in;
	for(std::size_t i = 0; i != pts.size(); ++i)
		if(pts[i].first < r0 && pts[i].second < r1) in.push_back(pts[i]);
	std::sort(in.begin(), in.end());
	double area = 0, best = r1;
	for(std::size_t i = 0; i != in.size(); ++i){
		if(in[i].second < best){
			area += (r0 - in[i].first) * (best - in[i].second);
			best = in[i].second;
		}
	}
	return area;
}
static double hypervolume(std::vector<Pt> const& pts, Pt const& ref){
	std::size_t m = ref.size();
	std::vector<Pt> in;
	for(std::size_t i = 0; i != pts.size(); ++i){
		bool ok = pts[i].size() == m;
		for(std::size_t j = 0; ok && j != m; ++j) ok = pts[i][j] < ref[j];   // false for nan
		if(ok) in.push_back(pts[i]);
	}
	if(m == 2){
		std::vector<std::pair<double,double> > q;
		for(std::size_t i = 0; i != in.size(); ++i) q.push_back(std::make_pair(in[i][0], in[i][1]));
		return hv2(q, ref[0], ref[1]);
	}
	// m == 3: slices along the third coordinate
	std::sort(in.begin(), in.end(), [](Pt const& a, Pt const& b){ return a[2] < b[2]; });
	double vol = 0;
	std::vector<std::pair<double,double> > q;
	for(std::size_t i = 0; i != in.size(); ++i){
		q.push_back(std::make_pair(in[i][0], in[i][1]));
		double top = (i + 1 != in.size()) ? in[i+1][2] : ref[2];
		double depth = top - in[i][2];
		if(depth > 0) vol += hv2(q, ref[0], ref[1]) * depth;
	}
	return vol;
}

// ---------------------------------------------------------------- probes
template<class Base>
struct Probe: public Base{
	explicit Probe(Rng& rng): Base(rng){}
	std::size_t parents() const{ return this->m_parents.size(); }
	RealVector const& parentPoint(std::size_t i) const{ return this->m_parents[i].searchPoint(); }
	RealVector const& parentPenalized(std::size_t i) const{ return this->m_parents[i].penalizedFitness(); }
	RealVector const& parentUnpenalized(std::size_t i) const{ return this->m_parents[i].unpenalizedFitness(); }
	bool parentSelected(std::size_t i) const{ return this->m_parents[i].selected(); }
};

struct Config{
	std::string algo, problem;
	std::size_t nvars, nobj, mu, seed, steps, refmode, initmode;
	bool bounded;       // SBX + polynomial mutation: box clause applies
	bool exactMu;       // mu() must equal the requested mu
	bool hvClause;      // steady-state hypervolume selection with fixed reference
	bool selClause;     // 'selected' flags are meaningful after a step
};

struct Remarks{
	std::vector<std::string> list;
	std::size_t total;
	Remarks(): total(0){}
	void add(std::string const& tag, std::size_t step, std::string const& detail){
		++total;
		if(list.size() >= 3) return;
		for(std::size_t i = 0; i != list.size(); ++i)      // one remark per tag is enough
			if(list[i].compare(0, tag.size() + 1, tag + " ") == 0) return;
		std::ostringstream os; os << tag << " step=" << step << " " << detail;
		list.push_back(os.str());
	}
	std::string str() const{
		std::string s;
		for(std::size_t i = 0; i != list.size(); ++i) s += " !oracle " + list[i];
		return s;
	}
};

static std::string show(RealVector const& v){
	std::ostringstream os; os.precision(17);
	os << "(";
	for(std::size_t i = 0; i != v.size(); ++i){ if(i) os << ","; os << v(i); }
	os << ")";
	return os.str();
}
static bool finite(RealVector const& v){
	for(std::size_t i = 0; i != v.size(); ++i) if(!std::isfinite(v(i))) return false;
	return true;
}
static bool sameVec(RealVector const& a, RealVector const& b){
	if(a.size() != b.size()) return false;
	for(std::size_t i = 0; i != a.size(); ++i) if(!(a(i) == b(i))) return false;
	return true;
}

// all per-state clauses; 'oracleF' is a separate instance of the objective function
template<class Opt>
static void checkState(Opt const& opt, Function const& oracleF, Config const& c, std::size_t step,
	std::size_t sizeAtInit, Pt const& ref, double& hvPrev, Remarks& rem){
	auto const& sol = opt.solution();
	std::size_t n = sol.size();
	// size
	if(n != opt.mu()){
		std::ostringstream os; os << "solution=" << n << " mu()=" << opt.mu();
		rem.add("size", step, os.str());
	}else if(n != sizeAtInit){
		std::ostringstream os; os << "solution=" << n << " at-init=" << sizeAtInit;
		rem.add("size", step, os.str());
	}else if(c.exactMu && n != c.mu){
		std::ostringstream os; os << "solution=" << n << " requested=" << c.mu;
		rem.add("size", step, os.str());
	}
	for(std::size_t i = 0; i != n; ++i){
		RealVector const& x = sol[i].point;
		RealVector const& v = sol[i].value;
		// nan
		if(!finite(x) || !finite(v)){
			std::ostringstream os; os << "i=" << i << " point=" << show(x) << " value=" << show(v);
			rem.add("nan", step, os.str());
		}
		if(x.size() != c.nvars || v.size() != c.nobj){
			std::ostringstream os; os << "i=" << i << " dims point=" << x.size() << " value=" << v.size();
			rem.add("fitness", step, os.str());
			continue;
		}
		// box
		bool feasible = oracleF.isFeasible(x);
		if(c.bounded && !feasible){
			std::ostringstream os; os << "i=" << i << " point=" << show(x);
			rem.add("box", step, os.str());
		}
		// fitness
		RealVector t(x);
		if(!feasible) oracleF.closestFeasible(t);
		RealVector want = oracleF.eval(t);
		if(!sameVec(want, v)){
			std::ostringstream os; os << "i=" << i << " point=" << show(x) << " reported=" << show(v) << " eval=" << show(want);
			rem.add("fitness", step, os.str());
		}
	}
	// mirror / selected (through the probe)
	if(opt.parents() != n){
		std::ostringstream os; os << "parents=" << opt.parents() << " solution=" << n;
		rem.add("mirror", step, os.str());
	}else{
		for(std::size_t i = 0; i != n; ++i){
			if(!sameVec(opt.parentPoint(i), sol[i].point) || !sameVec(opt.parentUnpenalized(i), sol[i].value)){
				std::ostringstream os; os << "i=" << i << " parent=" << show(opt.parentPoint(i)) << "->" << show(opt.parentUnpenalized(i))
					<< " solution=" << show(sol[i].point) << "->" << show(sol[i].value);
				rem.add("mirror", step, os.str());
			}
		}
		if(c.selClause && step > 0){
			std::size_t sel = 0;
			for(std::size_t i = 0; i != n; ++i) if(opt.parentSelected(i)) ++sel;
			if(sel != n){
				std::ostringstream os; os << "selected-survivors=" << sel << " of " << n;
				rem.add("selected", step, os.str());
			}
		}
	}
	// hvdecrease
	if(c.hvClause){
		std::vector<Pt> pts;
		for(std::size_t i = 0; i != opt.parents(); ++i){
			RealVector const& p = opt.parentPenalized(i);
			pts.push_back(Pt(p.begin(), p.end()));
		}
		double hv = hypervolume(pts, ref);
		if(step > 0 && (hv < hvPrev * (1 - 1e-9) - 1e-12 || std::isnan(hv))){
			std::ostringstream os; os.precision(17); os << "before=" << hvPrev << " after=" << hv;
			rem.add("hvdecrease", step, os.str());
		}
		hvPrev = hv;
	}
}

// configuration differences between the optimizers
template<class O> static void setMu(O& o, Config const& c){ o.mu() = c.mu; }
static void setMu(Probe<shark::RVEA>& o, Config const& c){
	o.approxMu() = c.mu;
	o.maxIterations() = std::max<std::size_t>(c.steps, 1);
}
static void setMu(Probe<shark::MOEAD>& o, Config const& c){
	o.mu() = c.mu;
	// neighbourhood size T must not exceed mu (default 10); the unit tests use T = mu/2
	o.neighbourhoodSize() = std::min<std::size_t>(10, std::max<std::size_t>(2, c.mu / 2));
}
template<class O> static void setReference(O&, RealVector const&){}
static void setReference(Probe<shark::MOCMA>& o, RealVector const& r){ o.indicator().setReference(r); }
static void setReference(Probe<shark::SteadyStateMOCMA>& o, RealVector const& r){ o.indicator().setReference(r); }
static void setReference(Probe<shark::SMSEMOA>& o, RealVector const& r){ o.indicator().setReference(r); }

static std::string oneLine(std::string s){
	for(std::size_t i = 0; i != s.size(); ++i) if(s[i] == '\n' || s[i] == '\r') s[i] = ' ';
	return s;
}

template<class Base>
static std::string run(Config const& c){
	Rng rng(static_cast<Rng::result_type>(c.seed));
	shark::random::globalRng.seed(static_cast<Rng::result_type>(c.seed));
	std::unique_ptr<Function> f = makeFunction(c.problem, c.nvars, c.nobj);
	std::unique_ptr<Function> oracleF = makeFunction(c.problem, c.nvars, c.nobj);
	f->setRng(&rng);
	Pt ref(c.nobj, referenceValue(c.problem, c.nvars));
	Remarks rem;
	std::size_t done = 0;
	try{
		Probe<Base> opt(rng);
		setMu(opt, c);
		if(c.refmode == 1){
			RealVector r(c.nobj);
			for(std::size_t j = 0; j != c.nobj; ++j) r(j) = ref[j];
			setReference(opt, r);
		}
		f->init();
		if(c.initmode == 0) opt.init(*f);
		else{
			std::size_t k = c.initmode == 1 ? std::max<std::size_t>(1, c.mu / 2) : (c.initmode == 2 ? c.mu : c.mu + 3);
			std::vector<RealVector> pts(k);
			for(std::size_t i = 0; i != k; ++i) pts[i] = f->proposeStartingPoint();
			opt.init(*f, pts);
		}
		double hvPrev = 0;
		std::size_t sizeAtInit = opt.solution().size();
		checkState(opt, *oracleF, c, 0, sizeAtInit, ref, hvPrev, rem);
		for(std::size_t t = 1; t <= c.steps; ++t){
			opt.step(*f);
			done = t;
			checkState(opt, *oracleF, c, t, sizeAtInit, ref, hvPrev, rem);
		}
	}catch(std::exception const& e){
		std::ostringstream os;
		os << "opt exception steps=" << done << " !oracle exception step=" << done << " " << oneLine(e.what());
		return os.str();
	}
	std::ostringstream os;
	os << "opt ok steps=" << c.steps << rem.str();
	return os.str();
}

static std::string handle(std::string const& line){
	// tokens are separated by single spaces: anything else (tabs, double or leading/trailing spaces) is a bad op
	std::vector<std::string> t;
	{
		std::size_t start = 0;
		for(;;){
			std::size_t pos = line.find(' ', start);
			t.push_back(line.substr(start, pos == std::string::npos ? pos : pos - start));
			if(pos == std::string::npos) break;
			start = pos + 1;
		}
	}
	if((t.size() != 9 && t.size() != 10) || t[0] != "opt") return "bad-op";
	std::vector<std::size_t> num;
	if(!vh::allNat(t, 3, num) || (num.size() != 6 && num.size() != 7)) return "bad-op";
	for(std::size_t i = 3; i != t.size(); ++i) if(t[i].size() > 9) return "bad-op";
	Config c;
	c.algo = t[1]; c.problem = t[2];
	c.nvars = num[0]; c.nobj = num[1]; c.mu = num[2]; c.seed = num[3]; c.steps = num[4]; c.refmode = num[5]; c.initmode = num.size() == 7 ? num[6] : 0;
	if(c.initmode > 3) return "bad-op";
	static char const* problems[] = {"zdt1","zdt2","zdt3","zdt4","zdt6","dtlz1","dtlz2","dtlz4","dtlz7"};
	if(std::find(problems, problems + 9, c.problem) == problems + 9) return "bad-op";
	if(c.nobj != 2 && c.nobj != 3) return "bad-op";
	if(isZdt(c.problem) && c.nobj != 2) return "bad-op";
	if(c.nvars < 2 || c.nvars < c.nobj || c.nvars > 1000) return "bad-op";
	if(c.mu < 2 || c.mu > 10000 || c.steps > 1000000) return "bad-op";
	if(c.refmode > 1) return "bad-op";
	c.bounded = !(c.algo == "mocma" || c.algo == "ssmocma");
	c.exactMu = c.algo == "mocma" || c.algo == "ssmocma" || c.algo == "smsemoa" || c.algo == "nsga2";
	c.hvClause = c.refmode == 1 && (c.algo == "ssmocma" || c.algo == "smsemoa");
	c.selClause = c.exactMu;
	if(c.algo == "mocma") return run<shark::MOCMA>(c);
	if(c.algo == "ssmocma") return run<shark::SteadyStateMOCMA>(c);
	if(c.algo == "smsemoa") return run<shark::SMSEMOA>(c);
	if(c.algo == "nsga2") return run<shark::CrowdingRealCodedNSGAII>(c);
	if(c.algo == "nsga3") return run<shark::RealCodedNSGAIII>(c);
	if(c.algo == "moead") return run<shark::MOEAD>(c);
	if(c.algo == "rvea") return run<shark::RVEA>(c);
	return "bad-op";
}

int main(){
	std::string line;
	while(std::getline(std::cin, line)){
		if(!line.empty() && line[line.size()-1] == '\r') line.erase(line.size()-1);
		if(line.empty()){ std::cout << "\n" << std::flush; continue; }
		// flush per line: a sanitizer abort inside an op must not lose earlier observations
		std::cout << handle(line) << "\n" << std::flush;
	}
	return 0;
}
