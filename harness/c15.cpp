// K-C15 harness (part A): statistics over batches, component normalisers, linear
// regression, whitening / ZCA -- the real Shark trainers on integer datasets with an
// explicit batch partition.  One op per line in, one observation line out:
//   ok I=<0|1> {<group> <count> <m e>*count}*   [ !oracle <tag>]*
// I=1: FE_INEXACT was raised inside the window around the Shark calls (so the doubles
// are rounded); I=0: every floating-point operation was exact and the printed values
// must equal the exact-arithmetic model bit for bit.  The `!oracle` tags come from the
// independent property oracle below (plain loops, no Lean model involved).
#include "c15_common.hpp"
#include <shark/Data/Statistics.h>
#include <shark/Models/Normalizer.h>
#include <shark/Models/LinearModel.h>
#include <shark/Algorithms/Trainers/NormalizeComponentsUnitVariance.h>
#include <shark/Algorithms/Trainers/NormalizeComponentsUnitInterval.h>
#include <shark/Algorithms/Trainers/NormalizeComponentsWhitening.h>
#include <shark/Algorithms/Trainers/NormalizeComponentsZCA.h>
#include <shark/Algorithms/Trainers/LinearRegression.h>
using namespace shark;
using namespace c15;

// objects that live as long as a history (`op ; op ; ...`): trainers (configuration changed through their
// setters between the steps), models (re-trained, possibly with another shape / with or without offset)
// and the output arguments of meanvar (which arrive filled with the previous result)
struct Session{
	RealVector m, m2, m3, var; RealMatrix cov;
	Normalizer<RealVector> norm;
	NormalizeComponentsUnitInterval<> unitInt;
	NormalizeComponentsUnitVariance<> unitVar0, unitVar1;
	LinearRegression linreg;
	NormalizeComponentsWhitening whiten;
	NormalizeComponentsZCA zca;
	LinearModel<> lin;
	std::size_t step;
	Session(): unitVar0(false), unitVar1(true), linreg(0.0), whiten(1.0), zca(1.0), step(0){}
};

// ---- plain-loop statistics for the oracle
static void plainMeanVar(std::vector<std::vector<double> > const& y, std::size_t d, std::vector<double>& m, std::vector<double>& v){
	std::size_t n = y.size(); m.assign(d, 0.0); v.assign(d, 0.0);
	for(std::size_t i = 0; i < n; ++i) for(std::size_t j = 0; j < d; ++j) m[j] += y[i][j];
	for(std::size_t j = 0; j < d; ++j) m[j] /= (double)n;
	for(std::size_t i = 0; i < n; ++i) for(std::size_t j = 0; j < d; ++j) v[j] += (y[i][j] - m[j]) * (y[i][j] - m[j]);
	for(std::size_t j = 0; j < d; ++j) v[j] /= (double)n;
}
static bool constantColumn(Table const& T, std::size_t j){
	for(std::size_t i = 1; i < T.n; ++i) if(T.rows[i][j] != T.rows[0][j]) return false;
	return true;
}

static std::string opMeanVar(Args& A, Session* S){
	Table T; if(!T.read(A, 0) || !A.done() || T.d == 0) return "bad-op";
	Out o;
	UnlabeledData<RealVector> data = T.unlabeled();
	RealVector fm, fm2, fm3, fvar; RealMatrix fcov;
	// in a history the output arguments still hold the results (and sizes) of the previous step
	RealVector& m = S ? S->m : fm; RealVector& m2 = S ? S->m2 : fm2; RealVector& m3 = S ? S->m3 : fm3;
	RealVector& var = S ? S->var : fvar; RealMatrix& cov = S ? S->cov : fcov;
	fpClear();
	m = mean(data);
	meanvar(data, m2, var);
	meanvar(data, m3, cov);
	bool inexact = fpInexact();
	o.vec("mean", m); o.vec("var", var); o.mat("cov", cov);
	if(!closeVec(m, m2, 0) || !closeVec(m, m3, 0)) o.fail("mean-variants-differ");
	{ RealVector v2 = variance(data); RealMatrix c2 = covariance(data);
	  if(!sameVec(var, v2) || !sameMat(cov, c2)) o.fail("variance-covariance-wrappers-differ"); }
	if(S){
		RealVector gm, gm3, gv; RealMatrix gc; meanvar(data, gm, gv); meanvar(data, gm3, gc);
		if(!sameVec(m2, gm) || !sameVec(m3, gm3) || !sameVec(var, gv) || !sameMat(cov, gc)) o.fail("reuse-dependent");
	}
	// oracle: plain loops + batch-partition independence
	std::vector<double> pm, pv; plainMeanVar(T.rows, T.d, pm, pv);
	for(std::size_t j = 0; j < T.d; ++j){
		if(!close(m(j), pm[j], 1e-12)) o.fail("mean");
		if(!close(var(j), pv[j], 1e-12)) o.fail("variance");
		if(!close(cov(j, j), pv[j], 1e-12)) o.fail("cov-diagonal");
		for(std::size_t k = 0; k < T.d; ++k) if(cov(j, k) != cov(k, j) && !close(cov(j, k), cov(k, j), 1e-14)) o.fail("cov-asymmetric");
	}
	std::vector<std::vector<std::size_t> > parts = T.otherPartitions();
	for(std::size_t p = 0; p < parts.size(); ++p){
		UnlabeledData<RealVector> other = T.unlabeled(parts[p]);
		RealVector om, ov, om2; RealMatrix oc;
		meanvar(other, om, ov); meanvar(other, om2, oc);
		if(!closeVec(m, om, 1e-12) || !closeVec(var, ov, 1e-12) || !closeMat(cov, oc, 1e-12)) o.fail("batch-dependent");
	}
	return o.line("ok", inexact);
}

template<class Trainer>
static std::string normalizerOp(Table const& T, Trainer& trainer, int kind /*0 unit interval, 1 unit variance zero mean, 2 unit variance no offset*/, Session* S){
	Out o;
	UnlabeledData<RealVector> data = T.unlabeled();
	Normalizer<RealVector> freshModel;
	Normalizer<RealVector>& model = S ? S->norm : freshModel;      // history: the model of the previous step is trained again
	fpClear();
	try{ trainer.train(model, data); }
	catch(shark::Exception const&){ return "exc"; }
	bool inexact = fpInexact();
	RealVector off = model.hasOffset() ? model.offset() : RealVector(T.d, 0.0);
	o.vec("diag", model.diagonal()); o.vec("offset", off);
	// oracle: the model's output on the training data
	Data<RealVector> outD = model(data);
	std::vector<std::vector<double> > y;
	for(std::size_t i = 0; i < T.n; ++i){ RealVector e = outD.element(i); y.push_back(std::vector<double>(e.begin(), e.end())); }
	std::vector<double> ym, yv; plainMeanVar(y, T.d, ym, yv);
	for(std::size_t j = 0; j < T.d; ++j){
		bool cc = constantColumn(T, j);
		if(kind == 0){
			double lo = y[0][j], hi = y[0][j];
			for(std::size_t i = 0; i < T.n; ++i){ lo = std::min(lo, y[i][j]); hi = std::max(hi, y[i][j]); }
			if(cc){ if(lo != 0.5 || hi != 0.5) o.fail("unitinterval-constant-column"); }
			else{
				if(!(lo >= -1e-12) || !(hi <= 1 + 1e-12)) o.fail("unitinterval-range");
				if(!close(lo, 0.0, 1e-12) || !close(hi, 1.0, 1e-12)) o.fail("unitinterval-not-attained");
			}
		}else{
			if(cc){ if(yv[j] != 0.0 || ym[j] != 0.0) o.fail("unitvariance-constant-column"); }
			else{
				if(!close(yv[j], 1.0, 1e-9)) o.fail("unitvariance-variance");
				if(kind == 1 && !(std::fabs(ym[j]) <= 1e-9)) o.fail("unitvariance-mean");
			}
		}
	}
	// batch-partition independence
	std::vector<std::vector<std::size_t> > parts = T.otherPartitions();
	for(std::size_t p = 0; p < parts.size(); ++p){
		UnlabeledData<RealVector> other = T.unlabeled(parts[p]);
		Normalizer<RealVector> m2; trainer.train(m2, other);
		RealVector off2 = m2.hasOffset() ? m2.offset() : RealVector(T.d, 0.0);
		if(!closeVec(model.diagonal(), m2.diagonal(), 1e-12) || !closeVec(off, off2, 1e-12)) o.fail("batch-dependent");
	}
	if(S){
		// a freshly constructed model must receive the same bits
		Normalizer<RealVector> m2; trainer.train(m2, data);
		if(m2.hasOffset() != model.hasOffset() || !sameVec(model.diagonal(), m2.diagonal()) || (m2.hasOffset() && !sameVec(model.offset(), m2.offset()))) o.fail("reuse-dependent");
		if(kind == 2 && model.hasOffset()) o.fail("reuse-stale-offset");
	}
	return o.line("ok", inexact);
}

static std::string opUnitVar(Args& A, Session* S){
	std::size_t zeroMean = A.nat();
	Table T; if(!T.read(A, 0) || !A.done() || T.d == 0 || zeroMean > 1) return "bad-op";
	NormalizeComponentsUnitVariance<> fresh(zeroMean == 1);
	return normalizerOp(T, S ? (zeroMean ? S->unitVar1 : S->unitVar0) : fresh, zeroMean ? 1 : 2, S);
}
static std::string opUnitInt(Args& A, Session* S){
	Table T; if(!T.read(A, 0) || !A.done() || T.d == 0) return "bad-op";
	NormalizeComponentsUnitInterval<> fresh;
	return normalizerOp(T, S ? S->unitInt : fresh, 0, S);
}

// linreg lamNum lamLog2Den k | n d nb sizes | rows of d inputs and k labels
static std::string opLinReg(Args& A, Session* S){
	long long lamNum = A.next(); std::size_t lamShift = A.nat(); std::size_t k = A.nat();
	if(A.bad || lamNum < 0 || lamShift > 40 || k == 0 || k > 64) return "bad-op";
	Table T; if(!T.read(A, k, true) || !A.done()) return "bad-op";
	double lambda = std::ldexp((double)lamNum, -(int)lamShift);
	std::size_t d = T.d, n = T.n;
	Out o;
	std::vector<RealVector> X = T.points(), L = T.cols(d, k);
	LabeledData<RealVector, RealVector> data = createLabeledDataFromRange(X, L, n);
	data.repartition(T.sizes);
	LinearRegression freshTrainer(lambda);
	LinearModel<> freshModel;
	// history: the trainer of the previous steps with a new regularisation (setter or parameter vector, alternating),
	// and the model of the previous step (any shape, trained by any of linreg / whiten / zca)
	LinearRegression& trainer = S ? S->linreg : freshTrainer;
	LinearModel<>& model = S ? S->lin : freshModel;
	if(S){ if(S->step++ % 2) trainer.setParameterVector(RealVector(1, lambda)); else trainer.setRegularization(lambda); }
	fpClear();
	try{ trainer.train(model, data); }
	catch(shark::Exception const&){ return "exc"; }
	bool inexact = fpInexact();
	RealMatrix W = model.matrix(); RealVector b = model.offset();   // W: k x d
	if(S){
		LinearModel<> m2; freshTrainer.train(m2, data);
		if(!sameMat(W, m2.matrix()) || !sameVec(b, m2.offset())) o.fail("reuse-dependent");
		if(trainer.regularization() != lambda || trainer.parameterVector().size() != 1 || trainer.parameterVector()(0) != lambda) o.fail("reuse-configuration");
	}
	o.mat("W", W); o.vec("b", b);
	// oracle: gradient of 1/2 sum_i |W x_i + b - l_i|^2 + lambda/2 |W|^2 with plain loops
	double scale = 1.0;
	std::vector<std::vector<double> > gW(k, std::vector<double>(d, 0.0)); std::vector<double> gb(k, 0.0);
	bool finite = true;
	for(std::size_t c = 0; c < k; ++c){ if(!std::isfinite(b(c))) finite = false; for(std::size_t j = 0; j < d; ++j) if(!std::isfinite(W(c, j))) finite = false; }
	if(!finite) o.fail("linreg-nonfinite");
	else{
		for(std::size_t i = 0; i < n; ++i) for(std::size_t c = 0; c < k; ++c){
			double r = b(c) - T.rows[i][d + c]; double s = std::fabs(b(c)) + std::fabs(T.rows[i][d + c]);
			for(std::size_t j = 0; j < d; ++j){ r += W(c, j) * T.rows[i][j]; s += std::fabs(W(c, j) * T.rows[i][j]); }
			gb[c] += r;
			for(std::size_t j = 0; j < d; ++j){ gW[c][j] += r * T.rows[i][j]; scale += s * std::fabs(T.rows[i][j]); }
			scale += s;
		}
		for(std::size_t c = 0; c < k; ++c) for(std::size_t j = 0; j < d; ++j){ gW[c][j] += lambda * W(c, j); scale += std::fabs(lambda * W(c, j)); }
		double worst = 0;
		for(std::size_t c = 0; c < k; ++c){ worst = std::max(worst, std::fabs(gb[c])); for(std::size_t j = 0; j < d; ++j) worst = std::max(worst, std::fabs(gW[c][j])); }
		if(!(worst <= 1e-9 * scale)) o.fail("linreg-gradient");
	}
	// batch-partition independence
	std::vector<std::vector<std::size_t> > parts = T.otherPartitions();
	for(std::size_t p = 0; p < parts.size(); ++p){
		LabeledData<RealVector, RealVector> other = createLabeledDataFromRange(X, L, n);
		other.repartition(parts[p]);
		LinearModel<> m2; trainer.train(m2, other);
		if(finite && (!closeMat(W, m2.matrix(), 1e-12) || !closeVec(b, m2.offset(), 1e-12))) o.fail("batch-dependent");
	}
	return o.line("ok", inexact);
}

// whiten|zca tNum tLog2Den | table ; covariance of the transformed training data must be t * I
template<class Trainer>
static std::string whitenOp(Args& A, bool zca, Trainer* sessionTrainer, Session* S){
	long long tNum = A.next(); std::size_t tShift = A.nat();
	if(A.bad || tShift > 40) return "bad-op";
	Table T; if(!T.read(A, 0) || !A.done() || T.d == 0) return "bad-op";
	double target = std::ldexp((double)tNum, -(int)tShift);
	Out o;
	UnlabeledData<RealVector> data = T.unlabeled();
	LinearModel<> freshModel;
	LinearModel<>& model = S ? S->lin : freshModel;
	fpClear();
	try{
		if(S){ *sessionTrainer = Trainer(target); sessionTrainer->train(model, data); }
		else{ Trainer trainer(target); trainer.train(model, data); }
	}
	catch(shark::Exception const&){ return "exc"; }
	bool inexact = fpInexact();
	RealMatrix W = model.matrix(); RealVector b = model.hasOffset() ? model.offset() : RealVector(W.size1(), 0.0);
	if(S){
		LinearModel<> m2; Trainer t2(target); t2.train(m2, data);
		if(m2.hasOffset() != model.hasOffset() || !sameMat(W, m2.matrix()) || (m2.hasOffset() && !sameVec(model.offset(), m2.offset()))) o.fail("reuse-dependent");
	}
	o.nat("rank", W.size1()); o.mat("W", W); o.vec("b", b);
	std::size_t r = W.size1();
	bool finite = true;
	for(std::size_t i = 0; i < r; ++i){ if(!std::isfinite(b(i))) finite = false; for(std::size_t j = 0; j < T.d; ++j) if(!std::isfinite(W(i, j))) finite = false; }
	if(!finite){ o.fail(zca ? "zca-nonfinite" : "whitening-nonfinite"); return o.line("ok", inexact); }
	std::vector<std::vector<double> > y(T.n, std::vector<double>(r, 0.0));
	for(std::size_t i = 0; i < T.n; ++i) for(std::size_t a = 0; a < r; ++a){
		double s = b(a); for(std::size_t j = 0; j < T.d; ++j) s += W(a, j) * T.rows[i][j]; y[i][a] = s; }
	std::vector<double> ym, yv; plainMeanVar(y, r, ym, yv);
	double wscale = 0; for(std::size_t a = 0; a < r; ++a) for(std::size_t j = 0; j < T.d; ++j) wscale = std::max(wscale, std::fabs(W(a, j)));
	// rank of the input covariance by plain Gaussian elimination with full pivoting
	std::size_t rank = 0; double condEst = 1;       // largest diagonal entry / smallest accepted pivot
	{ std::vector<double> xm, xv; plainMeanVar(T.rows, T.d, xm, xv);
	  std::vector<std::vector<double> > Cx(T.d, std::vector<double>(T.d, 0.0)); double big = 0;
	  for(std::size_t i = 0; i < T.n; ++i) for(std::size_t a = 0; a < T.d; ++a) for(std::size_t c = 0; c < T.d; ++c) Cx[a][c] += (T.rows[i][a] - xm[a]) * (T.rows[i][c] - xm[c]) / (double)T.n;
	  for(std::size_t a = 0; a < T.d; ++a) big = std::max(big, Cx[a][a]);
	  std::vector<bool> usedR(T.d, false), usedC(T.d, false);
	  for(std::size_t step = 0; step < T.d; ++step){
		std::size_t pr = 0, pc = 0; double best = 0;
		for(std::size_t a = 0; a < T.d; ++a) if(!usedR[a]) for(std::size_t c = 0; c < T.d; ++c) if(!usedC[c] && std::fabs(Cx[a][c]) > best){ best = std::fabs(Cx[a][c]); pr = a; pc = c; }
		if(!(best > 1e-9 * (big + 1e-300))) break;
		usedR[pr] = usedC[pc] = true; ++rank; condEst = std::max(condEst, big / best);
		for(std::size_t a = 0; a < T.d; ++a) if(a != pr){ double f = Cx[a][pc] / Cx[pr][pc]; for(std::size_t c = 0; c < T.d; ++c) Cx[a][c] -= f * Cx[pr][c]; }
	  } }
	if(!zca && r != rank) o.fail("whitening-rank");
	// batch-partition independence.  The whitening factor itself is not unique (the pivoted Cholesky decomposition
	// breaks ties between equal pivots on rounding noise), W^T W = t * Cov^-1 is: compared for regular covariances
	if(rank == T.d){
		std::vector<std::vector<std::size_t> > parts = T.otherPartitions();
		RealMatrix G = prod(trans(W), W);
		for(std::size_t p = 0; p < parts.size(); ++p){
			UnlabeledData<RealVector> other = T.unlabeled(parts[p]);
			LinearModel<> m2; Trainer t2(target); t2.train(m2, other);
			RealMatrix G2 = prod(trans(m2.matrix()), m2.matrix());
			// the covariances of two partitions differ by rounding (relative 1e-16), which Cov^-1 / Cov^-1/2 amplify by the condition number
			double tolB = std::max(1e-8, 1e-12 * condEst);
			if(!closeMat(G, G2, tolB) || (zca && !closeMat(W, m2.matrix(), tolB))) o.fail("batch-dependent");
		}
	}
	std::vector<std::vector<double> > Cy(r, std::vector<double>(r, 0.0));
	for(std::size_t a = 0; a < r; ++a){
		if(!(std::fabs(ym[a]) <= 1e-8 * (1 + wscale * 64))) o.fail("whitening-mean");
		for(std::size_t c = 0; c < r; ++c){
			double s = 0; for(std::size_t i = 0; i < T.n; ++i) s += (y[i][a] - ym[a]) * (y[i][c] - ym[c]);
			Cy[a][c] = s / (double)T.n;
		}
	}
	if(!zca || rank == T.d){
		// covariance of the transformed training data = target * identity
		for(std::size_t a = 0; a < r; ++a) for(std::size_t c = 0; c < r; ++c)
			if(!(std::fabs(Cy[a][c] - (a == c ? target : 0.0)) <= 1e-7 * (1 + target))) o.fail(zca ? "zca-covariance" : "whitening-covariance");
	}else{
		// singular covariance: ZCA can only whiten the subspace the data varies in; the output covariance
		// must be target * (orthogonal projector of rank `rank`): Cy*Cy = target*Cy, trace = target*rank
		double tr = 0;
		for(std::size_t a = 0; a < r; ++a){ tr += Cy[a][a]; for(std::size_t c = 0; c < r; ++c){
			double s = 0; for(std::size_t k = 0; k < r; ++k) s += Cy[a][k] * Cy[k][c];
			if(!(std::fabs(s - target * Cy[a][c]) <= 1e-7 * (1 + target * target))) o.fail("zca-covariance-singular");
		} }
		if(!(std::fabs(tr - target * (double)rank) <= 1e-7 * (1 + target) * (double)T.d)) o.fail("zca-covariance-singular");
	}
	return o.line("ok", inexact);
}

static std::string dispatch(std::string const& op, Args& A, Session* S){
	if(op == "meanvar") return opMeanVar(A, S);
	if(op == "unitvar") return opUnitVar(A, S);
	if(op == "unitint") return opUnitInt(A, S);
	if(op == "linreg") return opLinReg(A, S);
	if(op == "whiten") return whitenOp<NormalizeComponentsWhitening>(A, false, S ? &S->whiten : 0, S);
	if(op == "zca") return whitenOp<NormalizeComponentsZCA>(A, true, S ? &S->zca : 0, S);
	return "bad-op";
}

int main(){ return runProtocol<Session>(dispatch); }
