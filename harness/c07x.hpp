// shared part of harness/c07x.cpp (dense inputs, main, oracle) and harness/c07xs.cpp (sparse inputs): configuration, training
#ifndef VERIF_C07X_HPP
#define VERIF_C07X_HPP
#include <shark/Models/Kernels/LinearKernel.h>
#include <shark/Models/Kernels/GaussianRbfKernel.h>
#define private public
#define protected public
#include <shark/Algorithms/Trainers/CSvmTrainer.h>
#undef protected
#undef private
#include <shark/Algorithms/Trainers/EpsilonSvmTrainer.h>
#include <shark/Algorithms/Trainers/OneClassSvmTrainer.h>
#include <shark/Algorithms/Trainers/RankingSvmTrainer.h>
#include <shark/Algorithms/Trainers/MissingFeatureSvmTrainer.h>
#include "common.hpp"
#include <cmath>
#include <memory>
#include <iomanip>
using namespace shark;

inline std::string tok(double x){
	if(std::isnan(x)) return "nan";
	if(std::isinf(x)) return x > 0 ? "inf" : "-inf";
	if(x == 0) return std::signbit(x) ? "-0@0" : "0@0";
	int e; double m = std::frexp(x, &e);
	long long mi = (long long)std::ldexp(m, 53); e -= 53;
	while(mi % 2 == 0){ mi /= 2; ++e; }
	std::ostringstream os; os << mi << "@" << e; return os.str();
}
inline double untok(std::string const& t){
	if(t == "inf") return 1e100;
	std::size_t at = t.find('@');
	return std::ldexp((double)std::stoll(t.substr(0, at)), std::stoi(t.substr(at + 1)));
}

struct Cfg{
	std::string kind, kern; double gamma; bool bias, shrink; int pre; std::size_t cache; double eps; unsigned long long maxit; double maxsec;
	int warmmode; unsigned long long warmit; double warmfac; bool weighted; double p1, p2; bool dbl, sparse;
	std::size_t n, d;
	std::vector<std::vector<double> > xs; std::vector<double> ys, ws, a1;
};
struct Result{ std::vector<double> alpha; double b, value, accuracy; int type; unsigned long long it; };
namespace {

template<class V> static void fillPoint(V& x, std::vector<double> const& v){ x.resize(v.size()); for(std::size_t i = 0; i != v.size(); ++i) x(i) = v[i]; }
template<> void fillPoint<CompressedRealVector>(CompressedRealVector& x, std::vector<double> const& v){
	x.resize(v.size()); x.clear();
	for(std::size_t i = 0; i != v.size(); ++i) if(v[i] != 0) x.set_element(x.end(), i, v[i]);
}

template<class Trainer> static void configure(Trainer& t, Cfg const& c, unsigned long long maxit){
	t.sparsify() = false;
	t.shrinking() = c.shrink;
	t.precomputeKernel() = c.pre == 1;
	if(c.cache && c.pre == 0) t.setCacheSize(c.cache);
	t.stoppingCondition().minAccuracy = c.eps;
	t.stoppingCondition().maxIterations = maxit;
	if(c.maxsec < 1e100) t.stoppingCondition().maxSeconds = c.maxsec;
}
template<class Trainer> static void props(Trainer& t, Result& r){
	r.value = t.solutionProperties().value; r.accuracy = t.solutionProperties().accuracy;
	r.type = (int)t.solutionProperties().type; r.it = t.solutionProperties().iterations;
}

// the trainer's own code with the cache size honoured: what trainBinary does, with CachedMatrix(&km, cache)
template<class KM, class V, class F> static void pipeWith(KM& km, CSvmTrainer<V, F>& t, KernelExpansion<V>& f, Cfg const& c,
		LabeledData<V, unsigned int> const& data, WeightedLabeledData<V, unsigned int> const& wdata){
	CachedMatrix<KM> matrix(&km, c.cache);
	if(c.weighted){
		GeneralQuadraticProblem<CachedMatrix<KM> > problem(matrix, wdata.labels(), wdata.weights(), t.m_regularizers);
		t.optimize(f, problem, wdata.data());
	}else{
		CSVMProblem<CachedMatrix<KM> > problem(matrix, data.labels(), t.m_regularizers);
		t.optimize(f, problem, data);
	}
}
template<class V, class F> static void pipeMatrix(CSvmTrainer<V, F>& t, KernelExpansion<V>& f, Cfg const& c,
		LabeledData<V, unsigned int> const& data, WeightedLabeledData<V, unsigned int> const& wdata){
	KernelMatrix<V, F> km(*t.m_kernel, data.inputs());
	pipeWith(km, t, f, c, data, wdata);
}
// sparse inputs: like trainBinary, a Gaussian kernel goes through the optimised GaussianKernelMatrix
template<class F> static void pipeMatrix(CSvmTrainer<CompressedRealVector, F>& t, KernelExpansion<CompressedRealVector>& f, Cfg const& c,
		LabeledData<CompressedRealVector, unsigned int> const& data, WeightedLabeledData<CompressedRealVector, unsigned int> const& wdata){
	typedef GaussianRbfKernel<CompressedRealVector> Gaussian;
	Gaussian const* kernel = dynamic_cast<Gaussian const*>(t.m_kernel);
	if(kernel != 0){
		GaussianKernelMatrix<CompressedRealVector, F> km(kernel->gamma(), data.inputs());
		pipeWith(km, t, f, c, data, wdata);
	}else{
		KernelMatrix<CompressedRealVector, F> km(*t.m_kernel, data.inputs());
		pipeWith(km, t, f, c, data, wdata);
	}
}
template<class V, class F> static void pipeTrain(CSvmTrainer<V, F>& t, KernelClassifier<V>& svm, Cfg const& c,
		LabeledData<V, unsigned int> const& data, WeightedLabeledData<V, unsigned int> const& wdata){
	auto& f = svm.decisionFunction();
	if(!(f.basis() == data.inputs() && f.kernel() == t.m_kernel && f.alpha().size1() == c.n && f.alpha().size2() == 1))
		f.setStructure(t.m_kernel, data.inputs(), t.m_trainOffset);
	else if(t.m_trainOffset) f.offset() = RealVector(1);
	pipeMatrix(t, f, c, data, wdata);
}

template<class V, class F> static Result train(Cfg const& c){
	LinearKernel<V> lin; GaussianRbfKernel<V> rbf(c.gamma);
	AbstractKernelFunction<V>* k = c.kern == "lin" ? (AbstractKernelFunction<V>*)&lin : (AbstractKernelFunction<V>*)&rbf;
	std::size_t n = c.n;
	std::vector<V> pts(n);
	for(std::size_t i = 0; i != n; ++i) fillPoint(pts[i], c.xs[i]);
	Result r; r.b = 0;
	if(c.kind == "c"){
		std::vector<unsigned int> labels(n);
		for(std::size_t i = 0; i != n; ++i) labels[i] = c.ys[i] > 0 ? 1 : 0;
		LabeledData<V, unsigned int> data = createLabeledDataFromRange(pts, labels);
		WeightedLabeledData<V, unsigned int> wdata(data, 1.0);
		if(c.weighted){ std::size_t i = 0; for(auto& w : wdata.weights().elements()) w = c.ws[i++]; }
		KernelClassifier<V> svm;
		int first = (c.warmmode == 1 || c.warmmode == 4) ? 0 : 1;
		if(c.warmmode == 2 || c.warmmode == 3){
			svm.decisionFunction().setStructure(k, data.inputs(), c.bias);
			if(c.warmmode == 2) for(std::size_t i = 0; i != n; ++i) svm.decisionFunction().alpha()(i, 0) = c.a1[i];
			else{
				// a machine trained on the first `warmit` examples; its coefficients, padded with zeros, are the start vector
				std::size_t m = std::min<std::size_t>(std::max<std::size_t>(c.warmit, 1), n);
				std::vector<V> sub(m); std::vector<unsigned int> sl(labels.begin(), labels.begin() + m);
				for(std::size_t i = 0; i != m; ++i) fillPoint(sub[i], c.xs[i]);
				bool two = false; for(std::size_t i = 0; i != m; ++i) if(sl[i] != sl[0]) two = true;
				if(two){
					LabeledData<V, unsigned int> sdata = createLabeledDataFromRange(sub, sl);
					KernelClassifier<V> ssvm;
					std::unique_ptr<CSvmTrainer<V, F> > t(c.p1 == c.p2 ? new CSvmTrainer<V, F>(k, c.p1, c.bias) : new CSvmTrainer<V, F>(k, c.p1, c.p2, c.bias));
					configure(*t, c, c.maxit);
					t->train(ssvm, sdata);
					for(std::size_t i = 0; i != m; ++i) svm.decisionFunction().alpha()(i, 0) = ssvm.decisionFunction().alpha()(i, 0);
				}
			}
		}
		for(int phase = first; phase != 2; ++phase){
			double f = phase == 0 ? c.warmfac : 1.0;
			std::unique_ptr<CSvmTrainer<V, F> > t(c.p1 == c.p2
				? new CSvmTrainer<V, F>(k, c.p1 * f, phase == 0 && c.warmmode == 4 ? !c.bias : c.bias)
				: new CSvmTrainer<V, F>(k, c.p1 * f, c.p2 * f, phase == 0 && c.warmmode == 4 ? !c.bias : c.bias));
			configure(*t, c, phase == 0 ? c.warmit : c.maxit);
			if(c.pre == 2) pipeTrain(*t, svm, c, data, wdata);
			else if(c.weighted) t->train(svm, wdata); else t->train(svm, data);
			props(*t, r);
		}
		for(std::size_t i = 0; i != n; ++i) r.alpha.push_back(svm.decisionFunction().alpha()(i, 0));
		// the offset the returned machine really evaluates with (a machine trained without bias must not have one)
		r.b = svm.decisionFunction().hasOffset() ? svm.decisionFunction().offset()(0) : 0.0;
	}else if(c.kind == "q"){
		std::vector<unsigned int> labels(n);
		for(std::size_t i = 0; i != n; ++i) labels[i] = c.ys[i] > 0 ? 1 : 0;
		LabeledData<V, unsigned int> data = createLabeledDataFromRange(pts, labels);
		// NB: the constructors of SquaredHingeCSvmTrainer forward their `unconstrained` argument into the `offset` slot of
		// AbstractSvmTrainer: passing true is the only public way to train the squared-hinge machine with a bias
		std::unique_ptr<SquaredHingeCSvmTrainer<V, F> > t(c.p1 == c.p2
			? new SquaredHingeCSvmTrainer<V, F>(k, c.p1, c.bias) : new SquaredHingeCSvmTrainer<V, F>(k, c.p1, c.p2, c.bias));
		configure(*t, c, c.maxit);
		KernelClassifier<V> svm;
		t->train(svm, data);
		props(*t, r);
		for(std::size_t i = 0; i != n; ++i) r.alpha.push_back(svm.decisionFunction().alpha()(i, 0));
		r.b = c.bias ? svm.decisionFunction().offset()(0) : 0.0;
	}else if(c.kind == "e"){
		std::vector<RealVector> labels(n, RealVector(1));
		for(std::size_t i = 0; i != n; ++i) labels[i](0) = c.ys[i];
		LabeledData<V, RealVector> data = createLabeledDataFromRange(pts, labels);
		EpsilonSvmTrainer<V, F> t(k, c.p1, c.p2);
		configure(t, c, c.maxit);
		KernelExpansion<V> svm;
		t.train(svm, data);
		props(t, r);
		for(std::size_t i = 0; i != n; ++i) r.alpha.push_back(svm.alpha()(i, 0));
		r.b = svm.offset()(0);
	}else if(c.kind == "o"){
		UnlabeledData<V> data = createDataFromRange(pts);
		OneClassSvmTrainer<V, F> t(k, c.p1);
		configure(t, c, c.maxit);
		KernelExpansion<V> svm;
		t.train(svm, data);
		props(t, r);
		for(std::size_t i = 0; i != n; ++i) r.alpha.push_back(svm.alpha()(i, 0));
		r.b = svm.offset()(0);
	}else if(c.kind == "r"){
		std::vector<unsigned int> labels(n);
		for(std::size_t i = 0; i != n; ++i) labels[i] = (unsigned int)c.ys[i];
		LabeledData<V, unsigned int> data = createLabeledDataFromRange(pts, labels);
		RankingSvmTrainer<V, F> t(k, c.p1);
		configure(t, c, c.maxit);
		KernelExpansion<V> svm;
		t.train(svm, data);
		props(t, r);
		for(std::size_t i = 0; i != n; ++i) r.alpha.push_back(svm.alpha()(i, 0));
	}
	return r;
}


}
#endif
