// K-C18, fourth translation unit: multi-objective optimizers (and through them CMAIndividual / Individual /
// CMAChromosome, the indicators, selection, mutation and recombination operators, PenalizingEvaluator,
// ReferenceVectorAdaptation, the hypervolume operators) "continue identically".
#include <shark/Algorithms/DirectSearch/MOCMA.h>
#include <shark/Algorithms/DirectSearch/SteadyStateMOCMA.h>
#include <shark/Algorithms/DirectSearch/SMS-EMOA.h>
#include <shark/Algorithms/DirectSearch/RealCodedNSGAII.h>
#ifdef C18_HAVE_MOEAD_RVEA   // set by the compile probe of checks/c18.py (finding F-C18-3 while it fails)
#include <shark/Algorithms/DirectSearch/MOEAD.h>
#include <shark/Algorithms/DirectSearch/RVEA.h>
#endif
#include <shark/ObjectiveFunctions/Benchmarks/ZDT1.h>
#include <shark/ObjectiveFunctions/Benchmarks/Ellipsoid.h>
#include <shark/Algorithms/DirectSearch/GridSearch.h>
#include <shark/Algorithms/DirectSearch/Operators/Indicators/AdditiveEpsilonIndicator.h>
#include <shark/Algorithms/DirectSearch/Operators/Indicators/CrowdingDistance.h>
#include <shark/Algorithms/DirectSearch/Operators/Indicators/NSGA3Indicator.h>
#include <shark/Algorithms/DirectSearch/Operators/Hypervolume/HypervolumeCalculator.h>
#include <shark/Algorithms/DirectSearch/Operators/Hypervolume/HypervolumeContribution.h>
#include <shark/Algorithms/DirectSearch/Operators/Mutation/BitflipMutator.h>
#include <shark/Algorithms/DirectSearch/Operators/Recombination/UniformCrossover.h>
#include <shark/Algorithms/DirectSearch/Operators/Recombination/PartiallyMappedCrossover.h>
#include <shark/Statistics/Distributions/MultiNomialDistribution.h>
#include <shark/Core/utility/KeyValuePair.h>
#include <shark/Core/ResultSets.h>
#include <shark/Core/Flags.h>
#include <shark/LinAlg/Base.h>
#include "common.hpp"
#include "c18.hpp"
#include <src/Algorithms/DirectSearch/Operators/Lattice.cpp>
#ifdef C18_HAVE_MOEAD_RVEA
#include <src/Algorithms/DirectSearch/MOEAD.cpp>
#include <src/Algorithms/DirectSearch/RVEA.cpp>
#endif

using namespace shark;
namespace {
template<class O> void configure(O& o){ o.mu() = 6; }
#ifdef C18_HAVE_MOEAD_RVEA
void configure(RVEA& o){ o.approxMu() = 6; o.maxIterations() = 40; }
void configure(MOEAD& o){ o.mu() = 6; o.neighbourhoodSize() = 3; }
#endif

template<class O> std::string front(O& o){
	std::string s;
	for(auto const& p: o.solution()) s += c18::vecStr(p.point) + "=" + c18::vecStr(p.value) + ";";
	return s;
}
// k steps, write; the target was initialised and stepped on its own (used); read twice; the external random
// number generator of the target is given the state of the original's; compare the next fronts exactly
template<class O>
std::string continues(std::string const& label, std::size_t warm, bool binary){
	random::rng_type rngA, rngB; rngA.seed(42); rngB.seed(99);
	benchmarks::ZDT1 f(4);
	f.init();
	O a(rngA), b(rngB);
	configure(a); configure(b);
	a.init(f);
	for(std::size_t i = 0; i != warm; ++i) a.step(f);
	b.init(f); b.step(f); b.step(f);
	std::string bytesA = c18::bytes(a, binary);
	c18::load(bytesA, b, binary); c18::load(bytesA, b, binary);
	std::string bytesB = c18::bytes(b, binary);
	rngB = rngA;
	std::string A, B;
	for(std::size_t i = 0; i != 3; ++i){ a.step(f); A += front(a) + "|"; }
	for(std::size_t i = 0; i != 3; ++i){ b.step(f); B += front(b) + "|"; }
	if(A.find("inf") != std::string::npos || A.find("nan") != std::string::npos) return "obj " + label + " non-finite-state";
	if(A != B) return c18::differs(label, "next-iterates-differ", A, B);
	if(bytesA != bytesB) return c18::differs(label, "rewritten-archive-differs", binary ? "(binary)" : bytesA, binary ? "(binary)" : bytesB);
	return "obj " + label + " same";
}
}

std::string c18::runMoo(std::string const& label, bool binary){
	std::size_t dash = label.rfind("-after-");
	if(dash == std::string::npos) return "bad-op";
	std::size_t warm = std::stoull(label.substr(dash + 7));
	std::string base = label.substr(0, dash);
	if(base == "MOCMA") return continues<MOCMA>(label, warm, binary);
	if(base == "SteadyStateMOCMA") return continues<SteadyStateMOCMA>(label, warm, binary);
	if(base == "SMSEMOA") return continues<SMSEMOA>(label, warm, binary);
	if(base == "RealCodedNSGAII") return continues<RealCodedNSGAII>(label, warm, binary);
#ifdef C18_HAVE_MOEAD_RVEA
	if(base == "MOEAD") return continues<MOEAD>(label, warm, binary);
	if(base == "RVEA") return continues<RVEA>(label, warm, binary);
#else
	if(base == "MOEAD" || base == "RVEA") return "obj " + label + " not-archivable";
#endif
	return "bad-op";
}

// ---- containers, result sets, operators, grid searches: classes that are serializable on their own --------------
namespace {
using c18::history; using c18::vecStr; using c18::matStr;
std::vector<RealVector> front2d(int variant){
	std::vector<RealVector> f;
	double pts[5][2] = {{1, 9}, {2, 6}, {4, 5}, {6, 2}, {9, 1}};
	for(std::size_t i = 0; i != 5; ++i){ RealVector p(2); p(0) = pts[i][0] + 0.25 * variant; p(1) = pts[i][1]; f.push_back(p); }
	return f;
}
template<class GS, class Cfg> std::string gridHistory(std::string const& label, Cfg cfg, bool binary){
	benchmarks::Ellipsoid f(2); f.init();
	GS a, a2, b;
	cfg(a, 0); cfg(a2, 1); cfg(b, 2);
	RealVector s(2, 0.5);
	a.init(f, s); a.step(f); a2.init(f, s); a2.step(f); a2.step(f); b.init(f, s);
	auto beh = [&](GS& g){
		std::string r = "best=" + vecStr(g.solution().point) + "=" + vh::exactDouble(g.solution().value);
		GS c; c18::load(c18::bytes(g, false), c, false);      // continue on a copy made through an archive
		c.step(f);
		return r + " next=" + vecStr(c.solution().point) + "=" + vh::exactDouble(c.solution().value);
	};
	return history(label, a, a2, b, beh, binary);
}
}
std::string c18::runMisc(std::string const& label, bool binary){
	if(label == "compressed_vector"){
#ifdef C18_HAVE_CVEC
		typedef CompressedRealVector CV;
		CV a(6), a2(9), b(3);
		a.set_element(a.end(), 1, 2.5); a.set_element(a.end(), 4, -1.0);
		a2.set_element(a2.end(), 0, 7.0); a2.set_element(a2.end(), 3, 0.5); a2.set_element(a2.end(), 8, 3.0);
		b.set_element(b.end(), 2, 9.0);
		auto beh = [](CV& v){
			std::string s = "size=" + std::to_string(v.size()) + " nnz=" + std::to_string(v.nnz()) + " ";
			for(auto it = v.begin(); it != v.end(); ++it) s += std::to_string(it.index()) + "=" + vh::exactDouble(*it) + ",";
			RealVector d(v.size(), 1.0); s += " dot=" + vh::exactDouble(inner_prod(v, d));
			return s;
		};
		return history(label, a, a2, b, beh, binary, false);
#else
		return "obj " + label + " not-archivable";
#endif
	}
	// (remora::triangular_matrix: BLAS/triangular_matrix.hpp includes detail/matrix_proxy_classes.hpp, which does not exist —
	//  the header cannot be compiled in this tree, so the class cannot be instantiated)
	if(label == "cholesky_decomposition" || label == "symm_eigenvalue_decomposition"){
		RealMatrix A(3, 3), A2(2, 2), B(1, 1, 4.0);
		double va[3][3] = {{4, 2, 0}, {2, 5, 1}, {0, 1, 3}};
		for(std::size_t i = 0; i != 3; ++i) for(std::size_t j = 0; j != 3; ++j) A(i,j) = va[i][j];
		A2(0,0) = 9; A2(0,1) = A2(1,0) = 3; A2(1,1) = 5;
		if(label == "cholesky_decomposition"){
			typedef remora::cholesky_decomposition<RealMatrix> C;
			C a(A), a2(A2), b(B);
			auto beh = [](C& c){ RealVector r(c.lower_factor().size1(), 1.0); c.solve(r, remora::left()); return "L=" + matStr(c.lower_factor()) + " solve=" + vecStr(r); };
			return history(label, a, a2, b, beh, binary);
		}
		typedef remora::symm_eigenvalue_decomposition<RealMatrix> E;
		E a(A), a2(A2), b(B);
		auto beh = [](E& e){ return "Q=" + matStr(e.Q()) + " D=" + vecStr(e.D()); };
		return history(label, a, a2, b, beh, binary);
	}
	if(label == "KeyValuePair"){
		typedef KeyValuePair<double, std::size_t> KV;
		KV a(2.5, 7), a2(-1.0, 3), b(0.0, 0);
		return history(label, a, a2, b, [](KV& k){ return vh::exactDouble(k.key) + ":" + std::to_string(k.value); }, binary);
	}
	if(label == "ResultSet" || label == "ValidatedSingleObjectiveResultSet"){
		RealVector p(3); p(0) = 1; p(1) = -2.5; p(2) = 0.125; RealVector q(1, 4.0), e;
		typedef SingleObjectiveResultSet<RealVector> R;
		if(label == "ResultSet"){
			R a(0.75, p), a2(-3.0, q), b(9.0, e);
			return history(label, a, a2, b, [](R& r){ return vecStr(r.point) + "=" + vh::exactDouble(r.value); }, binary);
		}
		typedef ValidatedSingleObjectiveResultSet<RealVector> V;
		V a(R(0.75, p), 0.5), a2(R(-3.0, q), 2.0), b(R(9.0, e), -1.0);
		return history(label, a, a2, b, [](V& r){ return vecStr(r.point) + "=" + vh::exactDouble(r.value) + "/" + vh::exactDouble(r.validation); }, binary);
	}
	if(label == "TypedFlags"){
		typedef TypedFlags<unsigned int> F;
		F a, a2, b; a.set(1u); a.set(8u); a2.set(4u); b.setAll();
		return history(label, a, a2, b, [](F& f){ std::string s; for(unsigned k = 1; k <= 16; k *= 2) s += f.test(k) ? "1" : "0"; return s; }, binary);
	}
	if(label == "MultiNomialDistribution"){
		RealVector pa(4), pa2(2), pb(3);
		pa(0) = 0.125; pa(1) = 0.5; pa(2) = 0.25; pa(3) = 0.125; pa2(0) = 0.75; pa2(1) = 0.25; pb(0) = pb(1) = 0.25; pb(2) = 0.5;
		MultiNomialDistribution a(pa), a2(pa2), b(pb);
		auto beh = [](MultiNomialDistribution& d){
			random::rng_type rng; rng.seed(3);
			std::string s = "p=" + vecStr(d.probabilities()) + " draws=";
			for(std::size_t i = 0; i != 12; ++i) s += std::to_string(d(rng)) + ",";
			return s;
		};
		return history(label, a, a2, b, beh, binary);
	}
	if(label == "AdditiveEpsilonIndicator" || label == "CrowdingDistance"){
		// stateless operators (empty serialize): the round trip must leave them usable and must not disturb the stream
		std::vector<RealVector> f = front2d(0);
		if(label == "AdditiveEpsilonIndicator"){
			AdditiveEpsilonIndicator a, a2, b;
			return history(label, a, a2, b, [&](AdditiveEpsilonIndicator& i){ return std::to_string(i.leastContributor(f, f)); }, binary);
		}
		CrowdingDistance a, a2, b;
		return history(label, a, a2, b, [&](CrowdingDistance& i){ return std::to_string(i.leastContributor(f, f)); }, binary);
	}
	if(label == "NSGA3Indicator"){
		NSGA3Indicator a, a2, b;
		a.setReferencePoints(front2d(0)); a2.setReferencePoints(front2d(2)); { std::vector<RealVector> z(1, RealVector(2, 1.0)); b.setReferencePoints(z); }
		std::vector<RealVector> f = front2d(1);
		auto beh = [&](NSGA3Indicator& i){
			std::string s; for(std::size_t k: i.leastContributors(f, f, 3)) s += std::to_string(k) + ",";
			return s;
		};
		return history(label, a, a2, b, beh, binary);
	}
	if(label == "HypervolumeCalculator" || label == "HypervolumeContribution"){
		std::vector<RealVector> f = front2d(0); RealVector ref(2, 11.0);
		if(label == "HypervolumeCalculator"){
			HypervolumeCalculator a, a2, b;
			a.approximationEpsilon() = 0.125; a.approximationDelta() = 0.25; a2.useApproximation(true); a2.approximationEpsilon() = 0.5; b.useApproximation(true); b.approximationDelta() = 0.75;
			auto beh = [&](HypervolumeCalculator& h){ return "eps=" + vh::exactDouble(h.approximationEpsilon()) + " delta=" + vh::exactDouble(h.approximationDelta()) + " hv=" + vh::exactDouble(h(f, ref)); };
			return history(label, a, a2, b, beh, binary);
		}
		HypervolumeContribution a, a2, b;
		a.approximationEpsilon() = 0.125; a.approximationDelta() = 0.25; a2.useApproximation(true); a2.approximationEpsilon() = 0.5; b.useApproximation(true); b.approximationDelta() = 0.75;
		auto beh = [&](HypervolumeContribution& h){
			std::string s = "eps=" + vh::exactDouble(h.approximationEpsilon()) + " delta=" + vh::exactDouble(h.approximationDelta()) + " smallest=";
			for(auto const& kv: h.smallest(f, 2, ref)) s += std::to_string(kv.value) + ":" + vh::exactDouble(kv.key) + ",";
			return s;
		};
		return history(label, a, a2, b, beh, binary);
	}
	if(label == "BitflipMutator"){
		BitflipMutator a, a2, b; a.m_mutationStrength = 0.125; a2.m_mutationStrength = 0.75; b.m_mutationStrength = 0.5;
		return history(label, a, a2, b, [](BitflipMutator& m){ return vh::exactDouble(m.m_mutationStrength); }, binary);
	}
	if(label == "UniformCrossover-default"){
		// the default constructor (mixing ratio 0.5, the documented default) must give a usable target object
		try{ UniformCrossover c; return "obj " + label + " same"; }
		catch(std::exception const& e){ return "obj " + label + " differs default-constructor-throws !oracle default-constructor-throws"; }
	}
	if(label == "UniformCrossover"){
		// (setMixingRatio accepts [0.9, 1] only in this tree — F-C18-7 — so the probe stays inside that range)
		UniformCrossover a(0.9375), a2(1.0), b(0.96875);
		auto beh = [](UniformCrossover& c){
			random::rng_type rng; rng.seed(5); RealVector m(6, 1.0), d(6, 2.0);
			return vh::exactDouble(c.mixingRatio()) + " child=" + vecStr(c(rng, m, d));
		};
		return history(label, a, a2, b, beh, binary);
	}
	if(label == "PartiallyMappedCrossover"){
		PartiallyMappedCrossover a, a2, b;
		return history(label, a, a2, b, [](PartiallyMappedCrossover&){ return std::string("stateless"); }, binary);
	}
	if(label == "GridSearch")
		return gridHistory<GridSearch>(label, [](GridSearch& g, int v){ if(v == 0) g.configure(2, -2.0, 2.0, 5); else if(v == 1) g.configure(-1.0, 3.0, 3, 0.5, 1.5, 4); else g.configure(2, 0.0, 1.0, 2); }, binary);
	if(label == "NestedGridSearch")
		return gridHistory<NestedGridSearch>(label, [](NestedGridSearch& g, int v){ g.configure(2, v == 0 ? -2.0 : -1.0, v == 2 ? 1.0 : 3.0); }, binary);
	if(label == "PointSearch")
		return gridHistory<PointSearch>(label, [](PointSearch& g, int v){
			std::vector<RealVector> pts;
			for(int i = 0; i != 3 + v; ++i){ RealVector p(2); p(0) = 0.5 * i - v; p(1) = 1.0 - 0.25 * i; pts.push_back(p); }
			g.configure(pts); }, binary);
	return "bad-op";
}
