// K-C18, fourth translation unit: multi-objective optimizers (and through them CMAIndividual / Individual /
// CMAChromosome, the indicators, selection, mutation and recombination operators, PenalizingEvaluator,
// ReferenceVectorAdaptation, the hypervolume operators) "continue identically".
#include <shark/Algorithms/DirectSearch/MOCMA.h>
#include <shark/Algorithms/DirectSearch/SteadyStateMOCMA.h>
#include <shark/Algorithms/DirectSearch/SMS-EMOA.h>
#include <shark/Algorithms/DirectSearch/RealCodedNSGAII.h>
#ifdef C18_HAVE_MOEAD_RVEA   // set by the compile probe of checks/c18.py (finding F-C18-3 while it fails)
#include <shark/Algorithms/DirectSearch/MOEAD.h>
#include <shark/Algorithms/DirectSearch/RVEA.h>
#endif
#include <shark/ObjectiveFunctions/Benchmarks/ZDT1.h>
#include "common.hpp"
#include "c18.hpp"
#include <src/Algorithms/DirectSearch/Operators/Lattice.cpp>
#ifdef C18_HAVE_MOEAD_RVEA
#include <src/Algorithms/DirectSearch/MOEAD.cpp>
#include <src/Algorithms/DirectSearch/RVEA.cpp>
#endif

using namespace shark;
namespace {
template<class O> void configure(O& o){ o.mu() = 6; }
#ifdef C18_HAVE_MOEAD_RVEA
void configure(RVEA& o){ o.approxMu() = 6; o.maxIterations() = 40; }
void configure(MOEAD& o){ o.mu() = 6; o.neighbourhoodSize() = 3; }
#endif

template<class O> std::string front(O& o){
	std::string s;
	for(auto const& p: o.solution()) s += c18::vecStr(p.point) + "=" + c18::vecStr(p.value) + ";";
	return s;
}
// k steps, write; the target was initialised and stepped on its own (used); read twice; the external random
// number generator of the target is given the state of the original's; compare the next fronts exactly
template<class O>
std::string continues(std::string const& label, std::size_t warm, bool binary){
	random::rng_type rngA, rngB; rngA.seed(42); rngB.seed(99);
	benchmarks::ZDT1 f(4);
	f.init();
	O a(rngA), b(rngB);
	configure(a); configure(b);
	a.init(f);
	for(std::size_t i = 0; i != warm; ++i) a.step(f);
	b.init(f); b.step(f); b.step(f);
	std::string bytesA = c18::bytes(a, binary);
	c18::load(bytesA, b, binary); c18::load(bytesA, b, binary);
	std::string bytesB = c18::bytes(b, binary);
	rngB = rngA;
	std::string A, B;
	for(std::size_t i = 0; i != 3; ++i){ a.step(f); A += front(a) + "|"; }
	for(std::size_t i = 0; i != 3; ++i){ b.step(f); B += front(b) + "|"; }
	if(A.find("inf") != std::string::npos || A.find("nan") != std::string::npos) return "obj " + label + " non-finite-state";
	if(A != B) return c18::differs(label, "next-iterates-differ", A, B);
	if(bytesA != bytesB) return c18::differs(label, "rewritten-archive-differs", binary ? "(binary)" : bytesA, binary ? "(binary)" : bytesB);
	return "obj " + label + " same";
}
}

std::string c18::runMoo(std::string const& label, bool binary){
	std::size_t dash = label.rfind("-after-");
	if(dash == std::string::npos) return "bad-op";
	std::size_t warm = std::stoull(label.substr(dash + 7));
	std::string base = label.substr(0, dash);
	if(base == "MOCMA") return continues<MOCMA>(label, warm, binary);
	if(base == "SteadyStateMOCMA") return continues<SteadyStateMOCMA>(label, warm, binary);
	if(base == "SMSEMOA") return continues<SMSEMOA>(label, warm, binary);
	if(base == "RealCodedNSGAII") return continues<RealCodedNSGAII>(label, warm, binary);
#ifdef C18_HAVE_MOEAD_RVEA
	if(base == "MOEAD") return continues<MOEAD>(label, warm, binary);
	if(base == "RVEA") return continues<RVEA>(label, warm, binary);
#else
	if(base == "MOEAD" || base == "RVEA") return "obj " + label + " not-archivable";
#endif
	return "bad-op";
}
