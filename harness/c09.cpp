// K-C09: correspondence harness for shark::LRUCache / shark::CachedMatrix.
// Reads ops (one per line) from stdin, prints one observation line per op in
// the format of lean/Driver/C09.lean.  Template parameter: cache value type
// (double or float), chosen by argv[1].
#include <shark/LinAlg/CachedMatrix.h>
#include "common.hpp"
#include "c09_state.hpp"
#include <algorithm>

// synthetic base matrix: entry(i,j) = base(perm[i], perm[j]), base(a,b) = a*1000+b+1
template<class T>
struct SynthMatrix{
	typedef T QpFloatType;
	std::vector<std::size_t> perm;
	explicit SynthMatrix(std::size_t n): perm(n){ for(std::size_t i = 0; i != n; ++i) perm[i] = i; }
	std::size_t size() const{ return perm.size(); }
	T entry(std::size_t i, std::size_t j) const{ return T(perm[i]*1000 + perm[j] + 1); }
	T operator()(std::size_t i, std::size_t j) const{ return entry(i,j); }
	void row(std::size_t k, std::size_t start, std::size_t end, T* storage) const{
		for(std::size_t j = start; j < end; ++j) storage[j-start] = entry(k,j);
	}
	void flipColumnsAndRows(std::size_t i, std::size_t j){ std::swap(perm[i], perm[j]); }
};

template<class T>
struct Probe: public shark::CachedMatrix<SynthMatrix<T> >{
	Probe(SynthMatrix<T>* b, std::size_t cap): shark::CachedMatrix<SynthMatrix<T> >(b, cap){}
	shark::LRUCache<T>& cache(){ return this->m_cache; }
};

using c09::showLine;

// independent property oracle (does not use the Lean model): accounting, capacity,
// and -- as long as no raw cache op has overwritten lines -- truth of every entry
template<class T>
std::string oracle(Probe<T>& m, SynthMatrix<T>& base, std::size_t n, bool pure){
	shark::LRUCache<T>& c = m.cache();
	std::ostringstream os;
	for(std::size_t i = 0; i != n && pure; ++i){
		std::size_t len = c.lineLength(i);
		if(len > n) os << " !oracle line-longer-than-matrix " << i;
		T const* p = c.getLinePointer(i);
		for(std::size_t k = 0; k < len && k < n; ++k)
			if(p[k] != base.entry(i,k)){ os << " !oracle wrong-entry row=" << i << " col=" << k; break; }
	}
	return os.str() + c09::accounting(c, n);
}

template<class T>
int run(){
	bool pure = true;
	std::size_t n = 0, ctr = 0;
	// the two most recently requested rows (most recent first), for the
	// "stay valid while a third is fetched if capacity allows" clause
	c09::RecentRows<T> rr; c09::BufferIds<T> ids;
	SynthMatrix<T>* base = new SynthMatrix<T>(0);
	Probe<T>* m = new Probe<T>(base, 0);
	std::string line;
	std::vector<std::size_t> a;
	while(std::getline(std::cin, line)){
		++ctr;
		std::vector<std::string> t = vh::tokens(line);
		if(t.empty()){ std::cout << "\n"; continue; }
		std::string const& op = t[0];
		if(!vh::allNat(t, 1, a)){ std::cout << "bad-op\n"; continue; }
		std::string r;
		if(op == "new" && a.size() == 2){
			delete m; delete base;
			n = a[0]; base = new SynthMatrix<T>(n); m = new Probe<T>(base, a[1]); pure = true; ctr = 0; rr.forget(); ids.reset();
		}else if(op == "row" && a.size() == 2){
			rr.before(m->cache(), a[0], a[1]);
			T* p = m->row(a[0], 0, a[1]);
			r = rr.after(m->cache(), a[0]);
			// the returned pointer addresses the whole line
			r = "R=" + showLine(p, m->cache().lineLength(a[0])) + " " + r;
			if(pure) for(std::size_t c = 0; c < a[1]; ++c)
				if(p[c] != base->entry(a[0], c)){ r += "!oracle returned-row-wrong "; break; }
		}else if(op == "rows" && a.size() == 3){
			std::size_t len = a[2] - a[1];
			T* storage = new T[len];           // exactly the documented size: ASan sees any overrun
			m->row(a[0], a[1], a[2], storage);
			r = "R=" + showLine(storage, len) + " ";
			for(std::size_t c = 0; c < len; ++c)
				if(storage[c] != base->entry(a[0], a[1]+c)){ r += "!oracle storage-row-wrong "; break; }
			delete[] storage;
		}else if(op == "entry" && a.size() == 2){
			r = "R=" + vh::intval(m->entry(a[0], a[1])) + " ";
		}else if(op == "flip" && a.size() == 2){
			m->flipColumnsAndRows(a[0], a[1]); rr.forget();
		}else if(op == "maxidx" && a.size() == 1){
			m->setMaxCachedIndex(a[0]); rr.forget();
		}else if(op == "clear" && a.empty()){
			m->clear(); rr.forget();
		}else if((op == "get" || op == "resize") && a.size() == 2){
			std::size_t old = m->cache().lineLength(a[0]);
			pure = false; rr.forget();
			T* p;
			if(op == "get") p = m->cache().getCacheLine(a[0], a[1]);
			else { m->cache().resizeLine(a[0], a[1]); p = m->cache().getLinePointer(a[0]); }
			for(std::size_t c = old; c < a[1]; ++c) p[c] = T(ctr*512 + a[0]*40 + c);
		}else if(op == "mark" && a.size() == 1){
			m->cache().markLineForDeletion(a[0]); rr.forget();
		}else if(op == "swap" && a.size() == 2){
			m->cache().swapLineIndices(a[0], a[1]); rr.forget();
		}else{ std::cout << "bad-op\n"; continue; }
		std::string orc = oracle(*m, *base, n, pure);
		// oracle remarks go last so that the comparison with the model can strip them
		std::size_t q = r.find("!oracle");
		if(q != std::string::npos){ orc = " " + r.substr(q) + orc; r = r.substr(0, q); }
		std::cout << r << c09::showState(m->cache(), n, ids) << orc << "\n";
	}
	delete m; delete base;
	return 0;
}

int main(int argc, char** argv){
	std::string ty = argc > 1 ? argv[1] : "double";
	return ty == "float" ? run<float>() : run<double>();
}
