// K-C15 harness (part D): the closed-form KERNEL trainers of Algorithms/Trainers --
// RegularizationNetworkTrainer (= GaussianProcessTrainer, kernel ridge regression),
// KernelMeanClassifier (nearest class mean in feature space, weighted and unweighted entry point)
// and NormalizeKernelUnitVariance (a normalisation trainer: unit variance in feature space).
// Kernels: 0 = LinearKernel, 1 = PolynomialKernel(degree 2, offset 1) -- both exact on integer /
// dyadic data, so the exact-arithmetic model determines every kernel value.
// Same line protocol as c15.cpp.
#include "c15_common.hpp"
#include <shark/Models/Kernels/LinearKernel.h>
#include <shark/Models/Kernels/PolynomialKernel.h>
#include <shark/Models/Kernels/ScaledKernel.h>
#include <shark/Models/Kernels/KernelExpansion.h>
#include <shark/Algorithms/Trainers/RegularizationNetworkTrainer.h>
#include <shark/Algorithms/Trainers/KernelMeanClassifier.h>
#include <shark/Algorithms/Trainers/NormalizeKernelUnitVariance.h>
using namespace shark;
using namespace c15;

struct Kernels{
	LinearKernel<RealVector> lin; PolynomialKernel<RealVector> poly;
	Kernels(): poly(2, 1.0, false){}
	AbstractKernelFunction<RealVector>* get(std::size_t k){ return k == 0 ? (AbstractKernelFunction<RealVector>*)&lin : (AbstractKernelFunction<RealVector>*)&poly; }
};
// the same kernels with plain loops (oracle side)
static double plainKernel(std::size_t kern, std::vector<double> const& x, std::vector<double> const& y, std::size_t d){
	double s = 0; for(std::size_t j = 0; j < d; ++j) s += x[j] * y[j];
	return kern == 0 ? s : (s + 1.0) * (s + 1.0);
}

// objects that live as long as a history (`op ; op ; ...`)
struct Session{
	Kernels K;
	RegularizationNetworkTrainer<RealVector> regnet;
	KernelExpansion<RealVector> expansion;
	KernelMeanClassifier<RealVector> kmean;
	KernelClassifier<RealVector> classifier;
	NormalizeKernelUnitVariance<RealVector> nkuv;
	ScaledKernel<RealVector> scaled;
	std::size_t step;
	Session(): regnet(K.get(0), 1.0), kmean(K.get(0)), scaled(K.get(0)), step(0){}
};

// regnet kern bNum bShift k | n d nb sizes | rows of d inputs and k labels      (betaInv = bNum * 2^-bShift > 0)
static std::string opRegNet(Args& A, Session* S){
	std::size_t kern = A.nat(); long long bNum = A.next(); std::size_t bShift = A.nat(); std::size_t k = A.nat();
	if(A.bad || kern > 1 || bNum <= 0 || bShift > 40 || k == 0 || k > 16) return "bad-op";
	Table T; if(!T.read(A, k, true) || !A.done() || T.d == 0) return "bad-op";
	double betaInv = std::ldexp((double)bNum, -(int)bShift);
	std::size_t d = T.d, n = T.n;
	Out o;
	std::vector<RealVector> X = T.points(), L = T.cols(d, k);
	LabeledData<RealVector, RealVector> data = createLabeledDataFromRange(X, L, n);
	data.repartition(T.sizes);
	Kernels freshK;
	Kernels& K = S ? S->K : freshK;
	RegularizationNetworkTrainer<RealVector> freshTrainer(K.get(kern), betaInv);
	KernelExpansion<RealVector> freshModel;
	if(S){
		// history: the trainer of the previous steps is configured anew: kernel, then the regularisation through one of its
		// setters in turn (setNoiseVariance / setPrecision exist only as text in the pinned tree -- `this->C() = ...` assigns
		// to an rvalue, finding F-C15-9 -- and are used when the compile probe of checks/c15.py found them instantiable)
		S->regnet.setKernel(K.get(kern));
		switch(S->step++ % 4){
#ifdef C15_HAVE_REGNET_SETTERS
		case 0: S->regnet.setNoiseVariance(betaInv); break;
		case 1: S->regnet.setPrecision(1.0 / betaInv); break;
#endif
		case 2: { RealVector pv = S->regnet.parameterVector(); pv(pv.size() - 1) = 1.0 / betaInv; S->regnet.setParameterVector(pv); } break;   // (kernel parameters | C)
		default: S->regnet.setC(1.0 / betaInv); break;
		}
	}
	RegularizationNetworkTrainer<RealVector>& trainer = S ? S->regnet : freshTrainer;
	KernelExpansion<RealVector>& model = S ? S->expansion : freshModel;
	fpClear();
	try{ trainer.train(model, data); }
	catch(shark::Exception const&){ return "exc"; }
	bool inexact = fpInexact();
	RealMatrix alpha = model.alpha(); RealVector b = model.offset();    // alpha: n x k
	if(S){
		KernelExpansion<RealVector> m2; freshTrainer.train(m2, data);
		if(!sameMat(alpha, m2.alpha()) || !sameVec(b, m2.offset())) o.fail("reuse-dependent");
		if(trainer.precision() != 1.0 / betaInv) o.fail("reuse-configuration");
	}
	o.mat("alpha", alpha); o.vec("b", b);
	// which solver the trainer took (reported to the driver as a tag, recomputed with plain loops)
	double maxDiag = 0; for(std::size_t i = 0; i < n; ++i) maxDiag = std::max(maxDiag, plainKernel(kern, T.rows[i], T.rows[i], d) + betaInv);
	o.nat("semi", betaInv / maxDiag < 1.e-5 ? 1 : 0);
	bool finite = true;
	for(std::size_t i = 0; i < n; ++i) for(std::size_t c = 0; c < k; ++c) if(!std::isfinite(alpha(i, c))) finite = false;
	for(std::size_t c = 0; c < k; ++c) if(!std::isfinite(b(c))) finite = false;
	if(!finite){ o.fail("regnet-nonfinite"); return o.line("ok", inexact); }
	// ---- oracle (plain loops): offset = label mean; with f(x) = sum_j alpha_j k(x_j, x) + b the gradient of
	// J(alpha) = 1/2 sum_i |f(x_i) - l_i|^2 + betaInv/2 * alpha^T K alpha,   K (K alpha + betaInv alpha - (l - b)),   vanishes
	std::vector<std::vector<double> > Km(n, std::vector<double>(n));
	for(std::size_t i = 0; i < n; ++i) for(std::size_t j = 0; j < n; ++j) Km[i][j] = plainKernel(kern, T.rows[i], T.rows[j], d);
	for(std::size_t c = 0; c < k; ++c){
		double lm = 0; for(std::size_t i = 0; i < n; ++i) lm += T.rows[i][d + c];
		lm /= (double)n;
		if(!close(b(c), lm, 1e-12)) o.fail("regnet-offset");
		std::vector<double> res(n); double sc = 1;
		for(std::size_t i = 0; i < n; ++i){
			double s = betaInv * alpha(i, c) - (T.rows[i][d + c] - b(c)); double a = std::fabs(betaInv * alpha(i, c)) + std::fabs(T.rows[i][d + c]) + std::fabs(b(c));
			for(std::size_t j = 0; j < n; ++j){ s += Km[i][j] * alpha(j, c); a += std::fabs(Km[i][j] * alpha(j, c)); }
			res[i] = s; sc = std::max(sc, a);
			if(!(std::fabs(s) <= 1e-8 * (1 + a))) o.fail("regnet-system");
		}
		for(std::size_t i = 0; i < n; ++i){
			double g = 0, a = 0; for(std::size_t j = 0; j < n; ++j){ g += Km[i][j] * res[j]; a += std::fabs(Km[i][j]) * sc; }
			if(!(std::fabs(g) <= 1e-8 * (1 + a))) o.fail("regnet-gradient");
		}
	}
	// batch-partition independence
	std::vector<std::vector<std::size_t> > parts = T.otherPartitions();
	for(std::size_t p = 0; p < parts.size(); ++p){
		LabeledData<RealVector, RealVector> other = createLabeledDataFromRange(X, L, n);
		other.repartition(parts[p]);
		KernelExpansion<RealVector> m2; trainer.train(m2, other);
		// the label mean differs by rounding between partitions; the ill-conditioned branch amplifies that by up to 1e5 * n
		if(!closeMat(alpha, m2.alpha(), betaInv / maxDiag < 1.e-5 ? 1e-5 : 1e-9) || !closeVec(b, m2.offset(), 1e-12)) o.fail("batch-dependent");
	}
	return o.line("ok", inexact);
}

// kmean kern weighted | n d nb sizes | rows of d inputs, class [, integer weight >= 0]
static std::string opKMean(Args& A, Session* S){
	std::size_t kern = A.nat(), weighted = A.nat();
	if(A.bad || kern > 1 || weighted > 1) return "bad-op";
	Table T; if(!T.read(A, weighted ? 2 : 1) || !A.done() || T.d == 0) return "bad-op";
	std::size_t d = T.d, n = T.n;
	std::vector<RealVector> X = T.points(); std::vector<unsigned int> y(n); std::vector<double> w(n, 1.0);
	std::size_t C = 0;
	for(std::size_t i = 0; i < n; ++i){
		if(T.rows[i][d] < 0 || T.rows[i][d] > 64) return "bad-op";
		y[i] = (unsigned int)T.rows[i][d]; C = std::max<std::size_t>(C, y[i] + 1);
		if(weighted){ w[i] = T.rows[i][d + 1]; if(!(w[i] >= 0)) return "bad-op"; }
	}
	Out o;
	Kernels freshK;
	Kernels& K = S ? S->K : freshK;
	KernelMeanClassifier<RealVector> freshTrainer(K.get(kern));
	KernelClassifier<RealVector> freshModel;
	if(S) S->kmean.mpe_kernel = K.get(kern);
	KernelMeanClassifier<RealVector>& trainer = S ? S->kmean : freshTrainer;
	KernelClassifier<RealVector>& model = S ? S->classifier : freshModel;
	struct Mk{
		static LabeledData<RealVector, unsigned int> plain(std::vector<RealVector> const& X, std::vector<unsigned int> const& y, std::vector<std::size_t> const& part){
			LabeledData<RealVector, unsigned int> data = createLabeledDataFromRange(X, y, X.size());
			data.repartition(part); return data;
		}
		static WeightedLabeledData<RealVector, unsigned int> weightedData(std::vector<RealVector> const& X, std::vector<unsigned int> const& y,
				std::vector<double> const& w, double scale, std::vector<std::size_t> const& part){
			LabeledData<RealVector, unsigned int> data = plain(X, y, part);
			std::vector<double> ws(w); for(std::size_t i = 0; i < ws.size(); ++i) ws[i] *= scale;
			Data<double> wd = createDataFromRange(ws, ws.size()); wd.repartition(part);
			return WeightedLabeledData<RealVector, unsigned int>(data, wd);
		}
	};
	fpClear();
	try{
		if(weighted) trainer.train(model, Mk::weightedData(X, y, w, 1.0, T.sizes));
		else trainer.train(model, Mk::plain(X, y, T.sizes));                 // AbstractWeightedTrainer: weights 1
	}catch(shark::Exception const&){ return "exc"; }
	bool inexact = fpInexact();
	RealMatrix alpha = model.decisionFunction().alpha(); RealVector b = model.decisionFunction().offset();
	o.nat("classes", C); o.mat("alpha", alpha); o.vec("b", b);
	if(S){
		KernelClassifier<RealVector> m2;
		if(weighted) freshTrainer.train(m2, Mk::weightedData(X, y, w, 1.0, T.sizes)); else freshTrainer.train(m2, Mk::plain(X, y, T.sizes));
		if(!sameMat(alpha, m2.decisionFunction().alpha()) || !sameVec(b, m2.decisionFunction().offset())) o.fail("reuse-dependent");
	}
	bool finite = true;
	for(std::size_t i = 0; i < alpha.size1(); ++i) for(std::size_t c = 0; c < alpha.size2(); ++c) if(!std::isfinite(alpha(i, c))) finite = false;
	for(std::size_t c = 0; c < b.size(); ++c) if(!std::isfinite(b(c))) finite = false;
	if(!finite){ o.fail("kmean-nonfinite"); return o.line("ok", inexact); }
	// ---- oracle (plain loops): the decision value of class c at a training point x is, up to a term independent of c,
	// -1/2 |phi(x) - mu_c|^2 with mu_c the weighted class mean in feature space:  |phi(x)-mu_c|^2 = k(x,x) - 2 <phi(x),mu_c> + <mu_c,mu_c>
	std::vector<double> cw(C, 0.0); for(std::size_t i = 0; i < n; ++i) cw[y[i]] += w[i];
	std::vector<std::vector<double> > Km(n, std::vector<double>(n));
	for(std::size_t i = 0; i < n; ++i) for(std::size_t j = 0; j < n; ++j) Km[i][j] = plainKernel(kern, T.rows[i], T.rows[j], d);
	std::vector<double> mm(C, 0.0);
	for(std::size_t i = 0; i < n; ++i) for(std::size_t j = 0; j < n; ++j) if(y[i] == y[j]) mm[y[i]] += w[i] * w[j] * Km[i][j] / (cw[y[i]] * cw[y[i]]);
	for(std::size_t t = 0; t < n; ++t){
		std::vector<double> dist(C), dec(C, 0.0); double sc = 1 + std::fabs(Km[t][t]);
		for(std::size_t c = 0; c < C; ++c){
			double xm = 0; for(std::size_t i = 0; i < n; ++i) if(y[i] == c) xm += w[i] * Km[t][i] / cw[c];
			dist[c] = Km[t][t] - 2 * xm + mm[c]; sc = std::max(sc, std::fabs(xm) + std::fabs(mm[c]));
		}
		if(C == 2){
			double f = b(0); for(std::size_t i = 0; i < n; ++i) f += alpha(i, 0) * Km[t][i];
			// f > 0 <=> class 1 <=> dist[1] < dist[0];  f = -1/2 (dist[1] - dist[0])
			if(!(std::fabs(f + 0.5 * (dist[1] - dist[0])) <= 1e-9 * sc * 4)) o.fail("kmean-not-nearest-mean");
		}else{
			for(std::size_t c = 0; c < C; ++c){ dec[c] = b(c); for(std::size_t i = 0; i < n; ++i) dec[c] += alpha(i, c) * Km[t][i]; }
			for(std::size_t c = 0; c < C; ++c) for(std::size_t c2 = 0; c2 < C; ++c2)
				if(!(std::fabs((dec[c] - dec[c2]) + 0.5 * (dist[c] - dist[c2])) <= 1e-9 * sc * 4)) o.fail("kmean-not-nearest-mean");
		}
	}
	// batch-partition independence, weight-scale invariance, unweighted entry = weights 1
	std::vector<std::vector<std::size_t> > parts = T.otherPartitions();
	for(std::size_t p = 0; p < parts.size(); ++p){
		KernelClassifier<RealVector> m2;
		if(weighted) trainer.train(m2, Mk::weightedData(X, y, w, 1.0, parts[p])); else trainer.train(m2, Mk::plain(X, y, parts[p]));
		if(!closeMat(alpha, m2.decisionFunction().alpha(), 1e-12) || !closeVec(b, m2.decisionFunction().offset(), 1e-12)) o.fail("batch-dependent");
	}
	double scales[3] = {2.0, 3.0, 0.125};
	for(int s = 0; s < 3; ++s){
		KernelClassifier<RealVector> m2; trainer.train(m2, Mk::weightedData(X, y, w, scales[s], T.sizes));
		if(!closeMat(alpha, m2.decisionFunction().alpha(), 1e-12) || !closeVec(b, m2.decisionFunction().offset(), 1e-12)) o.fail("weight-scale-dependent");
	}
	return o.line("ok", inexact);
}

// nkuv kern | table
static std::string opNkuv(Args& A, Session* S){
	std::size_t kern = A.nat();
	if(A.bad || kern > 1) return "bad-op";
	Table T; if(!T.read(A, 0) || !A.done() || T.d == 0) return "bad-op";
	std::size_t d = T.d, n = T.n;
	Out o;
	UnlabeledData<RealVector> data = T.unlabeled();
	Kernels freshK;
	Kernels& K = S ? S->K : freshK;
	NormalizeKernelUnitVariance<RealVector> freshTrainer;
	ScaledKernel<RealVector> freshScaled(K.get(kern));
	if(S) S->scaled = ScaledKernel<RealVector>(K.get(kern), S->scaled.factor() > 0 && std::isfinite(S->scaled.factor()) ? S->scaled.factor() : 1.0);  // the factor of the previous step stays
	NormalizeKernelUnitVariance<RealVector>& trainer = S ? S->nkuv : freshTrainer;
	ScaledKernel<RealVector>& scaled = S ? S->scaled : freshScaled;
	fpClear();
	try{ trainer.train(scaled, data); }
	catch(shark::Exception const&){ return "exc"; }
	bool inexact = fpInexact();
	double factor = scaled.factor();
	o.group("factor", 1); o.val(factor); o.group("trace", 1); o.val(trainer.trace()); o.group("mean", 1); o.val(trainer.mean());
	if(S){
		NormalizeKernelUnitVariance<RealVector> t2; ScaledKernel<RealVector> s2(K.get(kern)); t2.train(s2, data);
		if(!(s2.factor() == factor || (std::isnan(factor) && std::isnan(s2.factor()))) || t2.trace() != trainer.trace() || t2.mean() != trainer.mean()) o.fail("reuse-dependent");
	}
	// ---- oracle: with the trained ScaledKernel the training data have unit variance in feature space:
	// 1/N sum_i k'(x_i,x_i) - 1/N^2 sum_ij k'(x_i,x_j) = 1   (k' evaluated through the real ScaledKernel object)
	if(!std::isfinite(factor) || !(factor > 0)){ o.fail("nkuv-nonfinite-factor"); return o.line("ok", inexact); }
	std::vector<RealVector> X = T.points();
	double tr = 0, all = 0, sc = 0;
	for(std::size_t i = 0; i < n; ++i){ tr += scaled.eval(X[i], X[i]); for(std::size_t j = 0; j < n; ++j){ double v = scaled.eval(X[i], X[j]); all += v; sc += std::fabs(v); } }
	double var = tr / (double)n - all / (double)n / (double)n;
	if(!(std::fabs(var - 1.0) <= 1e-9 * (1 + sc))) o.fail("nkuv-variance");
	// the plain kernel as well (independent of ScaledKernel)
	{ double ptr = 0, pall = 0;
	  for(std::size_t i = 0; i < n; ++i){ ptr += plainKernel(kern, T.rows[i], T.rows[i], d); for(std::size_t j = 0; j < n; ++j) pall += plainKernel(kern, T.rows[i], T.rows[j], d); }
	  if(!close(trainer.trace(), ptr, 1e-12) || !close(trainer.mean(), pall, 1e-12)) o.fail("nkuv-statistics");
	  double tm = ptr / (double)n - pall / (double)n / (double)n;
	  if(!close(factor * tm, 1.0, 1e-9)) o.fail("nkuv-variance"); }
	std::vector<std::vector<std::size_t> > parts = T.otherPartitions();
	for(std::size_t p = 0; p < parts.size(); ++p){
		UnlabeledData<RealVector> other = T.unlabeled(parts[p]);
		NormalizeKernelUnitVariance<RealVector> t2; ScaledKernel<RealVector> s2(K.get(kern)); t2.train(s2, other);
		if(!close(s2.factor(), factor, 1e-11) || !close(t2.trace(), trainer.trace(), 1e-12) || !close(t2.mean(), trainer.mean(), 1e-12)) o.fail("batch-dependent");
	}
	return o.line("ok", inexact);
}

static std::string dispatch(std::string const& op, Args& A, Session* S){
	if(op == "regnet") return opRegNet(A, S);
	if(op == "kmean") return opKMean(A, S);
	if(op == "nkuv") return opNkuv(A, S);
	return "bad-op";
}

int main(){ return runProtocol<Session>(dispatch); }
