// K-C20: every listed parallel routine is run on integer data (all sums exact) with
// 1,2,3,4,8,16 OpenMP threads, several repetitions each; any result that is not
// bit-identical to the single-threaded one is reported as `!oracle thread-dependence`.
// Also: concurrent shared copies / subsets of one dataset from several threads.
// The same source is compiled a second time with clang + ThreadSanitizer (+ Archer).
// Input lines: `case <seed> <n> <d> <batch> <reps>`; one output line per routine, naming the thread
// counts, the loop schedule of the build (static = the library's own pragma; dynamic = the same region
// bodies compiled with `schedule(dynamic,1)`, variant -DC20_DYNAMIC) and the number of perturbed runs
// (a loss that spins/yields per thread so that the order of entry into the critical sections varies).
// Correspondence ops (compared exactly with the Lean driver drv_c20):
//   `split <B> <T>`                 the batch ranges the real ErrorFunction::eval hands to its threads
//   `knn <T> <k> <bs> | <x_1 .. x_n>`  brute-force neighbour search of the query 0 among the 1-d points x_i
#include <shark/Core/OpenMP.h>
#ifdef C20_DYNAMIC
#undef SHARK_PARALLEL_FOR
#define SHARK_PARALLEL_FOR _Pragma("omp parallel for schedule(dynamic,1)") for
#define C20_SCHED "dynamic"
#else
#define C20_SCHED "static"
#endif
#include <shark/ObjectiveFunctions/ErrorFunction.h>
#include <shark/ObjectiveFunctions/NegativeLogLikelihood.h>
#include <shark/Algorithms/Trainers/RFTrainer.h>
#include <shark/Algorithms/DirectSearch/Operators/Hypervolume/HypervolumeContributionApproximator.h>
#include <shark/Models/Kernels/ArdKernel.h>
#include <shark/Models/DropoutLayer.h>
#include <shark/Models/Kernels/KernelExpansion.h>
#include <shark/Models/RBFLayer.h>
#include <shark/ObjectiveFunctions/Loss/SquaredLoss.h>
#include <shark/ObjectiveFunctions/Loss/AbsoluteLoss.h>
#include <shark/ObjectiveFunctions/KernelTargetAlignment.h>
#include <shark/Models/LinearModel.h>
#include <shark/Models/Kernels/LinearKernel.h>
#include <shark/Models/Kernels/PolynomialKernel.h>
#include <shark/Models/Kernels/KernelHelpers.h>
#include <shark/Models/Kernels/NormalizedKernel.h>
#include <shark/Models/Kernels/GaussianRbfKernel.h>
#include <shark/Models/Kernels/ScaledKernel.h>
#include <shark/Models/Kernels/WeightedSumKernel.h>
#include <shark/Models/Kernels/ProductKernel.h>
#include <shark/Models/ConcatenatedModel.h>
#include <shark/ObjectiveFunctions/Loss/CrossEntropy.h>
#include <shark/LinAlg/KernelMatrix.h>
#include <shark/Algorithms/NearestNeighbors/SimpleNearestNeighbors.h>
#include <shark/Algorithms/DirectSearch/Operators/Hypervolume/HypervolumeContributionMD.h>
#include <shark/Data/Dataset.h>
#include <shark/Data/WeightedDataset.h>
#include <shark/Core/OpenMP.h>
#include "common.hpp"
#include <cstring>
#include <sched.h>
using namespace shark;

static const int THREADS[] = {1, 2, 3, 4, 8, 16};
static int g_perturb = 0;          // > 0: plugged-in components spin/yield per thread (changes the critical-section order)

static std::string bits(double x){ std::uint64_t u; std::memcpy(&u, &x, 8); std::ostringstream os; os << std::hex << u; return os.str(); }
template<class V> std::string vecbits(V const& v){ std::string s; for(std::size_t i = 0; i != v.size(); ++i){ s += bits(v(i)); s += ","; } return s; }
template<class M> std::string matbits(M const& m){ std::string s; for(std::size_t i = 0; i != m.size1(); ++i) for(std::size_t j = 0; j != m.size2(); ++j){ s += bits(m(i,j)); s += ","; } return s; }
static std::string shorten(std::string const& s){ // FNV-1a of the exact rendering (kept short for the log)
	std::uint64_t h = 1469598103934665603ULL; for(unsigned char c: s){ h ^= c; h *= 1099511628211ULL; }
	std::ostringstream os; os << std::hex << h << "/" << s.size(); return os.str(); }

static void perturb(){
	if(!g_perturb) return;
	int tid = omp_get_thread_num();
	int spins = ((tid * 7 + g_perturb * 13) % 5) * 1500;
	for(volatile int i = 0; i < spins; ++i){}
	if((tid + g_perturb) % 2) sched_yield();
}
// squared loss that perturbs the schedule (same values as SquaredLoss)
struct YieldLoss : public SquaredLoss<>{
	using SquaredLoss<>::eval; using SquaredLoss<>::evalDerivative;
	double eval(BatchLabelType const& t, BatchOutputType const& p) const{ perturb(); return SquaredLoss<>::eval(t, p); }
	double evalDerivative(BatchLabelType const& t, BatchOutputType const& p, BatchOutputType& g) const{ perturb(); return SquaredLoss<>::evalDerivative(t, p, g); }
};
// loss that records which thread evaluated which batch (batch id = first label value); value 0
struct RecordingLoss : public SquaredLoss<>{
	using SquaredLoss<>::eval;
	// element-wise evaluation (used by the weighted error function): same record
	double eval(ConstLabelReference t, ConstOutputReference p) const{
		int b = (int)t(0), th = omp_get_thread_num();
		#pragma omp critical (c20RecordingLoss)
		log.push_back(std::make_pair(th, b));
		return 0.0;
	}
	mutable std::vector<std::pair<int,int> > log;   // (thread, batch), appended under a lock of its own
	double eval(BatchLabelType const& t, BatchOutputType const& p) const{
		int b = (int)t(0,0), th = omp_get_thread_num();
		#pragma omp critical (c20RecordingLoss)
		log.push_back(std::make_pair(th, b));
		return 0.0;
	}
};

static std::string threadList(int maxT = 16, int minBatches = -1){
	std::string s; for(int t: THREADS){ if(t > maxT) continue; if(!s.empty()) s += ","; s += std::to_string(t); } return s; }

// run f() under every thread count, `reps` times plain and `reps` times perturbed; compare the exact rendering with
// threads=1.  `oracle` (optional): independent expected rendering.  `allow(t)`: thread counts to run.
template<class F>
void sweepX(char const* name, int reps, F f, std::string const* oracle = 0, int maxThreads = 16){
	omp_set_num_threads(1); g_perturb = 0;
	std::string ref = f();
	std::string bad;
	if(oracle && *oracle != ref){ bad = std::string(" !oracle wrong-result routine=") + name + " threads=1"; }
	int runs = 0, pert = 0;
	for(int t: THREADS){
		if(t > maxThreads) continue;
		omp_set_num_threads(t);
		for(int r = 0; r < 2 * reps; ++r){
			g_perturb = (r >= reps) ? 1 + r + t : 0; if(g_perturb) ++pert;
			++runs;
			std::string got = f();
			if(got != ref && bad.empty()){
				std::ostringstream os; os << " !oracle thread-dependence routine=" << name << " threads=" << t << " rep=" << r; bad = os.str();
			}
		}
	}
	g_perturb = 0;
	std::cout << "routine=" << name << " runs=" << runs << " threads=" << threadList(maxThreads) << " sched=" C20_SCHED << " perturbed=" << pert
	          << " oracle=" << (oracle ? "independent+1thread" : "1thread") << " result=" << shorten(ref) << bad << "\n";
}
template<class F> void sweep(char const* name, int reps, F f){ sweepX(name, reps, f); }
template<class F> void sweepO(char const* name, int reps, F f, std::string const& oracle){ sweepX(name, reps, f, &oracle); }

// tolerant variant for routines whose partial sums are not exactly representable
// (the property allows "up to floating-point reassociation"): relative 1e-12
template<class F>
void sweepTol(char const* name, int reps, F f, char const* tag = "thread-dependence-beyond-reassociation"){
	omp_set_num_threads(1); g_perturb = 0;
	std::vector<double> ref = f();
	std::string bad; int runs = 0, pert = 0;
	for(int t: THREADS){
		omp_set_num_threads(t);
		for(int r = 0; r < 2 * reps; ++r){
			g_perturb = (r >= reps) ? 1 + r + t : 0; if(g_perturb) ++pert;
			++runs;
			std::vector<double> got = f();
			bool ok = got.size() == ref.size();
			for(std::size_t i = 0; ok && i != ref.size(); ++i)
				if(!(std::fabs(got[i]-ref[i]) <= 1e-12 * (1.0 + std::fabs(ref[i]))) && !(std::isnan(got[i]) && std::isnan(ref[i]))) ok = false;
			if(!ok && bad.empty()){
				std::ostringstream os; os << " !oracle " << tag << " routine=" << name << " threads=" << t << " rep=" << r; bad = os.str();
			}
		}
	}
	g_perturb = 0;
	std::cout << "routine=" << name << " runs=" << runs << " threads=" << threadList() << " sched=" C20_SCHED << " perturbed=" << pert
	          << " oracle=1thread result=toleranced(1e-12)" << bad << "\n";
}

struct AddOne{ typedef RealVector result_type; RealVector operator()(RealVector const& x) const{ RealVector y = x; for(std::size_t i = 0; i != y.size(); ++i) y(i) += 1; return y; } };
struct BatchDouble{ typedef RealMatrix result_type; RealMatrix operator()(RealMatrix const& x) const{ perturb(); return RealMatrix(2.0 * x); } };

template<class Forest> std::string forestTrees(Forest const& model, bool sorted){
	std::vector<std::string> trees;
	for(std::size_t i = 0; i != model.numberOfModels(); ++i){
		std::ostringstream ss; { TextOutArchive oa(ss, boost::archive::no_header); model.model(i).write(oa); }
		trees.push_back(ss.str());
	}
	if(sorted) std::sort(trees.begin(), trees.end());
	std::string s; for(auto const& t: trees){ s += t; s += "#"; } return s;
}

// ---- correspondence ops
static void opSplit(std::size_t B, std::size_t T){
	std::vector<RealVector> xs(B, RealVector(1, 0.0)), ys(B, RealVector(1));
	for(std::size_t i = 0; i != B; ++i) ys[i](0) = double(i);
	RegressionDataset reg = createLabeledDataFromRange(xs, ys, 1);
	LinearModel<> model(1, 1, false); RecordingLoss rl;
	ErrorFunction<> E(reg, &model, &rl);
	omp_set_num_threads((int)T);
	RealVector p(1, 0.0); E.eval(p);
	// thread id = loop index under the static schedule (one iteration per thread)
	std::vector<std::vector<int> > per(T);
	std::string bad; std::vector<int> seen(B, 0);
	for(auto const& e: rl.log){ if(e.first < (int)T) per[e.first].push_back(e.second); if(e.second >= 0 && e.second < (int)B) ++seen[e.second]; }
	for(std::size_t b = 0; b != B; ++b) if(seen[b] != 1) bad = " !oracle batch-not-exactly-once split=" + std::to_string(B) + "/" + std::to_string(T);
	std::cout << "split B=" << B << " T=" << T << " ranges=";
	std::size_t nt = std::min(T, B), next = 0;
	for(std::size_t t = 0; t != nt; ++t){
		std::sort(per[t].begin(), per[t].end());
		std::size_t lo = per[t].empty() ? next : per[t].front(), hi = per[t].empty() ? next : per[t].back() + 1;
		if(hi - lo != per[t].size() || lo != next) bad = " !oracle ranges-not-consecutive split=" + std::to_string(B) + "/" + std::to_string(T);
		next = hi;
		std::cout << (t ? "," : "") << lo << "-" << hi;
	}
	std::cout << bad << "\n";
}
// weighted error function: one iteration per batch, any schedule: every batch must be evaluated exactly once
static void opSplitW(std::size_t B, std::size_t T){
	std::vector<RealVector> xs(B, RealVector(1, 0.0)), ys(B, RealVector(1));
	for(std::size_t i = 0; i != B; ++i) ys[i](0) = double(i);
	RegressionDataset reg = createLabeledDataFromRange(xs, ys, 1);
	WeightedLabeledData<RealVector,RealVector> wd(reg, 1.0);
	LinearModel<> model(1, 1, false); RecordingLoss rl;
	ErrorFunction<> E(wd, &model, &rl);
	omp_set_num_threads((int)T);
	RealVector p(1, 0.0); E.eval(p);
	std::vector<int> seen(B, 0); std::string bad; std::size_t threadsUsed = 0; std::vector<int> used(64, 0);
	for(auto const& e: rl.log){ if(e.second >= 0 && e.second < (int)B) ++seen[e.second]; if(e.first >= 0 && e.first < 64 && !used[e.first]){ used[e.first] = 1; ++threadsUsed; } }
	std::size_t covered = 0; for(std::size_t b = 0; b != B; ++b){ if(seen[b] == 1) ++covered; else bad = " !oracle batch-not-exactly-once splitw=" + std::to_string(B) + "/" + std::to_string(T); }
	if(threadsUsed > T) bad = " !oracle more-threads-than-allowed";
	std::cout << "splitw B=" << B << " T=" << T << " covered=" << covered << bad << "\n";
}
static void opKnn(std::size_t T, std::size_t k, std::size_t bs, std::vector<long> const& x){
	std::size_t n = x.size();
	std::vector<RealVector> xs(n, RealVector(1)); std::vector<unsigned int> cls(n, 0);
	for(std::size_t i = 0; i != n; ++i){ xs[i](0) = double(x[i]); cls[i] = (unsigned)i; }
	ClassificationDataset cl = createLabeledDataFromRange(xs, cls, bs);
	LinearKernel<RealVector> lk; SimpleNearestNeighbors<RealVector,unsigned int> nn(cl, &lk);
	RealMatrix q(1, 1, 0.0);
	omp_set_num_threads((int)T);
	auto r = nn.getNeighbors(q, k);
	// independent oracle: sort all squared distances
	std::vector<double> all; for(long v: x) all.push_back(std::sqrt(double(v) * double(v))); std::sort(all.begin(), all.end());
	std::string bad;
	std::cout << "knn T=" << T << " k=" << k << " batches=" << cl.numberOfBatches() << " keys=";
	for(std::size_t i = 0; i != r.size(); ++i){
		std::cout << (i ? "," : "") << vh::exactDouble(r[i].key);
		if(i >= all.size() || r[i].key != all[i]) bad = " !oracle not-k-nearest";
		else if(std::fabs(double(x[r[i].value])) != r[i].key) bad = " !oracle label-distance-mismatch";
	}
	std::cout << bad << "\n";
}

int main(){
	std::cout.setf(std::ios::unitbuf);
	std::string line; std::vector<std::size_t> a;
	while(std::getline(std::cin, line)){
		std::vector<std::string> t = vh::tokens(line);
		if(t.empty()) continue;
		if(t[0] == "split" && vh::allNat(t, 1, a) && a.size() == 2 && a[0] >= 1 && a[1] >= 1){ opSplit(a[0], a[1]); continue; }
		if(t[0] == "splitw" && vh::allNat(t, 1, a) && a.size() == 2 && a[0] >= 1 && a[1] >= 1){ opSplitW(a[0], a[1]); continue; }
		if(t[0] == "knn" && t.size() >= 6 && t[4] == "|"){
			std::vector<std::string> h(t.begin() + 1, t.begin() + 4); std::vector<long> x; bool ok = vh::allNat(h, 0, a) && a.size() == 3;
			for(std::size_t i = 5; ok && i < t.size(); ++i){ try{ x.push_back(std::stol(t[i])); } catch(...){ ok = false; } }
			if(ok && a[0] >= 1 && a[1] >= 1 && a[1] <= x.size() && a[2] >= 1){ opKnn(a[0], a[1], a[2], x); continue; }
			std::cout << "bad-op\n"; continue;
		}
		if(t[0] == "dropout" && vh::allNat(t, 1, a) && a.size() == 1 && a[0] >= 1){
			// a network with a DropoutLayer (default generator = the process-wide one) inside the parallel error function
			std::size_t n = 24, d = 3;
			std::vector<RealVector> xs(n, RealVector(d, 1.0)), ys(n, RealVector(2, 1.0));
			RegressionDataset reg = createLabeledDataFromRange(xs, ys, 3);
			LinearModel<> l1(d, 2, true); DropoutLayer<> drop(Shape({2}), 0.5);
			ConcatenatedModel<RealVector> net = l1 >> drop;
			SquaredLoss<> loss; ErrorFunction<> E(reg, &net, &loss);
			RealVector p(net.numberOfParameters(), 1.0), g;
			omp_set_num_threads((int)a[0]);
			double v = E.eval(p) + E.evalDerivative(p, g);
			std::cout << "routine=ErrorFunction[dropout,global-rng] runs=2 threads=" << a[0] << " sched=" C20_SCHED << " perturbed=0 oracle=none result=" << (v == v ? "finite" : "nan") << "\n";
			continue;
		}
		if(t[0] != "case" || !vh::allNat(t, 1, a) || a.size() != 5){ std::cout << "bad-op\n"; continue; }
		vh::SplitMix64 rng(a[0]);
		std::size_t n = a[1], d = a[2], bs = a[3]; int reps = (int)a[4];
		std::vector<RealVector> xs(n, RealVector(d)), ys(n, RealVector(2)); std::vector<unsigned int> cls(n);
		std::vector<double> w(n);
		for(std::size_t i = 0; i != n; ++i){
			for(std::size_t c = 0; c != d; ++c) xs[i](c) = double(rng.below(9)) - 4.0;
			ys[i](0) = double(rng.below(7)) - 3.0; ys[i](1) = double(rng.below(5)); cls[i] = (unsigned)rng.below(3);
			w[i] = double(1 + rng.below(3));
		}
		if(n >= 3){ cls[0] = 0; cls[1] = 1; cls[2] = 2; }
		RegressionDataset reg = createLabeledDataFromRange(xs, ys, bs);
		ClassificationDataset cl = createLabeledDataFromRange(xs, cls, bs);
		Data<RealVector> inputs = createDataFromRange(xs, bs);
		std::cout << "case n=" << n << " d=" << d << " batches=" << reg.numberOfBatches() << "\n";

		LinearModel<> model(d, 2, true);
		RealVector p(model.numberOfParameters());
		for(std::size_t i = 0; i != p.size(); ++i) p(i) = double(rng.below(5)) - 2.0;
		SquaredLoss<> loss; YieldLoss yloss;
		// independent oracle for the (weighted) mean squared error of the linear model on integer data: plain loops
		double handSum = 0, handW = 0, handWSum = 0;
		{	model.setParameterVector(p);
			for(std::size_t i = 0; i != n; ++i){
				double e = 0;
				for(std::size_t o = 0; o != 2; ++o){ double v = model.offset()(o); for(std::size_t c = 0; c != d; ++c) v += model.matrix()(o,c) * xs[i](c); e += (v - ys[i](o)) * (v - ys[i](o)); }
				handSum += 0.5 * e; handWSum += w[i] * 0.5 * e; handW += w[i];
			}
		}
		{	ErrorFunction<> E(reg, &model, &yloss);
			sweepO("ErrorFunction.eval", reps, [&]{ return bits(E.eval(p)); }, bits(handSum / double(n)));
			sweep("ErrorFunction.evalDerivative", reps, [&]{ RealVector g; double v = E.evalDerivative(p, g); return bits(v) + "|" + vecbits(g); });
		}
		{	WeightedLabeledData<RealVector,RealVector> wd(reg, 1.0);
			std::size_t q = 0;
			for(auto&& e: wd.elements()){ e.weight = w[q++]; }
			ErrorFunction<> E(wd, &model, &loss);
			sweepO("WeightedErrorFunction.eval", reps, [&]{ return bits(E.eval(p)); }, bits(handWSum / handW));
			sweep("WeightedErrorFunction.evalDerivative", reps, [&]{ RealVector g; double v = E.evalDerivative(p, g); return bits(v) + "|" + vecbits(g); });
		}
		{	model.setParameterVector(p);
			Data<RealVector> pred = model(reg.inputs());
			AbsoluteLoss<> al;
			sweepO("AbstractLoss.eval(Data,Data)", reps, [&]{ return bits(yloss.eval(reg.labels(), pred)); }, bits(handSum / double(n)));
			// AbsoluteLoss takes a square root per element: sums are not exact
			sweepTol("AbsoluteLoss.eval(Data,Data)", reps, [&]{ return std::vector<double>(1, al.eval(reg.labels(), pred)); });
			// a loss on class labels over datasets (cross entropy of the linear model's outputs: exp/log, toleranced)
			LinearModel<> m3(d, 3, true); RealVector p3(m3.numberOfParameters());
			for(std::size_t i = 0; i != p3.size(); ++i) p3(i) = (double(rng.below(9)) - 4.0) / 8.0;
			m3.setParameterVector(p3);
			Data<RealVector> pred3 = m3(cl.inputs()); CrossEntropy<unsigned int, RealVector> ce;
			sweepTol("CrossEntropy.eval(Data,Data)", reps, [&]{ return std::vector<double>(1, ce.eval(cl.labels(), pred3)); });
		}
		{	PolynomialKernel<RealVector> k(2, 1.0, false);   // degree fixed => advertises the parameter derivative
			// independent oracle: every entry by a single kernel evaluation (integer data: exact)
			std::string gram;
			for(std::size_t i = 0; i != n; ++i) for(std::size_t j = 0; j != n; ++j){ gram += bits(k.eval(xs[i], xs[j]) + (i == j ? 1.0 : 0.0)); gram += ","; }
			sweepO("calculateRegularizedKernelMatrix", reps, [&]{ RealMatrix K = calculateRegularizedKernelMatrix(k, inputs, 1.0); return matbits(K); }, gram);
			std::size_t n2 = (n+1)/2;
			Data<RealVector> in2 = createDataFromRange(std::vector<RealVector>(xs.begin(), xs.begin() + n2), bs > 1 ? bs-1 : 1);
			std::string mixed;
			for(std::size_t i = 0; i != n; ++i) for(std::size_t j = 0; j != n2; ++j){ mixed += bits(k.eval(xs[i], xs[j])); mixed += ","; }
			sweepO("calculateMixedKernelMatrix", reps, [&]{ RealMatrix K = calculateMixedKernelMatrix(k, inputs, in2); return matbits(K); }, mixed);
			KernelMatrix<RealVector,double> km(k, inputs);
			std::string rows;
			for(std::size_t i = 0; i < n; i += (n/4)+1) for(std::size_t j = 0; j != n; ++j){ rows += bits(k.eval(xs[i], xs[j])); rows += ","; }
			sweepO("KernelMatrix.row", reps, [&]{ std::vector<double> st(n); std::string s; for(std::size_t i = 0; i < n; i += (n/4)+1){ km.row(i, 0, n, &st[0]); for(double v: st){ s += bits(v); s += ","; } } return s; }, rows);
			KernelTargetAlignment<RealVector,unsigned int> kta(cl, &k);
			RealVector kp = k.parameterVector();
			sweep("KernelTargetAlignment.eval", reps, [&]{ return bits(kta.eval(kp)); });
			sweepTol("KernelTargetAlignment.evalDerivative", reps, [&]{ RealVector g; double v = kta.evalDerivative(kp, g); std::vector<double> r(1, v); for(std::size_t i = 0; i != g.size(); ++i) r.push_back(g(i)); return r; });
		}
		{	// every kind of kernel inside the parallel Gram / row regions (values are not exactly representable:
			// the comparison allows floating-point reassociation; a shared scratch buffer shows as a large
			// difference and, under ThreadSanitizer, as a race)
			PolynomialKernel<RealVector> pk(2, 1.0, false); LinearKernel<RealVector> lin; GaussianRbfKernel<RealVector> gk(0.25);
			NormalizedKernel<RealVector> nk(&pk); ScaledKernel<RealVector> sk(&pk, 2.0); ARDKernelUnconstrained<RealVector> ard((unsigned)d, 0.125);
			std::vector<AbstractKernelFunction<RealVector>*> parts; parts.push_back(&pk); parts.push_back(&gk);
			WeightedSumKernel<RealVector> wk(parts); ProductKernel<RealVector> prk(&lin, &gk);
			AbstractKernelFunction<RealVector>* ks[] = {&nk, &gk, &sk, &wk, &prk, &ard};
			char const* names[] = {"Gram[normalized]", "Gram[gaussian]", "Gram[scaled]", "Gram[weightedsum]", "Gram[product]", "Gram[ard]"};
			for(int q = 0; q != 6; ++q){
				AbstractKernelFunction<RealVector>* kk = ks[q];
				sweepTol(names[q], reps, [&]{ RealMatrix K = calculateRegularizedKernelMatrix(*kk, inputs, 0.5); std::vector<double> r; for(std::size_t i = 0; i != K.size1(); ++i) for(std::size_t j = 0; j != K.size2(); ++j) r.push_back(K(i,j)); return r; });
			}
			KernelMatrix<RealVector,double> km(nk, inputs);
			sweepTol("KernelMatrix.row[normalized]", reps, [&]{ std::vector<double> st(n), r; for(std::size_t i = 0; i < n; i += (n/3)+1){ km.row(i, 0, n, &st[0]); r.insert(r.end(), st.begin(), st.end()); } return r; });
			// Gram derivative: kernels with a non-empty State inside the parallel derivative region of KernelTargetAlignment,
			// and the (sequential) Gram-derivative helper called concurrently from user threads on one shared const kernel
			AbstractKernelFunction<RealVector>* dk[] = {&gk, &ard, &wk};
			char const* dnames[] = {"KernelTargetAlignment.evalDerivative[gaussian]", "KernelTargetAlignment.evalDerivative[ard]", "KernelTargetAlignment.evalDerivative[weightedsum]"};
			for(int q = 0; q != 3; ++q){
				KernelTargetAlignment<RealVector,unsigned int> kta(cl, dk[q]);
				RealVector kp = dk[q]->parameterVector();
				sweepTol(dnames[q], reps, [&]{ RealVector g; double v = kta.evalDerivative(kp, g); std::vector<double> r(1, v); for(std::size_t i = 0; i != g.size(); ++i) r.push_back(g(i)); return r; });
			}
			RealMatrix W(n, n); for(std::size_t i = 0; i != n; ++i) for(std::size_t j = 0; j != n; ++j) W(i,j) = double((i * 3 + j * 5) % 7) - 3.0;
			W = RealMatrix(W + trans(W));
			sweepTol("calculateKernelMatrixParameterDerivative[concurrent-callers,gaussian]", reps, [&]{
				std::vector<RealVector> res(8);
				#pragma omp parallel for
				for(int c = 0; c < 8; ++c) res[c] = calculateKernelMatrixParameterDerivative(gk, inputs, W);
				std::vector<double> r; for(auto const& v: res) for(std::size_t i = 0; i != v.size(); ++i) r.push_back(v(i)); for(std::size_t c = 1; c < 8; ++c) r.push_back(norm_inf(res[c] - res[0])); return r; });
		}
		{	// a non-linear two-layer model and a cross-entropy loss inside the ErrorFunction regions
			LinearModel<RealVector, TanhNeuron> l1(d, 3, true); LinearModel<RealVector> l2(3, 3, true);
			ConcatenatedModel<RealVector> net = l1 >> l2;
			RealVector q(net.numberOfParameters());
			for(std::size_t i = 0; i != q.size(); ++i) q(i) = (double(rng.below(9)) - 4.0) / 4.0;
			CrossEntropy<unsigned int, RealVector> ce;
			ErrorFunction<> E(cl, &net, &ce);
			sweepTol("ErrorFunction[tanh-net,cross-entropy]", reps, [&]{ RealVector g; double v = E.evalDerivative(q, g); std::vector<double> r(1, v); r.push_back(E.eval(q)); for(std::size_t i = 0; i != g.size(); ++i) r.push_back(g(i)); return r; });
			// dataset transformation by a model with a non-empty State (model(data) = transform(data, model))
			net.setParameterVector(q);
			sweepTol("transform(model with state)", reps, [&]{ Data<RealVector> r = net(inputs); std::vector<double> v; for(auto const& e: r.elements()) for(std::size_t i = 0; i != e.size(); ++i) v.push_back(e(i)); return v; });
			// negative log-likelihood of a (stateful) network with one logistic output: both regions of NegativeLogLikelihood
			LinearModel<RealVector, TanhNeuron> n1(d, 3, true); LinearModel<RealVector, LogisticNeuron> n2(3, 1, true);
			ConcatenatedModel<RealVector> dens = n1 >> n2;
			RealVector dq(dens.numberOfParameters());
			for(std::size_t i = 0; i != dq.size(); ++i) dq(i) = (double(rng.below(9)) - 4.0) / 4.0;
			NegativeLogLikelihood nll(inputs, &dens);
			sweepTol("NegativeLogLikelihood.eval", reps, [&]{ return std::vector<double>(1, nll.eval(dq)); });
			sweepTol("NegativeLogLikelihood.evalDerivative", reps, [&]{ RealVector g; double v = nll.evalDerivative(dq, g); std::vector<double> r(1, v); for(std::size_t i = 0; i != g.size(); ++i) r.push_back(g(i)); return r; });
		}
		{	// a kernel inside a model inside the parallel error function (kernel expansion over the data set itself),
			// and an RBF layer (its State holds the squared distances and responses) in front of a linear layer
			GaussianRbfKernel<RealVector> gk2(0.125);
			KernelExpansion<RealVector> ke(&gk2, inputs, true, 2);
			RealVector kq(ke.numberOfParameters());
			for(std::size_t i = 0; i != kq.size(); ++i) kq(i) = (double(rng.below(9)) - 4.0) / 8.0;
			ErrorFunction<> EK(reg, &ke, &loss);
			sweepTol("ErrorFunction[kernel-expansion(gaussian)].eval", reps, [&]{ return std::vector<double>(1, EK.eval(kq)); });
			RBFLayer rbf(d, 3); LinearModel<> lout(3, 2, true);
			ConcatenatedModel<RealVector> rbfnet = rbf >> lout;
			RealVector rp(rbfnet.numberOfParameters());
			for(std::size_t i = 0; i != rp.size(); ++i) rp(i) = (double(rng.below(9)) - 4.0) / 8.0;
			ErrorFunction<> ERB(reg, &rbfnet, &loss);
			sweepTol("ErrorFunction[rbf-layer-net].evalDerivative", reps, [&]{ RealVector g; double v = ERB.evalDerivative(rp, g); std::vector<double> r(1, v); r.push_back(ERB.eval(rp)); for(std::size_t i = 0; i != g.size(); ++i) r.push_back(g(i)); return r; });
		}
		{	// the same stateful network inside the WEIGHTED error function (a model with a non-empty State: every
			// thread needs its own state object), classification and regression labels
			LinearModel<RealVector, TanhNeuron> l1(d, 3, true); LinearModel<RealVector> l2(3, 3, true);
			ConcatenatedModel<RealVector> net = l1 >> l2;
			RealVector q(net.numberOfParameters());
			for(std::size_t i = 0; i != q.size(); ++i) q(i) = (double(rng.below(9)) - 4.0) / 4.0;
			CrossEntropy<unsigned int, RealVector> ce;
			WeightedLabeledData<RealVector,unsigned int> wcl(cl, 1.0);
			std::size_t k = 0;
			for(auto&& e: wcl.elements()){ e.weight = w[k++]; }
			ErrorFunction<> E(wcl, &net, &ce);
			sweepTol("WeightedErrorFunction[tanh-net,cross-entropy]", reps, [&]{ RealVector g; double v = E.evalDerivative(q, g); std::vector<double> r(1, v); r.push_back(E.eval(q)); for(std::size_t i = 0; i != g.size(); ++i) r.push_back(g(i)); return r; });
			// rectifier network on integer data and integer parameters: all arithmetic exact, bitwise comparison
			LinearModel<RealVector, RectifierNeuron> r1(d, 3, true); LinearModel<RealVector> r2(3, 2, true);
			ConcatenatedModel<RealVector> rnet = r1 >> r2;
			RealVector rq(rnet.numberOfParameters());
			for(std::size_t i = 0; i != rq.size(); ++i) rq(i) = double(rng.below(5)) - 2.0;
			WeightedLabeledData<RealVector,RealVector> wreg(reg, 1.0);
			k = 0;
			for(auto&& e: wreg.elements()){ e.weight = w[k++]; }
			ErrorFunction<> ER(wreg, &rnet, &yloss);
			sweep("WeightedErrorFunction[relu-net].evalDerivative", reps, [&]{ RealVector g; double v = ER.evalDerivative(rq, g); return bits(v) + "|" + vecbits(g); });
			ErrorFunction<> EU(reg, &rnet, &yloss);
			sweep("ErrorFunction[relu-net].evalDerivative", reps, [&]{ RealVector g; double v = EU.evalDerivative(rq, g); return bits(v) + "|" + vecbits(g); });
		}
		{	std::string t1, t2;
			for(std::size_t b = 0; b != inputs.numberOfBatches(); ++b){ RealMatrix m1 = inputs.batch(b), m2 = inputs.batch(b); for(std::size_t i = 0; i != m1.size1(); ++i) for(std::size_t j = 0; j != m1.size2(); ++j){ m1(i,j) += 1; m2(i,j) *= 2; } t1 += matbits(m1) + ";"; t2 += matbits(m2) + ";"; }
			sweepO("transform(element-wise)", reps, [&]{ Data<RealVector> r = transform(inputs, AddOne()); std::string s; for(std::size_t b = 0; b != r.numberOfBatches(); ++b) s += matbits(r.batch(b)) + ";"; return s; }, t1);
			sweepO("transform(batch-wise)", reps, [&]{ Data<RealVector> r = transform(inputs, BatchDouble()); std::string s; for(std::size_t b = 0; b != r.numberOfBatches(); ++b) s += matbits(r.batch(b)) + ";"; return s; }, t2);
		}
		{	LinearKernel<RealVector> lk; GaussianRbfKernel<RealVector> gk(0.5);
			SimpleNearestNeighbors<RealVector,unsigned int> nn(cl, &lk), nng(cl, &gk);
			RealMatrix queries(3, d);
			for(std::size_t i = 0; i != 3; ++i) for(std::size_t c = 0; c != d; ++c) queries(i,c) = double(rng.below(9)) - 4.0;
			std::size_t kk[] = {1, std::min<std::size_t>(n, 1 + rng.below(5)), n};
			// the thread-indexed heaps assume iteration b of the batch loop runs on a thread id < min(threads, batches):
			// true for the static schedule of the library's pragma; under the dynamic build only thread counts <= batches are run
			int maxT = 16;
			#ifdef C20_DYNAMIC
			maxT = (int)cl.numberOfBatches();
			#endif
			for(int q = 0; q != 3; ++q){
				std::size_t k = kk[q];
				// independent oracle: all distances sorted (distances are sorted in the result; labels of equidistant
				// neighbours may legitimately differ, so compare distances only)
				std::string o;
				for(std::size_t pi = 0; pi != 3; ++pi){ std::vector<double> ds; for(std::size_t i = 0; i != n; ++i){ double s = 0; for(std::size_t c = 0; c != d; ++c) s += (queries(pi,c) - xs[i](c)) * (queries(pi,c) - xs[i](c)); ds.push_back(std::sqrt(s)); } std::sort(ds.begin(), ds.end()); for(std::size_t i = 0; i != k; ++i){ o += bits(ds[i]); o += ","; } }
				std::string nm = std::string("SimpleNearestNeighbors.getNeighbors[k=") + (q == 0 ? "1" : q == 1 ? "mid" : "n") + "]";
				sweepX(nm.c_str(), reps, [&]{ auto r = nn.getNeighbors(queries, k); std::string s; for(auto const& e: r){ s += bits(e.key); s += ","; } return s; }, &o, maxT);
			}
			if(maxT >= 1) sweepX("SimpleNearestNeighbors.getNeighbors[gaussian-metric]", reps, [&]{ auto r = nng.getNeighbors(queries, kk[1]); std::string s; for(auto const& e: r){ s += bits(e.key); s += ","; } return s; }, (std::string const*)0, maxT);
		}
		{	std::vector<RealVector> pts;
			std::size_t m = std::min<std::size_t>(n, 7);
			for(std::size_t i = 0; i != m; ++i){ RealVector q(4); for(std::size_t c = 0; c != 4; ++c) q(c) = double(rng.below(6)); pts.push_back(q); }
			RealVector ref(4, 7.0);
			HypervolumeContributionMD hc;
			std::size_t k = 1 + rng.below(m);
			auto render = [](std::vector<KeyValuePair<double,std::size_t> > const& r){ std::string s; for(auto const& e: r){ s += bits(e.key); s += ":"; s += std::to_string(e.value); s += ","; } return s; };
			sweep("HypervolumeContributionMD.smallest", reps, [&]{ return render(hc.smallest(pts, k, ref)); });
			sweep("HypervolumeContributionMD.largest", reps, [&]{ return render(hc.largest(pts, k, ref)); });
			// the variants without reference point collect their results in a critical section (5 objectives: WFG algorithm);
			// mutually non-dominated points with distinct coordinates so that at most 5 points are excluded as extreme
			std::vector<RealVector> front;
			while(front.size() != 9){
				RealVector q(5); double s = 0; for(std::size_t c = 0; c != 4; ++c){ q(c) = double(rng.below(6)); s += q(c); } q(4) = 20.0 - s;
				bool dup = false; for(auto const& f: front) if(norm_inf(f - q) == 0) dup = true;     // equal coordinate sums: distinct points are mutually non-dominated
				if(!dup) front.push_back(q);
			}
			// (the selected contributions must not depend on the schedule; WHICH of several points with equal contribution
			// is returned is reported separately)
			auto keys = [](std::vector<KeyValuePair<double,std::size_t> > const& r){ std::string s; for(auto const& e: r){ s += bits(e.key); s += ","; } return s; };
			auto idxs = [](std::vector<KeyValuePair<double,std::size_t> > const& r){ std::string s; for(auto const& e: r){ s += std::to_string(e.value); s += ","; } return s; };
			sweep("HypervolumeContributionMD.smallest(no-reference).contributions", reps, [&]{ return keys(hc.smallest(front, 2)); });
			sweep("HypervolumeContributionMD.largest(no-reference).contributions", reps, [&]{ return keys(hc.largest(front, 2)); });
			sweep("HypervolumeContributionMD.smallest(no-reference).indices", reps, [&]{ return idxs(hc.smallest(front, 2)); });
			sweep("HypervolumeContributionMD.largest(no-reference).indices", reps, [&]{ return idxs(hc.largest(front, 2)); });
			// the approximation algorithm (parallel exact fallback inside its sampling loop); the global generator is
			// re-seeded before every run, sampling itself is sequential
			HypervolumeContributionApproximator ha;
			sweep("HypervolumeContributionApproximator.smallest", reps, [&]{ random::globalRng.seed(4711); return render(ha.smallest(front, 1, RealVector(5, 21.0))); });
		}
		{	// random-forest training: per-tree generators seeded from the global one before the parallel loop
			auto setup = [&](std::size_t trees){ random::globalRng.seed(1234 + (unsigned)a[0] % 1000); return trees; };
			std::size_t nt = 2 + rng.below(7);
			sweep("RFTrainer[classification].trees+predictions+oob", reps, [&]{
				setup(nt); RFTrainer<unsigned int> tr(false, true); tr.setNTrees(nt); tr.setNodeSize(1 + n / 10);
				RFClassifier<unsigned int> f; tr.train(f, cl);
				std::string s = forestTrees(f, true) + "|" + bits(f.OOBerror()) + "|";
				Data<unsigned int> pr = f(cl.inputs()); for(auto const& e: pr.elements()) s += std::to_string(e); return s; });
			sweepTol("RFTrainer[regression].predictions+oob", reps, [&]{
				setup(nt); RFTrainer<RealVector> tr(false, true); tr.setNTrees(nt); tr.setNodeSize(1 + n / 10);
				RFClassifier<RealVector> f; static_cast<AbstractWeightedTrainer<RFClassifier<RealVector> >&>(tr).train(f, reg);
				std::vector<double> r(1, f.OOBerror()); r.push_back(double(shorten(forestTrees(f, true)).size()));
				Data<RealVector> pr = f(reg.inputs()); for(auto const& e: pr.elements()) for(std::size_t i = 0; i != e.size(); ++i) r.push_back(e(i)); return r; });
			// (only with n >= 20: a tree whose out-of-bag set is empty makes computeFeatureImportances index an empty batch — outside C20)
			if(n >= 20) sweepTol("RFTrainer[classification].featureImportances", reps, [&]{
				setup(nt); RFTrainer<unsigned int> tr(true, false); tr.setNTrees(nt); tr.setNodeSize(1 + n / 10);
				RFClassifier<unsigned int> f; tr.train(f, cl);
				std::vector<double> r; for(std::size_t i = 0; i != f.featureImportances().size(); ++i) r.push_back(f.featureImportances()(i)); return r; },
				"rf-feature-importances-depend-on-schedule");
		}
		{	// shared copies and batch subsets of one dataset, concurrently from several threads
			std::string bad; int made = 0;
			WeightedLabeledData<RealVector,RealVector> wsrc(reg, 2.0);
			for(int th: THREADS){
				omp_set_num_threads(th);
				#pragma omp parallel for reduction(+:made)
				for(int r = 0; r < 4 * th; ++r){
					RegressionDataset copy = reg;                   // shares the batches
					std::vector<std::size_t> idx;
					for(std::size_t b = r % 2; b < reg.numberOfBatches(); b += 2) idx.push_back(b);
					RegressionDataset sub = reg.indexedSubset(idx);
					Data<RealVector> in = copy.inputs();
					WeightedLabeledData<RealVector,RealVector> wcopy = wsrc;
					RegressionDataset copy2; copy2 = copy;          // assignment of a shared copy
					copy.makeIndependent();
					sched_yield();
					std::size_t e = 0; bool ok = copy.numberOfElements() == n && in.numberOfElements() == n && copy2.numberOfElements() == n && wcopy.numberOfElements() == n;
					for(auto const& el: copy.elements()){ if(norm_inf(el.input - xs[e]) != 0 || norm_inf(el.label - ys[e]) != 0) ok = false; ++e; }
					e = 0; for(auto const& el: copy2.elements()){ if(norm_inf(el.input - xs[e]) != 0 || norm_inf(el.label - ys[e]) != 0) ok = false; ++e; }
					// the subset holds exactly the elements of the selected batches, in order
					std::size_t cnt = 0; std::vector<std::size_t> which;
					{ std::size_t start = 0; for(std::size_t b = 0; b != reg.numberOfBatches(); ++b){ std::size_t sz = batchSize(reg.batch(b)); if(b % 2 == (std::size_t)(r % 2)) for(std::size_t i = 0; i != sz; ++i) which.push_back(start + i); start += sz; } }
					for(std::size_t b: idx) cnt += batchSize(reg.batch(b));
					if(sub.numberOfElements() != cnt || which.size() != cnt) ok = false;
					e = 0; for(auto const& el: sub.elements()){ if(e < which.size() && (norm_inf(el.input - xs[which[e]]) != 0 || norm_inf(el.label - ys[which[e]]) != 0)) ok = false; ++e; }
					++made;
					if(!ok){
						#pragma omp critical
						bad = " !oracle shared-copy-wrong-contents routine=Dataset.sharedCopies threads=" + std::to_string(th);
					}
				}
			}
			// the source is untouched by all of this
			std::size_t e = 0; for(auto const& el: reg.elements()){ if(norm_inf(el.input - xs[e]) != 0 || norm_inf(el.label - ys[e]) != 0) bad = " !oracle shared-copy-source-modified routine=Dataset.sharedCopies threads=0"; ++e; }
			std::cout << "routine=Dataset.sharedCopies runs=" << made << " threads=" << threadList() << " sched=user-threads perturbed=0 oracle=independent result=ok" << bad << "\n";
		}
	}
	return 0;
}
