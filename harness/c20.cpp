// K-C20: every listed parallel routine is run on integer data (all sums exact) with
// 1,2,3,4,8,16 OpenMP threads, several repetitions each; any result that is not
// bit-identical to the single-threaded one is reported as `!oracle thread-dependence`.
// Also: concurrent shared copies / subsets of one dataset from several threads.
// The same source is compiled a second time with clang + ThreadSanitizer (+ Archer).
// Input lines: `case <seed> <n> <d> <batch> <reps>`; one output line per routine.
#include <shark/ObjectiveFunctions/ErrorFunction.h>
#include <shark/ObjectiveFunctions/Loss/SquaredLoss.h>
#include <shark/ObjectiveFunctions/Loss/AbsoluteLoss.h>
#include <shark/ObjectiveFunctions/KernelTargetAlignment.h>
#include <shark/Models/LinearModel.h>
#include <shark/Models/Kernels/LinearKernel.h>
#include <shark/Models/Kernels/PolynomialKernel.h>
#include <shark/Models/Kernels/KernelHelpers.h>
#include <shark/Models/Kernels/NormalizedKernel.h>
#include <shark/Models/Kernels/GaussianRbfKernel.h>
#include <shark/Models/Kernels/ScaledKernel.h>
#include <shark/Models/Kernels/WeightedSumKernel.h>
#include <shark/Models/Kernels/ProductKernel.h>
#include <shark/Models/ConcatenatedModel.h>
#include <shark/ObjectiveFunctions/Loss/CrossEntropy.h>
#include <shark/LinAlg/KernelMatrix.h>
#include <shark/Algorithms/NearestNeighbors/SimpleNearestNeighbors.h>
#include <shark/Algorithms/DirectSearch/Operators/Hypervolume/HypervolumeContributionMD.h>
#include <shark/Data/Dataset.h>
#include <shark/Data/WeightedDataset.h>
#include <shark/Core/OpenMP.h>
#include "common.hpp"
#include <cstring>
#include <sched.h>
using namespace shark;

static const int THREADS[] = {1, 2, 3, 4, 8, 16};

static std::string bits(double x){ std::uint64_t u; std::memcpy(&u, &x, 8); std::ostringstream os; os << std::hex << u; return os.str(); }
template<class V> std::string vecbits(V const& v){ std::string s; for(std::size_t i = 0; i != v.size(); ++i){ s += bits(v(i)); s += ","; } return s; }
template<class M> std::string matbits(M const& m){ std::string s; for(std::size_t i = 0; i != m.size1(); ++i) for(std::size_t j = 0; j != m.size2(); ++j){ s += bits(m(i,j)); s += ","; } return s; }
static std::string shorten(std::string const& s){ // FNV-1a of the exact rendering (kept short for the log)
	std::uint64_t h = 1469598103934665603ULL; for(unsigned char c: s){ h ^= c; h *= 1099511628211ULL; }
	std::ostringstream os; os << std::hex << h << "/" << s.size(); return os.str(); }

// run f() under every thread count, `reps` times; compare the exact rendering with threads=1
template<class F>
void sweep(char const* name, int reps, F f){
	omp_set_num_threads(1);
	std::string ref = f();
	std::string bad;
	int runs = 0;
	for(int t: THREADS){
		omp_set_num_threads(t);
		for(int r = 0; r < reps; ++r){
			++runs;
			std::string got = f();
			if(got != ref && bad.empty()){
				std::ostringstream os; os << " !oracle thread-dependence routine=" << name << " threads=" << t << " rep=" << r; bad = os.str();
			}
		}
	}
	std::cout << "routine=" << name << " runs=" << runs << " result=" << shorten(ref) << bad << "\n";
}

// tolerant variant for routines whose partial sums are not exactly representable
// (the property allows "up to floating-point reassociation"): relative 1e-12
template<class F>
void sweepTol(char const* name, int reps, F f){
	omp_set_num_threads(1);
	std::vector<double> ref = f();
	std::string bad; int runs = 0;
	for(int t: THREADS){
		omp_set_num_threads(t);
		for(int r = 0; r < reps; ++r){
			++runs;
			std::vector<double> got = f();
			bool ok = got.size() == ref.size();
			for(std::size_t i = 0; ok && i != ref.size(); ++i)
				if(!(std::fabs(got[i]-ref[i]) <= 1e-12 * (1.0 + std::fabs(ref[i])))) ok = false;
			if(!ok && bad.empty()){
				std::ostringstream os; os << " !oracle thread-dependence-beyond-reassociation routine=" << name << " threads=" << t << " rep=" << r; bad = os.str();
			}
		}
	}
	std::cout << "routine=" << name << " runs=" << runs << " result=toleranced(1e-12)" << bad << "\n";
}

struct AddOne{ typedef RealVector result_type; RealVector operator()(RealVector const& x) const{ RealVector y = x; for(std::size_t i = 0; i != y.size(); ++i) y(i) += 1; return y; } };
struct BatchDouble{ typedef RealMatrix result_type; RealMatrix operator()(RealMatrix const& x) const{ return RealMatrix(2.0 * x); } };

int main(){
	std::string line; std::vector<std::size_t> a;
	while(std::getline(std::cin, line)){
		std::vector<std::string> t = vh::tokens(line);
		if(t.empty()) continue;
		if(t[0] != "case" || !vh::allNat(t, 1, a) || a.size() != 5){ std::cout << "bad-op\n"; continue; }
		vh::SplitMix64 rng(a[0]);
		std::size_t n = a[1], d = a[2], bs = a[3]; int reps = (int)a[4];
		std::vector<RealVector> xs(n, RealVector(d)), ys(n, RealVector(2)); std::vector<unsigned int> cls(n);
		std::vector<double> w(n);
		for(std::size_t i = 0; i != n; ++i){
			for(std::size_t c = 0; c != d; ++c) xs[i](c) = double(rng.below(9)) - 4.0;
			ys[i](0) = double(rng.below(7)) - 3.0; ys[i](1) = double(rng.below(5)); cls[i] = (unsigned)rng.below(3);
			w[i] = double(1 + rng.below(3));
		}
		RegressionDataset reg = createLabeledDataFromRange(xs, ys, bs);
		ClassificationDataset cl = createLabeledDataFromRange(xs, cls, bs);
		Data<RealVector> inputs = createDataFromRange(xs, bs);
		std::cout << "case n=" << n << " d=" << d << " batches=" << reg.numberOfBatches() << "\n";

		LinearModel<> model(d, 2, true);
		RealVector p(model.numberOfParameters());
		for(std::size_t i = 0; i != p.size(); ++i) p(i) = double(rng.below(5)) - 2.0;
		SquaredLoss<> loss;
		{	ErrorFunction<> E(reg, &model, &loss);
			sweep("ErrorFunction.eval", reps, [&]{ return bits(E.eval(p)); });
			sweep("ErrorFunction.evalDerivative", reps, [&]{ RealVector g; double v = E.evalDerivative(p, g); return bits(v) + "|" + vecbits(g); });
		}
		{	WeightedLabeledData<RealVector,RealVector> wd(reg, 1.0);
			std::size_t q = 0;
			for(auto&& e: wd.elements()){ e.weight = w[q++]; }
			ErrorFunction<> E(wd, &model, &loss);
			sweep("WeightedErrorFunction.eval", reps, [&]{ return bits(E.eval(p)); });
			sweep("WeightedErrorFunction.evalDerivative", reps, [&]{ RealVector g; double v = E.evalDerivative(p, g); return bits(v) + "|" + vecbits(g); });
		}
		{	model.setParameterVector(p);
			Data<RealVector> pred = model(reg.inputs());
			AbsoluteLoss<> al;
			sweep("AbstractLoss.eval(Data,Data)", reps, [&]{ return bits(loss.eval(reg.labels(), pred)); });
			// AbsoluteLoss takes a square root per element: sums are not exact
			sweepTol("AbsoluteLoss.eval(Data,Data)", reps, [&]{ return std::vector<double>(1, al.eval(reg.labels(), pred)); });
		}
		{	PolynomialKernel<RealVector> k(2, 1.0, false);   // degree fixed => advertises the parameter derivative
			sweep("calculateRegularizedKernelMatrix", reps, [&]{ RealMatrix K = calculateRegularizedKernelMatrix(k, inputs, 1.0); return matbits(K); });
			Data<RealVector> in2 = createDataFromRange(std::vector<RealVector>(xs.begin(), xs.begin() + (n+1)/2), bs > 1 ? bs-1 : 1);
			sweep("calculateMixedKernelMatrix", reps, [&]{ RealMatrix K = calculateMixedKernelMatrix(k, inputs, in2); return matbits(K); });
			KernelMatrix<RealVector,double> km(k, inputs);
			sweep("KernelMatrix.row", reps, [&]{ std::vector<double> st(n); std::string s; for(std::size_t i = 0; i < n; i += (n/4)+1){ km.row(i, 0, n, &st[0]); for(double v: st){ s += bits(v); s += ","; } } return s; });
			KernelTargetAlignment<RealVector,unsigned int> kta(cl, &k);
			RealVector kp = k.parameterVector();
			sweep("KernelTargetAlignment.eval", reps, [&]{ return bits(kta.eval(kp)); });
			sweepTol("KernelTargetAlignment.evalDerivative", reps, [&]{ RealVector g; double v = kta.evalDerivative(kp, g); std::vector<double> r(1, v); for(std::size_t i = 0; i != g.size(); ++i) r.push_back(g(i)); return r; });
		}
		{	// every kind of kernel inside the parallel Gram / row regions (values are not exactly representable:
			// the comparison allows floating-point reassociation; a shared scratch buffer shows as a large
			// difference and, under ThreadSanitizer, as a race)
			PolynomialKernel<RealVector> pk(2, 1.0, false); LinearKernel<RealVector> lin; GaussianRbfKernel<RealVector> gk(0.25);
			NormalizedKernel<RealVector> nk(&pk); ScaledKernel<RealVector> sk(&pk, 2.0);
			std::vector<AbstractKernelFunction<RealVector>*> parts; parts.push_back(&pk); parts.push_back(&gk);
			WeightedSumKernel<RealVector> wk(parts); ProductKernel<RealVector> prk(&lin, &gk);
			AbstractKernelFunction<RealVector>* ks[] = {&nk, &gk, &sk, &wk, &prk};
			char const* names[] = {"Gram[normalized]", "Gram[gaussian]", "Gram[scaled]", "Gram[weightedsum]", "Gram[product]"};
			for(int q = 0; q != 5; ++q){
				AbstractKernelFunction<RealVector>* kk = ks[q];
				sweepTol(names[q], reps, [&]{ RealMatrix K = calculateRegularizedKernelMatrix(*kk, inputs, 0.5); std::vector<double> r; for(std::size_t i = 0; i != K.size1(); ++i) for(std::size_t j = 0; j != K.size2(); ++j) r.push_back(K(i,j)); return r; });
			}
			KernelMatrix<RealVector,double> km(nk, inputs);
			sweepTol("KernelMatrix.row[normalized]", reps, [&]{ std::vector<double> st(n), r; for(std::size_t i = 0; i < n; i += (n/3)+1){ km.row(i, 0, n, &st[0]); r.insert(r.end(), st.begin(), st.end()); } return r; });
		}
		{	// a non-linear two-layer model and a cross-entropy loss inside the ErrorFunction regions
			LinearModel<RealVector, TanhNeuron> l1(d, 3, true); LinearModel<RealVector> l2(3, 3, true);
			ConcatenatedModel<RealVector> net = l1 >> l2;
			RealVector q(net.numberOfParameters());
			for(std::size_t i = 0; i != q.size(); ++i) q(i) = (double(rng.below(9)) - 4.0) / 4.0;
			CrossEntropy<unsigned int, RealVector> ce;
			ErrorFunction<> E(cl, &net, &ce);
			sweepTol("ErrorFunction[tanh-net,cross-entropy]", reps, [&]{ RealVector g; double v = E.evalDerivative(q, g); std::vector<double> r(1, v); r.push_back(E.eval(q)); for(std::size_t i = 0; i != g.size(); ++i) r.push_back(g(i)); return r; });
		}
		{	// the same stateful network inside the WEIGHTED error function (a model with a non-empty State: every
			// thread needs its own state object), classification and regression labels
			LinearModel<RealVector, TanhNeuron> l1(d, 3, true); LinearModel<RealVector> l2(3, 3, true);
			ConcatenatedModel<RealVector> net = l1 >> l2;
			RealVector q(net.numberOfParameters());
			for(std::size_t i = 0; i != q.size(); ++i) q(i) = (double(rng.below(9)) - 4.0) / 4.0;
			CrossEntropy<unsigned int, RealVector> ce;
			WeightedLabeledData<RealVector,unsigned int> wcl(cl, 1.0);
			std::size_t k = 0;
			for(auto&& e: wcl.elements()){ e.weight = w[k++]; }
			ErrorFunction<> E(wcl, &net, &ce);
			sweepTol("WeightedErrorFunction[tanh-net,cross-entropy]", reps, [&]{ RealVector g; double v = E.evalDerivative(q, g); std::vector<double> r(1, v); r.push_back(E.eval(q)); for(std::size_t i = 0; i != g.size(); ++i) r.push_back(g(i)); return r; });
			// rectifier network on integer data and integer parameters: all arithmetic exact, bitwise comparison
			LinearModel<RealVector, RectifierNeuron> r1(d, 3, true); LinearModel<RealVector> r2(3, 2, true);
			ConcatenatedModel<RealVector> rnet = r1 >> r2;
			RealVector rq(rnet.numberOfParameters());
			for(std::size_t i = 0; i != rq.size(); ++i) rq(i) = double(rng.below(5)) - 2.0;
			WeightedLabeledData<RealVector,RealVector> wreg(reg, 1.0);
			k = 0;
			for(auto&& e: wreg.elements()){ e.weight = w[k++]; }
			ErrorFunction<> ER(wreg, &rnet, &loss);
			sweep("WeightedErrorFunction[relu-net].evalDerivative", reps, [&]{ RealVector g; double v = ER.evalDerivative(rq, g); return bits(v) + "|" + vecbits(g); });
			ErrorFunction<> EU(reg, &rnet, &loss);
			sweep("ErrorFunction[relu-net].evalDerivative", reps, [&]{ RealVector g; double v = EU.evalDerivative(rq, g); return bits(v) + "|" + vecbits(g); });
		}
		{	sweep("transform(element-wise)", reps, [&]{ Data<RealVector> r = transform(inputs, AddOne()); std::string s; for(std::size_t b = 0; b != r.numberOfBatches(); ++b) s += matbits(r.batch(b)) + ";"; return s; });
			sweep("transform(batch-wise)", reps, [&]{ Data<RealVector> r = transform(inputs, BatchDouble()); std::string s; for(std::size_t b = 0; b != r.numberOfBatches(); ++b) s += matbits(r.batch(b)) + ";"; return s; });
		}
		{	LinearKernel<RealVector> lk;
			SimpleNearestNeighbors<RealVector,unsigned int> nn(cl, &lk);
			RealMatrix queries(3, d);
			for(std::size_t i = 0; i != 3; ++i) for(std::size_t c = 0; c != d; ++c) queries(i,c) = double(rng.below(9)) - 4.0;
			std::size_t k = std::min<std::size_t>(n, 1 + rng.below(5));
			// distances are sorted; labels of equidistant neighbours may legitimately differ, so compare distances only
			sweep("SimpleNearestNeighbors.getNeighbors", reps, [&]{ auto r = nn.getNeighbors(queries, k); std::string s; for(auto const& e: r){ s += bits(e.key); s += ","; } return s; });
		}
		{	std::vector<RealVector> pts;
			std::size_t m = std::min<std::size_t>(n, 7);
			for(std::size_t i = 0; i != m; ++i){ RealVector q(4); for(std::size_t c = 0; c != 4; ++c) q(c) = double(rng.below(6)); pts.push_back(q); }
			RealVector ref(4, 7.0);
			HypervolumeContributionMD hc;
			std::size_t k = 1 + rng.below(m);
			auto render = [](std::vector<KeyValuePair<double,std::size_t> > const& r){ std::string s; for(auto const& e: r){ s += bits(e.key); s += ":"; s += std::to_string(e.value); s += ","; } return s; };
			sweep("HypervolumeContributionMD.smallest", reps, [&]{ return render(hc.smallest(pts, k, ref)); });
			sweep("HypervolumeContributionMD.largest", reps, [&]{ return render(hc.largest(pts, k, ref)); });
		}
		{	// shared copies and batch subsets of one dataset, concurrently from several threads
			std::string bad; int made = 0;
			for(int th: THREADS){
				omp_set_num_threads(th);
				#pragma omp parallel for reduction(+:made)
				for(int r = 0; r < 4 * th; ++r){
					RegressionDataset copy = reg;                   // shares the batches
					std::vector<std::size_t> idx;
					for(std::size_t b = r % 2; b < reg.numberOfBatches(); b += 2) idx.push_back(b);
					RegressionDataset sub = reg.indexedSubset(idx);
					Data<RealVector> in = copy.inputs();
					copy.makeIndependent();
					sched_yield();
					std::size_t e = 0; bool ok = copy.numberOfElements() == n && in.numberOfElements() == n;
					for(auto const& el: copy.elements()){ if(norm_inf(el.input - xs[e]) != 0 || norm_inf(el.label - ys[e]) != 0) ok = false; ++e; }
					std::size_t cnt = 0; for(std::size_t b: idx) cnt += batchSize(reg.batch(b));
					if(sub.numberOfElements() != cnt) ok = false;
					++made;
					if(!ok){
						#pragma omp critical
						bad = " !oracle shared-copy-wrong-contents threads=" + std::to_string(th);
					}
				}
			}
			std::cout << "routine=Dataset.sharedCopies runs=" << made << " result=ok" << bad << "\n";
		}
	}
	return 0;
}
