// shared by harness/c12.cpp: id <-> input element codecs and printing helpers (same as in c03.cpp)
#ifndef VERIF_DSCODEC_HPP
#define VERIF_DSCODEC_HPP
#include <shark/Data/Dataset.h>
#include <shark/Data/DataView.h>
#include "common.hpp"
#include <algorithm>
using namespace shark;
struct Blob{
	std::string text; std::size_t id;
	Blob(): id(0){}
	explicit Blob(std::size_t i): text("blob" + std::to_string(i)), id(i){}
	template<class A> void serialize(A& ar, unsigned int){ ar & text; ar & id; }
};

typedef std::pair<std::size_t, unsigned> Elem;   // (id, label)
typedef std::vector<Elem> Flat;
static const std::size_t BAD = (std::size_t)-1;

template<class I> struct Codec;
template<> struct Codec<unsigned int>{
	static unsigned int enc(std::size_t id){ return (unsigned int)id; }
	template<class X> static std::size_t dec(X const& x){ return (std::size_t)(unsigned int)x; }
	static std::string shape(){ return "[]"; }
};
template<> struct Codec<RealVector>{
	static RealVector enc(std::size_t id){ RealVector v(3); v(0) = (double)id; v(1) = id + 0.5; v(2) = -(double)id; return v; }
	template<class X> static std::size_t dec(X const& x){
		if(x.size() != 3) return BAD;
		double d = x(0); std::size_t id = (std::size_t)d;
		if(d != (double)id || x(1) != id + 0.5 || x(2) != -(double)id) return BAD;
		return id;
	}
};
template<> struct Codec<CompressedRealVector>{
	static CompressedRealVector enc(std::size_t id){
		CompressedRealVector v(7);
		std::size_t p1 = id % 7, p2 = (id + 3) % 7;
		double v1 = id + 1.0, v2 = id + 2.0;
		if(p1 > p2){ std::swap(p1, p2); std::swap(v1, v2); }
		auto pos = v.end();
		pos = v.set_element(pos, p1, v1);
		pos = v.set_element(pos, p2, v2);
		return v;
	}
	template<class X> static std::size_t dec(X const& x){
		if(x.size() != 7) return BAD;
		RealVector d(7, 0.0);
		std::size_t nnz = 0;
		for(auto it = x.begin(); it != x.end(); ++it){ d(it.index()) = *it; ++nnz; }
		if(nnz != 2) return BAD;
		for(std::size_t p = 0; p != 7; ++p){
			if(d(p) >= 1.0){
				std::size_t id = (std::size_t)(d(p) - 1.0);
				if(id % 7 == p && d((id + 3) % 7) == id + 2.0 && d(p) == id + 1.0) return id;
			}
		}
		return BAD;
	}
};
template<> struct Codec<Blob>{
	static Blob enc(std::size_t id){ return Blob(id); }
	template<class X> static std::size_t dec(X const& x){
		Blob const& b = x;
		return b.text == "blob" + std::to_string(b.id) ? b.id : BAD;
	}
};

std::string showNats(std::vector<std::size_t> const& v){
	std::ostringstream os; os << "[";
	for(std::size_t i = 0; i != v.size(); ++i){ if(i) os << " "; os << v[i]; }
	os << "]"; return os.str();
}
std::string showShape(Shape const& s){
	std::vector<std::size_t> d; for(std::size_t i = 0; i != s.size(); ++i) d.push_back(s[i]);
	return showNats(d);
}
std::string showEls(Flat const& f){
	std::ostringstream os; os << "[";
	for(std::size_t i = 0; i != f.size(); ++i){
		if(i) os << " ";
		if(f[i].first == BAD) os << "?"; else os << f[i].first << ":" << f[i].second;
	}
	os << "]"; return os.str();
}

#endif
