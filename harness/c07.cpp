// K-C07: trainer-level harness.  One training configuration per input line:
//   csvm <bias> <shrink> <C> <eps> <maxit> <n> <d> x.. y..            (integer points, LINEAR kernel; compared
//        bit-for-bit with the Lean trainer model, lean/Driver/C07.lean)
//   cfg  <kernel lin|rbf> <gamma> <bias> <shrink> <precompute> <cache> <C> <eps> <n> <d> x.. y..   (oracle only)
//   csvm2 <bias> <shrink> <precompute> <cache> <weighted> <Cn> <Cp> <eps> <maxit> <warmit> <warmfac> <n> <d> x.. y.. w..
//        CSvmTrainer: one C (Cn == Cp) or class-specific C, plain or weighted data (weighted = 0: all w must be 1), cold
//        (warmit = 0) or warm start (a first training with C*warmfac and at most warmit iterations fills the model)
//   esvr  <shrink> <C> <tube> <eps> <maxit> <n> <d> x.. y..             EpsilonSvmTrainer
//   ocsvm <shrink> <nu> <eps> <maxit> <n> <d> x..                       OneClassSvmTrainer (coefficients, offset, stop, its)
//        (these three: integer points, LINEAR kernel, compared bit-for-bit with the Lean trainer model as well)
//   trn  <kind c|e|o> <kernel lin|rbf> <gamma> <bias> <shrink> <precompute> <cache> <eps> <maxit> <warmit> <warmfac>
//        <weighted> <p1> <p2> <n> <d> x.. y.. w..      (oracle only; see trainGeneral below)
//        kind c: CSvmTrainer with class-specific C (p1 = C of label 0, p2 = C of label 1; the one-C constructor is used
//                when p1 == p2), optionally on a WeightedLabeledData (per-example C = C_class * w_i), optionally warm
//                started (warmit > 0: a first training with C*warmfac and at most warmit iterations fills the model,
//                the second training starts from its coefficients)
//        kind e: EpsilonSvmTrainer (p1 = C, p2 = tube epsilon, real labels y)
//        kind o: OneClassSvmTrainer (p1 = nu)
// Output: acc=<QpAccuracyReached?> it=<iterations> alpha=[..] b=<offset>   + " !oracle <tag>" when the property
// itself fails: the oracle recomputes K with plain loops and checks box, equality constraint, KKT(eps),
// bias interval and the reported objective -- exactly the text of property C07.
#include <shark/Algorithms/Trainers/CSvmTrainer.h>
#include <shark/Algorithms/Trainers/EpsilonSvmTrainer.h>
#include <shark/Algorithms/Trainers/OneClassSvmTrainer.h>
#include <shark/Models/Kernels/LinearKernel.h>
#include <shark/Models/Kernels/GaussianRbfKernel.h>
#include "common.hpp"
#include <cmath>
#include <memory>
#include <iomanip>
using namespace shark;

static std::string tok(double x){
	if(std::isnan(x)) return "nan";
	if(std::isinf(x)) return x > 0 ? "inf" : "-inf";
	if(x == 0) return std::signbit(x) ? "-0@0" : "0@0";
	int e; double m = std::frexp(x, &e);
	long long mi = (long long)std::ldexp(m, 53); e -= 53;
	while(mi % 2 == 0){ mi /= 2; ++e; }
	std::ostringstream os; os << mi << "@" << e; return os.str();
}
static double untok(std::string const& t){
	std::size_t at = t.find('@');
	return std::ldexp((double)std::stoll(t.substr(0, at)), std::stoi(t.substr(at + 1)));
}

struct Result{ std::vector<double> alpha; double b, value, accuracy; bool acc; unsigned long long it; };

static Result trainOnce(std::string const& kern, double gamma, bool bias, bool shrink, bool precompute, std::size_t cache,
		double C, double eps, unsigned long long maxit, std::vector<RealVector> const& xs, std::vector<unsigned int> const& ys){
	LinearKernel<RealVector> lin; GaussianRbfKernel<RealVector> rbf(gamma);
	AbstractKernelFunction<RealVector>* k = kern == "lin" ? (AbstractKernelFunction<RealVector>*)&lin : (AbstractKernelFunction<RealVector>*)&rbf;
	ClassificationDataset data = createLabeledDataFromRange(xs, ys);
	CSvmTrainer<RealVector> trainer(k, C, bias);
	trainer.sparsify() = false;
	trainer.shrinking() = shrink;
	trainer.precomputeKernel() = precompute;
	if(cache) trainer.setCacheSize(cache);
	trainer.stoppingCondition().minAccuracy = eps;
	trainer.stoppingCondition().maxIterations = maxit;
	KernelClassifier<RealVector> svm;
	trainer.train(svm, data);
	Result r;
	for(std::size_t i = 0; i != xs.size(); ++i) r.alpha.push_back(svm.decisionFunction().alpha()(i, 0));
	r.b = bias ? svm.decisionFunction().offset()(0) : 0.0;
	r.value = trainer.solutionProperties().value;
	r.accuracy = trainer.solutionProperties().accuracy;
	r.acc = trainer.solutionProperties().type == QpAccuracyReached;
	r.it = trainer.solutionProperties().iterations;
	return r;
}

// independent oracle: property C07 on the returned coefficients
static std::string oracle(std::string const& kern, double gamma, bool bias, double C, double eps,
		std::vector<RealVector> const& xs, std::vector<unsigned int> const& ys, Result const& r, long double* objOut){
	std::ostringstream os;
	std::size_t n = xs.size();
	std::vector<std::vector<long double> > K(n, std::vector<long double>(n));
	for(std::size_t i = 0; i != n; ++i) for(std::size_t j = 0; j != n; ++j){
		long double s = 0, d2 = 0;
		for(std::size_t k = 0; k != xs[i].size(); ++k){ s += (long double)xs[i](k) * xs[j](k); long double d = (long double)xs[i](k) - xs[j](k); d2 += d*d; }
		// the solver sees the kernel through a float cache: the dual it solves has the rounded entries
		K[i][j] = (long double)(float)(kern == "lin" ? s : std::exp(-(long double)gamma * d2));
	}
	long double sum = 0, obj = 0, scale = 0;
	std::vector<long double> g(n);
	for(std::size_t i = 0; i != n; ++i){
		long double y = ys[i] ? 1 : -1;
		long double L = ys[i] ? 0 : -C, U = ys[i] ? C : 0;
		if(r.alpha[i] < L || r.alpha[i] > U) os << " !oracle box@" << i;
		sum += r.alpha[i];
		g[i] = y;
		for(std::size_t j = 0; j != n; ++j) g[i] -= K[i][j] * r.alpha[j];
	}
	for(std::size_t i = 0; i != n; ++i){
		long double y = ys[i] ? 1 : -1;
		obj += y * r.alpha[i]; scale += std::fabs((long double)r.alpha[i]);
		for(std::size_t j = 0; j != n; ++j){ obj -= 0.5L * r.alpha[i] * K[i][j] * r.alpha[j]; scale += std::fabs(r.alpha[i] * K[i][j] * r.alpha[j]); }
	}
	*objOut = obj;
	long double tol = 1e-9L * (1 + scale);
	if(r.acc){
		if(bias){
			if(std::fabs(sum) > 1e-9L * (1 + scale)) os << " !oracle equality-constraint";
			long double up = -1e100L, down = 1e100L;
			for(std::size_t i = 0; i != n; ++i){
				long double L = ys[i] ? 0 : -C, U = ys[i] ? C : 0;
				if(r.alpha[i] < U) up = std::max(up, g[i]);
				if(r.alpha[i] > L) down = std::min(down, g[i]);
			}
			if(up - down > eps + tol) os << " !oracle kkt(" << (double)(up - down) << ")";
			// bias interval: g_i - b <= eps for i not at the upper bound, b - g_i <= eps for i not at the lower bound
			for(std::size_t i = 0; i != n; ++i){
				long double L = ys[i] ? 0 : -C, U = ys[i] ? C : 0;
				if(r.alpha[i] < U && g[i] - r.b > eps + tol) os << " !oracle bias-interval@" << i;
				if(r.alpha[i] > L && r.b - g[i] > eps + tol) os << " !oracle bias-interval@" << i;
			}
		}else{
			long double viol = 0;
			for(std::size_t i = 0; i != n; ++i){
				long double L = ys[i] ? 0 : -C, U = ys[i] ? C : 0;
				if(r.alpha[i] < U) viol = std::max(viol, g[i]);
				if(r.alpha[i] > L) viol = std::max(viol, -g[i]);
			}
			if(viol > eps + tol) os << " !oracle kkt(" << (double)viol << ")";
		}
		if(std::fabs(obj - (long double)r.value) > 1e-9L * (1 + scale)) os << " !oracle objective-not-reproduced(" << r.value << " vs " << (double)obj << ")";
	}
	return os.str();
}


// ------------------------------------------------------------------------------------------------ general trainers
struct GenCfg{
	std::string kind, kern; double gamma; bool bias, shrink, pre; std::size_t cache; double eps; unsigned long long maxit, warmit;
	double warmfac; bool weighted; double p1, p2;
	std::vector<RealVector> xs; std::vector<double> ys; std::vector<double> ws;
};

template<class Trainer> static void configure(Trainer& t, GenCfg const& c, unsigned long long maxit){
	t.sparsify() = false;
	t.shrinking() = c.shrink;
	t.precomputeKernel() = c.pre;
	if(c.cache) t.setCacheSize(c.cache);
	t.stoppingCondition().minAccuracy = c.eps;
	t.stoppingCondition().maxIterations = maxit;
}

static Result trainGeneral(GenCfg const& c){
	LinearKernel<RealVector> lin; GaussianRbfKernel<RealVector> rbf(c.gamma);
	AbstractKernelFunction<RealVector>* k = c.kern == "lin" ? (AbstractKernelFunction<RealVector>*)&lin : (AbstractKernelFunction<RealVector>*)&rbf;
	std::size_t n = c.xs.size();
	Result r;
	if(c.kind == "c"){
		std::vector<unsigned int> labels(n);
		for(std::size_t i = 0; i != n; ++i) labels[i] = c.ys[i] > 0 ? 1 : 0;
		ClassificationDataset data = createLabeledDataFromRange(c.xs, labels);
		WeightedLabeledData<RealVector, unsigned int> wdata(data, 1.0);
		if(c.weighted){
			std::size_t i = 0;
			for(auto& w : wdata.weights().elements()) w = c.ws[i++];
		}
		KernelClassifier<RealVector> svm;
		for(int phase = (c.warmit ? 0 : 1); phase != 2; ++phase){
			double f = phase == 0 ? c.warmfac : 1.0;
			std::unique_ptr<CSvmTrainer<RealVector> > t(c.p1 == c.p2
				? new CSvmTrainer<RealVector>(k, c.p1 * f, c.bias)
				: new CSvmTrainer<RealVector>(k, c.p1 * f, c.p2 * f, c.bias));
			configure(*t, c, phase == 0 ? c.warmit : c.maxit);
			if(c.weighted) t->train(svm, wdata); else t->train(svm, data);
			r.value = t->solutionProperties().value; r.accuracy = t->solutionProperties().accuracy;
			r.acc = t->solutionProperties().type == QpAccuracyReached; r.it = t->solutionProperties().iterations;
		}
		for(std::size_t i = 0; i != n; ++i) r.alpha.push_back(svm.decisionFunction().alpha()(i, 0));
		r.b = c.bias ? svm.decisionFunction().offset()(0) : 0.0;
	}else if(c.kind == "e"){
		std::vector<RealVector> labels(n, RealVector(1));
		for(std::size_t i = 0; i != n; ++i) labels[i](0) = c.ys[i];
		RegressionDataset data = createLabeledDataFromRange(c.xs, labels);
		EpsilonSvmTrainer<RealVector> t(k, c.p1, c.p2);
		configure(t, c, c.maxit);
		KernelExpansion<RealVector> svm;
		t.train(svm, data);
		for(std::size_t i = 0; i != n; ++i) r.alpha.push_back(svm.alpha()(i, 0));
		r.b = svm.offset()(0);
		r.value = t.solutionProperties().value; r.accuracy = t.solutionProperties().accuracy;
		r.acc = t.solutionProperties().type == QpAccuracyReached; r.it = t.solutionProperties().iterations;
	}else{
		UnlabeledData<RealVector> data = createDataFromRange(c.xs);
		OneClassSvmTrainer<RealVector> t(k, c.p1);
		configure(t, c, c.maxit);
		KernelExpansion<RealVector> svm;
		t.train(svm, data);
		for(std::size_t i = 0; i != n; ++i) r.alpha.push_back(svm.alpha()(i, 0));
		r.b = svm.offset()(0);
		r.value = t.solutionProperties().value; r.accuracy = t.solutionProperties().accuracy;
		r.acc = t.solutionProperties().type == QpAccuracyReached; r.it = t.solutionProperties().iterations;
	}
	return r;
}

// independent oracle for the general trainers: the dual problem is rebuilt from the configuration alone
//   maximise lin.a - 1/2 a^T Q a,  L <= a <= U,  (sum a = target when an equality constraint exists)
// for kind e the returned coefficients beta_i = a_i + a*_i are split canonically (a_i = max(beta_i,0), a*_i = min(beta_i,0)).
static std::string oracleGeneral(GenCfg const& c, Result const& r, long double* objOut, long double* widthOut){
	std::ostringstream os;
	std::size_t n = c.xs.size();
	std::vector<std::vector<long double> > K(n, std::vector<long double>(n));
	for(std::size_t i = 0; i != n; ++i) for(std::size_t j = 0; j != n; ++j){
		long double s = 0, d2 = 0;
		for(std::size_t k = 0; k != c.xs[i].size(); ++k){ s += (long double)c.xs[i](k) * c.xs[j](k); long double d = (long double)c.xs[i](k) - c.xs[j](k); d2 += d*d; }
		K[i][j] = (long double)(float)(c.kern == "lin" ? s : std::exp(-(long double)c.gamma * d2));
	}
	std::size_t m = c.kind == "e" ? 2 * n : n;
	std::vector<long double> a(m), lin(m), L(m), U(m), g(m);
	bool equality = true; long double target = 0;
	if(c.kind == "c"){
		equality = c.bias;
		for(std::size_t i = 0; i != n; ++i){
			bool pos = c.ys[i] > 0; long double w = c.weighted ? c.ws[i] : 1.0;
			a[i] = r.alpha[i]; lin[i] = pos ? 1 : -1;
			L[i] = pos ? 0 : -(long double)c.p1 * w; U[i] = pos ? (long double)c.p2 * w : 0;
		}
	}else if(c.kind == "e"){
		for(std::size_t i = 0; i != n; ++i){
			a[i] = std::max((long double)r.alpha[i], 0.0L); a[i+n] = std::min((long double)r.alpha[i], 0.0L);
			lin[i] = (long double)c.ys[i] - c.p2; lin[i+n] = (long double)c.ys[i] + c.p2;
			L[i] = 0; U[i] = c.p1; L[i+n] = -(long double)c.p1; U[i+n] = 0;
		}
	}else{
		target = 1;
		double upper = 1.0 / (c.p1 * n);
		for(std::size_t i = 0; i != n; ++i){ a[i] = r.alpha[i]; lin[i] = 0; L[i] = 0; U[i] = upper; }
	}
	long double sum = 0, obj = 0, scale = 0, width = 0;
	for(std::size_t i = 0; i != m; ++i){
		if(a[i] < L[i] || a[i] > U[i]) os << " !oracle box@" << i;
		sum += a[i]; width += U[i] - L[i];
		g[i] = lin[i];
		for(std::size_t j = 0; j != m; ++j) g[i] -= K[i % n][j % n] * a[j];
	}
	for(std::size_t i = 0; i != m; ++i){
		obj += lin[i] * a[i]; scale += std::fabs(lin[i] * a[i]);
		for(std::size_t j = 0; j != m; ++j){ obj -= 0.5L * a[i] * K[i % n][j % n] * a[j]; scale += std::fabs(a[i] * K[i % n][j % n] * a[j]); }
	}
	*objOut = obj; *widthOut = width;
	long double tol = 1e-9L * (1 + scale);
	if(equality && std::fabs(sum - target) > tol) os << " !oracle equality-constraint(" << (double)sum << ")";
	if(r.acc){
		if(equality){
			long double up = -1e100L, down = 1e100L;
			for(std::size_t i = 0; i != m; ++i){
				if(a[i] < U[i]) up = std::max(up, g[i]);
				if(a[i] > L[i]) down = std::min(down, g[i]);
			}
			if(up - down > c.eps + tol) os << " !oracle kkt(" << (double)(up - down) << ")";
			for(std::size_t i = 0; i != m; ++i){
				if(a[i] < U[i] && g[i] - r.b > c.eps + tol){ os << " !oracle bias-interval@" << i << "(" << (double)(g[i] - r.b) << ")"; break; }
				if(a[i] > L[i] && r.b - g[i] > c.eps + tol){ os << " !oracle bias-interval@" << i << "(" << (double)(r.b - g[i]) << ")"; break; }
			}
		}else{
			long double viol = 0;
			for(std::size_t i = 0; i != m; ++i){
				if(a[i] < U[i]) viol = std::max(viol, g[i]);
				if(a[i] > L[i]) viol = std::max(viol, -g[i]);
			}
			if(viol > c.eps + tol) os << " !oracle kkt(" << (double)viol << ")";
		}
		if(std::fabs(obj - (long double)r.value) > tol) os << " !oracle objective-not-reproduced(" << std::setprecision(17) << r.value << " vs " << (double)obj << ")";
	}
	return os.str();
}

int main(){
	std::string line;
	while(std::getline(std::cin, line)){
		std::vector<std::string> t = vh::tokens(line);
		if(t.empty()){ std::cout << "\n"; continue; }
		std::string kern = "lin"; double gamma = 1, C, eps; bool bias, shrink, pre = false; std::size_t cache = 0, n, d, at; unsigned long long maxit = 0xffffffffULL;
		if(t[0] == "csvm" && t.size() >= 8){
			bias = t[1] == "1"; shrink = t[2] == "1"; C = untok(t[3]); eps = untok(t[4]); maxit = std::stoull(t[5]);
			n = std::stoul(t[6]); d = std::stoul(t[7]); at = 8;
		}else if(t[0] == "cfg" && t.size() >= 11){
			kern = t[1]; gamma = untok(t[2]); bias = t[3] == "1"; shrink = t[4] == "1"; pre = t[5] == "1"; cache = std::stoul(t[6]);
			C = untok(t[7]); eps = untok(t[8]); n = std::stoul(t[9]); d = std::stoul(t[10]); at = 11;
		}else if((t[0] == "csvm2" && t.size() >= 14) || (t[0] == "esvr" && t.size() >= 8) || (t[0] == "ocsvm" && t.size() >= 7)){
			// model-comparison ops for the widened trainers (linear kernel); no oracle suffix: the oracle runs on the `trn` cross
			GenCfg c; c.kern = "lin"; c.gamma = 1; c.pre = false; c.cache = 0; c.warmit = 0; c.warmfac = 1; c.weighted = false; c.bias = true;
			std::size_t p;
			if(t[0] == "csvm2"){
				c.kind = "c"; c.bias = t[1] == "1"; c.shrink = t[2] == "1"; c.pre = t[3] == "1"; c.cache = std::stoul(t[4]); c.weighted = t[5] == "1";
				c.p1 = untok(t[6]); c.p2 = untok(t[7]); c.eps = untok(t[8]); c.maxit = std::stoull(t[9]); c.warmit = std::stoull(t[10]); c.warmfac = untok(t[11]);
				n = std::stoul(t[12]); d = std::stoul(t[13]); p = 14;
			}
			else if(t[0] == "esvr"){ c.kind = "e"; c.shrink = t[1] == "1"; c.p1 = untok(t[2]); c.p2 = untok(t[3]); c.eps = untok(t[4]); c.maxit = std::stoull(t[5]); n = std::stoul(t[6]); d = std::stoul(t[7]); p = 8; }
			else{ c.kind = "o"; c.shrink = t[1] == "1"; c.p1 = untok(t[2]); c.p2 = 0; c.eps = untok(t[3]); c.maxit = std::stoull(t[4]); n = std::stoul(t[5]); d = std::stoul(t[6]); p = 7; }
			std::size_t extra = c.kind == "c" ? 2*n : (c.kind == "e" ? n : 0);
			if(t.size() != p + n*d + extra){ std::cout << "bad-op\n"; continue; }
			c.xs.assign(n, RealVector(d));
			for(std::size_t i = 0; i != n; ++i) for(std::size_t k = 0; k != d; ++k) c.xs[i](k) = untok(t[p + i*d + k]);
			for(std::size_t i = 0; i != n; ++i) c.ys.push_back(c.kind == "c" ? (t[p + n*d + i] == "1" ? 1.0 : 0.0) : (c.kind == "e" ? untok(t[p + n*d + i]) : 0.0));
			for(std::size_t i = 0; i != n; ++i) c.ws.push_back(c.kind == "c" ? untok(t[p + n*d + n + i]) : 1.0);
			std::ostringstream os;
			try{
				Result r = trainGeneral(c);
				os << "acc=" << (r.acc ? 1 : 0) << " it=" << r.it << " alpha=[";
				for(std::size_t i = 0; i != n; ++i){ if(i) os << ","; os << tok(r.alpha[i]); }
				os << "] b=" << tok(r.b);
			}catch(std::exception const& e){ os << "exception " << e.what(); }
			std::cout << os.str() << "\n";
			continue;
		}else if(t[0] == "trn" && t.size() >= 17){
			GenCfg c;
			c.kind = t[1]; c.kern = t[2]; c.gamma = untok(t[3]); c.bias = t[4] == "1"; c.shrink = t[5] == "1"; c.pre = t[6] == "1";
			c.cache = std::stoul(t[7]); c.eps = untok(t[8]); c.maxit = std::stoull(t[9]); c.warmit = std::stoull(t[10]);
			c.warmfac = untok(t[11]); c.weighted = t[12] == "1"; c.p1 = untok(t[13]); c.p2 = untok(t[14]);
			n = std::stoul(t[15]); d = std::stoul(t[16]);
			if(t.size() != 17 + n*d + 2*n || (c.kind != "c" && c.kind != "e" && c.kind != "o")){ std::cout << "bad-op\n"; continue; }
			c.xs.assign(n, RealVector(d));
			for(std::size_t i = 0; i != n; ++i) for(std::size_t k = 0; k != d; ++k) c.xs[i](k) = untok(t[17 + i*d + k]);
			for(std::size_t i = 0; i != n; ++i) c.ys.push_back(untok(t[17 + n*d + i]));
			for(std::size_t i = 0; i != n; ++i) c.ws.push_back(untok(t[17 + n*d + n + i]));
			std::ostringstream os;
			try{
				Result r = trainGeneral(c);
				long double obj, width;
				std::string o = oracleGeneral(c, r, &obj, &width);
				os << "acc=" << (r.acc ? 1 : 0) << " it=" << r.it << " alpha=[";
				for(std::size_t i = 0; i != n; ++i){ if(i) os << ","; os << tok(r.alpha[i]); }
				os << "] b=" << tok(r.b) << " ;obj=" << tok((double)obj) << " ;width=" << tok((double)width) << o;
			}catch(std::exception const& e){ os << "exception " << e.what(); }
			std::cout << os.str() << "\n";
			continue;
		}else{ std::cout << "bad-op\n"; continue; }
		if(t.size() != at + n*d + n){ std::cout << "bad-op\n"; continue; }
		std::vector<RealVector> xs(n, RealVector(d)); std::vector<unsigned int> ys(n);
		for(std::size_t i = 0; i != n; ++i) for(std::size_t k = 0; k != d; ++k) xs[i](k) = untok(t[at + i*d + k]);
		for(std::size_t i = 0; i != n; ++i) ys[i] = t[at + n*d + i] == "1" ? 1 : 0;
		Result r = trainOnce(kern, gamma, bias, shrink, pre, cache, C, eps, maxit, xs, ys);
		long double obj;
		std::string o = oracle(kern, gamma, bias, C, eps, xs, ys, r, &obj);
		std::ostringstream os;
		os << "acc=" << (r.acc ? 1 : 0) << " it=" << r.it << " alpha=[";
		for(std::size_t i = 0; i != n; ++i){ if(i) os << ","; os << tok(r.alpha[i]); }
		os << "] b=" << tok(r.b);
		if(t[0] == "cfg") os << " ;obj=" << tok((double)obj);
		std::cout << os.str() << o << "\n";
	}
	return 0;
}
