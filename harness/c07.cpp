// K-C07: trainer-level harness.  One training configuration per input line:
//   csvm <bias> <shrink> <C> <eps> <maxit> <n> <d> x.. y..            (integer points, LINEAR kernel; compared
//        bit-for-bit with the Lean trainer model, lean/Driver/C07.lean)
//   cfg  <kernel lin|rbf> <gamma> <bias> <shrink> <precompute> <cache> <C> <eps> <n> <d> x.. y..   (oracle only)
// Output: acc=<QpAccuracyReached?> it=<iterations> alpha=[..] b=<offset>   + " !oracle <tag>" when the property
// itself fails: the oracle recomputes K with plain loops and checks box, equality constraint, KKT(eps),
// bias interval and the reported objective -- exactly the text of property C07.
#include <shark/Algorithms/Trainers/CSvmTrainer.h>
#include <shark/Models/Kernels/LinearKernel.h>
#include <shark/Models/Kernels/GaussianRbfKernel.h>
#include "common.hpp"
#include <cmath>
using namespace shark;

static std::string tok(double x){
	if(std::isnan(x)) return "nan";
	if(std::isinf(x)) return x > 0 ? "inf" : "-inf";
	if(x == 0) return std::signbit(x) ? "-0@0" : "0@0";
	int e; double m = std::frexp(x, &e);
	long long mi = (long long)std::ldexp(m, 53); e -= 53;
	while(mi % 2 == 0){ mi /= 2; ++e; }
	std::ostringstream os; os << mi << "@" << e; return os.str();
}
static double untok(std::string const& t){
	std::size_t at = t.find('@');
	return std::ldexp((double)std::stoll(t.substr(0, at)), std::stoi(t.substr(at + 1)));
}

struct Result{ std::vector<double> alpha; double b, value, accuracy; bool acc; unsigned long long it; };

static Result trainOnce(std::string const& kern, double gamma, bool bias, bool shrink, bool precompute, std::size_t cache,
		double C, double eps, unsigned long long maxit, std::vector<RealVector> const& xs, std::vector<unsigned int> const& ys){
	LinearKernel<RealVector> lin; GaussianRbfKernel<RealVector> rbf(gamma);
	AbstractKernelFunction<RealVector>* k = kern == "lin" ? (AbstractKernelFunction<RealVector>*)&lin : (AbstractKernelFunction<RealVector>*)&rbf;
	ClassificationDataset data = createLabeledDataFromRange(xs, ys);
	CSvmTrainer<RealVector> trainer(k, C, bias);
	trainer.sparsify() = false;
	trainer.shrinking() = shrink;
	trainer.precomputeKernel() = precompute;
	if(cache) trainer.setCacheSize(cache);
	trainer.stoppingCondition().minAccuracy = eps;
	trainer.stoppingCondition().maxIterations = maxit;
	KernelClassifier<RealVector> svm;
	trainer.train(svm, data);
	Result r;
	for(std::size_t i = 0; i != xs.size(); ++i) r.alpha.push_back(svm.decisionFunction().alpha()(i, 0));
	r.b = bias ? svm.decisionFunction().offset()(0) : 0.0;
	r.value = trainer.solutionProperties().value;
	r.accuracy = trainer.solutionProperties().accuracy;
	r.acc = trainer.solutionProperties().type == QpAccuracyReached;
	r.it = trainer.solutionProperties().iterations;
	return r;
}

// independent oracle: property C07 on the returned coefficients
static std::string oracle(std::string const& kern, double gamma, bool bias, double C, double eps,
		std::vector<RealVector> const& xs, std::vector<unsigned int> const& ys, Result const& r, long double* objOut){
	std::ostringstream os;
	std::size_t n = xs.size();
	std::vector<std::vector<long double> > K(n, std::vector<long double>(n));
	for(std::size_t i = 0; i != n; ++i) for(std::size_t j = 0; j != n; ++j){
		long double s = 0, d2 = 0;
		for(std::size_t k = 0; k != xs[i].size(); ++k){ s += (long double)xs[i](k) * xs[j](k); long double d = (long double)xs[i](k) - xs[j](k); d2 += d*d; }
		// the solver sees the kernel through a float cache: the dual it solves has the rounded entries
		K[i][j] = (long double)(float)(kern == "lin" ? s : std::exp(-(long double)gamma * d2));
	}
	long double sum = 0, obj = 0, scale = 0;
	std::vector<long double> g(n);
	for(std::size_t i = 0; i != n; ++i){
		long double y = ys[i] ? 1 : -1;
		long double L = ys[i] ? 0 : -C, U = ys[i] ? C : 0;
		if(r.alpha[i] < L || r.alpha[i] > U) os << " !oracle box@" << i;
		sum += r.alpha[i];
		g[i] = y;
		for(std::size_t j = 0; j != n; ++j) g[i] -= K[i][j] * r.alpha[j];
	}
	for(std::size_t i = 0; i != n; ++i){
		long double y = ys[i] ? 1 : -1;
		obj += y * r.alpha[i]; scale += std::fabs((long double)r.alpha[i]);
		for(std::size_t j = 0; j != n; ++j){ obj -= 0.5L * r.alpha[i] * K[i][j] * r.alpha[j]; scale += std::fabs(r.alpha[i] * K[i][j] * r.alpha[j]); }
	}
	*objOut = obj;
	long double tol = 1e-9L * (1 + scale);
	if(r.acc){
		if(bias){
			if(std::fabs(sum) > 1e-9L * (1 + scale)) os << " !oracle equality-constraint";
			long double up = -1e100L, down = 1e100L;
			for(std::size_t i = 0; i != n; ++i){
				long double L = ys[i] ? 0 : -C, U = ys[i] ? C : 0;
				if(r.alpha[i] < U) up = std::max(up, g[i]);
				if(r.alpha[i] > L) down = std::min(down, g[i]);
			}
			if(up - down > eps + tol) os << " !oracle kkt(" << (double)(up - down) << ")";
			// bias interval: g_i - b <= eps for i not at the upper bound, b - g_i <= eps for i not at the lower bound
			for(std::size_t i = 0; i != n; ++i){
				long double L = ys[i] ? 0 : -C, U = ys[i] ? C : 0;
				if(r.alpha[i] < U && g[i] - r.b > eps + tol) os << " !oracle bias-interval@" << i;
				if(r.alpha[i] > L && r.b - g[i] > eps + tol) os << " !oracle bias-interval@" << i;
			}
		}else{
			long double viol = 0;
			for(std::size_t i = 0; i != n; ++i){
				long double L = ys[i] ? 0 : -C, U = ys[i] ? C : 0;
				if(r.alpha[i] < U) viol = std::max(viol, g[i]);
				if(r.alpha[i] > L) viol = std::max(viol, -g[i]);
			}
			if(viol > eps + tol) os << " !oracle kkt(" << (double)viol << ")";
		}
		if(std::fabs(obj - (long double)r.value) > 1e-9L * (1 + scale)) os << " !oracle objective-not-reproduced(" << r.value << " vs " << (double)obj << ")";
	}
	return os.str();
}

int main(){
	std::string line;
	while(std::getline(std::cin, line)){
		std::vector<std::string> t = vh::tokens(line);
		if(t.empty()){ std::cout << "\n"; continue; }
		std::string kern = "lin"; double gamma = 1, C, eps; bool bias, shrink, pre = false; std::size_t cache = 0, n, d, at; unsigned long long maxit = 0xffffffffULL;
		if(t[0] == "csvm" && t.size() >= 8){
			bias = t[1] == "1"; shrink = t[2] == "1"; C = untok(t[3]); eps = untok(t[4]); maxit = std::stoull(t[5]);
			n = std::stoul(t[6]); d = std::stoul(t[7]); at = 8;
		}else if(t[0] == "cfg" && t.size() >= 11){
			kern = t[1]; gamma = untok(t[2]); bias = t[3] == "1"; shrink = t[4] == "1"; pre = t[5] == "1"; cache = std::stoul(t[6]);
			C = untok(t[7]); eps = untok(t[8]); n = std::stoul(t[9]); d = std::stoul(t[10]); at = 11;
		}else{ std::cout << "bad-op\n"; continue; }
		if(t.size() != at + n*d + n){ std::cout << "bad-op\n"; continue; }
		std::vector<RealVector> xs(n, RealVector(d)); std::vector<unsigned int> ys(n);
		for(std::size_t i = 0; i != n; ++i) for(std::size_t k = 0; k != d; ++k) xs[i](k) = untok(t[at + i*d + k]);
		for(std::size_t i = 0; i != n; ++i) ys[i] = t[at + n*d + i] == "1" ? 1 : 0;
		Result r = trainOnce(kern, gamma, bias, shrink, pre, cache, C, eps, maxit, xs, ys);
		long double obj;
		std::string o = oracle(kern, gamma, bias, C, eps, xs, ys, r, &obj);
		std::ostringstream os;
		os << "acc=" << (r.acc ? 1 : 0) << " it=" << r.it << " alpha=[";
		for(std::size_t i = 0; i != n; ++i){ if(i) os << ","; os << tok(r.alpha[i]); }
		os << "] b=" << tok(r.b);
		if(t[0] == "cfg") os << " ;obj=" << tok((double)obj);
		std::cout << os.str() << o << "\n";
	}
	return 0;
}
