// Common helpers for the correspondence harnesses (line protocol, exact printing).
#ifndef VERIF_HARNESS_COMMON_HPP
#define VERIF_HARNESS_COMMON_HPP
#include <cstdint>
#include <cstdio>
#include <cmath>
#include <iostream>
#include <sstream>
#include <string>
#include <vector>

namespace vh {

inline std::vector<std::string> tokens(std::string const& line){
	std::vector<std::string> t; std::istringstream is(line); std::string w;
	while(is >> w) t.push_back(w);
	return t;
}
inline bool allNat(std::vector<std::string> const& t, std::size_t from, std::vector<std::size_t>& out){
	out.clear();
	for(std::size_t i = from; i < t.size(); ++i){
		if(t[i].empty()) return false;
		for(char c: t[i]) if(c < '0' || c > '9') return false;
		out.push_back(std::stoull(t[i]));
	}
	return true;
}
// exact rendering of a double as "m e" (value = m * 2^e, m odd or 0); nan/inf as words
inline std::string exactDouble(double x){
	if(std::isnan(x)) return "nan";
	if(std::isinf(x)) return x > 0 ? "inf" : "-inf";
	if(x == 0) return "0 0";
	int e; double m = std::frexp(x, &e);      // x = m * 2^e, 0.5 <= |m| < 1
	long long mi = (long long)std::ldexp(m, 53); e -= 53;
	while(mi % 2 == 0){ mi /= 2; ++e; }
	std::ostringstream os; os << mi << " " << e; return os.str();
}
// print an integral-valued double/float as an integer (exact-mode data)
template<class T> inline std::string intval(T x){
	std::ostringstream os;
	if(x == std::floor(x) && std::fabs((double)x) < 9e15) os << (long long)x;
	else os << "?" << exactDouble((double)x);
	return os.str();
}
struct SplitMix64{
	std::uint64_t s;
	explicit SplitMix64(std::uint64_t seed): s(seed){}
	std::uint64_t next(){
		std::uint64_t z = (s += 0x9e3779b97f4a7c15ULL);
		z = (z ^ (z >> 30)) * 0xbf58476d1ce4e5b9ULL;
		z = (z ^ (z >> 27)) * 0x94d049bb133111ebULL;
		return z ^ (z >> 31);
	}
	std::uint64_t below(std::uint64_t n){ return n ? next() % n : 0; }
};
}
#endif
