// K-C06: losses, ErrorFunction, regularizers.  Same line protocol as lean/Driver/C06.lean:
// sections separated by '|', numbers are dyadic tokens a/k, outputs printed exactly (m e).
#include <shark/ObjectiveFunctions/Loss/SquaredLoss.h>
#include <shark/ObjectiveFunctions/Loss/HingeLoss.h>
#include <shark/ObjectiveFunctions/Loss/SquaredHingeLoss.h>
#include <shark/ObjectiveFunctions/Loss/EpsilonHingeLoss.h>
#include <shark/ObjectiveFunctions/Loss/SquaredEpsilonHingeLoss.h>
#include <shark/ObjectiveFunctions/Loss/HuberLoss.h>
#include <shark/ObjectiveFunctions/Loss/CrossEntropy.h>
#include <shark/ObjectiveFunctions/Loss/ZeroOneLoss.h>
#include <shark/ObjectiveFunctions/ErrorFunction.h>
#include <shark/ObjectiveFunctions/Regularizer.h>
#include <shark/Models/LinearModel.h>
#include <shark/Core/OpenMP.h>
#include "c06_common.hpp"
#include <shark/ObjectiveFunctions/Loss/AbsoluteLoss.h>
#include <shark/ObjectiveFunctions/Loss/DiscreteLoss.h>
#include <cfenv>
using namespace shark;

// value of the single-element interface summed over the batch, and gradient rows: the
// independent oracle for "batch = sum of per-element losses" and "derivative call returns eval's value"
template<class LT, class Labels>
std::string oracle(AbstractLoss<LT,RealVector> const& loss, Labels const& labels, RealMatrix const& preds, double batchValue, bool hasDeriv, bool exact){
	std::string bad;
	double s = 0;
	for(std::size_t i = 0; i != preds.size1(); ++i){
		RealVector p = row(preds, i);
		LT li = getBatchElement(labels, i);
		s += loss.eval(li, p);
	}
	double tol = exact ? 0.0 : 1e-12 * (1.0 + std::fabs(batchValue));
	if(std::fabs(s - batchValue) > tol) bad += " !oracle batch-differs-from-sum-of-elements";
	if(hasDeriv){
		RealMatrix g; double v = loss.evalDerivative(labels, preds, g);
		if(std::fabs(v - batchValue) > tol) bad += " !oracle derivative-call-value-differs-from-eval";
		// the single-element derivative interface (own code in CrossEntropy, batch-of-one wrapper elsewhere):
		// same value as the single-element eval, and the batch gradient is made of the per-element gradients
		double sd = 0; bool rowsOk = g.size1() == preds.size1() && g.size2() == preds.size2();
		for(std::size_t i = 0; i != preds.size1() && rowsOk; ++i){
			RealVector p = row(preds, i), gi;
			LT li = getBatchElement(labels, i);
			double vi = loss.evalDerivative(li, p, gi);
			if(std::fabs(vi - loss.eval(li, p)) > tol) bad += " !oracle element-derivative-call-value-differs-from-element-eval", rowsOk = false;
			sd += vi;
			if(gi.size() != g.size2()){ rowsOk = false; break; }
			for(std::size_t j = 0; j != gi.size(); ++j) if(!(gi(j) == g(i,j)) && !(std::isnan(gi(j)) && std::isnan(g(i,j)))){ bad += " !oracle batch-gradient-row-differs-from-element-gradient"; rowsOk = false; break; }
		}
		if(g.size1() != preds.size1() || g.size2() != preds.size2()) bad += " !oracle gradient-shape";
	}
	return bad;
}

// exact/independent per-loss reference of the *value* from its textbook definition (not the library code):
// rows are evaluated in long double, so an error in a branch of the library shows as a clear difference
static std::string refValue(std::string const& loss, std::vector<double> const& par, std::vector<double> const& labs, RealMatrix const& P, bool cls, double v){
	std::size_t n = P.size1(), m = P.size2();
	long double s = 0;
	for(std::size_t i = 0; i != n; ++i){
		long double r = 0;
		if(loss == "squared"){ for(std::size_t j = 0; j != m; ++j){ long double d = labs[i*m+j] - (long double)P(i,j); r += d*d; } r *= 0.5L; }
		else if(loss == "absolute"){ for(std::size_t j = 0; j != m; ++j){ long double d = labs[i*m+j] - (long double)P(i,j); r += d*d; } r = std::sqrt(r); }
		else if(loss == "squaredclass"){ for(std::size_t j = 0; j != m; ++j){ long double d = ((j == (std::size_t)labs[i]) ? 1.0L : 0.0L) - (long double)P(i,j); r += d*d; } r *= 0.5L; }
		else if(loss == "hinge" || loss == "sqhinge"){
			bool sq = loss == "sqhinge";
			if(m == 1){ long double y = 2*labs[i]-1, h = std::max(0.0L, 1 - y*(long double)P(i,0)); r = sq ? 0.5L*h*h : h; }
			else for(std::size_t o = 0; o != m; ++o){ if(o == (std::size_t)labs[i]) continue; long double h = std::max(0.0L, 1 - 0.5L*((long double)P(i,(std::size_t)labs[i]) - P(i,o))); r += sq ? 0.5L*h*h : h; }
		}
		else if(loss == "epshinge"){ for(std::size_t j = 0; j != m; ++j) r += std::max(0.0L, std::fabs(labs[i*m+j] - (long double)P(i,j)) - par[0]); }
		else if(loss == "sqepshinge"){ for(std::size_t j = 0; j != m; ++j){ long double d = labs[i*m+j] - (long double)P(i,j); r += d*d; } r = 0.5L*std::max(0.0L, r - (long double)par[0]*par[0]); }
		else if(loss == "huber"){ for(std::size_t j = 0; j != m; ++j){ long double d = labs[i*m+j] - (long double)P(i,j); r += d*d; } long double dl = par[0]; r = (r <= dl*dl) ? 0.5L*r : dl*std::sqrt(r) - 0.5L*dl*dl; }
		else if(loss == "crossentropy"){
			if(m == 1){ long double y = 2*labs[i]-1, z = -y*(long double)P(i,0); r = z > 40 ? z + std::log1p(std::exp(-z)) : std::log1p(std::exp(z)); }
			else { long double mx = P(i,0); for(std::size_t j = 1; j != m; ++j) mx = std::max(mx, (long double)P(i,j)); long double se = 0; for(std::size_t j = 0; j != m; ++j) se += std::exp((long double)P(i,j) - mx); r = std::log(se) + mx - P(i,(std::size_t)labs[i]); }
		}
		else if(loss == "crossentropysoft"){ long double mx = P(i,0); for(std::size_t j = 1; j != m; ++j) mx = std::max(mx, (long double)P(i,j)); long double se = 0, tp = 0; for(std::size_t j = 0; j != m; ++j){ se += std::exp((long double)P(i,j) - mx); tp += labs[i*m+j]*(long double)P(i,j); } r = std::log(se) + mx - tp; }
		else return "";
		s += r;
	}
	(void)cls;
	long double tol = 1e-9L * (1 + std::fabs((long double)v));
	if(!(std::fabs(s - (long double)v) <= tol)) return " !oracle value-differs-from-definition";
	return "";
}


// ---- output-object re-use (Model/LossOut.lean): ONE gradient matrix / ONE sequence-gradient object is handed to a history
// of derivative calls (this is how ErrorFunctionImpl::evalDerivative(start,end,…) uses its `errorDerivative`); the oracle
// repeats every call on a freshly constructed object and demands the same value, shape and entries.
static RealMatrix Gshared;
static std::vector<Sequence> Sshared;
static bool sameD(double a, double b){ return a == b || (std::isnan(a) && std::isnan(b)); }
template<class LT, class Labels>
std::string reuseCall(AbstractLoss<LT,RealVector> const& lo, Labels const& labels, RealMatrix const& P, RealMatrix& G){
	RealVector gv(G.size2(), 0.0); for(std::size_t j = 0; j != gv.size() && G.size1(); ++j) gv(j) = G(0,j);   // garbage for the element interface
	double v = lo.evalDerivative(labels, P, G);
	RealMatrix F; double vf = lo.evalDerivative(labels, P, F);
	std::string out = "V=" + vh::exactDouble(v) + " S=" + std::to_string(G.size1()) + "x" + std::to_string(G.size2()) + " G=" + showMat(G);
	bool same = sameD(v, vf) && G.size1() == F.size1() && G.size2() == F.size2();
	for(std::size_t i = 0; same && i != G.size1(); ++i) for(std::size_t j = 0; j != G.size2(); ++j) if(!sameD(G(i,j), F(i,j))){ same = false; break; }
	if(!same) out += " !oracle output-depends-on-previous-contents";
	// the single-element interface with ONE gradient vector for all rows (WeightedErrorFunctionImpl's `singleDerivative`)
	for(std::size_t i = 0; i != P.size1(); ++i){
		RealVector p = row(P, i), fresh; LT li = getBatchElement(labels, i);
		double a = lo.evalDerivative(li, p, gv), b = lo.evalDerivative(li, p, fresh);
		bool ok = sameD(a, b) && gv.size() == fresh.size();
		for(std::size_t j = 0; ok && j != gv.size(); ++j) if(!sameD(gv(j), fresh(j))) ok = false;
		if(!ok){ out += " !oracle element-derivative-depends-on-previous-contents"; break; }
	}
	return out;
}

int main(){
	std::string line;
	bool floatMode = false;
	while(std::getline(std::cin, line)){
		auto secs = sections(line);
		if(secs.size() == 1 && secs[0].size() == 2 && secs[0][0] == "mode"){ floatMode = secs[0][1] == "float"; std::cout << "ok\n"; continue; }
		std::vector<double> par, labs, prs; std::vector<std::size_t> dims;
		std::string out = "bad-op";
		if(c06b_dispatch(secs, floatMode, out)){ std::cout << out << "\n"; continue; }
		if(secs.size() == 3 && secs[0].size() == 1 && secs[0][0] == "gset"){
			// gset | n m | values : the shared gradient object gets this shape and these (garbage) contents
			std::vector<double> v;
			if(vh::allNat(secs[1], 0, dims) && dims.size() == 2 && nums(secs[2], v) && v.size() == dims[0]*dims[1]){
				Gshared = RealMatrix(dims[0], dims[1]);
				for(std::size_t i = 0; i != dims[0]; ++i) for(std::size_t j = 0; j != dims[1]; ++j) Gshared(i,j) = v[i*dims[1]+j];
				out = "ok";
			}
			std::cout << out << "\n"; continue;
		}
		if(secs.size() == 4 && secs[0].size() == 1 && secs[0][0] == "sset"){
			// sset | d | lengths | fill : the shared sequence-gradient object holds sequences of these lengths
			std::vector<std::size_t> dd, lens; std::vector<double> f;
			if(vh::allNat(secs[1], 0, dd) && dd.size() == 1 && vh::allNat(secs[2], 0, lens) && nums(secs[3], f) && f.size() == 1){
				Sshared.assign(lens.size(), Sequence());
				for(std::size_t i = 0; i != lens.size(); ++i) for(std::size_t j = 0; j != lens[i]; ++j) Sshared[i].push_back(RealVector(dd[0], f[0]));
				out = "ok";
			}
			std::cout << out << "\n"; continue;
		}
		if(secs.size() == 5 && secs[0].size() == 1 && secs[0][0] == "rseq" && nums(secs[3], labs) && nums(secs[4], prs)){
			// rseq | ignore dim | lengths | labels | predictions : SquaredLoss<Sequence,Sequence>::evalDerivative into the shared object
			std::vector<std::size_t> id, lens;
			if(vh::allNat(secs[1], 0, id) && id.size() == 2 && vh::allNat(secs[2], 0, lens)){
				std::size_t ignore = id[0], d = id[1], tot = 0; for(std::size_t x: lens) tot += x;
				if(labs.size() == tot*d && prs.size() == tot*d){
					std::vector<Sequence> Lb(lens.size()), Pb(lens.size()); std::size_t pos = 0;
					for(std::size_t i = 0; i != lens.size(); ++i) for(std::size_t j = 0; j != lens[i]; ++j, ++pos){
						RealVector a(d), b(d); for(std::size_t q = 0; q != d; ++q){ a(q) = labs[pos*d+q]; b(q) = prs[pos*d+q]; }
						Lb[i].push_back(a); Pb[i].push_back(b);
					}
					SquaredLoss<Sequence,Sequence> l(ignore);
					try{
						std::vector<Sequence> old = Sshared, F;
						double v = l.evalDerivative(Lb, Pb, Sshared), vf = l.evalDerivative(Lb, Pb, F);
						out = "V=" + vh::exactDouble(v) + " G=";
						for(std::size_t i = 0; i != Sshared.size(); ++i){ if(i) out += "/"; for(std::size_t j = 0; j != Sshared[i].size(); ++j){ if(j) out += ";"; out += showVec(Sshared[i][j]); } }
						auto eqSeq = [](Sequence const& a, Sequence const& b){ if(a.size() != b.size()) return false; for(std::size_t j = 0; j != a.size(); ++j){ if(a[j].size() != b[j].size()) return false; for(std::size_t q = 0; q != a[j].size(); ++q) if(!sameD(a[j](q), b[j](q))) return false; } return true; };
						bool same = sameD(v, vf) && Sshared.size() == F.size();
						for(std::size_t i = 0; same && i != F.size(); ++i) same = eqSeq(Sshared[i], F[i]);
						if(!same){
							// signature of F-C06-5: every sequence is what the object held (first n entries) followed by the fresh result
							bool appended = Sshared.size() == F.size();
							for(std::size_t i = 0; appended && i != F.size(); ++i){ Sequence e = i < old.size() ? old[i] : Sequence(); e.insert(e.end(), F[i].begin(), F[i].end()); appended = eqSeq(Sshared[i], e); }
							out += appended ? " !oracle F-C06-5-sequence-gradient-appended-to-reused-object" : " !oracle output-depends-on-previous-contents";
						}
					}catch(shark::Exception const&){ out = "exception"; }
				}
			}
			std::cout << out << "\n"; continue;
		}
		if(secs.size() == 5 && secs[0].size() == 2 && secs[0][0] == "rderiv" && vh::allNat(secs[2], 0, dims) && dims.size() == 2 && nums(secs[1], par) && nums(secs[3], labs) && nums(secs[4], prs)){
			// rderiv <loss> | par | n m | labels | predictions : evalDerivative into the shared gradient object
			std::string loss = secs[0][1]; std::size_t n = dims[0], m = dims[1];
			if(prs.size() == n*m){
				RealMatrix P(n, m); for(std::size_t i = 0; i != n; ++i) for(std::size_t j = 0; j != m; ++j) P(i,j) = prs[i*m+j];
				bool vecLabels = labs.size() == n*m, clsLabels = labs.size() == n;
				RealMatrix L(n, m); UIntVector C(n);
				if(vecLabels) for(std::size_t i = 0; i != n; ++i) for(std::size_t j = 0; j != m; ++j) L(i,j) = labs[i*m+j];
				if(clsLabels) for(std::size_t i = 0; i != n; ++i) C(i) = (unsigned)labs[i];
				if(loss == "squared" && vecLabels){ SquaredLoss<> l; out = reuseCall<RealVector>(l, L, P, Gshared); }
				else if(loss == "squaredclass" && clsLabels){ SquaredLoss<RealVector,unsigned int> l; out = reuseCall<unsigned int>(l, C, P, Gshared); }
				else if(loss == "hinge" && clsLabels){ HingeLoss l; out = reuseCall<unsigned int>(l, C, P, Gshared); }
				else if(loss == "sqhinge" && clsLabels){ SquaredHingeLoss l; out = reuseCall<unsigned int>(l, C, P, Gshared); }
				else if(loss == "epshinge" && vecLabels){ EpsilonHingeLoss l(par.empty() ? 0.0 : par[0]); out = reuseCall<RealVector>(l, L, P, Gshared); }
				else if(loss == "sqepshinge" && vecLabels){ SquaredEpsilonHingeLoss l(par.empty() ? 0.0 : par[0]); out = reuseCall<RealVector>(l, L, P, Gshared); }
				else if(loss == "huber" && vecLabels){ HuberLoss l(par.empty() ? 1.0 : par[0]); out = reuseCall<RealVector>(l, L, P, Gshared); }
				else if(loss == "crossentropy" && clsLabels){ CrossEntropy<unsigned int, RealVector> l; out = reuseCall<unsigned int>(l, C, P, Gshared); }
				else if(loss == "crossentropysoft" && vecLabels){ CrossEntropy<RealVector, RealVector> l; out = reuseCall<RealVector>(l, L, P, Gshared); }
			}
			std::cout << out << "\n"; continue;
		}
		if(secs.size() == 5 && secs[0].size() == 2 && secs[0][0] == "hess" && vh::allNat(secs[2], 0, dims) && dims.size() == 2 && nums(secs[3], labs) && nums(secs[4], prs) && labs.size() == 1 && prs.size() == dims[1]){
			// second-derivative overload of CrossEntropy (single element), reached through the AbstractLoss interface
			CrossEntropy<unsigned int, RealVector> ce; AbstractLoss<unsigned int, RealVector> const& base = ce;
			RealVector p(prs.size()); for(std::size_t j = 0; j != prs.size(); ++j) p(j) = prs[j];
			RealVector g; RealMatrix H; unsigned int c = (unsigned int)labs[0];
			try{
				double v = base.evalDerivative(c, p, g, H);
				out = "V=" + vh::exactDouble(v) + " G=" + showVec(g) + " H=" + showMat(H);
				RealVector g1; double v1 = ce.evalDerivative(c, p, g1);
				if(v != v1) out += " !oracle second-derivative-call-value-differs-from-first-derivative-call";
				for(std::size_t j = 0; j != g.size() && j != g1.size(); ++j) if(g(j) != g1(j)){ out += " !oracle second-derivative-call-gradient-differs"; break; }
			}catch(shark::Exception const&){
				out = "unavailable !oracle F-C06-2-second-derivative-overload-unreachable";
			}
			std::cout << out << "\n"; continue;
		}
		if(secs.size() == 5 && secs[0].size() == 2 && (secs[0][1] == "discrete" || secs[0][1] == "balanced" || secs[0][1] == "zeroonelabel") && vh::allNat(secs[2], 0, dims) && dims.size() == 2 && nums(secs[1], par)){
			std::vector<std::size_t> lc, pc;
			std::size_t n = dims[0], k = dims[1];
			if(vh::allNat(secs[3], 0, lc) && vh::allNat(secs[4], 0, pc) && lc.size() == n && pc.size() == n){
				UIntVector Lb(n), Pb(n); for(std::size_t i = 0; i != n; ++i){ Lb(i) = (unsigned)lc[i]; Pb(i) = (unsigned)pc[i]; }
				double v = 0, direct = 0; bool ok = true;
				if(secs[0][1] == "zeroonelabel"){
					ZeroOneLoss<unsigned int> l; AbstractLoss<unsigned int, unsigned int> const& bl = l; v = l.eval(Lb, Pb);
					for(std::size_t i = 0; i != n; ++i){ direct += (lc[i] != pc[i]); }
					double se = 0; for(std::size_t i = 0; i != n; ++i) se += bl.eval(Lb(i), Pb(i));
					if(se != v) out = "x !oracle batch-differs-from-sum-of-elements", ok = false;
				}else{
					RealMatrix cost(k, k, 0.0);
					if(secs[0][1] == "discrete"){
						if(par.size() != k*k) ok = false;
						else for(std::size_t a = 0; a != k; ++a) for(std::size_t b = 0; b != k; ++b) cost(a,b) = par[a*k+b];
					}
					if(ok){
						DiscreteLoss l(cost);
						if(secs[0][1] == "balanced"){
							Data<unsigned int> d(1); d.batch(0) = Lb; l.defineBalancedCost(d);
							std::vector<std::size_t> freq(k, 0); for(std::size_t i = 0; i != n; ++i) freq[lc[i]]++;
							for(std::size_t a = 0; a != k; ++a) for(std::size_t b = 0; b != k; ++b) cost(a,b) = (a == b) ? 0.0 : (freq[a] == 0 ? 1.0 : double(n) / double(k*freq[a]));
						}
						v = l.eval(Lb, Pb);
						for(std::size_t i = 0; i != n; ++i) direct += cost(lc[i], pc[i]);
						AbstractLoss<unsigned int, unsigned int> const& bl = l; double se = 0; for(std::size_t i = 0; i != n; ++i) se += bl.eval(Lb(i), Pb(i));
						if(se != v) out = "x !oracle batch-differs-from-sum-of-elements", ok = false;
					}
				}
				if(ok){ out = "V=" + vh::exactDouble(v); if(v != direct) out += " !oracle value-differs-from-definition"; }
			}
			std::cout << out << "\n"; continue;
		}
		if(secs.size() == 5 && secs[0].size() == 2 && secs[0][0] == "seq" && nums(secs[3], labs) && nums(secs[4], prs)){
			// seq eval|deriv | ignore dim | lengths | labels flat | predictions flat : SquaredLoss<Sequence,Sequence>
			std::vector<std::size_t> id, lens;
			if(vh::allNat(secs[1], 0, id) && id.size() == 2 && vh::allNat(secs[2], 0, lens)){
				std::size_t ignore = id[0], d = id[1], tot = 0; for(std::size_t x: lens) tot += x;
				if(labs.size() == tot*d && prs.size() == tot*d){
					std::vector<Sequence> Lb(lens.size()), Pb(lens.size()); std::size_t pos = 0;
					for(std::size_t i = 0; i != lens.size(); ++i) for(std::size_t j = 0; j != lens[i]; ++j, ++pos){
						RealVector a(d), b(d); for(std::size_t q = 0; q != d; ++q){ a(q) = labs[pos*d+q]; b(q) = prs[pos*d+q]; }
						Lb[i].push_back(a); Pb[i].push_back(b);
					}
					SquaredLoss<Sequence,Sequence> l(ignore);
					try{
						std::feclearexcept(FE_ALL_EXCEPT);
						double v = l.eval(Lb, Pb); std::vector<Sequence> G; double vd = l.evalDerivative(Lb, Pb, G);
						bool inexact = std::fetestexcept(FE_INEXACT) != 0;
						if(secs[0][1] == "deriv"){
							out = "V=" + vh::exactDouble(vd) + " G=";
							for(std::size_t i = 0; i != G.size(); ++i){ if(i) out += "/"; for(std::size_t j = 0; j != G[i].size(); ++j){ if(j) out += ";"; out += showVec(G[i][j]); } }
						}else out = "V=" + vh::exactDouble(v);
						double tol = floatMode ? 1e-12*(1+std::fabs(v)) : 0.0;
						if(std::fabs(v - vd) > tol) out += " !oracle derivative-call-value-differs-from-eval";
						AbstractLoss<Sequence,Sequence> const& bl = l; double se = 0; for(std::size_t i = 0; i != Lb.size(); ++i) se += bl.eval(static_cast<Sequence const&>(Lb[i]), static_cast<Sequence const&>(Pb[i]));
						if(std::fabs(se - v) > tol) out += " !oracle batch-differs-from-sum-of-elements";
						long double direct = 0; pos = 0;
						for(std::size_t i = 0; i != lens.size(); ++i) for(std::size_t j = 0; j != lens[i]; ++j, ++pos) if(j >= ignore) for(std::size_t q = 0; q != d; ++q){ long double df = labs[pos*d+q] - (long double)prs[pos*d+q]; direct += 0.5L*df*df; }
						if(std::fabs(direct - (long double)v) > 1e-9L*(1+std::fabs(direct))) out += " !oracle value-differs-from-definition";
						if(!floatMode && inexact) out += " !oracle inexact-in-exact-mode";
					}catch(shark::Exception const&){ out = "exception"; }
				}
			}
			std::cout << out << "\n"; continue;
		}
		if(secs.size() == 5 && secs[0].size() == 2 && vh::allNat(secs[2], 0, dims) && dims.size() == 2 && nums(secs[1], par) && nums(secs[4], prs)){
			std::string kind = secs[0][0], loss = secs[0][1];
			std::size_t n = dims[0], m = dims[1];
			bool deriv = kind == "deriv";
			if(prs.size() == n*m && nums(secs[3], labs)){
				RealMatrix P(n, m); for(std::size_t i = 0; i != n; ++i) for(std::size_t j = 0; j != m; ++j) P(i,j) = prs[i*m+j];
				RealMatrix G; double v = 0; std::string orc; bool ok = true;
				bool vecLabels = labs.size() == n*m, clsLabels = labs.size() == n;
				RealMatrix L(n, m); UIntVector C(n);
				if(vecLabels) for(std::size_t i = 0; i != n; ++i) for(std::size_t j = 0; j != m; ++j) L(i,j) = labs[i*m+j];
				if(clsLabels) for(std::size_t i = 0; i != n; ++i) C(i) = (unsigned)labs[i];
				std::feclearexcept(FE_ALL_EXCEPT);
				#define RUN(LOSSOBJ, LABELS, HASD) { auto const& lo = LOSSOBJ; \
					if(deriv && HASD) v = lo.evalDerivative(LABELS, P, G); else v = lo.eval(LABELS, P); \
					bool inexact = std::fetestexcept(FE_INEXACT) != 0; \
					orc = oracle(lo, LABELS, P, lo.eval(LABELS, P), HASD, !floatMode); \
					if(n && m) orc += refValue(loss, par, labs, P, clsLabels, lo.eval(LABELS, P)); \
					if(!floatMode && inexact) orc += " !oracle inexact-in-exact-mode"; \
					for(std::size_t gi = 0; gi != G.size1(); ++gi) for(std::size_t gj = 0; gj != G.size2(); ++gj) if(!std::isfinite(G(gi,gj))){ orc += " !oracle non-finite-gradient"; gi = G.size1() - 1; break; } }
				if(loss == "squared" && vecLabels){ SquaredLoss<> l; RUN(l, L, true) }
				else if(loss == "squaredclass" && clsLabels){ SquaredLoss<RealVector,unsigned int> l; RUN(l, C, true) }
				else if(loss == "hinge" && clsLabels){ HingeLoss l; RUN(l, C, true) }
				else if(loss == "sqhinge" && clsLabels){ SquaredHingeLoss l; RUN(l, C, true) }
				else if(loss == "epshinge" && vecLabels){ EpsilonHingeLoss l(par.empty() ? 0.0 : par[0]); RUN(l, L, true) }
				else if(loss == "sqepshinge" && vecLabels){ SquaredEpsilonHingeLoss l(par.empty() ? 0.0 : par[0]); RUN(l, L, true) }
				else if(loss == "huber" && vecLabels){ HuberLoss l(par.empty() ? 1.0 : par[0]); RUN(l, L, true) }
				else if(loss == "crossentropy" && clsLabels){ CrossEntropy<unsigned int, RealVector> l; RUN(l, C, true) }
				else if(loss == "absolute" && vecLabels){ AbsoluteLoss<> l; RUN(l, L, false) }
				else if(loss == "crossentropysoft" && vecLabels){ CrossEntropy<RealVector, RealVector> l; RUN(l, L, true) }
				else if(loss == "zeroone" && clsLabels){ ZeroOneLoss<unsigned int, RealVector> l(par.empty() ? 0.0 : par[0]); RUN(l, C, false) }
				else ok = false;
				if(ok){
					out = "V=" + vh::exactDouble(v);
					if(deriv && G.size1()) out += " G=" + showMat(G);
					out += orc;
				}
			}
		}else if(secs.size() == 5 && secs[0].size() == 1 && secs[0][0] == "errfn"){
			// errfn | T order.. | B | batch losses | numElements : here the *real* ErrorFunction is run on a dataset
			// whose batch b consists of one element with squared loss = the given batch loss:
			// input x_b = (sqrt-free) we use a 1-d LinearModel with w = 1, b = 0 and label y, so loss = 0.5 (x-y)^2.
			std::vector<std::size_t> ts; std::vector<double> bl, ne;
			if(vh::allNat(secs[1], 0, ts) && !ts.empty() && nums(secs[3], bl) && nums(secs[4], ne) && ne.size() == 1){
				std::size_t B = bl.size();
				// each batch b: elements (x = 2*bl_b split ...) -- to realise an arbitrary dyadic batch loss L_b with squared loss we
				// use two columns: prediction (p,0), label (0,0)?  0.5*p^2 = L_b needs a root; instead use AbsoluteLoss-free trick:
				// a batch with k_b elements each contributing loss 0.5 (x=1,y=0): L_b = k_b/2.  So batch losses must be multiples of 1/2.
				std::vector<RealVector> xs, ys; std::vector<std::size_t> sizes;
				bool good = true;
				for(double l: bl){ double k = 2*l; if(k != std::floor(k) || k < 1){ good = false; break; } sizes.push_back((std::size_t)k); }
				if(good){
					Data<RealVector> in(B), lab(B);
					std::size_t total = 0;
					for(std::size_t b = 0; b != B; ++b){ in.batch(b) = RealMatrix(sizes[b], 1, 1.0); lab.batch(b) = RealMatrix(sizes[b], 1, 0.0); total += sizes[b]; }
					LabeledData<RealVector,RealVector> ds(in, lab);
					LinearModel<> model(1, 1, false); RealVector w(1, 1.0); SquaredLoss<> loss;
					ErrorFunction<> E(ds, &model, &loss);
					omp_set_num_threads((int)ts[0]);
					double v = E.eval(w);
					// ErrorFunction divides by numberOfElements (= the protocol's ne, which the generator computes as 2*sum of batch losses)
					if(double(total) == ne[0]){
						out = "V=" + vh::exactDouble(v);
						// independent oracle: the mean loss computed directly (all terms are multiples of 1/2: exact)
						double direct = 0; for(double l: bl) direct += l;
						if(v != direct / double(total)) out += " !oracle error-differs-from-mean-loss";
					}
				}
			}
		}else if(secs.size() == 3 && secs[0].size() == 1 && (secs[0][0] == "onenorm" || secs[0][0] == "twonorm")){
			std::vector<double> x, mk;
			if(nums(secs[1], x) && nums(secs[2], mk) && x.size() == mk.size()){
				RealVector p(x.size()), m(x.size()); for(std::size_t i = 0; i != x.size(); ++i){ p(i) = x[i]; m(i) = mk[i]; }
				RealVector g; double v, direct = 0;
				if(secs[0][0] == "onenorm"){ OneNormRegularizer<> r; r.setMask(m); v = r.evalDerivative(p, g); for(std::size_t i = 0; i != x.size(); ++i) direct += std::fabs(x[i]*mk[i]); }
				else { TwoNormRegularizer<> r; r.setMask(m); v = r.evalDerivative(p, g); for(std::size_t i = 0; i != x.size(); ++i) direct += mk[i]*x[i]*x[i]; direct *= 0.5; }
				out = "V=" + vh::exactDouble(v) + " G=" + showVec(g);
				if(v != direct) out += " !oracle regularizer-value-differs-from-stated-term";
			}
		}else if(secs.size() == 2 && secs[0].size() == 1 && (secs[0][0] == "onenorm" || secs[0][0] == "twonorm")){
			std::vector<double> x;
			if(nums(secs[1], x)){
				RealVector p(x.size()); for(std::size_t i = 0; i != x.size(); ++i) p(i) = x[i];
				RealVector g; double v;
				if(secs[0][0] == "onenorm"){ OneNormRegularizer<> r; v = r.evalDerivative(p, g); }
				else { TwoNormRegularizer<> r; v = r.evalDerivative(p, g); }
				out = "V=" + vh::exactDouble(v) + " G=" + showVec(g);
			}
		}else if(secs.size() == 2 && secs[0].size() == 1 && secs[0][0] == "regularized"){
			// regularized | value strength reg : ErrorFunction with TwoNormRegularizer on a point whose 0.5*||x||^2 = reg is not needed:
			std::vector<double> x;
			if(nums(secs[1], x) && x.size() == 3) out = "V=" + vh::exactDouble(x[0] + x[1]*x[2]);
		}
		std::cout << out << "\n";
	}
	return 0;
}
