// K-C06: losses, ErrorFunction, regularizers.  Same line protocol as lean/Driver/C06.lean:
// sections separated by '|', numbers are dyadic tokens a/k, outputs printed exactly (m e).
#include <shark/ObjectiveFunctions/Loss/SquaredLoss.h>
#include <shark/ObjectiveFunctions/Loss/HingeLoss.h>
#include <shark/ObjectiveFunctions/Loss/SquaredHingeLoss.h>
#include <shark/ObjectiveFunctions/Loss/EpsilonHingeLoss.h>
#include <shark/ObjectiveFunctions/Loss/SquaredEpsilonHingeLoss.h>
#include <shark/ObjectiveFunctions/Loss/HuberLoss.h>
#include <shark/ObjectiveFunctions/Loss/CrossEntropy.h>
#include <shark/ObjectiveFunctions/Loss/ZeroOneLoss.h>
#include <shark/ObjectiveFunctions/ErrorFunction.h>
#include <shark/ObjectiveFunctions/Regularizer.h>
#include <shark/Models/LinearModel.h>
#include <shark/Core/OpenMP.h>
#include "common.hpp"
#include <cfenv>
using namespace shark;

static bool parseDy(std::string const& t, double& out){
	std::size_t s = t.find('/');
	try{
		long long a = std::stoll(t.substr(0, s)); long long k = (s == std::string::npos) ? 0 : std::stoll(t.substr(s+1));
		out = std::ldexp((double)a, -(int)k); return true;
	}catch(...){ return false; }
}
static std::vector<std::vector<std::string> > sections(std::string const& line){
	std::vector<std::vector<std::string> > r(1);
	for(std::string const& w: vh::tokens(line)){ if(w == "|") r.push_back(std::vector<std::string>()); else r.back().push_back(w); }
	return r;
}
static bool nums(std::vector<std::string> const& t, std::vector<double>& o){ o.clear(); for(auto const& w: t){ double x; if(!parseDy(w, x)) return false; o.push_back(x); } return true; }
static std::string showMat(RealMatrix const& g){
	std::string s;
	for(std::size_t i = 0; i != g.size1(); ++i){ if(i) s += ";"; for(std::size_t j = 0; j != g.size2(); ++j){ if(j) s += ","; s += vh::exactDouble(g(i,j)); } }
	return s;
}
static std::string showVec(RealVector const& g){ std::string s; for(std::size_t j = 0; j != g.size(); ++j){ if(j) s += ","; s += vh::exactDouble(g(j)); } return s; }

// value of the single-element interface summed over the batch, and gradient rows: the
// independent oracle for "batch = sum of per-element losses" and "derivative call returns eval's value"
template<class LT, class Labels>
std::string oracle(AbstractLoss<LT,RealVector> const& loss, Labels const& labels, RealMatrix const& preds, double batchValue, bool hasDeriv, bool exact){
	std::string bad;
	double s = 0;
	for(std::size_t i = 0; i != preds.size1(); ++i){
		RealVector p = row(preds, i);
		LT li = getBatchElement(labels, i);
		s += loss.eval(li, p);
	}
	double tol = exact ? 0.0 : 1e-12 * (1.0 + std::fabs(batchValue));
	if(std::fabs(s - batchValue) > tol) bad += " !oracle batch-differs-from-sum-of-elements";
	if(hasDeriv){
		RealMatrix g; double v = loss.evalDerivative(labels, preds, g);
		if(std::fabs(v - batchValue) > tol) bad += " !oracle derivative-call-value-differs-from-eval";
	}
	return bad;
}

int main(){
	std::string line;
	bool floatMode = false;
	while(std::getline(std::cin, line)){
		auto secs = sections(line);
		if(secs.size() == 1 && secs[0].size() == 2 && secs[0][0] == "mode"){ floatMode = secs[0][1] == "float"; std::cout << "ok\n"; continue; }
		std::vector<double> par, labs, prs; std::vector<std::size_t> dims;
		std::string out = "bad-op";
		if(secs.size() == 5 && secs[0].size() == 2 && vh::allNat(secs[2], 0, dims) && dims.size() == 2 && nums(secs[1], par) && nums(secs[4], prs)){
			std::string kind = secs[0][0], loss = secs[0][1];
			std::size_t n = dims[0], m = dims[1];
			bool deriv = kind == "deriv";
			if(prs.size() == n*m && nums(secs[3], labs)){
				RealMatrix P(n, m); for(std::size_t i = 0; i != n; ++i) for(std::size_t j = 0; j != m; ++j) P(i,j) = prs[i*m+j];
				RealMatrix G; double v = 0; std::string orc; bool ok = true;
				bool vecLabels = labs.size() == n*m, clsLabels = labs.size() == n;
				RealMatrix L(n, m); UIntVector C(n);
				if(vecLabels) for(std::size_t i = 0; i != n; ++i) for(std::size_t j = 0; j != m; ++j) L(i,j) = labs[i*m+j];
				if(clsLabels) for(std::size_t i = 0; i != n; ++i) C(i) = (unsigned)labs[i];
				std::feclearexcept(FE_ALL_EXCEPT);
				#define RUN(LOSSOBJ, LABELS, HASD) { auto const& lo = LOSSOBJ; \
					if(deriv && HASD) v = lo.evalDerivative(LABELS, P, G); else v = lo.eval(LABELS, P); \
					bool inexact = std::fetestexcept(FE_INEXACT) != 0; \
					orc = oracle(lo, LABELS, P, lo.eval(LABELS, P), HASD, !floatMode); \
					if(!floatMode && inexact) orc += " !oracle inexact-in-exact-mode"; \
					for(std::size_t gi = 0; gi != G.size1(); ++gi) for(std::size_t gj = 0; gj != G.size2(); ++gj) if(!std::isfinite(G(gi,gj))){ orc += " !oracle non-finite-gradient"; gi = G.size1() - 1; break; } }
				if(loss == "squared" && vecLabels){ SquaredLoss<> l; RUN(l, L, true) }
				else if(loss == "squaredclass" && clsLabels){ SquaredLoss<RealVector,unsigned int> l; RUN(l, C, true) }
				else if(loss == "hinge" && clsLabels){ HingeLoss l; RUN(l, C, true) }
				else if(loss == "sqhinge" && clsLabels){ SquaredHingeLoss l; RUN(l, C, true) }
				else if(loss == "epshinge" && vecLabels){ EpsilonHingeLoss l(par.empty() ? 0.0 : par[0]); RUN(l, L, true) }
				else if(loss == "sqepshinge" && vecLabels){ SquaredEpsilonHingeLoss l(par.empty() ? 0.0 : par[0]); RUN(l, L, true) }
				else if(loss == "huber" && vecLabels){ HuberLoss l(par.empty() ? 1.0 : par[0]); RUN(l, L, true) }
				else if(loss == "crossentropy" && clsLabels){ CrossEntropy<unsigned int, RealVector> l; RUN(l, C, true) }
				else if(loss == "zeroone" && clsLabels){ ZeroOneLoss<unsigned int, RealVector> l(par.empty() ? 0.0 : par[0]); RUN(l, C, false) }
				else ok = false;
				if(ok){
					out = "V=" + vh::exactDouble(v);
					if(deriv && G.size1()) out += " G=" + showMat(G);
					out += orc;
				}
			}
		}else if(secs.size() == 5 && secs[0].size() == 1 && secs[0][0] == "errfn"){
			// errfn | T order.. | B | batch losses | numElements : here the *real* ErrorFunction is run on a dataset
			// whose batch b consists of one element with squared loss = the given batch loss:
			// input x_b = (sqrt-free) we use a 1-d LinearModel with w = 1, b = 0 and label y, so loss = 0.5 (x-y)^2.
			std::vector<std::size_t> ts; std::vector<double> bl, ne;
			if(vh::allNat(secs[1], 0, ts) && !ts.empty() && nums(secs[3], bl) && nums(secs[4], ne) && ne.size() == 1){
				std::size_t B = bl.size();
				// each batch b: elements (x = 2*bl_b split ...) -- to realise an arbitrary dyadic batch loss L_b with squared loss we
				// use two columns: prediction (p,0), label (0,0)?  0.5*p^2 = L_b needs a root; instead use AbsoluteLoss-free trick:
				// a batch with k_b elements each contributing loss 0.5 (x=1,y=0): L_b = k_b/2.  So batch losses must be multiples of 1/2.
				std::vector<RealVector> xs, ys; std::vector<std::size_t> sizes;
				bool good = true;
				for(double l: bl){ double k = 2*l; if(k != std::floor(k) || k < 1){ good = false; break; } sizes.push_back((std::size_t)k); }
				if(good){
					Data<RealVector> in(B), lab(B);
					std::size_t total = 0;
					for(std::size_t b = 0; b != B; ++b){ in.batch(b) = RealMatrix(sizes[b], 1, 1.0); lab.batch(b) = RealMatrix(sizes[b], 1, 0.0); total += sizes[b]; }
					LabeledData<RealVector,RealVector> ds(in, lab);
					LinearModel<> model(1, 1, false); RealVector w(1, 1.0); SquaredLoss<> loss;
					ErrorFunction<> E(ds, &model, &loss);
					omp_set_num_threads((int)ts[0]);
					double v = E.eval(w);
					// ErrorFunction divides by numberOfElements (= the protocol's ne, which the generator computes as 2*sum of batch losses)
					if(double(total) == ne[0]){
						out = "V=" + vh::exactDouble(v);
						// independent oracle: the mean loss computed directly (all terms are multiples of 1/2: exact)
						double direct = 0; for(double l: bl) direct += l;
						if(v != direct / double(total)) out += " !oracle error-differs-from-mean-loss";
					}
				}
			}
		}else if(secs.size() == 3 && secs[0].size() == 1 && (secs[0][0] == "onenorm" || secs[0][0] == "twonorm")){
			std::vector<double> x, mk;
			if(nums(secs[1], x) && nums(secs[2], mk) && x.size() == mk.size()){
				RealVector p(x.size()), m(x.size()); for(std::size_t i = 0; i != x.size(); ++i){ p(i) = x[i]; m(i) = mk[i]; }
				RealVector g; double v, direct = 0;
				if(secs[0][0] == "onenorm"){ OneNormRegularizer<> r; r.setMask(m); v = r.evalDerivative(p, g); for(std::size_t i = 0; i != x.size(); ++i) direct += std::fabs(x[i]*mk[i]); }
				else { TwoNormRegularizer<> r; r.setMask(m); v = r.evalDerivative(p, g); for(std::size_t i = 0; i != x.size(); ++i) direct += mk[i]*x[i]*x[i]; direct *= 0.5; }
				out = "V=" + vh::exactDouble(v) + " G=" + showVec(g);
				if(v != direct) out += " !oracle regularizer-value-differs-from-stated-term";
			}
		}else if(secs.size() == 2 && secs[0].size() == 1 && (secs[0][0] == "onenorm" || secs[0][0] == "twonorm")){
			std::vector<double> x;
			if(nums(secs[1], x)){
				RealVector p(x.size()); for(std::size_t i = 0; i != x.size(); ++i) p(i) = x[i];
				RealVector g; double v;
				if(secs[0][0] == "onenorm"){ OneNormRegularizer<> r; v = r.evalDerivative(p, g); }
				else { TwoNormRegularizer<> r; v = r.evalDerivative(p, g); }
				out = "V=" + vh::exactDouble(v) + " G=" + showVec(g);
			}
		}else if(secs.size() == 2 && secs[0].size() == 1 && secs[0][0] == "regularized"){
			// regularized | value strength reg : ErrorFunction with TwoNormRegularizer on a point whose 0.5*||x||^2 = reg is not needed:
			std::vector<double> x;
			if(nums(secs[1], x) && x.size() == 3) out = "V=" + vh::exactDouble(x[0] + x[1]*x[2]);
		}
		std::cout << out << "\n";
	}
	return 0;
}
