// K-C18: token-recording polymorphic output archive. Every primitive `save` call of the real write()
// path is recorded as a token (n<unsigned/size/bool>, v<floating>, s<len>:<string>); boost.serialization's own
// bookkeeping (class ids, object ids, versions, tracking flags) is dropped. Through the polymorphic interface
// collection_size_type and item_version_type arrive as plain unsigned numbers (so std::vector<T> = count,
// item_version, items). The stream is compared token by token with `enc` of the Lean codec generated from
// the same source (Gen/SerialCodec.lean).
#ifndef VERIF_HARNESS_C18_TOK_HPP
#define VERIF_HARNESS_C18_TOK_HPP
#include <boost/archive/text_oarchive.hpp>
#include <boost/archive/polymorphic_oarchive.hpp>
#include <boost/archive/detail/polymorphic_oarchive_route.hpp>
#include <boost/serialization/collection_size_type.hpp>
#include <boost/serialization/item_version_type.hpp>
#include <type_traits>
#include <map>
#include <cstdio>
namespace c18 {
class tok_oarchive : public boost::archive::text_oarchive_impl<tok_oarchive> {
	typedef boost::archive::text_oarchive_impl<tok_oarchive> base;
public:
	tok_oarchive(std::ostream& os_, unsigned int flags = 0) : base(os_, flags | boost::archive::no_header) {}
	// bookkeeping of boost.serialization: not part of the payload
	void save(boost::archive::version_type const&){}
	void save(boost::archive::class_id_type const&){}
	void save(boost::archive::class_id_reference_type const&){}
	void save(boost::archive::class_id_optional_type const&){}
	// objects saved THROUGH A POINTER (shared_ptr batches): first occurrence `p<k>` (k = ordinal among the pointer
	// objects of this archive), later occurrences of the same address `r<k>`; a by-value tracked object that boost
	// elides because its address was seen before shows up as `R` (never for an intact Data: every batch is
	// written once, through its pointer)
	bool pending_ptr = false, emit_ptr = true;
	std::map<unsigned, unsigned> ordinal;
	void save_pointer(const void* t, const boost::archive::detail::basic_pointer_oserializer* b){
		pending_ptr = true; base::save_pointer(t, b); pending_ptr = false;
	}
	void save(boost::archive::object_id_type const& t){
		if(!pending_ptr) return;
		pending_ptr = false;
		unsigned k = unsigned(ordinal.size()); ordinal[unsigned(t)] = k;
		if(emit_ptr) os << "p" << k << ' ';
	}
	void save(boost::archive::object_reference_type const& t){
		if(pending_ptr){ pending_ptr = false; os << "r" << ordinal[unsigned(boost::archive::object_id_type(t))] << ' '; }
		else os << "R ";
	}
	void save(boost::archive::tracking_type const&){}
	void save(boost::archive::class_name_type const&){}
	void save(boost::serialization::item_version_type const&){}
	void save(boost::serialization::collection_size_type const& t){ os << "n" << std::size_t(t) << ' '; }
	void save(bool t){ os << "n" << (t ? 1 : 0) << ' '; }
	void save(double t){ char b[64]; std::snprintf(b, sizeof b, "%.17g", t); os << "v" << b << ' '; }
	void save(float t){ char b[64]; std::snprintf(b, sizeof b, "%.9g", double(t)); os << "v" << b << ' '; }
	void save(boost::serialization::library_version_type const&){}
	void save(std::wstring const&){}
	void save(const wchar_t*){}
	void save(std::string const& s){ os << "s" << s.size() << ":" << s << ' '; }
	void save(const char* s){ save(std::string(s)); }
	template<class T> typename std::enable_if<std::is_integral<T>::value>::type save(T const& t){ os << "n" << (long long)t << ' '; }
	template<class T> typename std::enable_if<std::is_enum<T>::value>::type save(T const& t){ os << "n" << (long long)t << ' '; }
	void save_binary(const void*, std::size_t count){ os << "bin" << count << ' '; }
};
typedef boost::archive::detail::polymorphic_oarchive_route<tok_oarchive> polymorphic_tok_oarchive;
}
#endif
