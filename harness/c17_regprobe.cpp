// Compile probe for finding REG1 (C17): NearestNeighborModel<InputType, LabelType> for a non-classification
// label type (regression) offers setDistanceWeightType / getDistanceWeightType, whose bodies call
// this->decisionFunction() - a member of Classifier<>, which only the unsigned-int specialisation derives
// from.  The two members cannot be instantiated: a regression model cannot be switched to 1/distance weights
// through its documented interface.  checks/c17.py compiles this file with -fsyntax-only.
#include <algorithm>
#include <utility>
#include <vector>
#include <shark/Algorithms/NearestNeighbors/SimpleNearestNeighbors.h>
#include <shark/Models/Kernels/LinearKernel.h>
#include <shark/Models/NearestNeighborModel.h>
using namespace shark;
int probe(){
	std::vector<RealVector> xs(2, RealVector(1, 0.0)), ys(2, RealVector(1, 1.0));
	LabeledData<RealVector, RealVector> ds = createLabeledDataFromRange(xs, ys);
	LinearKernel<RealVector> kernel;
	SimpleNearestNeighbors<RealVector, RealVector> snn(ds, &kernel);
	typedef NearestNeighborModel<RealVector, RealVector> M;
	M m(&snn, 1);
	m.setDistanceWeightType(M::ONE_OVER_DISTANCE);
	return m.getDistanceWeightType() == M::ONE_OVER_DISTANCE ? 0 : 1;
}
