// K-C14 (selection part): correspondence harness for IndicatorBasedSelection<Indicator> and
// ElitistSelection on integer populations (exact).  One op per stdin line, one observation line
// per op (format of lean/Driver/C14.lean).  The flags of the partially selected front are printed exactly for the
// indicators with an exact model (hv with reference, hv without reference in 2-D, crowd, eps) and as '?' otherwise.  Oracle: exactly mu individuals selected; no selected
// individual has a worse non-domination rank than an unselected one; ranks satisfy the definition.
#include <shark/Algorithms/DirectSearch/Individual.h>
#include <shark/Algorithms/DirectSearch/Operators/Selection/IndicatorBasedSelection.h>
#include <shark/Algorithms/DirectSearch/Operators/Selection/ElitistSelection.h>
#include <shark/Algorithms/DirectSearch/Operators/Indicators/HypervolumeIndicator.h>
#include <shark/Algorithms/DirectSearch/Operators/Indicators/CrowdingDistance.h>
#include <shark/Algorithms/DirectSearch/Operators/Indicators/AdditiveEpsilonIndicator.h>
#include <shark/Algorithms/DirectSearch/Operators/Indicators/NSGA3Indicator.h>
#include "common.hpp"
#include <algorithm>

using namespace shark;
typedef Individual<RealVector, RealVector> Ind;

static bool parseInts(std::vector<std::string> const& t, std::size_t from, std::vector<long long>& out){
	out.clear();
	for(std::size_t i = from; i < t.size(); ++i){
		std::string const& s = t[i];
		if(s.empty()) return false;
		std::size_t b = (s[0] == '-') ? 1 : 0;
		if(b == s.size()) return false;
		for(std::size_t c = b; c < s.size(); ++c) if(s[c] < '0' || s[c] > '9') return false;
		out.push_back(std::stoll(s));
	}
	return true;
}
static bool weakDom(RealVector const& p, RealVector const& q){
	for(std::size_t i = 0; i != p.size(); ++i) if(p(i) > q(i)) return false;
	return true;
}
static bool strictDom(RealVector const& p, RealVector const& q){ return weakDom(p,q) && !weakDom(q,p); }

template<class Selection>
static void runSelection(Selection& sel, std::vector<Ind>& pop, std::size_t mu, std::ostream& os, std::string& orc, bool exact = false){
	std::size_t n = pop.size();
	sel(pop, mu);
	// canonical observation: ranks; flags outside the partially selected front; number kept in it
	unsigned r = 0; std::size_t count = 0;
	for(auto const& x: pop) if(x.selected()){ r = std::max(r, x.rank()); ++count; }
	std::size_t keep = 0;
	os << "ranks=[";
	for(std::size_t i = 0; i != n; ++i) os << (i ? "," : "") << pop[i].rank();
	os << "] flags=";
	for(std::size_t i = 0; i != n; ++i){
		if(pop[i].rank() == r && pop[i].selected()) ++keep;
		if(pop[i].rank() == r && !exact) os << "?";
		else os << (pop[i].selected() ? "1" : "0");
	}
	os << " keep=" << keep;
	// independent oracle
	if(count != mu) orc += " !oracle selection-count " + std::to_string(count) + "!=" + std::to_string(mu);
	for(std::size_t i = 0; i != n; ++i) for(std::size_t j = 0; j != n; ++j)
		if(pop[i].selected() && !pop[j].selected() && pop[i].rank() > pop[j].rank()){
			orc += " !oracle selection-rank-monotone"; i = n - 1; break;
		}
	for(std::size_t i = 0; i != n; ++i){
		unsigned best = 0;
		for(std::size_t j = 0; j != n; ++j)
			if(strictDom(pop[j].penalizedFitness(), pop[i].penalizedFitness())) best = std::max(best, pop[j].rank());
		if(pop[i].rank() != best + 1){ orc += " !oracle rank-def"; break; }
	}
}

int main(){
	std::string line;
	std::vector<long long> a;
	random::rng_type rng(42);
	while(std::getline(std::cin, line)){
		std::vector<std::string> t = vh::tokens(line);
		if(t.empty()){ std::cout << "\n"; continue; }
		std::ostringstream os; std::string orc;
		try{
		// `sel hvr mu m n r(m) pts`: hypervolume indicator with the explicit reference point r (points may lie beyond it)
		bool hvr = t[0] == "sel" && t.size() >= 5 && t[1] == "hvr";
		if(t[0] == "sel" && t.size() >= 5 && parseInts(t, 2, a) && a.size() >= 3 && a.size() == 3 + (std::size_t)(a[1]*a[2]) + (hvr ? (std::size_t)a[1] : 0)){
			std::string ind = t[1];
			std::size_t mu = a[0], m = a[1], n = a[2];
			RealVector given(m, 0.0);
			if(hvr){ for(std::size_t d = 0; d != m; ++d) given(d) = (double)a[3 + d]; a.erase(a.begin() + 3, a.begin() + 3 + m); }
			std::vector<Ind> pop(n);
			RealVector ref(m, -1e100);
			for(std::size_t i = 0; i != n; ++i){
				RealVector v(m);
				for(std::size_t d = 0; d != m; ++d){ v(d) = (double)a[3 + i*m + d]; ref(d) = std::max(ref(d), v(d) + 1); }
				pop[i].penalizedFitness() = v; pop[i].unpenalizedFitness() = v;
				// flags / ranks before the call must not matter: fresh container (all false), re-used container with
				// stale marks (alternating), or all true — chosen by the op
				pop[i].selected() = ((n + mu) % 3 == 0) ? false : (((n + mu) % 3 == 1) ? (i % 2 == 0) : true);
				pop[i].rank() = 7;
			}
			if(hvr){ IndicatorBasedSelection<HypervolumeIndicator> s; s.indicator().setReference(given); runSelection(s, pop, mu, os, orc, true); }
			else if(ind == "hv"){ IndicatorBasedSelection<HypervolumeIndicator> s; s.indicator().setReference(ref); runSelection(s, pop, mu, os, orc, true); }
			else if(ind == "hvnoref"){ IndicatorBasedSelection<HypervolumeIndicator> s; runSelection(s, pop, mu, os, orc, m == 2); }
			else if(ind == "crowd"){ IndicatorBasedSelection<CrowdingDistance> s; runSelection(s, pop, mu, os, orc, true); }
			else if(ind == "eps"){ IndicatorBasedSelection<AdditiveEpsilonIndicator> s; runSelection(s, pop, mu, os, orc, true); }
			else if(ind == "nsga3"){ IndicatorBasedSelection<NSGA3Indicator> s; s.indicator().init(m, std::max<std::size_t>(mu, m), rng); runSelection(s, pop, mu, os, orc); }
			else { std::cout << "bad-op\n"; continue; }
		}else if(t[0] == "elit" && parseInts(t, 1, a) && a.size() >= 2 && a.size() == 2 + (std::size_t)a[1]){
			typedef Individual<RealVector, double> SInd;
			std::size_t mu = a[0], n = a[1];
			std::vector<SInd> pop(n), out(mu);
			for(std::size_t i = 0; i != n; ++i){ pop[i].unpenalizedFitness() = (double)a[2+i]; pop[i].penalizedFitness() = (double)a[2+i]; }
			ElitistSelection<SInd::FitnessOrdering> sel;
			sel(pop.begin(), pop.end(), out.begin(), out.end());
			os << "sel=[";
			for(std::size_t i = 0; i != mu; ++i) os << (i ? "," : "") << vh::intval(out[i].unpenalizedFitness());
			os << "]";
			// oracle: output is sorted and no unselected key is smaller than the largest selected one
			std::vector<double> keys; for(auto const& x: pop) keys.push_back(x.unpenalizedFitness());
			std::sort(keys.begin(), keys.end());
			for(std::size_t i = 0; i != mu; ++i) if(out[i].unpenalizedFitness() != keys[i]){ orc += " !oracle elitist-not-best"; break; }
		}else{ std::cout << "bad-op\n"; continue; }
		}catch(std::exception const& e){
			os.str(""); os << "exception";
			orc += std::string(" !oracle exception ") + e.what();
		}
		std::cout << os.str() << orc << "\n";
	}
	return 0;
}
