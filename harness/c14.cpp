// K-C14 (selection part): correspondence harness for IndicatorBasedSelection<Indicator> and
// ElitistSelection on integer populations (exact).  One op per stdin line, one observation line
// per op (format of lean/Driver/C14.lean).  The flags of the partially selected front are printed exactly for the
// indicators with an exact model (hv with reference, hv without reference in 2-D, crowd, eps) and as '?' otherwise.  Oracle: exactly mu individuals selected; no selected
// individual has a worse non-domination rank than an unselected one; ranks satisfy the definition; the members the hypervolume
// indicator discards from the last front are least contributors (brute-force hypervolume, ties allowed, 2-3 objectives, with/without reference).
#include <shark/Algorithms/DirectSearch/Individual.h>
#include <shark/Algorithms/DirectSearch/Operators/Selection/IndicatorBasedSelection.h>
#include <shark/Algorithms/DirectSearch/Operators/Selection/ElitistSelection.h>
#include <shark/Algorithms/DirectSearch/Operators/Indicators/HypervolumeIndicator.h>
#include <shark/Algorithms/DirectSearch/Operators/Indicators/CrowdingDistance.h>
#include <shark/Algorithms/DirectSearch/Operators/Indicators/AdditiveEpsilonIndicator.h>
#include <shark/Algorithms/DirectSearch/Operators/Indicators/NSGA3Indicator.h>
#include "common.hpp"
#include <algorithm>

using namespace shark;
typedef Individual<RealVector, RealVector> Ind;

static bool parseInts(std::vector<std::string> const& t, std::size_t from, std::vector<long long>& out){
	out.clear();
	for(std::size_t i = from; i < t.size(); ++i){
		std::string const& s = t[i];
		if(s.empty()) return false;
		std::size_t b = (s[0] == '-') ? 1 : 0;
		if(b == s.size()) return false;
		for(std::size_t c = b; c < s.size(); ++c) if(s[c] < '0' || s[c] > '9') return false;
		out.push_back(std::stoll(s));
	}
	return true;
}
static bool weakDom(RealVector const& p, RealVector const& q){
	for(std::size_t i = 0; i != p.size(); ++i) if(p(i) > q(i)) return false;
	return true;
}
static bool strictDom(RealVector const& p, RealVector const& q){ return weakDom(p,q) && !weakDom(q,p); }

// ---------------------------------------------------------------- NSGA-III: replica of the floating-point association step
// (copy of NSGA3Indicator::leastContributors up to `pairing` and of computeNormalizer; its result is an INPUT of the model's
// niche-selection loop and the real indicator's final choice is compared with the model's, so a divergence of the copy shows up
// as a mismatch)
static bool g_aux = false;
static RealVector nsga3Normalizer(std::vector<RealVector> const& points){
	double epsilon = 0.00001;
	std::size_t dimensions = points.front().size();
	RealMatrix cornerPoints(dimensions, dimensions,0.0);
	for(std::size_t dim = 0; dim != dimensions; ++dim){
		KeyValuePair<double,std::size_t> best(std::numeric_limits<double>::max(),0);
		for(std::size_t i = 0; i != points.size(); ++i){
			auto const& point = points[i];
			double dist = epsilon * sum(point) + (1-epsilon) * point[dim];
			best = std::min(best,makeKeyValuePair(dist,i));
		}
		noalias(row(cornerPoints,dim)) = points[best.value];
	}
	RealMatrix A = trans((cornerPoints|1)) % (cornerPoints|1);
	RealVector b = trans((cornerPoints|1)) % blas::repeat(-1.0,dimensions);
	blas::symm_pos_semi_definite_solver<RealMatrix> solver(A);
	if(solver.rank() == dimensions){
		solver.solve(b, blas::left());
		RealVector w = subrange(b,0,dimensions);
		if(min(w) >= 0) return blas::repeat(1.0,dimensions)/w;
	}
	RealVector nadir = points.front();
	for(auto& point: points) noalias(nadir) = max(nadir,point);
	for(std::size_t i = 0; i != nadir.size(); ++i) if(!(nadir(i) > 0)) nadir(i) = 1.0;
	return nadir;
}
// (distance, reference index) per point of archive ++ front
static std::vector<std::pair<double,std::size_t> > nsga3Assoc(std::vector<RealVector> points, std::vector<RealVector> const& Z){
	RealVector ideal = points.front();
	for(auto& point: points) noalias(ideal) = min(ideal,point);
	for(auto& point: points) noalias(point) = point - ideal;
	RealVector normalizer = nsga3Normalizer(points);
	for(auto& point: points) noalias(point) = point/ normalizer;
	std::vector<std::pair<double,std::size_t> > res(points.size(), std::make_pair(std::numeric_limits<double>::max(), std::size_t(0)));
	for(std::size_t j = 0; j != points.size(); ++j)
		for(std::size_t i = 0; i != Z.size(); ++i){
			double dist = norm_sqr(points[j]) - sqr(inner_prod(Z[i],points[j]));
			if(dist < res[j].first) res[j] = std::make_pair(dist, i);
		}
	return res;
}
// aux string "nz k_0 z_0 k_1 z_1 ..." (dense order keys of the distances) for the call the selection makes on `pop`
static std::string nsga3Aux(std::vector<Ind> const& pop, std::size_t mu, std::vector<RealVector> const& Z){
	// the partially selected front: fronts are dropped from the worst while popSize - |front| >= mu
	unsigned maxRank = 0; for(auto const& x: pop) maxRank = std::max(maxRank, x.rank());
	std::size_t popSize = pop.size(); unsigned R = maxRank;
	for(;; --R){
		std::size_t fs = 0; for(auto const& x: pop) if(x.rank() == R) ++fs;
		if(R == 0 || popSize - fs < mu) break;
		popSize -= fs;
	}
	std::vector<RealVector> pts;
	for(unsigned r = 1; r < R; ++r) for(auto const& x: pop) if(x.rank() == r) pts.push_back(x.penalizedFitness());
	for(auto const& x: pop) if(x.rank() == R) pts.push_back(x.penalizedFitness());
	if(pts.empty()) return "";
	auto as = nsga3Assoc(pts, Z);
	std::vector<double> u; for(auto const& a: as) u.push_back(a.first);
	std::sort(u.begin(), u.end()); u.erase(std::unique(u.begin(), u.end()), u.end());
	std::string s = std::to_string(Z.size());
	for(auto const& a: as){
		if(!(a.first < std::numeric_limits<double>::max())) return "nan";      // NaN / no direction closer than DBL_MAX: outside the model
		s += " " + std::to_string(std::lower_bound(u.begin(), u.end(), a.first) - u.begin()) + " " + std::to_string(a.second);
	}
	return s;
}

// ---------------------------------------------------------------- independent oracle for the hypervolume indicator's choice
// exact dominated hypervolume of integer points w.r.t. ref by coordinate compression (points that are not strictly below
// ref in every objective dominate nothing inside the reference box)
typedef std::vector<double> DPt;
static double hvBrute(std::vector<DPt> const& pts, DPt const& ref){
	std::size_t m = ref.size();
	std::vector<DPt> in;
	for(auto const& p: pts){ bool ok = true; for(std::size_t d = 0; d != m; ++d) ok = ok && p[d] < ref[d]; if(ok) in.push_back(p); }
	if(in.empty()) return 0;
	std::vector<std::vector<double> > ax(m);
	for(std::size_t d = 0; d != m; ++d){
		for(auto const& p: in) ax[d].push_back(p[d]);
		ax[d].push_back(ref[d]);
		std::sort(ax[d].begin(), ax[d].end()); ax[d].erase(std::unique(ax[d].begin(), ax[d].end()), ax[d].end());
	}
	double vol = 0;
	std::vector<std::size_t> idx(m, 0);
	for(;;){
		bool covered = false;
		for(auto const& p: in){ bool le = true; for(std::size_t d = 0; d != m; ++d) le = le && p[d] <= ax[d][idx[d]]; if(le){ covered = true; break; } }
		if(covered){ double c = 1; for(std::size_t d = 0; d != m; ++d) c *= ax[d][idx[d] + 1] - ax[d][idx[d]]; vol += c; }
		std::size_t d = 0;
		for(; d != m; ++d){ if(++idx[d] + 1 < ax[d].size()) break; idx[d] = 0; }
		if(d == m) break;
	}
	return vol;
}
// mode 0: explicit reference `ref`; mode 1: no reference point (implicit reference = component-wise maximum of the current front,
// points that are extreme are no candidates: 2-D first/last of the lexicographic order, 3-D the first minimiser of each objective)
static std::vector<bool> candidates(std::vector<DPt> const& f, int mode){
	std::size_t n = f.size(), m = f[0].size();
	std::vector<bool> c(n, true);
	if(mode == 0) return c;
	if(m == 2){
		if(n <= 2) return c;                          // the routine returns index 0: nothing to require
		std::size_t lo = 0, hi = 0;
		for(std::size_t i = 1; i != n; ++i){ if(f[i] < f[lo]) lo = i; if(f[hi] < f[i]) hi = i; }
		// only the first and the last element of the sorted order are excluded: of several copies of an extreme point all but
		// one are interior (and any copy may be the one at the end)
		std::size_t nlo = 0, nhi = 0;
		for(std::size_t i = 0; i != n; ++i){ if(f[i] == f[lo]) ++nlo; if(f[i] == f[hi]) ++nhi; }
		for(std::size_t i = 0; i != n; ++i) if((f[i] == f[lo] && nlo == 1) || (f[i] == f[hi] && nhi == 1)) c[i] = false;
		bool any = false; for(std::size_t i = 0; i != n; ++i) any = any || c[i];
		if(!any) c.assign(n, true);
		return c;
	}
	for(std::size_t d = 0; d != m; ++d){ std::size_t a = 0; for(std::size_t i = 1; i != n; ++i) if(f[i][d] < f[a][d]) a = i; c[a] = false; }
	return c;
}
static DPt usedReference(std::vector<DPt> const& f, int mode, DPt const& ref){
	if(mode == 0) return ref;
	DPt r = f[0];
	for(auto const& p: f) for(std::size_t d = 0; d != r.size(); ++d) r[d] = std::max(r[d], p[d]);
	return r;
}
// is there an order in which the members `drop` (positions in f) can be removed one at a time, each being a candidate of
// minimal contribution hv(front) - hv(front without it) of the front that is left?
static bool removalOrderExists(std::vector<DPt> f, std::vector<std::size_t> drop, int mode, DPt const& ref, int& budget){
	if(drop.empty()) return true;
	if(--budget < 0) return true;                       // search budget exhausted: no verdict
	std::vector<bool> cand = candidates(f, mode);
	bool anyCand = false; for(bool b: cand) anyCand = anyCand || b;
	if(!anyCand) return true;                           // reference-free 3-D with only extreme points: result unspecified (C13 remark)
	DPt r = usedReference(f, mode, ref);
	double total = hvBrute(f, r);
	std::vector<double> con(f.size());
	double best = 1e300;
	for(std::size_t i = 0; i != f.size(); ++i){
		std::vector<DPt> g(f); g.erase(g.begin() + i);
		con[i] = total - hvBrute(g, r);
		if(cand[i]) best = std::min(best, con[i]);
	}
	for(std::size_t k = 0; k != drop.size(); ++k){
		std::size_t i = drop[k];
		if(!cand[i] || con[i] != best) continue;
		std::vector<DPt> g(f); g.erase(g.begin() + i);
		std::vector<std::size_t> rest;
		for(std::size_t j = 0; j != drop.size(); ++j) if(j != k) rest.push_back(drop[j] > i ? drop[j] - 1 : drop[j]);
		if(removalOrderExists(g, rest, mode, ref, budget)) return true;
	}
	return false;
}
// the members of the partially selected front that the hypervolume indicator discarded must be removable in some order as
// least contributors (ties allowed)
static void checkHvChoice(std::vector<Ind> const& pop, int mode, RealVector const& ref, std::string& orc){
	unsigned r = 0;
	for(auto const& x: pop) if(x.selected()) r = std::max(r, x.rank());
	std::vector<DPt> f; std::vector<std::size_t> drop;
	for(auto const& x: pop) if(x.rank() == r){
		if(!x.selected()) drop.push_back(f.size());
		f.push_back(DPt(x.penalizedFitness().begin(), x.penalizedFitness().end()));
	}
	if(drop.empty() || f.empty()) return;
	int budget = 4000;
	if(!removalOrderExists(f, drop, mode, DPt(ref.begin(), ref.end()), budget)){
		orc += " !oracle hv-choice-not-least-contributor front=" + std::to_string(f.size()) + " dropped=";
		for(std::size_t i = 0; i != drop.size(); ++i) orc += (i ? "," : "") + std::to_string(drop[i]);
	}
}

template<class Selection>
static void runSelection(Selection& sel, std::vector<Ind>& pop, std::size_t mu, std::ostream& os, std::string& orc, bool exact = false){
	std::size_t n = pop.size();
	sel(pop, mu);
	// canonical observation: ranks; flags outside the partially selected front; number kept in it
	unsigned r = 0; std::size_t count = 0;
	for(auto const& x: pop) if(x.selected()){ r = std::max(r, x.rank()); ++count; }
	std::size_t keep = 0;
	os << "ranks=[";
	for(std::size_t i = 0; i != n; ++i) os << (i ? "," : "") << pop[i].rank();
	os << "] flags=";
	for(std::size_t i = 0; i != n; ++i){
		if(pop[i].rank() == r && pop[i].selected()) ++keep;
		if(pop[i].rank() == r && !exact) os << "?";
		else os << (pop[i].selected() ? "1" : "0");
	}
	os << " keep=" << keep;
	// independent oracle
	if(count != mu) orc += " !oracle selection-count " + std::to_string(count) + "!=" + std::to_string(mu);
	for(std::size_t i = 0; i != n; ++i) for(std::size_t j = 0; j != n; ++j)
		if(pop[i].selected() && !pop[j].selected() && pop[i].rank() > pop[j].rank()){
			orc += " !oracle selection-rank-monotone"; i = n - 1; break;
		}
	for(std::size_t i = 0; i != n; ++i){
		unsigned best = 0;
		for(std::size_t j = 0; j != n; ++j)
			if(strictDom(pop[j].penalizedFitness(), pop[i].penalizedFitness())) best = std::max(best, pop[j].rank());
		if(pop[i].rank() != best + 1){ orc += " !oracle rank-def"; break; }
	}
}

int main(int argc, char** argv){
	g_aux = argc > 1 && std::string(argv[1]) == "--aux";
	std::string line;
	std::vector<long long> a;
	random::rng_type rng(42);
	while(std::getline(std::cin, line)){
		std::vector<std::string> t = vh::tokens(line);
		if(t.empty()){ std::cout << "\n"; continue; }
		std::ostringstream os; std::string orc;
		try{
		// `sel hvr mu m n r(m) pts`: hypervolume indicator with the explicit reference point r (points may lie beyond it)
		bool hvr = t[0] == "sel" && t.size() >= 5 && t[1] == "hvr";
		std::vector<std::string> tmain(t.begin(), std::find(t.begin(), t.end(), "aux"));
		if(t[0] == "sel" && t.size() >= 5 && parseInts(tmain, 2, a) && a.size() >= 3 && a.size() == 3 + (std::size_t)(a[1]*a[2]) + (hvr ? (std::size_t)a[1] : 0)){
			std::string ind = t[1];
			std::size_t mu = a[0], m = a[1], n = a[2];
			RealVector given(m, 0.0);
			if(hvr){ for(std::size_t d = 0; d != m; ++d) given(d) = (double)a[3 + d]; a.erase(a.begin() + 3, a.begin() + 3 + m); }
			std::vector<Ind> pop(n);
			RealVector ref(m, -1e100);
			for(std::size_t i = 0; i != n; ++i){
				RealVector v(m);
				for(std::size_t d = 0; d != m; ++d){ v(d) = (double)a[3 + i*m + d]; ref(d) = std::max(ref(d), v(d) + 1); }
				pop[i].penalizedFitness() = v; pop[i].unpenalizedFitness() = v;
				// flags / ranks before the call must not matter: fresh container (all false), re-used container with
				// stale marks (alternating), or all true — chosen by the op
				pop[i].selected() = ((n + mu) % 3 == 0) ? false : (((n + mu) % 3 == 1) ? (i % 2 == 0) : true);
				pop[i].rank() = 7;
			}
			if(hvr){ IndicatorBasedSelection<HypervolumeIndicator> s; s.indicator().setReference(given); runSelection(s, pop, mu, os, orc, true); checkHvChoice(pop, 0, given, orc); }
			else if(ind == "hv"){ IndicatorBasedSelection<HypervolumeIndicator> s; s.indicator().setReference(ref); runSelection(s, pop, mu, os, orc, true); checkHvChoice(pop, 0, ref, orc); }
			else if(ind == "hvnoref"){ IndicatorBasedSelection<HypervolumeIndicator> s; runSelection(s, pop, mu, os, orc, m == 2); checkHvChoice(pop, 1, ref, orc); }
			else if(ind == "crowd"){ IndicatorBasedSelection<CrowdingDistance> s; runSelection(s, pop, mu, os, orc, true); }
			else if(ind == "eps"){ IndicatorBasedSelection<AdditiveEpsilonIndicator> s; runSelection(s, pop, mu, os, orc, true); }
			else if(ind == "nsga3"){
				// reference directions: the unit vectors on the lattice RealCodedNSGAIII would use, set explicitly
				RealMatrix refs = unitVectorsOnLattice(m, computeOptimalLatticeTicks(m, std::max<std::size_t>(mu, m)));
				std::vector<RealVector> Z; for(std::size_t i = 0; i != refs.size1(); ++i) Z.push_back(row(refs, i));
				IndicatorBasedSelection<NSGA3Indicator> s; s.indicator().setReferencePoints(Z);
				for(auto& z: Z) z /= norm_2(z);                         // what setReferencePoints does
				std::size_t auxAt = std::find(t.begin(), t.end(), "aux") - t.begin();
				std::string given; for(std::size_t i = auxAt + 1; i < t.size(); ++i) given += (given.empty() ? "" : " ") + t[i];
				bool exact = auxAt != t.size() && given != "nan" && !given.empty();
				runSelection(s, pop, mu, os, orc, exact);
				std::string aux = nsga3Aux(pop, mu, Z);                 // ranks are those of the real selection (C13)
				if(g_aux){ std::cout << aux << "\n"; continue; }
				if(auxAt != t.size() && aux != given) orc += " !oracle aux-mismatch";
			}
			else { std::cout << "bad-op\n"; continue; }
		}else if(t[0] == "elit" && parseInts(t, 1, a) && a.size() >= 2 && a.size() == 2 + (std::size_t)a[1]){
			typedef Individual<RealVector, double> SInd;
			std::size_t mu = a[0], n = a[1];
			std::vector<SInd> pop(n), out(mu);
			for(std::size_t i = 0; i != n; ++i){ pop[i].unpenalizedFitness() = (double)a[2+i]; pop[i].penalizedFitness() = (double)a[2+i]; }
			ElitistSelection<SInd::FitnessOrdering> sel;
			sel(pop.begin(), pop.end(), out.begin(), out.end());
			os << "sel=[";
			for(std::size_t i = 0; i != mu; ++i) os << (i ? "," : "") << vh::intval(out[i].unpenalizedFitness());
			os << "]";
			// oracle: output is sorted and no unselected key is smaller than the largest selected one
			std::vector<double> keys; for(auto const& x: pop) keys.push_back(x.unpenalizedFitness());
			std::sort(keys.begin(), keys.end());
			for(std::size_t i = 0; i != mu; ++i) if(out[i].unpenalizedFitness() != keys[i]){ orc += " !oracle elitist-not-best"; break; }
		}else{ std::cout << "bad-op\n"; continue; }
		}catch(std::exception const& e){
			os.str(""); os << "exception";
			orc += std::string(" !oracle exception ") + e.what();
		}
		if(g_aux){ std::cout << "\n"; continue; }
		std::cout << os.str() << orc << "\n";
	}
	return 0;
}
