// K-C16 (part 1): CSvmTrainer-level harness.
//  * `tables <F>_<A> <c>` / `tablesq <F>_<A> <c>`: dump of the QpSparseArrays built by the
//    real CSvmTrainer::setupMcParameters{WWCS,ATMATS,ADMLLW,MMR} (private members, reached
//    in this TU only) for the entry-wise comparison with Gen/McTables.lean
//    (bit patterns of the doubles / exact rationals).
//  * `train ...`: see below (trainer-level configuration sweeps; oracle only, no model line).
// All of CSvmTrainer.h's dependencies are included first, so that the access
// override touches nothing but CSvmTrainer.h itself.
#include <shark/Algorithms/Trainers/AbstractSvmTrainer.h>
#include <shark/Algorithms/Trainers/AbstractWeightedTrainer.h>
#include <shark/Algorithms/QP/BoxConstrainedProblems.h>
#include <shark/Algorithms/QP/SvmProblems.h>
#include <shark/Algorithms/QP/QpBoxLinear.h>
#include <shark/LinAlg/CachedMatrix.h>
#include <shark/LinAlg/GaussianKernelMatrix.h>
#include <shark/LinAlg/KernelMatrix.h>
#include <shark/LinAlg/PrecomputedMatrix.h>
#include <shark/LinAlg/RegularizedKernelMatrix.h>
#include <shark/Models/Kernels/GaussianRbfKernel.h>
#include <shark/Models/Kernels/LinearKernel.h>
#include <shark/Models/Kernels/PolynomialKernel.h>
#include <shark/Models/LinearModel.h>
#include <shark/Core/Random.h>
#include <shark/Algorithms/QP/QpMcSimplexDecomp.h>
#include <shark/Algorithms/QP/QpMcBoxDecomp.h>
#include <shark/Algorithms/QP/QpMcLinear.h>
#define private public
#include <shark/Algorithms/Trainers/CSvmTrainer.h>
#undef private
#include "common.hpp"
#include <cfenv>
#include <cstring>
#include <algorithm>
#include <memory>

using namespace shark;

static std::string bits(double x){
	std::uint64_t u; std::memcpy(&u, &x, sizeof u);
	std::ostringstream os; os << u; return os.str();
}
// exact rational "num/den" (lowest terms) of a finite double
static std::string rational(double x){
	if(x == 0) return "0/1";
	int e; double m = std::frexp(x, &e);
	long long mi = (long long)std::ldexp(m, 53); e -= 53;
	while(mi % 2 == 0){ mi /= 2; ++e; }
	std::ostringstream os;
	if(e >= 0){ if(e > 40) return "big"; os << mi * (1LL << e) << "/1"; }
	else { if(-e > 62) return "tiny"; os << mi << "/" << (1LL << (-e)); }
	return os.str();
}

// QpSparseArray's bookkeeping members are protected: read them through member pointers
template<class Q>
struct Peek: public QpSparseArray<Q>{
	static std::size_t used(QpSparseArray<Q> const& a){ return a.*(&Peek::m_used); }
	static std::size_t space(QpSparseArray<Q> const& a){ return (a.*(&Peek::m_data)).size(); }
};

template<class Q>
static std::string dumpSparse(QpSparseArray<Q> const& a, bool asRational){
	std::ostringstream os;
	os << "h=" << a.height() << " w=" << a.width() << " space=" << Peek<Q>::space(a) << " used=" << Peek<Q>::used(a) << " rows=";
	for(std::size_t r = 0; r != a.height(); ++r){
		typename QpSparseArray<Q>::Row const& row = a.row(r);
		os << (asRational ? rational(row.defaultvalue) : bits(row.defaultvalue)) << ":";
		for(std::size_t b = 0; b != row.size; ++b)
			os << (b ? "," : "") << row.entry[b].index << "=" << (asRational ? rational(row.entry[b].value) : bits(row.entry[b].value));
		os << ";";
	}
	return os.str();
}


static std::string bits32(float x){
	std::uint32_t u; std::memcpy(&u, &x, sizeof u);
	std::ostringstream os; os << u; return os.str();
}
template<class Q>
static std::string dumpSparseBits(QpSparseArray<Q> const& a, std::string (*show)(Q)){
	std::ostringstream os;
	os << "h=" << a.height() << " w=" << a.width() << " space=" << Peek<Q>::space(a) << " used=" << Peek<Q>::used(a) << " rows=";
	for(std::size_t r = 0; r != a.height(); ++r){
		typename QpSparseArray<Q>::Row const& row = a.row(r);
		os << show(row.defaultvalue) << ":";
		for(std::size_t b = 0; b != row.size; ++b) os << (b ? "," : "") << row.entry[b].index << "=" << show(row.entry[b].value);
		os << ";";
	}
	return os.str();
}

static std::string dumpSparseImpl(QpSparseArray<double> const& a, int mode);
static std::string dumpSparseImpl(QpSparseArray<float> const& a, int mode);
// Q = double: `tables` (bit patterns) / `tablesq` (exact rationals);  Q = float: `tablesf` (CSvmTrainer's default CacheType)
template<class Q>
static std::string doTablesT(std::string const& name, std::size_t c, int mode){
	LinearKernel<RealVector> kernel;
	CSvmTrainer<RealVector, Q> trainer(&kernel, 1.0, false);
	QpSparseArray<Q> nu, M;
	std::feclearexcept(FE_ALL_EXCEPT);
	if(name.compare(0, 5, "WWCS_") == 0) trainer.setupMcParametersWWCS(nu, M, c);
	else if(name.compare(0, 7, "ATMATS_") == 0) trainer.setupMcParametersATMATS(nu, M, c);
	else if(name.compare(0, 7, "ADMLLW_") == 0) trainer.setupMcParametersADMLLW(nu, M, c);
	else if(name.compare(0, 4, "MMR_") == 0) trainer.setupMcParametersMMR(nu, M, c);
	else return "bad-op";
	bool inexact = std::fetestexcept(FE_INEXACT) != 0;
	bool isNu = name.size() >= 3 && name.substr(name.size() - 3) == "_nu";
	QpSparseArray<Q> const& a = isNu ? nu : M;
	std::string r = dumpSparseImpl(a, mode);
	// oracle: the number of added entries never exceeds the reserved space (add() does not check under NDEBUG)
	if(Peek<Q>::used(a) > Peek<Q>::space(a)) r += " !oracle sparse-array-overflow";
	if(mode == 1 && inexact) r += " !oracle inexact-table-construction";
	return r;
}
static std::string dumpSparseImpl(QpSparseArray<double> const& a, int mode){ return dumpSparse(a, mode == 1); }
static std::string showf(float x){ return bits32(x); }
static std::string dumpSparseImpl(QpSparseArray<float> const& a, int){ return dumpSparseBits<float>(a, &showf); }
static std::string doTables(std::string const& name, std::size_t c, bool asRational){ return doTablesT<double>(name, c, asRational ? 1 : 0); }
static std::string doTablesF(std::string const& name, std::size_t c){ return doTablesT<float>(name, c, 2); }

// ---------------------------------------------------------------------------------------------
// trainer level: `data`, `probes`, `train`
// ---------------------------------------------------------------------------------------------
struct World{
	std::size_t n = 0, d = 0, k = 0, m = 0;
	std::vector<RealVector> x;       // training inputs (integer points)
	std::vector<unsigned int> y;
	std::vector<RealVector> probes;
} W;

static McSvm parseType(std::string const& f, bool& ok){
	ok = true;
	if(f == "WW") return McSvm::WW; if(f == "CS") return McSvm::CS; if(f == "LLW") return McSvm::LLW;
	if(f == "ATM") return McSvm::ATM; if(f == "ATS") return McSvm::ATS; if(f == "ADM") return McSvm::ADM;
	if(f == "MMR") return McSvm::MMR; if(f == "RS") return McSvm::ReinforcedSvm; if(f == "OVA") return McSvm::OVA;
	ok = false; return McSvm::WW;
}
static std::string g17(double v){ char b[40]; std::snprintf(b, sizeof b, "%.17g", v); return b; }

static std::vector<std::size_t> makePerm(std::size_t n, std::uint64_t mode){
	std::vector<std::size_t> p(n);
	for(std::size_t i = 0; i != n; ++i) p[i] = i;
	if(mode == 1) std::reverse(p.begin(), p.end());
	else if(mode > 1){ vh::SplitMix64 r(mode); for(std::size_t i = n; i > 1; --i) std::swap(p[i-1], p[r.below(i)]); }
	return p;
}

// independent dense lookup of a QpSparseArray entry (first match, else default), as documented
static double sparseAt(QpSparseArray<double> const& a, std::size_t r, std::size_t col){
	QpSparseArray<double>::Row const& row = a.row(r);
	for(std::size_t b = 0; b != row.size; ++b) if(row.entry[b].index == col) return row.entry[b].value;
	return row.defaultvalue;
}

// train F bias shrink cache C eps perm batch kernel
static std::string doTrain(std::vector<std::string> const& t){
	if(t.size() != 10 || W.n == 0) return "bad-op";
	bool ok; McSvm type = parseType(t[1], ok); if(!ok) return "bad-op";
	bool bias = t[2] == "1", shrink = t[3] == "1";
	long cache = std::stol(t[4]);
	double C = std::stod(t[5]), eps = std::stod(t[6]);
	std::uint64_t permMode = std::stoull(t[7]);
	std::size_t batch = std::stoul(t[8]);
	std::string kern = t[9];
	std::ostringstream os, orc;

	std::vector<std::size_t> perm = makePerm(W.n, permMode);
	std::vector<RealVector> xs(W.n); std::vector<unsigned int> ys(W.n);
	for(std::size_t i = 0; i != W.n; ++i){ xs[i] = W.x[perm[i]]; ys[i] = W.y[perm[i]]; }
	ClassificationDataset data = createLabeledDataFromRange(xs, ys, batch);
	std::size_t classes = numberOfClasses(data);

	LinearKernel<RealVector> lin;
	PolynomialKernel<RealVector> poly(2, 1.0);
	GaussianRbfKernel<RealVector> rbf(0.125);
	AbstractKernelFunction<RealVector>* kernel = kern == "poly" ? (AbstractKernelFunction<RealVector>*)&poly
		: kern == "rbf" ? (AbstractKernelFunction<RealVector>*)&rbf : (AbstractKernelFunction<RealVector>*)&lin;

	CSvmTrainer<RealVector, double> trainer(kernel, C, bias);
	trainer.setMcSvmType(type);
	trainer.sparsify() = false;
	trainer.shrinking() = shrink;
	trainer.stoppingCondition().minAccuracy = eps;
	trainer.stoppingCondition().maxIterations = 300000ULL;
	if(cache < 0) trainer.precomputeKernel() = true; else trainer.setCacheSize((std::size_t)cache);
	KernelClassifier<RealVector> svm;
	trainer.train(svm, data);
	QpSolutionProperties prop = trainer.solutionProperties();
	std::size_t outputs = svm.decisionFunction().outputShape().numElements();
	os << "train classes=" << classes << " outputs=" << outputs << " iters=" << prop.iterations << " stop=" << (int)prop.type
	   << " acc=" << g17(prop.accuracy) << " value=" << g17(prop.value) << " dec=";
	for(std::size_t j = 0; j != W.m; ++j){
		RealVector f = svm.decisionFunction()(W.probes[j]);
		for(std::size_t c = 0; c != f.size(); ++c) os << (j + c ? "," : "") << g17(f(c));
	}
	// training-set decision values in ORIGINAL example order (for the cross-configuration comparison)
	os << " tdec=";
	{
		std::vector<std::size_t> inv(W.n); for(std::size_t i = 0; i != W.n; ++i) inv[perm[i]] = i;
		for(std::size_t o = 0; o != W.n; ++o){
			RealVector f = svm.decisionFunction()(W.x[o]);
			for(std::size_t c = 0; c != f.size(); ++c) os << (o + c ? "," : "") << g17(f(c));
		}
	}
	// (BiasSolver never sets prop.type; OVA resets it to QpNone)
	if(prop.type != QpAccuracyReached && type != McSvm::OVA && !(bias && classes > 2)) orc << " !oracle solver-did-not-reach-accuracy";

	RealMatrix const& A = svm.decisionFunction().alpha();
	if(classes == 2){
		// two-class reduction: every formulation must give exactly the plain binary machine
		CSvmTrainer<RealVector, double> bin(kernel, C, bias);
		bin.sparsify() = false; bin.shrinking() = shrink;
		bin.stoppingCondition().minAccuracy = eps; bin.stoppingCondition().maxIterations = 300000ULL;
		if(cache < 0) bin.precomputeKernel() = true; else bin.setCacheSize((std::size_t)cache);
		KernelClassifier<RealVector> bsvm; bin.train(bsvm, data);
		RealMatrix const& B = bsvm.decisionFunction().alpha();
		bool same = A.size1() == B.size1() && A.size2() == B.size2() && A.size2() == 1;
		for(std::size_t i = 0; same && i != A.size1(); ++i) same = A(i,0) == B(i,0);
		if(bias) same = same && svm.decisionFunction().offset().size() == 1 && svm.decisionFunction().offset()(0) == bsvm.decisionFunction().offset()(0);
		if(!same) orc << " !oracle two-class-not-binary";
		// binary dual feasibility: 0 <= y_i a_i <= C, sum a = 0 with bias
		double sum = 0;
		for(std::size_t i = 0; i != A.size1(); ++i){
			double a = A(i,0) * (ys[i] ? 1.0 : -1.0); sum += A(i,0);
			if(a < 0 || a > C) orc << " !oracle binary-box";
		}
		if(bias && std::fabs(sum) > 1e-9 * (1 + C * W.n)) orc << " !oracle binary-sum";
		os << " path=binary";
	}
	else if(type == McSvm::OVA){
		// one-versus-all: column c = binary machine for class c against the rest
		bool same = A.size2() == classes;
		for(unsigned int c = 0; same && c != classes; ++c){
			ClassificationDataset bd = oneVersusRestProblem(data, c);
			CSvmTrainer<RealVector, double> bin(kernel, C, bias);
			bin.sparsify() = false; bin.shrinking() = shrink;
			bin.stoppingCondition().minAccuracy = eps; bin.stoppingCondition().maxIterations = 300000ULL;
			if(cache < 0) bin.precomputeKernel() = true; else bin.setCacheSize((std::size_t)cache);
			KernelClassifier<RealVector> bsvm; bin.train(bsvm, bd);
			RealMatrix const& B = bsvm.decisionFunction().alpha();
			for(std::size_t i = 0; same && i != A.size1(); ++i) same = A(i,c) == B(i,0);
			if(bias) same = same && svm.decisionFunction().offset()(c) == bsvm.decisionFunction().offset()(0);
		}
		if(!same) orc << " !oracle ova-not-binary-per-class";
		os << " path=ova";
	}
	else{
		// raw dual variables: the same private solve the trainer runs, then independent oracles
		bool sumToZero = !(type == McSvm::WW || type == McSvm::CS || type == McSvm::ReinforcedSvm);
		bool simplex = type == McSvm::CS || type == McSvm::ATM || type == McSvm::ADM || type == McSvm::MMR;
		QpSparseArray<double> nu, M;
		if(type == McSvm::WW || type == McSvm::CS) trainer.setupMcParametersWWCS(nu, M, classes);
		else if(type == McSvm::LLW || type == McSvm::ADM) trainer.setupMcParametersADMLLW(nu, M, classes);
		else if(type == McSvm::MMR) trainer.setupMcParametersMMR(nu, M, classes);
		else trainer.setupMcParametersATMATS(nu, M, classes);
		std::size_t P = M.width();
		RealMatrix linear(W.n, P, 1.0);
		if(type == McSvm::ReinforcedSvm) for(std::size_t i = 0; i != W.n; ++i) linear(i, ys[i]) = classes - 1.0;
		RealMatrix alpha(W.n, P, 0.0); RealVector b(classes, 0.0);
		if(simplex) trainer.solveMcSimplex(sumToZero, nu, M, linear, alpha, b, data);
		else trainer.solveMcBox(sumToZero, nu, M, linear, alpha, b, data);
		// (1) constraints
		double slack = 1e-12 * C;
		for(std::size_t i = 0; i != W.n; ++i){
			double s = 0;
			for(std::size_t p = 0; p != P; ++p){
				double a = alpha(i,p); s += a;
				// box solver: clipping is exact; simplex solver: the upper bound is C - varsum + alpha with an accumulated
				// varsum, so alpha may exceed C by a few ulps (observed: 2.0000000000000004 for C = 2): same slack as for the sum
				if(a < 0 || a > C + (simplex ? slack * P : 0.0)) orc << " !oracle box-constraint i=" << i << " p=" << p << " a=" << g17(a);
			}
			if(simplex && s > C + slack * P) orc << " !oracle simplex-constraint i=" << i << " sum=" << g17(s);
		}
		// (2) alpha -> decision function map: A(i,c) = sum_p nu(P*y_i+p, c) alpha(i,p)
		bool mapok = A.size1() == W.n && A.size2() == classes;
		for(std::size_t i = 0; mapok && i != W.n; ++i) for(std::size_t c = 0; c != classes; ++c){
			double sum = 0; for(std::size_t p = 0; p != P; ++p) sum += sparseAt(nu, P * ys[i] + p, c) * alpha(i,p);
			if(sum != A(i,c)) mapok = false;
		}
		if(!mapok) orc << " !oracle decision-map";
		if(bias) for(std::size_t c = 0; c != classes; ++c) if(b(c) != svm.decisionFunction().offset()(c)) orc << " !oracle bias-copy";
		// (3) independently recomputed gradient and KKT violation (plain loops, own kernel evaluations)
		double viol = 0, obj = 0;
		for(std::size_t i = 0; i != W.n; ++i){
			double s = 0; for(std::size_t p = 0; p != P; ++p) s += alpha(i,p);
			double up = -1e100, down = 1e100;
			for(std::size_t p = 0; p != P; ++p){
				double g = linear(i,p);
				for(std::size_t c = 0; c != classes; ++c) g -= sparseAt(nu, P * ys[i] + p, c) * b(c);
				double lin_ip = g;
				for(std::size_t j = 0; j != W.n; ++j){
					double kij = kernel->eval(xs[i], xs[j]);
					for(std::size_t q = 0; q != P; ++q)
						g -= sparseAt(M, classes * (ys[i] * P + p) + ys[j], q) * kij * alpha(j,q);
				}
				obj += 0.5 * (g + lin_ip) * alpha(i,p);
				double a = alpha(i,p);
				if(!simplex){
					if(a < C) viol = std::max(viol, g);
					if(a > 0) viol = std::max(viol, -g);
				}else{
					up = std::max(up, g);
					if(a > 0) down = std::min(down, g);
				}
			}
			if(simplex){
				viol = std::max(viol, -down);
				if(s < C - slack * P) viol = std::max(viol, up); else viol = std::max(viol, up - down);
			}
		}
		os << " path=mc fam=" << ((type == McSvm::WW || type == McSvm::CS) ? "WWCS" : (type == McSvm::LLW || type == McSvm::ADM) ? "ADMLLW" : type == McSvm::MMR ? "MMR" : "ATMATS")
		   << " stz=" << (sumToZero ? 1 : 0) << " simplex=" << (simplex ? 1 : 0) << " P=" << P << " kkt=" << g17(viol) << " obj=" << g17(obj) << " bias=";
		for(std::size_t c = 0; c != classes; ++c) os << (c ? "," : "") << g17(b(c));
		os << " alpha=";
		{
			std::vector<std::size_t> inv(W.n); for(std::size_t i = 0; i != W.n; ++i) inv[perm[i]] = i;
			for(std::size_t o = 0; o != W.n; ++o) for(std::size_t p = 0; p != P; ++p) os << (o + p ? "," : "") << g17(alpha(inv[o], p));
		}
	}
	return os.str() + orc.str();
}


// retrain F bias shrink cache C eps kernel cls : RE-USE of a model object.  The same KernelClassifier is trained on the
// k-class data (k > 2, formulation F) and then, with the same trainer settings and kernel object, on the two-class problem
// "class cls against the rest" over the SAME input container.  The second training must not depend on the history of
// the model object: it has to give exactly what a fresh model gives (a k-column coefficient matrix is not a warm start
// for the binary machine).  Also the other direction: a model trained on two-class data and then on the k-class data.
static std::string doRetrain(std::vector<std::string> const& t){
	if(t.size() != 9 || W.n == 0) return "bad-op";
	bool ok; McSvm type = parseType(t[1], ok); if(!ok) return "bad-op";
	bool bias = t[2] == "1", shrink = t[3] == "1";
	long cache = std::stol(t[4]);
	double C = std::stod(t[5]), eps = std::stod(t[6]);
	std::string kern = t[7];
	unsigned int cls = (unsigned int)std::stoul(t[8]);
	std::ostringstream os, orc;
	ClassificationDataset data = createLabeledDataFromRange(W.x, W.y, 256);
	std::size_t classes = numberOfClasses(data);
	if(classes < 3 || cls >= classes) return "bad-op";
	LinearKernel<RealVector> lin;
	PolynomialKernel<RealVector> poly(2, 1.0);
	GaussianRbfKernel<RealVector> rbf(0.125);
	AbstractKernelFunction<RealVector>* kernel = kern == "poly" ? (AbstractKernelFunction<RealVector>*)&poly
		: kern == "rbf" ? (AbstractKernelFunction<RealVector>*)&rbf : (AbstractKernelFunction<RealVector>*)&lin;
	CSvmTrainer<RealVector, double> trainer(kernel, C, bias);
	trainer.setMcSvmType(type);
	trainer.sparsify() = false;
	trainer.shrinking() = shrink;
	trainer.stoppingCondition().minAccuracy = eps;
	trainer.stoppingCondition().maxIterations = 300000ULL;
	if(cache < 0) trainer.precomputeKernel() = true; else trainer.setCacheSize((std::size_t)cache);
	ClassificationDataset two = oneVersusRestProblem(data, cls);
	// (a) k classes first, then two classes, same model object
	KernelClassifier<RealVector> reused, fresh;
	trainer.train(reused, data);
	std::size_t outK = reused.decisionFunction().outputShape().numElements();
	trainer.train(reused, two);
	trainer.train(fresh, two);
	std::size_t out2 = reused.decisionFunction().outputShape().numElements();
	RealMatrix const& A = reused.decisionFunction().alpha();
	RealMatrix const& B = fresh.decisionFunction().alpha();
	bool same = A.size1() == B.size1() && A.size2() == B.size2() && B.size2() == 1;
	for(std::size_t i = 0; same && i != A.size1(); ++i) same = A(i,0) == B(i,0);
	if(same && bias) same = reused.decisionFunction().offset().size() == 1 && reused.decisionFunction().offset()(0) == fresh.decisionFunction().offset()(0);
	std::size_t wrong = 0;
	for(std::size_t i = 0; i != W.n; ++i) if(reused(W.x[i]) != fresh(W.x[i])) ++wrong;
	if(!same || out2 != 1 || wrong) orc << " !oracle model-reuse-two-class-after-multiclass";
	// (b) two classes first, then k classes
	KernelClassifier<RealVector> reused2, fresh2;
	trainer.train(reused2, two);
	trainer.train(reused2, data);
	trainer.train(fresh2, data);
	RealMatrix const& A2 = reused2.decisionFunction().alpha();
	RealMatrix const& B2 = fresh2.decisionFunction().alpha();
	bool same2 = A2.size1() == B2.size1() && A2.size2() == B2.size2();
	for(std::size_t i = 0; same2 && i != A2.size1(); ++i) for(std::size_t c = 0; same2 && c != A2.size2(); ++c) same2 = A2(i,c) == B2(i,c);
	if(!same2) orc << " !oracle model-reuse-multiclass-after-two-class";
	os << "retrain classes=" << classes << " outputsK=" << outK << " outputs2=" << out2 << " differing_predictions=" << wrong;
	return os.str() + orc.str();
}

// ltrain F bias C eps perm batch seed : the dedicated linear solvers (QpBoxLinear / QpMcLinear*) via LinearCSvmTrainer
static std::string doLinearTrain(std::vector<std::string> const& t){
	if(t.size() != 8 || W.n == 0) return "bad-op";
	bool ok; McSvm type = parseType(t[1], ok); if(!ok) return "bad-op";
	bool bias = t[2] == "1";
	double C = std::stod(t[3]), eps = std::stod(t[4]);
	std::uint64_t permMode = std::stoull(t[5]);
	std::size_t batch = std::stoul(t[6]);
	unsigned seed = (unsigned)std::stoul(t[7]);
	std::ostringstream os, orc;
	std::vector<std::size_t> perm = makePerm(W.n, permMode);
	std::vector<RealVector> xs(W.n); std::vector<unsigned int> ys(W.n);
	for(std::size_t i = 0; i != W.n; ++i){ xs[i] = W.x[perm[i]]; ys[i] = W.y[perm[i]]; }
	ClassificationDataset data = createLabeledDataFromRange(xs, ys, batch);
	std::size_t classes = numberOfClasses(data);
	random::globalRng.seed(seed);
	LinearCSvmTrainer<RealVector> trainer(C, bias);
	trainer.setMcSvmType(type);
	trainer.stoppingCondition().minAccuracy = eps;
	trainer.stoppingCondition().maxIterations = 200000000ULL;
	LinearClassifier<RealVector> model;
	trainer.train(model, data);
	QpSolutionProperties prop = trainer.solutionProperties();
	os << "ltrain classes=" << classes << " iters=" << prop.iterations << " stop=" << (int)prop.type
	   << " acc=" << g17(prop.accuracy) << " value=" << g17(prop.value) << " dec=";
	for(std::size_t j = 0; j != W.m; ++j){
		RealVector f = model.decisionFunction()(W.probes[j]);
		for(std::size_t c = 0; c != f.size(); ++c) os << (j + c ? "," : "") << g17(f(c));
	}
	os << " tdec=";
	for(std::size_t o = 0; o != W.n; ++o){
		RealVector f = model.decisionFunction()(W.x[o]);
		for(std::size_t c = 0; c != f.size(); ++c) os << (o + c ? "," : "") << g17(f(c));
	}
	// primal objective 1/2 |w|^2 (the loss part depends on the formulation; compared through the duals)
	RealMatrix const& w = model.decisionFunction().matrix();
	double nrm = 0; for(std::size_t a = 0; a != w.size1(); ++a) for(std::size_t b = 0; b != w.size2(); ++b) nrm += w(a,b) * w(a,b);
	os << " wnorm2=" << g17(nrm);
	if(prop.type != QpAccuracyReached && type != McSvm::OVA && !(bias && classes == 2)) orc << " !oracle linear-solver-did-not-reach-accuracy";
	return os.str() + orc.str();
}


// ---------------------------------------------------------------------------------------------
// QpBoxLinear coordinate sweeps: `lnew`, `lsweep`  (model: Model/McLinear.lean)
// ---------------------------------------------------------------------------------------------
struct LinProbe: public QpBoxLinear<RealVector>{
	LinProbe(ClassificationDataset const& d, std::size_t dim): QpBoxLinear<RealVector>(d, dim){}
	RealVector const& alphaVec() const{ return this->m_alpha; }
	RealVector const& weights() const{ return this->m_weights; }
};
struct LinSession{
	ClassificationDataset data;
	std::unique_ptr<LinProbe> solver;
	double bound = 1, reg = 0, offset = 0;
	bool exact = true;
} LS;

static std::string linDump(){
	std::ostringstream os;
	os << "A=[";
	for(std::size_t i = 0; i != W.n; ++i) os << (i ? "," : "") << bits(LS.solver->alphaVec()(i));
	os << "] W=[";
	for(std::size_t k = 0; k != W.d; ++k) os << (k ? "," : "") << bits(LS.solver->weights()(k));
	os << "]";
	return os.str();
}
static std::string linOracle(){
	std::ostringstream os;
	for(std::size_t i = 0; i != W.n; ++i){ double a = LS.solver->alphaVec()(i); if(!(a >= 0 && a <= LS.bound)){ os << " !oracle linear-box i=" << i; break; } }
	for(std::size_t k = 0; k != W.d; ++k){
		double w = 0, scale = 0;
		for(std::size_t i = 0; i != W.n; ++i){ double t = LS.solver->alphaVec()(i) * (W.y[i] > 0 ? 1.0 : -1.0) * W.x[i](k); w += t; scale += std::fabs(t); }
		if(std::fabs(w - LS.solver->weights()(k)) > 1e-9 * (1 + scale)){ os << " !oracle linear-w-inconsistent k=" << k; break; }
	}
	return os.str();
}
static double shiftv(long long num, long long sh){ return std::ldexp((double)num, -(int)sh); }

static std::string doLinOp(std::vector<std::string> const& t){
	std::vector<long long> a;
	for(std::size_t i = 1; i < t.size(); ++i){ char* e = 0; long long v = std::strtoll(t[i].c_str(), &e, 10); if(*e) return "bad-op"; a.push_back(v); }
	if(t[0] == "lnew"){
		if(a.size() != 7 || W.n == 0 || W.k != 2) return "bad-op";
		LS.bound = shiftv(a[0], a[1]); LS.reg = shiftv(a[2], a[3]); LS.offset = shiftv(a[4], a[5]);
		LS.data = createLabeledDataFromRange(W.x, W.y, (std::size_t)a[6]);
		std::feclearexcept(FE_ALL_EXCEPT);
		LS.solver.reset(new LinProbe(LS.data, W.d));
		LS.solver->setOffset(LS.offset);
		LS.exact = std::fetestexcept(FE_INEXACT) == 0;
		return linDump() + " #x=" + (LS.exact ? "1" : "0") + linOracle();
	}
	if(t[0] == "lsweep"){
		if(a.empty() || !LS.solver) return "bad-op";
		std::size_t ell = W.n;
		unsigned seed = (unsigned)a[0];
		// the schedule the solver is going to use in its first epoch (all preferences are 1): same calls on the same RNG state
		random::globalRng.seed(seed);
		std::vector<std::size_t> sched(ell);
		{
			double psum = (double)ell; std::size_t pos = 0;
			for(std::size_t i = 0; i < ell; i++){
				double p = 1.0;
				double num = (psum < 1e-6) ? ell - pos : std::min((double)(ell - pos), (ell - pos) * p / psum);
				std::size_t n = (std::size_t)std::floor(num);
				double prob = num - n;
				if(random::coinToss(random::globalRng, prob)) n++;
				for(std::size_t j = 0; j < n && pos < ell; j++){ sched[pos] = i; pos++; }
				psum -= p;
			}
			std::shuffle(sched.begin(), sched.end(), random::globalRng);
		}
		std::ostringstream so; for(std::size_t j = 0; j != ell; ++j) so << (j ? "." : "") << sched[j];
		std::string orc;
		if(a.size() > 1){
			bool same = a.size() == 1 + ell;
			for(std::size_t j = 0; same && j != ell; ++j) same = (std::size_t)a[1 + j] == sched[j];
			if(!same) orc += " !oracle schedule-not-reproducible";
		}
		random::globalRng.seed(seed);
		QpStoppingCondition stop; stop.minAccuracy = 0.0; stop.maxIterations = ell;     // exactly one epoch
		QpSolutionProperties prop;
		std::feclearexcept(FE_ALL_EXCEPT);
		LS.solver->solve(LS.bound, LS.reg, stop, &prop);
		// (the statistics block of solve() and the Timer are inexact by themselves: the flag is only meaningful
		//  together with the schedule check; exactness of the sweep itself is judged by the driver: Rat = Float)
		return linDump() + " #sched=" + so.str() + orc + linOracle();
	}
	return "bad-op";
}

// tables for the decomposition-level harness (c16s.cpp): F in {WWCS, ATMATS, ADMLLW, MMR}
void c16MakeTables(std::string const& f, std::size_t c, QpSparseArray<double>& nu, QpSparseArray<double>& M){
	LinearKernel<RealVector> kernel;
	CSvmTrainer<RealVector, double> trainer(&kernel, 1.0, false);
	if(f == "WWCS") trainer.setupMcParametersWWCS(nu, M, c);
	else if(f == "ATMATS") trainer.setupMcParametersATMATS(nu, M, c);
	else if(f == "ADMLLW") trainer.setupMcParametersADMLLW(nu, M, c);
	else if(f == "MMR") trainer.setupMcParametersMMR(nu, M, c);
	else throw std::runtime_error("unknown table family");
}
bool c16BoxOp(std::vector<std::string> const& t, std::string& out);
bool c16SimplexOp(std::vector<std::string> const& t, std::string& out);      // c16x.cpp
bool c16McLinOp(std::vector<std::string> const& t, std::string& out);        // c16l.cpp
bool c16EpochOp(std::vector<std::string> const& t, std::string& out);        // c16e.cpp (must see `mldata` first; returns false for it)

int main(int argc, char** argv){
	std::string line;
	while(std::getline(std::cin, line)){
		std::vector<std::string> t = vh::tokens(line);
		if(t.empty()){ std::cout << "\n"; continue; }
		if((t[0] == "tables" || t[0] == "tablesq") && t.size() == 3){
			std::cout << doTables(t[1], std::stoul(t[2]), t[0] == "tablesq") << "\n";
		}else if(t[0] == "tablesf" && t.size() == 3){
			std::cout << doTablesF(t[1], std::stoul(t[2])) << "\n";
		}else if(t[0] == "data" && t.size() >= 4){
			std::vector<std::size_t> a;
			if(!vh::allNat(t, 1, a) || a.size() != 3 + a[0]*a[1] + a[0]){ std::cout << "bad-op\n"; continue; }
			W.n = a[0]; W.d = a[1]; W.k = a[2]; W.x.assign(W.n, RealVector(W.d)); W.y.assign(W.n, 0);
			for(std::size_t i = 0; i != W.n; ++i) for(std::size_t j = 0; j != W.d; ++j) W.x[i](j) = (double)a[3 + i*W.d + j] - 8.0;
			for(std::size_t i = 0; i != W.n; ++i) W.y[i] = (unsigned int)a[3 + W.n*W.d + i];
			std::cout << "data n=" << W.n << " d=" << W.d << "\n";
		}else if(t[0] == "probes" && t.size() >= 2){
			std::vector<std::size_t> a;
			if(!vh::allNat(t, 1, a) || a.size() != 1 + a[0]*W.d){ std::cout << "bad-op\n"; continue; }
			W.m = a[0]; W.probes.assign(W.m, RealVector(W.d));
			for(std::size_t i = 0; i != W.m; ++i) for(std::size_t j = 0; j != W.d; ++j) W.probes[i](j) = (double)a[1 + i*W.d + j] - 8.0;
			std::cout << "probes m=" << W.m << "\n";
		}else if(t[0] == "train"){
			std::cout << doTrain(t) << std::endl;
		}else if(t[0] == "retrain"){
			std::cout << doRetrain(t) << std::endl;
		}else if(t[0] == "lnew" || t[0] == "lsweep"){
			std::cout << doLinOp(t) << std::endl;
		}else if(t[0] == "ltrain"){
			std::cout << doLinearTrain(t) << std::endl;
		}else{
			std::string out;
			if(c16EpochOp(t, out)) std::cout << out << std::endl;
			else if(c16McLinOp(t, out)) std::cout << out << std::endl;
			else if(c16SimplexOp(t, out)) std::cout << out << std::endl;
			else if(c16BoxOp(t, out)) std::cout << out << std::endl;
			else std::cout << "bad-op\n";
		}
	}
	return 0;
}
