// K-C16 (part 1): CSvmTrainer-level harness.
//  * `tables <F>_<A> <c>` / `tablesq <F>_<A> <c>`: dump of the QpSparseArrays built by the
//    real CSvmTrainer::setupMcParameters{WWCS,ATMATS,ADMLLW,MMR} (private members, reached
//    in this TU only) for the entry-wise comparison with Gen/McTables.lean
//    (bit patterns of the doubles / exact rationals).
//  * `train ...`: see below (trainer-level configuration sweeps; oracle only, no model line).
// All of CSvmTrainer.h's dependencies are included first, so that the access
// override touches nothing but CSvmTrainer.h itself.
#include <shark/Algorithms/Trainers/AbstractSvmTrainer.h>
#include <shark/Algorithms/Trainers/AbstractWeightedTrainer.h>
#include <shark/Algorithms/QP/BoxConstrainedProblems.h>
#include <shark/Algorithms/QP/SvmProblems.h>
#include <shark/Algorithms/QP/QpBoxLinear.h>
#include <shark/LinAlg/CachedMatrix.h>
#include <shark/LinAlg/GaussianKernelMatrix.h>
#include <shark/LinAlg/KernelMatrix.h>
#include <shark/LinAlg/PrecomputedMatrix.h>
#include <shark/LinAlg/RegularizedKernelMatrix.h>
#include <shark/Models/Kernels/GaussianRbfKernel.h>
#include <shark/Models/Kernels/LinearKernel.h>
#include <shark/Algorithms/QP/QpMcSimplexDecomp.h>
#include <shark/Algorithms/QP/QpMcBoxDecomp.h>
#include <shark/Algorithms/QP/QpMcLinear.h>
#define private public
#include <shark/Algorithms/Trainers/CSvmTrainer.h>
#undef private
#include "common.hpp"
#include <cfenv>
#include <cstring>

using namespace shark;

static std::string bits(double x){
	std::uint64_t u; std::memcpy(&u, &x, sizeof u);
	std::ostringstream os; os << u; return os.str();
}
// exact rational "num/den" (lowest terms) of a finite double
static std::string rational(double x){
	if(x == 0) return "0/1";
	int e; double m = std::frexp(x, &e);
	long long mi = (long long)std::ldexp(m, 53); e -= 53;
	while(mi % 2 == 0){ mi /= 2; ++e; }
	std::ostringstream os;
	if(e >= 0){ if(e > 40) return "big"; os << mi * (1LL << e) << "/1"; }
	else { if(-e > 62) return "tiny"; os << mi << "/" << (1LL << (-e)); }
	return os.str();
}

// QpSparseArray's bookkeeping members are protected: read them through member pointers
template<class Q>
struct Peek: public QpSparseArray<Q>{
	static std::size_t used(QpSparseArray<Q> const& a){ return a.*(&Peek::m_used); }
	static std::size_t space(QpSparseArray<Q> const& a){ return (a.*(&Peek::m_data)).size(); }
};

template<class Q>
static std::string dumpSparse(QpSparseArray<Q> const& a, bool asRational){
	std::ostringstream os;
	os << "h=" << a.height() << " w=" << a.width() << " space=" << Peek<Q>::space(a) << " used=" << Peek<Q>::used(a) << " rows=";
	for(std::size_t r = 0; r != a.height(); ++r){
		typename QpSparseArray<Q>::Row const& row = a.row(r);
		os << (asRational ? rational(row.defaultvalue) : bits(row.defaultvalue)) << ":";
		for(std::size_t b = 0; b != row.size; ++b)
			os << (b ? "," : "") << row.entry[b].index << "=" << (asRational ? rational(row.entry[b].value) : bits(row.entry[b].value));
		os << ";";
	}
	return os.str();
}


static std::string doTables(std::string const& name, std::size_t c, bool asRational){
	LinearKernel<RealVector> kernel;
	CSvmTrainer<RealVector, double> trainer(&kernel, 1.0, false);
	QpSparseArray<double> nu, M;
	std::feclearexcept(FE_ALL_EXCEPT);
	if(name.compare(0, 5, "WWCS_") == 0) trainer.setupMcParametersWWCS(nu, M, c);
	else if(name.compare(0, 7, "ATMATS_") == 0) trainer.setupMcParametersATMATS(nu, M, c);
	else if(name.compare(0, 7, "ADMLLW_") == 0) trainer.setupMcParametersADMLLW(nu, M, c);
	else if(name.compare(0, 4, "MMR_") == 0) trainer.setupMcParametersMMR(nu, M, c);
	else return "bad-op";
	bool inexact = std::fetestexcept(FE_INEXACT) != 0;
	bool isNu = name.size() >= 3 && name.substr(name.size() - 3) == "_nu";
	std::string r = dumpSparse(isNu ? nu : M, asRational);
	// oracle: the number of added entries never exceeds the reserved space (add() does not check under NDEBUG)
	QpSparseArray<double> const& a = isNu ? nu : M;
	if(Peek<double>::used(a) > Peek<double>::space(a)) r += " !oracle sparse-array-overflow";
	if(asRational && inexact) r += " !oracle inexact-table-construction";
	return r;
}

int main(int argc, char** argv){
	std::string line;
	while(std::getline(std::cin, line)){
		std::vector<std::string> t = vh::tokens(line);
		if(t.empty()){ std::cout << "\n"; continue; }
		if((t[0] == "tables" || t[0] == "tablesq") && t.size() == 3){
			std::cout << doTables(t[1], std::stoul(t[2]), t[0] == "tablesq") << "\n";
		}else std::cout << "bad-op\n";
	}
	return 0;
}
