// C16 harness, part 4: the EPOCH LOOP of the linear multi-class solvers, QpMcLinear<InputT>::solve
// (include/shark/Algorithms/QP/QpMcLinear.h), strategy ACF, shrinking off (what LinearCSvmTrainer::trainMc uses:
// `Solver solver(dataset, dim, classes); solver.solve(random::globalRng, C, stoppingCondition(), &solutionProperties())`).
// Model: lean/SharkVerif/Model/McLinearEpoch.lean; driver part: lean/Driver/C16E.lean.
//
//   mldata n d k <coords+8 (n*d)> <labels (n)>      observed silently here (c16EpochOp returns false; c16l.cpp answers)
//   mlrun F Cnum Cshift epsnum epsshift maxiter seed [| <trace tokens, ignored here>]
//   mlrunx ... (same arguments)    the replica alone, with the LAST uni draw of every epoch replaced by the largest double
//                                  below 1 (a value std::uniform_real_distribution can return): exercises `pos < ell`
//                                  (rounding drift of prefsum), where the tail of `schedule` keeps the previous epoch's
//                                  entries; not validated against the real solve() (different random stream)
//       → ep=<epochs> stop=<QpStopType> it=<prop.iterations> acc=<bits> val=<bits> avg=<bits> psum=<bits>
//         W=[bits..] P=[bits of the final preferences..] V=[bits of max_violation per epoch..] CS=[canstop at the start of each epoch]
//         #x=1|0 #finalkkt=<value> #short=<epochs with pos<ell> #trace=<...> [ !oracle <tag>]
//
// The real solve() is monolithic and draws random numbers.  `replica()` below executes the statements of solve()
// in the same order with the same floating-point expressions, calling the REAL protected virtuals (calcGradient,
// solveSub, updateWeightVectors) of the real solver classes through a Probe subclass, and RECORDS per epoch the
// `random::uni` draws, the schedule before and after std::shuffle, max_violation and canstop.  (Not replicated: the
// Timer / maxSeconds test — maxSeconds is left at its default 1e100 — and `verbose` output.)
// On every op the replica is validated against the real `solve(rng, C, stop, &prop)` run from an identically
// seeded rng_type: returned w, prop.value, prop.iterations, prop.type, prop.accuracy must be bitwise identical,
// else ` !oracle epoch-replica-differs`.  That makes the replica a trusted observer of the real run.
//
// Independent oracles:
//   epoch-replica-differs     see above
//   epoch-schedule-malformed  after the schedule construction of some epoch `pos != ell` or an entry is >= ell
//                             (the C++ asserts pos == ell in debug mode only; entries beyond pos keep stale values)
//   epoch-schedule-overflow   `schedule[pos] = i` with pos >= ell (write suppressed in the replica)
// Informational side channels (NOT oracles):
//   #finalkkt   after QpAccuracyReached: max over all examples of the KKT violation recomputed from the FINAL w, alpha
//               with the real calcGradient (the stopping rule bounds the violations AT VISIT TIME only)
//   #x=1        no floating-point exception during the replica (RNG draws excluded) and at most 3 epochs:
//               the Rat model must agree exactly
#include <shark/Algorithms/QP/QpMcLinear.h>
#include <shark/Algorithms/QP/QuadraticProgram.h>
#include <shark/Data/Dataset.h>
#include <shark/Core/Random.h>
#include "common.hpp"
#include <cfenv>
#include <cstring>
#include <memory>
#include <algorithm>
using namespace shark;

namespace {

typedef LabeledData<RealVector, unsigned int> EpDataset;

std::string ebits(double x){
	std::uint64_t u; std::memcpy(&u, &x, sizeof u);
	std::ostringstream os; os << u; return os.str();
}
double eshift(long long num, long long sh){ return std::ldexp((double)num, -(int)sh); }

struct EpochRec{
	std::vector<double> draws;
	std::vector<std::size_t> before, after;
	std::size_t pos = 0;
	double maxViolation = 0;
	bool canstop = false;
};
struct EpTrace{
	std::vector<EpochRec> epochs;
	RealMatrix alpha;
	RealVector pref;
	double prefsum = 0, averageGain = 0;
	bool overflow = false, exact = true;
};

struct EpProbeBase{
	virtual ~EpProbeBase(){}
	virtual RealMatrix realSolve(random::rng_type& rng, double C, QpStoppingCondition& stop, QpSolutionProperties& prop) = 0;
	virtual RealMatrix replica(random::rng_type& rng, double C, QpStoppingCondition& stop, QpSolutionProperties* prop, EpTrace& tr, bool forceLast) = 0;
	virtual double finalKkt(RealMatrix const& w, RealMatrix const& alpha, double C) = 0;
};

template<class Solver>
struct EpProbe: public Solver, public EpProbeBase{
	typedef typename Solver::InputReferenceType InputReferenceType;
	using Solver::m_data; using Solver::m_xSquared; using Solver::m_dim; using Solver::m_classes;
	using Solver::m_strategy; using Solver::m_shrinking;
	enum {ACF = Solver::ACF, UNIFORM = Solver::UNIFORM};
	EpProbe(EpDataset const& data, std::size_t dim, std::size_t classes): Solver(data, dim, classes){}

	RealMatrix realSolve(random::rng_type& rng, double C, QpStoppingCondition& stop, QpSolutionProperties& prop){
		return this->solve(rng, C, stop, &prop);
	}

	// ---- the statements of QpMcLinear::solve (lines 110-339), plus recording (marked `// REC`) ----
	// forceLast (op mlrunx only): the LAST draw of every epoch is replaced by the largest double below 1
	RealMatrix replica(random::rng_type& rng, double C, QpStoppingCondition& stop, QpSolutionProperties* prop, EpTrace& tr, bool forceLast){
		// prepare dimensions and vectors
		std::size_t ell = m_data.size();             // number of training examples
		RealMatrix alpha(ell, m_classes + 1, 0.0);   // Lagrange multipliers; dual variables. Reserve one extra column.
		RealMatrix w(m_classes, m_dim, 0.0);         // weight vectors; primal variables

		// scheduling of steps, for ACF only
		RealVector pref(ell, 1.0);                   // example-wise measure of success
		double prefsum = (double)ell;                // normalization constant

		std::vector<std::size_t> schedule(ell);
		if (m_strategy == UNIFORM)
		{
			for (std::size_t i=0; i<ell; i++) schedule[i] = i;
		}

		// used for shrinking
		std::size_t active = ell;

		// prepare counters
		std::size_t epoch = 0;
		std::size_t steps = 0;

		// prepare performance monitoring
		double objective = 0.0;
		double max_violation = 0.0;

		// gain for ACF
		const double gain_learning_rate = 1.0 / ell;
		double average_gain = 0.0;

		std::feclearexcept(FE_ALL_EXCEPT);           // REC

		// outer optimization loop (epochs)
		bool canstop = true;
		while (true)
		{
			EpochRec rec; rec.canstop = canstop;     // REC
			if (m_strategy == ACF)
			{
				// define schedule
				double psum = prefsum;
				prefsum = 0.0;
				std::size_t pos = 0;
				for (std::size_t i=0; i<ell; i++)
				{
					double p = pref(i);
					double num = (psum < 1e-6) ? ell - pos : std::min((double)(ell - pos), (ell - pos) * p / psum);
					std::size_t n = (std::size_t)std::floor(num);
					double prob = num - n;
					std::fexcept_t fl; std::fegetexceptflag(&fl, FE_ALL_EXCEPT);      // REC (the RNG rounds)
					double u = random::uni(rng);                                        // REC
					if (forceLast && i + 1 == ell) u = std::nextafter(1.0, 0.0);        // REC (mlrunx only)
					std::fesetexceptflag(&fl, FE_ALL_EXCEPT);                          // REC
					rec.draws.push_back(u);                                             // REC
					if (u < prob) n++;
					for (std::size_t j=0; j<n; j++)
					{
						if (pos >= ell){ tr.overflow = true; pos++; continue; }        // REC (guard; never taken, see Lemmas/McLinearEpoch.lean)
						schedule[pos] = i;
						pos++;
					}
					psum -= p;
					prefsum += p;
				}
				rec.pos = pos;                        // REC   (SHARK_ASSERT(pos == ell) is compiled out)
			}
			rec.before = schedule;                    // REC

			{
				std::fexcept_t fl; std::fegetexceptflag(&fl, FE_ALL_EXCEPT);          // REC
				if (m_shrinking == true)
				{
					std::shuffle(schedule.begin(),schedule.begin()+active,rng);
				}
				else
				{
					std::shuffle(schedule.begin(),schedule.end(),rng);
				}
				std::fesetexceptflag(&fl, FE_ALL_EXCEPT);                              // REC
			}
			rec.after = schedule;                     // REC

			// inner loop (one epoch)
			max_violation = 0.0;
			size_t nPoints = ell;
			if (m_shrinking == true)
				nPoints = active;

			for (std::size_t j=0; j<nPoints; j++)
			{
				// active example
				double gain = 0.0;
				const std::size_t i = schedule[j];
				InputReferenceType x_i = m_data[i].input;
				const unsigned int y_i = m_data[i].label;
				const double q = m_xSquared(i);
				blas::dense_vector_adaptor<double> a = row(alpha, i);

				// compute gradient and KKT violation
				RealVector wx = prod(w,x_i);
				RealVector g(m_classes);
				double kkt = this->calcGradient(g, wx, a, C, y_i);

				if (kkt > 0.0)
				{
					max_violation = std::max(max_violation, kkt);

					// perform the step on alpha
					RealVector mu(m_classes, 0.0);
					gain = this->solveSub(0.1 * stop.minAccuracy, g, q, C, y_i, a, mu);
					objective += gain;
					steps++;

					// update weight vectors
					this->updateWeightVectors(w, mu, i);
				}
				else if (m_shrinking == true)
				{
					active--;
					std::swap(schedule[j], schedule[active]);
					j--;
				}

				// update gain-based preferences
				if (m_strategy == ACF)
				{
					if (epoch == 0) average_gain += gain / (double)ell;
					else
					{
						// strategy constants
						constexpr double CHANGE_RATE = 0.2;
						constexpr double PREF_MIN = 0.05;
						constexpr double PREF_MAX = 20.0;

						double change = CHANGE_RATE * (gain / average_gain - 1.0);
						double newpref = std::min(PREF_MAX, std::max(PREF_MIN, pref(i) * std::exp(change)));
						prefsum += newpref - pref(i);
						pref(i) = newpref;
						average_gain = (1.0 - gain_learning_rate) * average_gain + gain_learning_rate * gain;
					}
				}
			}

			epoch++;
			rec.maxViolation = max_violation;         // REC
			tr.epochs.push_back(rec);                 // REC

			// stopping criteria
			if (stop.maxIterations > 0 && epoch * ell >= stop.maxIterations)
			{
				if (prop != NULL) prop->type = QpMaxIterationsReached;
				break;
			}

			// (Timer / stop.maxSeconds test omitted: maxSeconds = 1e100)

			if (max_violation < stop.minAccuracy)
			{
				if (canstop)
				{
					if (prop != NULL) prop->type = QpAccuracyReached;
					break;
				}
				else
				{
					if (m_strategy == ACF)
					{
						// prepare full sweep for a reliable checking of the stopping criterion
						canstop = true;
						for (std::size_t i=0; i<ell; i++) pref(i) = 1.0;
						prefsum = (double)ell;
					}

					if (m_shrinking == true)
					{
						// prepare full sweep for a reliable checking of the stopping criterion
						active = ell;
						canstop = true;
					}
				}
			}
			else
			{
				if (m_strategy == ACF)
					canstop = false;
				if (m_shrinking == true)
					canstop = (active == ell);
			}
		}
		tr.exact = std::fetestexcept(FE_INEXACT | FE_DIVBYZERO | FE_INVALID | FE_OVERFLOW | FE_UNDERFLOW) == 0;   // REC

		// calculate dual objective value
		objective = 0.0;
		for (std::size_t j=0; j<m_classes; j++)
		{
			for (std::size_t d=0; d<m_dim; d++) objective -= w(j, d) * w(j, d);
		}
		objective *= 0.5;
		for (std::size_t i=0; i<ell; i++)
		{
			for (std::size_t j=0; j<m_classes; j++) objective += alpha(i, j);
		}

		// return solution statistics
		if (prop != NULL)
		{
			prop->accuracy = max_violation;       // this is approximate, but a good guess
			prop->iterations = ell * epoch;
			prop->value = objective;
		}
		tr.alpha = alpha; tr.pref = pref; tr.prefsum = prefsum; tr.averageGain = average_gain;   // REC
		(void)steps;

		// return the solution
		return w;
	}

	// max_i of the KKT violation at (w, alpha), by the real calcGradient
	double finalKkt(RealMatrix const& w, RealMatrix const& alphaIn, double C){
		RealMatrix alpha = alphaIn;
		double worst = 0.0;
		for (std::size_t i=0; i<m_data.size(); i++)
		{
			InputReferenceType x_i = m_data[i].input;
			const unsigned int y_i = m_data[i].label;
			blas::dense_vector_adaptor<double> a = row(alpha, i);
			RealVector wx = prod(w,x_i);
			RealVector g(m_classes);
			double kkt = this->calcGradient(g, wx, a, C, y_i);
			if (kkt > worst) worst = kkt;
		}
		return worst;
	}
};

struct EpWorld{
	std::size_t n = 0, d = 0, k = 0;
	std::vector<RealVector> x;
	std::vector<unsigned int> y;
	EpDataset data;
} E;

EpProbeBase* makeEpProbe(std::string const& f){
	if(f == "WW") return new EpProbe<QpMcLinearWW<RealVector> >(E.data, E.d, E.k);
	if(f == "LLW") return new EpProbe<QpMcLinearLLW<RealVector> >(E.data, E.d, E.k);
	if(f == "ATS") return new EpProbe<QpMcLinearATS<RealVector> >(E.data, E.d, E.k);
	if(f == "MMR") return new EpProbe<QpMcLinearMMR<RealVector> >(E.data, E.d, E.k);
	if(f == "RS") return new EpProbe<QpMcLinearReinforced<RealVector> >(E.data, E.d, E.k);
	if(f == "CS") return new EpProbe<QpMcLinearCS<RealVector> >(E.data, E.d, E.k);
	if(f == "ATM") return new EpProbe<QpMcLinearATM<RealVector> >(E.data, E.d, E.k);
	if(f == "ADM") return new EpProbe<QpMcLinearADM<RealVector> >(E.data, E.d, E.k);
	return 0;
}

bool sameBits(double a, double b){ return std::memcmp(&a, &b, sizeof a) == 0; }

bool parseLLe(std::vector<std::string> const& t, std::size_t from, std::size_t to, std::vector<long long>& a){
	a.clear();
	for(std::size_t i = from; i < to; ++i){ char* e = 0; long long v = std::strtoll(t[i].c_str(), &e, 10); if(*e || t[i].empty()) return false; a.push_back(v); }
	return true;
}
}

bool c16EpochOp(std::vector<std::string> const& t, std::string& out){
	if(t.empty()) return false;
	std::string const& op = t[0];
	if(op == "mldata"){
		// observe the data set; the line is answered by c16McLinOp (c16l.cpp)
		std::vector<std::size_t> a;
		E.n = 0;
		if(!vh::allNat(t, 1, a) || a.size() < 3 || a.size() != 3 + a[0]*a[1] + a[0] || a[0] == 0 || a[1] == 0 || a[2] < 2) return false;
		for(std::size_t i = 0; i != a[0]; ++i) if(a[3 + a[0]*a[1] + i] >= a[2]) return false;
		E.n = a[0]; E.d = a[1]; E.k = a[2]; E.x.assign(E.n, RealVector(E.d)); E.y.assign(E.n, 0);
		for(std::size_t i = 0; i != E.n; ++i) for(std::size_t j = 0; j != E.d; ++j) E.x[i](j) = (double)a[3 + i*E.d + j] - 8.0;
		for(std::size_t i = 0; i != E.n; ++i) E.y[i] = (unsigned int)a[3 + E.n*E.d + i];
		return false;
	}
	if(op != "mlrun" && op != "mlrunx") return false;
	bool inject = (op == "mlrunx");
	out = "bad-op";
	std::size_t end = t.size();
	for(std::size_t i = 1; i < t.size(); ++i) if(t[i] == "|"){ end = i; break; }
	std::vector<long long> a;
	if(end != 8 || !parseLLe(t, 2, end, a) || a.size() != 6 || E.n == 0 || a[4] < 0) return true;
	std::string form = t[1];
	E.data = createLabeledDataFromRange(E.x, E.y, 3);      // several batches
	std::unique_ptr<EpProbeBase> real(makeEpProbe(form)), rep(makeEpProbe(form));
	if(!real) return true;
	double C = eshift(a[0], a[1]), eps = eshift(a[2], a[3]);
	if(!(C > 0.0)) return true;

	// the real solve()
	random::rng_type rng1; rng1.seed((unsigned)a[5]);
	QpStoppingCondition stop1; stop1.minAccuracy = eps; stop1.maxIterations = (unsigned long long)a[4];
	QpSolutionProperties prop1;
	RealMatrix w1 = real->realSolve(rng1, C, stop1, prop1);

	// the recording replica, same seed
	random::rng_type rng2; rng2.seed((unsigned)a[5]);
	QpStoppingCondition stop2; stop2.minAccuracy = eps; stop2.maxIterations = (unsigned long long)a[4];
	QpSolutionProperties prop2;
	EpTrace tr;
	RealMatrix w2 = rep->replica(rng2, C, stop2, &prop2, tr, inject);

	bool same = w1.size1() == w2.size1() && w1.size2() == w2.size2() && sameBits(prop1.value, prop2.value)
		&& prop1.iterations == prop2.iterations && prop1.type == prop2.type && sameBits(prop1.accuracy, prop2.accuracy)
		&& rng1 == rng2;                                  // and the same number of random numbers consumed
	if(same) for(std::size_t c = 0; c != w1.size1(); ++c) for(std::size_t k = 0; k != w1.size2(); ++k) if(!sameBits(w1(c, k), w2(c, k))) same = false;
	if(inject) same = true;                               // mlrunx: a different random stream by construction

	std::ostringstream os;
	os << "ep=" << tr.epochs.size() << " stop=" << (int)prop2.type << " it=" << prop2.iterations << " acc=" << ebits(prop2.accuracy)
	   << " val=" << ebits(prop2.value) << " avg=" << ebits(tr.averageGain) << " psum=" << ebits(tr.prefsum) << " W=[";
	for(std::size_t c = 0; c != E.k; ++c) for(std::size_t k = 0; k != E.d; ++k) os << ((c || k) ? "," : "") << ebits(w2(c, k));
	os << "] P=[";
	for(std::size_t i = 0; i != E.n; ++i) os << (i ? "," : "") << ebits(tr.pref(i));
	os << "] V=[";
	for(std::size_t e = 0; e != tr.epochs.size(); ++e) os << (e ? "," : "") << ebits(tr.epochs[e].maxViolation);
	os << "] CS=[";
	for(std::size_t e = 0; e != tr.epochs.size(); ++e) os << (tr.epochs[e].canstop ? "1" : "0");
	os << "]";
	os << " #x=" << ((tr.exact && tr.epochs.size() <= 3) ? "1" : "0");      // the driver runs the Rat instance on runs of <= 3 epochs
	if(prop2.type == QpAccuracyReached){
		std::ostringstream fk; fk.precision(17); fk << rep->finalKkt(w2, tr.alpha, C);
		os << " #finalkkt=" << fk.str() << " #finalkktbelow=" << (rep->finalKkt(w2, tr.alpha, C) < eps ? "1" : "0");
	}
	std::size_t shortEpochs = 0; bool malformed = false;
	for(EpochRec const& r: tr.epochs){
		if(r.pos < E.n) ++shortEpochs;
		if((r.pos != E.n && !inject) || r.pos > E.n || r.before.size() != E.n || r.after.size() != E.n) malformed = true;
		for(std::size_t v: r.before) if(v >= E.n) malformed = true;
		for(std::size_t v: r.after) if(v >= E.n) malformed = true;
		std::vector<std::size_t> b = r.before, c = r.after; std::sort(b.begin(), b.end()); std::sort(c.begin(), c.end());
		if(b != c) malformed = true;
	}
	os << " #short=" << shortEpochs;
	os << " #trace=";
	for(std::size_t e = 0; e != tr.epochs.size(); ++e){
		EpochRec const& r = tr.epochs[e];
		if(e) os << ";";
		for(std::size_t i = 0; i != r.draws.size(); ++i) os << (i ? "," : "") << ebits(r.draws[i]);
		os << "|";
		for(std::size_t i = 0; i != r.after.size(); ++i) os << (i ? "." : "") << r.after[i];
	}
	if(!same) os << " !oracle epoch-replica-differs";
	if(tr.overflow) os << " !oracle epoch-schedule-overflow";
	else if(malformed) os << " !oracle epoch-schedule-malformed";
	out = os.str();
	return true;
}

#ifdef C16E_STANDALONE
// test main (development only): answers mldata like c16l.cpp
int main(){
	std::string line;
	while(std::getline(std::cin, line)){
		std::vector<std::string> t = vh::tokens(line);
		if(t.empty()){ std::cout << "\n"; continue; }
		std::string out;
		if(c16EpochOp(t, out)) std::cout << out << std::endl;
		else if(t[0] == "mldata" && E.n) std::cout << "mldata n=" << E.n << " d=" << E.d << " k=" << E.k << std::endl;
		else std::cout << "bad-op" << std::endl;
	}
	return 0;
}
#endif
