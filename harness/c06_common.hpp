// shared helpers of harness/c06.cpp and harness/c06b.cpp
#ifndef VERIF_C06_COMMON_HPP
#define VERIF_C06_COMMON_HPP
#include <shark/LinAlg/Base.h>
#include "common.hpp"
using namespace shark;
inline bool parseDy(std::string const& t, double& out){
	std::size_t s = t.find('/');
	try{
		long long a = std::stoll(t.substr(0, s)); long long k = (s == std::string::npos) ? 0 : std::stoll(t.substr(s+1));
		out = std::ldexp((double)a, -(int)k); return true;
	}catch(...){ return false; }
}
inline std::vector<std::vector<std::string> > sections(std::string const& line){
	std::vector<std::vector<std::string> > r(1);
	for(std::string const& w: vh::tokens(line)){ if(w == "|") r.push_back(std::vector<std::string>()); else r.back().push_back(w); }
	return r;
}
inline bool nums(std::vector<std::string> const& t, std::vector<double>& o){ o.clear(); for(auto const& w: t){ double x; if(!parseDy(w, x)) return false; o.push_back(x); } return true; }
inline std::string showMat(RealMatrix const& g){
	std::string s;
	for(std::size_t i = 0; i != g.size1(); ++i){ if(i) s += ";"; for(std::size_t j = 0; j != g.size2(); ++j){ if(j) s += ","; s += vh::exactDouble(g(i,j)); } }
	return s;
}
inline std::string showVec(RealVector const& g){ std::string s; for(std::size_t j = 0; j != g.size(); ++j){ if(j) s += ","; s += vh::exactDouble(g(j)); } return s; }


typedef std::vector<std::vector<std::string> > Secs;
// ops implemented in c06b.cpp (ErrorFunction flavours, cost functions); returns false if the op is not one of them
bool c06b_dispatch(Secs const& secs, bool floatMode, std::string& out);
#endif
