// C09 compile probes (syntax only): member templates/functions of the anchored classes that no other
// harness instantiates.  A probe that does not compile is a finding (the member cannot be used at all).
#include <shark/Models/Kernels/LinearKernel.h>
#include <shark/Models/Kernels/EvalSkipMissingFeatures.h>
#include <shark/LinAlg/ExampleModifiedKernelMatrix.h>
#include <shark/LinAlg/KernelMatrix.h>
#include <shark/LinAlg/PrecomputedMatrix.h>
#include <shark/LinAlg/PartlyPrecomputedMatrix.h>
using namespace shark;
#ifdef PROBE_EXMOD_MATRIX
// ExampleModifiedKernelMatrix::matrix, and hence PrecomputedMatrix<ExampleModifiedKernelMatrix>
void probe(ExampleModifiedKernelMatrix<RealVector,double>& em){
	RealMatrix m(em.size(), em.size()); em.matrix(m);
	PrecomputedMatrix<ExampleModifiedKernelMatrix<RealVector,double> > pm(&em);
}
#endif
#ifdef PROBE_PARTLY_SIZE
// PartlyPrecomputedMatrix::size / getMaxCacheSize
std::size_t probe(PartlyPrecomputedMatrix<KernelMatrix<RealVector,double> >& pp){
	return pp.size() + pp.getMaxCacheSize();
}
#endif
#ifdef PROBE_EXMOD_HEADER
#error "unused"
#endif
int main(){ return 0; }
