// K-C03-scale: the directed SCALE family of property C03 (oracle only, no Lean driver at this size).
// The property quantifies over ALL element counts and ALL batch sizes; the random histories of harness/c03.cpp stay
// below ~100 elements.  This harness runs the same operations on datasets whose element i is the number i
// (LabeledData<unsigned,unsigned> / LabeledData<RealVector,unsigned>) with one batch of more than 2^16 elements and
// with more than 2^16 batches of size 1 (and around 2^16 +- 1), so that an index, position or size stored in a type
// narrower than std::size_t anywhere in Dataset.h / Impl/Dataset.inl / DataView.h wraps on a concrete input.
// After every op every slot is compared with a flat std::vector<(id,label)> kept beside it (O(n) per access path:
// batches by index, batches() range, elements() forwards and backwards (const and non-const), inputs()/labels()
// separately, getPartitioning; element(i) / begin()+i / view[i] are O(#batches) each and are therefore read at all
// positions only when n * #batches is small, else at the positions around every multiple of 2^16, at the batch
// borders around batch 2^16, at both ends and at 10 pseudo-random positions).  Slots an op does not name as a result
// are re-read batch by batch only (contents and partitioning unchanged).
// Line protocol as harness/c03.cpp: one op per line, one observation line per op, " !oracle <tag>" on failure.
//   index lists / size lists are given as segments:  lo:cnt:step (ascending)  lo:cnt:-step (descending)
//   ~seed:cnt:bound (pseudo-random below bound)  %a:cnt:m ((j*a) mod m)  and sizes as  size*count
#include <shark/Data/Dataset.h>
#include <shark/Data/DataView.h>
#include "common.hpp"
#include <algorithm>
#include <numeric>

using namespace shark;

typedef std::pair<std::size_t, unsigned> Elem;   // (id, label)
typedef std::vector<Elem> Flat;
static const std::size_t BAD = (std::size_t)-1;

template<class I> struct Codec;
template<> struct Codec<unsigned int>{
	static unsigned int enc(std::size_t id){ return (unsigned int)id; }
	template<class X> static std::size_t dec(X const& x){ return (std::size_t)(unsigned int)x; }
};
template<> struct Codec<RealVector>{
	static RealVector enc(std::size_t id){ RealVector v(2); v(0) = (double)id; v(1) = id + 0.5; return v; }
	template<class X> static std::size_t dec(X const& x){
		if(x.size() != 2) return BAD;
		double d = x(0); std::size_t id = (std::size_t)d;
		if(d != (double)id || x(1) != id + 0.5) return BAD;
		return id;
	}
};
template<class I> struct ShiftElem{
	typedef I result_type; std::size_t k;
	I operator()(I const& x) const{ return Codec<I>::enc(Codec<I>::dec(x) + k); }
};
struct ShiftLabel{
	typedef unsigned int result_type; unsigned int k;
	unsigned int operator()(unsigned int l) const{ return l + k; }
};
template<class I> struct ToId{
	typedef unsigned int result_type;
	unsigned int operator()(I const& x) const{ return (unsigned int)Codec<I>::dec(x); }
};
template<class I> struct FromId{
	typedef I result_type; std::size_t k;
	I operator()(unsigned int id) const{ return Codec<I>::enc(id + k); }
};
struct ShiftRealBatch{
	std::size_t k;
	RealMatrix operator()(RealMatrix const& m) const{
		RealMatrix r(m.size1(), m.size2());
		for(std::size_t i = 0; i != m.size1(); ++i) noalias(row(r, i)) = Codec<RealVector>::enc(Codec<RealVector>::dec(row(m, i)) + k);
		return r;
	}
};
template<class I> struct BatchWise{
	template<class D> static D apply(D const& d, std::size_t k){ ShiftElem<I> f; f.k = k; return transformInputs(d, f); }
};
template<> struct BatchWise<RealVector>{
	template<class D> static D apply(D const& d, std::size_t k){ ShiftRealBatch f; f.k = k; return transformInputs(d, f); }
};

static std::string showElem(Elem const& e){
	if(e.first == BAD) return "?";
	return std::to_string(e.first) + ":" + std::to_string(e.second);
}
static std::string rle(std::vector<std::size_t> const& v){
	std::ostringstream os; os << "[";
	for(std::size_t i = 0; i != v.size(); ){
		std::size_t j = i; while(j != v.size() && v[j] == v[i]) ++j;
		if(i) os << " ";
		os << v[i]; if(j - i > 1) os << "x" << (j - i);
		i = j;
	}
	os << "]"; return os.str();
}
static std::uint64_t hashFlat(Flat const& f){
	std::uint64_t h = 1469598103934665603ULL;
	for(Elem const& e: f){ h = (h ^ e.first) * 1099511628211ULL; h = (h ^ e.second) * 1099511628211ULL; }
	return h;
}

// ---- list specifications
static bool parseSeg(std::string const& t, std::vector<std::size_t>& out){
	if(t.empty()) return false;
	if(t.find('*') != std::string::npos){                  // size*count
		unsigned long long s, c; char x;
		if(std::sscanf(t.c_str(), "%llu*%llu%c", &s, &c, &x) != 2 || c > 10000000ULL) return false;
		out.insert(out.end(), (std::size_t)c, (std::size_t)s); return true;
	}
	if(t[0] == '~'){
		unsigned long long seed, cnt, bound; char x;
		if(std::sscanf(t.c_str() + 1, "%llu:%llu:%llu%c", &seed, &cnt, &bound, &x) != 3 || cnt > 10000000ULL || bound == 0) return false;
		vh::SplitMix64 r(seed);
		for(unsigned long long i = 0; i != cnt; ++i) out.push_back((std::size_t)r.below(bound));
		return true;
	}
	if(t[0] == '%'){                                       // %a:cnt:m -> (j * a) mod m
		unsigned long long a, cnt, m; char x;
		if(std::sscanf(t.c_str() + 1, "%llu:%llu:%llu%c", &a, &cnt, &m, &x) != 3 || cnt > 10000000ULL || m == 0) return false;
		for(unsigned long long i = 0; i != cnt; ++i) out.push_back((std::size_t)((i * a) % m));
		return true;
	}
	if(t.find(':') != std::string::npos){
		unsigned long long lo, cnt; long long step; char x;
		if(std::sscanf(t.c_str(), "%llu:%llu:%lld%c", &lo, &cnt, &step, &x) != 3 || cnt > 10000000ULL) return false;
		for(unsigned long long i = 0; i != cnt; ++i){
			long long v = (long long)lo + (long long)i * step;
			if(v < 0) return false;
			out.push_back((std::size_t)v);
		}
		return true;
	}
	for(char c: t) if(c < '0' || c > '9') return false;
	out.push_back(std::stoull(t)); return true;
}

template<class I>
struct Scale{
	typedef LabeledData<I, unsigned int> DS;
	typedef DataView<DS> View;
	typedef typename DS::element_type Pair;
	DS d[4]; Flat sh[4];
	View v[2]; bool vset[2]; Flat vsh[2]; std::vector<std::size_t> vidx[2];
	std::string oracleMsg; std::size_t fails; bool dirty[4];

	Scale(): fails(0){ vset[0] = vset[1] = false; }
	void fail(std::string const& tag){ if(++fails <= 6) oracleMsg += " !oracle " + tag; }
	static Elem rd(typename DS::const_element_reference const& e){ return Elem(Codec<I>::dec(e.input), e.label); }

	// positions at which the O(#batches) accessors are read
	static std::vector<std::size_t> samples(std::size_t n, std::vector<std::size_t> const& part){
		std::vector<std::size_t> s;
		if(n == 0) return s;
		if((double)n * (double)std::max<std::size_t>(part.size(), 1) <= 3e6){ s.resize(n); std::iota(s.begin(), s.end(), 0); return s; }
		auto add = [&](long long p){ if(p >= 0 && (std::size_t)p < n) s.push_back((std::size_t)p); };
		for(long long k = 0; k != 2; ++k){ add(k); add((long long)n - 1 - k); }
		for(long long m = 65536; m <= (long long)n + 2; m += 65536) for(long long k = -2; k <= 2; ++k) add(m + k);
		add(255); add(256); add(32767); add(32768);
		// elements of the batches around batch 2^16 (and 2^15), first and last of each
		std::size_t start = 0;
		for(std::size_t b = 0; b != part.size(); ++b){
			bool near = (b + 2 >= 65536 && b <= 65536 + 1) || b + 1 >= part.size() || b < 1;
			if(near && part[b]){ add((long long)start); add((long long)(start + part[b] - 1)); }
			start += part[b];
		}
		vh::SplitMix64 r(n * 31 + part.size());
		for(int k = 0; k != 10; ++k) add((long long)r.below(n));
		std::sort(s.begin(), s.end()); s.erase(std::unique(s.begin(), s.end()), s.end());
		return s;
	}

	std::string where(std::string const& path, std::size_t k, std::size_t at, Elem got, Elem want){
		return path + " slot=" + std::to_string(k) + " at=" + std::to_string(at) + " got=" + showElem(got) + " expected=" + showElem(want);
	}
	static bool hasEmptyBatch(std::vector<std::size_t> const& p){ for(std::size_t x: p) if(x == 0) return true; return false; }

	std::string showDS(std::size_t k, bool full){
		DS& m = d[k]; DS const& s = d[k]; Flat const& f = sh[k];
		std::vector<std::size_t> part = s.inputs().getPartitioning(), lpart = s.labels().getPartitioning();
		std::size_t n = s.numberOfElements(), nb = s.numberOfBatches();
		std::ostringstream os;
		os << "D" << k << "{n=" << n << " nb=" << nb << " part=" << rle(part) << " h=" << hashFlat(f) << "}";
		if(part != lpart){ fail("input-label-partition-differs slot=" + std::to_string(k)); return os.str(); }
		if(part != s.getPartitioning() || part.size() != nb) fail("getPartitioning slot=" + std::to_string(k));
		std::size_t sum = 0; for(std::size_t x: part) sum += x;
		if(sum != n || n != f.size() || s.inputs().numberOfElements() != n || s.labels().numberOfElements() != n){
			fail("batch-sizes-do-not-sum slot=" + std::to_string(k) + " sum=" + std::to_string(sum) + " numberOfElements=" + std::to_string(n) + " expected=" + std::to_string(f.size()));
			return os.str();
		}
		if(n == 0) return os.str();
		// batches by index / batches() range (const and non-const)
		std::size_t pos = 0; bool bad = false;
		for(std::size_t b = 0; b != nb && !bad; ++b){
			auto const& batch = s.batch(b);
			if(batchSize(batch) != part[b]){ fail("batch-size-vs-partitioning slot=" + std::to_string(k) + " batch=" + std::to_string(b)); bad = true; break; }
			for(std::size_t i = 0; i != part[b]; ++i, ++pos){
				auto e = getBatchElement(batch, i);
				Elem g(Codec<I>::dec(e.input), e.label);
				if(g != f[pos]){ fail(where("batch(b)", k, pos, g, f[pos])); bad = true; break; }
			}
		}
		if(bad || !full) return os.str();      // a slot the op did not name: contents and partitioning only
		pos = 0;
		for(auto const& batch: s.batches()){
			for(std::size_t i = 0; i != batchSize(batch) && !bad; ++i, ++pos){
				auto e = getBatchElement(batch, i);
				Elem g(Codec<I>::dec(e.input), e.label);
				if(pos >= n || g != f[pos]){ fail(where("batches()", k, pos, g, f[std::min(pos, n - 1)])); bad = true; }
			}
			if(bad) break;
		}
		if(!bad && pos != n) fail("batches()-count slot=" + std::to_string(k));
		pos = 0; bad = false;
		for(auto&& batch: m.batches()){
			for(std::size_t i = 0; i != batchSize(batch) && !bad; ++i, ++pos){
				auto e = getBatchElement(batch, i);
				Elem g(Codec<I>::dec(e.input), e.label);
				if(pos >= n || g != f[pos]){ fail(where("batches()-non-const", k, pos, g, f[std::min(pos, n - 1)])); bad = true; }
			}
			if(bad) break;
		}
		if(hasEmptyBatch(part)) return os.str();      // the element iterator is not defined on empty batches
		// elements() forwards, const
		{
			auto range = s.elements(); auto it = range.begin(), end = range.end();
			if(end.index() != n || end - it != (std::ptrdiff_t)n) fail("elements().end()-index slot=" + std::to_string(k));
			for(pos = 0; pos != n && !(it == end); ++it, ++pos){
				Elem g((Codec<I>::dec((*it).input)), (*it).label);
				if(g != f[pos] || it.index() != pos){ fail(where("elements()", k, pos, g, f[pos])); break; }
			}
			if(pos == n && !(it == end)) fail("elements()-too-long slot=" + std::to_string(k));
			// and backwards from the end
			auto jt = range.end();
			for(pos = n; pos != 0; ){
				--jt; --pos;
				Elem g((Codec<I>::dec((*jt).input)), (*jt).label);
				if(g != f[pos] || jt.index() != pos){ fail(where("elements()-reverse", k, pos, g, f[pos])); break; }
			}
		}
		{   // non-const
			auto range = m.elements(); auto it = range.begin(), end = range.end();
			for(pos = 0; pos != n && !(it == end); ++it, ++pos){
				Elem g((Codec<I>::dec((*it).input)), (*it).label);
				if(g != f[pos]){ fail(where("elements()-non-const", k, pos, g, f[pos])); break; }
			}
			if(pos != n) fail("elements()-non-const-count slot=" + std::to_string(k));
		}
		{   // inputs and labels separately
			auto ir = s.inputs().elements(); auto lr = s.labels().elements();
			auto ii = ir.begin(), ie = ir.end(); auto li = lr.begin();
			for(pos = 0; pos != n && !(ii == ie); ++ii, ++li, ++pos){
				Elem g(Codec<I>::dec(*ii), *li);
				if(g != f[pos]){ fail(where("inputs()/labels()-pairing", k, pos, g, f[pos])); break; }
			}
			if(pos != n) fail("inputs()-elements-count slot=" + std::to_string(k));
		}
		// the O(#batches) accessors
		std::vector<std::size_t> smp = samples(n, part);
		auto cb = s.elements().begin(); auto ib = s.inputs().elements().begin(); auto lb = m.labels().elements().begin();
		for(std::size_t p: smp){
			Elem g = rd(s.element(p));
			if(g != f[p]){ fail(where("element(i)", k, p, g, f[p])); break; }
			auto it = cb + p;
			Elem g2((Codec<I>::dec((*it).input)), (*it).label);
			if(it.index() != p || g2 != f[p]){ fail(where("begin()+i", k, p, g2, f[p])); break; }
			Elem g3(Codec<I>::dec(s.inputs().element(p)), *(lb + p));
			if(g3 != f[p] || Codec<I>::dec(*(ib + p)) != f[p].first){ fail(where("inputs().element(i)", k, p, g3, f[p])); break; }
			auto me = m.element(p);
			Elem g4((Codec<I>::dec(me.input)), me.label);
			if(g4 != f[p]){ fail(where("element(i)-non-const", k, p, g4, f[p])); break; }
		}
		return os.str();
	}
	std::string showView(std::size_t k){
		if(!vset[k]) return "V" + std::to_string(k) + "{-}";
		View const& w = v[k]; View& wm = v[k]; Flat const& f = vsh[k];
		std::ostringstream os;
		os << "V" << k << "{n=" << w.size() << " h=" << hashFlat(f) << "}";
		if(w.size() != f.size() || vidx[k].size() != f.size()){ fail("view-size view=" + std::to_string(k)); return os.str(); }
		for(std::size_t i = 0; i != f.size(); ++i){
			Elem g((Codec<I>::dec(w[i].input)), w[i].label);
			if(g != f[i]){ fail(where("view[i]", k, i, g, f[i])); break; }
			if(w.index(i) != vidx[k][i]){ fail("view.index(i) view=" + std::to_string(k) + " at=" + std::to_string(i) + " got=" + std::to_string(w.index(i)) + " expected=" + std::to_string(vidx[k][i])); break; }
			Elem g2((Codec<I>::dec(wm[i].input)), wm[i].label);
			if(g2 != f[i]){ fail(where("view[i]-non-const", k, i, g2, f[i])); break; }
		}
		std::size_t pos = 0;
		for(auto it = w.begin(); it != w.end(); ++it, ++pos){
			Elem g((Codec<I>::dec((*it).input)), (*it).label);
			if(pos >= f.size() || it.index() != vidx[k][pos] || g != f[pos]){ fail(where("view-iterator", k, pos, g, f[std::min(pos, f.size() - 1)])); break; }
		}
		if(!f.empty()){
			Elem a((Codec<I>::dec(w.front().input)), w.front().label), b((Codec<I>::dec(w.back().input)), w.back().label);
			if(a != f.front() || b != f.back()) fail("view-front/back view=" + std::to_string(k));
			auto it = w.end(); --it;
			if(it.index() != vidx[k].back() || Elem((Codec<I>::dec((*it).input)), (*it).label) != f.back()) fail("view-iterator-decrement view=" + std::to_string(k));
			auto jt = w.begin() + (f.size() - 1);
			if(jt.index() != vidx[k].back() || w.end() - w.begin() != (std::ptrdiff_t)f.size()) fail("view-iterator-jump view=" + std::to_string(k));
		}
		return os.str();
	}
	std::string showState(){
		std::string s;
		for(std::size_t k = 0; k != 4; ++k) s += (k ? " " : "") + showDS(k, dirty[k]);
		for(std::size_t k = 0; k != 2; ++k) s += " " + showView(k);
		return s;
	}

	static Flat gather(Flat const& f, std::vector<std::size_t> const& idx){
		Flat g; g.reserve(idx.size()); for(std::size_t i: idx) g.push_back(f[i]); return g;
	}
	static Flat batchesOf(Flat const& f, std::vector<std::size_t> const& part, std::vector<std::size_t> const& idx){
		std::vector<std::size_t> start(part.size() + 1, 0);
		for(std::size_t i = 0; i != part.size(); ++i) start[i + 1] = start[i] + part[i];
		Flat g;
		for(std::size_t b: idx) g.insert(g.end(), f.begin() + start[b], f.begin() + start[b + 1]);
		return g;
	}
	static bool allBelow(std::vector<std::size_t> const& l, std::size_t bound){ for(std::size_t x: l) if(x >= bound) return false; return true; }

	bool valid(std::string const& op, std::vector<std::size_t> const& a, std::vector<std::size_t> const& l){
		auto slot = [&](std::size_t i){ return i < a.size() && a[i] < 4; };
		auto vslot = [&](std::size_t i){ return i < a.size() && a[i] < 2; };
		auto nb = [&](std::size_t s){ return d[s].numberOfBatches(); };
		auto ne = [&](std::size_t s){ return sh[s].size(); };
		auto full = [&](std::size_t s){ return !hasEmptyBatch(d[s].getPartitioning()); };
		if(op == "reset") return a.empty();
		if(op == "mk") return a.size() == 5 && slot(0) && a[1] >= 1 && a[1] <= 400000 && a[4] >= 1;
		if(op == "mk3") return a.size() == 4 && slot(0) && a[1] >= 1 && a[1] <= 400000;
		if(op == "repart"){ std::size_t sum = 0; for(std::size_t x: l){ if(!x) return false; sum += x; } return a.size() == 1 && slot(0) && full(a[0]) && sum == ne(a[0]); }
		if(op == "splitb") return a.size() == 3 && slot(0) && a[1] < nb(a[0]) && a[2] <= d[a[0]].getPartitioning()[a[1]];
		if(op == "splitat") return a.size() == 3 && slot(0) && slot(1) && a[0] != a[1] && nb(a[0]) >= 1 && full(a[0]) && a[2] <= ne(a[0]);
		if(op == "splice") return a.size() == 3 && slot(0) && slot(1) && a[0] != a[1] && a[2] <= nb(a[0]);
		if(op == "append") return a.size() == 2 && slot(0) && slot(1) && a[0] != a[1];
		if(op == "pushb") return a.size() == 3 && slot(0) && slot(1) && a[0] != a[1] && a[2] < nb(a[1]);
		if(op == "subset") return a.size() == 2 && slot(0) && slot(1) && allBelow(l, nb(a[0]));
		if(op == "subc") return a.size() == 3 && slot(0) && slot(1) && slot(2) && a[1] != a[2] && allBelow(l, nb(a[0]));
		if(op == "reorder") return a.size() == 1 && slot(0) && full(a[0]) && l.size() == ne(a[0]) && allBelow(l, ne(a[0])) && (double)ne(a[0]) * nb(a[0]) <= 4e7;
		if(op == "shuffle") return a.size() == 2 && slot(0) && full(a[0]) && ne(a[0]) >= 1 && (double)ne(a[0]) * nb(a[0]) <= 4e7;
		if(op == "rbc") return a.size() == 2 && slot(0) && full(a[0]) && a[1] > 0 && ne(a[0]) >= 1 && (double)ne(a[0]) * nb(a[0]) <= 4e7;
		if(op == "bin") return a.size() == 4 && slot(0) && slot(1) && full(a[0]);
		if(op == "ovr") return a.size() == 3 && slot(0) && slot(1) && full(a[0]);
		if(op == "xform") return a.size() == 4 && slot(0) && slot(1) && full(a[0]) && ne(a[0]) >= 1;
		if(op == "xlab") return a.size() == 3 && slot(0) && slot(1) && full(a[0]);
		if(op == "copy" || op == "swap") return a.size() == 2 && slot(0) && slot(1);
		if(op == "indep") return a.size() == 1 && slot(0);
		if(op == "setel") return a.size() == 4 && slot(0) && full(a[0]) && a[1] < ne(a[0]);
		if(op == "iter") return a.size() == 3 && slot(0) && full(a[0]) && a[1] <= ne(a[0]) && a[2] <= ne(a[0]);
		if(op == "view") return a.size() == 2 && vslot(0) && slot(1) && full(a[1]);
		if(op == "vsub") return a.size() == 2 && vslot(0) && vslot(1) && vset[a[0]] && allBelow(l, v[a[0]].size());
		if(op == "v2d") return a.size() == 3 && vslot(0) && slot(1) && vset[a[0]];
		if(op == "vbat") return a.size() == 2 && vslot(0) && slot(1) && vset[a[0]] && !l.empty() && allBelow(l, v[a[0]].size());
		if(op == "vset") return a.size() == 4 && vslot(0) && vset[a[0]] && a[1] < v[a[0]].size();
		if(op == "vrand") return a.size() == 4 && vslot(0) && vslot(1) && vset[a[0]] && v[a[0]].size() >= 1 && a[2] <= v[a[0]].size();
		return false;
	}

	static bool okAfterWrite(Elem const& before, Elem const& after, Elem const& val){
		return (after.first == before.first || after.first == val.first) && (after.second == before.second || after.second == val.second);
	}
	static Flat readAll(DS const& s){
		Flat f;
		for(std::size_t b = 0; b != s.numberOfBatches(); ++b){
			auto const& batch = s.batch(b);
			for(std::size_t i = 0; i != batchSize(batch); ++i){ auto e = getBatchElement(batch, i); f.push_back(Elem(Codec<I>::dec(e.input), e.label)); }
		}
		return f;
	}
	// after a write through a proxy: exactly the written value appears, only where the batch is shared (decided by the small-scale model);
	// here: every position keeps its value or takes the written one, and the number of changed positions per holder is at most 1 per held copy
	void resyncWith(Elem val){
		for(std::size_t k = 0; k != 4; ++k){
			Flat now = readAll(d[k]);
			if(now.size() != sh[k].size()) fail("in-place-write-changed-count slot=" + std::to_string(k));
			else for(std::size_t p = 0; p != now.size(); ++p)
				if(!okAfterWrite(sh[k][p], now[p], val)){ fail(where("in-place-write-changed-unrelated-position", k, p, now[p], sh[k][p])); break; }
			sh[k] = now;
		}
		for(std::size_t k = 0; k != 2; ++k) if(vset[k]){
			Flat f; View const& w = v[k];
			for(std::size_t i = 0; i != w.size(); ++i) f.push_back(Elem(Codec<I>::dec(w[i].input), w[i].label));
			if(f.size() != vsh[k].size()) fail("in-place-write-changed-count view=" + std::to_string(k));
			else for(std::size_t p = 0; p != f.size(); ++p)
				if(!okAfterWrite(vsh[k][p], f[p], val)){ fail(where("in-place-write-changed-unrelated-position-view", k, p, f[p], vsh[k][p])); break; }
			vsh[k] = f;
		}
	}

	template<class It> static bool jumps(It begin, std::size_t p, std::ptrdiff_t n, std::size_t total){
		It it = begin + p; it += n;
		std::size_t q = (std::size_t)((std::ptrdiff_t)p + n);
		if(it.index() != q || it - begin != (std::ptrdiff_t)q) return false;
		It jt = begin + p; jt -= -n;
		if(jt.index() != q || !(jt == it)) return false;
		It kt = begin + p;
		for(std::ptrdiff_t s = 0; s < n; ++s) ++kt;
		for(std::ptrdiff_t s = 0; s > n; --s) --kt;
		if(kt.index() != q) return false;
		if(q < total){
			if(!(kt.getInnerIterator() == it.getInnerIterator())) return false;
			if(!(jt.getInnerIterator() == it.getInnerIterator())) return false;
		}
		It back = it; back -= n;
		if(back.index() != p) return false;
		if(p < total && !(back.getInnerIterator() == (begin + p).getInnerIterator())) return false;
		if((begin + p) - it != -n || it - (begin + p) != n) return false;
		return true;
	}

	std::string exec(std::string const& op, std::vector<std::size_t> const& a, std::vector<std::size_t> const& l){
		if(op == "reset"){
			for(std::size_t k = 0; k != 4; ++k){ d[k] = DS(); sh[k].clear(); }
			for(std::size_t k = 0; k != 2; ++k){ v[k] = View(); vset[k] = false; vsh[k].clear(); vidx[k].clear(); }
			return "";
		}
		if(op == "mk"){      // mk slot n maxBatch base L : ids base.., label = id % L
			std::vector<I> in; std::vector<unsigned int> lab; Flat f;
			in.reserve(a[1]); lab.reserve(a[1]); f.reserve(a[1]);
			for(std::size_t i = 0; i != a[1]; ++i){
				std::size_t id = a[3] + i; unsigned int y = (unsigned int)(id % a[4]);
				in.push_back(Codec<I>::enc(id)); lab.push_back(y); f.push_back(Elem(id, y));
			}
			d[a[0]] = createLabeledDataFromRange(in, lab, a[2]);
			sh[a[0]] = f;
			// the documented partitioning: ceil(n/m) batches, sizes differ by at most one, none above m
			{   // maximum batch size 0: the default batch size
				std::size_t mb = a[2] ? a[2] : (std::size_t)DS::DefaultBatchSize;
				std::vector<std::size_t> part = d[a[0]].getPartitioning();
				std::size_t want = (a[1] + mb - 1) / mb;
				if(part.size() != want) fail("createFromRange-number-of-batches got=" + std::to_string(part.size()) + " expected=" + std::to_string(want));
				for(std::size_t s: part) if(s > mb || s < a[1] / want || s > a[1] / want + 1){ fail("createFromRange-batch-size"); break; }
			}
			return "";
		}
		if(op == "mk3"){     // mk3 slot n maxBatch base : the sized constructor, filled through the element iterator (as toDataset does)
			DS r(a[1], Pair(Codec<I>::enc(0), 0u), a[2]);
			if(r.numberOfElements() != a[1]) fail("sized-constructor-element-count got=" + std::to_string(r.numberOfElements()));
			Flat f; std::size_t i = 0;
			auto range = r.elements();
			for(auto it = range.begin(); it != range.end(); ++it, ++i){
				std::size_t id = a[3] + i; unsigned int y = (unsigned int)(id % 3);
				*it = Pair(Codec<I>::enc(id), y); f.push_back(Elem(id, y));
			}
			if(a[2] != 0){
				std::vector<std::size_t> part = r.getPartitioning();
				for(std::size_t b = 0; b != part.size(); ++b) if(part[b] > a[2] || (b + 1 != part.size() && part[b] != a[2])){ fail("sized-constructor-batch-size"); break; }
			}
			else if(r.numberOfBatches() != 1) fail("sized-constructor-unlimited-batch");
			d[a[0]] = r; sh[a[0]] = f;
			return "";
		}
		if(op == "repart"){
			d[a[0]].makeIndependent();
			d[a[0]].repartition(l);
			if(d[a[0]].getPartitioning() != l) fail("repartition-sizes");
			return "";
		}
		if(op == "splitb"){ d[a[0]].makeIndependent(); d[a[0]].splitBatch(a[1], a[2]); return ""; }
		if(op == "splitat"){
			d[a[0]].makeIndependent();
			d[a[1]] = splitAtElement(d[a[0]], a[2]);
			sh[a[1]] = Flat(sh[a[0]].begin() + a[2], sh[a[0]].end());
			sh[a[0]].resize(a[2]);
			if(d[a[0]].numberOfElements() != a[2]) fail("splitAtElement-left-size got=" + std::to_string(d[a[0]].numberOfElements()) + " expected=" + std::to_string(a[2]));
			return "";
		}
		if(op == "splice"){
			std::vector<std::size_t> part = d[a[0]].getPartitioning();
			std::size_t k = 0; for(std::size_t i = 0; i != a[2]; ++i) k += part[i];
			d[a[0]].makeIndependent();
			d[a[1]] = d[a[0]].splice(a[2]);
			sh[a[1]] = Flat(sh[a[0]].begin() + k, sh[a[0]].end());
			sh[a[0]].resize(k);
			return "";
		}
		if(op == "append"){
			d[a[0]].append(d[a[1]]);
			Flat add = sh[a[1]];
			sh[a[0]].insert(sh[a[0]].end(), add.begin(), add.end());
			return "";
		}
		if(op == "pushb"){
			Flat add = batchesOf(sh[a[1]], d[a[1]].getPartitioning(), std::vector<std::size_t>(1, a[2]));
			DS const& src = d[a[1]];
			d[a[0]].push_back(src.batch(a[2]));
			sh[a[0]].insert(sh[a[0]].end(), add.begin(), add.end());
			return "";
		}
		if(op == "subset"){
			Flat f = batchesOf(sh[a[0]], d[a[0]].getPartitioning(), l);
			d[a[1]] = d[a[0]].indexedSubset(l);
			sh[a[1]] = f;
			return "";
		}
		if(op == "subc"){
			std::vector<std::size_t> part = d[a[0]].getPartitioning(), comp;
			std::vector<bool> listed(part.size(), false);
			for(std::size_t b: l) listed[b] = true;
			for(std::size_t b = 0; b != part.size(); ++b) if(!listed[b]) comp.push_back(b);
			Flat fs = batchesOf(sh[a[0]], part, l), fc = batchesOf(sh[a[0]], part, comp);
			UnlabeledData<I> si, ci; Data<unsigned int> sl, cl;
			d[a[0]].inputs().indexedSubset(l, si, ci);
			d[a[0]].labels().indexedSubset(l, sl, cl);
			d[a[1]] = DS(si, sl); d[a[2]] = DS(ci, cl);
			sh[a[1]] = fs; sh[a[2]] = fc;
			return "";
		}
		if(op == "reorder"){
			std::vector<std::size_t> part = d[a[0]].getPartitioning();
			d[a[0]].reorderElements(l);
			sh[a[0]] = gather(sh[a[0]], l);
			if(d[a[0]].getPartitioning() != part) fail("reorder-changed-partitioning");
			return "";
		}
		if(op == "shuffle"){
			random::globalRng.seed((unsigned)a[1]);
			Flat before = sh[a[0]];
			std::vector<std::size_t> part = d[a[0]].getPartitioning();
			d[a[0]].shuffle();
			Flat after = readAll(d[a[0]]);
			if(after.size() != before.size()) fail("shuffle-changed-count");
			if(d[a[0]].getPartitioning() != part) fail("shuffle-changed-partitioning");
			Flat x = before, y = after; std::sort(x.begin(), x.end()); std::sort(y.begin(), y.end());
			if(x != y) fail("shuffle-multiset");
			if(before.size() > 50 && after == before) fail("shuffle-is-the-identity");
			sh[a[0]] = after;
			return "";
		}
		if(op == "rbc"){
			d[a[0]].makeIndependent();
			repartitionByClass(d[a[0]], a[1]);
			std::stable_sort(sh[a[0]].begin(), sh[a[0]].end(), [](Elem const& x, Elem const& y){ return x.second < y.second; });
			DS const& s = d[a[0]];
			for(std::size_t b = 0; b != s.numberOfBatches(); ++b){
				auto const& lb = s.labels().batch(b);
				if(lb.size() > a[1] || lb.size() == 0) fail("rbc-batch-size");
				for(std::size_t i = 1; i < lb.size(); ++i) if(lb(i) != lb(0)){ fail("rbc-mixed-batch"); break; }
			}
			return "";
		}
		if(op == "bin"){
			unsigned int c0 = (unsigned int)a[2], c1 = (unsigned int)a[3];
			DS r = binarySubProblem(d[a[0]], c0, c1);
			Flat f; bool sorted = true;
			for(std::size_t i = 1; i < sh[a[0]].size(); ++i) if(sh[a[0]][i - 1].second > sh[a[0]][i].second) sorted = false;
			unsigned int lo = std::min(c0, c1), hi = std::max(c0, c1);
			for(int pass = 0; pass != 2; ++pass)
				for(Elem const& e: sh[a[0]]) if(e.second == (pass ? hi : lo) && (pass == 0 || hi != lo)) f.push_back(Elem(e.first, e.second == c1 ? 1u : 0u));
			bool pure = true;
			for(std::size_t b = 0; b != d[a[0]].numberOfBatches() && pure; ++b){
				auto const& lb = static_cast<DS const&>(d[a[0]]).labels().batch(b);
				for(std::size_t i = 1; i < lb.size(); ++i) if(lb(i) != lb(0)){ pure = false; break; }
			}
			d[a[1]] = r;
			if(sorted && pure) sh[a[1]] = f; else sh[a[1]] = readAll(r);
			return "";
		}
		if(op == "ovr"){
			DS r = oneVersusRestProblem(d[a[0]], (unsigned int)a[2]);
			Flat f = sh[a[0]]; for(Elem& e: f) e.second = (e.second == a[2]) ? 1u : 0u;
			d[a[1]] = r; sh[a[1]] = f;
			return "";
		}
		if(op == "xform"){
			DS r;
			if(a[3] == 1) r = BatchWise<I>::apply(d[a[0]], a[2]);
			else if(a[3] == 2){
				ToId<I> g; FromId<I> f; f.k = a[2];
				Data<unsigned int> ids = transform(d[a[0]].inputs(), g);
				if(ids.getPartitioning() != d[a[0]].getPartitioning()) fail("transform-changed-partitioning");
				r = DS(transform(ids, f), d[a[0]].labels());
			}
			else { ShiftElem<I> f; f.k = a[2]; r = transformInputs(d[a[0]], f); }
			Flat f = sh[a[0]]; for(Elem& e: f) e.first += a[2];
			if(r.getPartitioning() != d[a[0]].getPartitioning()) fail("transform-changed-partitioning");
			d[a[1]] = r; sh[a[1]] = f;
			return "";
		}
		if(op == "xlab"){
			ShiftLabel fn; fn.k = (unsigned int)a[2];
			DS r = transformLabels(d[a[0]], fn);
			Flat f = sh[a[0]]; for(Elem& e: f) e.second += (unsigned int)a[2];
			d[a[1]] = r; sh[a[1]] = f;
			return "";
		}
		if(op == "copy"){ DS r = d[a[0]]; Flat f = sh[a[0]]; d[a[1]] = r; sh[a[1]] = f; return ""; }
		if(op == "swap"){ swap(d[a[0]], d[a[1]]); std::swap(sh[a[0]], sh[a[1]]); return ""; }
		if(op == "indep"){ d[a[0]].makeIndependent(); return ""; }
		if(op == "setel"){
			Elem val(a[2], (unsigned int)a[3]);
			d[a[0]].element(a[1]) = Pair(Codec<I>::enc(a[2]), (unsigned int)a[3]);
			resyncWith(val);
			if(sh[a[0]][a[1]] != val) fail("in-place-write-lost at=" + std::to_string(a[1]));
			return "";
		}
		if(op == "vset"){
			Elem val(a[2], (unsigned int)a[3]);
			v[a[0]][a[1]] = Pair(Codec<I>::enc(a[2]), (unsigned int)a[3]);
			resyncWith(val);
			if(vsh[a[0]][a[1]] != val) fail("in-place-write-lost view at=" + std::to_string(a[1]));
			return "";
		}
		if(op == "iter"){    // iter slot p q : the jump from p to q on every flavour of the element iterator
			DS& m = d[a[0]]; DS const& c = d[a[0]];
			std::size_t total = sh[a[0]].size(), p = a[1], q = a[2];
			std::ptrdiff_t n = (std::ptrdiff_t)q - (std::ptrdiff_t)p;
			std::string at = " p=" + std::to_string(p) + " q=" + std::to_string(q);
			if(!jumps(c.elements().begin(), p, n, total)) fail("iterator-jump LabeledData-const" + at);
			if(!jumps(m.elements().begin(), p, n, total)) fail("iterator-jump LabeledData" + at);
			if(!jumps(c.inputs().elements().begin(), p, n, total)) fail("iterator-jump Data<I>-const" + at);
			if(!jumps(m.inputs().elements().begin(), p, n, total)) fail("iterator-jump Data<I>" + at);
			if(!jumps(c.labels().elements().begin(), p, n, total)) fail("iterator-jump Data<label>-const" + at);
			auto it = c.elements().begin() + p; it += n;
			if(q < total){
				Elem e((Codec<I>::dec((*it).input)), (*it).label);
				if(e != sh[a[0]][q]) fail(where("iterator-deref", a[0], q, e, sh[a[0]][q]));
				auto b2 = c.labels().elements().begin();
				unsigned int l2 = b2[q];
				if(l2 != sh[a[0]][q].second) fail(where("iterator-subscript", a[0], q, Elem(sh[a[0]][q].first, l2), sh[a[0]][q]));
			}
			return "idx=" + std::to_string(it.index());
		}
		if(op == "view"){
			v[a[0]] = View(d[a[1]]); vset[a[0]] = true; vsh[a[0]] = sh[a[1]];
			vidx[a[0]].resize(sh[a[1]].size()); std::iota(vidx[a[0]].begin(), vidx[a[0]].end(), 0);
			viewFlavours(a[1]);
			// batch(i) / positionInBatch(i) must be the canonical coordinates of element i
			View const& w = v[a[0]]; std::vector<std::size_t> part = d[a[1]].getPartitioning();
			std::size_t b = 0, start = 0;
			for(std::size_t i = 0; i != w.size(); ++i){
				while(b != part.size() && i >= start + part[b]){ start += part[b]; ++b; }
				if(w.batch(i) != b || w.positionInBatch(i) != i - start){ fail("view-batch/positionInBatch at=" + std::to_string(i) + " got=(" + std::to_string(w.batch(i)) + "," + std::to_string(w.positionInBatch(i)) + ") expected=(" + std::to_string(b) + "," + std::to_string(i - start) + ")"); break; }
			}
			return "";
		}
		if(op == "vsub"){
			View w = subset(v[a[0]], l); Flat f = gather(vsh[a[0]], l);
			std::vector<std::size_t> ix; for(std::size_t i: l) ix.push_back(vidx[a[0]][i]);
			v[a[1]] = w; vset[a[1]] = true; vsh[a[1]] = f; vidx[a[1]] = ix;
			return "";
		}
		if(op == "v2d"){
			d[a[1]] = toDataset(v[a[0]], a[2]);
			sh[a[1]] = vsh[a[0]];
			std::vector<std::size_t> part = d[a[1]].getPartitioning();
			if(a[2] != 0){
				for(std::size_t b = 0; b != part.size(); ++b) if(part[b] > a[2] || (b + 1 != part.size() && part[b] != a[2])){ fail("toDataset-batch-size"); break; }
			}
			else if(part.size() > 1) fail("toDataset-unlimited-batch");
			return "";
		}
		if(op == "vbat"){
			typename DS::batch_type b = subBatch(v[a[0]], l);
			DS r; r.push_back(b.input, b.label);
			d[a[1]] = r; sh[a[1]] = gather(vsh[a[0]], l);
			return "";
		}
		if(op == "vrand"){
			random::globalRng.seed((unsigned)a[3]);
			View const& src = v[a[0]];
			View r = randomSubset(src, a[2]);
			if(r.size() != a[2]) fail("randomSubset-size");
			// which positions were drawn: (batch, positionInBatch, index) identifies a position of the source uniquely if the source has no duplicates;
			// in general: first unused match, found through a sorted table
			std::vector<std::pair<std::pair<std::size_t, std::size_t>, std::size_t> > table;
			for(std::size_t q = 0; q != src.size(); ++q) table.push_back(std::make_pair(std::make_pair(src.batch(q), src.positionInBatch(q)), q));
			std::sort(table.begin(), table.end());
			std::vector<bool> used(src.size(), false);
			std::vector<std::size_t> pos;
			for(std::size_t i = 0; i != r.size(); ++i){
				auto key = std::make_pair(r.batch(i), r.positionInBatch(i));
				auto lo = std::lower_bound(table.begin(), table.end(), std::make_pair(key, (std::size_t)0));
				std::size_t hit = BAD;
				for(; lo != table.end() && lo->first == key; ++lo) if(!used[lo->second] && src.index(lo->second) == r.index(i)){ hit = lo->second; break; }
				if(hit == BAD){ fail("randomSubset-element-not-from-view-or-drawn-twice at=" + std::to_string(i)); hit = 0; } else used[hit] = true;
				pos.push_back(hit);
			}
			Flat f = gather(vsh[a[0]], pos);
			std::vector<std::size_t> ix; for(std::size_t i: pos) ix.push_back(vidx[a[0]][i]);
			v[a[1]] = r; vset[a[1]] = true; vsh[a[1]] = f; vidx[a[1]] = ix;
			return "";
		}
		return "bad-op";
	}
	// the other flavours of DataView over the same data: const LabeledData, the UnlabeledData of the inputs, the Data of the labels
	void viewFlavours(std::size_t slot){
		DS const& c = d[slot];
		Flat const& f = sh[slot];
		DataView<DS const> cv(c);
		DataView<UnlabeledData<I> const> uv(c.inputs());
		DataView<Data<unsigned int> const> lv(c.labels());
		if(cv.size() != f.size() || uv.size() != f.size() || lv.size() != f.size()){ fail("view-flavour-size"); return; }
		for(std::size_t i = 0; i != f.size(); ++i){
			if(Elem(Codec<I>::dec(cv[i].input), cv[i].label) != f[i] || cv.index(i) != i){ fail("view-flavour const-LabeledData at=" + std::to_string(i)); break; }
			if(Codec<I>::dec(uv[i]) != f[i].first || uv.index(i) != i){ fail("view-flavour UnlabeledData at=" + std::to_string(i)); break; }
			if(lv[i] != f[i].second || lv.index(i) != i){ fail("view-flavour Data<label> at=" + std::to_string(i)); break; }
		}
		if(f.empty()) return;
		// every third element, back to front, through subset and toDataset of the unlabeled / label views
		std::vector<std::size_t> idx;
		for(std::size_t i = f.size(); i-- > 0; ) if(i % 3 == 0 || i + 40 > f.size()) idx.push_back(i);
		UnlabeledData<I> ub = toDataset(subset(uv, idx), 1000);
		Data<unsigned int> lb = toDataset(subset(lv, idx), 1000);
		if(ub.numberOfElements() != idx.size() || lb.numberOfElements() != idx.size() || ub.getPartitioning() != lb.getPartitioning()){ fail("view-flavour toDataset-structure"); return; }
		auto ur = ub.elements(); auto lr = lb.elements(); auto ui = ur.begin(); auto li = lr.begin();
		for(std::size_t j = 0; j != idx.size(); ++j, ++ui, ++li)
			if(Codec<I>::dec(*ui) != f[idx[j]].first || *li != f[idx[j]].second){ fail("view-flavour toDataset-elements at=" + std::to_string(j)); break; }
	}

	int run(){
		std::string line;
		while(std::getline(std::cin, line)){
			std::vector<std::string> t = vh::tokens(line);
			if(t.empty()){ std::cout << "\n"; continue; }
			std::vector<std::size_t> a, l; bool ok = true, inList = false;
			for(std::size_t i = 1; i < t.size() && ok; ++i){
				if(t[i] == "|"){ inList = true; continue; }
				if(inList) ok = parseSeg(t[i], l);
				else{ for(char c: t[i]) if(c < '0' || c > '9') ok = false; if(ok) a.push_back(std::stoull(t[i])); }
			}
			if(!ok){ std::cout << "bad-op" << std::endl; continue; }
			oracleMsg.clear(); fails = 0;
			std::string status = "ok", extra;
			// which slots the op names as results (the others get the cheap check: contents and partitioning unchanged)
			for(std::size_t k = 0; k != 4; ++k) dirty[k] = false;
			{
				std::string const& o = t[0];
				auto mark = [&](std::size_t i){ if(i < a.size() && a[i] < 4) dirty[a[i]] = true; };
				if(o == "reset" || o == "setel" || o == "vset") for(std::size_t k = 0; k != 4; ++k) dirty[k] = true;
				else if(o == "mk" || o == "mk3" || o == "repart" || o == "splitb" || o == "reorder" || o == "shuffle" || o == "rbc" || o == "indep" || o == "append" || o == "pushb") mark(0);
				else if(o == "splitat" || o == "splice" || o == "swap"){ mark(0); mark(1); }
				else if(o == "subc"){ mark(1); mark(2); }
				else if(o == "subset" || o == "bin" || o == "ovr" || o == "xform" || o == "xlab" || o == "copy" || o == "v2d" || o == "vbat") mark(1);
			}
			if(!valid(t[0], a, l)){ std::cout << "undefined | " << showState() << oracleMsg << std::endl; continue; }
			try{ extra = exec(t[0], a, l); }
			catch(shark::Exception const& e){ status = "exception"; fail(std::string("unexpected-exception ") + t[0]); }
			std::string st = showState();
			std::cout << status << (extra.empty() ? "" : " " + extra) << " | " << st << oracleMsg << std::endl;
		}
		return 0;
	}
};

int main(int argc, char** argv){
	std::string ty = argc > 1 ? argv[1] : "uint";
	if(ty == "uint"){ Scale<unsigned int> h; return h.run(); }
	if(ty == "real"){ Scale<RealVector> h; return h.run(); }
	std::cerr << "unknown element type " << ty << std::endl;
	return 2;
}
