// C03: templates of the dataset headers that must instantiate (checked with -fsyntax-only -Werror=return-type,
// one case per -DCASE; see instantiation_probes in checks/c03.py)
#include <shark/Data/Dataset.h>
#include <shark/Data/DataView.h>
#include <shark/Data/WeightedDataset.h>
using namespace shark;
int main(){
	std::vector<RealVector> in(3, RealVector(2, 1.0)); std::vector<unsigned int> lab(3, 0); std::vector<double> w(3, 1.0);
#if CASE == 1
	// creation of weighted datasets from ranges, with a batch size
	WeightedLabeledData<RealVector, unsigned int> d = createLabeledDataFromRange(in, lab, w, 2);
	WeightedUnlabeledData<RealVector> u = createUnlabeledDataFromRange(in, w, 2);
	return (int)(d.numberOfElements() + u.numberOfElements());
#elif CASE == 2
	// iterator -> const_iterator of a view
	Data<RealVector> d = createDataFromRange(in, 2);
	DataView<Data<RealVector> > v(d);
	DataView<Data<RealVector> >::const_iterator it = v.begin();
	return (int)(*it).size();
#elif CASE == 3
	// const element iterator assigned from a non-const one
	Data<RealVector> d = createDataFromRange(in, 2);
	Data<RealVector>::const_element_range::iterator it;
	it = d.elements().begin();
	return (int)(*it).size();
#endif
}
