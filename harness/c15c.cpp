// K-C15 harness (part C): FisherLDA (global mean, centring of the projected data, stationarity of
// the returned directions for the Fisher criterion).  Same line protocol as c15.cpp.
#include "c15_common.hpp"
#include <shark/Models/LinearModel.h>
#include <shark/Algorithms/Trainers/FisherLDA.h>
using namespace shark;
using namespace c15;

// FisherLDA with access to the protected statistics
struct FisherX : public FisherLDA{
	FisherX(bool whitening, std::size_t dims): FisherLDA(whitening, dims){}
	// the repaired FisherLDA (findings_proposed/C15.md, F-C15-7) returns the Cholesky factor of Sw as a 4th output
	template<class T> static auto call(T& t, LabeledData<RealVector, unsigned int> const& data, RealVector& mean, RealMatrix& scatter, int)
		-> decltype(t.meanAndScatter(data, mean, scatter, scatter), void()){ RealMatrix f; t.meanAndScatter(data, mean, scatter, f); }
	template<class T> static void call(T& t, LabeledData<RealVector, unsigned int> const& data, RealVector& mean, RealMatrix& scatter, long){ t.meanAndScatter(data, mean, scatter); }
	void stats(LabeledData<RealVector, unsigned int> const& data, RealVector& mean, RealMatrix& scatter){ call(*this, data, mean, scatter, 0); }
};

// objects that live as long as a history (`op ; op ; ...`)
struct Session{
	FisherX trainer; LinearModel<> model;
	Session(): trainer(false, 0){}
};

// fisher whitening dims | table + class column
static std::string opFisher(Args& A, Session* S){
	std::size_t whitening = A.nat(), dims = A.nat();
	Table T; if(!T.read(A, 1) || !A.done() || T.d == 0 || whitening > 1) return "bad-op";
	std::size_t d = T.d, n = T.n;
	std::vector<RealVector> X = T.points(); std::vector<unsigned int> y(n);
	std::size_t C = 0;
	for(std::size_t i = 0; i < n; ++i){ if(T.rows[i][d] < 0 || T.rows[i][d] > 64) return "bad-op"; y[i] = (unsigned int)T.rows[i][d]; C = std::max<std::size_t>(C, y[i] + 1); }
	std::size_t nComp = dims ? dims : C;
	if(dims > d) return "bad-op";                   // an explicit subspace dimension must not exceed the input dimension
	// dims = 0 (default = number of classes) may exceed d: the trainer has to cope (finding F-C15-8)
	std::vector<std::size_t> cnt(C, 0); for(std::size_t i = 0; i < n; ++i) ++cnt[y[i]];
	for(std::size_t c = 0; c < C; ++c) if(cnt[c] == 0) return "bad-op";
	Out o;
	LabeledData<RealVector, unsigned int> data = createLabeledDataFromRange(X, y, n);
	data.repartition(T.sizes);
	FisherX freshTrainer(whitening == 1, dims);
	LinearModel<> freshModel; RealVector freshMean(d); RealMatrix freshScatter(d, d);
	// history: trainer (re-configured through its setters) and model are those of the previous step
	FisherX& trainer = S ? S->trainer : freshTrainer;
	LinearModel<>& model = S ? S->model : freshModel;
	RealVector& gmean = freshMean; RealMatrix& scatter = freshScatter;
	if(S){ trainer.setWhitening(whitening == 1); trainer.setSubspaceDimensions(dims); }
	fpClear();
	try{ trainer.stats(data, gmean, scatter); }catch(std::exception const&){ return "exc"; }
	bool inexact = fpInexact();
	try{ trainer.train(model, data); }catch(std::exception const&){ return "exc"; }
	RealMatrix W = model.matrix(); RealVector b = model.offset();
	o.vec("gmean", gmean); o.mat("W", W); o.vec("b", b); o.mat("scatter", scatter);
	if(S){
		LinearModel<> m2; RealVector g2(d); RealMatrix s2(d, d);
		try{ freshTrainer.stats(data, g2, s2); freshTrainer.train(m2, data);
		     if(!sameVec(gmean, g2) || !sameMat(scatter, s2) || !sameMat(W, m2.matrix()) || !sameVec(b, m2.offset())) o.fail("reuse-dependent");
		}catch(std::exception const&){ o.fail("reuse-dependent"); }
		if(trainer.whitening() != (whitening == 1) || trainer.subspaceDimensions() != dims) o.fail("reuse-configuration");
	}
	// ---- oracle (plain loops)
	std::vector<double> mu(d, 0.0); std::vector<std::vector<double> > mc(C, std::vector<double>(d, 0.0));
	for(std::size_t i = 0; i < n; ++i) for(std::size_t j = 0; j < d; ++j){ mu[j] += T.rows[i][j]; mc[y[i]][j] += T.rows[i][j]; }
	for(std::size_t j = 0; j < d; ++j) mu[j] /= (double)n;
	for(std::size_t c = 0; c < C; ++c) for(std::size_t j = 0; j < d; ++j) mc[c][j] /= (double)cnt[c];
	for(std::size_t j = 0; j < d; ++j) if(!close(gmean(j), mu[j], 1e-12)) o.fail("fisher-mean");
	bool finite = true;
	for(std::size_t a = 0; a < W.size1(); ++a){ if(!std::isfinite(b(a))) finite = false; for(std::size_t j = 0; j < d; ++j) if(!std::isfinite(W(a, j))) finite = false; }
	if(!finite){ o.fail("fisher-nonfinite"); return o.line("ok", inexact); }
	std::vector<std::vector<double> > Sw(d, std::vector<double>(d, 0.0)), Sb(d, std::vector<double>(d, 0.0));
	for(std::size_t i = 0; i < n; ++i) for(std::size_t j = 0; j < d; ++j) for(std::size_t k = 0; k < d; ++k)
		Sw[j][k] += (T.rows[i][j] - mc[y[i]][j]) * (T.rows[i][k] - mc[y[i]][k]);
	for(std::size_t c = 0; c < C; ++c) for(std::size_t j = 0; j < d; ++j) for(std::size_t k = 0; k < d; ++k)
		Sb[j][k] += (double)cnt[c] * (mc[c][j] - mu[j]) * (mc[c][k] - mu[k]);
	double trw = 0; for(std::size_t j = 0; j < d; ++j) trw += Sw[j][j];
	bool regular = true;
	{ std::vector<std::vector<double> > Lc(d, std::vector<double>(d, 0.0));
	  for(std::size_t j = 0; j < d && regular; ++j){
		double s = Sw[j][j]; for(std::size_t k = 0; k < j; ++k) s -= Lc[j][k] * Lc[j][k];
		if(!(s > 1e-6 * (1 + trw))){ regular = false; break; }
		Lc[j][j] = std::sqrt(s);
		for(std::size_t i = j + 1; i < d; ++i){ double t = Sw[i][j]; for(std::size_t k = 0; k < j; ++k) t -= Lc[i][k] * Lc[j][k]; Lc[i][j] = t / Lc[j][j]; }
	  } }
	// the projected training data are centred
	double wmax = 1; for(std::size_t a = 0; a < W.size1(); ++a) for(std::size_t j = 0; j < d; ++j) wmax = std::max(wmax, std::fabs(W(a, j)));
	for(std::size_t a = 0; a < W.size1(); ++a){
		double s = 0, sc = 1; for(std::size_t i = 0; i < n; ++i){ double z = b(a); for(std::size_t j = 0; j < d; ++j){ z += W(a, j) * T.rows[i][j]; sc += std::fabs(W(a, j) * T.rows[i][j]); } s += z; }
		if(regular && !(std::fabs(s) <= 1e-8 * sc)) o.fail("fisher-not-centred");
	}
	// every returned direction is a stationary point of the Fisher criterion: Sb w = lambda Sw w
	if(regular){
		for(std::size_t a = 0; a < W.size1(); ++a){
			std::vector<double> bw(d, 0.0), ww(d, 0.0); double num = 0, den = 0;
			for(std::size_t j = 0; j < d; ++j) for(std::size_t k = 0; k < d; ++k){ bw[j] += Sb[j][k] * W(a, k); ww[j] += Sw[j][k] * W(a, k); }
			for(std::size_t j = 0; j < d; ++j){ num += W(a, j) * bw[j]; den += W(a, j) * ww[j]; }
			if(!(den > 0)) continue;
			double lam = num / den, res = 0, sc = 0;
			for(std::size_t j = 0; j < d; ++j){ res = std::max(res, std::fabs(bw[j] - lam * ww[j])); sc = std::max(sc, std::fabs(bw[j]) + std::fabs(lam * ww[j])); }
			if(!(res <= 1e-6 * (sc + 1e-300) || sc <= 1e-9 * (1 + trw) * wmax)) o.fail("fisher-direction-not-stationary");
		}
	}
	// batch-partition independence
	{ std::vector<std::vector<std::size_t> > parts = T.otherPartitions();
	  for(std::size_t p = 0; p < parts.size(); ++p){
		LabeledData<RealVector, unsigned int> other = createLabeledDataFromRange(X, y, n);
		other.repartition(parts[p]);
		LinearModel<> m2; RealVector g2(d); RealMatrix s2(d, d);
		try{ freshTrainer.stats(other, g2, s2); freshTrainer.train(m2, other);
		     if(!closeVec(gmean, g2, 1e-12) || (regular && (!closeMat(W, m2.matrix(), 1e-9) || !closeVec(b, m2.offset(), 1e-9)))) o.fail("batch-dependent");
		}catch(std::exception const&){ o.fail("batch-dependent"); }
	  } }
	return o.line("ok", inexact);
}

static std::string dispatch(std::string const& op, Args& A, Session* S){
	if(op == "fisher") return opFisher(A, S);
	return "bad-op";
}

int main(){ return runProtocol<Session>(dispatch); }
