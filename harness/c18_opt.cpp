// K-C18, second translation unit: optimizers "continue identically".
// Unity build of the optimizer sources of the repo (one compiler job instead of nine).
#include <shark/Algorithms/GradientDescent/SteepestDescent.h>
#include <shark/Algorithms/GradientDescent/Rprop.h>
#include <shark/Algorithms/GradientDescent/Adam.h>
#include <shark/Algorithms/GradientDescent/BFGS.h>
#include <shark/Algorithms/GradientDescent/LBFGS.h>
#include <shark/Algorithms/GradientDescent/CG.h>
#include <shark/Algorithms/GradientDescent/TrustRegionNewton.h>
#include <shark/Algorithms/DirectSearch/CMA.h>
#include <shark/Algorithms/DirectSearch/CMSA.h>
#include <shark/Algorithms/DirectSearch/ElitistCMA.h>
#include <shark/Algorithms/DirectSearch/CrossEntropyMethod.h>
#include <shark/Algorithms/DirectSearch/SimplexDownhill.h>
#include <shark/ObjectiveFunctions/Benchmarks/Rosenbrock.h>
#include <shark/ObjectiveFunctions/Benchmarks/Ellipsoid.h>
#include "common.hpp"
#include "c18.hpp"
#include <src/Core/Random.cpp>
#include <src/Algorithms/GradientDescent/LineSearch.cpp>
#include <src/Algorithms/GradientDescent/AbstractLineSearchOptimizer.cpp>
#include <src/Algorithms/GradientDescent/BFGS.cpp>
#include <src/Algorithms/GradientDescent/LBFGS.cpp>
#include <src/Algorithms/GradientDescent/CG.cpp>
#include <src/Algorithms/GradientDescent/Rprop.cpp>
#include <src/Algorithms/DirectSearch/CMA.cpp>
#include <src/Algorithms/DirectSearch/CMSA.cpp>
#include <src/Algorithms/DirectSearch/ElitistCMA.cpp>
#include <src/Algorithms/DirectSearch/CrossEntropyMethod.cpp>
#include <src/Algorithms/GradientDescent/TrustRegionNewton.cpp>
#include <src/Models/RBFLayer.cpp>

using namespace shark;
namespace {
template<class V> std::string vecStr(V const& v){
	std::ostringstream os; os << "(";
	for(std::size_t i = 0; i != v.size(); ++i){ if(i) os << ","; os << vh::exactDouble(v(i)); }
	os << ")"; return os.str();
}
// configuration applied to the ORIGINAL only (the fresh optimizer keeps its defaults, so archived
// configuration must come back through the archive)
template<class Opt> void configure(Opt&){}
void configure(SteepestDescent<>& o){ o.setLearningRate(0.0005); o.setMomentum(0.25); }

// k steps, write; the TARGET was initialised on the same objective from another point and has taken two steps
// of its own (a used optimizer); the archive is read twice; the archive of the restored optimizer must be the
// archive of the original byte for byte; then the next three iterates are compared exactly. For the
// optimizers that draw from the global generator its state is rewound before the restored one continues.
template<class Opt, class F>
std::string continues(std::string const& label, F& f, std::size_t warm, bool binary, bool reseed = false){
	RealVector start(3); start(0) = -1.5; start(1) = 0.5; start(2) = 2.0;
	RealVector other(3); other(0) = 0.25; other(1) = -0.75; other(2) = 1.0;
	Opt a, b;
	f.init();
	if(reseed) random::globalRng.seed(42);
	configure(a);
	a.init(f, start);
	for(std::size_t i = 0; i != warm; ++i) a.step(f);
	std::ostringstream rngAfterWarm;
	if(reseed) rngAfterWarm << random::globalRng;
	b.init(f, other); b.step(f); b.step(f);
	std::string bytesA = c18::bytes(a, binary);
	c18::load(bytesA, b, binary); c18::load(bytesA, b, binary);
	std::string bytesB = c18::bytes(b, binary);
	if(reseed){ std::istringstream is(rngAfterWarm.str()); is >> random::globalRng; }
	std::string A, B;
	std::ostringstream rngState;
	if(reseed) rngState << random::globalRng;
	for(std::size_t i = 0; i != 3; ++i){ a.step(f); A += vecStr(a.solution().point) + "=" + vh::exactDouble(a.solution().value) + ";"; }
	if(reseed){ std::istringstream is(rngState.str()); is >> random::globalRng; }
	for(std::size_t i = 0; i != 3; ++i){ b.step(f); B += vecStr(b.solution().point) + "=" + vh::exactDouble(b.solution().value) + ";"; }
	// (text archives cannot represent inf/nan: boost's text_iarchive fails with "input stream error";
	//  the generator keeps the iterates finite, a non-finite state is reported as such)
	if(A.find("inf") != std::string::npos || A.find("nan") != std::string::npos) return "obj " + label + " non-finite-state";
	if(A != B) return c18::differs(label, "next-iterates-differ", A, B);
	if(bytesA != bytesB) return c18::differs(label, "rewritten-archive-differs", binary ? "(binary)" : bytesA, binary ? "(binary)" : bytesB);
	return "obj " + label + " same";
}
}

std::string c18::runOptimizer(std::string const& label, bool binary){
	benchmarks::Rosenbrock rosen(3);
	benchmarks::Ellipsoid elli(3);
	std::size_t warm = 2;
	std::string base = label;
	std::size_t dash = label.rfind("-after-");
	if(dash != std::string::npos){ warm = std::stoull(label.substr(dash + 7)); base = label.substr(0, dash); }
	if(base == "SteepestDescent") return continues<SteepestDescent<> >(label, rosen, warm, binary);
	if(base == "Rprop") return continues<Rprop<> >(label, rosen, warm, binary);
	if(base == "Adam") return continues<Adam<> >(label, rosen, warm, binary);
	if(base == "BFGS") return continues<BFGS<> >(label, rosen, warm, binary);
	if(base == "LBFGS") return continues<LBFGS<> >(label, rosen, warm, binary);
	if(base == "CG") return continues<CG<> >(label, rosen, warm, binary);
	if(base == "TrustRegionNewton") return continues<TrustRegionNewton>(label, rosen, warm, binary);
	if(base == "CMA") return continues<CMA>(label, elli, warm, binary, true);
	if(base == "CMSA") return continues<CMSA>(label, elli, warm, binary, true);
	if(base == "ElitistCMA") return continues<ElitistCMA>(label, elli, warm, binary, true);
	if(base == "CrossEntropyMethod") return continues<CrossEntropyMethod>(label, elli, warm, binary, true);
	if(base == "SimplexDownhill") return continues<SimplexDownhill>(label, rosen, warm, binary);
	return "bad-op";
}
