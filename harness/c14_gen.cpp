// K-C14 (generation-step part): exact correspondence harness for PenalizingEvaluator,
// TournamentSelection and the updatePopulation() of the real optimizers on integer populations.
// One op per stdin line, one observation line per op (format of lean/Driver/C14.lean).
//   pen alpha d m n lo(d) hi(d) A(m*d) B(m) pts(n*d)
//        real PenalizingEvaluator on the objective f_k(x) = A_k.x + B_k |x|^2 with box [lo,hi]
//   tour seed k n c ranks(n) aux draws(k*c)
//        real TournamentSelection<RankOrdering>(k), batch overload with c outputs; the values drawn from
//        the rng are observed by replaying a copy of the generator
//   upd algo refflag mu m d T steps [r(m)] parents(mu*(d+m)) {c off(c*(d+2m))}^steps [aux ...]
//        real optimizer object (through a probe subclass): doInit() with the given points/values, then per step
//        generateOffspring() (real chromosomes), search points / fitness values overwritten by the given
//        integers, updatePopulation(); the parent population is printed after init and after every step
// With the argument --aux the program prints, per op line, the auxiliary values the model takes as inputs
// (rng draws; MOEA/D neighbourhoods; RVEA group assignment and order keys of the angle-penalised distances).
// In normal mode the same values are recomputed and must equal the `aux` part of the op.
// Oracles (independent): evaluator: value = f(closest feasible point), penalty; tournament: winner has the best
// rank among the drawn; updates: |parents| = mu, solution() mirrors the parents, every survivor is one of
// parents+offspring, elitism w.r.t. non-domination ranks (indicator-based algorithms), hypervolume never
// decreases (steady-state algorithms with reference point).
#include <shark/Algorithms/DirectSearch/MOCMA.h>
#include <shark/Algorithms/DirectSearch/SteadyStateMOCMA.h>
#include <shark/Algorithms/DirectSearch/SMS-EMOA.h>
#include <shark/Algorithms/DirectSearch/RealCodedNSGAII.h>
#include <shark/Algorithms/DirectSearch/RealCodedNSGAIII.h>
#include <shark/Algorithms/DirectSearch/MOEAD.h>
#include <shark/Algorithms/DirectSearch/RVEA.h>
#include <shark/Algorithms/DirectSearch/Operators/Lattice.h>
#include <shark/ObjectiveFunctions/AbstractObjectiveFunction.h>
#include <shark/ObjectiveFunctions/BoxConstraintHandler.h>
#include "common.hpp"
#include <algorithm>
#include <map>
#include <set>

using namespace shark;
typedef std::vector<long long> Ints;
typedef std::vector<double> Pt;
static bool g_aux = false;

static bool parseInts(std::vector<std::string> const& t, std::size_t from, std::size_t to, Ints& out){
	out.clear();
	for(std::size_t i = from; i < to; ++i){
		std::string const& s = t[i];
		if(s.empty() || s.size() > 12) return false;
		std::size_t b = (s[0] == '-') ? 1 : 0;
		if(b == s.size()) return false;
		for(std::size_t c = b; c < s.size(); ++c) if(s[c] < '0' || s[c] > '9') return false;
		out.push_back(std::stoll(s));
	}
	return true;
}
static std::string showV(RealVector const& v){
	std::string s;
	for(std::size_t i = 0; i != v.size(); ++i) s += (i ? "," : "") + vh::intval(v(i));
	return s;
}
static std::string showB(RealVector const& v){
	std::string s = "[";
	for(std::size_t i = 0; i != v.size(); ++i) s += (i ? "," : "") + vh::intval(v(i));
	return s + "]";
}

// ---------------------------------------------------------------- objective for `pen`
struct LinQuad: public MultiObjectiveFunction{
	std::vector<RealVector> A; RealVector B; BoxConstraintHandler<RealVector> handler; std::size_t d;
	LinQuad(std::vector<RealVector> const& A, RealVector const& B, RealVector const& lo, RealVector const& hi)
	: A(A), B(B), handler(lo, hi), d(lo.size()){ announceConstraintHandler(&handler); }
	std::string name() const{ return "LinQuad"; }
	std::size_t numberOfObjectives() const{ return A.size(); }
	std::size_t numberOfVariables() const{ return d; }
	ResultType eval(SearchPointType const& x) const{
		RealVector r(A.size());
		for(std::size_t k = 0; k != A.size(); ++k) r(k) = inner_prod(A[k], x) + B(k) * norm_sqr(x);
		return r;
	}
};

// ---------------------------------------------------------------- independent helpers for the oracles
static bool weakDom(Pt const& p, Pt const& q){ for(std::size_t i = 0; i != p.size(); ++i) if(p[i] > q[i]) return false; return true; }
static bool strictDom(Pt const& p, Pt const& q){ return weakDom(p, q) && !weakDom(q, p); }
static std::vector<unsigned> ranksByDefinition(std::vector<Pt> const& P){
	std::size_t n = P.size(); std::vector<unsigned> r(n, 0); std::size_t done = 0; unsigned level = 1;
	while(done < n){
		std::vector<std::size_t> cur;
		for(std::size_t i = 0; i != n; ++i) if(!r[i]){
			bool dom = false;
			for(std::size_t j = 0; j != n && !dom; ++j) if(!r[j] && strictDom(P[j], P[i])) dom = true;
			if(!dom) cur.push_back(i);
		}
		for(std::size_t i: cur) r[i] = level;
		done += cur.size(); ++level;
	}
	return r;
}
static double hv2(std::vector<std::pair<double,double> > in, double r0, double r1){
	std::sort(in.begin(), in.end());
	double area = 0, best = r1;
	for(auto const& p: in) if(p.first < r0 && p.second < best){ area += (r0 - p.first) * (best - p.second); best = p.second; }
	return area;
}
static double hypervolume(std::vector<Pt> const& pts, Pt const& ref){
	std::size_t m = ref.size(); std::vector<Pt> in;
	for(auto const& p: pts){ bool ok = true; for(std::size_t j = 0; j != m; ++j) ok = ok && p[j] < ref[j]; if(ok) in.push_back(p); }
	std::vector<std::pair<double,double> > q;
	if(m == 2){ for(auto const& p: in) q.push_back(std::make_pair(p[0], p[1])); return hv2(q, ref[0], ref[1]); }
	std::sort(in.begin(), in.end(), [](Pt const& a, Pt const& b){ return a[2] < b[2]; });
	double vol = 0;
	for(std::size_t i = 0; i != in.size(); ++i){
		q.push_back(std::make_pair(in[i][0], in[i][1]));
		double top = (i + 1 != in.size()) ? in[i+1][2] : ref[2];
		if(top - in[i][2] > 0) vol += hv2(q, ref[0], ref[1]) * (top - in[i][2]);
	}
	return vol;
}

// ---------------------------------------------------------------- probes
template<class Base>
struct Probe: public Base{
	typedef typename Base::IndividualType Ind;
	explicit Probe(random::rng_type& rng): Base(rng){}
	std::vector<Ind>& parents(){ return this->m_parents; }
	std::vector<Ind> offspring() const{ return this->generateOffspring(); }
	void update(std::vector<Ind> const& o){ this->updatePopulation(o); }
	template<class... Args> void init(Args&&... a){ this->doInit(std::forward<Args>(a)...); }
};
struct Key{ std::vector<double> v; bool operator<(Key const& o) const{ return v < o.v; } };
template<class I> static Key keyOf(I const& p){
	Key k;
	k.v.insert(k.v.end(), p.searchPoint().begin(), p.searchPoint().end()); k.v.push_back(1e300);
	k.v.insert(k.v.end(), p.penalizedFitness().begin(), p.penalizedFitness().end()); k.v.push_back(1e300);
	k.v.insert(k.v.end(), p.unpenalizedFitness().begin(), p.unpenalizedFitness().end());
	return k;
}
template<class I> static std::string showPop(std::vector<I> const& pop){
	std::string s;
	for(std::size_t i = 0; i != pop.size(); ++i){
		if(i) s += ";";
		s += showV(pop[i].searchPoint()) + ":" + showV(pop[i].penalizedFitness()) + ":" + showV(pop[i].unpenalizedFitness())
			+ ":" + std::to_string(pop[i].rank()) + ":" + (pop[i].selected() ? "1" : "0");
	}
	return s;
}

struct UpdOp{
	std::string algo; bool ref; std::size_t mu, m, d, T, steps; RealVector r;
	std::vector<RealVector> px, pf;                                  // initial parents
	std::vector<std::vector<std::vector<RealVector> > > off;        // per step, per offspring: x, pen, unpen
	Ints aux; bool hasAux;
};

static RealVector takeVec(Ints const& a, std::size_t& pos, std::size_t n){
	RealVector v(n); for(std::size_t i = 0; i != n; ++i) v(i) = (double)a[pos++]; return v;
}

// runs the history; Init = callable performing doInit on the probe
template<class Base, class InitF>
static std::string runUpd(UpdOp const& op, InitF doInit, bool indicatorBased, bool steadyHv, std::string& orc){
	random::rng_type rng(7);
	random::globalRng.seed(7);
	Probe<Base> opt(rng);
	doInit(opt);
	typedef typename Probe<Base>::Ind Ind;
	std::string out = showPop(opt.parents());
	Pt ref(op.r.begin(), op.r.end());
	for(std::size_t s = 0; s != op.steps; ++s){
		std::vector<Ind> before = opt.parents();
		std::vector<Ind> o = opt.offspring();
		if(o.size() != op.off[s].size()){ orc += " !oracle offspring-count " + std::to_string(o.size()); return out; }
		for(std::size_t i = 0; i != o.size(); ++i){
			o[i].searchPoint() = op.off[s][i][0]; o[i].penalizedFitness() = op.off[s][i][1]; o[i].unpenalizedFitness() = op.off[s][i][2];
		}
		opt.update(o);
		std::vector<Ind> const& after = opt.parents();
		out += " / " + showPop(after);
		// ---- oracles
		if(after.size() != op.mu || opt.solution().size() != op.mu) orc += " !oracle size step=" + std::to_string(s + 1);
		else for(std::size_t i = 0; i != op.mu; ++i){
			auto const& sol = opt.solution()[i];
			if(showV(sol.point) != showV(after[i].searchPoint()) || showV(sol.value) != showV(after[i].unpenalizedFitness())){
				orc += " !oracle mirror step=" + std::to_string(s + 1) + " i=" + std::to_string(i); break; }
		}
		std::multiset<Key> pool;
		for(auto const& p: before) pool.insert(keyOf(p));
		for(auto const& p: o) pool.insert(keyOf(p));
		std::multiset<Key> rest = pool; bool invented = false;
		for(auto const& p: after){ auto it = rest.find(keyOf(p)); if(it == rest.end()){ invented = true; break; } if(indicatorBased) rest.erase(it); }
		if(invented) orc += " !oracle survivor-not-from-pool step=" + std::to_string(s + 1);
		if(indicatorBased && !invented){
			// elitism: ranks by definition on parents+offspring (penalized fitness)
			std::vector<Pt> P; std::vector<Key> K;
			for(auto const& p: before){ P.push_back(Pt(p.penalizedFitness().begin(), p.penalizedFitness().end())); K.push_back(keyOf(p)); }
			for(auto const& p: o){ P.push_back(Pt(p.penalizedFitness().begin(), p.penalizedFitness().end())); K.push_back(keyOf(p)); }
			std::vector<unsigned> rk = ranksByDefinition(P);
			std::multiset<Key> kept; for(auto const& p: after) kept.insert(keyOf(p));
			unsigned worstKept = 0, bestDropped = 1000000;
			// individuals with equal key have equal rank: assign kept copies first
			for(std::size_t i = 0; i != P.size(); ++i){
				auto it = kept.find(K[i]);
				if(it != kept.end()){ kept.erase(it); worstKept = std::max(worstKept, rk[i]); }
				else bestDropped = std::min(bestDropped, rk[i]);
			}
			if(worstKept > bestDropped) orc += " !oracle elitism step=" + std::to_string(s + 1);
		}
		if(steadyHv && op.ref){
			std::vector<Pt> a, b;
			for(auto const& p: before) b.push_back(Pt(p.penalizedFitness().begin(), p.penalizedFitness().end()));
			for(auto const& p: after) a.push_back(Pt(p.penalizedFitness().begin(), p.penalizedFitness().end()));
			if(hypervolume(a, ref) < hypervolume(b, ref)) orc += " !oracle hvdecrease step=" + std::to_string(s + 1);
		}
	}
	return out;
}

// ---------------------------------------------------------------- RVEA with observed group / apd keys
typedef Individual<RealVector, RealVector> RInd;
static std::string runRvea(UpdOp const& op, std::string& orc, std::string& auxOut){
	random::rng_type rng(7);
	Probe<RVEA> opt(rng);
	std::size_t maxIter = 10; double alpha = 2.0, fr = 0.1;
	RealVector lo(op.d, -1e6), hi(op.d, 1e6);
	opt.init(op.px, op.pf, lo, hi, op.mu, 20.0, 20.0, 0.9, alpha, fr, maxIter);
	// replica of the private state
	std::size_t ticks = computeOptimalLatticeTicks(op.m, op.mu);
	RealMatrix refs = unitVectorsOnLattice(op.m, ticks);
	ReferenceVectorAdaptation<RInd> adapt; adapt.m_initVecs = refs;
	RealVector gammas(refs.size1());
	adapt.updateAngles(refs, gammas);
	if(opt.parents().size() != op.mu){ orc += " !oracle rvea-mu " + std::to_string(opt.parents().size()); return ""; }
	std::string out = showPop(opt.parents());
	std::size_t auxPos = 0;
	for(std::size_t s = 0; s != op.steps; ++s){
		std::vector<RInd> o = opt.offspring();
		if(o.size() != op.off[s].size()){ orc += " !oracle offspring-count"; return out; }
		for(std::size_t i = 0; i != o.size(); ++i){
			o[i].searchPoint() = op.off[s][i][0]; o[i].penalizedFitness() = op.off[s][i][1]; o[i].unpenalizedFitness() = op.off[s][i][2];
		}
		// observe the floating-point part of ReferenceVectorGuidedSelection on parents+offspring
		std::vector<RInd> all = opt.parents(); all.insert(all.end(), o.begin(), o.end());
		typedef ReferenceVectorGuidedSelection<RInd> Sel;
		RealMatrix fit = Sel::extractPopulationFitness(all);
		RealVector mn = Sel::minCol(fit);
		fit -= repeat(mn, fit.size1());
		RealMatrix cosA = Sel::cosAngles(fit, refs);
		RealMatrix angles = acos(cosA);
		std::vector<std::set<std::size_t> > groups = Sel::populationPartition(cosA);
		double theta = fit.size2() * std::pow(double(s + 1) / double(maxIter), alpha);
		std::size_t n = all.size();
		std::vector<long long> grp(n, 0); std::vector<double> apd(n, 0);
		for(std::size_t j = 0; j != groups.size(); ++j) for(std::size_t i: groups[j]){
			grp[i] = (long long)j;
			double a = 1 + theta * angles(i, j) / gammas[j];
			a *= norm_2(row(fit, i));
			apd[i] = a;
		}
		std::vector<double> uniq;
		for(std::size_t i = 0; i != n; ++i) if(apd[i] < 1e5) uniq.push_back(apd[i]);
		std::sort(uniq.begin(), uniq.end()); uniq.erase(std::unique(uniq.begin(), uniq.end()), uniq.end());
		std::vector<long long> key(n, -1);
		for(std::size_t i = 0; i != n; ++i) if(apd[i] < 1e5) key[i] = std::lower_bound(uniq.begin(), uniq.end(), apd[i]) - uniq.begin();
		for(std::size_t i = 0; i != n; ++i) auxOut += " " + std::to_string(grp[i]);
		for(std::size_t i = 0; i != n; ++i) auxOut += " " + std::to_string(key[i]);
		if(!g_aux){
			for(std::size_t i = 0; i != n; ++i) if(auxPos + n + i >= op.aux.size() || op.aux[auxPos + i] != grp[i] || op.aux[auxPos + n + i] != key[i]){ orc += " !oracle aux-mismatch step=" + std::to_string(s + 1); break; }
			auxPos += 2 * n;
		}
		opt.update(o);
		out += " / " + showPop(opt.parents());
		if(opt.parents().size() != op.mu || opt.solution().size() != op.mu) orc += " !oracle size step=" + std::to_string(s + 1);
		else for(std::size_t i = 0; i != op.mu; ++i) if(showV(opt.solution()[i].point) != showV(opt.parents()[i].searchPoint())
			|| showV(opt.solution()[i].value) != showV(opt.parents()[i].unpenalizedFitness())){ orc += " !oracle mirror step=" + std::to_string(s + 1); break; }
		std::multiset<Key> pool; for(auto const& p: all) pool.insert(keyOf(p));
		for(auto const& p: opt.parents()){ auto it = pool.find(keyOf(p)); if(it == pool.end()){ orc += " !oracle survivor-not-from-pool step=" + std::to_string(s + 1); break; } pool.erase(it); }
		// follow the reference-vector adaptation (same condition and functor as RVEA::updatePopulation)
		if(s % static_cast<std::size_t>(std::ceil(fr * maxIter)) == 0) adapt(opt.parents(), refs, gammas);
	}
	return out;
}

// ---------------------------------------------------------------- NSGA-III: replica of the floating-point association step
// (copy of NSGA3Indicator::leastContributors up to `pairing`; its result is an observed INPUT of the model)
static RealVector nsga3Normalizer(std::vector<RealVector> const& points){
	double epsilon = 0.00001;
	std::size_t dimensions = points.front().size();
	RealMatrix cornerPoints(dimensions, dimensions,0.0);
	for(std::size_t dim = 0; dim != dimensions; ++dim){
		KeyValuePair<double,std::size_t> best(std::numeric_limits<double>::max(),0);
		for(std::size_t i = 0; i != points.size(); ++i){
			auto const& point = points[i];
			double dist = epsilon * sum(point) + (1-epsilon) * point[dim];
			best = std::min(best,makeKeyValuePair(dist,i));
		}
		noalias(row(cornerPoints,dim)) = points[best.value];
	}
	RealMatrix A = trans((cornerPoints|1)) % (cornerPoints|1);
	RealVector b = trans((cornerPoints|1)) % blas::repeat(-1.0,dimensions);
	blas::symm_pos_semi_definite_solver<RealMatrix> solver(A);
	if(solver.rank() == dimensions){
		solver.solve(b, blas::left());
		RealVector w = subrange(b,0,dimensions);
		if(min(w) >= 0) return blas::repeat(1.0,dimensions)/w;
	}
	RealVector nadir = points.front();
	for(auto& point: points) noalias(nadir) = max(nadir,point);
	for(std::size_t i = 0; i != nadir.size(); ++i) if(!(nadir(i) > 0)) nadir(i) = 1.0;
	return nadir;
}
// (distance, reference index) per point of archive ++ front
static std::vector<std::pair<double,std::size_t> > nsga3Assoc(std::vector<RealVector> points, std::vector<RealVector> const& Z){
	RealVector ideal = points.front();
	for(auto& point: points) noalias(ideal) = min(ideal,point);
	for(auto& point: points) noalias(point) = point - ideal;
	RealVector normalizer = nsga3Normalizer(points);
	for(auto& point: points) noalias(point) = point/ normalizer;
	std::vector<std::pair<double,std::size_t> > res(points.size(), std::make_pair(std::numeric_limits<double>::max(), std::size_t(0)));
	for(std::size_t j = 0; j != points.size(); ++j)
		for(std::size_t i = 0; i != Z.size(); ++i){
			double dist = norm_sqr(points[j]) - sqr(inner_prod(Z[i],points[j]));
			if(dist < res[j].first) res[j] = std::make_pair(dist, i);
		}
	return res;
}

typedef Individual<RealVector, RealVector> NInd;
// association for the call IndicatorBasedSelection makes on `all` (ranks by definition): "count nz k z k z ..."
static std::string nsga3StepAux(std::vector<NInd> const& all, std::size_t mu, std::vector<RealVector> const& Z){
	std::vector<Pt> P; for(auto const& x: all) P.push_back(Pt(x.penalizedFitness().begin(), x.penalizedFitness().end()));
	std::vector<unsigned> rk = ranksByDefinition(P);
	unsigned maxRank = 0; for(unsigned r: rk) maxRank = std::max(maxRank, r);
	std::size_t popSize = all.size(); unsigned R = maxRank;
	for(;; --R){
		std::size_t fs = 0; for(unsigned r: rk) if(r == R) ++fs;
		if(R == 0 || popSize - fs < mu) break;
		popSize -= fs;
	}
	std::vector<RealVector> pts;
	for(unsigned r = 1; r < R; ++r) for(std::size_t i = 0; i != all.size(); ++i) if(rk[i] == r) pts.push_back(all[i].penalizedFitness());
	for(std::size_t i = 0; i != all.size(); ++i) if(rk[i] == R) pts.push_back(all[i].penalizedFitness());
	auto as = nsga3Assoc(pts, Z);
	std::vector<double> u; for(auto const& a: as) u.push_back(a.first);
	std::sort(u.begin(), u.end()); u.erase(std::unique(u.begin(), u.end()), u.end());
	std::string s = " " + std::to_string(as.size()) + " " + std::to_string(Z.size());
	for(auto const& a: as) s += " " + std::to_string(std::lower_bound(u.begin(), u.end(), a.first) - u.begin()) + " " + std::to_string(a.second);
	return s;
}
static std::string runNsga3(UpdOp const& op, std::string& orc, std::string& auxOut){
	random::rng_type rng(7);
	Probe<RealCodedNSGAIII> opt(rng);
	RealVector lo(op.d, -1e6), hi(op.d, 1e6);
	opt.init(op.px, op.pf, lo, hi, op.mu, 20.0, 20.0, 0.9);
	// reference directions: set explicitly to the lattice the optimizer uses (unit vectors on the lattice)
	RealMatrix refs = unitVectorsOnLattice(op.m, computeOptimalLatticeTicks(op.m, op.mu));
	std::vector<RealVector> Z; for(std::size_t i = 0; i != refs.size1(); ++i) Z.push_back(row(refs, i));
	opt.indicator().setReferencePoints(Z);
	for(auto& z: Z) z /= norm_2(z);
	std::string out = showPop(opt.parents());
	std::size_t auxPos = 0;
	for(std::size_t s = 0; s != op.steps; ++s){
		std::vector<NInd> before = opt.parents();
		std::vector<NInd> o = opt.offspring();
		if(o.size() != op.off[s].size()){ orc += " !oracle offspring-count"; return out; }
		for(std::size_t i = 0; i != o.size(); ++i){
			o[i].searchPoint() = op.off[s][i][0]; o[i].penalizedFitness() = op.off[s][i][1]; o[i].unpenalizedFitness() = op.off[s][i][2];
		}
		std::vector<NInd> all = before; all.insert(all.end(), o.begin(), o.end());
		std::string a = nsga3StepAux(all, op.mu, Z);
		auxOut += a;
		if(!g_aux){
			Ints want; { std::vector<std::string> t = vh::tokens(a); parseInts(t, 0, t.size(), want); }
			bool same = auxPos + want.size() <= op.aux.size();
			for(std::size_t i = 0; same && i != want.size(); ++i) same = op.aux[auxPos + i] == want[i];
			if(!same) orc += " !oracle aux-mismatch step=" + std::to_string(s + 1);
			auxPos += want.size();
		}
		opt.update(o);
		std::vector<NInd> const& after = opt.parents();
		out += " / " + showPop(after);
		if(after.size() != op.mu || opt.solution().size() != op.mu) orc += " !oracle size step=" + std::to_string(s + 1);
		std::multiset<Key> pool; for(auto const& p: all) pool.insert(keyOf(p));
		for(auto const& p: after){ auto it = pool.find(keyOf(p)); if(it == pool.end()){ orc += " !oracle survivor-not-from-pool step=" + std::to_string(s + 1); break; } pool.erase(it); }
		// elitism w.r.t. ranks by definition
		std::vector<Pt> P; std::vector<Key> K;
		for(auto const& p: all){ P.push_back(Pt(p.penalizedFitness().begin(), p.penalizedFitness().end())); K.push_back(keyOf(p)); }
		std::vector<unsigned> rk = ranksByDefinition(P);
		std::multiset<Key> kept; for(auto const& p: after) kept.insert(keyOf(p));
		unsigned worstKept = 0, bestDropped = 1000000;
		for(std::size_t i = 0; i != P.size(); ++i){ auto it = kept.find(K[i]); if(it != kept.end()){ kept.erase(it); worstKept = std::max(worstKept, rk[i]); } else bestDropped = std::min(bestDropped, rk[i]); }
		if(worstKept > bestDropped) orc += " !oracle elitism step=" + std::to_string(s + 1);
	}
	return out;
}

static std::string handle(std::string const& line, std::string& orc){
	std::vector<std::string> t = vh::tokens(line);
	if(t.empty()) return "";
	std::size_t auxAt = std::find(t.begin(), t.end(), "aux") - t.begin();
	Ints a, aux;
	if(t[0] == "pen"){
		if(!parseInts(t, 1, t.size(), a) || a.size() < 4) return "bad-op";
		long long alpha = a[0]; std::size_t d = a[1], m = a[2], n = a[3];
		if(d < 1 || d > 8 || m < 1 || m > 4 || n > 64 || a.size() != 4 + 2*d + m*d + m + n*d) return "bad-op";
		if(g_aux) return "";
		std::size_t pos = 4;
		RealVector lo = takeVec(a, pos, d), hi = takeVec(a, pos, d);
		std::vector<RealVector> A; for(std::size_t k = 0; k != m; ++k) A.push_back(takeVec(a, pos, d));
		RealVector B = takeVec(a, pos, m);
		LinQuad f(A, B, lo, hi);
		PenalizingEvaluator ev; ev.m_penaltyFactor = (double)alpha;
		std::vector<RInd> pop(n);
		for(std::size_t i = 0; i != n; ++i) pop[i].searchPoint() = takeVec(a, pos, d);
		ev(f, pop.begin(), pop.end());
		std::string out;
		for(std::size_t i = 0; i != n; ++i){
			RealVector const& x = pop[i].searchPoint();
			bool feas = true; RealVector c(d); double dist = 0;
			for(std::size_t j = 0; j != d; ++j){ c(j) = x(j) < lo(j) ? lo(j) : (x(j) > hi(j) ? hi(j) : x(j)); if(c(j) != x(j)) feas = false; dist += (c(j)-x(j))*(c(j)-x(j)); }
			out += std::string(i ? " " : "") + "u=" + showB(pop[i].unpenalizedFitness()) + " p=" + showB(pop[i].penalizedFitness()) + " feas=" + (f.isFeasible(x) ? "1" : "0");
			for(std::size_t k = 0; k != m; ++k){
				double want = 0; for(std::size_t j = 0; j != d; ++j) want += A[k](j)*c(j) + B(k)*c(j)*c(j);
				if(pop[i].unpenalizedFitness()(k) != want){ orc += " !oracle value-not-f-at-closest-feasible i=" + std::to_string(i); break; }
				if(pop[i].penalizedFitness()(k) != want + alpha * dist){ orc += " !oracle penalty i=" + std::to_string(i); break; }
			}
			if(feas != f.isFeasible(x)) orc += " !oracle feasible i=" + std::to_string(i);
		}
		return out;
	}
	if(t[0] == "tour"){
		if(!parseInts(t, 1, auxAt, a) || a.size() < 4) return "bad-op";
		std::size_t seed = a[0], k = a[1], n = a[2], c = a[3];
		if(k < 1 || k > 8 || n <= k || n > 64 || c < 1 || c > 32 || a.size() != 4 + n) return "bad-op";
		std::vector<RInd> pop(n), out(c);
		for(std::size_t i = 0; i != n; ++i){ pop[i].rank() = (unsigned)a[4 + i]; pop[i].searchPoint() = RealVector(1, (double)i); }
		random::rng_type rng((unsigned)seed), copy((unsigned)seed);
		TournamentSelection<RInd::RankOrdering> sel(k);
		sel(rng, pop.begin(), pop.end(), out.begin(), out.end());
		std::vector<long long> draws;
		for(std::size_t i = 0; i != k * c; ++i) draws.push_back((long long)random::discrete(copy, std::size_t(0), n - 1));
		if(g_aux){ std::string s; for(auto v: draws) s += " " + std::to_string(v); return s; }
		if(auxAt == t.size() || !parseInts(t, auxAt + 1, t.size(), aux) || aux != draws) orc += " !oracle aux-mismatch";
		if(!(rng == copy)) orc += " !oracle rng-stream";
		std::string s = "winners=[";
		for(std::size_t j = 0; j != c; ++j){
			std::size_t w = (std::size_t)out[j].searchPoint()(0);
			s += (j ? "," : "") + std::to_string(w);
			bool drawn = false; unsigned best = 1000000;
			for(std::size_t i = 0; i != k; ++i){ best = std::min(best, pop[draws[j*k+i]].rank()); if((std::size_t)draws[j*k+i] == w) drawn = true; }
			if(!drawn || pop[w].rank() != best) orc += " !oracle tournament-winner j=" + std::to_string(j);
		}
		return s + "]";
	}
	if(t[0] == "upd" && t.size() > 8){
		UpdOp op; op.algo = t[1];
		if(!parseInts(t, 2, auxAt, a) || a.size() < 6) return "bad-op";
		op.hasAux = auxAt != t.size();
		if(op.hasAux && !parseInts(t, auxAt + 1, t.size(), op.aux)) return "bad-op";
		op.ref = a[0] == 1; op.mu = a[1]; op.m = a[2]; op.d = a[3]; op.T = a[4]; op.steps = a[5];
		if(op.mu < 1 || op.mu > 40 || op.m < 2 || op.m > 3 || op.d < 1 || op.d > 6 || op.steps > 50) return "bad-op";
		std::size_t pos = 6;
		std::size_t need = 6 + (op.ref ? op.m : 0) + op.mu * (op.d + op.m);
		if(a.size() < need) return "bad-op";
		if(op.ref) op.r = takeVec(a, pos, op.m);
		for(std::size_t i = 0; i != op.mu; ++i){ op.px.push_back(takeVec(a, pos, op.d)); op.pf.push_back(takeVec(a, pos, op.m)); }
		for(std::size_t s = 0; s != op.steps; ++s){
			if(pos >= a.size()) return "bad-op";
			std::size_t c = a[pos++];
			if(c > 40 || pos + c * (op.d + 2*op.m) > a.size()) return "bad-op";
			std::vector<std::vector<RealVector> > os;
			for(std::size_t i = 0; i != c; ++i){
				std::vector<RealVector> ind; ind.push_back(takeVec(a, pos, op.d)); ind.push_back(takeVec(a, pos, op.m)); ind.push_back(takeVec(a, pos, op.m));
				os.push_back(ind);
			}
			op.off.push_back(os);
		}
		if(pos != a.size()) return "bad-op";
		RealVector lo(op.d, -1e6), hi(op.d, 1e6);
		std::string out;
		if(op.algo == "smsemoa"){
			out = runUpd<SMSEMOA>(op, [&](Probe<SMSEMOA>& o){ if(op.ref) o.indicator().setReference(op.r); o.init(op.px, op.pf, lo, hi, op.mu, 20.0, 20.0, 0.9); }, true, true, orc);
		}else if(op.algo == "nsga2"){
			out = runUpd<CrowdingRealCodedNSGAII>(op, [&](Probe<CrowdingRealCodedNSGAII>& o){ o.init(op.px, op.pf, lo, hi, op.mu, 20.0, 20.0, 0.9); }, true, false, orc);
		}else if(op.algo == "nsga2eps"){
			out = runUpd<EpsRealCodedNSGAII>(op, [&](Probe<EpsRealCodedNSGAII>& o){ o.init(op.px, op.pf, lo, hi, op.mu, 20.0, 20.0, 0.9); }, true, false, orc);
		}else if(op.algo == "nsga2hv"){
			out = runUpd<RealCodedNSGAII>(op, [&](Probe<RealCodedNSGAII>& o){ if(op.ref) o.indicator().setReference(op.r); o.init(op.px, op.pf, lo, hi, op.mu, 20.0, 20.0, 0.9); }, true, false, orc);
		}else if(op.algo == "mocma"){
			out = runUpd<MOCMA>(op, [&](Probe<MOCMA>& o){ if(op.ref) o.indicator().setReference(op.r); o.init(op.px, op.pf, op.mu, 1.0); }, true, false, orc);
		}else if(op.algo == "ssmocma"){
			out = runUpd<SteadyStateMOCMA>(op, [&](Probe<SteadyStateMOCMA>& o){ if(op.ref) o.indicator().setReference(op.r); o.init(op.px, op.pf, op.mu, 1.0); }, true, true, orc);
		}else if(op.algo == "moead"){
			std::size_t ticks = computeOptimalLatticeTicks(op.m, op.mu);
			RealMatrix w = weightLattice(op.m, ticks);
			if(w.size1() != op.mu || op.T < 1 || op.T > op.mu) return "bad-op";
			UIntMatrix nb = computeClosestNeighbourIndicesOnLattice(w, op.T);
			Ints nbv; for(std::size_t i = 0; i != nb.size1(); ++i) for(std::size_t j = 0; j != nb.size2(); ++j) nbv.push_back(nb(i, j));
			if(g_aux){ std::string s; for(auto v: nbv) s += " " + std::to_string(v); return s; }
			if(nbv != op.aux) orc += " !oracle aux-mismatch";
			out = runUpd<MOEAD>(op, [&](Probe<MOEAD>& o){ o.init(op.px, op.pf, lo, hi, op.mu, 20.0, 20.0, 0.9, op.T); }, false, false, orc);
		}else if(op.algo == "nsga3"){
			std::string auxOut;
			out = runNsga3(op, orc, auxOut);
			if(g_aux) return auxOut;
		}else if(op.algo == "rvea"){
			std::string auxOut;
			out = runRvea(op, orc, auxOut);
			if(g_aux) return auxOut;
		}else return "bad-op";
		if(g_aux) return "";
		return out;
	}
	return "bad-op";
}

int main(int argc, char** argv){
	g_aux = argc > 1 && std::string(argv[1]) == "--aux";
	std::string line;
	while(std::getline(std::cin, line)){
		std::string orc, out;
		try{ out = handle(line, orc); }
		catch(std::exception const& e){
			std::string w = e.what(); for(auto& ch: w) if(ch == '\n' || ch == '\r') ch = ' ';
			out = "exception"; orc += " !oracle exception " + w;
		}
		std::cout << out << (g_aux ? "" : orc) << "\n" << std::flush;
	}
	return 0;
}
