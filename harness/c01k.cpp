// K-C01-kern: the blocked dense kernels of remora, called DIRECTLY (not through the expression layer):
// bindings::pack_A_dense / pack_B_dense / mgemm with the library's and with small block sizes, kernels::gemm for
// double / float / long double (three sets of blocking constants) and all orientation mixes, the transposing blocked
// bindings::matrix_assign / matrix_assign_functor, the column-major bindings::fold_rows.
// Line protocol of lean/Driver/C01Kern.lean.  Independent oracle: naive loops on std::vector (no remora code).
#include <shark/LinAlg/BLAS/remora.hpp>
#include "common.hpp"
#include <cmath>
#include <sstream>

using namespace remora;

static double val(std::size_t seed, std::size_t idx){
	return (double)((seed * 7 + idx * 13 + (idx / 5) * 3) % 11) - 5.0;
}
static std::string showNum(double x){
	if(x != std::floor(x) || std::fabs(x) > 9e15){ std::ostringstream os; os.precision(17); os << "nonint:" << x; return os.str(); }
	std::ostringstream os; os << (long long)x; return os.str();
}
template<class V> static std::string showList(V const& x){
	std::string s = "["; for(std::size_t i = 0; i != x.size(); ++i){ if(i) s += ","; s += showNum((double)x[i]); } return s + "]";
}
static std::string showMat(std::size_t n1, std::size_t n2, std::vector<double> const& x){
	std::ostringstream os; os << n1 << "x" << n2 << showList(x); return os.str();
}

// a block_size type with arbitrary stripe widths for the real pack / mgemm templates
template<unsigned MR, unsigned NR> struct BS{
	typedef bindings::detail::block<double> block;
	static const unsigned mr = MR; static const unsigned nr = NR;
};
template<unsigned MR, unsigned NR> const unsigned BS<MR,NR>::mr;
template<unsigned MR, unsigned NR> const unsigned BS<MR,NR>::nr;

static std::size_t nblocks(std::size_t n, std::size_t b){ return (n + b - 1) / b; }

template<class B> static std::string packA(std::size_t mc, std::size_t kc, std::size_t seed, std::string& orc){
	matrix<double> A(mc, kc); for(std::size_t i = 0; i != mc; ++i) for(std::size_t j = 0; j != kc; ++j) A(i,j) = val(seed, i*kc+j);
	std::size_t n = nblocks(mc, B::mr) * kc * B::mr;
	std::vector<double> p(n + 1, 777.0);
	bindings::pack_A_dense(A, p.data(), B());
	if(p[n] != 777.0) orc += " !oracle pack-overrun";
	p.pop_back();
	// oracle: A(i,j) sits at stripe i/MR, column j, offset i%MR; every other cell is 0
	std::vector<double> want(n, 0.0);
	for(std::size_t i = 0; i != mc; ++i) for(std::size_t j = 0; j != kc; ++j) want[(i / B::mr) * kc * B::mr + j * B::mr + i % B::mr] = val(seed, i*kc+j);
	if(want != p) orc += " !oracle wrong-packA";
	return showList(p);
}
template<class B> static std::string packB(std::size_t kc, std::size_t nc, std::size_t seed, std::string& orc){
	matrix<double> Bm(kc, nc); for(std::size_t i = 0; i != kc; ++i) for(std::size_t j = 0; j != nc; ++j) Bm(i,j) = val(seed, i*nc+j);
	std::size_t n = nblocks(nc, B::nr) * kc * B::nr;
	std::vector<double> p(n + 1, 777.0);
	bindings::pack_B_dense(Bm, p.data(), B());
	if(p[n] != 777.0) orc += " !oracle pack-overrun";
	p.pop_back();
	std::vector<double> want(n, 0.0);
	for(std::size_t i = 0; i != kc; ++i) for(std::size_t j = 0; j != nc; ++j) want[(j / B::nr) * kc * B::nr + i * B::nr + j % B::nr] = val(seed, i*nc+j);
	if(want != p) orc += " !oracle wrong-packB";
	return showList(p);
}
template<class B> static std::string mgemmOp(std::size_t mc, std::size_t nc, std::size_t kc, double alpha, std::size_t seed,
		std::size_t R, std::size_t Cc, std::size_t r0, std::size_t c0, std::string& orc){
	matrix<double> A(mc, kc), Bm(kc, nc);
	for(std::size_t i = 0; i != mc; ++i) for(std::size_t j = 0; j != kc; ++j) A(i,j) = val(seed, i*kc+j);
	for(std::size_t i = 0; i != kc; ++i) for(std::size_t j = 0; j != nc; ++j) Bm(i,j) = val(seed+1, i*nc+j);
	std::vector<double> pa(nblocks(mc, B::mr) * kc * B::mr + 64), pb(nblocks(nc, B::nr) * kc * B::nr + 64);
	// the kernels assume aligned buffers only as an optimisation hint (BOOST_ALIGN_ASSUME_ALIGNED); align by hand
	double* a = pa.data(); while(((std::size_t)a) % 64) ++a;
	double* b = pb.data(); while(((std::size_t)b) % 64) ++b;
	bindings::pack_A_dense(A, a, B());
	bindings::pack_B_dense(Bm, b, B());
	std::vector<double> C(R * Cc), want;
	for(std::size_t k = 0; k != R * Cc; ++k) C[k] = val(seed+2, k);
	want = C;
	C.push_back(0.0); want.push_back(0.0);   // never empty: the tile pointer is formed even for an empty tile
	bindings::mgemm(mc, nc, kc, alpha, (double const*)a, (double const*)b, C.data() + (r0 * Cc + c0), Cc, 1, B());
	for(std::size_t i = 0; i != mc; ++i) for(std::size_t j = 0; j != nc; ++j){
		double s = 0; for(std::size_t k = 0; k != kc; ++k) s += val(seed, i*kc+k) * val(seed+1, k*nc+j);
		want[(r0 + i) * Cc + c0 + j] += alpha * s;
	}
	if(want != C) orc += " !oracle wrong-mgemm";
	C.pop_back();
	return showMat(R, Cc, C);
}
#define DISPATCH_BS(FN, mr, nr, ...) \
	((mr) == 2 && (nr) == 3 ? FN<BS<2,3> >(__VA_ARGS__) : (mr) == 4 && (nr) == 6 ? FN<BS<4,6> >(__VA_ARGS__) : \
	 (mr) == 1 && (nr) == 4 ? FN<BS<1,4> >(__VA_ARGS__) : (mr) == 3 && (nr) == 2 ? FN<BS<3,2> >(__VA_ARGS__) : \
	 (mr) == 4 && (nr) == 16 ? FN<BS<4,16> >(__VA_ARGS__) : std::string("bad-op unsupported-block"))

template<class T, class OM, class O1, class O2>
static std::string gemmOp(std::size_t M, std::size_t N, std::size_t K, double alpha, std::size_t seed, std::string& orc){
	matrix<T, O1> e1(M, K); matrix<T, O2> e2(K, N); matrix<T, OM> m(M, N);
	for(std::size_t i = 0; i != M; ++i) for(std::size_t k = 0; k != K; ++k) e1(i,k) = (T)val(seed, i*K+k);
	for(std::size_t k = 0; k != K; ++k) for(std::size_t j = 0; j != N; ++j) e2(k,j) = (T)val(seed+1, k*N+j);
	for(std::size_t i = 0; i != M; ++i) for(std::size_t j = 0; j != N; ++j) m(i,j) = (T)val(seed+2, i*N+j);
	kernels::gemm(e1, e2, m, (T)alpha);
	std::vector<double> got(M*N), want(M*N);
	for(std::size_t i = 0; i != M; ++i) for(std::size_t j = 0; j != N; ++j){
		double s = 0; for(std::size_t k = 0; k != K; ++k) s += val(seed, i*K+k) * val(seed+1, k*N+j);
		want[i*N+j] = val(seed+2, i*N+j) + alpha * s; got[i*N+j] = (double)m(i,j);
	}
	if(want != got) orc += " !oracle wrong-gemm";
	return showMat(M, N, got);
}
template<class T> static std::string gemmO(std::string const& o, std::size_t M, std::size_t N, std::size_t K, double alpha, std::size_t seed, std::string& orc){
	typedef row_major r; typedef column_major c;
	if(o == "rrr") return gemmOp<T,r,r,r>(M,N,K,alpha,seed,orc); if(o == "rrc") return gemmOp<T,r,r,c>(M,N,K,alpha,seed,orc);
	if(o == "rcr") return gemmOp<T,r,c,r>(M,N,K,alpha,seed,orc); if(o == "rcc") return gemmOp<T,r,c,c>(M,N,K,alpha,seed,orc);
	if(o == "crr") return gemmOp<T,c,r,r>(M,N,K,alpha,seed,orc); if(o == "crc") return gemmOp<T,c,r,c>(M,N,K,alpha,seed,orc);
	if(o == "ccr") return gemmOp<T,c,c,r>(M,N,K,alpha,seed,orc); if(o == "ccc") return gemmOp<T,c,c,c>(M,N,K,alpha,seed,orc);
	return "bad-op";
}

// ---- expressions mixing value types (float / double / int): remora computes in std::common_type of the operand
// value types and converts to the target's value type on assignment; on data where every intermediate is exactly
// representable in every participating type the result is the same rational element-wise definition
template<class V> static void fillv(V& v, std::size_t seed){ for(std::size_t i = 0; i != v.size(); ++i) v(i) = (typename V::value_type)val(seed, i); }
template<class M> static void fillm(M& m, std::size_t seed){ for(std::size_t i = 0; i != m.size1(); ++i) for(std::size_t j = 0; j != m.size2(); ++j) m(i,j) = (typename M::value_type)val(seed, i*m.size2()+j); }
template<class V> static std::vector<double> tov(V const& v){ std::vector<double> r(v.size()); for(std::size_t i = 0; i != r.size(); ++i) r[i] = (double)v(i); return r; }
template<class M> static std::vector<double> tom(M const& m){ std::vector<double> r; for(std::size_t i = 0; i != m.size1(); ++i) for(std::size_t j = 0; j != m.size2(); ++j) r.push_back((double)m(i,j)); return r; }
static std::string mixedOp(std::string const& what, std::size_t m, std::size_t n, std::size_t k, std::size_t seed, std::string& orc){
	std::vector<double> got, want;
	if(what == "add_df"){            // vector<double> = vector<double> + vector<float>
		vector<double> x(n), r(n); vector<float> y(n); fillv(x, seed); fillv(y, seed+1);
		r = x + y; got = tov(r); for(std::size_t i = 0; i != n; ++i) want.push_back(val(seed,i) + val(seed+1,i));
		return (want != got ? (orc += " !oracle wrong-mixed", 0) : 0), showList(got);
	}
	if(what == "mul_fi_to_d"){       // vector<double> = vector<float> * vector<int> (element-wise)
		vector<float> x(n); vector<int> y(n); vector<double> r(n); fillv(x, seed); fillv(y, seed+1);
		r = x * y; got = tov(r); for(std::size_t i = 0; i != n; ++i) want.push_back(val(seed,i) * val(seed+1,i));
		return (want != got ? (orc += " !oracle wrong-mixed", 0) : 0), showList(got);
	}
	if(what == "plus_i_d"){          // vector<int> += vector<double> (integer-valued): converted on assignment
		vector<int> t(n); vector<double> y(n); fillv(t, seed); fillv(y, seed+1);
		t += y; got = tov(t); for(std::size_t i = 0; i != n; ++i) want.push_back(val(seed,i) + val(seed+1,i));
		return (want != got ? (orc += " !oracle wrong-mixed", 0) : 0), showList(got);
	}
	if(what == "gemv_fi_to_d"){      // vector<double> = prod(matrix<float>, vector<int>)
		matrix<float> A(m, n); vector<int> x(n); vector<double> r(m); fillm(A, seed); fillv(x, seed+1);
		r = prod(A, x); got = tov(r);
		for(std::size_t i = 0; i != m; ++i){ double s = 0; for(std::size_t j = 0; j != n; ++j) s += val(seed, i*n+j) * val(seed+1, j); want.push_back(s); }
		return (want != got ? (orc += " !oracle wrong-mixed", 0) : 0), showList(got);
	}
	if(what == "gemm_fd_plus_d"){    // matrix<double> += prod(matrix<float>, matrix<double, column_major>)
		matrix<float> A(m, k); matrix<double, column_major> B(k, n); matrix<double> C(m, n); fillm(A, seed); fillm(B, seed+1); fillm(C, seed+2);
		noalias(C) += prod(A, B); got = tom(C);
		for(std::size_t i = 0; i != m; ++i) for(std::size_t j = 0; j != n; ++j){ double s = 0; for(std::size_t l = 0; l != k; ++l) s += val(seed, i*k+l) * val(seed+1, l*n+j); want.push_back(val(seed+2, i*n+j) + s); }
		return (want != got ? (orc += " !oracle wrong-mixed", 0) : 0), showMat(m, n, got);
	}
	if(what == "outer_fi_minus_d"){  // matrix<double> -= outer_prod(vector<float>, vector<int>)
		vector<float> u(m); vector<int> v(n); matrix<double> C(m, n); fillv(u, seed); fillv(v, seed+1); fillm(C, seed+2);
		C -= outer_prod(u, v); got = tom(C);
		for(std::size_t i = 0; i != m; ++i) for(std::size_t j = 0; j != n; ++j) want.push_back(val(seed+2, i*n+j) - val(seed,i) * val(seed+1,j));
		return (want != got ? (orc += " !oracle wrong-mixed", 0) : 0), showMat(m, n, got);
	}
	if(what == "sum_f" || what == "sum_i" || what == "inner_fd"){   // reductions in the operand's value type
		vector<float> x(n); vector<int> y(n); vector<double> z(n); fillv(x, seed); fillv(y, seed); fillv(z, seed+1);
		double g = what == "sum_f" ? (double)sum(x) : what == "sum_i" ? (double)sum(y) : (double)inner_prod(x, z), w = 0;
		for(std::size_t i = 0; i != n; ++i) w += what == "inner_fd" ? val(seed,i) * val(seed+1,i) : val(seed,i);
		if(g != w) orc += " !oracle wrong-mixed";
		return "R=" + showNum(g);
	}
	return "bad-op";
}
struct MaxF{ double operator()(double x, double y) const{ return x < y ? y : x; } };
struct MinF{ double operator()(double x, double y) const{ return y < x ? y : x; } };
struct AddF{ double operator()(double x, double y) const{ return x + y; } };
struct IdF{ double operator()(double x) const{ return x; } };

int main(){
	std::string line;
	while(std::getline(std::cin, line)){
		std::vector<std::string> t = vh::tokens(line);
		std::string orc, out = "bad-op";
		auto U = [&](std::size_t k){ return (std::size_t)std::stoull(t.at(k)); };
		try{
		if(t.empty()){ std::cout << "\n"; continue; }
		if(t[0] == "kconsts" && t.size() == 1){
			typedef bindings::gemm_block_size<double> D; typedef bindings::gemm_block_size<float> F; typedef bindings::gemm_block_size<long double> L;
			std::ostringstream os;
			os << "d=" << D::mr << "," << D::nr << "," << D::mc << "," << D::kc << "," << D::nc
			   << " f=" << F::mr << "," << F::nr << "," << F::mc << "," << F::kc << "," << F::nc
			   << " l=" << L::mr << "," << L::nr << "," << L::mc << "," << L::kc << "," << L::nc;
			// the block sizes of the assignment / fold kernels are function-local: observed through the translator
			// (translate/remora_kernels.py) and through the values of `ktassign` / `kfoldrows` around them
			out = os.str();
		}
		else if(t[0] == "kpack" && t.size() == 7 && t[1] == "A") out = DISPATCH_BS(packA, U(2), U(3), U(4), U(5), U(6), orc);
		else if(t[0] == "kpack" && t.size() == 7 && t[1] == "B") out = DISPATCH_BS(packB, U(2), U(3), U(4), U(5), U(6), orc);
		else if(t[0] == "kmgemm" && t.size() == 12) out = DISPATCH_BS(mgemmOp, U(1), U(2), U(3), U(4), U(5), (double)std::stoll(t[6]), U(7), U(8), U(9), U(10), U(11), orc);
		else if(t[0] == "kgemm" && t.size() == 8){
			double alpha = (double)std::stoll(t[6]);
			if(t[1] == "d") out = gemmO<double>(t[2], U(3), U(4), U(5), alpha, U(7), orc);
			else if(t[1] == "f") out = gemmO<float>(t[2], U(3), U(4), U(5), alpha, U(7), orc);
			else if(t[1] == "l") out = gemmO<long double>(t[2], U(3), U(4), U(5), alpha, U(7), orc);
		}
		else if(t[0] == "ktassign" && t.size() == 5){
			std::size_t n1 = U(2), n2 = U(3), seed = U(4);
			matrix<double, row_major> m(n1, n2); matrix<double, column_major> e(n1, n2);
			std::vector<double> want(n1*n2), got(n1*n2);
			for(std::size_t i = 0; i != n1; ++i) for(std::size_t j = 0; j != n2; ++j){ m(i,j) = val(seed, i*n2+j); e(i,j) = val(seed+1, i*n2+j); }
			bool ok = true;
			typedef device_traits<cpu_tag> DT;
			if(t[1] == "set") bindings::matrix_assign(m, e, row_major(), column_major(), dense_tag(), dense_tag());
			else if(t[1] == "plus") bindings::matrix_assign_functor(m, e, DT::add<double>(), row_major(), column_major(), dense_tag(), dense_tag());
			else if(t[1] == "minus") bindings::matrix_assign_functor(m, e, DT::subtract<double>(), row_major(), column_major(), dense_tag(), dense_tag());
			else if(t[1] == "times") bindings::matrix_assign_functor(m, e, DT::multiply<double>(), row_major(), column_major(), dense_tag(), dense_tag());
			else ok = false;
			if(ok){
				for(std::size_t i = 0; i != n1; ++i) for(std::size_t j = 0; j != n2; ++j){
					double x = val(seed, i*n2+j), y = val(seed+1, i*n2+j);
					want[i*n2+j] = t[1] == "set" ? y : t[1] == "plus" ? x + y : t[1] == "minus" ? x - y : x * y; got[i*n2+j] = m(i,j);
				}
				if(want != got) orc += " !oracle wrong-assign";
				out = showMat(n1, n2, got);
			}
		}
		else if(t[0] == "kmixed" && t.size() == 6) out = mixedOp(t[1], U(2), U(3), U(4), U(5), orc);
		else if(t[0] == "kfoldrows" && t.size() == 5){
			std::size_t n1 = U(2), n2 = U(3), seed = U(4);
			matrix<double, column_major> A(n1, n2); vector<double> v(n1);
			for(std::size_t i = 0; i != n1; ++i){ v(i) = val(seed+1, i); for(std::size_t j = 0; j != n2; ++j) A(i,j) = val(seed, i*n2+j); }
			bool ok = true;
			if(t[1] == "sum") bindings::fold_rows(A, v, AddF(), IdF(), column_major());
			else if(t[1] == "max") bindings::fold_rows(A, v, MaxF(), IdF(), column_major());
			else if(t[1] == "min") bindings::fold_rows(A, v, MinF(), IdF(), column_major());
			else ok = false;
			if(ok){
				std::vector<double> got(n1), want(n1);
				for(std::size_t i = 0; i != n1; ++i){
					got[i] = v(i); want[i] = val(seed+1, i);
					if(n2){ double s = val(seed, i*n2); for(std::size_t j = 1; j != n2; ++j){ double y = val(seed, i*n2+j); s = t[1] == "sum" ? s + y : t[1] == "max" ? (s < y ? y : s) : (y < s ? y : s); } want[i] += s; }
				}
				if(want != got) orc += " !oracle wrong-fold";
				out = showList(got);
			}
		}
		}catch(std::exception const& ex){ out = std::string("bad-op ") + ex.what(); }
		std::cout << out << orc << "\n";
	}
	return 0;
}
