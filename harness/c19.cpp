// K-C19: correspondence harness for the text importers (LibSVM / CSV).
// One op per input line, one observation line per op; same protocol as
// lean/Driver/C19.lean.  Runs the REAL importers (src/Data/SparseData.cpp,
// src/Data/Csv.cpp, compiled from the repo tree with ASan+UBSan) on the bytes
// given in the op, prints the canonical form of the returned dataset or the kind
// of exception, and appends ` !oracle <tag>` when the property's own statement
// (well-formed dataset or library exception; never hang) fails on the real code.
#include <shark/Data/SparseData.h>
#include <shark/Data/Csv.h>
#include "common.hpp"
#include <csignal>
#include <cstdlib>
#include <new>
#include <unistd.h>

// ---- allocation limit: a single allocation above LIMIT bytes fails with bad_alloc
// while an importer runs (dense importers allocate #rows * maxIndex cells)
static const std::size_t ALLOC_LIMIT = 1048576;
static volatile bool g_limit = false;
void* operator new(std::size_t n){
	if(g_limit && n > ALLOC_LIMIT) throw std::bad_alloc();
	void* p = std::malloc(n ? n : 1);
	if(!p) throw std::bad_alloc();
	return p;
}
void* operator new[](std::size_t n){ return operator new(n); }
void operator delete(void* p) noexcept{ std::free(p); }
void operator delete[](void* p) noexcept{ std::free(p); }
void operator delete(void* p, std::size_t) noexcept{ std::free(p); }
void operator delete[](void* p, std::size_t) noexcept{ std::free(p); }

// ---- watchdog ("never hang")
static void onAlarm(int){
	static const char msg[] = "hang !oracle watchdog-timeout\n";
	ssize_t r = write(1, msg, sizeof(msg) - 1); (void)r;
	_exit(3);
}

static std::string unhex(std::string const& h){
	std::string out;
	if(h == "-") return out;
	auto v = [](char c)->int{ return c <= '9' ? c - '0' : (c | 32) - 'a' + 10; };
	for(std::size_t i = 0; i + 1 < h.size(); i += 2) out.push_back(char(v(h[i]) * 16 + v(h[i+1])));
	return out;
}

#include <fstream>
#include <algorithm>
static std::string g_tmpdir = "/var/tmp";
static std::string tmpFile(){ return g_tmpdir + "/c19-" + std::to_string((long)getpid()) + ".txt"; }
static void writeFile(std::string const& fn, std::string const& bytes){
	std::ofstream o(fn.c_str(), std::ios::binary); o.write(bytes.data(), std::streamsize(bytes.size()));
}
static std::string readFile(std::string const& fn){
	std::ifstream i(fn.c_str(), std::ios::binary); std::ostringstream os; os << i.rdbuf(); return os.str();
}
static std::string hexOf(std::string const& b){
	if(b.empty()) return "-";
	static const char* d = "0123456789abcdef"; std::string o;
	for(unsigned char c: b){ o.push_back(d[c >> 4]); o.push_back(d[c & 15]); }
	return o;
}

// exact value rendering, format of Val.render: [-]m^e with m odd, 0^0, nan, inf, -inf
static std::string val(double x){
	if(std::isnan(x)) return "nan";
	if(std::isinf(x)) return x > 0 ? "inf" : "-inf";
	if(x == 0) return "0^0";
	int e; double m = std::frexp(std::fabs(x), &e);
	unsigned long long mi = (unsigned long long)std::ldexp(m, 53); e -= 53;
	while(mi % 2 == 0){ mi /= 2; ++e; }
	std::ostringstream os; os << (x < 0 ? "-" : "") << mi << "^" << e; return os.str();
}

static std::string showShape(shark::Shape const& s){
	std::ostringstream os; os << "(";
	for(std::size_t i = 0; i != s.size(); ++i){ if(i) os << ","; os << s[i]; }
	os << ")"; return os.str();
}

static bool g_sawNan = false;
struct Obs{
	std::ostringstream rows, labels, batches;
	std::vector<std::string> oracle;
	std::size_t elements = 0;
	bool firstRow = true, firstLabel = true;
	void sepRow(){ if(!firstRow) rows << ","; firstRow = false; }
	void sepLabel(){ if(!firstLabel) labels << ","; firstLabel = false; }
};

// dense input batches
template<class T>
void showInputs(shark::Data<shark::blas::vector<T> >& in, Obs& o, std::size_t shape, bool hasShape){
	for(std::size_t b = 0; b != in.numberOfBatches(); ++b){
		auto& m = in.batch(b);
		if(b) o.batches << ","; o.batches << m.size1();
		for(std::size_t i = 0; i != m.size1(); ++i){
			o.sepRow(); o.rows << "[" << m.size2() << ":";   // dimension, then the non-zero cells
			bool first = true;
			for(std::size_t j = 0; j != m.size2(); ++j){
				if(m(i,j) == 0) continue;
				if(std::isnan(double(m(i,j)))) g_sawNan = true;
				if(!first) o.rows << ","; first = false;
				o.rows << j << "=" << val(m(i,j));
			}
			o.rows << "]";
			++o.elements;
			if(!hasShape || m.size2() != shape) o.oracle.push_back("dimension-differs-from-shape");
		}
	}
}
// sparse input batches: stored entries in storage order
template<class T>
void showInputs(shark::Data<shark::blas::compressed_vector<T> >& in, Obs& o, std::size_t shape, bool hasShape){
	for(std::size_t b = 0; b != in.numberOfBatches(); ++b){
		auto& m = in.batch(b);
		if(b) o.batches << ","; o.batches << m.size1();
		for(std::size_t i = 0; i != m.size1(); ++i){
			o.sepRow(); o.rows << "{" << m.size2() << ":";
			bool first = true; std::size_t prev = 0;
			for(auto it = m.major_begin(i); it != m.major_end(i); ++it){
				if(!first) o.rows << ",";
				o.rows << it.index() << "=" << val(*it);
				if(it.index() >= m.size2()) o.oracle.push_back("sparse-index-out-of-range");
				if(!first && it.index() <= prev) o.oracle.push_back("sparse-indices-not-increasing");
				prev = it.index(); first = false;
			}
			o.rows << "}";
			++o.elements;
			if(!hasShape || m.size2() != shape) o.oracle.push_back("dimension-differs-from-shape");
		}
	}
}
// class labels
inline void showLabels(shark::Data<unsigned int>& l, Obs& o, std::size_t& count){
	for(std::size_t b = 0; b != l.numberOfBatches(); ++b)
		for(std::size_t i = 0; i != l.batch(b).size(); ++i){ o.sepLabel(); o.labels << l.batch(b)(i); ++count; }
}
template<class T>
void showLabels(shark::Data<shark::blas::vector<T> >& l, Obs& o, std::size_t& count){
	for(std::size_t b = 0; b != l.numberOfBatches(); ++b){
		auto& m = l.batch(b);
		for(std::size_t i = 0; i != m.size1(); ++i){
			o.sepLabel(); o.labels << "[";
			for(std::size_t j = 0; j != m.size2(); ++j){ if(j) o.labels << ","; o.labels << val(m(i,j)); }
			o.labels << "]"; ++count;
			if(l.shape().size() != 1 || l.shape()[0] != m.size2()) o.oracle.push_back("label-dimension-differs-from-shape");
		}
	}
}
inline void checkClasses(shark::Data<unsigned int>& l, Obs& o){
	// labels within the reported class count (only meaningful for a non-empty set)
	bool any = false; unsigned int mx = 0;
	for(std::size_t b = 0; b != l.numberOfBatches(); ++b)
		for(std::size_t i = 0; i != l.batch(b).size(); ++i){ any = true; mx = std::max(mx, l.batch(b)(i)); }
	if(!any) return;
	if(mx >= shark::numberOfClasses(l)) o.oracle.push_back("label-not-below-class-count");
	if(l.shape().size() == 1 && mx >= l.shape()[0]) o.oracle.push_back("label-not-below-label-shape");
}
template<class T> void checkClasses(shark::Data<shark::blas::vector<T> >&, Obs&){}

// number of records the file holds according to the format (independent of spirit)
static std::size_t svmRecordCount(std::string const& bytes){
	std::size_t n = 0, len = 0;
	for(char c: bytes){ if(c == '\n'){ if(len) ++n; len = 0; } else ++len; }
	if(len) ++n;
	return n;
}

template<class D>
std::string observe(D& data, std::size_t expectedElements, std::size_t maxBatch, bool safetyOnly){
	Obs o;
	shark::Shape const& sh = data.inputs().shape();
	bool hasShape = sh.size() == 1;
	if(data.numberOfElements() == 0) hasShape = true; // nothing to compare with
	showInputs(data.inputs(), o, sh.size() == 1 ? sh[0] : 0, hasShape);
	std::size_t labelCount = 0;
	showLabels(data.labels(), o, labelCount);
	checkClasses(data.labels(), o);
	if(o.elements != expectedElements) o.oracle.push_back("element-count-differs-from-record-count");
	if(labelCount != o.elements) o.oracle.push_back("label-count-differs-from-element-count");
	if(data.numberOfElements() != o.elements) o.oracle.push_back("numberOfElements-inconsistent");
	if(maxBatch) for(std::size_t b = 0; b != data.numberOfBatches(); ++b)
		if(data.inputs().batch(b).size1() > maxBatch) o.oracle.push_back("batch-larger-than-requested");
	std::ostringstream os;
	if(safetyOnly) os << "safety-only";
	else os << "ok shape=" << showShape(sh) << " lshape=" << showShape(data.labels().shape())
	        << " batches=[" << o.batches.str() << "] labels=[" << o.labels.str() << "] rows=[" << o.rows.str() << "]";
	for(auto const& t: o.oracle) os << " !oracle " << t;
	return os.str();
}

// a NaN cell needs a reason in the file: '?', an empty cell, or a spelled-out nan.  Judged only for files
// made of digits, signs, dots, exponents, the separator, blanks and line breaks without empty cells.
static bool nanUnexplained(std::string const& bytes, char sep){
	bool ws = std::isspace((unsigned char)sep) || sep == 0;
	bool cellHasContent = false, lineHasContent = false;
	for(std::size_t i = 0; i <= bytes.size(); ++i){
		char c = i == bytes.size() ? '\n' : bytes[i];
		if(c == '\n' || c == '\r'){
			if(!ws && lineHasContent && !cellHasContent) return false;   // trailing separator: empty last cell
			cellHasContent = lineHasContent = false; continue;
		}
		if(!ws && c == sep){ if(!cellHasContent) return false; cellHasContent = false; lineHasContent = true; continue; }
		if(c == ' ' || c == '\t') continue;
		if(!((c >= '0' && c <= '9') || c == '-' || c == '+' || c == '.' || c == 'e' || c == 'E')) return false;
		cellHasContent = lineHasContent = true;
	}
	return true;
}

// unlabeled data
template<class D>
std::string observeUnlabeled(D& data, std::size_t expectedElements, std::size_t maxBatch, bool safetyOnly){
	Obs o;
	shark::Shape const& sh = data.shape();
	bool hasShape = sh.size() == 1;
	if(data.numberOfElements() == 0) hasShape = true;
	showInputs(data, o, sh.size() == 1 ? sh[0] : 0, hasShape);
	if(o.elements != expectedElements) o.oracle.push_back("element-count-differs-from-record-count");
	if(data.numberOfElements() != o.elements) o.oracle.push_back("numberOfElements-inconsistent");
	if(maxBatch) for(std::size_t b = 0; b != data.numberOfBatches(); ++b)
		if(data.batch(b).size1() > maxBatch) o.oracle.push_back("batch-larger-than-requested");
	std::ostringstream os;
	if(safetyOnly) os << "safety-only";
	else os << "ok shape=" << showShape(sh) << " lshape=- batches=[" << o.batches.str() << "] labels=- rows=[" << o.rows.str() << "]";
	for(auto const& t: o.oracle) os << " !oracle " << t;
	return os.str();
}

// records of a CSV file according to the format: lines (ended by \r\n, \n or \r) that hold
// something else than blanks once a comment is removed.  In Shark's dialect a comment
// extends through its line break (skipper `comment >> *(char_ - eol) >> (eol|eoi)`), so a
// comment behind data joins that line with the next one.
static std::size_t csvRecordCount(std::string const& bytes, char comment){
	std::size_t n = 0; bool content = false, inComment = false;
	for(std::size_t i = 0; i <= bytes.size(); ++i){
		bool end = i == bytes.size();
		char c = end ? '\n' : bytes[i];
		if(c == '\n' || c == '\r'){
			if(inComment && !end){
				inComment = false;
				if(c == '\r' && i + 1 < bytes.size() && bytes[i+1] == '\n') ++i;
				continue;             // the comment swallowed the line break
			}
			if(content) ++n; content = false; inComment = false; continue;
		}
		if(inComment) continue;
		if(c == comment){ inComment = true; continue; }
		// spirit's `nan(...)` payload runs to the next ')' whatever is in between (line breaks included)
		if((c == 'n' || c == 'N') && i + 3 < bytes.size() && (bytes[i+1] | 32) == 'a' && (bytes[i+2] | 32) == 'n' && bytes[i+3] == '('){
			std::size_t close = bytes.find(')', i + 4);
			if(close != std::string::npos){ content = true; i = close; continue; }
		}
		if(c != ' ' && c != '\t' && c != '\v' && c != '\f') content = true;
	}
	return n;
}

// which of the library's checks fired (evidence only: the check strips ` #kind` before comparing)
static std::string errKind(shark::Exception const& e){
	std::string w = e.what();
	static const char* const kinds[][2] = {
		{"Failed to parse record", "svm-parse-record"}, {"strictly increasing", "svm-index-order"},
		{"Number of dimensions supplied", "svm-highestIndex-too-small"}, {"non-integer labels", "svm-label-not-integer"},
		{"labels can not be smaller", "label-below-minus-one"}, {"negative labels are only", "label-negative-not-binary"},
		{"Failed to parse file", "csv-parse-file"}, {"Vectors are required to have same size", "csv-row-length"},
		{"Files must have more columns", "csv-too-few-columns"}, {"different number of columns", "csv-row-length"},
		{"cannot be opened", "file-open"}, {"failed to open", "file-open"}, {"ecord must not be empty", "export-empty-record"}};
	for(auto const& k: kinds) if(w.find(k[0]) != std::string::npos) return std::string(" #") + k[1];
	return " #other";
}

template<class F>
std::string guarded(F f, bool safetyOnly){
	try{
		g_limit = true;
		f();
		g_limit = false;
	}catch(shark::Exception const& e){ g_limit = false; return (safetyOnly ? "safety-only" : "shark-exception") + errKind(e); }
	catch(std::bad_alloc const&){ g_limit = false; return safetyOnly ? "safety-only #bad_alloc" : "std-exception bad_alloc"; }
	catch(std::exception const& e){ g_limit = false; return std::string("std-exception ") + e.what() + " !oracle foreign-exception"; }
	return "";
}

// scalar readers Data<int>, Data<unsigned int>, Data<double>
static bool g_prefill = false;
template<class T> void prefill1(shark::Data<T>& d){ if(g_prefill) shark::csvStringToData(d, "7 8 9 10 11", ',', '#', 2); }
template<class T>
std::string runCsv1(std::string const& bytes, char comment, std::size_t maxB, bool safetyOnly){
	shark::Data<T> data; prefill1(data);
	std::string e = guarded([&]{ shark::csvStringToData(data, bytes, ',', comment, maxB); }, safetyOnly);
	if(!e.empty()) return e;
	std::ostringstream os, vals; std::size_t n = 0;
	os << "ok batches=[";
	for(std::size_t b = 0; b != data.numberOfBatches(); ++b){
		if(b) os << ","; os << data.batch(b).size();
		for(std::size_t i = 0; i != data.batch(b).size(); ++i){ if(n++) vals << ","; vals << val(double(data.batch(b)(i))); }
	}
	os << "] values=[" << vals.str() << "]";
	std::string out = safetyOnly ? "safety-only" : os.str();
	if(n != data.numberOfElements()) out += " !oracle numberOfElements-inconsistent";
	// independent count of the values in the file: maximal runs of non-blank characters outside comments.
	// Only judged for files made of number characters (a run like "1-2" holds two values).
	{
		std::size_t runs = 0, dots = 0, exps = 0; bool in = false, comm = false, plain = true;
		for(std::size_t i = 0; i != bytes.size(); ++i){
			char c = bytes[i];
			if(comm){ if(c == '\n' || c == '\r') comm = false; in = false; continue; }
			if(c == comment){ comm = true; in = false; continue; }
			if(c == ' ' || c == '\t' || c == '\n' || c == '\r' || c == '\v' || c == '\f'){ in = false; continue; }
			if(!in){ ++runs; in = true; dots = exps = 0; if(!((c >= '0' && c <= '9') || c == '-' || c == '+' || c == '.')) plain = false; }
			else if(!((c >= '0' && c <= '9') || c == '.' || c == 'e' || c == 'E' || ((c == '-' || c == '+') && (bytes[i-1] == 'e' || bytes[i-1] == 'E')))) plain = false;
			if(c == '.'){ if(++dots > 1 || exps) plain = false; }
			if(c == 'e' || c == 'E'){ if(++exps > 1) plain = false; }
		}
		if(plain && runs != n) out += " !oracle value-count-differs-from-element-count";
	}
	if(maxB) for(std::size_t b = 0; b != data.numberOfBatches(); ++b)
		if(data.batch(b).size() > maxB){ out += " !oracle batch-larger-than-requested"; break; }
	return out;
}

// run `f(fn)` on a temporary file holding `bytes` (the importCSV / importSparseData file overloads)
template<class F>
void withFile(std::string const& bytes, F f){
	std::string fn = tmpFile(); bool lim = g_limit; g_limit = false; writeFile(fn, bytes); g_limit = lim;
	try{ f(fn); }catch(...){ std::remove(fn.c_str()); throw; }
	std::remove(fn.c_str());
}
static std::string dropTitle(std::string const& bytes, std::size_t k){
	std::size_t pos = 0;
	for(; k; --k){ std::size_t nl = bytes.find('\n', pos); if(nl == std::string::npos) return ""; pos = nl + 1; }
	return bytes.substr(pos);
}
// `reuse <op>`: the dataset object already holds (differently shaped) data when the importer is called
template<class D> void prefillU(D& d){ if(g_prefill){ shark::csvStringToData(d, "7,8,9\n10,11,12\n13,14,15\n", ',', '#', 2); } }
template<class D> void prefillC(D& d){ if(g_prefill){ shark::csvStringToData(d, "3,7,8,9\n0,11,12,1\n5,1,1,1\n", shark::FIRST_COLUMN, ',', '#', 2); } }
template<class D> void prefillR(D& d){ if(g_prefill){ shark::csvStringToData(d, "3,7,8,9\n0,11,12,1\n5,1,1,1\n", shark::FIRST_COLUMN, 2, ',', '#', 2); } }
template<class D> void prefillS(D& d){ if(g_prefill){ std::istringstream in("3 1:5 7:1\n0 2:1\n1 9:2\n"); shark::importSparseData(d, in, 0, 2); } }

template<class D>
std::string runCsvU(std::string const& bytes, char sep, char comment, std::size_t maxB, bool safetyOnly, bool viaFile = false, std::size_t title = 0){
	D data; prefillU(data);
	std::string e = guarded([&]{
		if(viaFile) withFile(bytes, [&](std::string const& fn){ shark::importCSV(data, fn, sep, comment, maxB, title); });
		else shark::csvStringToData(data, bytes, sep, comment, maxB);
	}, safetyOnly);
	if(!e.empty()) return e;
	g_sawNan = false;
	std::string obs = observeUnlabeled(data, csvRecordCount(viaFile ? dropTitle(bytes, title) : bytes, comment), maxB, safetyOnly);
	if(g_sawNan && nanUnexplained(viaFile ? dropTitle(bytes, title) : bytes, sep)) obs += " !oracle nan-without-missing-value-marker";
	return obs;
}
template<class D>
std::string runCsvC(std::string const& bytes, shark::LabelPosition lp, char sep, char comment, std::size_t maxB, bool safetyOnly, bool viaFile = false){
	D data; prefillC(data);
	std::string e = guarded([&]{
		if(viaFile) withFile(bytes, [&](std::string const& fn){ shark::importCSV(data, fn, lp, sep, comment, maxB); });
		else shark::csvStringToData(data, bytes, lp, sep, comment, maxB);
	}, safetyOnly);
	if(!e.empty()) return e;
	g_sawNan = false;
	std::string obs = observe(data, csvRecordCount(bytes, comment), maxB, safetyOnly);
	if(g_sawNan && nanUnexplained(bytes, sep)) obs += " !oracle nan-without-missing-value-marker";
	return obs;
}
template<class D>
std::string runCsvR(std::string const& bytes, shark::LabelPosition lp, std::size_t nout, char sep, char comment, std::size_t maxB, bool safetyOnly, bool viaFile = false){
	D data; prefillR(data);
	std::string e = guarded([&]{
		if(viaFile) withFile(bytes, [&](std::string const& fn){ shark::importCSV(data, fn, lp, nout, sep, comment, maxB); });
		else shark::csvStringToData(data, bytes, lp, nout, sep, comment, maxB);
	}, safetyOnly);
	if(!e.empty()) return e;
	g_sawNan = false;
	std::string obs = observe(data, csvRecordCount(bytes, comment), maxB, safetyOnly);
	if(g_sawNan && nanUnexplained(bytes, sep)) obs += " !oracle nan-without-missing-value-marker";
	return obs;
}

template<class D>
std::string runSvm(std::string const& bytes, unsigned int dims, std::size_t bs, bool safetyOnly, bool viaFile = false){
	D data; prefillS(data);
	std::string e = guarded([&]{
		if(viaFile){
			std::string fn = tmpFile(); g_limit = false; writeFile(fn, bytes); g_limit = true;
			try{ shark::importSparseData(data, fn, dims, bs); }catch(...){ std::remove(fn.c_str()); throw; }
			std::remove(fn.c_str());
		}else{
			std::istringstream in(bytes);
			shark::importSparseData(data, in, dims, bs);
		}
	}, safetyOnly);
	if(!e.empty()) return e;
	return observe(data, svmRecordCount(bytes), bs, safetyOnly);
}

// ---- exporters, then importers (round trip).  Datasets come from a formula shared with the driver:
// values are dyadic (k/4) so that the printed precision (10 resp. 6 digits) is exact.
static double rtCell(std::size_t seed, std::size_t e, std::size_t j){ return (double((seed * 7 + e * 3 + j * 5) % 11) - 5) / 4; }
static unsigned rtLabel(std::size_t seed, std::size_t e){ return unsigned(e % (2 + seed % 2)); }
inline bool sameLabel(unsigned int a, unsigned int b){ return a == b; }
template<class A, class B> bool sameLabel(A const& a, B const& b){
	shark::RealVector x(a), y(b);
	if(x.size() != y.size()) return false;
	for(std::size_t i = 0; i != x.size(); ++i) if(x(i) != y(i)) return false;
	return true;
}
template<class D>
std::string rtCompare(D& orig, D& back, std::size_t maxBatch){
	std::ostringstream os;
	bool same = orig.numberOfElements() == back.numberOfElements();
	if(same){
		auto a = orig.elements().begin(); auto b = back.elements().begin();
		for(std::size_t i = 0; i != orig.numberOfElements(); ++i, ++a, ++b){
			auto ea = *a; auto eb = *b;
			shark::RealVector ia(ea.input), ib(eb.input);
			if(ia.size() != ib.size()){ same = false; break; }
			for(std::size_t j = 0; j != ia.size(); ++j) if(ia(j) != ib(j)) same = false;
			if(!sameLabel(ea.label, eb.label)) same = false;
		}
	}
	os << (same ? "rt same" : "rt differs") << " elements=" << back.numberOfElements() << " batches=[";
	for(std::size_t b = 0; b != back.numberOfBatches(); ++b){ if(b) os << ","; os << back.batch(b).size(); }
	os << "]";
	if(!same) os << " !oracle roundtrip-differs";
	if(maxBatch) for(std::size_t b = 0; b != back.numberOfBatches(); ++b)
		if(back.batch(b).size() > maxBatch){ os << " !oracle batch-larger-than-requested"; break; }
	return os.str();
}
static std::string runRt(std::vector<std::string> const& t){
	using namespace shark;
	std::string file = g_tmpdir + "/c19-rt-" + std::to_string((long)getpid()) + ".txt";
	std::string out = "bad-op";
	try{
		if(t[1] == "csv" && t.size() == 10){
			std::string kind = t[2]; LabelPosition lp = t[3] == "F" ? FIRST_COLUMN : LAST_COLUMN;
			std::size_t nout = std::stoull(t[4]); char sep = char(std::stoul(t[5]));
			std::size_t maxB = std::stoull(t[6]), dim = std::stoull(t[7]), seed = std::stoull(t[8]), n = std::stoull(t[9]);
			std::vector<RealVector> in(n, RealVector(dim)), reg(n, RealVector(nout)); std::vector<unsigned int> lab(n);
			for(std::size_t e = 0; e != n; ++e){
				for(std::size_t j = 0; j != dim; ++j) in[e](j) = rtCell(seed, e, j);
				for(std::size_t j = 0; j != nout; ++j) reg[e](j) = rtCell(seed + 1, e, j);
				lab[e] = rtLabel(seed, e);
			}
			if(kind == "c"){
				LabeledData<RealVector, unsigned int> orig, back;
				if(n) orig = createLabeledDataFromRange(in, lab, 3);
				exportCSV(orig, file, lp, sep);
				importCSV(back, file, lp, sep, '#', maxB);
				out = rtCompare(orig, back, maxB);
			}else if(kind == "r"){
				LabeledData<RealVector, RealVector> orig, back;
				if(n) orig = createLabeledDataFromRange(in, reg, 3);
				exportCSV(orig, file, lp, sep);
				importCSV(back, file, lp, nout, sep, '#', maxB);
				out = rtCompare(orig, back, maxB);
			}
		}else if(t[1] == "svm" && t.size() == 8){
			bool sparse = t[2] == "s", cls = t[3] == "c";
			std::size_t bs = std::stoull(t[4]), dim = std::stoull(t[5]), seed = std::stoull(t[6]), n = std::stoull(t[7]);
			std::vector<RealVector> in(n, RealVector(dim)), reg(n, RealVector(1)); std::vector<unsigned int> lab(n);
			for(std::size_t e = 0; e != n; ++e){
				for(std::size_t j = 0; j != dim; ++j) in[e](j) = rtCell(seed, e, j);
				reg[e](0) = rtCell(seed + 1, e, 0);
				lab[e] = rtLabel(seed, e);
			}
			if(cls){
				LabeledData<RealVector, unsigned int> orig, back;
				if(n) orig = createLabeledDataFromRange(in, lab, 3);
				exportSparseData(orig, file);
				importSparseData(back, file, (unsigned int)dim, bs);
				out = rtCompare(orig, back, bs);
			}else{
				LabeledData<RealVector, RealVector> orig, back;
				if(n) orig = createLabeledDataFromRange(in, reg, 3);
				{ std::ofstream ofs(file.c_str()); exportSparseData(orig, ofs); }
				importSparseData(back, file, (unsigned int)dim, bs);
				out = rtCompare(orig, back, bs);
			}
			(void)sparse;
		}
	}catch(shark::Exception const&){ out = "rt shark-exception"; }
	catch(std::exception const& e){ out = std::string("rt std-exception ") + e.what() + " !oracle foreign-exception"; }
	std::remove(file.c_str());
	return out;
}


// ---- exporters on arbitrary datasets given in the op, written file compared byte for byte with the
// model's printer; then the file is imported again (file overloads) and the round trip is judged by an
// independent oracle: values equal up to the printed precision, labels equal up to the importer's shift.
static double parseVal(std::string const& t){
	if(t == "nan") return std::numeric_limits<double>::quiet_NaN();
	if(t == "inf") return std::numeric_limits<double>::infinity();
	if(t == "-inf") return -std::numeric_limits<double>::infinity();
	bool neg = t[0] == '-'; std::size_t c = t.find('^');
	double m = double(std::stoull(t.substr(neg ? 1 : 0, c - (neg ? 1 : 0)))); int e = std::stoi(t.substr(c + 1));
	double x = std::ldexp(m, e); return neg ? -x : x;
}
static bool closeTo(double orig, double back, double rel){
	if(std::isnan(orig)) return std::isnan(back);
	if(std::isinf(orig) || std::isinf(back)) return orig == back || (std::isinf(back) && std::fabs(orig) > 1.79e308);
	return std::fabs(orig - back) <= rel * std::fabs(orig) + 5e-324;
}
template<class V> shark::RealVector denseOf(V const& v, std::size_t dim){
	shark::RealVector r(dim, 0.0); shark::RealVector d(v);
	for(std::size_t i = 0; i != d.size() && i != dim; ++i) r(i) = d(i);
	return r;
}
// orig/back: dense copies of inputs; returns "" or an oracle tag
static std::string rtInputs(std::vector<shark::RealVector> const& a, std::vector<shark::RealVector> const& b, double rel){
	if(a.size() != b.size()) return "roundtrip-element-count";
	for(std::size_t i = 0; i != a.size(); ++i){
		if(a[i].size() != b[i].size()) return "roundtrip-dimension";
		for(std::size_t j = 0; j != a[i].size(); ++j) if(!closeTo(a[i](j), b[i](j), rel)) return "roundtrip-value";
	}
	return "";
}
static std::string rtClassLabels(std::vector<unsigned> const& a, std::vector<unsigned> const& b){
	if(a.size() != b.size()) return "roundtrip-label-count";
	unsigned mn = a.empty() ? 0 : *std::min_element(a.begin(), a.end());
	for(std::size_t i = 0; i != a.size(); ++i) if(a[i] - mn != b[i]) return "roundtrip-label";
	return "";
}
template<class D> std::vector<shark::RealVector> inputsOf(D const& data, std::size_t dim){
	std::vector<shark::RealVector> r;
	for(auto const& e: data.elements()) r.push_back(denseOf(e, dim));
	return r;
}
template<class D> std::size_t dimOf(D const& data){ return data.numberOfElements() ? shark::RealVector(data.element(0)).size() : 0; }

template<class VT>
std::string xcsvRun(std::vector<std::string> const& t){
	using namespace shark;
	typedef typename VT::value_type T;
	std::string kind = t[1]; bool f32 = t[2] == "f32";
	LabelPosition lp = t[3] == "F" ? FIRST_COLUMN : LAST_COLUMN;
	std::size_t nout = std::stoull(t[4]); char sep = char(std::stoul(t[5])); bool sci = t[6] == "1";
	unsigned width = unsigned(std::stoul(t[7])); std::size_t maxB = std::stoull(t[8]), n = std::stoull(t[9]), dim = std::stoull(t[10]);
	std::size_t per = dim + (kind == "c" ? 1 : kind == "r" ? nout : 0);
	if(t.size() != 11 + n * per) return "bad-op";
	std::vector<VT> in(n, VT(dim)), reg(n, VT(nout)); std::vector<unsigned> lab(n);
	std::size_t k = 11;
	for(std::size_t e = 0; e != n; ++e){
		for(std::size_t j = 0; j != dim; ++j) in[e](j) = T(parseVal(t[k++]));
		if(kind == "c") lab[e] = unsigned(std::stoul(t[k++]));
		if(kind == "r") for(std::size_t j = 0; j != nout; ++j) reg[e](j) = T(parseVal(t[k++]));
	}
	double rel = f32 ? 0.0 : (sci ? 0.5e-10 : 0.5e-9);
	std::string fn = tmpFile(), bytes, imp, tag;
	std::vector<RealVector> origIn; for(auto const& v: in) origIn.push_back(RealVector(v));
	try{
		if(kind == "u"){
			Data<VT> orig, back; if(n) orig = createDataFromRange(in, 3);
			exportCSV(orig, fn, sep, sci, width); bytes = readFile(fn);
			imp = guarded([&]{ importCSV(back, fn, sep, '#', maxB); }, false);
			if(imp.empty()){ imp = observeUnlabeled(back, n, maxB, false); tag = rtInputs(origIn, inputsOf(back, dimOf(back)), rel); }
		}else if(kind == "c"){
			LabeledData<VT, unsigned int> orig, back; if(n) orig = createLabeledDataFromRange(in, lab, 3);
			exportCSV(orig, fn, lp, sep, sci, width); bytes = readFile(fn);
			imp = guarded([&]{ importCSV(back, fn, lp, sep, '#', maxB); }, false);
			if(imp.empty()){
				imp = observe(back, n, maxB, false); tag = rtInputs(origIn, inputsOf(back.inputs(), dimOf(back.inputs())), rel);
				std::vector<unsigned> bl; for(auto l: back.labels().elements()) bl.push_back(l);
				if(tag.empty()) tag = rtClassLabels(lab, bl);
			}
		}else{
			LabeledData<VT, VT> orig, back; if(n) orig = createLabeledDataFromRange(in, reg, 3);
			exportCSV(orig, fn, lp, sep, sci, width); bytes = readFile(fn);
			imp = guarded([&]{ importCSV(back, fn, lp, nout, sep, '#', maxB); }, false);
			if(imp.empty()){
				imp = observe(back, n, maxB, false); tag = rtInputs(origIn, inputsOf(back.inputs(), dimOf(back.inputs())), rel);
				std::vector<RealVector> ol; for(auto const& v: reg) ol.push_back(RealVector(v));
				if(tag.empty()) tag = rtInputs(ol, inputsOf(back.labels(), dimOf(back.labels())), rel);
			}
		}
	}catch(shark::Exception const& e){ std::remove(fn.c_str()); return "exp=shark-exception" + errKind(e); }
	std::remove(fn.c_str());
	std::string out = "exp=" + hexOf(bytes) + " imp=" + imp;
	if(!tag.empty()) out += " !oracle " + tag;
	return out;
}
static std::string runXcsv(std::vector<std::string> const& t){
	try{ return t[2] == "f32" ? xcsvRun<shark::FloatVector>(t) : xcsvRun<shark::RealVector>(t); }
	catch(std::exception const& e){ return std::string("std-exception ") + e.what() + " !oracle foreign-exception"; }
}


template<class T> void putCell(shark::blas::vector<T>& v, std::size_t i, T x){ v(i) = x; }
template<class T> void putCell(shark::blas::compressed_vector<T>& v, std::size_t i, T x){ v.set_element(v.end(), i, x); }
template<class VT> void fill(shark::LabeledData<VT, unsigned int>& d, std::vector<VT> const& in, std::vector<unsigned> const& lab, std::vector<shark::RealVector> const&, std::size_t n){
	if(n) d = shark::createLabeledDataFromRange(in, lab, 3);
}
template<class VT> void fill(shark::LabeledData<VT, shark::RealVector>& d, std::vector<VT> const& in, std::vector<unsigned> const&, std::vector<shark::RealVector> const& reg, std::size_t n){
	if(n) d = shark::createLabeledDataFromRange(in, reg, 3);
}
template<class VT> void doExport(shark::LabeledData<VT, unsigned int> const& d, std::string const& fn, bool omo, bool srt, bool append){
	shark::exportSparseData(d, fn, omo, srt, append);
}
template<class VT> void doExport(shark::LabeledData<VT, shark::RealVector> const& d, std::string const& fn, bool, bool, bool append){
	shark::exportSparseData(d, fn, append);
}
template<class VT> std::string labelOracle(shark::LabeledData<VT, unsigned int>& back, std::vector<unsigned> const& lab, std::vector<shark::RealVector> const&, std::size_t n, std::size_t reps){
	std::vector<unsigned> bl; for(auto l: back.labels().elements()) bl.push_back(l);
	std::vector<unsigned> all; for(std::size_t r = 0; r != reps; ++r) all.insert(all.end(), lab.begin(), lab.end());
	return rtClassLabels(all, bl);
}
template<class VT, class LV> std::string labelOracle(shark::LabeledData<VT, LV>& back, std::vector<unsigned> const&, std::vector<shark::RealVector> const& reg, std::size_t n, std::size_t reps){
	std::size_t i = 0;
	for(auto const& l: back.labels().elements()){
		if(l.size() != 1 || !closeTo(reg[i % n](0), l(0), 0.5e-5)) return "roundtrip-label";
		++i;
	}
	return i == n * reps ? "" : "roundtrip-label-count";
}
// xsvm <d|s> <c|r> <f64|f32> <dims> <bs> <oneMinusOne> <sort> <append> <n> <dim> <elements...>
template<class VT, class LT, class BackT>
std::string xsvmRun(std::vector<std::string> const& t){
	using namespace shark;
	typedef typename VT::value_type T;
	bool sparse = t[1] == "s", cls = t[2] == "c", f32 = t[3] == "f32";
	unsigned dims = unsigned(std::stoul(t[4])); std::size_t bs = std::stoull(t[5]);
	bool omo = t[6] == "1", srt = t[7] == "1", app = t[8] == "1";
	std::size_t n = std::stoull(t[9]), dim = std::stoull(t[10]);
	std::vector<VT> in(n, VT(dim)); std::vector<unsigned> lab(n); std::vector<RealVector> reg(n, RealVector(1));
	std::size_t k = 11;
	for(std::size_t e = 0; e != n; ++e){
		if(sparse){
			if(k >= t.size()) return "bad-op";
			std::size_t nnz = std::stoull(t[k++]);
			if(k + 2 * nnz + 1 > t.size()) return "bad-op";
			for(std::size_t j = 0; j != nnz; ++j){ std::size_t idx = std::stoull(t[k++]); T v = T(parseVal(t[k++])); putCell(in[e], idx, v); }
		}else{
			if(k + dim + 1 > t.size()) return "bad-op";
			for(std::size_t j = 0; j != dim; ++j) putCell(in[e], j, T(parseVal(t[k++])));
		}
		if(cls) lab[e] = unsigned(std::stoul(t[k++])); else reg[e](0) = parseVal(t[k++]);
	}
	if(k != t.size()) return "bad-op";
	std::string fn = tmpFile(), bytes, imp, tag;
	std::vector<RealVector> origIn; for(auto const& v: in) origIn.push_back(denseOf(v, dim));
	std::remove(fn.c_str());
	BackT back;
	try{
		LabeledData<VT, LT> orig;
		fill(orig, in, lab, reg, n);
		for(int rep = 0; rep != (app ? 2 : 1); ++rep) doExport(orig, fn, omo, srt, rep == 1);
		bytes = readFile(fn);
		imp = guarded([&]{ importSparseData(back, fn, dims, bs); }, false);
	}catch(shark::Exception const& e){ std::remove(fn.c_str()); return "exp=shark-exception" + errKind(e); }
	std::remove(fn.c_str());
	if(imp.empty()){
		std::size_t reps = app ? 2 : 1;
		imp = observe(back, n * reps, bs, false);
		// independent round-trip oracle (%.6g: six significant digits; float inputs: nine would be needed, so 6 digits too)
		std::vector<RealVector> bi = inputsOf(back.inputs(), dim);
		std::size_t bdim = dimOf(back.inputs());
		if(n && bdim > dim && !(dims > dim)) tag = "roundtrip-dimension";
		if(n && dims == dim && bdim != dim) tag = "roundtrip-dimension";
		if(bi.size() != n * reps) tag = "roundtrip-element-count";
		if(tag.empty() && !srt) for(std::size_t r = 0; r != reps && tag.empty(); ++r){
			std::vector<RealVector> part(bi.begin() + r * n, bi.begin() + (r + 1) * n);
			tag = rtInputs(origIn, part, 0.5e-5);
		}
		if(tag.empty() && !srt) tag = labelOracle(back, lab, reg, n, reps);
	}
	std::string out = "exp=" + hexOf(bytes) + " imp=" + imp;
	if(!tag.empty()) out += " !oracle " + tag;
	return out;
}

static std::string runXsvm(std::vector<std::string> const& t){
	using namespace shark;
	bool sparse = t[1] == "s", cls = t[2] == "c", f32 = t[3] == "f32";
	try{
		if(!sparse && cls && !f32) return xsvmRun<RealVector, unsigned int, LabeledData<RealVector, unsigned int> >(t);
		if(!sparse && cls &&  f32) return xsvmRun<FloatVector, unsigned int, LabeledData<FloatVector, unsigned int> >(t);
		if( sparse && cls && !f32) return xsvmRun<CompressedRealVector, unsigned int, LabeledData<CompressedRealVector, unsigned int> >(t);
		if( sparse && cls &&  f32) return xsvmRun<CompressedFloatVector, unsigned int, LabeledData<CompressedFloatVector, unsigned int> >(t);
		if(!sparse && !cls && !f32) return xsvmRun<RealVector, RealVector, LabeledData<RealVector, RealVector> >(t);
		if(!sparse && !cls &&  f32) return xsvmRun<FloatVector, RealVector, LabeledData<FloatVector, FloatVector> >(t);
		if( sparse && !cls && !f32) return xsvmRun<CompressedRealVector, RealVector, LabeledData<CompressedRealVector, RealVector> >(t);
		if( sparse && !cls &&  f32) return xsvmRun<CompressedFloatVector, RealVector, LabeledData<CompressedFloatVector, FloatVector> >(t);
	}catch(std::exception const& e){ return std::string("std-exception ") + e.what() + " !oracle foreign-exception"; }
	return "bad-op";
}

int main(int argc, char** argv){
	using namespace shark;
	if(argc > 1) g_tmpdir = argv[1];
	std::signal(SIGALRM, onAlarm);
	std::string line;
	while(std::getline(std::cin, line)){
		std::vector<std::string> t = vh::tokens(line);
		if(t.empty()){ std::cout << "\n"; continue; }
		g_prefill = false;
		if(t[0] == "reuse"){ g_prefill = true; t.erase(t.begin()); if(t.empty()){ std::cout << "bad-op\n"; continue; } }
		std::string out = "bad-op";
		alarm(20);
		if((t[0] == "svm" || t[0] == "svmf") && t.size() == 8){
			bool vf = t[0] == "svmf";
			bool sparse = t[1] == "s", cls = t[2] == "c", f32 = t[3] == "f32", safety = t[6] == "S";
			unsigned int dims = (unsigned int)std::stoul(t[4]);
			std::size_t bs = std::stoull(t[5]);
			std::string bytes = unhex(t[7]);
			if(!sparse && cls && !f32) out = runSvm<LabeledData<RealVector, unsigned int> >(bytes, dims, bs, safety, vf);
			if(!sparse && cls &&  f32) out = runSvm<LabeledData<FloatVector, unsigned int> >(bytes, dims, bs, safety, vf);
			if(!sparse && !cls && !f32) out = runSvm<LabeledData<RealVector, RealVector> >(bytes, dims, bs, safety, vf);
			if(!sparse && !cls &&  f32) out = runSvm<LabeledData<FloatVector, FloatVector> >(bytes, dims, bs, safety, vf);
			if( sparse && cls && !f32) out = runSvm<LabeledData<CompressedRealVector, unsigned int> >(bytes, dims, bs, safety, vf);
			if( sparse && cls &&  f32) out = runSvm<LabeledData<CompressedFloatVector, unsigned int> >(bytes, dims, bs, safety, vf);
			if( sparse && !cls && !f32) out = runSvm<LabeledData<CompressedRealVector, RealVector> >(bytes, dims, bs, safety, vf);
			if( sparse && !cls &&  f32) out = runSvm<LabeledData<CompressedFloatVector, FloatVector> >(bytes, dims, bs, safety, vf);
		}
		if(t[0] == "rt" && t.size() >= 8) out = runRt(t);
		if(t[0] == "csv1" && t.size() == 6){
			char comment = char(std::stoul(t[2])); std::size_t maxB = std::stoull(t[3]); bool safety = t[4] == "S";
			std::string bytes = unhex(t[5]);
			if(t[1] == "int") out = runCsv1<int>(bytes, comment, maxB, safety);
			if(t[1] == "uint") out = runCsv1<unsigned int>(bytes, comment, maxB, safety);
			if(t[1] == "f64") out = runCsv1<double>(bytes, comment, maxB, safety);
			if(t[1] == "f32") out = runCsv1<float>(bytes, comment, maxB, safety);
		}
		if(t[0] == "xcsv" && t.size() >= 11) out = runXcsv(t);
		if(t[0] == "xsvm" && t.size() >= 11) out = runXsvm(t);
		if((t[0] == "csv" && t.size() == 10) || (t[0] == "csvf" && t.size() == 11)){
			bool vf = t[0] == "csvf"; std::size_t o = vf ? 1 : 0;
			bool f32 = t[2] == "f32", safety = t[8 + o] == "S";
			LabelPosition lp = t[3] == "F" ? FIRST_COLUMN : LAST_COLUMN;
			std::size_t nout = std::stoull(t[4]);
			char sep = char(std::stoul(t[5])), comment = char(std::stoul(t[6]));
			std::size_t maxB = std::stoull(t[7]);
			std::size_t title = vf ? std::stoull(t[8]) : 0;
			std::string bytes = unhex(t[9 + o]);
			if(t[1] == "u" && !f32) out = runCsvU<Data<RealVector> >(bytes, sep, comment, maxB, safety, vf, title);
			if(t[1] == "u" &&  f32) out = runCsvU<Data<FloatVector> >(bytes, sep, comment, maxB, safety, vf, title);
			if(t[1] == "c" && !f32) out = runCsvC<LabeledData<RealVector, unsigned int> >(bytes, lp, sep, comment, maxB, safety, vf);
			if(t[1] == "c" &&  f32) out = runCsvC<LabeledData<FloatVector, unsigned int> >(bytes, lp, sep, comment, maxB, safety, vf);
			if(t[1] == "r" && !f32) out = runCsvR<LabeledData<RealVector, RealVector> >(bytes, lp, nout, sep, comment, maxB, safety, vf);
			if(t[1] == "r" &&  f32) out = runCsvR<LabeledData<FloatVector, FloatVector> >(bytes, lp, nout, sep, comment, maxB, safety, vf);
		}
		alarm(0);
		std::cout << out << "\n" << std::flush;
	}
	return 0;
}
