// C16 harness, part 3: the per-example step of the linear multi-class solvers (QpMcLinear.h).
// Model: lean/SharkVerif/Model/McLinearMc.lean; driver part: lean/Driver/C16L.lean.
//
//   mldata n d k <coords+8 (n*d)> <labels (n)>
//   mlnew  F Cnum Cshift epsnum epsshift           F in WW LLW ATS MMR RS CS ATM ADM;  C = Cnum/2^Cshift, minAccuracy = epsnum/2^epsshift
//   mlstep i | mlsweep i1 i2 ...                   → A=[..] W=[..] gain=<bits> kkt=<bits> obj=<bits> #x=1|0 [ !oracle <tag>]
//   mlsolve F Cnum Cshift epsnum epsshift seed     → the real solve(); oracle only (line is not produced by the driver; not part of the tie)
//
// A Probe subclass per solver exposes the three protected virtuals and executes exactly the statements of
// the body of the inner `for j` loop of QpMcLinear::solve (shrinking off, ACF bookkeeping omitted) on its own
// alpha (ell x (classes+1)) and w (classes x dim).
//
// Independent oracles (on the real code's state after every op):
//  (a) ml-w-inconsistent: w_c = sum_i sum_p coefficient(F, y_i, p, c) * alpha(i,p) * x_i with the coefficient map
//        WW        : c == y ? 1/2 (every p)         : (p == c ? -1/2 : 0)
//        CS        : c == y ? (p != y ? 1/2 : 0)    : (p == c ? -1/2 : 0)
//        LLW, ADM  : 1/K - [p == c]
//        ATS,ATM,RS: s_p/K - s_c [p == c],   s_t = (t == y ? -1 : +1)
//        MMR       : p = 0 only:  [c == y] - 1/K
//  (b) ml-box / ml-sum: 0 <= alpha(i,p) <= C; alpha(i,y_i) == 0 for WW, LLW, CS, ADM; MMR: columns 1.. are 0;
//      CS, ATM, ADM: sum_p alpha(i,p) <= C and alpha(i,K) equals that sum
// Informational side channels (NOT oracles: C16 does not speak about the gain a sub-solver returns):
//  (c) #gainneg=1: gain < -1e-12
//  (d) #gainmis=1: the returned gain differs from the change of the dual objective
//        D(alpha) = sum_{i,p} lin(F,y_i,p) alpha(i,p) - 1/2 sum_c |w_c|^2,  lin = K-1 for (RS, p == y), else 1
//      (the objective whose partial derivatives calcGradient computes)
//  (e) #objdec=1: a step decreased D(alpha)
#include <shark/Algorithms/QP/QpMcLinear.h>
#include <shark/Algorithms/QP/QuadraticProgram.h>
#include <shark/Data/Dataset.h>
#include <shark/Core/Random.h>
#include "common.hpp"
#include <cfenv>
#include <cstring>
#include <memory>
using namespace shark;

namespace {

typedef LabeledData<RealVector, unsigned int> MlDataset;

std::string mlbits(double x){
	std::uint64_t u; std::memcpy(&u, &x, sizeof u);
	std::ostringstream os; os << u; return os.str();
}
double shiftv(long long num, long long sh){ return std::ldexp((double)num, -(int)sh); }

struct MlProbeBase{
	RealMatrix alpha, w;
	virtual ~MlProbeBase(){}
	virtual void stepOnce(std::size_t i, double C, double minAccuracy, double& gain, double& kkt) = 0;
	virtual RealMatrix runSolve(random::rng_type& rng, double C, QpStoppingCondition& stop, QpSolutionProperties& prop) = 0;
};

template<class Solver>
struct MlProbe: public Solver, public MlProbeBase{
	typedef typename Solver::InputReferenceType InputReferenceType;
	MlProbe(MlDataset const& data, std::size_t dim, std::size_t classes): Solver(data, dim, classes){
		alpha = RealMatrix(data.numberOfElements(), classes + 1, 0.0);
		w = RealMatrix(classes, dim, 0.0);
	}
	void stepOnce(std::size_t i, double C, double minAccuracy, double& gain, double& kkt){
		// ---- statements of the inner loop body of QpMcLinear::solve ----
		gain = 0.0;
		InputReferenceType x_i = this->m_data[i].input;
		const unsigned int y_i = this->m_data[i].label;
		const double q = this->m_xSquared(i);
		blas::dense_vector_adaptor<double> a = row(alpha, i);

		// compute gradient and KKT violation
		RealVector wx = prod(w, x_i);
		RealVector g(this->m_classes);
		kkt = this->calcGradient(g, wx, a, C, y_i);

		if (kkt > 0.0)
		{
			// perform the step on alpha
			RealVector mu(this->m_classes, 0.0);
			gain = this->solveSub(0.1 * minAccuracy, g, q, C, y_i, a, mu);

			// update weight vectors
			this->updateWeightVectors(w, mu, i);
		}
	}
	RealMatrix runSolve(random::rng_type& rng, double C, QpStoppingCondition& stop, QpSolutionProperties& prop){
		return this->solve(rng, C, stop, &prop);
	}
};

struct MlWorld{
	std::size_t n = 0, d = 0, k = 0;
	std::vector<RealVector> x;
	std::vector<unsigned int> y;
	MlDataset data;
	std::string form;
	std::unique_ptr<MlProbeBase> probe;
	double C = 1, eps = 0.001;
	bool exact = true;        // no floating-point exception (inexact, division by zero, ...) since mlnew
} M;

bool knownForm(std::string const& f){
	return f == "WW" || f == "LLW" || f == "ATS" || f == "MMR" || f == "RS" || f == "CS" || f == "ATM" || f == "ADM";
}
MlProbeBase* makeProbe(std::string const& f){
	if(f == "WW") return new MlProbe<QpMcLinearWW<RealVector> >(M.data, M.d, M.k);
	if(f == "LLW") return new MlProbe<QpMcLinearLLW<RealVector> >(M.data, M.d, M.k);
	if(f == "ATS") return new MlProbe<QpMcLinearATS<RealVector> >(M.data, M.d, M.k);
	if(f == "MMR") return new MlProbe<QpMcLinearMMR<RealVector> >(M.data, M.d, M.k);
	if(f == "RS") return new MlProbe<QpMcLinearReinforced<RealVector> >(M.data, M.d, M.k);
	if(f == "CS") return new MlProbe<QpMcLinearCS<RealVector> >(M.data, M.d, M.k);
	if(f == "ATM") return new MlProbe<QpMcLinearATM<RealVector> >(M.data, M.d, M.k);
	if(f == "ADM") return new MlProbe<QpMcLinearADM<RealVector> >(M.data, M.d, M.k);
	return 0;
}

// ---- independent oracles ---------------------------------------------------------------------
bool skipY(std::string const& f){ return f == "WW" || f == "LLW" || f == "CS" || f == "ADM"; }
bool simplexForm(std::string const& f){ return f == "CS" || f == "ATM" || f == "ADM"; }

double coefficient(std::string const& f, std::size_t K, std::size_t y, std::size_t p, std::size_t c){
	if(f == "WW") return c == y ? 0.5 : (p == c ? -0.5 : 0.0);
	if(f == "CS") return c == y ? (p != y ? 0.5 : 0.0) : (p == c ? -0.5 : 0.0);
	if(f == "LLW" || f == "ADM") return 1.0 / (double)K - (p == c ? 1.0 : 0.0);
	if(f == "MMR") return p == 0 ? ((c == y ? 1.0 : 0.0) - 1.0 / (double)K) : 0.0;
	double sp = p == y ? -1.0 : 1.0, sc = c == y ? -1.0 : 1.0;   // ATS, ATM, RS
	return sp / (double)K - (p == c ? sc : 0.0);
}
double linCoeff(std::string const& f, std::size_t K, std::size_t y, std::size_t p){
	return (f == "RS" && p == y) ? (double)K - 1.0 : 1.0;
}
// dual objective from alpha alone (w recomputed through the coefficient map)
double dualFromAlpha(RealMatrix const& alpha){
	std::size_t K = M.k, P = (M.form == "MMR") ? 1 : K;
	double lin = 0;
	std::vector<double> w(K * M.d, 0.0);
	for(std::size_t i = 0; i != M.n; ++i) for(std::size_t p = 0; p != P; ++p){
		double a = alpha(i, p);
		lin += linCoeff(M.form, K, M.y[i], p) * a;
		for(std::size_t c = 0; c != K; ++c){
			double co = coefficient(M.form, K, M.y[i], p, c) * a;
			for(std::size_t k = 0; k != M.d; ++k) w[c * M.d + k] += co * M.x[i](k);
		}
	}
	double sq = 0; for(double v: w) sq += v * v;
	return lin - 0.5 * sq;
}
std::string stateOracle(){
	std::ostringstream os;
	RealMatrix const& A = M.probe->alpha; RealMatrix const& Wm = M.probe->w;
	std::size_t K = M.k, P = (M.form == "MMR") ? 1 : K;
	// (b) feasibility
	for(std::size_t i = 0; i != M.n; ++i){
		double sum = 0; bool bad = false;
		for(std::size_t p = 0; p != K; ++p){
			double a = A(i, p); sum += a;
			// box-type: clipping assigns exactly 0 or C; simplex-type: a_up + m is not clipped, allow rounding (a few ulps above C)
			if(!(a >= 0.0 && a <= (simplexForm(M.form) ? M.C * (1 + 1e-12) : M.C))) bad = true;
			if(p >= P && a != 0.0) bad = true;
			if(skipY(M.form) && p == M.y[i] && a != 0.0) bad = true;
		}
		if(bad){ os << " !oracle ml-box i=" << i; break; }
		if(simplexForm(M.form)){
			if(!(sum <= M.C * (1 + 1e-12)) || std::fabs(A(i, K) - sum) > 1e-9 * (1 + sum) || !(A(i, K) <= M.C)){ os << " !oracle ml-sum i=" << i; break; }
		}else if(A(i, K) != 0.0){ os << " !oracle ml-box-extra-column i=" << i; break; }
	}
	// (a) w consistency
	for(std::size_t c = 0; c != K; ++c){
		bool bad = false;
		for(std::size_t k = 0; k != M.d && !bad; ++k){
			double w = 0, scale = 0;
			for(std::size_t i = 0; i != M.n; ++i) for(std::size_t p = 0; p != P; ++p){
				double t = coefficient(M.form, K, M.y[i], p, c) * A(i, p) * M.x[i](k); w += t; scale += std::fabs(t);
			}
			if(!(std::fabs(w - Wm(c, k)) <= 1e-9 * (1 + scale))) bad = true;
		}
		if(bad){ os << " !oracle ml-w-inconsistent c=" << c; break; }
	}
	return os.str();
}

// objective as recomputed at the end of QpMcLinear::solve (same statements)
double solveObjective(RealMatrix const& alpha, RealMatrix const& w){
	std::size_t ell = M.n, m_classes = M.k, m_dim = M.d;
	double objective = 0.0;
	for (std::size_t j=0; j<m_classes; j++)
	{
		for (std::size_t d=0; d<m_dim; d++) objective -= w(j, d) * w(j, d);
	}
	objective *= 0.5;
	for (std::size_t i=0; i<ell; i++)
	{
		for (std::size_t j=0; j<m_classes; j++) objective += alpha(i, j);
	}
	return objective;
}

std::string dump(double gain, double kkt){
	std::ostringstream os;
	RealMatrix const& A = M.probe->alpha; RealMatrix const& Wm = M.probe->w;
	os << "A=[";
	for(std::size_t i = 0; i != M.n; ++i) for(std::size_t p = 0; p != M.k + 1; ++p) os << ((i || p) ? "," : "") << mlbits(A(i, p));
	os << "] W=[";
	for(std::size_t c = 0; c != M.k; ++c) for(std::size_t k = 0; k != M.d; ++k) os << ((c || k) ? "," : "") << mlbits(Wm(c, k));
	os << "] gain=" << mlbits(gain) << " kkt=" << mlbits(kkt) << " obj=" << mlbits(solveObjective(A, Wm));
	return os.str();
}

bool parseLL(std::vector<std::string> const& t, std::size_t from, std::vector<long long>& a){
	a.clear();
	for(std::size_t i = from; i < t.size(); ++i){ char* e = 0; long long v = std::strtoll(t[i].c_str(), &e, 10); if(*e || t[i].empty()) return false; a.push_back(v); }
	return true;
}
}

bool c16McLinOp(std::vector<std::string> const& t, std::string& out){
	if(t.empty()) return false;
	std::string const& op = t[0];
	if(op != "mldata" && op != "mlnew" && op != "mlstep" && op != "mlsweep" && op != "mlsolve") return false;
	out = "bad-op";
	if(op == "mldata"){
		std::vector<std::size_t> a;
		if(!vh::allNat(t, 1, a) || a.size() < 3 || a.size() != 3 + a[0]*a[1] + a[0] || a[0] == 0 || a[1] == 0 || a[2] < 2) return true;
		for(std::size_t i = 0; i != a[0]; ++i) if(a[3 + a[0]*a[1] + i] >= a[2]) return true;
		M.n = a[0]; M.d = a[1]; M.k = a[2]; M.x.assign(M.n, RealVector(M.d)); M.y.assign(M.n, 0);
		for(std::size_t i = 0; i != M.n; ++i) for(std::size_t j = 0; j != M.d; ++j) M.x[i](j) = (double)a[3 + i*M.d + j] - 8.0;
		for(std::size_t i = 0; i != M.n; ++i) M.y[i] = (unsigned int)a[3 + M.n*M.d + i];
		M.probe.reset();
		std::ostringstream os; os << "mldata n=" << M.n << " d=" << M.d << " k=" << M.k; out = os.str();
		return true;
	}
	if(op == "mlnew" || op == "mlsolve"){
		std::vector<long long> a;
		if(t.size() < 2 || !knownForm(t[1]) || !parseLL(t, 2, a) || a.size() != (op == "mlnew" ? 4u : 5u) || M.n == 0) return true;
		M.form = t[1]; M.C = shiftv(a[0], a[1]); M.eps = shiftv(a[2], a[3]);
		M.probe.reset();
		M.data = createLabeledDataFromRange(M.x, M.y, 3);      // several batches
		M.probe.reset(makeProbe(M.form));
		M.exact = true;
		if(op == "mlnew"){ out = dump(0.0, 0.0) + " #x=1" + stateOracle(); return true; }
		// mlsolve: the real solve(); prop->value against the dual objective of the returned state is not observable
		// (alpha is local to solve), so check value = -1/2 |w|^2 + (value + 1/2|w|^2) consistency only through w:
		random::rng_type rng; rng.seed((unsigned)a[4]);
		QpStoppingCondition stop; stop.minAccuracy = M.eps; stop.maxIterations = 100000 * M.n;
		QpSolutionProperties prop;
		RealMatrix w = M.probe->runSolve(rng, M.C, stop, prop);
		double sq = 0; for(std::size_t c = 0; c != M.k; ++c) for(std::size_t k = 0; k != M.d; ++k) sq += w(c, k) * w(c, k);
		std::ostringstream os;
		os << "solve value=" << mlbits(prop.value) << " iterations=" << prop.iterations << " type=" << (int)prop.type << " wsq=" << mlbits(sq);
		// sum of alpha = value + 1/2 |w|^2 must lie in [0, n*K*C]
		double sa = prop.value + 0.5 * sq;
		if(!(sa >= -1e-9 && sa <= (double)M.n * M.k * M.C * (1 + 1e-9))) os << " !oracle ml-solve-value";
		out = os.str();
		return true;
	}
	// mlstep / mlsweep
	std::vector<long long> a;
	if(!M.probe || !parseLL(t, 1, a) || a.empty() || (op == "mlstep" && a.size() != 1)) return true;
	for(long long v: a) if(v < 0 || (std::size_t)v >= M.n) return true;
	double gain = 0, kkt = 0;
	std::string orc;
	for(long long v: a){
		double before = dualFromAlpha(M.probe->alpha);
		std::feclearexcept(FE_ALL_EXCEPT);
		M.probe->stepOnce((std::size_t)v, M.C, M.eps, gain, kkt);
		if(std::fetestexcept(FE_INEXACT | FE_DIVBYZERO | FE_INVALID | FE_OVERFLOW | FE_UNDERFLOW) != 0) M.exact = false;
		double after = dualFromAlpha(M.probe->alpha);
		if(orc.empty()){
			std::ostringstream os;
			// INFORMATIONAL side channels (counted in the evidence, never fail a case): the property speaks about the trained
			// machine, not about the value solveSub returns or its inner iterates
			if(!(gain >= -1e-12)) os << " #gainneg=1";
			else if(!(after - before >= -1e-9 * (1 + std::fabs(before)))) os << " #objdec=1";
			else if(!(std::fabs((after - before) - gain) <= 1e-9 * (1 + std::fabs(before) + std::fabs(after)))) os << " #gainmis=1";
			orc = os.str();
		}
	}
	std::string line = dump(gain, kkt);
	out = line + " #x=" + (M.exact ? "1" : "0") + orc + stateOracle();
	return true;
}
