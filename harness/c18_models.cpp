// K-C18, third translation unit: models, normaliser, trainer-produced models.
// Every label runs the HISTORY of c18.hpp (fresh/used target, stale state, read twice, second generation,
// archive bytes of the restored object) in a polymorphic text or binary archive.
#include <shark/Models/LinearModel.h>
#include <shark/Models/ConcatenatedModel.h>
#include <shark/Models/Normalizer.h>
#include <shark/Models/RBFLayer.h>
#include <shark/Models/ConvolutionalModel.h>
#include <shark/Models/PoolingLayer.h>
#include <shark/Models/ResizeLayer.h>
#include <shark/Models/NeuronLayers.h>
#include <shark/Models/DropoutLayer.h>
#include <shark/Models/CMAC.h>
#include <shark/Models/Trees/CARTree.h>
#include <shark/Models/Clustering/Centroids.h>
#include <shark/Models/Clustering/HardClusteringModel.h>
#include <shark/Models/Clustering/SoftClusteringModel.h>
#include <shark/Models/NearestNeighborModel.h>
#include <shark/Models/Ensemble.h>
#include <shark/Models/OneVersusOneClassifier.h>
#include <boost/serialization/void_cast.hpp>
#include <shark/Models/Kernels/LinearKernel.h>
#include <shark/Algorithms/NearestNeighbors/SimpleNearestNeighbors.h>
#include <shark/Algorithms/Trainers/NormalizeComponentsUnitVariance.h>
#include <shark/Algorithms/Trainers/LDA.h>
#include <shark/Algorithms/Trainers/LinearRegression.h>
#include <shark/Algorithms/KMeans.h>
#include <shark/Unsupervised/RBM/BinaryRBM.h>
#include <shark/Unsupervised/RBM/GaussianBinaryRBM.h>
#include "common.hpp"
#include "c18.hpp"
#include <src/Models/CMAC.cpp>
#include <src/Models/Centroids.cpp>
#include <src/Algorithms/LDA.cpp>
#include <src/Algorithms/LinearRegression.cpp>
#include <src/Algorithms/KMeans.cpp>

using namespace shark;
using c18::points; using c18::ramp; using c18::vecStr; using c18::matStr; using c18::shapeStr; using c18::history; using c18::cell;

namespace {
template<class M> std::string modelHistory(std::string const& label, M& a, M& a2, M& b, std::size_t dim, bool binary){
	return history(label, a, a2, b, [dim](M& m){ return c18::modelBehaviour(m, dim); }, binary);
}
template<class M> std::string classifierBeh(M& m, std::size_t dim){
	RealMatrix x = points(6, dim, 2); UIntVector y; m.eval(x, y);
	std::string s = "params=" + vecStr(m.parameterVector()) + " eval=";
	for(std::size_t i = 0; i != y.size(); ++i) s += std::to_string(y(i)) + ",";
	return s;
}
Data<RealVector> denseData(std::vector<std::size_t> const& bs, std::size_t dim, std::size_t seed){
	Data<RealVector> d(bs.size());
	std::size_t e = 0;
	for(std::size_t b = 0; b != bs.size(); ++b){
		d.batch(b).resize(bs[b], dim);
		for(std::size_t i = 0; i != bs[b]; ++i, ++e) for(std::size_t j = 0; j != dim; ++j) d.batch(b)(i,j) = double(cell(seed, e, j));
	}
	d.shape() = {dim};
	return d;
}
Data<unsigned int> labelData(std::vector<std::size_t> const& bs, std::size_t seed, unsigned classes){
	Data<unsigned int> d(bs.size());
	std::size_t e = 0;
	for(std::size_t b = 0; b != bs.size(); ++b){
		d.batch(b).resize(bs[b]);
		for(std::size_t i = 0; i != bs[b]; ++i, ++e) d.batch(b)(i) = unsigned((e * 2 + seed + e / 3) % classes);
	}
	d.shape() = {classes};
	return d;
}
}

std::string c18::runModel(std::string const& label, bool binary){
	if(label == "LinearModel-offset" || label == "LinearModel-nooffset"){
		bool off = label == "LinearModel-offset";
		LinearModel<> a(3, 2, off), a2(3, 4, !off), b(1, 1, !off);
		a.setParameterVector(ramp(a.numberOfParameters(), -2, 0.5)); a2.setParameterVector(ramp(a2.numberOfParameters(), 3, -0.25));
		RealMatrix x = points(2, 1, 1), y; b.eval(x, y);            // the target was used
		return modelHistory(label, a, a2, b, 3, binary);
	}
	if(label == "LinearModel-float"){
		typedef LinearModel<FloatVector> M;
		M a(3, 2, true), a2(3, 1, false), b(1, 1, false);
		FloatVector p(a.numberOfParameters()); for(std::size_t i = 0; i != p.size(); ++i) p(i) = float(i) * 0.5f - 1.0f;
		a.setParameterVector(p);
		auto beh = [](M& m){ return "params=" + vecStr(m.parameterVector()) + " in=" + shapeStr(m.inputShape()) + " out=" + shapeStr(m.outputShape()); };
		return history(label, a, a2, b, beh, binary);
	}
	if(label == "Normalizer" || label == "Normalizer-nooffset"){
		bool off = label == "Normalizer";
		Normalizer<> a(3, off), a2(3, !off), b;
		a.setParameterVector(ramp(a.numberOfParameters(), 1, 0.25)); a2.setParameterVector(ramp(a2.numberOfParameters(), -1, 0.5));
		return modelHistory(label, a, a2, b, 3, binary);
	}
	if(label == "ConcatenatedModel" || label == "ConcatenatedModel-frozen-layer" || label == "ConcatenatedModel-nested"){
		LinearModel<> a1(3, 2, true), a2(2, 2, false), a3(2, 1, true), c1(3, 2, true), c2(2, 2, false), c3(2, 1, true), b1(3, 2, true), b2(2, 2, false), b3(2, 1, true);
		a1.setParameterVector(ramp(a1.numberOfParameters(), -1, 0.5)); a2.setParameterVector(ramp(a2.numberOfParameters(), 2, -0.25)); a3.setParameterVector(ramp(a3.numberOfParameters(), 0.5, 0.5));
		c1.setParameterVector(ramp(c1.numberOfParameters(), 1, 0.25)); c2.setParameterVector(ramp(c2.numberOfParameters(), -2, 0.75)); c3.setParameterVector(ramp(c3.numberOfParameters(), 3, -1));
		b1.setParameterVector(ramp(b1.numberOfParameters(), 0, 0)); b2.setParameterVector(ramp(b2.numberOfParameters(), 1, 0)); b3.setParameterVector(ramp(b3.numberOfParameters(), 1, 0));
		typedef ConcatenatedModel<RealVector> C;
		if(label == "ConcatenatedModel-nested"){
			// a concatenation whose first layer is itself a concatenation
			C ia = a1 >> a2, ic = c1 >> c2, ib = b1 >> b2;
			ic.enableModelOptimization(1, false);
			C a, a2m, b;
			a.add(&ia, true); a.add(&a3, true);
			a2m.add(&ic, true); a2m.add(&c3, false);
			b.add(&ib, true); b.add(&b3, true);
			return modelHistory(label, a, a2m, b, 3, binary);
		}
		C a = a1 >> a2, a2m = c1 >> c2, b = b1 >> b2;
		if(label == "ConcatenatedModel-frozen-layer"){ a.enableModelOptimization(0, false); b.enableModelOptimization(1, false); }
		else a2m.enableModelOptimization(1, false);
		return modelHistory(label, a, a2m, b, 3, binary);
	}
	if(label == "LinearClassifier"){
		LinearClassifier<> a(Shape(3), 3, true), a2(Shape(3), 4, false), b(Shape(2), 2, false);
		a.setParameterVector(ramp(a.numberOfParameters(), -2, 0.75)); a2.setParameterVector(ramp(a2.numberOfParameters(), 1, -0.5));
		return history(label, a, a2, b, [](LinearClassifier<>& m){ return classifierBeh(m, 3); }, binary);
	}
	if(label == "RBFLayer"){
		RBFLayer a(2, 3), a2(2, 4), b(1, 1);
		a.setParameterVector(ramp(a.numberOfParameters(), -1, 0.25)); a2.setParameterVector(ramp(a2.numberOfParameters(), 0.5, -0.125));
		auto beh = [](RBFLayer& m){ RealMatrix x = points(4, 2, 3), y; m.eval(x, y); return "params=" + vecStr(m.parameterVector()) + " eval=" + matStr(y); };
		return history(label, a, a2, b, beh, binary);
	}
	if(label == "Conv2DModel" || label == "Conv2DModel-valid"){
		typedef Conv2DModel<RealVector, LinearNeuron> M;
		Padding pad = label == "Conv2DModel" ? Padding::ZeroPad : Padding::Valid;
		M a(Shape({4, 4, 1}), Shape({2, 3, 3}), pad), a2(Shape({4, 4, 1}), Shape({1, 2, 2}), Padding::ZeroPad), b(Shape({3, 3, 2}), Shape({1, 2, 2}), Padding::Valid);
		a.setParameterVector(ramp(a.numberOfParameters(), -1, 0.125)); a2.setParameterVector(ramp(a2.numberOfParameters(), 1, -0.25));
		b.setParameterVector(ramp(b.numberOfParameters(), 0.5, 0.5));
		return modelHistory(label, a, a2, b, 16, binary);
	}
	if(label == "PoolingLayer"){
		typedef PoolingLayer<RealVector> M;
		M a(Shape({4, 4, 1}), Shape({2, 2})), a2(Shape({4, 4, 1}), Shape({4, 2})), b(Shape({2, 2, 3}), Shape({1, 1}));
		return modelHistory(label, a, a2, b, 16, binary);
	}
	if(label == "ResizeLayer"){
		typedef ResizeLayer<RealVector> M;
		M a(Shape({4, 4, 1}), Shape({2, 3})), a2(Shape({4, 4, 1}), Shape({5, 5})), b(Shape({2, 2, 2}), Shape({3, 3}));
		return modelHistory(label, a, a2, b, 16, binary);
	}
	if(label == "NeuronLayer"){
		typedef NeuronLayer<LogisticNeuron> M;
		M a(Shape(3)), a2(Shape({3, 1})), b(Shape(7));
		return modelHistory(label, a, a2, b, 3, binary);
	}
	if(label == "DropoutLayer"){
		typedef DropoutLayer<RealVector> M;
		M a(Shape(3), 0.25), a2(Shape(3), 0.75), b(Shape(3), 0.5);
		auto beh = [](M& m){
			random::globalRng.seed(7);
			RealMatrix x = points(6, 3, 3), y; m.eval(x, y);
			return "in=" + shapeStr(m.inputShape()) + " eval=" + matStr(y);
		};
		return history(label, a, a2, b, beh, binary);
	}
	if(label == "CMACMap"){
		CMACMap a, a2, b;
		random::globalRng.seed(11);
		a.setStructure(Shape(2), Shape(2), 3, 4, 0.0, 1.0, false); a2.setStructure(Shape(2), Shape(1), 2, 3, 0.0, 1.0, true); b.setStructure(Shape(1), Shape(1), 1, 2, 0.0, 1.0, false);
		a.setParameterVector(ramp(a.numberOfParameters(), -1, 0.0625)); a2.setParameterVector(ramp(a2.numberOfParameters(), 1, 0.125));
		auto beh = [](CMACMap& m){
			RealMatrix x = points(5, 2, 3), y;
			for(std::size_t i = 0; i != x.size1(); ++i) for(std::size_t j = 0; j != x.size2(); ++j) x(i,j) = (x(i,j) + 5.0) / 11.0;
			m.eval(x, y);
			return "params=" + vecStr(m.parameterVector()) + " in=" + shapeStr(m.inputShape()) + " out=" + shapeStr(m.outputShape()) + " eval=" + matStr(y);
		};
		return history(label, a, a2, b, beh, binary);
	}
	if(label == "CARTree-classifier" || label == "CARTree-regression"){
		if(label == "CARTree-classifier"){
			typedef CARTree<unsigned int> T;
			T a(3, Shape(3)), a2(3, Shape(2)), b(1, Shape(2));
			a.createRoot(); a.transformInternalNode(0, 1, 0.5); a.transformLeafNode(1, 2u);
			a.transformInternalNode(2, 0, -1.5); a.transformLeafNode(3, 0u); a.transformLeafNode(4, 1u);
			a2.createRoot(); a2.transformLeafNode(0, 1u);
			b.createRoot(); b.transformInternalNode(0, 0, 0.0); b.transformLeafNode(1, 0u); b.transformLeafNode(2, 1u);
			auto beh = [](T& m){ return classifierBeh(m, 3) + " nodes=" + std::to_string(m.numberOfNodes()) + " in=" + shapeStr(m.inputShape()) + " out=" + shapeStr(m.outputShape()); };
			return history(label, a, a2, b, beh, binary);
		}
		typedef CARTree<RealVector> T;
		T a(3, Shape(2)), a2(3, Shape(1)), b(1, Shape(1));
		a.createRoot(); a.transformInternalNode(0, 2, 1.5); a.transformLeafNode(1, RealVector{0.75, -0.25}); a.transformLeafNode(2, RealVector{2.0, 0.5});
		a2.createRoot(); a2.transformLeafNode(0, RealVector{4.0});
		b.createRoot(); b.transformLeafNode(0, RealVector{-1.0});
		auto beh = [](T& m){ return c18::modelBehaviour(m, 3) + " nodes=" + std::to_string(m.numberOfNodes()); };
		return history(label, a, a2, b, beh, binary);
	}
	if(label == "Centroids" || label == "HardClusteringModel" || label == "SoftClusteringModel" || label == "Centroids-kmeans"){
		Centroids a(denseData({2, 1}, 2, 3)), a2(denseData({4}, 2, 6)), b(2, 5);
		if(label == "Centroids-kmeans"){
			random::globalRng.seed(5);
			Data<RealVector> data = denseData({4, 4, 3}, 2, 2);
			kMeans(data, 3, a, 20);
		}
		if(label == "HardClusteringModel"){
			typedef HardClusteringModel<RealVector> M; M ma(&a), ma2(&a2), mb(&b);
			return history(label, ma, ma2, mb, [](M& m){ return classifierBeh(m, 2); }, binary);
		}
		if(label == "SoftClusteringModel"){
			typedef SoftClusteringModel<RealVector> M; M ma(&a), ma2(&a2), mb(&b);
			return history(label, ma, ma2, mb, [](M& m){ RealMatrix x = points(4, 2, 3), y; m.eval(x, y); return "params=" + vecStr(m.parameterVector()) + " eval=" + matStr(y); }, binary);
		}
		auto beh = [](Centroids& c){
			RealMatrix x = points(4, 2, 3);
			RealMatrix d = c.softMembership(x);
			return "params=" + vecStr(c.parameterVector()) + " clusters=" + std::to_string(c.numberOfClusters()) + " soft=" + matStr(d);
		};
		return history(label, a, a2, b, beh, binary);
	}
	if(label == "NearestNeighborModel"){
		typedef NearestNeighborModel<RealVector, unsigned int> M;
		LabeledData<RealVector, unsigned int> da(denseData({3, 3}, 2, 1), labelData({3, 3}, 1, 3)), da2(denseData({5}, 2, 4), labelData({5}, 2, 2));
		LinearKernel<RealVector> k;
		SimpleNearestNeighbors<RealVector, unsigned int> na(da, &k), na2(da2, &k);
		M a(&na, 3), a2(&na2, 1), b(&na, 5);
		a.setDistanceWeightType(M::ONE_OVER_DISTANCE);
		auto beh = [](M& m){ return classifierBeh(m, 2) + " k=" + std::to_string(m.neighbors()); };
		// the neighbour structure is external: a2 and the second-generation step use a's structure for the comparison
		M a2same(&na, 1);
		return history(label, a, a2same, b, beh, binary);
	}
	if(label == "Ensemble"){
		typedef Ensemble<LinearModel<> > M;
		LinearModel<> l1(3, 2, true), l2(3, 2, false), l3(3, 2, true);
		l1.setParameterVector(ramp(l1.numberOfParameters(), -1, 0.5)); l2.setParameterVector(ramp(l2.numberOfParameters(), 2, -0.25)); l3.setParameterVector(ramp(l3.numberOfParameters(), 0.5, 0.125));
		M a, a2, b;
		a.addModel(l1, 0.75); a.addModel(l2, 0.25);
		a2.addModel(l3, 1.0); a2.addModel(l1, 2.0); a2.addModel(l2, 0.5);
		b.addModel(l3, 1.0);
		auto beh = [](M& m){
			RealMatrix x = points(4, 3, 3), y; m.eval(x, y);
			std::string w; for(std::size_t i = 0; i != m.numberOfModels(); ++i) w += vh::exactDouble(m.weight(i)) + ",";
			return "models=" + std::to_string(m.numberOfModels()) + " weights=" + w + " eval=" + matStr(y);
		};
		return history(label, a, a2, b, beh, binary);
	}
	if(label == "BinaryRBM" || label == "GaussianBinaryRBM"){
		random::rng_type rngA, rngA2, rngB; rngA.seed(1); rngA2.seed(2); rngB.seed(3);
		if(label == "BinaryRBM"){
			BinaryRBM a(rngA), a2(rngA2), b(rngB);
			a.setStructure(4, 3); a2.setStructure(4, 2); b.setStructure(2, 2);
			a.setParameterVector(ramp(a.numberOfParameters(), -1, 0.125)); a2.setParameterVector(ramp(a2.numberOfParameters(), 0.5, -0.0625));
			auto beh = [](BinaryRBM& m){
				RealMatrix x = points(3, 4, 3), y; m.eval(x, y);
				std::ostringstream r; r << m.rng();
				return "params=" + vecStr(m.parameterVector()) + " eval=" + matStr(y) + " rng=" + std::to_string(std::hash<std::string>()(r.str()));
			};
			return history(label, a, a2, b, beh, binary);
		}
		GaussianBinaryRBM a(rngA), a2(rngA2), b(rngB);
		a.setStructure(4, 3); a2.setStructure(4, 2); b.setStructure(2, 2);
		a.setParameterVector(ramp(a.numberOfParameters(), -1, 0.125)); a2.setParameterVector(ramp(a2.numberOfParameters(), 0.5, -0.0625));
		auto beh = [](GaussianBinaryRBM& m){
			RealMatrix x = points(3, 4, 3), y; m.eval(x, y);
			return "params=" + vecStr(m.parameterVector()) + " eval=" + matStr(y);
		};
		return history(label, a, a2, b, beh, binary);
	}
	if(label == "BinaryRBM-baserate"){
		// the base rate of the visible layer (reference distribution of tempered sampling; TemperedMarkovChain reads it)
		random::rng_type rngA, rngA2, rngB; rngA.seed(1); rngA2.seed(2); rngB.seed(3);
		BinaryRBM a(rngA), a2(rngA2), b(rngB);
		a.setStructure(4, 3); a2.setStructure(4, 2); b.setStructure(2, 2);
		a.setParameterVector(ramp(a.numberOfParameters(), -1, 0.125)); a2.setParameterVector(ramp(a2.numberOfParameters(), 0.5, -0.0625));
		a.visibleNeurons().baseRate() = ramp(4, 0.25, 0.5); a2.visibleNeurons().baseRate() = ramp(4, -1, 0.25);
		auto beh = [](BinaryRBM& m){
			RealMatrix x = points(3, 4, 3);
			RealVector beta(3); beta(0) = 0.5; beta(1) = 0.25; beta(2) = 1.0;
			typename BinaryLayer::StatisticsBatch st(3, 4);
			m.visibleNeurons().sufficientStatistics(x, st, beta);
			return "params=" + vecStr(m.parameterVector()) + " baseRate=" + vecStr(m.visibleNeurons().baseRate()) + " tempered=" + matStr(st);
		};
		return history(label, a, a2, b, beh, binary);
	}
	if(label == "OneVersusOneClassifier"){
		// m_binary is a vector of pointers to the abstract binary classifier type: boost needs the dynamic type and the
		// base/derived relation registered by the USER (Shark exports nothing); with that done, does the round trip work?
		typedef OneVersusOneClassifier<RealVector> O; typedef LinearClassifier<> BC; typedef AbstractModel<RealVector, unsigned int> Base;
		boost::serialization::void_cast_register<BC, Base>();
		BC c10(Shape(2), 1, true), c20(Shape(2), 1, true), c21(Shape(2), 1, false);
		c10.setParameterVector(ramp(c10.numberOfParameters(), -1, 0.75)); c20.setParameterVector(ramp(c20.numberOfParameters(), 0.5, -0.5)); c21.setParameterVector(ramp(c21.numberOfParameters(), 2, -1.5));
		BC d10(Shape(2), 1, true), d20(Shape(2), 1, true), d21(Shape(2), 1, false);    // the target's own binary classifiers
		O a, b;
		a.addClass(std::vector<Base*>{&c10}); a.addClass(std::vector<Base*>{&c20, &c21});
		b.addClass(std::vector<Base*>{&d10}); b.addClass(std::vector<Base*>{&d20, &d21});
		auto beh = [](O& m){ return classifierBeh(m, 2) + " classes=" + std::to_string(m.numberOfClasses()); };
		std::string A = beh(a);
		std::stringstream ss(std::ios::in | std::ios::out | std::ios::binary);
		if(binary){
			{ boost::archive::polymorphic_binary_oarchive oa(ss); OutArchive& o = oa; o.register_type<BC>(); o << a; }
			{ boost::archive::polymorphic_binary_iarchive ia(ss); InArchive& i = ia; i.register_type<BC>(); i >> b; }
		}else{
			{ boost::archive::polymorphic_text_oarchive oa(ss); OutArchive& o = oa; o.register_type<BC>(); o << a; }
			{ boost::archive::polymorphic_text_iarchive ia(ss); InArchive& i = ia; i.register_type<BC>(); i >> b; }
		}
		std::string B = beh(b);
		if(A != B) return c18::differs(label, "behaviour-differs", A, B);
		return "obj " + label + " same";
	}
	// ---- models produced by trainers
	if(label == "trained-Normalizer"){
		Normalizer<> a, a2(3, false), b(2, true);
		Data<RealVector> data = denseData({4, 3}, 3, 5);
		NormalizeComponentsUnitVariance<> trainer(true);
		trainer.train(a, data);
		a2.setParameterVector(ramp(a2.numberOfParameters(), 1, 1));
		return modelHistory(label, a, a2, b, 3, binary);
	}
	if(label == "trained-LDA"){
		LinearClassifier<> a, a2(Shape(2), 2, false), b(Shape(3), 4, true);
		LabeledData<RealVector, unsigned int> data(denseData({5, 5, 4}, 2, 3), labelData({5, 5, 4}, 1, 3));
		LDA trainer; trainer.train(a, data);
		a2.setParameterVector(ramp(a2.numberOfParameters(), 1, -0.5));
		return history(label, a, a2, b, [](LinearClassifier<>& m){ return classifierBeh(m, 2); }, binary);
	}
	if(label == "trained-LinearRegression"){
		LinearModel<> a, a2(2, 1, false), b(3, 3, true);
		LabeledData<RealVector, RealVector> data(denseData({5, 4}, 2, 3), denseData({5, 4}, 2, 8));
		LinearRegression trainer(0.125); trainer.train(a, data);
		a2.setParameterVector(ramp(a2.numberOfParameters(), 1, -0.5));
		return modelHistory(label, a, a2, b, 2, binary);
	}
	return "bad-op";
}
