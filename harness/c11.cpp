// K-C11: correspondence / oracle harness for Shark's evolution strategies and direct-search methods.
//
//   obj sphere <n> | quad <n> <A n*n> <b n> | rosen <n> | plateau <n>      (plateau = floor(4*|x|^2)/4: ties)
//   box <l n> <u n>   |   softbox <l n> <u n>   (feasibility predicate + closestFeasible without the constraint feature flag)
//   scale <c>         the objective is multiplied by c (a power of two: exact, order preserving) -- value classes far from 1
//   opt <kind> [<lambda> <mu> <recomb 0|1|2> <sigma>]   kind = cma | cmsa | ecma | vdcma | lmcma | cem | simplex
//        lambda 0 = the class' default population sizes; sigma 0 = default initial step size (cem: variance)
//        followed by any number of key=value options -- the configuration axes of the public interface:
//          rng=private     the optimizer is constructed with its OWN generator (cma, cmsa, ecma, vdcma, lmcma); every run of the
//                          case seeds that generator identically while random::globalRng is in a DIFFERENT state in every run
//                          (default rng=global: the process-global generator, seeded identically before every run)
//          init=point|full|propose|points   init(f,p) | the long overload init(f,p,lambda,mu,sigma[,C0]) / (f,p,pop,sel,variance) |
//                          init(f) with f.proposeStartingPoint() | init(f, {p, p+1})
//          set=both|lambda|mu   which of setLambda / setMu are called (cma, cmsa; default both when lambda > 0)
//          cov0=diag|dense|scaled   initial covariance matrix handed to the long overload (cma, cmsa)
//          lb=<x>          CMA::setLowerBound after init
//          active=0|1      ElitistCMA::activeUpdate();   penalty=<x>   ElitistCMA::constrainedPenaltyFactor()
//          sig=post        vdcma: VDCMA::setSigma after init instead of setInitialSigma before
//          plambda=<k>     vdcma: lambda() = k after init;   ppop=<k> psel=<k>   cem: populationSize() / selectionSize() after init
//          var=scalar|vec  cem: setVariance(double) | a non-uniform variance vector (long overload / setVariance(vector))
//          noise=const:<c> | lin:<a>:<b>   cem: setNoiseType(ConstantNoise | LinearNoise)
//          mid=<k>:<action>   a setter called in the MIDDLE of every run of the case, before step k (run ops only):
//                          active:<0|1> (ecma) | sigma:<x> (ecma sigma(), vdcma setSigma) | lb:<x> (cma setLowerBound) |
//                          var:<x> (cem setVariance) | pop:<l>:<m> (cem populationSize/selectionSize; vdcma lambda() = l)
//   run <seed> <steps> <target> <x0 n>   init + steps, 8 runs: fresh, fresh again, RE-INITIALISED used object, an object
//        that was used on a DIFFERENT problem (other dimension, start, seed) and then initialised, 3 exact
//        rescalings of f and f scaled by 2^340 (all with the same seed); prints the final solution, a digest and the oracle verdicts
//   coeffs <kind> <n> <lambda> <mu> <recomb> [key=value ...]   strategy constants of the initialised object (compared bit for bit with the
//        formulas regenerated from the C++, Gen/CMAParams.lean) + admissibility oracle
//   cmatrace <seed> <steps> <x0 n>   CMA run printing, per step, everything updatePopulation consumed and produced
//   ecmatrace | cmsatrace | cemtrace | vdcmatrace <seed> <steps> <x0 n>   same for ElitistCMA::step, CMSA::updatePopulation, CrossEntropyMethod, VDCMA::updateStrategyParameters
//   simplexrun <steps> <x0 n>        the whole SimplexDownhill run (deterministic), re-computed by the model from x0
//
// numbers are IEEE-754 bit patterns "x<16 hex digits>".
// Oracle (after init and after every step, on the real code, independent of the Lean model):
//   value == f(closest feasible point of the reported point) bit for bit, finite; step size > 0 and finite;
//   covariance symmetric and Cholesky succeeds (CMA); same seed => identical run; runs on f and on exactly
//   order-preserving rescalings (2f, f/8, piecewise 4f|2f) visit identical points; elitist variants monotone;
//   optional convergence target.
#include <sstream>
#include <iostream>
#include <vector>
#include <string>
#include <memory>
#include <deque>
#include <map>
#include <set>
#include <list>
#include <algorithm>
#include <functional>
#include <random>
#include <shark/Core/Shark.h>
#include <shark/ObjectiveFunctions/BoxConstraintHandler.h>
#include <shark/Algorithms/AbstractSingleObjectiveOptimizer.h>
#include <shark/Statistics/Distributions/MultiVariateNormalDistribution.h>
#define private public
#define protected public
#include <shark/Algorithms/DirectSearch/CMA.h>
#include <shark/Algorithms/DirectSearch/CMSA.h>
#include <shark/Algorithms/DirectSearch/ElitistCMA.h>
#include <shark/Algorithms/DirectSearch/VDCMA.h>
// LMCMA.h calls `gauss(*mpe_rng,0,1)` unqualified and does not compile on its own (observation in findings_proposed/C11.md);
// LM-CMA is not named by C11, it is exercised as an extra with this using-declaration as the only work-around
namespace shark{ using random::gauss; }
#include <shark/Algorithms/DirectSearch/LMCMA.h>
#include <shark/Algorithms/DirectSearch/CrossEntropyMethod.h>
#include <shark/Algorithms/DirectSearch/SimplexDownhill.h>
#undef private
#undef protected
#include <shark/ObjectiveFunctions/BoxConstraintHandler.h>
#include "common.hpp"
#include <boost/optional.hpp>
#include <cstring>
#include <memory>

using namespace shark;

static double bits2d(std::string const& t){
	if(t.size() != 17 || t[0] != 'x') throw std::runtime_error("bad number " + t);
	std::uint64_t b = std::stoull(t.substr(1), nullptr, 16);
	double d; std::memcpy(&d, &b, 8); return d;
}
static std::string hexd(double d){
	std::uint64_t b; std::memcpy(&b, &d, 8); char buf[24]; std::snprintf(buf, sizeof buf, "x%016llx", (unsigned long long)b); return buf;
}
template<class V> static std::string hexVec(V const& v){
	std::string s; for(std::size_t i = 0; i != v.size(); ++i){ if(i) s += ","; s += hexd(v(i)); } return s;
}
static std::string hexMat(RealMatrix const& m){
	std::string s;
	for(std::size_t i = 0; i != m.size1(); ++i) for(std::size_t j = 0; j != m.size2(); ++j){ if(i + j) s += ","; s += hexd(m(i,j)); }
	return s;
}
static std::string showVec(RealVector const& v){
	std::string s = "[";
	for(std::size_t i = 0; i != v.size(); ++i){ if(i) s += ","; s += vh::exactDouble(v(i)); }
	return s + "]";
}
static bool sameBits(double a, double b){ return std::memcmp(&a, &b, 8) == 0 || (a == 0 && b == 0); }
static bool sameVec(RealVector const& a, RealVector const& b){
	if(a.size() != b.size()) return false;
	for(std::size_t i = 0; i != a.size(); ++i) if(!sameBits(a(i), b(i))) return false;
	return true;
}

template<class M> static std::string hexMatG(M const& m){
	std::string s;
	for(std::size_t i = 0; i != m.size1(); ++i) for(std::size_t j = 0; j != m.size2(); ++j){ if(i + j) s += ","; s += hexd(m(i,j)); }
	return s;
}
template<class V> static bool finiteVec(V const& v){
	for(std::size_t i = 0; i != v.size(); ++i) if(!std::isfinite(v(i))) return false;
	return true;
}

struct Obj: public SingleObjectiveFunction{
	int kind; std::size_t n; std::vector<double> A, b;
	BoxConstraintHandler<RealVector> handler; bool boxed;
	bool soft;  // "soft box": isFeasible/closestFeasible are overridden but the function does not declare
	            // IS_CONSTRAINED_FEATURE (CMA, CMSA, ElitistCMA refuse declared constraints in checkFeatures although
	            // their PenalizingEvaluator handles infeasible points) -- this reaches the closest-feasible clause of C11
	int phi;   // 0 identity, 1: 2v, 2: v/8, 3: v>=0 ? 4v : 2v, 4: 2^340 v (values beyond 1e100)   (all exact and strictly increasing)
	RealVector start;   // returned by proposeStartingPoint (init(f) overload)
	double scale;       // exact positive factor on the objective value
	Obj(): kind(0), n(0), boxed(false), soft(false), phi(0), scale(1.0){ m_features |= HAS_VALUE; m_constraintHandler = nullptr; }
	void proposes(RealVector const& x0){ start = x0; m_features |= CAN_PROPOSE_STARTING_POINT; }
	RealVector proposeStartingPoint() const{ return start; }
	std::string name() const{ return "verif-objective"; }
	std::size_t numberOfVariables() const{ return n; }
	void setBox(RealVector const& l, RealVector const& u){ handler.setBounds(l, u); announceConstraintHandler(&handler); boxed = true; }
	void setSoftBox(RealVector const& l, RealVector const& u){ handler.setBounds(l, u); soft = true; }
	bool isFeasible(RealVector const& x) const{ return soft ? handler.isFeasible(x) : SingleObjectiveFunction::isFeasible(x); }
	void closestFeasible(RealVector& x) const{ if(soft) handler.closestFeasible(x); else SingleObjectiveFunction::closestFeasible(x); }
	// plain scalar loops: the Lean driver evaluates the same expressions at Float (simplexrun)
	double raw(RealVector const& x) const{ return scale * raw1(x); }
	double raw1(RealVector const& x) const{
		double v = 0.0;
		if(kind == 2 || kind == 3){
			for(std::size_t i = 0; i != n; ++i) v = v + x(i) * x(i);
			if(kind == 3) v = std::floor(4.0 * v) * 0.25;
		}
		else if(kind == 0){
			for(std::size_t i = 0; i != n; ++i){
				double r = 0.0;
				for(std::size_t j = 0; j != n; ++j) r = r + A[i*n+j] * x(j);
				v = v + x(i) * (0.5 * r - b[i]);
			}
		}else{
			for(std::size_t i = 0; i + 1 < n; ++i){
				double a = x(i+1) - x(i) * x(i); double c = 1.0 - x(i);
				v = v + (100.0 * (a * a) + c * c);
			}
		}
		return v;
	}
	double eval(RealVector const& x) const{
		++m_evaluationCounter;
		double v = raw(x);
		switch(phi){ case 1: return 2.0 * v; case 2: return v * 0.125; case 3: return v >= 0 ? 4.0 * v : 2.0 * v; case 4: return std::ldexp(v, 340); default: return v; }
	}
	// the property's reference value: objective at the closest feasible point
	double reference(RealVector const& p) const{
		RealVector t(p);
		if(!isFeasible(t)) closestFeasible(t);
		return raw(t);
	}
};

struct Config{
	std::string kind; std::vector<double> p; std::map<std::string, std::string> o;
	bool has(std::string const& k) const{ return o.count(k) != 0; }
	std::string opt(std::string const& k, std::string const& d = "") const{ auto it = o.find(k); return it == o.end() ? d : it->second; }
	static double number(std::string const& t){ return (t.size() == 17 && t[0] == 'x') ? bits2d(t) : std::stod(t); }
	double num(std::string const& k, double d = 0.0) const{ return has(k) ? number(opt(k)) : d; }
	// a private generator exists only for the classes whose constructor takes one
	bool priv() const{ return opt("rng") == "private" && kind != "cem" && kind != "simplex"; }
	std::string initMode() const{ return opt("init", "point"); }
	bool setsLambda() const{ return lambda() && opt("set", "both") != "mu"; }
	bool setsMu() const{ return p.size() >= 4 && p[1] > 0 && (opt("set", "both") == "mu" || (lambda() && opt("set", "both") == "both")); }
	std::size_t lambda() const{ return p.size() >= 4 && p[0] > 0 ? (std::size_t)p[0] : 0; }
	std::size_t mu() const{ return p.size() >= 4 ? (std::size_t)p[1] : 0; }
	int recomb() const{ return p.size() >= 4 ? (int)p[2] : 2; }
	double sigma() const{ return p.size() >= 4 ? p[3] : 0.0; }
};
typedef AbstractSingleObjectiveOptimizer<RealVector> OptBase;

struct Trace{
	std::vector<RealVector> pts; std::vector<double> vals, sig;
	std::string bad;   // first oracle failure
	std::size_t pdUndecided;   // steps at which the covariance was numerically singular (pivot within rounding of zero)
	Trace(): pdUndecided(0){}
};

static void fail(Trace& t, std::string const& w){ if(t.bad.empty()) t.bad = w; }

// independent Cholesky factorisation (positive definiteness of a symmetric matrix).  Returns 1: positive definite,
// 0: CERTIFIABLY not positive definite (a pivot below -tol or not finite), 2: numerically singular -- a pivot within the
// rounding error of the factorisation (|pivot| <= 64 n eps C_ii) of zero, which floating point cannot decide (condition
// number beyond ~1e13: e.g. CMA-ES that keeps running after it has converged to the last bit of x)
static double g_lastPivot = 0, g_lastDiag = 0;
template<class M> static int cholesky(M const& C){
	std::size_t n = C.size1(); std::vector<double> L(n*n, 0.0);
	for(std::size_t i = 0; i != n; ++i) for(std::size_t j = 0; j <= i; ++j){
		double s = C(i,j);
		for(std::size_t k = 0; k != j; ++k) s -= L[i*n+k] * L[j*n+k];
		if(i == j){
			if(!std::isfinite(s)){ g_lastPivot = s; g_lastDiag = C(i,i); return 0; }
			if(!(s > 0)){
				g_lastPivot = s; g_lastDiag = C(i,i);
				double tol = 64.0 * n * 2.220446049250313e-16 * std::fabs(C(i,i));
				return (s < -tol || !(C(i,i) > 0)) ? 0 : 2;
			}
			L[i*n+i] = std::sqrt(s);
		}
		else L[i*n+j] = s / L[j*n+j];
	}
	return 1;
}
// a lower Cholesky factor kept by the algorithm: finite, positive diagonal (=> L L^T is symmetric positive definite)
template<class M> static bool validFactor(M const& L){
	for(std::size_t i = 0; i != L.size1(); ++i){
		for(std::size_t j = 0; j != L.size2(); ++j) if(!std::isfinite(L(i,j))) return false;
		if(!(L(i,i) > 0)) return false;
	}
	return true;
}

// every optimizer object is constructed in storage pre-filled with a byte pattern that differs from run to run: a member
// that neither the constructor nor init sets has a different (garbage) value in each run, so that reading it shows up as a
// difference between two runs with the same seed (or as a UBSan report for a bool / enum)
template<class T> static OptBase* constructIn(unsigned char pattern, random::rng_type& rng){
	void* mem = ::operator new(sizeof(T)); std::memset(mem, pattern, sizeof(T)); return new(mem) T(rng);
}
template<class T> static OptBase* constructIn(unsigned char pattern){
	void* mem = ::operator new(sizeof(T)); std::memset(mem, pattern, sizeof(T)); return new(mem) T();
}
static OptBase* make(Config const& c, random::rng_type& rng, unsigned char pattern){
	if(c.kind == "cma") return constructIn<CMA>(pattern, rng);
	if(c.kind == "cmsa") return constructIn<CMSA>(pattern, rng);
	if(c.kind == "ecma") return constructIn<ElitistCMA>(pattern, rng);
	if(c.kind == "vdcma") return constructIn<VDCMA>(pattern, rng);
	if(c.kind == "lmcma") return constructIn<LMCMA>(pattern, rng);
	if(c.kind == "cem") return constructIn<CrossEntropyMethod>(pattern);
	if(c.kind == "simplex") return constructIn<SimplexDownhill>(pattern);
	throw std::runtime_error("unknown optimizer " + c.kind);
}

// an optimizer together with the generator it was constructed with: the process-global one (default construction mode of
// every class) or its own (rng=private)
struct Holder{
	random::rng_type rng;
	std::unique_ptr<OptBase> o;
	bool priv;
	explicit Holder(Config const& c, unsigned char pattern = 0): rng(12345u), priv(c.priv()){ o.reset(make(c, priv ? rng : random::globalRng, pattern)); }
	Holder(Holder const&) = delete;
	Holder& operator=(Holder const&) = delete;
};
// same seed for the generator the optimizer draws from.  With a private generator the global one is put into a state that
// differs from run to run (`variant`): a run must not depend on it.  Without, the global one IS the optimizer's generator.
static void seedRun(Holder& h, unsigned seed, unsigned variant){
	if(h.priv){
		h.rng.seed(seed);
		random::globalRng.seed(seed * 2654435761u + 977u * variant + 1u);
		random::globalRng.discard(variant);
	}else random::globalRng.seed(seed);
}

// an initial covariance matrix for the long init overloads: exactly representable, symmetric positive definite
static RealMatrix cov0(std::string const& tag, std::size_t n){
	RealMatrix C(n, n, 0.0);
	for(std::size_t i = 0; i != n; ++i) C(i,i) = 1.0;
	if(tag == "diag") for(std::size_t i = 0; i != n; ++i) C(i,i) = (i % 3 == 0) ? 0.5 : ((i % 3 == 1) ? 1.0 : 4.0);
	else if(tag == "scaled") for(std::size_t i = 0; i != n; ++i) C(i,i) = 4.0;
	else if(tag == "dense"){
		RealVector u(n);
		for(std::size_t i = 0; i != n; ++i) u(i) = (double((i * 7 + 3) % 5) - 2.0) * 0.25;
		for(std::size_t i = 0; i != n; ++i) for(std::size_t j = 0; j != n; ++j) C(i,j) += u(i) * u(j);
	}
	return C;
}

// the three short ways to start: init(f,p), init(f) with a proposed starting point, init(f, points)
template<class Fn> static void callInit(OptBase& o, Fn& f, RealVector const& x0, std::string const& mode){
	if(mode == "propose"){ f.proposes(x0); o.init(f); }
	else if(mode == "points"){
		std::vector<RealVector> pts(2, x0);
		for(std::size_t i = 0; i != x0.size(); ++i) pts[1](i) += 1.0;
		o.init(f, pts);
	}
	else o.init(f, x0);
}

// configure + init through the public interface of each class (construction mode, user-set population sizes, recombination
// type, step size, every init overload, the setters that act after init)
template<class Fn> static void initOpt(Config const& c, OptBase& o, Fn& f, RealVector const& x0){
	std::size_t n = x0.size();
	std::string mode = c.initMode();
	boost::optional<RealMatrix> C0;
	if(c.has("cov0")) C0 = cov0(c.opt("cov0"), n);
	if(c.kind == "cma"){
		CMA& m = static_cast<CMA&>(o);
		if(c.p.size() >= 4) m.recombinationType() = (CMA::RecombinationType)c.recomb();
		if(mode == "full"){
			std::size_t lambda = c.lambda() ? c.lambda() : CMA::suggestLambda(n);
			std::size_t mu = c.mu() ? c.mu() : CMA::suggestMu(lambda, m.recombinationType());
			m.init(f, x0, lambda, mu, c.sigma() > 0 ? c.sigma() : 1.0 / std::sqrt((double)n), C0);
		}else{
			if(c.setsLambda()) m.setLambda(c.lambda());
			if(c.setsMu()) m.setMu(c.mu());
			if(c.p.size() >= 4 && c.sigma() > 0) m.setInitialSigma(c.sigma());
			callInit(m, f, x0, mode);
		}
		if(c.has("lb")) m.setLowerBound(c.num("lb"));
	}else if(c.kind == "cmsa"){
		CMSA& m = static_cast<CMSA&>(o);
		if(mode == "full"){
			std::size_t lambda = c.lambda() ? c.lambda() : 4 * n;
			std::size_t mu = (c.mu() && c.mu() < lambda) ? c.mu() : lambda / 4;
			m.init(f, x0, lambda, mu, c.sigma() > 0 ? c.sigma() : 1.0 / std::sqrt((double)n), C0);
		}else{
			if(c.setsLambda()) m.setLambda(c.lambda());
			if(c.setsMu()) m.setMu(c.mu());
			if(c.sigma() > 0) m.setInitialSigma(c.sigma());
			callInit(m, f, x0, mode);
		}
	}else if(c.kind == "vdcma"){
		VDCMA& m = static_cast<VDCMA&>(o);
		bool post = c.opt("sig") == "post";
		if(mode == "full" || c.lambda()){
			std::size_t lambda = c.lambda() ? c.lambda() : m.suggestLambda(n);
			std::size_t mu = c.lambda() ? c.mu() : m.suggestMu(lambda);
			m.init(f, x0, lambda, mu, (c.sigma() > 0 && !post) ? c.sigma() : 1.0 / std::sqrt((double)n));
		}else{
			m.setInitialSigma(post ? 0.0 : c.sigma());
			callInit(m, f, x0, mode);
		}
		if(post && c.sigma() > 0) m.setSigma(c.sigma());
		if(c.has("plambda")) m.lambda() = (std::size_t)c.num("plambda");
	}else if(c.kind == "lmcma"){
		LMCMA& m = static_cast<LMCMA&>(o);
		if(c.lambda()) m.init(f, x0, (unsigned)c.lambda(), (double)c.mu(), c.sigma() > 0 ? c.sigma() : 1.0 / std::sqrt((double)n));
		else m.init(f, x0);
	}else if(c.kind == "cem"){
		CrossEntropyMethod& m = static_cast<CrossEntropyMethod&>(o);
		double base = c.sigma() > 0 ? c.sigma() : 100.0;
		RealVector var(n, base);
		if(c.opt("var") == "vec") for(std::size_t j = 0; j != n; ++j) var(j) = base * ((j % 3 == 0) ? 1.0 : ((j % 3 == 1) ? 0.25 : 2.0));
		if(c.has("noise")){
			std::vector<std::string> q; std::string cur; std::string nz = c.opt("noise");
			for(char ch: nz){ if(ch == ':'){ q.push_back(cur); cur.clear(); } else cur += ch; }
			q.push_back(cur);
			if(q.at(0) == "const") m.setNoiseType(new CrossEntropyMethod::ConstantNoise(Config::number(q.at(1))));
			else if(q.at(0) == "lin") m.setNoiseType(new CrossEntropyMethod::LinearNoise(Config::number(q.at(1)), Config::number(q.at(2))));
			else throw std::runtime_error("bad-op");
		}
		if(mode == "full" || c.lambda()){
			unsigned pop = c.lambda() ? (unsigned)c.lambda() : CrossEntropyMethod::suggestPopulationSize();
			unsigned sel = c.lambda() ? (unsigned)c.mu() : CrossEntropyMethod::suggestSelectionSize(pop);
			m.init(f, x0, pop, sel, var);
		}else{
			callInit(m, f, x0, mode);
			if(c.opt("var") == "vec") m.setVariance(var);
			else if(c.sigma() > 0 || c.opt("var") == "scalar") m.setVariance(base);
		}
		if(c.has("ppop")) m.populationSize() = (unsigned)c.num("ppop");
		if(c.has("psel")) m.selectionSize() = (unsigned)c.num("psel");
	}else if(c.kind == "ecma"){
		ElitistCMA& m = static_cast<ElitistCMA&>(o);
		if(c.has("active")) m.activeUpdate() = c.num("active") != 0;
		if(c.has("penalty")) m.constrainedPenaltyFactor() = c.num("penalty");
		callInit(m, f, x0, mode);
		if(c.sigma() > 0) m.sigma() = c.sigma();
	}else callInit(o, f, x0, mode);
}

// validity of the search distribution of the concrete classes; returns the step size
static double checkState(Config const& c, OptBase& o, Trace& t){
	if(c.kind == "cma"){
		CMA& m = static_cast<CMA&>(o);
		RealMatrix const& C = m.covarianceMatrix();
		// positive definiteness is decided on the symmetric part (C + C^T)/2, so that it does not depend on the asymmetry of
		// the stored matrix (finding F13), and first: a matrix that is both indefinite and asymmetric is reported as indefinite
		RealMatrix S(C.size1(), C.size2());
		for(std::size_t i = 0; i != C.size1(); ++i){
			for(std::size_t j = 0; j != C.size2(); ++j) S(i,j) = 0.5 * (C(i,j) + C(j,i));
		}
		int pd = cholesky(S);
		if(pd == 0){
			std::ostringstream os; os << "covariance-not-positive-definite pivot=" << g_lastPivot << " of-diagonal-entry=" << g_lastDiag << " step=" << t.pts.size();
			fail(t, os.str());
		}
		if(pd == 2) ++t.pdUndecided;
		for(std::size_t i = 0; i != C.size1(); ++i) for(std::size_t j = 0; j != i; ++j)
			if(!sameBits(C(i,j), C(j,i))){
				// the two triangles are not computed by bit-symmetric operations (remora evaluates w*outer_prod(a,b)
				// as outer_prod(w*a,b)); the asymmetry is never corrected and drifts: relative differences above 1e-12
				// were observed after ~100 generations: the absolute asymmetry stays around 1e-19..1e-21 while C itself
				// shrinks by 12 orders of magnitude (see findings_proposed/C11.md).  Tolerance: 1e-9 of sqrt(C_ii C_jj)
				// plus 1e-16 absolute (the initial covariance is the identity).  NB: the absolute term makes this check
				// vacuous once C has shrunk far below 1e-7: a relative asymmetry of 3e-2 at |C| ~ 1e-30 was observed (CMA,
				// lambda=40, mu=39, 3-d Rosenbrock, step 132, long after convergence to the last bit) -- the same drift, F13.
				double sc = std::sqrt(std::fabs(C(i,i)) * std::fabs(C(j,j)));
				if(!(std::fabs(C(i,j) - C(j,i)) <= 1e-9 * sc + 1e-16)){
					std::ostringstream os; os << "covariance-not-symmetric Cij=" << C(i,j) << " Cji=" << C(j,i) << " Cii=" << C(i,i) << " Cjj=" << C(j,j) << " step=" << t.pts.size();
					fail(t, os.str());
				}
			}
		if(!finiteVec(m.mean()) || !finiteVec(m.evolutionPath()) || !finiteVec(m.evolutionPathSigma())) fail(t, "mean-or-path-non-finite");
		// weights: positive, non-increasing in the rank, sum 1; learning rates in their admissible ranges
		RealVector const& w = m.weights(); double sw = 0; bool ok = w.size() == m.mu();
		for(std::size_t i = 0; i != w.size(); ++i){ sw += w(i); ok = ok && w(i) > 0 && (i == 0 || w(i) <= w(i-1)); }
		if(!ok || std::fabs(sw - 1) > 1e-12) fail(t, "weights-inadmissible");
		if(!(m.m_c1 > 0) || !(m.m_cMu >= 0) || !(m.m_c1 + m.m_cMu <= 1) || !(m.m_cSigma > 0 && m.m_cSigma < 1) || !(m.m_cC > 0 && m.m_cC <= 1) || !(m.m_dSigma >= 1) || !(m.m_muEff >= 1 - 1e-12))
			fail(t, "coefficients-inadmissible");
		return m.sigma();
	}
	if(c.kind == "cmsa"){
		CMSA& m = static_cast<CMSA&>(o);
		if(!validFactor(m.m_mutationDistribution.lowerCholeskyFactor())) fail(t, "covariance-not-positive-definite");
		if(!finiteVec(m.m_mean)) fail(t, "mean-or-path-non-finite");
		if(!(m.m_cC > 1) || !(m.m_cSigma > 0)) fail(t, "coefficients-inadmissible");
		return m.sigma();
	}
	if(c.kind == "ecma"){
		ElitistCMA& m = static_cast<ElitistCMA&>(o);
		CMAChromosome const& ch = m.m_individual.chromosome();
		if(!validFactor(ch.m_mutationDistribution.lowerCholeskyFactor())) fail(t, "covariance-not-positive-definite");
		if(!finiteVec(ch.m_evolutionPath)) fail(t, "mean-or-path-non-finite");
		if(!(ch.m_successProbability >= 0 && ch.m_successProbability <= 1)) fail(t, "success-probability-out-of-range");
		return m.sigma();
	}
	if(c.kind == "vdcma"){
		VDCMA& m = static_cast<VDCMA&>(o);
		// C = D (I + v v^T) D is symmetric positive definite iff D is finite without zero entry and v is finite
		bool ok = finiteVec(m.m_D) && finiteVec(m.m_vn) && std::isfinite(m.m_normv) && m.m_normv > 0;
		for(std::size_t i = 0; ok && i != m.m_D.size(); ++i) ok = m.m_D(i) != 0;
		if(!ok) fail(t, "covariance-not-positive-definite");
		if(!finiteVec(m.mean()) || !finiteVec(m.evolutionPath()) || !finiteVec(m.evolutionPathSigma())) fail(t, "mean-or-path-non-finite");
		return m.sigma();
	}
	if(c.kind == "lmcma"){
		LMCMA& m = static_cast<LMCMA&>(o);
		if(!finiteVec(m.mean()) || !finiteVec(m.evolutionPath())) fail(t, "mean-or-path-non-finite");
		return m.sigma();
	}
	if(c.kind == "cem"){
		CrossEntropyMethod& m = static_cast<CrossEntropyMethod&>(o);
		RealVector const& v = m.variance(); bool ok = true;
		for(std::size_t i = 0; i != v.size(); ++i) ok = ok && std::isfinite(v(i)) && v(i) >= 0;
		if(!ok) fail(t, "variance-invalid");
		if(!finiteVec(m.mean())) fail(t, "mean-or-path-non-finite");
		return 1.0;
	}
	if(c.kind == "simplex"){
		SimplexDownhill& m = static_cast<SimplexDownhill&>(o);
		// the reported best is the best of everything evaluated so far, in particular of the current simplex
		for(auto const& s: m.simplex()){
			if(!finiteVec(s.point) || !std::isfinite(s.value)) fail(t, "non-finite");
			if(!(m.solution().value <= s.value)) fail(t, "best-worse-than-simplex-vertex");
		}
	}
	return 1.0;
}

// a setter of the public interface called between two steps
static std::vector<std::string> splitColon(std::string const& v){
	std::vector<std::string> q; std::string cur;
	for(char ch: v){ if(ch == ':'){ q.push_back(cur); cur.clear(); } else cur += ch; }
	q.push_back(cur);
	return q;
}
static void applyMid(Config const& c, OptBase& o, std::vector<std::string> const& q){
	std::string const& a = q.at(1);
	if(a == "active" && c.kind == "ecma") static_cast<ElitistCMA&>(o).activeUpdate() = Config::number(q.at(2)) != 0;
	else if(a == "sigma" && c.kind == "ecma") static_cast<ElitistCMA&>(o).sigma() = Config::number(q.at(2));
	else if(a == "sigma" && c.kind == "vdcma") static_cast<VDCMA&>(o).setSigma(Config::number(q.at(2)));
	else if(a == "lb" && c.kind == "cma") static_cast<CMA&>(o).setLowerBound(Config::number(q.at(2)));
	else if(a == "var" && c.kind == "cem") static_cast<CrossEntropyMethod&>(o).setVariance(Config::number(q.at(2)));
	else if(a == "pop" && c.kind == "cem"){
		static_cast<CrossEntropyMethod&>(o).populationSize() = (unsigned)Config::number(q.at(2));
		static_cast<CrossEntropyMethod&>(o).selectionSize() = (unsigned)Config::number(q.at(3));
	}
	else if(a == "pop" && c.kind == "vdcma") static_cast<VDCMA&>(o).lambda() = (std::size_t)Config::number(q.at(2));
	else throw std::runtime_error("bad-op");
}

// init (of a fresh or of an already used object) + steps, with the per-step oracle
static Trace runOnce(Config const& c, Holder& h, Obj& f, int phi, unsigned seed, unsigned variant, std::size_t steps, RealVector const& x0){
	Trace t;
	OptBase& o = *h.o;
	f.phi = phi;
	seedRun(h, seed, variant);
	initOpt(c, o, f, x0);
	// ElitistCMA accepts on the PENALIZED fitness and reports the unpenalized one: with a feasibility box only the accepted
	// penalized fitness is monotone
	bool elitist = (c.kind == "ecma" && !f.soft) || c.kind == "simplex";
	double lastAccepted = 0;
	std::vector<std::string> mid; std::size_t midStep = 0;
	if(c.has("mid")){ mid = splitColon(c.opt("mid")); midStep = (std::size_t)Config::number(mid.at(0)); }
	for(std::size_t s = 0; s <= steps; ++s){
		if(s && s == midStep) applyMid(c, o, mid);
		if(s) o.step(f);
		RealVector const& p = o.solution().point; double v = o.solution().value;
		t.pts.push_back(p); t.vals.push_back(v);
		bool finite = std::isfinite(v) && finiteVec(p);
		if(!finite) fail(t, "non-finite");
		if(p.size() != f.n){ fail(t, "reported-point-has-wrong-dimension"); finite = false; }
		if(phi == 0 && finite){
			double ref = f.reference(p);
			if(!sameBits(ref, v)) fail(t, "value-not-f-of-closest-feasible-point");
		}
		double sg = checkState(c, o, t);
		t.sig.push_back(sg);
		if(!(sg > 0) || !std::isfinite(sg)) fail(t, "step-size-not-positive");
		if(elitist && s && !(v <= t.vals[s-1])) fail(t, "elitist-value-increased");
		if(c.kind == "ecma" && (s == 0 || !sameVec(p, t.pts[s-1]) || !sameBits(v, t.vals[s-1]))){
			// a new parent was accepted: its penalized fitness (what offspring are compared with; equal to the reported
			// value when there is no feasibility box) must not be worse than that of the parent it replaced.  Observed on
			// the individual itself, independently of the optimizer's own history window.
			double acc = static_cast<ElitistCMA&>(o).m_individual.penalizedFitness();
			if(s && !(acc <= lastAccepted)) fail(t, "elitist-accepted-penalized-fitness-increased");
			lastAccepted = acc;
		}
	}
	f.phi = 0;
	return t;
}

// the object is first used on a DIFFERENT problem (other dimension -- smaller or larger --, start, seed) and its per-run
// state is then overwritten through the setters that act on the current run only (lower bound, initial covariance, step
// size, variance, population sizes after init): every piece of per-run state has a stale value of another shape when init
// is called for the run proper.  Options that persist across init by design (setLambda/setMu, recombination type,
// activeUpdate, penalty factor, noise type, initial sigma) are the same as in the run proper.
static void preUse(Config const& c, Holder& h, std::size_t n, unsigned seed){
	Obj g; g.kind = 2; g.n = (seed % 2 == 1) ? n + 1 : ((n == 1) ? 2 : n - 1);
	RealVector y0(g.n, 0.75);
	Config pc = c;
	pc.o.erase("mid");
	if(c.kind == "cmsa"){ pc.o["init"] = "full"; pc.o["cov0"] = "dense"; }      // CMSA's long overload sets no persistent flag
	if(c.kind == "cma"){ pc.o["lb"] = "0.5"; if(c.initMode() == "full") pc.o["cov0"] = "dense"; }
	seedRun(h, seed + 17u, 99u);
	initOpt(pc, *h.o, g, y0);
	if(c.kind == "ecma") static_cast<ElitistCMA&>(*h.o).sigma() = 8.0;
	if(c.kind == "vdcma"){ VDCMA& m = static_cast<VDCMA&>(*h.o); m.setSigma(8.0); m.lambda() += 3; }
	if(c.kind == "cem"){ CrossEntropyMethod& m = static_cast<CrossEntropyMethod&>(*h.o); m.setVariance(7.0); m.populationSize() += 5; }
	for(int s = 0; s != 3; ++s) h.o->step(g);
}

static std::uint64_t digest(Trace const& t){
	std::uint64_t h = 1469598103934665603ULL;
	auto mix = [&](double d){ std::uint64_t b; std::memcpy(&b, &d, 8); if(d == 0) b = 0; h = (h ^ b) * 1099511628211ULL; };
	for(auto const& p: t.pts) for(std::size_t i = 0; i != p.size(); ++i) mix(p(i));
	for(double s: t.sig) mix(s);
	for(double v: t.vals) mix(v);
	return h;
}

// ---------------------------------------------------------------- strategy constants
static void coeffsOp(std::vector<std::string> const& t, std::ostringstream& out){
	Config c; c.kind = t.at(1);
	std::size_t n = std::stoul(t.at(2)), lambda = std::stoul(t.at(3)), mu = std::stoul(t.at(4)); int rec = std::stoi(t.at(5));
	c.p = {(double)lambda, (double)mu, (double)rec, 0.0};
	// optional configuration options: the constants must not depend on the construction mode or on the init overload
	for(std::size_t k = 6; k < t.size(); ++k){
		std::size_t eq = t[k].find('=');
		if(eq == std::string::npos) throw std::runtime_error("bad-op");
		c.o[t[k].substr(0, eq)] = t[k].substr(eq + 1);
	}
	Obj f; f.kind = 2; f.n = n;
	RealVector x0(n, 0.0);
	Holder hold(c); std::unique_ptr<OptBase>& o = hold.o;
	seedRun(hold, 1, 0);
	initOpt(c, *o, f, x0);
	bool bad = false;
	if(c.kind == "cma"){
		CMA& m = static_cast<CMA&>(*o);
		out << "lambda=" << m.lambda() << " mu=" << m.mu() << " c=" << hexd(m.m_cC) << "," << hexd(m.m_c1) << "," << hexd(m.m_cMu) << ","
		    << hexd(m.m_cSigma) << "," << hexd(m.m_dSigma) << "," << hexd(m.m_muEff) << " w=" << hexVec(m.m_weights);
		double sw = 0; bool pos = m.m_weights.size() == m.mu();
		for(std::size_t i = 0; i != m.m_weights.size(); ++i){ sw += m.m_weights(i); pos = pos && m.m_weights(i) > 0 && (i == 0 || m.m_weights(i) <= m.m_weights(i-1)); }
		if(!pos || std::fabs(sw - 1) > 1e-12) out << " !oracle weights-inadmissible";
		bad = !(m.m_c1 > 0) || !(m.m_cMu >= 0) || !(m.m_cMu <= 1 - m.m_c1) || !(m.m_cSigma > 0 && m.m_cSigma < 1) || !(m.m_cC > 0 && m.m_cC <= 1) || !(m.m_dSigma >= 1) || !(m.m_muEff >= 1 - 1e-12) || m.m_counter != 0;
	}else if(c.kind == "cmsa"){
		CMSA& m = static_cast<CMSA&>(*o);
		out << "lambda=" << m.lambda() << " mu=" << m.mu() << " c=" << hexd(m.m_cSigma) << "," << hexd(m.m_cC);
		bad = !(m.m_cSigma > 0) || !(m.m_cC > 1) || !std::isfinite(m.m_cC);
	}else if(c.kind == "vdcma"){
		VDCMA& m = static_cast<VDCMA&>(*o);
		out << "lambda=" << m.lambda() << " mu=" << m.mu() << " c=" << hexd(m.m_muEff) << "," << hexd(m.m_cSigma) << "," << hexd(m.m_dSigma) << ","
		    << hexd(m.m_cC) << "," << hexd(m.m_c1) << "," << hexd(m.m_cMu) << " w=" << hexVec(m.m_weights);
		double sw = 0; bool pos = true;
		for(std::size_t i = 0; i != m.m_weights.size(); ++i){ sw += m.m_weights(i); pos = pos && m.m_weights(i) > 0 && (i == 0 || m.m_weights(i) <= m.m_weights(i-1)); }
		if(!pos || std::fabs(sw - 1) > 1e-12) out << " !oracle weights-inadmissible";
		// learning rates of the rank-one / rank-mu natural-gradient step: positive, and their sum at most 1
		bad = !(m.m_c1 > 0) || !(m.m_cMu >= 0) || !(m.m_c1 + m.m_cMu <= 1) || !(m.m_cSigma > 0 && m.m_cSigma < 1) || !(m.m_cC > 0 && m.m_cC <= 1) || !(m.m_dSigma >= 1);
	}else if(c.kind == "ecma"){
		CMAChromosome const& ch = static_cast<ElitistCMA&>(*o).m_individual.chromosome();
		out << "c=" << hexd(ch.m_targetSuccessProbability) << "," << hexd(ch.m_stepSizeDampingFactor) << "," << hexd(ch.m_stepSizeLearningRate) << ","
		    << hexd(ch.m_evolutionPathLearningRate) << "," << hexd(ch.m_covarianceMatrixLearningRate) << "," << hexd(ch.m_covarianceMatrixUnlearningRate);
		bad = !(ch.m_targetSuccessProbability > 0 && ch.m_targetSuccessProbability < 1) || !(ch.m_stepSizeDampingFactor >= 1)
		   || !(ch.m_stepSizeLearningRate > 0 && ch.m_stepSizeLearningRate < 1) || !(ch.m_evolutionPathLearningRate > 0 && ch.m_evolutionPathLearningRate <= 1)
		   || !(ch.m_covarianceMatrixLearningRate > 0 && ch.m_covarianceMatrixLearningRate < 1) || !(ch.m_covarianceMatrixUnlearningRate > 0 && ch.m_covarianceMatrixUnlearningRate < 1);
	}else if(c.kind == "lmcma"){
		LMCMA& m = static_cast<LMCMA&>(*o);
		out << "lambda=" << m.lambda() << " mu=" << m.mu() << " c=" << hexd(m.m_A.m_alpha) << "," << hexd(m.m_cC);
		bad = !(m.m_A.m_alpha > 0 && m.m_A.m_alpha < 1) || !(m.m_cC > 0 && m.m_cC <= 1);
	}else throw std::runtime_error("bad-op");
	if(bad) out << " !oracle coefficients-inadmissible";
}

// ---------------------------------------------------------------- per-step traces for the one-step refinement by the Lean models
static void ecmaTrace(Config const& cfg, Obj& f, unsigned seed, std::size_t steps, RealVector const& x0, std::ostringstream& out){
	Holder hold(cfg); ElitistCMA& m = static_cast<ElitistCMA&>(*hold.o);
	seedRun(hold, seed, 1);
	initOpt(cfg, m, f, x0);
	out << "trace n=" << f.n << " active=" << (m.activeUpdate() ? 1 : 0);
	// what the Lean model of PenalizingEvaluator (Model/CMA.lean `penalized` / `unpenalized`) needs to re-evaluate the offspring:
	// objective, feasibility box and the penalty factor AS CONFIGURED (not read back from the object)
	out << " OBJ=" << (f.kind == 0 ? "quad" : f.kind == 1 ? "rosen" : f.kind == 3 ? "plateau" : "sphere") << " SC=" << hexd(f.scale)
	    << " PF=" << hexd(cfg.has("penalty") ? cfg.num("penalty") : 1E-6);
	if(f.kind == 0){
		auto hexStd = [](std::vector<double> const& v){ std::string r; for(std::size_t i = 0; i != v.size(); ++i){ if(i) r += ","; r += hexd(v[i]); } return r; };
		out << " QA=" << hexStd(f.A) << " QB=" << hexStd(f.b);
	}
	if(f.soft){ out << " LO=" << hexVec(f.handler.lower()) << " HI=" << hexVec(f.handler.upper()); }
	auto state = [&](){
		CMAChromosome const& ch = m.m_individual.chromosome();
		std::ostringstream os;
		os << "S=" << hexd(ch.m_stepSize) << " P=" << hexd(ch.m_successProbability) << " TH=" << hexd(ch.m_successThreshold) << " PC=" << hexVec(ch.m_evolutionPath)
		   << " L=" << hexMatG(ch.m_mutationDistribution.lowerCholeskyFactor()) << " AF=";
		for(std::size_t i = 0; i != m.m_ancestralFitness.size(); ++i){ if(i) os << ","; os << hexd(m.m_ancestralFitness[i]); }
		os << " BP=" << hexVec(m.solution().point) << " BV=" << hexd(m.solution().value) << " X=" << hexVec(m.m_individual.searchPoint());
		return os.str();
	};
	for(std::size_t s = 0; s != steps; ++s){
		out << " | " << state();
		bool threw = false;
		try{ m.step(f); }catch(std::exception const&){ threw = true; }
		CMAChromosome const& ch = m.m_individual.chromosome();
		out << " Z=" << hexVec(ch.m_lastZ) << " Y=" << hexVec(ch.m_lastStep) << " FP=" << hexd(m.m_individual.penalizedFitness())
		    << " FU=" << hexd(m.m_individual.unpenalizedFitness()) << " threw=" << (threw ? 1 : 0) << " > " << state();
		if(threw) break;
	}
}

static void cmsaTrace(Config const& cfg, Obj& f, unsigned seed, std::size_t steps, RealVector const& x0, std::ostringstream& out){
	Holder hold(cfg); CMSA& m = static_cast<CMSA&>(*hold.o);
	seedRun(hold, seed, 1);
	initOpt(cfg, m, f, x0);
	out << "trace n=" << f.n << " lambda=" << m.lambda() << " mu=" << m.mu();
	for(std::size_t s = 0; s != steps; ++s){
		std::vector<CMSA::IndividualType> off = m.generateOffspring();
		PenalizingEvaluator ev; ev(f, off.begin(), off.end());
		out << " | S=" << hexd(m.m_sigma) << " M=" << hexVec(m.m_mean) << " L=" << hexMatG(m.m_mutationDistribution.lowerCholeskyFactor()) << " F=";
		for(std::size_t i = 0; i != off.size(); ++i){ if(i) out << ","; out << hexd(off[i].unpenalizedFitness()); }
		out << " X=";
		for(std::size_t i = 0; i != off.size(); ++i){ if(i) out << ","; out << hexVec(off[i].searchPoint()); }
		out << " Y=";
		for(std::size_t i = 0; i != off.size(); ++i){ if(i) out << ","; out << hexVec(off[i].chromosome().step); }
		out << " SI=";
		for(std::size_t i = 0; i != off.size(); ++i){ if(i) out << ","; out << hexd(off[i].chromosome().sigma); }
		m.updatePopulation(off);
		out << " > S=" << hexd(m.m_sigma) << " M=" << hexVec(m.m_mean) << " L=" << hexMatG(m.m_mutationDistribution.lowerCholeskyFactor())
		    << " BP=" << hexVec(m.solution().point) << " BV=" << hexd(m.solution().value);
	}
}

// CrossEntropyMethod::step does not expose its offspring: an objective wrapper records the evaluated points in order
struct Recorder: public SingleObjectiveFunction{
	Obj& f; mutable std::vector<RealVector> xs; mutable std::vector<double> vs;
	Recorder(Obj& f): f(f){ m_features |= HAS_VALUE; }
	std::string name() const{ return "recorder"; }
	std::size_t numberOfVariables() const{ return f.n; }
	bool isFeasible(RealVector const& x) const{ return f.isFeasible(x); }
	void closestFeasible(RealVector& x) const{ f.closestFeasible(x); }
	void proposes(RealVector const& x0){ f.start = x0; m_features |= CAN_PROPOSE_STARTING_POINT; }
	RealVector proposeStartingPoint() const{ return f.start; }
	double eval(RealVector const& x) const{ double v = f.eval(x); xs.push_back(x); vs.push_back(v); return v; }
};
static void cemTrace(Config const& cfg, Obj& f, unsigned seed, std::size_t steps, RealVector const& x0, std::ostringstream& out){
	Holder hold(cfg); CrossEntropyMethod& m = static_cast<CrossEntropyMethod&>(*hold.o);
	seedRun(hold, seed, 1);
	Recorder rec(f);
	initOpt(cfg, m, rec, x0);
	out << "trace n=" << f.n << " lambda=" << m.populationSize() << " mu=" << m.selectionSize() << " noise=" << cfg.opt("noise", "none");
	for(std::size_t s = 0; s != steps; ++s){
		out << " | M=" << hexVec(m.mean()) << " V=" << hexVec(m.variance()) << " T=" << m.m_counter;
		rec.xs.clear(); rec.vs.clear();
		m.step(rec);
		out << " F=";
		for(std::size_t i = 0; i != rec.vs.size(); ++i){ if(i) out << ","; out << hexd(rec.vs[i]); }
		out << " X=";
		for(std::size_t i = 0; i != rec.xs.size(); ++i){ if(i) out << ","; out << hexVec(rec.xs[i]); }
		out << " > M=" << hexVec(m.mean()) << " V=" << hexVec(m.variance()) << " BP=" << hexVec(m.solution().point) << " BV=" << hexd(m.solution().value);
	}
}

// VDCMA::step, split exactly as the class does it (createSample, evaluation, selection, counter, updateStrategyParameters)
static void vdcmaTrace(Config const& cfg, Obj& f, unsigned seed, std::size_t steps, RealVector const& x0, std::ostringstream& out){
	Holder hold(cfg); VDCMA& m = static_cast<VDCMA&>(*hold.o);
	seedRun(hold, seed, 1);
	initOpt(cfg, m, f, x0);
	typedef Individual<RealVector, double, RealVector> Ind;
	out << "trace n=" << f.n << " lambda=" << m.m_lambda << " mu=" << m.m_mu;
	auto state = [&](){
		std::ostringstream os;
		os << " M=" << hexVec(m.m_mean) << " PC=" << hexVec(m.m_evolutionPathC) << " PS=" << hexVec(m.m_evolutionPathSigma)
		   << " D=" << hexVec(m.m_D) << " VN=" << hexVec(m.m_vn) << " NV=" << hexd(m.m_normv);
		return os.str();
	};
	for(std::size_t s = 0; s != steps; ++s){
		std::vector<Ind> off(m.m_lambda);
		PenalizingEvaluator ev;
		for(std::size_t i = 0; i != off.size(); ++i) m.createSample(off[i].searchPoint(), off[i].chromosome());
		ev(f, off.begin(), off.end());
		out << " | S=" << hexd(m.m_sigma) << "," << m.m_counter << state() << " F=";
		for(std::size_t i = 0; i != off.size(); ++i){ if(i) out << ","; out << hexd(off[i].unpenalizedFitness()); }
		out << " X=";
		for(std::size_t i = 0; i != off.size(); ++i){ if(i) out << ","; out << hexVec(off[i].searchPoint()); }
		out << " Y=";
		for(std::size_t i = 0; i != off.size(); ++i){ if(i) out << ","; out << hexVec(off[i].chromosome()); }
		std::vector<Ind> parents(m.m_mu);
		ElitistSelection<Ind::FitnessOrdering> selection;
		selection(off.begin(), off.end(), parents.begin(), parents.end());
		m.m_counter++;
		m.updateStrategyParameters(parents);
		// (m_best is protected in the base class, which is included before the access hack: the reported pair is what step() assigns)
		out << " > S=" << hexd(m.m_sigma) << state() << " BP=" << hexVec(parents[0].searchPoint()) << " BV=" << hexd(parents[0].unpenalizedFitness());
	}
}

static void simplexRun(Config const& cfg, Obj& f, std::size_t steps, RealVector const& x0, std::ostringstream& out){
	SimplexDownhill m;
	callInit(m, f, x0, cfg.kind == "simplex" ? cfg.initMode() : "point");
	auto state = [&](){
		std::ostringstream os;
		os << "BP=" << hexVec(m.solution().point) << " BV=" << hexd(m.solution().value) << " SX=";
		bool first = true;
		for(auto const& s: m.simplex()){ if(!first) os << ","; first = false; os << hexVec(s.point); }
		os << " SV=";
		first = true;
		for(auto const& s: m.simplex()){ if(!first) os << ","; first = false; os << hexd(s.value); }
		return os.str();
	};
	out << "simplex " << state();
	for(std::size_t s = 0; s != steps; ++s){ m.step(f); out << " | " << state(); }
}

int main(){
	std::unique_ptr<Obj> f(new Obj());
	Config cfg;
	std::string line;
	while(std::getline(std::cin, line)){
		std::vector<std::string> t = vh::tokens(line);
		std::ostringstream out;
		try{
			if(t.empty()){ std::cout << "\n"; continue; }
			if(t[0] == "obj"){
				f.reset(new Obj());
				f->kind = t.at(1) == "quad" ? 0 : (t.at(1) == "rosen" ? 1 : (t.at(1) == "plateau" ? 3 : 2));
				f->n = std::stoul(t.at(2));
				if(f->kind == 0){
					if(t.size() != 3 + f->n * f->n + f->n) throw std::runtime_error("bad-op");
					for(std::size_t k = 0; k != f->n * f->n; ++k) f->A.push_back(bits2d(t[3+k]));
					for(std::size_t k = 0; k != f->n; ++k) f->b.push_back(bits2d(t[3 + f->n*f->n + k]));
				}
				out << "ok";
			}else if(t[0] == "box" || t[0] == "softbox"){
				std::size_t n = f->n;
				if(t.size() != 1 + 2*n) throw std::runtime_error("bad-op");
				RealVector l(n), u(n);
				for(std::size_t k = 0; k != n; ++k){ l(k) = bits2d(t[1+k]); u(k) = bits2d(t[1+n+k]); }
				if(t[0] == "box") f->setBox(l, u); else f->setSoftBox(l, u);
				out << "ok";
			}else if(t[0] == "scale"){
				f->scale = bits2d(t.at(1));
				if(!(f->scale > 0) || !std::isfinite(f->scale)) throw std::runtime_error("bad-op");
				out << "ok";
			}else if(t[0] == "opt"){
				cfg.kind = t.at(1); cfg.p.clear(); cfg.o.clear();
				for(std::size_t k = 2; k < t.size(); ++k){
					std::size_t eq = t[k].find('=');
					if(eq == std::string::npos) cfg.p.push_back(bits2d(t[k]));
					else cfg.o[t[k].substr(0, eq)] = t[k].substr(eq + 1);
				}
				out << "ok";
			}else if(t[0] == "run"){
				unsigned seed = (unsigned)std::stoul(t.at(1)); std::size_t steps = std::stoul(t.at(2));
				double target = bits2d(t.at(3));     // convergence target on the final value (inf = none)
				if(t.size() != 4 + f->n) throw std::runtime_error("bad-op");
				RealVector x0(f->n);
				for(std::size_t k = 0; k != f->n; ++k) x0(k) = bits2d(t[4+k]);
				Holder h1(cfg, 0x00), h2(cfg, 0xFF), h4(cfg, 0xA5);
				Trace a = runOnce(cfg, h1, *f, 0, seed, 1, steps, x0);
				Trace b = runOnce(cfg, h2, *f, 0, seed, 2, steps, x0);
				Trace r = runOnce(cfg, h1, *f, 0, seed, 3, steps, x0);    // the object used for run a, initialised again
				preUse(cfg, h4, f->n, seed);
				Trace u = runOnce(cfg, h4, *f, 0, seed, 4, steps, x0);    // an object used on another problem before
				out << "final pt=" << showVec(a.pts.back()) << " val=" << vh::exactDouble(a.vals.back())
				    << " sigma=" << vh::exactDouble(a.sig.back()) << " digest=" << digest(a);
				if(a.pdUndecided) out << " pd-undecided=" << a.pdUndecided << " last-pivot=" << g_lastPivot << " of=" << g_lastDiag;
				if(!a.bad.empty()) out << " !oracle " << a.bad;
				else if(!b.bad.empty()) out << " !oracle " << b.bad << " run=second";
				else if(!r.bad.empty()) out << " !oracle " << r.bad << " run=reinitialised";
				else if(!u.bad.empty()) out << " !oracle " << u.bad << " run=reused";
				if(digest(a) != digest(b)) out << " !oracle same-seed-different-run" << (h1.priv ? ":private-generator" : "");
				if(digest(a) != digest(r)) out << " !oracle reinitialised-object-different-run";
				if(digest(a) != digest(u)) out << " !oracle reused-object-different-run";
				for(int phi = 1; phi <= 4; ++phi){
					// ElitistCMA with a feasibility box ranks by f + penalty, which is not order-equivalent to phi(f) + penalty
					if(cfg.kind == "ecma" && f->soft) break;
					Holder h3(cfg, (unsigned char)(0x5A + 0x11 * phi));
					Trace c = runOnce(cfg, h3, *f, phi, seed, 4 + phi, steps, x0);
					bool same = c.pts.size() == a.pts.size();
					// 2^340 v is exact as long as it does not overflow
					bool representable = true;
					for(std::size_t s = 0; phi == 4 && s != a.vals.size(); ++s) representable = representable && std::fabs(a.vals[s]) < 1e150;
					if(!representable) continue;
					// the rescalings are exact (and hence exactly order preserving) only away from underflow:
					// the comparison stops once a reported value drops below 1e-200 in modulus
					for(std::size_t s = 0; same && s != a.pts.size(); ++s){
						if(std::fabs(a.vals[s]) < 1e-200 && a.vals[s] != 0) break;
						same = sameVec(a.pts[s], c.pts[s]) && sameBits(a.sig[s], c.sig[s]);
					}
					if(!c.bad.empty() && a.bad.empty()) out << " !oracle " << c.bad << " run=rescaled" << phi;
					if(!same){ out << " !oracle not-rank-invariant" << (phi == 4 ? "-at-huge-values" : "") << " phi=" << phi; break; }
				}
				if(std::isfinite(target) && !(a.vals.back() <= target)) out << " !oracle not-converged " << a.vals.back();
			}else if(t[0] == "coeffs"){
				coeffsOp(t, out);
			}else if(t[0] == "ecmatrace" || t[0] == "cmsatrace" || t[0] == "cemtrace" || t[0] == "vdcmatrace"){
				unsigned seed = (unsigned)std::stoul(t.at(1)); std::size_t steps = std::stoul(t.at(2));
				if(t.size() != 3 + f->n) throw std::runtime_error("bad-op");
				RealVector x0(f->n);
				for(std::size_t k = 0; k != f->n; ++k) x0(k) = bits2d(t[3+k]);
				if(t[0] == "ecmatrace") ecmaTrace(cfg, *f, seed, steps, x0, out);
				else if(t[0] == "cmsatrace") cmsaTrace(cfg, *f, seed, steps, x0, out);
				else if(t[0] == "vdcmatrace") vdcmaTrace(cfg, *f, seed, steps, x0, out);
				else cemTrace(cfg, *f, seed, steps, x0, out);
			}else if(t[0] == "simplexrun"){
				std::size_t steps = std::stoul(t.at(1));
				if(t.size() != 2 + f->n) throw std::runtime_error("bad-op");
				RealVector x0(f->n);
				for(std::size_t k = 0; k != f->n; ++k) x0(k) = bits2d(t[2+k]);
				simplexRun(cfg, *f, steps, x0, out);
			}else if(t[0] == "cmatrace"){
				unsigned seed = (unsigned)std::stoul(t.at(1)); std::size_t steps = std::stoul(t.at(2));
				if(t.size() != 3 + f->n) throw std::runtime_error("bad-op");
				RealVector x0(f->n);
				for(std::size_t k = 0; k != f->n; ++k) x0(k) = bits2d(t[3+k]);
				Holder hold(cfg); CMA& cma = static_cast<CMA&>(*hold.o);
				seedRun(hold, seed, 1);
				initOpt(cfg, cma, *f, x0);
				out << "trace n=" << f->n << " lambda=" << cma.m_lambda << " mu=" << cma.m_mu << " rec=" << (int)cma.m_recombinationType << " lb=" << hexd(cma.m_lowerBound);
				for(std::size_t s = 0; s != steps; ++s){
					// one step, split exactly as CMA::step does for a noise-free function
					std::vector<CMA::IndividualType> off = cma.generateOffspring();
					PenalizingEvaluator ev; ev.m_numEvaluations = cma.m_numEvaluations;
					ev(*f, off.begin(), off.end());
					out << " | S=" << hexd(cma.m_sigma) << "," << cma.m_counter << " M=" << hexVec(cma.m_mean) << " PC=" << hexVec(cma.m_evolutionPathC)
					    << " PS=" << hexVec(cma.m_evolutionPathSigma) << " C=" << hexMat(cma.m_mutationDistribution.covarianceMatrix())
					    << " B=" << hexMat(cma.m_mutationDistribution.eigenVectors());
					out << " F=";
					for(std::size_t i = 0; i != off.size(); ++i){ if(i) out << ","; out << hexd(off[i].unpenalizedFitness()); }  // FitnessOrdering ranks by the UNpenalized fitness
					out << " X=";
					for(std::size_t i = 0; i != off.size(); ++i){ if(i) out << ","; out << hexVec(off[i].searchPoint()); }
					out << " Z=";
					for(std::size_t i = 0; i != off.size(); ++i){ if(i) out << ","; out << hexVec(off[i].chromosome()); }
					cma.updatePopulation(off);
					RealVector const& evs = cma.m_mutationDistribution.eigenValues();
					out << " > S=" << hexd(cma.m_sigma) << " M=" << hexVec(cma.m_mean) << " PC=" << hexVec(cma.m_evolutionPathC)
					    << " PS=" << hexVec(cma.m_evolutionPathSigma) << " C=" << hexMat(cma.m_mutationDistribution.covarianceMatrix())
					    << " EV=" << hexd(evs(evs.size()-1)) << " BP=" << hexVec(cma.solution().point) << " BV=" << hexd(cma.solution().value);
				}
			}else throw std::runtime_error("bad-op");
		}catch(std::exception const& e){
			std::string w = e.what();
			for(char& ch: w) if(ch == '\n' || ch == '\r') ch = ' ';
			out.str(""); out << (w == "bad-op" ? "bad-op" : "exception");
			if(w != "bad-op") out << " !oracle exception " << w.substr(0, 120);
		}
		std::cout << out.str() << "\n";
	}
	return 0;
}
