// K-C11: correspondence / oracle harness for Shark's evolution strategies and direct-search methods.
//
//   obj sphere <n> | quad <n> <A n*n> <b n> | rosen <n>
//   box <l n> <u n>   |   softbox <l n> <u n>   (feasibility predicate + closestFeasible without the constraint feature flag)
//   opt cma <lambda> <mu> <recomb 0|1|2> <sigma> | cmsa | ecma | vdcma | cem | simplex      (lambda 0 = defaults)
//   run <seed> <steps> <x0 n>        init + steps; prints the final solution, a trace digest and the oracle verdicts
//   coeffs <n> <lambda> <mu> <recomb>   CMA::doInit coefficients (compared bit for bit with Model/CMA.lean)
//   cmatrace <seed> <steps> <x0 n>   CMA run printing, per step, everything updatePopulation consumed and produced
//
// numbers are IEEE-754 bit patterns "x<16 hex digits>".
// Oracle (after init and after every step, on the real code, independent of the Lean model):
//   value == f(closest feasible point of the reported point) bit for bit, finite; step size > 0 and finite;
//   covariance symmetric and Cholesky succeeds (CMA); same seed => identical run; runs on f and on exactly
//   order-preserving rescalings (2f, f/8, piecewise 4f|2f) visit identical points; elitist variants monotone;
//   optional convergence target.
#include <sstream>
#include <iostream>
#include <vector>
#include <string>
#include <memory>
#include <deque>
#include <map>
#include <set>
#include <list>
#include <algorithm>
#include <functional>
#include <random>
#include <shark/Core/Shark.h>
#include <shark/ObjectiveFunctions/BoxConstraintHandler.h>
#include <shark/Algorithms/AbstractSingleObjectiveOptimizer.h>
#include <shark/Statistics/Distributions/MultiVariateNormalDistribution.h>
#define private public
#define protected public
#include <shark/Algorithms/DirectSearch/CMA.h>
#include <shark/Algorithms/DirectSearch/CMSA.h>
#include <shark/Algorithms/DirectSearch/ElitistCMA.h>
#include <shark/Algorithms/DirectSearch/VDCMA.h>
#include <shark/Algorithms/DirectSearch/CrossEntropyMethod.h>
#include <shark/Algorithms/DirectSearch/SimplexDownhill.h>
#undef private
#undef protected
#include <shark/ObjectiveFunctions/BoxConstraintHandler.h>
#include "common.hpp"
#include <cstring>
#include <memory>

using namespace shark;

static double bits2d(std::string const& t){
	if(t.size() != 17 || t[0] != 'x') throw std::runtime_error("bad number " + t);
	std::uint64_t b = std::stoull(t.substr(1), nullptr, 16);
	double d; std::memcpy(&d, &b, 8); return d;
}
static std::string hexd(double d){
	std::uint64_t b; std::memcpy(&b, &d, 8); char buf[24]; std::snprintf(buf, sizeof buf, "x%016llx", (unsigned long long)b); return buf;
}
template<class V> static std::string hexVec(V const& v){
	std::string s; for(std::size_t i = 0; i != v.size(); ++i){ if(i) s += ","; s += hexd(v(i)); } return s;
}
static std::string hexMat(RealMatrix const& m){
	std::string s;
	for(std::size_t i = 0; i != m.size1(); ++i) for(std::size_t j = 0; j != m.size2(); ++j){ if(i + j) s += ","; s += hexd(m(i,j)); }
	return s;
}
static std::string showVec(RealVector const& v){
	std::string s = "[";
	for(std::size_t i = 0; i != v.size(); ++i){ if(i) s += ","; s += vh::exactDouble(v(i)); }
	return s + "]";
}
static bool sameBits(double a, double b){ return std::memcmp(&a, &b, 8) == 0 || (a == 0 && b == 0); }
static bool sameVec(RealVector const& a, RealVector const& b){
	if(a.size() != b.size()) return false;
	for(std::size_t i = 0; i != a.size(); ++i) if(!sameBits(a(i), b(i))) return false;
	return true;
}

struct Obj: public SingleObjectiveFunction{
	int kind; std::size_t n; std::vector<double> A, b;
	BoxConstraintHandler<RealVector> handler; bool boxed;
	bool soft;  // "soft box": isFeasible/closestFeasible are overridden but the function does not declare
	            // IS_CONSTRAINED_FEATURE (CMA, CMSA, ElitistCMA refuse declared constraints in checkFeatures although
	            // their PenalizingEvaluator handles infeasible points) -- this reaches the closest-feasible clause of C11
	int phi;   // 0 identity, 1: 2v, 2: v/8, 3: v>=0 ? 4v : 2v   (all exact and strictly increasing)
	Obj(): kind(0), n(0), boxed(false), soft(false), phi(0){ m_features |= HAS_VALUE; m_constraintHandler = nullptr; }
	std::string name() const{ return "verif-objective"; }
	std::size_t numberOfVariables() const{ return n; }
	void setBox(RealVector const& l, RealVector const& u){ handler.setBounds(l, u); announceConstraintHandler(&handler); boxed = true; }
	void setSoftBox(RealVector const& l, RealVector const& u){ handler.setBounds(l, u); soft = true; }
	bool isFeasible(RealVector const& x) const{ return soft ? handler.isFeasible(x) : SingleObjectiveFunction::isFeasible(x); }
	void closestFeasible(RealVector& x) const{ if(soft) handler.closestFeasible(x); else SingleObjectiveFunction::closestFeasible(x); }
	double raw(RealVector const& x) const{
		double v = 0.0;
		if(kind == 2){ for(std::size_t i = 0; i != n; ++i) v = v + x(i) * x(i); }
		else if(kind == 0){
			for(std::size_t i = 0; i != n; ++i){
				double r = 0.0;
				for(std::size_t j = 0; j != n; ++j) r = r + A[i*n+j] * x(j);
				v = v + x(i) * (0.5 * r - b[i]);
			}
		}else{
			for(std::size_t i = 0; i + 1 < n; ++i){
				double a = x(i+1) - x(i) * x(i); double c = 1.0 - x(i);
				v = v + (100.0 * (a * a) + c * c);
			}
		}
		return v;
	}
	double eval(RealVector const& x) const{
		++m_evaluationCounter;
		double v = raw(x);
		switch(phi){ case 1: return 2.0 * v; case 2: return v * 0.125; case 3: return v >= 0 ? 4.0 * v : 2.0 * v; default: return v; }
	}
	// the property's reference value: objective at the closest feasible point
	double reference(RealVector const& p) const{
		RealVector t(p);
		if(!isFeasible(t)) closestFeasible(t);
		return raw(t);
	}
};

struct Config{ std::string kind; std::vector<double> p; };
typedef AbstractSingleObjectiveOptimizer<RealVector> OptBase;

struct Trace{
	std::vector<RealVector> pts; std::vector<double> vals, sig;
	std::string bad;   // first oracle failure
};

static void fail(Trace& t, std::string const& w){ if(t.bad.empty()) t.bad = w; }

static bool cholesky(RealMatrix const& C){
	std::size_t n = C.size1(); std::vector<double> L(n*n, 0.0);
	for(std::size_t i = 0; i != n; ++i) for(std::size_t j = 0; j <= i; ++j){
		double s = C(i,j);
		for(std::size_t k = 0; k != j; ++k) s -= L[i*n+k] * L[j*n+k];
		if(i == j){ if(!(s > 0) || !std::isfinite(s)) return false; L[i*n+i] = std::sqrt(s); }
		else L[i*n+j] = s / L[j*n+j];
	}
	return true;
}

static OptBase* make(Config const& c){
	if(c.kind == "cma"){
		CMA* o = new CMA(random::globalRng);
		if(c.p.size() >= 4 && c.p[0] > 0){ o->setLambda((std::size_t)c.p[0]); o->setMu((std::size_t)c.p[1]); }
		if(c.p.size() >= 4){ o->m_recombinationType = (CMA::RecombinationType)(int)c.p[2]; if(c.p[3] > 0) o->setInitialSigma(c.p[3]); }
		return o;
	}
	if(c.kind == "cmsa") return new CMSA(random::globalRng);
	if(c.kind == "ecma") return new ElitistCMA(random::globalRng);
	if(c.kind == "vdcma") return new VDCMA(random::globalRng);
	if(c.kind == "cem") return new CrossEntropyMethod();
	if(c.kind == "simplex") return new SimplexDownhill();
	throw std::runtime_error("unknown optimizer " + c.kind);
}

// step size / distribution validity of the concrete classes
static double stepSize(Config const& c, OptBase& o, Trace& t){
	if(c.kind == "cma"){
		CMA& m = static_cast<CMA&>(o);
		RealMatrix const& C = m.covarianceMatrix();
		for(std::size_t i = 0; i != C.size1(); ++i) for(std::size_t j = 0; j != i; ++j)
			if(!sameBits(C(i,j), C(j,i))){
				// the two triangles are not computed by bit-symmetric operations (remora evaluates w*outer_prod(a,b)
				// as outer_prod(w*a,b)); the asymmetry is never corrected and drifts: relative differences above 1e-12
				// were observed after ~100 generations: the absolute asymmetry stays around 1e-19..1e-21 while C itself
				// shrinks by 12 orders of magnitude (see findings_proposed/C11.md).  Tolerance: 1e-9 of sqrt(C_ii C_jj)
				// plus 1e-16 absolute (the initial covariance is the identity).
				double sc = std::sqrt(std::fabs(C(i,i)) * std::fabs(C(j,j)));
				if(!(std::fabs(C(i,j) - C(j,i)) <= 1e-9 * sc + 1e-16)){
					std::ostringstream os; os << "covariance-not-symmetric Cij=" << C(i,j) << " Cji=" << C(j,i) << " Cii=" << C(i,i) << " Cjj=" << C(j,j) << " step=" << t.pts.size();
					fail(t, os.str());
				}
			}
		if(!cholesky(C)) fail(t, "covariance-not-positive-definite");
		return m.sigma();
	}
	if(c.kind == "cmsa") return static_cast<CMSA&>(o).sigma();
	if(c.kind == "ecma") return static_cast<ElitistCMA&>(o).sigma();
	if(c.kind == "vdcma") return static_cast<VDCMA&>(o).sigma();
	if(c.kind == "cem"){
		RealVector const& v = static_cast<CrossEntropyMethod&>(o).variance();
		double mn = 1e300; bool ok = true;
		for(std::size_t i = 0; i != v.size(); ++i){ ok = ok && std::isfinite(v(i)) && v(i) >= 0; mn = std::min(mn, v(i)); }
		if(!ok) fail(t, "variance-invalid");
		return 1.0;
	}
	return 1.0;
}

static Trace runOnce(Config const& c, Obj& f, int phi, unsigned seed, std::size_t steps, RealVector const& x0){
	Trace t;
	f.phi = phi;
	random::globalRng.seed(seed);
	std::unique_ptr<OptBase> o(make(c));
	o->init(f, x0);
	bool elitist = c.kind == "ecma" || c.kind == "simplex";
	for(std::size_t s = 0; s <= steps; ++s){
		if(s) o->step(f);
		RealVector const& p = o->solution().point; double v = o->solution().value;
		t.pts.push_back(p); t.vals.push_back(v);
		bool finite = std::isfinite(v);
		for(std::size_t i = 0; i != p.size(); ++i) finite = finite && std::isfinite(p(i));
		if(!finite) fail(t, "non-finite");
		if(phi == 0 && finite){
			double ref = f.reference(p);
			if(!sameBits(ref, v)) fail(t, "value-not-f-of-closest-feasible-point");
		}
		double sg = stepSize(c, *o, t);
		t.sig.push_back(sg);
		if(!(sg > 0) || !std::isfinite(sg)) fail(t, "step-size-not-positive");
		if(elitist && s && !(v <= t.vals[s-1])) fail(t, "elitist-value-increased");
	}
	f.phi = 0;
	return t;
}

static std::uint64_t digest(Trace const& t){
	std::uint64_t h = 1469598103934665603ULL;
	auto mix = [&](double d){ std::uint64_t b; std::memcpy(&b, &d, 8); if(d == 0) b = 0; h = (h ^ b) * 1099511628211ULL; };
	for(auto const& p: t.pts) for(std::size_t i = 0; i != p.size(); ++i) mix(p(i));
	for(double s: t.sig) mix(s);
	return h;
}

int main(){
	std::unique_ptr<Obj> f(new Obj());
	Config cfg;
	std::string line;
	while(std::getline(std::cin, line)){
		std::vector<std::string> t = vh::tokens(line);
		std::ostringstream out;
		try{
			if(t.empty()){ std::cout << "\n"; continue; }
			if(t[0] == "obj"){
				f.reset(new Obj());
				f->kind = t.at(1) == "quad" ? 0 : (t.at(1) == "rosen" ? 1 : 2);
				f->n = std::stoul(t.at(2));
				if(f->kind == 0){
					if(t.size() != 3 + f->n * f->n + f->n) throw std::runtime_error("bad-op");
					for(std::size_t k = 0; k != f->n * f->n; ++k) f->A.push_back(bits2d(t[3+k]));
					for(std::size_t k = 0; k != f->n; ++k) f->b.push_back(bits2d(t[3 + f->n*f->n + k]));
				}
				out << "ok";
			}else if(t[0] == "box" || t[0] == "softbox"){
				std::size_t n = f->n;
				if(t.size() != 1 + 2*n) throw std::runtime_error("bad-op");
				RealVector l(n), u(n);
				for(std::size_t k = 0; k != n; ++k){ l(k) = bits2d(t[1+k]); u(k) = bits2d(t[1+n+k]); }
				if(t[0] == "box") f->setBox(l, u); else f->setSoftBox(l, u);
				out << "ok";
			}else if(t[0] == "opt"){
				cfg.kind = t.at(1); cfg.p.clear();
				for(std::size_t k = 2; k < t.size(); ++k) cfg.p.push_back(bits2d(t[k]));
				out << "ok";
			}else if(t[0] == "run"){
				unsigned seed = (unsigned)std::stoul(t.at(1)); std::size_t steps = std::stoul(t.at(2));
				double target = bits2d(t.at(3));     // convergence target on the final value (inf = none)
				if(t.size() != 4 + f->n) throw std::runtime_error("bad-op");
				RealVector x0(f->n);
				for(std::size_t k = 0; k != f->n; ++k) x0(k) = bits2d(t[4+k]);
				Trace a = runOnce(cfg, *f, 0, seed, steps, x0);
				Trace b = runOnce(cfg, *f, 0, seed, steps, x0);
				out << "final pt=" << showVec(a.pts.back()) << " val=" << vh::exactDouble(a.vals.back())
				    << " sigma=" << vh::exactDouble(a.sig.back()) << " digest=" << digest(a);
				if(!a.bad.empty()) out << " !oracle " << a.bad;
				if(digest(a) != digest(b) || !sameBits(a.vals.back(), b.vals.back())) out << " !oracle same-seed-different-run";
				for(int phi = 1; phi <= 3; ++phi){
					Trace c = runOnce(cfg, *f, phi, seed, steps, x0);
					bool same = c.pts.size() == a.pts.size();
					// the rescalings are exact (and hence exactly order preserving) only away from underflow:
					// the comparison stops once a reported value drops below 1e-200 in modulus
					for(std::size_t s = 0; same && s != a.pts.size(); ++s){
						if(std::fabs(a.vals[s]) < 1e-200) break;
						same = sameVec(a.pts[s], c.pts[s]) && sameBits(a.sig[s], c.sig[s]);
					}
					if(!same){ out << " !oracle not-rank-invariant phi=" << phi; break; }
				}
				if(!(a.vals.back() <= target)) out << " !oracle not-converged " << a.vals.back();
			}else if(t[0] == "coeffs"){
				std::size_t n = std::stoul(t.at(1)), lambda = std::stoul(t.at(2)), mu = std::stoul(t.at(3)); int rec = std::stoi(t.at(4));
				CMA cma(random::globalRng);
				cma.m_recombinationType = (CMA::RecombinationType)rec;
				std::vector<RealVector> pts(1, RealVector(n, 0.0)); std::vector<double> vals(1, 0.0);
				if(lambda == 0){ lambda = CMA::suggestLambda(n); mu = CMA::suggestMu(lambda, (CMA::RecombinationType)rec); }
				cma.doInit(pts, vals, lambda, mu, 1.0);
				out << "lambda=" << lambda << " mu=" << mu << " c=" << hexd(cma.m_cC) << "," << hexd(cma.m_c1) << "," << hexd(cma.m_cMu) << ","
				    << hexd(cma.m_cSigma) << "," << hexd(cma.m_dSigma) << "," << hexd(cma.m_muEff) << " w=" << hexVec(cma.m_weights);
				// admissibility oracle on the real coefficients
				double sw = 0; bool pos = true;
				for(std::size_t i = 0; i != cma.m_weights.size(); ++i){ sw += cma.m_weights(i); pos = pos && cma.m_weights(i) > 0; }
				if(mu >= 1 && (!pos || std::fabs(sw - 1) > 1e-12)) out << " !oracle weights-inadmissible";
				if(!(cma.m_c1 > 0) || !(cma.m_cMu >= 0) || !(cma.m_cMu <= 1 - cma.m_c1) || !(cma.m_cSigma > 0 && cma.m_cSigma < 1) || !(cma.m_cC > 0 && cma.m_cC <= 1) || !(cma.m_dSigma >= 1))
					out << " !oracle coefficients-inadmissible";
			}else if(t[0] == "cmatrace"){
				unsigned seed = (unsigned)std::stoul(t.at(1)); std::size_t steps = std::stoul(t.at(2));
				if(t.size() != 3 + f->n) throw std::runtime_error("bad-op");
				RealVector x0(f->n);
				for(std::size_t k = 0; k != f->n; ++k) x0(k) = bits2d(t[3+k]);
				random::globalRng.seed(seed);
				std::unique_ptr<OptBase> ob(make(cfg)); CMA& cma = static_cast<CMA&>(*ob);
				cma.init(*f, x0);
				out << "trace n=" << f->n << " lambda=" << cma.m_lambda << " mu=" << cma.m_mu << " rec=" << (int)cma.m_recombinationType;
				for(std::size_t s = 0; s != steps; ++s){
					// one step, split exactly as CMA::step does for a noise-free function
					std::vector<CMA::IndividualType> off = cma.generateOffspring();
					PenalizingEvaluator ev; ev.m_numEvaluations = cma.m_numEvaluations;
					ev(*f, off.begin(), off.end());
					out << " | S=" << hexd(cma.m_sigma) << "," << cma.m_counter << " M=" << hexVec(cma.m_mean) << " PC=" << hexVec(cma.m_evolutionPathC)
					    << " PS=" << hexVec(cma.m_evolutionPathSigma) << " C=" << hexMat(cma.m_mutationDistribution.covarianceMatrix())
					    << " B=" << hexMat(cma.m_mutationDistribution.eigenVectors());
					out << " F=";
					for(std::size_t i = 0; i != off.size(); ++i){ if(i) out << ","; out << hexd(off[i].unpenalizedFitness()); }  // FitnessOrdering ranks by the UNpenalized fitness
					out << " X=";
					for(std::size_t i = 0; i != off.size(); ++i){ if(i) out << ","; out << hexVec(off[i].searchPoint()); }
					out << " Z=";
					for(std::size_t i = 0; i != off.size(); ++i){ if(i) out << ","; out << hexVec(off[i].chromosome()); }
					cma.updatePopulation(off);
					RealVector const& evs = cma.m_mutationDistribution.eigenValues();
					out << " > S=" << hexd(cma.m_sigma) << " M=" << hexVec(cma.m_mean) << " PC=" << hexVec(cma.m_evolutionPathC)
					    << " PS=" << hexVec(cma.m_evolutionPathSigma) << " C=" << hexMat(cma.m_mutationDistribution.covarianceMatrix())
					    << " EV=" << hexd(evs(evs.size()-1)) << " BP=" << hexVec(cma.solution().point) << " BV=" << hexd(cma.solution().value);
				}
			}else throw std::runtime_error("bad-op");
		}catch(std::exception const& e){
			std::string w = e.what();
			for(char& ch: w) if(ch == '\n' || ch == '\r') ch = ' ';
			out.str(""); out << (w == "bad-op" ? "bad-op" : "exception");
			if(w != "bad-op") out << " !oracle exception " << w.substr(0, 120);
		}
		std::cout << out.str() << "\n";
	}
	return 0;
}
