// K-C04: LinearModel<RealVector, Activation>, ConcatenatedModel of two layers, NeuronLayer with
// normalizer / softmax rows.  Line protocol of lean/Driver/C04.lean.  Independent oracle:
// batch rows == single evaluation, eval with state == eval without, combined derivative call ==
// the two separate calls, parameter round trip, number of parameters.
#include <shark/Models/LinearModel.h>
#include <shark/Models/NeuronLayers.h>
#include <shark/Models/ConcatenatedModel.h>
#include <shark/Models/Normalizer.h>
#include <shark/Models/Classifier.h>
#include <shark/Models/PoolingLayer.h>
#include <shark/Models/ResizeLayer.h>
#include <shark/Models/RBFLayer.h>
#include <shark/Models/CMAC.h>
#include <shark/Models/ConvolutionalModel.h>
#include <shark/Models/Ensemble.h>
#include <shark/Models/Kernels/KernelExpansion.h>
#include <shark/Models/Kernels/LinearKernel.h>
#include <shark/Models/Kernels/GaussianRbfKernel.h>
#include <shark/Models/DropoutLayer.h>
#include <shark/Models/OneVersusOneClassifier.h>
#include <shark/Models/Trees/CARTree.h>
#include <shark/Models/Trees/RFClassifier.h>
#include <shark/Models/Clustering/Centroids.h>
#include <shark/Models/Clustering/HardClusteringModel.h>
#include <shark/Models/Clustering/SoftClusteringModel.h>
#include "common.hpp"
#include <memory>
using namespace shark;

static bool parseDy(std::string const& t, double& out){
	std::size_t s = t.find('/');
	try{ long long a = std::stoll(t.substr(0, s)); long long k = (s == std::string::npos) ? 0 : std::stoll(t.substr(s+1)); out = std::ldexp((double)a, -(int)k); return true; }
	catch(...){ return false; }
}
static std::vector<std::vector<std::string> > sections(std::string const& line){
	std::vector<std::vector<std::string> > r(1);
	for(std::string const& w: vh::tokens(line)){ if(w == "|") r.push_back(std::vector<std::string>()); else r.back().push_back(w); }
	return r;
}
static bool nums(std::vector<std::string> const& t, std::vector<double>& o){ o.clear(); for(auto const& w: t){ double x; if(!parseDy(w, x)) return false; o.push_back(x); } return true; }
static std::string showMat(RealMatrix const& g){
	std::string s;
	for(std::size_t i = 0; i != g.size1(); ++i){ if(i) s += ";"; for(std::size_t j = 0; j != g.size2(); ++j){ if(j) s += ","; s += vh::exactDouble(g(i,j)); } }
	return s;
}
static std::string showVec(RealVector const& g){ std::string s; for(std::size_t j = 0; j != g.size(); ++j){ if(j) s += ","; s += vh::exactDouble(g(j)); } return s; }
static RealMatrix toMat(std::vector<double> const& v, std::size_t r, std::size_t c){ RealMatrix m(r, c); for(std::size_t i = 0; i != r; ++i) for(std::size_t j = 0; j != c; ++j) m(i,j) = v[i*c+j]; return m; }
static bool same(RealMatrix const& a, RealMatrix const& b){ if(a.size1() != b.size1() || a.size2() != b.size2()) return false; for(std::size_t i = 0; i != a.size1(); ++i) for(std::size_t j = 0; j != a.size2(); ++j) if(!(a(i,j) == b(i,j)) && !(std::isnan(a(i,j)) && std::isnan(b(i,j)))) return false; return true; }
static bool sameV(RealVector const& a, RealVector const& b){ if(a.size() != b.size()) return false; for(std::size_t i = 0; i != a.size(); ++i) if(!(a(i) == b(i))) return false; return true; }

// `probe gradient-size 0` switches the check `gradient.size() == numberOfParameters()` for a non-empty result object off
// (finding F-C04-5: parameter-less layers leave the gradient untouched)
static bool g_sizeProbe = true;
// everything the property says about one model object, checked on the real code
// `probe history 1`: every object is given a history before it is used (built with another structure, evaluated,
// re-configured with setStructure; its State has recorded a different batch; copies / assignments are compared)
static bool g_history = false;
static bool g_kexpReconf = true;   // `probe kexp-reconf 0`: finding F-C04-6 present, KernelExpansion is not re-configured
// copies and assigned objects evaluate like the original; for value-type models a copy does not share parameters
template<class Model>
std::string copyOracle(Model& model, RealMatrix const& X, RealMatrix const& out, RealVector const& p, bool valueCopy){
	std::string bad;
	Model cp(model);
	{ RealMatrix oc; cp.eval(X, oc); if(!same(out, oc)) bad += " !oracle copy-evaluates-differently"; }
	if(cp.numberOfParameters() != model.numberOfParameters()) bad += " !oracle copy-parameter-count";
	if(valueCopy && p.size() != 0 && model.numberOfParameters() == p.size()){
		RealVector p2 = p; for(std::size_t i = 0; i != p2.size(); ++i) p2(i) += 1.0;
		cp.setParameterVector(p2);
		RealMatrix o2; model.eval(X, o2);
		if(!same(out, o2)) bad += " !oracle copy-shares-parameters";
		cp = model;           // assignment over an object with other parameters
		RealMatrix oa; cp.eval(X, oa); if(!same(out, oa)) bad += " !oracle assigned-evaluates-differently";
	}
	return bad;
}
template<class Model>
std::string oracle(Model& model, RealMatrix const& X, RealMatrix const& C, RealVector const& p, bool exactSingle, bool withDeriv = true, bool inputDeriv = true, double ptol = 0.0, bool bufferProbe = true, bool valueCopy = true){
	std::string bad;
	if(model.numberOfParameters() != p.size()) bad += " !oracle number-of-parameters";
	model.setParameterVector(p);
	{ RealVector q = model.parameterVector(); bool ok = q.size() == p.size();
	  for(std::size_t i = 0; ok && i != p.size(); ++i) if(!(std::fabs(q(i) - p(i)) <= ptol * (1 + std::fabs(p(i))))) ok = false;
	  if(!ok) bad += " !oracle parameter-roundtrip"; }
	RealMatrix out; model.eval(X, out);
	if(out.size1() != X.size1()) bad += " !oracle output-rows";
	boost::shared_ptr<State> st = model.createState();
	// object history of the State: it has recorded another batch (one more row, shifted values) before
	if(g_history){ RealMatrix Xo(X.size1() + 1, X.size2()); for(std::size_t i = 0; i != Xo.size1(); ++i) for(std::size_t j = 0; j != Xo.size2(); ++j) Xo(i,j) = (i < X.size1() ? X(i,j) : 0.0) + 0.5; RealMatrix oo; model.eval(Xo, oo, *st); }
	RealMatrix outS; model.eval(X, outS, *st);
	if(!same(out, outS)) bad += " !oracle state-changes-output";
	bad += copyOracle(model, X, out, p, valueCopy);
	for(std::size_t i = 0; i != X.size1(); ++i){
		RealVector x = row(X, i), o;
		model.eval(x, o);
		bool ok = o.size() == out.size2();
		for(std::size_t k = 0; ok && k != o.size(); ++k){
			if(exactSingle ? !(o(k) == out(i,k)) : !(std::fabs(o(k) - out(i,k)) <= 1e-12 * (1 + std::fabs(o(k))))) ok = false;
		}
		if(!ok){ bad += " !oracle batch-row-differs-from-single"; break; }
		// a batch made of this row alone
		RealMatrix X1(1, X.size2()); noalias(row(X1, 0)) = x; RealMatrix o1; model.eval(X1, o1);
		for(std::size_t k = 0; k != o.size(); ++k) if(!(o1(0,k) == out(i,k))){ bad += " !oracle batch-composition-changes-row"; i = X.size1() - 1; break; }
	}
	if(!withDeriv) return bad;
	RealVector g1, g2; RealMatrix d1, d2;
	model.weightedParameterDerivative(X, outS, C, *st, g1);
	if(inputDeriv){
		model.weightedInputDerivative(X, outS, C, *st, d1);
		model.weightedDerivatives(X, outS, C, *st, g2, d2);
		if(!sameV(g1, g2) || !same(d1, d2)) bad += " !oracle combined-derivative-differs-from-separate";
		// the result objects are outputs: their previous content must not matter
		RealMatrix d3(d1.size1(), d1.size2(), 1.0);
		if(bufferProbe) model.weightedInputDerivative(X, outS, C, *st, d3); else d3 = d1;
		if(!same(d1, d3)) bad += " !oracle input-derivative-depends-on-previous-buffer-content";
	}
	RealVector g3(g1.size(), 1.0);
	model.weightedParameterDerivative(X, outS, C, *st, g3);
	if(!sameV(g1, g3)) bad += " !oracle parameter-derivative-depends-on-previous-buffer-content";
	// ... nor its previous size
	RealVector g4(model.numberOfParameters() + 2, 1.0);
	if(g_sizeProbe) model.weightedParameterDerivative(X, outS, C, *st, g4); else g4 = g1;
	if(g4.size() != model.numberOfParameters()) bad += " !oracle gradient-not-resized";
	if(g1.size() != model.numberOfParameters()) bad += " !oracle gradient-size";
	return bad;
}

// finite-difference search aid (independent of the Lean model): central differences of the
// coefficient-weighted output sum w.r.t. every input entry and every parameter
template<class Model>
std::string fdOracle(Model& model, RealMatrix const& X, RealMatrix const& C, RealVector const& p, bool inputDeriv = true){
	std::string bad;
	model.setParameterVector(p);
	boost::shared_ptr<State> st = model.createState();
	RealMatrix out; model.eval(X, out, *st);
	RealVector g; RealMatrix d;
	model.weightedParameterDerivative(X, out, C, *st, g);
	if(inputDeriv) model.weightedInputDerivative(X, out, C, *st, d);
	auto objective = [&](RealMatrix const& XX){ RealMatrix o; model.eval(XX, o); double s = 0; for(std::size_t i = 0; i != o.size1(); ++i) for(std::size_t k = 0; k != o.size2(); ++k) s += C(i,k)*o(i,k); return s; };
	double const h = 1e-5;
	if(!inputDeriv){}
	else if(d.size1() == X.size1() && d.size2() == X.size2()){
		for(std::size_t i = 0; i != X.size1() && bad.empty(); ++i) for(std::size_t j = 0; j != X.size2(); ++j){
			RealMatrix A = X, B = X; A(i,j) += h; B(i,j) -= h;
			double fd = (objective(A) - objective(B)) / (2*h);
			if(!(std::fabs(fd - d(i,j)) <= 1e-4 * (1 + std::fabs(fd)))){ bad += " !oracle input-derivative-differs-from-finite-differences"; break; }
		}
	}else bad += " !oracle input-derivative-shape";
	for(std::size_t q = 0; q != p.size(); ++q){
		RealVector a = p, b = p; a(q) += h; b(q) -= h;
		model.setParameterVector(a); double fa = objective(X);
		model.setParameterVector(b); double fb = objective(X);
		double fd = (fa - fb) / (2*h);
		if(!(std::fabs(fd - g(q)) <= 1e-4 * (1 + std::fabs(fd)))){ bad += " !oracle parameter-derivative-differs-from-finite-differences"; break; }
	}
	model.setParameterVector(p);
	return bad;
}

typedef AbstractModel<RealVector,RealVector,RealVector> AnyModel;
static RealVector toVec(std::vector<double> const& v);
static AnyModel* makeDense(std::string const& act, std::size_t nIn, std::size_t nOut, bool hb){
	if(act == "linear") return new LinearModel<RealVector, LinearNeuron>(nIn, nOut, hb);
	if(act == "rectifier") return new LinearModel<RealVector, RectifierNeuron>(nIn, nOut, hb);
	if(act == "tanh") return new LinearModel<RealVector, TanhNeuron>(nIn, nOut, hb);
	if(act == "logistic") return new LinearModel<RealVector, LogisticNeuron>(nIn, nOut, hb);
	if(act == "fastsigmoid") return new LinearModel<RealVector, FastSigmoidNeuron>(nIn, nOut, hb);
	return 0;
}
static AnyModel* makeNeuron(std::string const& act, std::size_t n){
	if(act == "linear") return new NeuronLayer<LinearNeuron>(n);
	if(act == "rectifier") return new NeuronLayer<RectifierNeuron>(n);
	if(act == "tanh") return new NeuronLayer<TanhNeuron>(n);
	if(act == "logistic") return new NeuronLayer<LogisticNeuron>(n);
	if(act == "fastsigmoid") return new NeuronLayer<FastSigmoidNeuron>(n);
	if(act == "softmax") return new NeuronLayer<SoftmaxNeuron<> >(n);
	if(act == "normalizer") return new NeuronLayer<NormalizerNeuron<> >(n);
	return 0;
}
// chain B nIn | specs | params (ALL dense layers, optimised or not, in layer order) | X | C
//   a spec `[:<opt>` opens a nested ConcatenatedModel that is added to the enclosing one with that flag, `]` closes it
struct ChainBuild{
	std::vector<std::unique_ptr<AnyModel> > owned;
	std::vector<double> const* p; std::size_t used; bool kinky; bool bad;
	std::vector<double> optParams;
	// fills `m` with the layers up to the matching `]` (or the end); returns the index after it
	std::size_t seq(std::vector<std::string> const& specs, std::size_t i, bool top, bool enabled, std::size_t& nIn, ConcatenatedModel<RealVector>& m){
		for(; i < specs.size(); ++i){
			std::string const& sp = specs[i];
			std::vector<std::string> f; { std::string cur; for(char ch: sp){ if(ch == ':'){ f.push_back(cur); cur.clear(); } else cur += ch; } f.push_back(cur); }
			if(f[0] == "]" && f.size() == 1){ if(top) bad = true; return i + 1; }
			if(f[0] == "[" && f.size() == 2){
				bool o = f[1] == "1";
				ConcatenatedModel<RealVector>* inner = new ConcatenatedModel<RealVector>();
				owned.emplace_back(inner);
				std::size_t after = seq(specs, i + 1, false, enabled && o, nIn, *inner);
				if(bad || after < i + 3){ bad = true; return specs.size(); }      // an empty group has no input shape
				i = after - 1;
				m.add(inner, o);
			}else if(f[0] == "d" && f.size() == 5){
				bool hb = f[2] == "1"; std::size_t nOut = std::stoul(f[3]); bool o = f[4] == "1";
				AnyModel* l = makeDense(f[1], nIn, nOut, hb); if(!l){ bad = true; return specs.size(); }
				owned.emplace_back(l);
				std::size_t np = nOut*nIn + (hb ? nOut : 0);
				if(used + np > p->size()){ bad = true; return specs.size(); }
				RealVector lp(np); for(std::size_t q = 0; q != np; ++q) lp(q) = (*p)[used+q];
				l->setParameterVector(lp);
				if(o && enabled) for(std::size_t q = 0; q != np; ++q) optParams.push_back((*p)[used+q]);
				used += np;
				m.add(l, o); nIn = nOut;
				if(f[1] == "rectifier" || f[1] == "fastsigmoid") kinky = true;
			}else if((f[0] == "n" || f[0] == "r") && f.size() == 3){
				AnyModel* l = makeNeuron(f[1], nIn); if(!l){ bad = true; return specs.size(); }
				owned.emplace_back(l);
				m.add(l, f[2] == "1");
				if(f[1] == "rectifier" || f[1] == "fastsigmoid") kinky = true;
			}else{ bad = true; return specs.size(); }
		}
		if(!top) bad = true;      // unclosed group
		return i;
	}
};
static std::string chain(std::size_t B, std::size_t nIn0, std::vector<std::string> const& specs, std::vector<double> const& p, std::vector<double> const& xs, std::vector<double> const& cs){
	ChainBuild b; b.p = &p; b.used = 0; b.kinky = false; b.bad = false;
	ConcatenatedModel<RealVector> m;
	std::size_t nIn = nIn0;
	b.seq(specs, 0, true, true, nIn, m);
	if(b.bad || b.used != p.size() || xs.size() != B*nIn0 || cs.size() != B*nIn) return "bad-op";
	bool kinky = b.kinky;
	RealVector optParams = toVec(b.optParams);
	RealMatrix X = toMat(xs, B, nIn0), C = toMat(cs, B, nIn);
	std::string orc = oracle(m, X, C, optParams, true, true, true, 0.0, true, false);
	if(!kinky) orc += fdOracle(m, X, C, optParams);
	m.setParameterVector(optParams);
	boost::shared_ptr<State> st = m.createState();
	RealMatrix E; m.eval(X, E, *st);
	RealVector gp, gp2; RealMatrix gx, gx2;
	m.weightedParameterDerivative(X, E, C, *st, gp);
	m.weightedInputDerivative(X, E, C, *st, gx);
	m.weightedDerivatives(X, E, C, *st, gp2, gx2);
	std::ostringstream os;
	os << "NP=" << m.numberOfParameters() << " PV=" << showVec(m.parameterVector()) << " E=" << showMat(E) << " GP=" << showVec(gp) << " GX=" << showMat(gx)
	   << " GP2=" << showVec(gp2) << " GX2=" << showMat(gx2) << orc;
	return os.str();
}

template<class Act>
std::string dense(bool hasB, std::size_t nIn, std::size_t nOut, std::size_t B, std::vector<double> const& p, std::vector<double> const& xs, std::vector<double> const& cs, bool exact){
	LinearModel<RealVector, Act> m(g_history ? nIn + 1 : nIn, g_history ? nOut + 2 : nOut, g_history ? !hasB : hasB);
	if(g_history){ RealMatrix j(2, nIn + 1, 1.0), o; m.eval(j, o); m.setStructure(nIn, nOut, hasB); }
	RealVector pv(p.size()); for(std::size_t i = 0; i != p.size(); ++i) pv(i) = p[i];
	RealMatrix X = toMat(xs, B, nIn), C = toMat(cs, B, nOut);
	std::string orc = oracle(m, X, C, pv, true);
	m.setParameterVector(pv);
	RealMatrix S(B, nOut);
	for(std::size_t i = 0; i != B; ++i){ RealVector x = row(X, i), o; m.eval(x, o); noalias(row(S, i)) = o; }
	boost::shared_ptr<State> st = m.createState();
	RealMatrix E; m.eval(X, E, *st);
	RealVector gp; RealMatrix gx;
	m.weightedParameterDerivative(X, E, C, *st, gp);
	m.weightedInputDerivative(X, E, C, *st, gx);
	std::ostringstream os;
	os << "NP=" << m.numberOfParameters() << " PV=" << showVec(m.parameterVector()) << " S=" << showMat(S) << " E=" << showMat(E)
	   << " GP=" << showVec(gp) << " GX=" << showMat(gx) << orc;
	return os.str();
}
template<class A1, class A2>
std::string concat(bool h1, bool h2, std::size_t nIn, std::size_t nHid, std::size_t nOut, std::size_t B, std::vector<double> const& p, std::vector<double> const& xs, std::vector<double> const& cs){
	LinearModel<RealVector, A1> f(nIn, nHid, h1); LinearModel<RealVector, A2> g(nHid, nOut, h2);
	ConcatenatedModel<RealVector> m = f >> g;
	RealVector pv(p.size()); for(std::size_t i = 0; i != p.size(); ++i) pv(i) = p[i];
	RealMatrix X = toMat(xs, B, nIn), C = toMat(cs, B, nOut);
	std::string orc = oracle(m, X, C, pv, true, true, true, 0.0, true, false);
	m.setParameterVector(pv);
	boost::shared_ptr<State> st = m.createState();
	RealMatrix E; m.eval(X, E, *st);
	RealVector gp; RealMatrix gx;
	m.weightedParameterDerivative(X, E, C, *st, gp);
	m.weightedInputDerivative(X, E, C, *st, gx);
	std::ostringstream os;
	os << "NP=" << m.numberOfParameters() << " PV=" << showVec(m.parameterVector()) << " E=" << showMat(E) << " GP=" << showVec(gp) << " GX=" << showMat(gx) << orc;
	return os.str();
}
template<class Neuron>
std::string rowact(std::size_t n, std::size_t B, std::vector<double> const& zs, std::vector<double> const& ds){
	NeuronLayer<Neuron> m(n);
	RealMatrix Z = toMat(zs, B, n), D = toMat(ds, B, n);
	std::string orc = oracle(m, Z, D, RealVector(), false);
	{ RealVector none; orc += fdOracle(m, Z, D, none); }
	boost::shared_ptr<State> st = m.createState();
	RealMatrix E; m.eval(Z, E, *st);
	RealMatrix der; m.weightedInputDerivative(Z, E, D, *st, der);
	return "E=" + showMat(E) + " D=" + showMat(der) + orc;
}
#define ACT1(NAME, TYPE) if(a1 == NAME) return concat2<TYPE>(a2, h1, h2, nIn, nHid, nOut, B, p, xs, cs);
template<class A1>
std::string concat2(std::string const& a2, bool h1, bool h2, std::size_t nIn, std::size_t nHid, std::size_t nOut, std::size_t B, std::vector<double> const& p, std::vector<double> const& xs, std::vector<double> const& cs){
	if(a2 == "linear") return concat<A1, LinearNeuron>(h1, h2, nIn, nHid, nOut, B, p, xs, cs);
	if(a2 == "rectifier") return concat<A1, RectifierNeuron>(h1, h2, nIn, nHid, nOut, B, p, xs, cs);
	if(a2 == "tanh") return concat<A1, TanhNeuron>(h1, h2, nIn, nHid, nOut, B, p, xs, cs);
	if(a2 == "logistic") return concat<A1, LogisticNeuron>(h1, h2, nIn, nHid, nOut, B, p, xs, cs);
	if(a2 == "fastsigmoid") return concat<A1, FastSigmoidNeuron>(h1, h2, nIn, nHid, nOut, B, p, xs, cs);
	return "bad-op";
}
static std::string concat1(std::string const& a1, std::string const& a2, bool h1, bool h2, std::size_t nIn, std::size_t nHid, std::size_t nOut, std::size_t B, std::vector<double> const& p, std::vector<double> const& xs, std::vector<double> const& cs){
	ACT1("linear", LinearNeuron) ACT1("rectifier", RectifierNeuron) ACT1("tanh", TanhNeuron) ACT1("logistic", LogisticNeuron) ACT1("fastsigmoid", FastSigmoidNeuron)
	return "bad-op";
}

// ---------------------------------------------------------------------------------------------
// further model types: Normalizer, Classifier, PoolingLayer, ResizeLayer, RBFLayer, KernelExpansion,
// Ensemble, CMACMap
static RealVector toVec(std::vector<double> const& v){ RealVector r(v.size()); for(std::size_t i = 0; i != v.size(); ++i) r(i) = v[i]; return r; }
static std::string showLabels(blas::vector<unsigned int> const& l){ std::string s; for(std::size_t i = 0; i != l.size(); ++i){ if(i) s += ","; s += std::to_string(l(i)); } return s; }
template<class Model>
static RealMatrix singles(Model& m, RealMatrix const& X, std::size_t nOut){
	RealMatrix S(X.size1(), nOut);
	for(std::size_t i = 0; i != X.size1(); ++i){ RealVector x = row(X, i), o; m.eval(x, o); noalias(row(S, i)) = o; }
	return S;
}
// normalizer hasB n B | params | X
static std::string normalizerOp(bool hb, std::size_t n, std::size_t B, std::vector<double> const& p, std::vector<double> const& xs){
	Normalizer<RealVector> m(g_history ? n + 1 : n, g_history ? !hb : hb);
	if(g_history){ RealMatrix j(2, n + 1, 1.0), o; RealVector jp(m.numberOfParameters(), 2.0); m.setParameterVector(jp); m.eval(j, o); m.setStructure(n, hb); }
	RealVector pv = toVec(p); RealMatrix X = toMat(xs, B, n), C(B, n, 0.0);
	std::string orc = oracle(m, X, C, pv, true, false);
	m.setParameterVector(pv);
	RealMatrix E; m.eval(X, E);
	std::ostringstream os;
	os << "NP=" << m.numberOfParameters() << " PV=" << showVec(m.parameterVector()) << " S=" << showMat(singles(m, X, n)) << " E=" << showMat(E) << orc;
	return os.str();
}
// classifier nIn nOut hasB hasBias B probe | params of the linear decision function | bias | X
static std::string classifierOp(std::size_t nIn, std::size_t nOut, bool hb, bool hasBias, std::size_t B, bool probe, std::vector<double> const& p, std::vector<double> const& bias, std::vector<double> const& xs){
	Classifier<LinearModel<RealVector> > c;
	if(g_history){ c.decisionFunction().setStructure(nIn + 2, nOut + 1, !hb); RealMatrix j(3, nIn + 2, 1.0); blas::vector<unsigned int> o; c.eval(j, o); }
	c.decisionFunction().setStructure(nIn, nOut, hb);
	std::string bad;
	RealVector pv = toVec(p);
	if(c.numberOfParameters() != pv.size()) bad += " !oracle number-of-parameters";
	c.setParameterVector(pv);
	if(!sameV(c.parameterVector(), pv)) bad += " !oracle parameter-roundtrip";
	if(hasBias) c.bias() = toVec(bias);
	RealMatrix X = toMat(xs, B, nIn);
	blas::vector<unsigned int> R; c.eval(X, R);
	boost::shared_ptr<State> st = c.createState();
	blas::vector<unsigned int> RS; c.eval(X, RS, *st);
	bool sameState = R.size() == RS.size(); for(std::size_t i = 0; sameState && i != R.size(); ++i) if(R(i) != RS(i)) sameState = false;
	if(!sameState) bad += " !oracle state-changes-output";
	blas::vector<unsigned int> S(B);
	bool rowOk = true, compOk = true;
	for(std::size_t i = 0; i != B; ++i){
		RealVector x = row(X, i);
		unsigned int o = 77777u;          // sentinel: a single evaluation must assign its output
		if(probe || !hasBias){ c.eval(x, o); S(i) = o; if(o != R(i)) rowOk = false; }
		RealMatrix X1(1, nIn); noalias(row(X1, 0)) = x; blas::vector<unsigned int> r1; c.eval(X1, r1);
		if(r1(0) != R(i)) compOk = false;
	}
	if(!rowOk) bad += " !oracle batch-row-differs-from-single";
	if(!compOk) bad += " !oracle batch-composition-changes-row";
	std::ostringstream os;
	os << "NP=" << c.numberOfParameters() << " PV=" << showVec(c.parameterVector()) << " R=" << showLabels(R) << bad;
	return os.str();
}
// pool h w d ph pw B fd probe | X | C
static std::string poolOp(std::size_t h, std::size_t w, std::size_t d, std::size_t ph, std::size_t pw, std::size_t B, std::vector<double> const& xs, std::vector<double> const& cs, bool distinct, bool probe){
	PoolingLayer<RealVector> m(g_history ? Shape({h + 1, w + 2, d + 1}) : Shape({h, w, d}), g_history ? Shape({1, 1}) : Shape({ph, pw}));
	if(g_history){ RealMatrix j(2, (h + 1)*(w + 2)*(d + 1), 1.0), o; m.eval(j, o); m.setStructure(Shape({h, w, d}), Shape({ph, pw})); }
	std::size_t nIn = h*w*d, nOut = (h/ph)*(w/pw)*d;
	if(xs.size() != B*nIn || cs.size() != B*nOut) return "bad-op";
	RealMatrix X = toMat(xs, B, nIn), C = toMat(cs, B, nOut);
	RealVector none;
	std::string orc = oracle(m, X, C, none, true, true, true, 0.0, probe);
	if(distinct) orc += fdOracle(m, X, C, none);
	boost::shared_ptr<State> st = m.createState();
	RealMatrix E; m.eval(X, E, *st);
	RealMatrix gx; m.weightedInputDerivative(X, E, C, *st, gx);
	std::ostringstream os;
	os << "NP=" << m.numberOfParameters() << " S=" << showMat(singles(m, X, nOut)) << " E=" << showMat(E) << " GX=" << showMat(gx) << orc;
	return os.str();
}
// resize h w d oh ow B | X | C
static std::string resizeOp(std::size_t h, std::size_t w, std::size_t d, std::size_t oh, std::size_t ow, std::size_t B, std::vector<double> const& xs, std::vector<double> const& cs){
	ResizeLayer<RealVector> m(g_history ? Shape({h + 1, w + 2, d + 1}) : Shape({h, w, d}), g_history ? Shape({ow + 1, oh}) : Shape({oh, ow}));
	if(g_history){ RealMatrix j(2, (h + 1)*(w + 2)*(d + 1), 1.0), o; m.eval(j, o); m.setStructure(Shape({h, w, d}), Shape({oh, ow})); }
	std::size_t nIn = h*w*d, nOut = oh*ow*d;
	if(xs.size() != B*nIn || cs.size() != B*nOut) return "bad-op";
	RealMatrix X = toMat(xs, B, nIn), C = toMat(cs, B, nOut);
	RealVector none;
	std::string orc = oracle(m, X, C, none, true);
	orc += fdOracle(m, X, C, none);
	boost::shared_ptr<State> st = m.createState();
	RealMatrix E; m.eval(X, E, *st);
	RealMatrix gx; m.weightedInputDerivative(X, E, C, *st, gx);
	std::ostringstream os;
	os << "NP=" << m.numberOfParameters() << " S=" << showMat(singles(m, X, nOut)) << " E=" << showMat(E) << " GX=" << showMat(gx) << orc;
	return os.str();
}
// rbf nIn nOut trainCenters trainWidth B | centers | log gamma | X | C
static std::string rbfOp(std::size_t nIn, std::size_t nOut, bool tc, bool tw, std::size_t B, std::vector<double> const& cen, std::vector<double> const& lg, std::vector<double> const& xs, std::vector<double> const& cs){
	if(cen.size() != nIn*nOut || lg.size() != nOut || xs.size() != B*nIn || cs.size() != B*nOut) return "bad-op";
	RBFLayer m(g_history ? nIn + 1 : nIn, g_history ? nOut + 2 : nOut);
	if(g_history){ RealVector jp(m.numberOfParameters(), 0.25); m.setParameterVector(jp); RealMatrix j(2, nIn + 1, 1.0), o; m.eval(j, o); m.setStructure(nIn, nOut); }
	RealVector all(nIn*nOut + nOut);
	for(std::size_t i = 0; i != cen.size(); ++i) all(i) = cen[i];
	for(std::size_t i = 0; i != nOut; ++i) all(cen.size() + i) = lg[i];
	m.setTrainingParameters(true, true); m.setParameterVector(all);
	m.setTrainingParameters(tc, tw);
	RealVector pv((tc ? nIn*nOut : 0) + (tw ? nOut : 0));
	{ std::size_t q = 0; if(tc) for(std::size_t i = 0; i != cen.size(); ++i) pv(q++) = cen[i]; if(tw) for(std::size_t i = 0; i != nOut; ++i) pv(q++) = lg[i]; }
	RealMatrix X = toMat(xs, B, nIn), C = toMat(cs, B, nOut);
	std::string orc = oracle(m, X, C, pv, true, true, false, 1e-12);
	orc += fdOracle(m, X, C, pv, false);
	m.setParameterVector(pv);
	boost::shared_ptr<State> st = m.createState();
	RealMatrix E; m.eval(X, E, *st);
	RealVector gp; m.weightedParameterDerivative(X, E, C, *st, gp);
	std::ostringstream os;
	os << "NP=" << m.numberOfParameters() << " TPV=" << showVec(m.parameterVector()) << " TS=" << showMat(singles(m, X, nOut)) << " TE=" << showMat(E) << " GP=" << showVec(gp) << orc;
	return os.str();
}
// kexp <linear|gauss> gamma nIn nBasis nOut hasB basisBatch B | basis | params | X
static std::string kexpOp(std::string const& kern, double gamma, std::size_t nIn, std::size_t nBasis, std::size_t nOut, bool hb, std::size_t bb, std::size_t B, std::vector<double> const& bs, std::vector<double> const& p, std::vector<double> const& xs, bool exact){
	if(bs.size() != nBasis*nIn || xs.size() != B*nIn || p.size() != nBasis*nOut + (hb ? nOut : 0)) return "bad-op";
	LinearKernel<RealVector> lin; GaussianRbfKernel<RealVector> gauss(gamma);
	AbstractKernelFunction<RealVector>* k = kern == "linear" ? (AbstractKernelFunction<RealVector>*)&lin : (AbstractKernelFunction<RealVector>*)&gauss;
	std::vector<RealVector> pts(nBasis, RealVector(nIn));
	for(std::size_t s = 0; s != nBasis; ++s) for(std::size_t j = 0; j != nIn; ++j) pts[s](j) = bs[s*nIn + j];
	Data<RealVector> basis = createDataFromRange(pts, bb);
	KernelExpansion<RealVector> m;
	if(g_history && (g_kexpReconf || hb)){   // first another basis, the other offset setting, one more output
		std::vector<RealVector> pts2(nBasis + 1, RealVector(nIn, 1.0));
		m.setStructure(&lin, createDataFromRange(pts2), !hb, nOut + 1);
		RealVector jp(m.numberOfParameters(), 2.0); m.setParameterVector(jp);
		RealMatrix j(2, nIn, 1.0), o; m.eval(j, o);
	}
	m.setStructure(k, basis, hb, nOut);
	RealVector pv = toVec(p); RealMatrix X = toMat(xs, B, nIn), C(B, nOut, 0.0);
	std::string orc = oracle(m, X, C, pv, exact, false);
	m.setParameterVector(pv);
	RealMatrix E; m.eval(X, E);
	std::ostringstream os;
	os << "NP=" << m.numberOfParameters() << " PV=" << showVec(m.parameterVector()) << (exact ? " S=" : " TS=") << showMat(singles(m, X, nOut)) << (exact ? " E=" : " TE=") << showMat(E) << orc;
	return os.str();
}
// ensemble <mean|vote> M nIn nOut hasB B | weights | params of all members | X
static std::string ensembleOp(std::string const& kind, std::size_t M, std::size_t nIn, std::size_t nOut, bool hb, std::size_t B, std::vector<double> const& ws, std::vector<double> const& p, std::vector<double> const& xs){
	std::size_t np = nOut*nIn + (hb ? nOut : 0);
	if(ws.size() != M || p.size() != M*np || xs.size() != B*nIn) return "bad-op";
	RealMatrix X = toMat(xs, B, nIn);
	std::ostringstream os; std::string bad;
	if(kind == "mean"){
		Ensemble<LinearModel<RealVector> > e;
		for(std::size_t m = 0; m != M; ++m){
			LinearModel<RealVector> lm(nIn, nOut, hb); RealVector lp(np); for(std::size_t i = 0; i != np; ++i) lp(i) = p[m*np + i];
			lm.setParameterVector(lp); e.addModel(lm, ws[m]);
		}
		RealMatrix C(B, nOut, 0.0); RealVector none;
		bad = oracle(e, X, C, none, true, false);
		RealMatrix E; e.eval(X, E);
		os << "NP=" << e.numberOfParameters() << " S=" << showMat(singles(e, X, nOut)) << " E=" << showMat(E) << bad;
	}else{
		Ensemble<LinearClassifier<RealVector> > e;
		for(std::size_t m = 0; m != M; ++m){
			LinearClassifier<RealVector> lc; lc.setStructure(nIn, nOut, hb);
			RealVector lp(np); for(std::size_t i = 0; i != np; ++i) lp(i) = p[m*np + i];
			lc.setParameterVector(lp); e.addModel(lc, ws[m]);
		}
		if(e.numberOfParameters() != 0) bad += " !oracle number-of-parameters";
		blas::vector<unsigned int> R; e.eval(X, R);
		RealMatrix V; e.decisionFunction().eval(X, V);
		bool rowOk = true, compOk = true;
		for(std::size_t i = 0; i != B; ++i){
			RealVector x = row(X, i); unsigned int o = 77777u; e.eval(x, o); if(o != R(i)) rowOk = false;
			RealMatrix X1(1, nIn); noalias(row(X1, 0)) = x; blas::vector<unsigned int> r1; e.eval(X1, r1); if(r1(0) != R(i)) compOk = false;
		}
		if(!rowOk) bad += " !oracle batch-row-differs-from-single";
		if(!compOk) bad += " !oracle batch-composition-changes-row";
		os << "NP=" << e.numberOfParameters() << " V=" << showMat(V) << " R=" << showLabels(R) << bad;
	}
	return os.str();
}
// cmac nIn nOut tilings tiles B | lower upper | params | X | C
static std::string cmacOp(std::size_t nIn, std::size_t nOut, std::size_t tilings, std::size_t tiles, std::size_t B, double lower, double upper, std::vector<double> const& p, std::vector<double> const& xs, std::vector<double> const& cs){
	CMACMap m;
	if(g_history){ m.setStructure(Shape({nIn + 1}), Shape({nOut + 1}), tilings + 1, tiles + 1, lower - 1, upper + 2, false); RealVector jp(m.numberOfParameters(), 1.0); m.setParameterVector(jp); RealMatrix j(2, nIn + 1, lower), o; m.eval(j, o); }
	m.setStructure(Shape({nIn}), Shape({nOut}), tilings, tiles, lower, upper, false);
	if(xs.size() != B*nIn || cs.size() != B*nOut) return "bad-op";
	if(p.size() != m.numberOfParameters()){ std::ostringstream os; os << "NP=" << m.numberOfParameters() << " bad-parameter-count"; return os.str(); }
	RealVector pv = toVec(p); RealMatrix X = toMat(xs, B, nIn), C = toMat(cs, B, nOut);
	std::string orc = oracle(m, X, C, pv, true, true, false);
	m.setParameterVector(pv);
	boost::shared_ptr<State> st = m.createState();
	RealMatrix E; m.eval(X, E, *st);
	RealVector gp; m.weightedParameterDerivative(X, E, C, *st, gp);
	// the map is linear in its parameters: the gradient must be the exact difference quotient
	for(std::size_t q = 0; q != pv.size() && q < 64; ++q){
		RealVector a = pv; a(q) += 1.0; m.setParameterVector(a); RealMatrix o; m.eval(X, o);
		double diff = 0; for(std::size_t i = 0; i != B; ++i) for(std::size_t k = 0; k != nOut; ++k) diff += C(i,k) * (o(i,k) - E(i,k));
		if(!(std::fabs(diff - gp(q)) <= 1e-9 * (1 + std::fabs(diff)))){ orc += " !oracle parameter-derivative-differs-from-finite-differences"; break; }
	}
	m.setParameterVector(pv);
	std::ostringstream os;
	os << "NP=" << m.numberOfParameters() << " PV=" << showVec(m.parameterVector()) << " S=" << showMat(singles(m, X, nOut)) << " E=" << showMat(E) << " GP=" << showVec(gp) << orc;
	return os.str();
}
// conv <act> valid h w c nf fh fw B probe | params (filters [f][dy][dx][channel], then offsets) | X | C
template<class Act>
static std::string convOp(bool valid, std::size_t h, std::size_t w, std::size_t c, std::size_t nf, std::size_t fh, std::size_t fw, std::size_t B, std::vector<double> const& p, std::vector<double> const& xs, std::vector<double> const& cs, bool kinky, bool exact, bool probe){
	Conv2DModel<RealVector, Act> m;
	if(g_history){ m.setStructure(Shape({h + fh + 2, w + fw + 1, c + 1}), Shape({nf + 1, fh + 1, fw}), valid ? Padding::ZeroPad : Padding::Valid); RealVector jp(m.numberOfParameters(), 1.0); m.setParameterVector(jp); RealMatrix j(2, (h + fh + 2)*(w + fw + 1)*(c + 1), 1.0), o; m.eval(j, o); }
	m.setStructure(Shape({h, w, c}), Shape({nf, fh, fw}), valid ? Padding::Valid : Padding::ZeroPad);
	std::size_t nIn = h*w*c, nOut = m.outputShape().numElements();
	if(p.size() != m.numberOfParameters() || xs.size() != B*nIn || cs.size() != B*nOut) return "bad-op";
	RealVector pv = toVec(p); RealMatrix X = toMat(xs, B, nIn), C = toMat(cs, B, nOut);
	// probe = 0: the input derivative (finding F-C04-4) is left out, everything else is still checked
	std::string orc = oracle(m, X, C, pv, exact, true, probe);
	if(!kinky) orc += fdOracle(m, X, C, pv, probe);
	m.setParameterVector(pv);
	boost::shared_ptr<State> st = m.createState();
	RealMatrix E; m.eval(X, E, *st);
	RealVector gp; RealMatrix gx;
	m.weightedParameterDerivative(X, E, C, *st, gp);
	if(probe) m.weightedInputDerivative(X, E, C, *st, gx);
	std::ostringstream os;
	os << "NP=" << m.numberOfParameters() << " PV=" << showVec(m.parameterVector()) << (exact ? " S=" : " TS=") << showMat(singles(m, X, nOut)) << (exact ? " E=" : " TE=") << showMat(E)
	   << " GP=" << showVec(gp) << " GX=" << (probe ? showMat(gx) : std::string("-")) << orc;
	return os.str();
}
// sparse <act> hasB nIn nOut B | params | X | C      LinearModel<CompressedRealVector, Act> against the dense model
template<class Act>
static std::string sparseOp(bool hb, std::size_t nIn, std::size_t nOut, std::size_t B, std::vector<double> const& p, std::vector<double> const& xs, std::vector<double> const& cs){
	LinearModel<CompressedRealVector, Act> m(g_history ? nIn + 1 : nIn, g_history ? nOut + 1 : nOut, g_history ? !hb : hb);
	if(g_history) m.setStructure(nIn, nOut, hb);
	LinearModel<RealVector, Act> ref(nIn, nOut, hb);
	RealVector pv = toVec(p); std::string bad;
	if(m.numberOfParameters() != pv.size()) bad += " !oracle number-of-parameters";
	m.setParameterVector(pv); ref.setParameterVector(pv);
	if(!sameV(m.parameterVector(), pv)) bad += " !oracle parameter-roundtrip";
	RealMatrix X = toMat(xs, B, nIn), C = toMat(cs, B, nOut);
	CompressedRealMatrix Xs(B, nIn);
	std::vector<CompressedRealVector> rows(B, CompressedRealVector(nIn));
	for(std::size_t i = 0; i != B; ++i){ auto pos = rows[i].end(); for(std::size_t j = 0; j != nIn; ++j) if(X(i,j) != 0) pos = rows[i].set_element(rows[i].end(), j, X(i,j)); }
	if(B) Xs = createBatch<CompressedRealVector>(rows);
	RealMatrix E, ES, ER; m.eval(Xs, E);
	boost::shared_ptr<State> st = m.createState(); m.eval(Xs, ES, *st);
	if(!same(E, ES)) bad += " !oracle state-changes-output";
	ref.eval(X, ER);
	if(!same(E, ER)) bad += " !oracle sparse-differs-from-dense";
	RealMatrix S(B, nOut);
	for(std::size_t i = 0; i != B; ++i){
		RealVector o; m.eval(rows[i], o); if(o.size() != nOut){ bad += " !oracle single-output-size"; break; }
		noalias(row(S, i)) = o;
		for(std::size_t k = 0; k != nOut; ++k) if(!(o(k) == E(i,k))){ bad += " !oracle batch-row-differs-from-single"; k = nOut - 1; i = B - 1; }
	}
	RealVector g, gr, g3(m.numberOfParameters(), 1.0);
	m.weightedParameterDerivative(Xs, ES, C, *st, g); m.weightedParameterDerivative(Xs, ES, C, *st, g3);
	if(!sameV(g, g3)) bad += " !oracle parameter-derivative-depends-on-previous-buffer-content";
	{ boost::shared_ptr<State> sr = ref.createState(); RealMatrix o; ref.eval(X, o, *sr); ref.weightedParameterDerivative(X, o, C, *sr, gr); }
	bool gok = g.size() == gr.size(); for(std::size_t q = 0; gok && q != g.size(); ++q) if(!(std::fabs(g(q) - gr(q)) <= 1e-12 * (1 + std::fabs(gr(q))))) gok = false;
	if(!gok) bad += " !oracle sparse-gradient-differs-from-dense";
	if(m.hasFirstInputDerivative()) bad += " !oracle sparse-advertises-input-derivative";
	std::ostringstream os;
	os << "NP=" << m.numberOfParameters() << " PV=" << showVec(m.parameterVector()) << " S=" << showMat(S) << " E=" << showMat(E) << " GP=" << showVec(g) << bad;
	return os.str();
}
// kclass nIn nBasis nOut hasB B | basis | params | X        KernelClassifier over the linear kernel
static std::string kclassOp(std::size_t nIn, std::size_t nBasis, std::size_t nOut, bool hb, std::size_t B, std::vector<double> const& bs, std::vector<double> const& p, std::vector<double> const& xs){
	if(bs.size() != nBasis*nIn || xs.size() != B*nIn || p.size() != nBasis*nOut + (hb ? nOut : 0)) return "bad-op";
	LinearKernel<RealVector> lin;
	std::vector<RealVector> pts(nBasis, RealVector(nIn));
	for(std::size_t q = 0; q != nBasis; ++q) for(std::size_t j = 0; j != nIn; ++j) pts[q](j) = bs[q*nIn + j];
	KernelClassifier<RealVector> c(KernelExpansion<RealVector>(&lin, createDataFromRange(pts), hb, nOut));
	std::string bad; RealVector pv = toVec(p);
	if(c.numberOfParameters() != pv.size()) bad += " !oracle number-of-parameters";
	c.setParameterVector(pv);
	if(!sameV(c.parameterVector(), pv)) bad += " !oracle parameter-roundtrip";
	RealMatrix X = toMat(xs, B, nIn);
	blas::vector<unsigned int> R; c.eval(X, R);
	{ boost::shared_ptr<State> st = c.createState(); blas::vector<unsigned int> RS; c.eval(X, RS, *st); bool ok = RS.size() == R.size(); for(std::size_t i = 0; ok && i != R.size(); ++i) ok = RS(i) == R(i); if(!ok) bad += " !oracle state-changes-output"; }
	if(R.size() != B) bad += " !oracle output-rows";
	for(std::size_t i = 0; i != B && i < R.size(); ++i){
		RealVector x = row(X, i); unsigned int o = 77777u; c.eval(x, o); if(o != R(i)){ bad += " !oracle batch-row-differs-from-single"; break; }
		RealMatrix X1(1, nIn); noalias(row(X1, 0)) = x; blas::vector<unsigned int> r1; c.eval(X1, r1); if(r1(0) != R(i)){ bad += " !oracle batch-composition-changes-row"; break; }
	}
	std::ostringstream os;
	os << "NP=" << c.numberOfParameters() << " PV=" << showVec(c.parameterVector()) << " R=" << showLabels(R) << bad;
	return os.str();
}
// ovo nIn classes B | params (per binary classifier: nIn weights, 1 offset) | X      OneVersusOneClassifier of thresholded linear classifiers
static std::string ovoOp(std::size_t nIn, std::size_t classes, std::size_t B, std::vector<double> const& p, std::vector<double> const& xs){
	std::size_t nb = classes * (classes - 1) / 2;
	if(classes < 1 || p.size() != nb * (nIn + 1) || xs.size() != B*nIn) return "bad-op";
	std::vector<std::unique_ptr<LinearClassifier<RealVector> > > bins;
	for(std::size_t q = 0; q != nb; ++q){ bins.emplace_back(new LinearClassifier<RealVector>()); bins.back()->setStructure(nIn, 1, true); }
	OneVersusOneClassifier<RealVector> m;
	for(std::size_t c = 1, q = 0; c < classes; ++c){
		std::vector<OneVersusOneClassifier<RealVector>::binary_classifier_type*> v;
		for(std::size_t e = 0; e != c; ++e, ++q) v.push_back(bins[q].get());
		m.addClass(v);
	}
	std::string bad; RealVector pv = toVec(p);
	if(m.numberOfClasses() != classes) bad += " !oracle number-of-classes";
	if(m.numberOfParameters() != pv.size()) bad += " !oracle number-of-parameters";
	m.setParameterVector(pv);
	if(!sameV(m.parameterVector(), pv)) bad += " !oracle parameter-roundtrip";
	RealMatrix X = toMat(xs, B, nIn);
	blas::vector<unsigned int> R; m.eval(X, R);
	{ boost::shared_ptr<State> st = m.createState(); blas::vector<unsigned int> RS; m.eval(X, RS, *st); bool ok = RS.size() == R.size(); for(std::size_t i = 0; ok && i != R.size(); ++i) ok = RS(i) == R(i); if(!ok) bad += " !oracle state-changes-output"; }
	if(R.size() != B) bad += " !oracle output-rows";
	for(std::size_t i = 0; i != B && i < R.size(); ++i){
		RealVector x = row(X, i); unsigned int o = 77777u; m.eval(x, o); if(o != R(i)){ bad += " !oracle batch-row-differs-from-single"; break; }
		RealMatrix X1(1, nIn); noalias(row(X1, 0)) = x; blas::vector<unsigned int> r1; m.eval(X1, r1); if(r1(0) != R(i)){ bad += " !oracle batch-composition-changes-row"; break; }
		// independent oracle: the winner has at least as many votes as every class, strictly more than every smaller class
		std::vector<unsigned> votes(classes, 0);
		for(std::size_t c = 1, q = 0; c < classes; ++c) for(std::size_t e = 0; e != c; ++e, ++q){ unsigned int lab; bins[q]->eval(x, lab); ++votes[lab == 0 ? e : c]; }
		for(std::size_t c = 0; c != classes; ++c) if(votes[c] > votes[R(i)] || (c < R(i) && votes[c] == votes[R(i)])){ bad += " !oracle not-the-first-vote-maximum"; break; }
	}
	std::ostringstream os;
	os << "NP=" << m.numberOfParameters() << " PV=" << showVec(m.parameterVector()) << " R=" << showLabels(R) << bad;
	return os.str();
}
// tree build script: I:<node>:<attribute>:<threshold> (transformInternalNode), L:<node>:<label> (transformLeafNode)
static bool buildTree(CARTree<unsigned int>& t, std::vector<std::string> const& script){
	t.createRoot();
	for(std::string const& sp: script){
		std::vector<std::string> f; { std::string cur; for(char ch: sp){ if(ch == ':'){ f.push_back(cur); cur.clear(); } else cur += ch; } f.push_back(cur); }
		if(f[0] == "I" && f.size() == 4){ double thr; if(!parseDy(f[3], thr) || std::stoul(f[1]) >= t.numberOfNodes()) return false; t.transformInternalNode(std::stoul(f[1]), std::stoul(f[2]), thr); }
		else if(f[0] == "L" && f.size() == 3){ if(std::stoul(f[1]) >= t.numberOfNodes()) return false; t.transformLeafNode(std::stoul(f[1]), (unsigned int)std::stoul(f[2])); }
		else return false;
	}
	return true;
}
template<class Model>
static std::string labelOracle(Model& m, RealMatrix const& X, blas::vector<unsigned int> const& R){
	std::string bad;
	{ boost::shared_ptr<State> st = m.createState(); blas::vector<unsigned int> RS; m.eval(X, RS, *st); bool ok = RS.size() == R.size(); for(std::size_t i = 0; ok && i != R.size(); ++i) ok = RS(i) == R(i); if(!ok) bad += " !oracle state-changes-output"; }
	if(R.size() != X.size1()) bad += " !oracle output-rows";
	if(m.numberOfParameters() != 0 || m.parameterVector().size() != 0) bad += " !oracle number-of-parameters";
	for(std::size_t i = 0; i != X.size1() && i < R.size(); ++i){
		RealVector x = row(X, i); unsigned int o = 77777u; m.eval(x, o); if(o != R(i)){ bad += " !oracle batch-row-differs-from-single"; break; }
		RealMatrix X1(1, X.size2()); noalias(row(X1, 0)) = x; blas::vector<unsigned int> r1; m.eval(X1, r1); if(r1(0) != R(i)){ bad += " !oracle batch-composition-changes-row"; break; }
	}
	Model cp(m); blas::vector<unsigned int> RC; cp.eval(X, RC); bool ok = RC.size() == R.size(); for(std::size_t i = 0; ok && i != R.size(); ++i) ok = RC(i) == R(i); if(!ok) bad += " !oracle copy-evaluates-differently";
	return bad;
}
// cart nIn nCls B | script | X
static std::string cartOp(std::size_t nIn, std::size_t nCls, std::size_t B, std::vector<std::string> const& script, std::vector<double> const& xs){
	if(xs.size() != B*nIn) return "bad-op";
	CARTree<unsigned int> t(nIn, Shape({nCls}));
	if(!buildTree(t, script)) return "bad-op";
	RealMatrix X = toMat(xs, B, nIn);
	blas::vector<unsigned int> R; t.eval(X, R);
	std::string bad = labelOracle(t, X, R);
	std::ostringstream os; os << "NP=" << t.numberOfParameters() << " R=" << showLabels(R) << bad; return os.str();
}
// rf nIn nCls B | weights | script_1 | ... | script_M | X       RFClassifier<unsigned int> = weighted vote of CARTrees
static std::string rfOp(std::size_t nIn, std::size_t nCls, std::size_t B, std::vector<double> const& ws, std::vector<std::vector<std::string> > const& scripts, std::vector<double> const& xs){
	if(xs.size() != B*nIn || ws.size() != scripts.size() || ws.empty()) return "bad-op";
	RFClassifier<unsigned int> rf;
	for(std::size_t q = 0; q != ws.size(); ++q){ CARTree<unsigned int> t(nIn, Shape({nCls})); if(!buildTree(t, scripts[q])) return "bad-op"; rf.addModel(t, ws[q]); }
	RealMatrix X = toMat(xs, B, nIn);
	blas::vector<unsigned int> R; rf.eval(X, R);
	RealMatrix V; rf.decisionFunction().eval(X, V);
	std::string bad = labelOracle(rf, X, R);
	std::ostringstream os; os << "NP=" << rf.numberOfParameters() << " V=" << showMat(V) << " R=" << showLabels(R) << bad; return os.str();
}
// cluster nIn nC B centroidBatch | centroids | X        Centroids with HardClusteringModel / SoftClusteringModel
static std::string clusterOp(std::size_t nIn, std::size_t nC, std::size_t B, std::size_t cb, std::vector<double> const& cen, std::vector<double> const& xs){
	if(cen.size() != nC*nIn || xs.size() != B*nIn || nC == 0) return "bad-op";
	std::vector<RealVector> pts(nC, RealVector(nIn, 0.0));
	Centroids c(createDataFromRange(pts, cb));
	std::string bad; RealVector pv = toVec(cen);
	if(c.numberOfParameters() != pv.size()) bad += " !oracle number-of-parameters";
	c.setParameterVector(pv);
	if(!sameV(c.parameterVector(), pv)) bad += " !oracle parameter-roundtrip";
	SoftClusteringModel<RealVector> soft(&c); HardClusteringModel<RealVector> hard(&c);
	if(soft.numberOfParameters() != pv.size() || hard.numberOfParameters() != pv.size() || !sameV(soft.parameterVector(), pv)) bad += " !oracle model-parameters-differ-from-clustering";
	RealMatrix X = toMat(xs, B, nIn);
	RealMatrix E; soft.eval(X, E);
	blas::vector<unsigned int> R; hard.eval(X, R);
	if(E.size1() != B || R.size() != B) bad += " !oracle output-rows";
	RealMatrix S(B, nC);
	for(std::size_t i = 0; i != B && bad.empty(); ++i){
		RealVector x = row(X, i), o; soft.eval(x, o); if(o.size() != nC){ bad += " !oracle single-output-size"; break; }
		noalias(row(S, i)) = o;
		double sum = 0; for(std::size_t k = 0; k != nC; ++k){ sum += E(i,k); if(!(std::fabs(o(k) - E(i,k)) <= 1e-12 * (1 + std::fabs(o(k))))){ bad += " !oracle batch-row-differs-from-single"; break; } }
		if(!(std::fabs(sum - 1) <= 1e-12)) bad += " !oracle memberships-do-not-sum-to-one";
		unsigned int lab = 77777u; hard.eval(x, lab);
		// the label is a cluster of maximal membership (the batch and the single path round differently: compare memberships, not indices)
		if(lab >= nC || R(i) >= nC || !(std::fabs(E(i, lab) - E(i, R(i))) <= 1e-12)) bad += " !oracle hard-label-differs-from-single";
		for(std::size_t k = 0; k != nC && R(i) < nC; ++k) if(E(i,k) > E(i,R(i))) bad += " !oracle hard-label-not-maximal";
		RealMatrix X1(1, nIn); noalias(row(X1, 0)) = x; RealMatrix e1; soft.eval(X1, e1);
		for(std::size_t k = 0; k != nC; ++k) if(!(e1(0,k) == E(i,k))){ bad += " !oracle batch-composition-changes-row"; break; }
	}
	std::ostringstream os;
	os << "NP=" << soft.numberOfParameters() << " PV=" << showVec(soft.parameterVector()) << " TS=" << showMat(S) << " TE=" << showMat(E) << " R=" << showLabels(R) << bad;
	return os.str();
}
// dropout p n B seed | X | C       random layer: oracle only (the driver answers with the same constant line)
static std::string dropoutOp(double prob, std::size_t n, std::size_t B, unsigned seed, std::vector<double> const& xs, std::vector<double> const& cs){
	if(xs.size() != B*n || cs.size() != B*n) return "bad-op";
	random::rng_type rng(seed);
	DropoutLayer<RealVector> m(Shape({n}), prob, rng);
	RealMatrix X = toMat(xs, B, n), C = toMat(cs, B, n);
	std::string bad;
	if(m.numberOfParameters() != 0 || m.parameterVector().size() != 0) bad += " !oracle number-of-parameters";
	boost::shared_ptr<State> st = m.createState();
	RealMatrix E; rng.seed(seed); m.eval(X, E, *st);
	RealMatrix E2; rng.seed(seed); m.eval(X, E2);                       // same draws, no state
	if(!same(E, E2)) bad += " !oracle state-changes-output";
	rng.seed(seed);                                                      // the rows one after the other consume the same draws
	for(std::size_t i = 0; i != B; ++i){ RealVector x = row(X, i), o; m.eval(x, o); for(std::size_t k = 0; k != n; ++k) if(o.size() != n || !(o(k) == E(i,k))){ bad += " !oracle batch-row-differs-from-single"; i = B - 1; break; } }
	RealMatrix D; m.weightedInputDerivative(X, E, C, *st, D);
	RealVector g(3, 1.0); m.weightedParameterDerivative(X, E, C, *st, g); if(g.size() != 0) bad += " !oracle gradient-not-resized";
	RealVector g2; RealMatrix D2; m.weightedDerivatives(X, E, C, *st, g2, D2); if(!same(D, D2) || g2.size() != 0) bad += " !oracle combined-derivative-differs-from-separate";
	bool ok = E.size1() == B && E.size2() == n && D.size1() == B && D.size2() == n;
	for(std::size_t i = 0; ok && i != B; ++i) for(std::size_t k = 0; k != n; ++k){
		bool kept = E(i,k) == X(i,k), dropped = E(i,k) == 0;
		if(!kept && !dropped){ ok = false; break; }
		if(X(i,k) != 0 && !(D(i,k) == (kept ? C(i,k) : 0.0))){ ok = false; break; }       // the derivative of out = mask * x
		if(X(i,k) == 0 && !(D(i,k) == C(i,k) || D(i,k) == 0)){ ok = false; break; }
		if(prob >= 1.0 && !kept) ok = false;
		if(prob <= 0.0 && !dropped) ok = false;
	}
	if(!ok) bad += " !oracle dropout-mask-inconsistent";
	return "NP=0 DROPOUT" + bad;
}
static bool natsFrom(std::vector<std::string> const& t, std::size_t from, std::size_t count, std::vector<std::size_t>& d){ return t.size() == from + count && vh::allNat(t, from, d) && d.size() == count; }

int main(){
	std::string line; bool floatMode = false;
	while(std::getline(std::cin, line)){
		auto secs = sections(line);
		if(secs.size() == 1 && secs[0].size() == 2 && secs[0][0] == "mode"){ floatMode = secs[0][1] == "float"; std::cout << "ok\n"; continue; }
		if(secs.size() == 1 && secs[0].size() == 3 && secs[0][0] == "probe"){ if(secs[0][1] == "gradient-size") g_sizeProbe = secs[0][2] == "1"; if(secs[0][1] == "history") g_history = secs[0][2] == "1"; if(secs[0][1] == "kexp-reconf") g_kexpReconf = secs[0][2] == "1"; std::cout << "ok\n"; continue; }
		std::string out = "bad-op";
		std::vector<double> p, xs, cs, q2; std::vector<std::size_t> d;
		if(secs.size() == 4 && secs[0].size() == 6 && secs[0][0] == "dense" && vh::allNat(secs[0], 2, d) && d.size() == 4 && nums(secs[1], p) && nums(secs[2], xs) && nums(secs[3], cs)){
			std::string act = secs[0][1]; bool hb = d[0] == 1; std::size_t nIn = d[1], nOut = d[2], B = d[3];
			if(p.size() == nOut*nIn + (hb ? nOut : 0) && xs.size() == B*nIn && cs.size() == B*nOut){
				if(act == "linear") out = dense<LinearNeuron>(hb, nIn, nOut, B, p, xs, cs, !floatMode);
				else if(act == "rectifier") out = dense<RectifierNeuron>(hb, nIn, nOut, B, p, xs, cs, !floatMode);
				else if(act == "tanh") out = dense<TanhNeuron>(hb, nIn, nOut, B, p, xs, cs, !floatMode);
				else if(act == "logistic") out = dense<LogisticNeuron>(hb, nIn, nOut, B, p, xs, cs, !floatMode);
				else if(act == "fastsigmoid") out = dense<FastSigmoidNeuron>(hb, nIn, nOut, B, p, xs, cs, !floatMode);
			}
		}else if(secs.size() == 4 && secs[0].size() == 9 && secs[0][0] == "concat" && nums(secs[1], p) && nums(secs[2], xs) && nums(secs[3], cs)){
			std::vector<std::string> const& h = secs[0];
			std::size_t nIn = std::stoul(h[5]), nHid = std::stoul(h[6]), nOut = std::stoul(h[7]), B = std::stoul(h[8]);
			bool h1 = h[2] == "1", h2 = h[4] == "1";
			if(p.size() == nHid*nIn + (h1 ? nHid : 0) + nOut*nHid + (h2 ? nOut : 0) && xs.size() == B*nIn && cs.size() == B*nOut)
				out = concat1(h[1], h[3], h1, h2, nIn, nHid, nOut, B, p, xs, cs);
		}else if(secs.size() == 5 && secs[0].size() == 3 && secs[0][0] == "chain" && nums(secs[2], p) && nums(secs[3], xs) && nums(secs[4], cs)){
			out = chain(std::stoul(secs[0][1]), std::stoul(secs[0][2]), secs[1], p, xs, cs);
		}else if(secs.size() == 3 && secs[0][0] == "normalizer" && natsFrom(secs[0], 1, 3, d) && nums(secs[1], p) && nums(secs[2], xs)){
			if(p.size() == d[1] + (d[0] ? d[1] : 0) && xs.size() == d[2]*d[1]) out = normalizerOp(d[0] == 1, d[1], d[2], p, xs);
		}else if(secs.size() == 4 && secs[0][0] == "classifier" && natsFrom(secs[0], 1, 6, d) && nums(secs[1], p) && nums(secs[2], cs) && nums(secs[3], xs)){
			if(p.size() == d[1]*d[0] + (d[2] ? d[1] : 0) && xs.size() == d[4]*d[0] && cs.size() == (d[3] ? d[1] : 0)) out = classifierOp(d[0], d[1], d[2] == 1, d[3] == 1, d[4], d[5] == 1, p, cs, xs);
		}else if(secs.size() == 2 && secs[0].size() == 2 && secs[0][0] == "argmax" && nums(secs[1], xs)){
			if(xs.size() == std::stoul(secs[0][1]) && !xs.empty()){ RealVector z = toVec(xs); out = "R=" + std::to_string(arg_max(z)); }
		}else if(secs.size() == 3 && secs[0][0] == "pool" && natsFrom(secs[0], 1, 8, d) && nums(secs[1], xs) && nums(secs[2], cs)){
			if(d[3] > 0 && d[4] > 0) out = poolOp(d[0], d[1], d[2], d[3], d[4], d[5], xs, cs, d[6] == 1, d[7] == 1);
		}else if(secs.size() == 3 && secs[0][0] == "resize" && natsFrom(secs[0], 1, 6, d) && nums(secs[1], xs) && nums(secs[2], cs)){
			out = resizeOp(d[0], d[1], d[2], d[3], d[4], d[5], xs, cs);
		}else if(secs.size() == 5 && secs[0][0] == "rbf" && natsFrom(secs[0], 1, 5, d) && nums(secs[1], p) && nums(secs[2], q2) && nums(secs[3], xs) && nums(secs[4], cs)){
			out = rbfOp(d[0], d[1], d[2] == 1, d[3] == 1, d[4], p, q2, xs, cs);
		}else if(secs.size() == 4 && secs[0].size() == 9 && secs[0][0] == "kexp" && vh::allNat(secs[0], 3, d) && d.size() == 6 && nums(secs[1], q2) && nums(secs[2], p) && nums(secs[3], xs)){
			double gamma; if(parseDy(secs[0][2], gamma)) out = kexpOp(secs[0][1], gamma, d[0], d[1], d[2], d[3] == 1, d[4], d[5], q2, p, xs, secs[0][1] == "linear");
		}else if(secs.size() == 4 && secs[0].size() == 7 && secs[0][0] == "ensemble" && vh::allNat(secs[0], 2, d) && d.size() == 5 && nums(secs[1], q2) && nums(secs[2], p) && nums(secs[3], xs)){
			out = ensembleOp(secs[0][1], d[0], d[1], d[2], d[3] == 1, d[4], q2, p, xs);
		}else if(secs.size() == 4 && secs[0].size() == 11 && secs[0][0] == "conv" && vh::allNat(secs[0], 2, d) && d.size() == 9 && nums(secs[1], p) && nums(secs[2], xs) && nums(secs[3], cs)){
			std::string act = secs[0][1];
			if((d[0] != 1 || (d[1] >= d[5] && d[2] >= d[6])) && d[5] >= 1 && d[6] >= 1 && d[3] >= 1 && d[4] >= 1){      // Padding::Valid needs the filter inside the image
				if(act == "linear") out = convOp<LinearNeuron>(d[0] == 1, d[1], d[2], d[3], d[4], d[5], d[6], d[7], p, xs, cs, false, true, d[8] == 1);
				else if(act == "rectifier") out = convOp<RectifierNeuron>(d[0] == 1, d[1], d[2], d[3], d[4], d[5], d[6], d[7], p, xs, cs, true, true, d[8] == 1);
				else if(act == "tanh") out = convOp<TanhNeuron>(d[0] == 1, d[1], d[2], d[3], d[4], d[5], d[6], d[7], p, xs, cs, false, false, d[8] == 1);
				else if(act == "logistic") out = convOp<LogisticNeuron>(d[0] == 1, d[1], d[2], d[3], d[4], d[5], d[6], d[7], p, xs, cs, false, false, d[8] == 1);
			}
		}else if(secs.size() == 5 && secs[0][0] == "cmac" && natsFrom(secs[0], 1, 5, d) && nums(secs[1], q2) && q2.size() == 2 && nums(secs[2], p) && nums(secs[3], xs) && nums(secs[4], cs)){
			if(d[3] >= 2 && d[2] >= 1) out = cmacOp(d[0], d[1], d[2], d[3], d[4], q2[0], q2[1], p, xs, cs);
		}else if(secs.size() == 4 && secs[0].size() == 6 && secs[0][0] == "sparse" && vh::allNat(secs[0], 2, d) && d.size() == 4 && nums(secs[1], p) && nums(secs[2], xs) && nums(secs[3], cs)){
			std::string act = secs[0][1]; bool hb = d[0] == 1;
			if(p.size() == d[2]*d[1] + (hb ? d[2] : 0) && xs.size() == d[3]*d[1] && cs.size() == d[3]*d[2]){
				if(act == "linear") out = sparseOp<LinearNeuron>(hb, d[1], d[2], d[3], p, xs, cs);
				else if(act == "rectifier") out = sparseOp<RectifierNeuron>(hb, d[1], d[2], d[3], p, xs, cs);
				else if(act == "tanh") out = sparseOp<TanhNeuron>(hb, d[1], d[2], d[3], p, xs, cs);
			}
		}else if(secs.size() == 4 && secs[0][0] == "kclass" && natsFrom(secs[0], 1, 5, d) && nums(secs[1], q2) && nums(secs[2], p) && nums(secs[3], xs)){
			out = kclassOp(d[0], d[1], d[2], d[3] == 1, d[4], q2, p, xs);
		}else if(secs.size() == 3 && secs[0][0] == "ovo" && natsFrom(secs[0], 1, 3, d) && nums(secs[1], p) && nums(secs[2], xs)){
			out = ovoOp(d[0], d[1], d[2], p, xs);
		}else if(secs.size() == 3 && secs[0][0] == "cart" && natsFrom(secs[0], 1, 3, d) && nums(secs[2], xs)){
			out = cartOp(d[0], d[1], d[2], secs[1], xs);
		}else if(secs.size() >= 4 && secs[0][0] == "rf" && natsFrom(secs[0], 1, 3, d) && nums(secs[1], q2) && nums(secs.back(), xs)){
			out = rfOp(d[0], d[1], d[2], q2, std::vector<std::vector<std::string> >(secs.begin() + 2, secs.end() - 1), xs);
		}else if(secs.size() == 3 && secs[0][0] == "cluster" && natsFrom(secs[0], 1, 4, d) && nums(secs[1], p) && nums(secs[2], xs)){
			out = clusterOp(d[0], d[1], d[2], d[3], p, xs);
		}else if(secs.size() == 3 && secs[0].size() == 5 && secs[0][0] == "dropout" && vh::allNat(secs[0], 2, d) && d.size() == 3 && nums(secs[1], xs) && nums(secs[2], cs)){
			double prob; if(parseDy(secs[0][1], prob)) out = dropoutOp(prob, d[0], d[1], (unsigned)d[2], xs, cs);
		}else if(secs.size() == 3 && secs[0].size() == 4 && secs[0][0] == "rowact" && nums(secs[1], xs) && nums(secs[2], cs)){
			std::size_t n = std::stoul(secs[0][2]), B = std::stoul(secs[0][3]);
			if(xs.size() == n*B && cs.size() == n*B){
				if(secs[0][1] == "normalizer") out = rowact<NormalizerNeuron<> >(n, B, xs, cs);
				else if(secs[0][1] == "softmax") out = rowact<SoftmaxNeuron<> >(n, B, xs, cs);
			}
		}
		std::cout << out << "\n";
	}
	return 0;
}
