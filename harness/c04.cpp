// K-C04: LinearModel<RealVector, Activation>, ConcatenatedModel of two layers, NeuronLayer with
// normalizer / softmax rows.  Line protocol of lean/Driver/C04.lean.  Independent oracle:
// batch rows == single evaluation, eval with state == eval without, combined derivative call ==
// the two separate calls, parameter round trip, number of parameters.
#include <shark/Models/LinearModel.h>
#include <shark/Models/NeuronLayers.h>
#include <shark/Models/ConcatenatedModel.h>
#include "common.hpp"
#include <memory>
using namespace shark;

static bool parseDy(std::string const& t, double& out){
	std::size_t s = t.find('/');
	try{ long long a = std::stoll(t.substr(0, s)); long long k = (s == std::string::npos) ? 0 : std::stoll(t.substr(s+1)); out = std::ldexp((double)a, -(int)k); return true; }
	catch(...){ return false; }
}
static std::vector<std::vector<std::string> > sections(std::string const& line){
	std::vector<std::vector<std::string> > r(1);
	for(std::string const& w: vh::tokens(line)){ if(w == "|") r.push_back(std::vector<std::string>()); else r.back().push_back(w); }
	return r;
}
static bool nums(std::vector<std::string> const& t, std::vector<double>& o){ o.clear(); for(auto const& w: t){ double x; if(!parseDy(w, x)) return false; o.push_back(x); } return true; }
static std::string showMat(RealMatrix const& g){
	std::string s;
	for(std::size_t i = 0; i != g.size1(); ++i){ if(i) s += ";"; for(std::size_t j = 0; j != g.size2(); ++j){ if(j) s += ","; s += vh::exactDouble(g(i,j)); } }
	return s;
}
static std::string showVec(RealVector const& g){ std::string s; for(std::size_t j = 0; j != g.size(); ++j){ if(j) s += ","; s += vh::exactDouble(g(j)); } return s; }
static RealMatrix toMat(std::vector<double> const& v, std::size_t r, std::size_t c){ RealMatrix m(r, c); for(std::size_t i = 0; i != r; ++i) for(std::size_t j = 0; j != c; ++j) m(i,j) = v[i*c+j]; return m; }
static bool same(RealMatrix const& a, RealMatrix const& b){ if(a.size1() != b.size1() || a.size2() != b.size2()) return false; for(std::size_t i = 0; i != a.size1(); ++i) for(std::size_t j = 0; j != a.size2(); ++j) if(!(a(i,j) == b(i,j)) && !(std::isnan(a(i,j)) && std::isnan(b(i,j)))) return false; return true; }
static bool sameV(RealVector const& a, RealVector const& b){ if(a.size() != b.size()) return false; for(std::size_t i = 0; i != a.size(); ++i) if(!(a(i) == b(i))) return false; return true; }

// everything the property says about one model object, checked on the real code
template<class Model>
std::string oracle(Model& model, RealMatrix const& X, RealMatrix const& C, RealVector const& p, bool exactSingle){
	std::string bad;
	if(model.numberOfParameters() != p.size()) bad += " !oracle number-of-parameters";
	model.setParameterVector(p);
	if(!sameV(model.parameterVector(), p)) bad += " !oracle parameter-roundtrip";
	RealMatrix out; model.eval(X, out);
	boost::shared_ptr<State> st = model.createState();
	RealMatrix outS; model.eval(X, outS, *st);
	if(!same(out, outS)) bad += " !oracle state-changes-output";
	for(std::size_t i = 0; i != X.size1(); ++i){
		RealVector x = row(X, i), o;
		model.eval(x, o);
		bool ok = o.size() == out.size2();
		for(std::size_t k = 0; ok && k != o.size(); ++k){
			if(exactSingle ? !(o(k) == out(i,k)) : !(std::fabs(o(k) - out(i,k)) <= 1e-12 * (1 + std::fabs(o(k))))) ok = false;
		}
		if(!ok){ bad += " !oracle batch-row-differs-from-single"; break; }
		// a batch made of this row alone
		RealMatrix X1(1, X.size2()); noalias(row(X1, 0)) = x; RealMatrix o1; model.eval(X1, o1);
		for(std::size_t k = 0; k != o.size(); ++k) if(!(o1(0,k) == out(i,k))){ bad += " !oracle batch-composition-changes-row"; i = X.size1() - 1; break; }
	}
	RealVector g1, g2; RealMatrix d1, d2;
	model.weightedParameterDerivative(X, outS, C, *st, g1);
	model.weightedInputDerivative(X, outS, C, *st, d1);
	model.weightedDerivatives(X, outS, C, *st, g2, d2);
	if(!sameV(g1, g2) || !same(d1, d2)) bad += " !oracle combined-derivative-differs-from-separate";
	if(g1.size() != model.numberOfParameters()) bad += " !oracle gradient-size";
	return bad;
}

// finite-difference search aid (independent of the Lean model): central differences of the
// coefficient-weighted output sum w.r.t. every input entry and every parameter
template<class Model>
std::string fdOracle(Model& model, RealMatrix const& X, RealMatrix const& C, RealVector const& p){
	std::string bad;
	model.setParameterVector(p);
	boost::shared_ptr<State> st = model.createState();
	RealMatrix out; model.eval(X, out, *st);
	RealVector g; RealMatrix d;
	model.weightedParameterDerivative(X, out, C, *st, g);
	model.weightedInputDerivative(X, out, C, *st, d);
	auto objective = [&](RealMatrix const& XX){ RealMatrix o; model.eval(XX, o); double s = 0; for(std::size_t i = 0; i != o.size1(); ++i) for(std::size_t k = 0; k != o.size2(); ++k) s += C(i,k)*o(i,k); return s; };
	double const h = 1e-5;
	if(d.size1() == X.size1() && d.size2() == X.size2()){
		for(std::size_t i = 0; i != X.size1() && bad.empty(); ++i) for(std::size_t j = 0; j != X.size2(); ++j){
			RealMatrix A = X, B = X; A(i,j) += h; B(i,j) -= h;
			double fd = (objective(A) - objective(B)) / (2*h);
			if(!(std::fabs(fd - d(i,j)) <= 1e-4 * (1 + std::fabs(fd)))){ bad += " !oracle input-derivative-differs-from-finite-differences"; break; }
		}
	}else bad += " !oracle input-derivative-shape";
	for(std::size_t q = 0; q != p.size(); ++q){
		RealVector a = p, b = p; a(q) += h; b(q) -= h;
		model.setParameterVector(a); double fa = objective(X);
		model.setParameterVector(b); double fb = objective(X);
		double fd = (fa - fb) / (2*h);
		if(!(std::fabs(fd - g(q)) <= 1e-4 * (1 + std::fabs(fd)))){ bad += " !oracle parameter-derivative-differs-from-finite-differences"; break; }
	}
	model.setParameterVector(p);
	return bad;
}

typedef AbstractModel<RealVector,RealVector,RealVector> AnyModel;
static AnyModel* makeDense(std::string const& act, std::size_t nIn, std::size_t nOut, bool hb){
	if(act == "linear") return new LinearModel<RealVector, LinearNeuron>(nIn, nOut, hb);
	if(act == "rectifier") return new LinearModel<RealVector, RectifierNeuron>(nIn, nOut, hb);
	if(act == "tanh") return new LinearModel<RealVector, TanhNeuron>(nIn, nOut, hb);
	if(act == "logistic") return new LinearModel<RealVector, LogisticNeuron>(nIn, nOut, hb);
	if(act == "fastsigmoid") return new LinearModel<RealVector, FastSigmoidNeuron>(nIn, nOut, hb);
	return 0;
}
static AnyModel* makeNeuron(std::string const& act, std::size_t n){
	if(act == "linear") return new NeuronLayer<LinearNeuron>(n);
	if(act == "rectifier") return new NeuronLayer<RectifierNeuron>(n);
	if(act == "tanh") return new NeuronLayer<TanhNeuron>(n);
	if(act == "logistic") return new NeuronLayer<LogisticNeuron>(n);
	if(act == "fastsigmoid") return new NeuronLayer<FastSigmoidNeuron>(n);
	if(act == "softmax") return new NeuronLayer<SoftmaxNeuron<> >(n);
	if(act == "normalizer") return new NeuronLayer<NormalizerNeuron<> >(n);
	return 0;
}
// chain B nIn | specs | params (ALL dense layers, optimised or not, in layer order) | X | C
static std::string chain(std::size_t B, std::size_t nIn0, std::vector<std::string> const& specs, std::vector<double> const& p, std::vector<double> const& xs, std::vector<double> const& cs){
	std::vector<std::unique_ptr<AnyModel> > layers; std::vector<bool> opt;
	std::size_t nIn = nIn0, used = 0; bool kinky = false;
	ConcatenatedModel<RealVector> m;
	RealVector optParams;
	for(std::string const& sp: specs){
		std::vector<std::string> f; { std::string cur; for(char ch: sp){ if(ch == ':'){ f.push_back(cur); cur.clear(); } else cur += ch; } f.push_back(cur); }
		if(f[0] == "d" && f.size() == 5){
			bool hb = f[2] == "1"; std::size_t nOut = std::stoul(f[3]); bool o = f[4] == "1";
			AnyModel* l = makeDense(f[1], nIn, nOut, hb); if(!l) return "bad-op";
			std::size_t np = nOut*nIn + (hb ? nOut : 0);
			if(used + np > p.size()) return "bad-op";
			RealVector lp(np); for(std::size_t i = 0; i != np; ++i) lp(i) = p[used+i];
			used += np; l->setParameterVector(lp);
			if(o){ RealVector np2(optParams.size() + np); noalias(subrange(np2, 0, optParams.size())) = optParams; noalias(subrange(np2, optParams.size(), np2.size())) = lp; optParams = np2; }
			layers.emplace_back(l); opt.push_back(o); nIn = nOut;
			if(f[1] == "rectifier" || f[1] == "fastsigmoid") kinky = true;
		}else if((f[0] == "n" || f[0] == "r") && f.size() == 3){
			AnyModel* l = makeNeuron(f[1], nIn); if(!l) return "bad-op";
			layers.emplace_back(l); opt.push_back(f[2] == "1");
			if(f[1] == "rectifier" || f[1] == "fastsigmoid") kinky = true;
		}else return "bad-op";
	}
	if(used != p.size() || xs.size() != B*nIn0 || cs.size() != B*nIn) return "bad-op";
	for(std::size_t i = 0; i != layers.size(); ++i) m.add(layers[i].get(), opt[i]);
	RealMatrix X = toMat(xs, B, nIn0), C = toMat(cs, B, nIn);
	std::string orc = oracle(m, X, C, optParams, true);
	if(!kinky) orc += fdOracle(m, X, C, optParams);
	m.setParameterVector(optParams);
	boost::shared_ptr<State> st = m.createState();
	RealMatrix E; m.eval(X, E, *st);
	RealVector gp, gp2; RealMatrix gx, gx2;
	m.weightedParameterDerivative(X, E, C, *st, gp);
	m.weightedInputDerivative(X, E, C, *st, gx);
	m.weightedDerivatives(X, E, C, *st, gp2, gx2);
	std::ostringstream os;
	os << "NP=" << m.numberOfParameters() << " PV=" << showVec(m.parameterVector()) << " E=" << showMat(E) << " GP=" << showVec(gp) << " GX=" << showMat(gx)
	   << " GP2=" << showVec(gp2) << " GX2=" << showMat(gx2) << orc;
	return os.str();
}

template<class Act>
std::string dense(bool hasB, std::size_t nIn, std::size_t nOut, std::size_t B, std::vector<double> const& p, std::vector<double> const& xs, std::vector<double> const& cs, bool exact){
	LinearModel<RealVector, Act> m(nIn, nOut, hasB);
	RealVector pv(p.size()); for(std::size_t i = 0; i != p.size(); ++i) pv(i) = p[i];
	RealMatrix X = toMat(xs, B, nIn), C = toMat(cs, B, nOut);
	std::string orc = oracle(m, X, C, pv, true);
	m.setParameterVector(pv);
	RealMatrix S(B, nOut);
	for(std::size_t i = 0; i != B; ++i){ RealVector x = row(X, i), o; m.eval(x, o); noalias(row(S, i)) = o; }
	boost::shared_ptr<State> st = m.createState();
	RealMatrix E; m.eval(X, E, *st);
	RealVector gp; RealMatrix gx;
	m.weightedParameterDerivative(X, E, C, *st, gp);
	m.weightedInputDerivative(X, E, C, *st, gx);
	std::ostringstream os;
	os << "NP=" << m.numberOfParameters() << " PV=" << showVec(m.parameterVector()) << " S=" << showMat(S) << " E=" << showMat(E)
	   << " GP=" << showVec(gp) << " GX=" << showMat(gx) << orc;
	return os.str();
}
template<class A1, class A2>
std::string concat(bool h1, bool h2, std::size_t nIn, std::size_t nHid, std::size_t nOut, std::size_t B, std::vector<double> const& p, std::vector<double> const& xs, std::vector<double> const& cs){
	LinearModel<RealVector, A1> f(nIn, nHid, h1); LinearModel<RealVector, A2> g(nHid, nOut, h2);
	ConcatenatedModel<RealVector> m = f >> g;
	RealVector pv(p.size()); for(std::size_t i = 0; i != p.size(); ++i) pv(i) = p[i];
	RealMatrix X = toMat(xs, B, nIn), C = toMat(cs, B, nOut);
	std::string orc = oracle(m, X, C, pv, true);
	m.setParameterVector(pv);
	boost::shared_ptr<State> st = m.createState();
	RealMatrix E; m.eval(X, E, *st);
	RealVector gp; RealMatrix gx;
	m.weightedParameterDerivative(X, E, C, *st, gp);
	m.weightedInputDerivative(X, E, C, *st, gx);
	std::ostringstream os;
	os << "NP=" << m.numberOfParameters() << " PV=" << showVec(m.parameterVector()) << " E=" << showMat(E) << " GP=" << showVec(gp) << " GX=" << showMat(gx) << orc;
	return os.str();
}
template<class Neuron>
std::string rowact(std::size_t n, std::size_t B, std::vector<double> const& zs, std::vector<double> const& ds){
	NeuronLayer<Neuron> m(n);
	RealMatrix Z = toMat(zs, B, n), D = toMat(ds, B, n);
	std::string orc = oracle(m, Z, D, RealVector(), false);
	{ RealVector none; orc += fdOracle(m, Z, D, none); }
	boost::shared_ptr<State> st = m.createState();
	RealMatrix E; m.eval(Z, E, *st);
	RealMatrix der; m.weightedInputDerivative(Z, E, D, *st, der);
	return "E=" + showMat(E) + " D=" + showMat(der) + orc;
}
#define ACT1(NAME, TYPE) if(a1 == NAME) return concat2<TYPE>(a2, h1, h2, nIn, nHid, nOut, B, p, xs, cs);
template<class A1>
std::string concat2(std::string const& a2, bool h1, bool h2, std::size_t nIn, std::size_t nHid, std::size_t nOut, std::size_t B, std::vector<double> const& p, std::vector<double> const& xs, std::vector<double> const& cs){
	if(a2 == "linear") return concat<A1, LinearNeuron>(h1, h2, nIn, nHid, nOut, B, p, xs, cs);
	if(a2 == "rectifier") return concat<A1, RectifierNeuron>(h1, h2, nIn, nHid, nOut, B, p, xs, cs);
	if(a2 == "tanh") return concat<A1, TanhNeuron>(h1, h2, nIn, nHid, nOut, B, p, xs, cs);
	if(a2 == "logistic") return concat<A1, LogisticNeuron>(h1, h2, nIn, nHid, nOut, B, p, xs, cs);
	if(a2 == "fastsigmoid") return concat<A1, FastSigmoidNeuron>(h1, h2, nIn, nHid, nOut, B, p, xs, cs);
	return "bad-op";
}
static std::string concat1(std::string const& a1, std::string const& a2, bool h1, bool h2, std::size_t nIn, std::size_t nHid, std::size_t nOut, std::size_t B, std::vector<double> const& p, std::vector<double> const& xs, std::vector<double> const& cs){
	ACT1("linear", LinearNeuron) ACT1("rectifier", RectifierNeuron) ACT1("tanh", TanhNeuron) ACT1("logistic", LogisticNeuron) ACT1("fastsigmoid", FastSigmoidNeuron)
	return "bad-op";
}

int main(){
	std::string line; bool floatMode = false;
	while(std::getline(std::cin, line)){
		auto secs = sections(line);
		if(secs.size() == 1 && secs[0].size() == 2 && secs[0][0] == "mode"){ floatMode = secs[0][1] == "float"; std::cout << "ok\n"; continue; }
		std::string out = "bad-op";
		std::vector<double> p, xs, cs; std::vector<std::size_t> d;
		if(secs.size() == 4 && secs[0].size() == 6 && secs[0][0] == "dense" && vh::allNat(secs[0], 2, d) && d.size() == 4 && nums(secs[1], p) && nums(secs[2], xs) && nums(secs[3], cs)){
			std::string act = secs[0][1]; bool hb = d[0] == 1; std::size_t nIn = d[1], nOut = d[2], B = d[3];
			if(p.size() == nOut*nIn + (hb ? nOut : 0) && xs.size() == B*nIn && cs.size() == B*nOut){
				if(act == "linear") out = dense<LinearNeuron>(hb, nIn, nOut, B, p, xs, cs, !floatMode);
				else if(act == "rectifier") out = dense<RectifierNeuron>(hb, nIn, nOut, B, p, xs, cs, !floatMode);
				else if(act == "tanh") out = dense<TanhNeuron>(hb, nIn, nOut, B, p, xs, cs, !floatMode);
				else if(act == "logistic") out = dense<LogisticNeuron>(hb, nIn, nOut, B, p, xs, cs, !floatMode);
				else if(act == "fastsigmoid") out = dense<FastSigmoidNeuron>(hb, nIn, nOut, B, p, xs, cs, !floatMode);
			}
		}else if(secs.size() == 4 && secs[0].size() == 9 && secs[0][0] == "concat" && nums(secs[1], p) && nums(secs[2], xs) && nums(secs[3], cs)){
			std::vector<std::string> const& h = secs[0];
			std::size_t nIn = std::stoul(h[5]), nHid = std::stoul(h[6]), nOut = std::stoul(h[7]), B = std::stoul(h[8]);
			bool h1 = h[2] == "1", h2 = h[4] == "1";
			if(p.size() == nHid*nIn + (h1 ? nHid : 0) + nOut*nHid + (h2 ? nOut : 0) && xs.size() == B*nIn && cs.size() == B*nOut)
				out = concat1(h[1], h[3], h1, h2, nIn, nHid, nOut, B, p, xs, cs);
		}else if(secs.size() == 5 && secs[0].size() == 3 && secs[0][0] == "chain" && nums(secs[2], p) && nums(secs[3], xs) && nums(secs[4], cs)){
			out = chain(std::stoul(secs[0][1]), std::stoul(secs[0][2]), secs[1], p, xs, cs);
		}else if(secs.size() == 3 && secs[0].size() == 4 && secs[0][0] == "rowact" && nums(secs[1], xs) && nums(secs[2], cs)){
			std::size_t n = std::stoul(secs[0][2]), B = std::stoul(secs[0][3]);
			if(xs.size() == n*B && cs.size() == n*B){
				if(secs[0][1] == "normalizer") out = rowact<NormalizerNeuron<> >(n, B, xs, cs);
				else if(secs[0][1] == "softmax") out = rowact<SoftmaxNeuron<> >(n, B, xs, cs);
			}
		}
		std::cout << out << "\n";
	}
	return 0;
}
