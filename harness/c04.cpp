// K-C04: LinearModel<RealVector, Activation>, ConcatenatedModel of two layers, NeuronLayer with
// normalizer / softmax rows.  Line protocol of lean/Driver/C04.lean.  Independent oracle:
// batch rows == single evaluation, eval with state == eval without, combined derivative call ==
// the two separate calls, parameter round trip, number of parameters.
#include <shark/Models/LinearModel.h>
#include <shark/Models/NeuronLayers.h>
#include <shark/Models/ConcatenatedModel.h>
#include "common.hpp"
using namespace shark;

static bool parseDy(std::string const& t, double& out){
	std::size_t s = t.find('/');
	try{ long long a = std::stoll(t.substr(0, s)); long long k = (s == std::string::npos) ? 0 : std::stoll(t.substr(s+1)); out = std::ldexp((double)a, -(int)k); return true; }
	catch(...){ return false; }
}
static std::vector<std::vector<std::string> > sections(std::string const& line){
	std::vector<std::vector<std::string> > r(1);
	for(std::string const& w: vh::tokens(line)){ if(w == "|") r.push_back(std::vector<std::string>()); else r.back().push_back(w); }
	return r;
}
static bool nums(std::vector<std::string> const& t, std::vector<double>& o){ o.clear(); for(auto const& w: t){ double x; if(!parseDy(w, x)) return false; o.push_back(x); } return true; }
static std::string showMat(RealMatrix const& g){
	std::string s;
	for(std::size_t i = 0; i != g.size1(); ++i){ if(i) s += ";"; for(std::size_t j = 0; j != g.size2(); ++j){ if(j) s += ","; s += vh::exactDouble(g(i,j)); } }
	return s;
}
static std::string showVec(RealVector const& g){ std::string s; for(std::size_t j = 0; j != g.size(); ++j){ if(j) s += ","; s += vh::exactDouble(g(j)); } return s; }
static RealMatrix toMat(std::vector<double> const& v, std::size_t r, std::size_t c){ RealMatrix m(r, c); for(std::size_t i = 0; i != r; ++i) for(std::size_t j = 0; j != c; ++j) m(i,j) = v[i*c+j]; return m; }
static bool same(RealMatrix const& a, RealMatrix const& b){ if(a.size1() != b.size1() || a.size2() != b.size2()) return false; for(std::size_t i = 0; i != a.size1(); ++i) for(std::size_t j = 0; j != a.size2(); ++j) if(!(a(i,j) == b(i,j)) && !(std::isnan(a(i,j)) && std::isnan(b(i,j)))) return false; return true; }
static bool sameV(RealVector const& a, RealVector const& b){ if(a.size() != b.size()) return false; for(std::size_t i = 0; i != a.size(); ++i) if(!(a(i) == b(i))) return false; return true; }

// everything the property says about one model object, checked on the real code
template<class Model>
std::string oracle(Model& model, RealMatrix const& X, RealMatrix const& C, RealVector const& p, bool exactSingle){
	std::string bad;
	if(model.numberOfParameters() != p.size()) bad += " !oracle number-of-parameters";
	model.setParameterVector(p);
	if(!sameV(model.parameterVector(), p)) bad += " !oracle parameter-roundtrip";
	RealMatrix out; model.eval(X, out);
	boost::shared_ptr<State> st = model.createState();
	RealMatrix outS; model.eval(X, outS, *st);
	if(!same(out, outS)) bad += " !oracle state-changes-output";
	for(std::size_t i = 0; i != X.size1(); ++i){
		RealVector x = row(X, i), o;
		model.eval(x, o);
		bool ok = o.size() == out.size2();
		for(std::size_t k = 0; ok && k != o.size(); ++k){
			if(exactSingle ? !(o(k) == out(i,k)) : !(std::fabs(o(k) - out(i,k)) <= 1e-12 * (1 + std::fabs(o(k))))) ok = false;
		}
		if(!ok){ bad += " !oracle batch-row-differs-from-single"; break; }
		// a batch made of this row alone
		RealMatrix X1(1, X.size2()); noalias(row(X1, 0)) = x; RealMatrix o1; model.eval(X1, o1);
		for(std::size_t k = 0; k != o.size(); ++k) if(!(o1(0,k) == out(i,k))){ bad += " !oracle batch-composition-changes-row"; i = X.size1() - 1; break; }
	}
	RealVector g1, g2; RealMatrix d1, d2;
	model.weightedParameterDerivative(X, outS, C, *st, g1);
	model.weightedInputDerivative(X, outS, C, *st, d1);
	model.weightedDerivatives(X, outS, C, *st, g2, d2);
	if(!sameV(g1, g2) || !same(d1, d2)) bad += " !oracle combined-derivative-differs-from-separate";
	if(g1.size() != model.numberOfParameters()) bad += " !oracle gradient-size";
	return bad;
}

template<class Act>
std::string dense(bool hasB, std::size_t nIn, std::size_t nOut, std::size_t B, std::vector<double> const& p, std::vector<double> const& xs, std::vector<double> const& cs, bool exact){
	LinearModel<RealVector, Act> m(nIn, nOut, hasB);
	RealVector pv(p.size()); for(std::size_t i = 0; i != p.size(); ++i) pv(i) = p[i];
	RealMatrix X = toMat(xs, B, nIn), C = toMat(cs, B, nOut);
	std::string orc = oracle(m, X, C, pv, true);
	m.setParameterVector(pv);
	RealMatrix S(B, nOut);
	for(std::size_t i = 0; i != B; ++i){ RealVector x = row(X, i), o; m.eval(x, o); noalias(row(S, i)) = o; }
	boost::shared_ptr<State> st = m.createState();
	RealMatrix E; m.eval(X, E, *st);
	RealVector gp; RealMatrix gx;
	m.weightedParameterDerivative(X, E, C, *st, gp);
	m.weightedInputDerivative(X, E, C, *st, gx);
	std::ostringstream os;
	os << "NP=" << m.numberOfParameters() << " PV=" << showVec(m.parameterVector()) << " S=" << showMat(S) << " E=" << showMat(E)
	   << " GP=" << showVec(gp) << " GX=" << showMat(gx) << orc;
	return os.str();
}
template<class A1, class A2>
std::string concat(bool h1, bool h2, std::size_t nIn, std::size_t nHid, std::size_t nOut, std::size_t B, std::vector<double> const& p, std::vector<double> const& xs, std::vector<double> const& cs){
	LinearModel<RealVector, A1> f(nIn, nHid, h1); LinearModel<RealVector, A2> g(nHid, nOut, h2);
	ConcatenatedModel<RealVector> m = f >> g;
	RealVector pv(p.size()); for(std::size_t i = 0; i != p.size(); ++i) pv(i) = p[i];
	RealMatrix X = toMat(xs, B, nIn), C = toMat(cs, B, nOut);
	std::string orc = oracle(m, X, C, pv, true);
	m.setParameterVector(pv);
	boost::shared_ptr<State> st = m.createState();
	RealMatrix E; m.eval(X, E, *st);
	RealVector gp; RealMatrix gx;
	m.weightedParameterDerivative(X, E, C, *st, gp);
	m.weightedInputDerivative(X, E, C, *st, gx);
	std::ostringstream os;
	os << "NP=" << m.numberOfParameters() << " PV=" << showVec(m.parameterVector()) << " E=" << showMat(E) << " GP=" << showVec(gp) << " GX=" << showMat(gx) << orc;
	return os.str();
}
template<class Neuron>
std::string rowact(std::size_t n, std::size_t B, std::vector<double> const& zs, std::vector<double> const& ds){
	NeuronLayer<Neuron> m(n);
	RealMatrix Z = toMat(zs, B, n), D = toMat(ds, B, n);
	std::string orc = oracle(m, Z, D, RealVector(), false);
	boost::shared_ptr<State> st = m.createState();
	RealMatrix E; m.eval(Z, E, *st);
	RealMatrix der; m.weightedInputDerivative(Z, E, D, *st, der);
	return "E=" + showMat(E) + " D=" + showMat(der) + orc;
}
#define ACT1(NAME, TYPE) if(a1 == NAME) return concat2<TYPE>(a2, h1, h2, nIn, nHid, nOut, B, p, xs, cs);
template<class A1>
std::string concat2(std::string const& a2, bool h1, bool h2, std::size_t nIn, std::size_t nHid, std::size_t nOut, std::size_t B, std::vector<double> const& p, std::vector<double> const& xs, std::vector<double> const& cs){
	if(a2 == "linear") return concat<A1, LinearNeuron>(h1, h2, nIn, nHid, nOut, B, p, xs, cs);
	if(a2 == "rectifier") return concat<A1, RectifierNeuron>(h1, h2, nIn, nHid, nOut, B, p, xs, cs);
	if(a2 == "tanh") return concat<A1, TanhNeuron>(h1, h2, nIn, nHid, nOut, B, p, xs, cs);
	if(a2 == "logistic") return concat<A1, LogisticNeuron>(h1, h2, nIn, nHid, nOut, B, p, xs, cs);
	if(a2 == "fastsigmoid") return concat<A1, FastSigmoidNeuron>(h1, h2, nIn, nHid, nOut, B, p, xs, cs);
	return "bad-op";
}
static std::string concat1(std::string const& a1, std::string const& a2, bool h1, bool h2, std::size_t nIn, std::size_t nHid, std::size_t nOut, std::size_t B, std::vector<double> const& p, std::vector<double> const& xs, std::vector<double> const& cs){
	ACT1("linear", LinearNeuron) ACT1("rectifier", RectifierNeuron) ACT1("tanh", TanhNeuron) ACT1("logistic", LogisticNeuron) ACT1("fastsigmoid", FastSigmoidNeuron)
	return "bad-op";
}

int main(){
	std::string line; bool floatMode = false;
	while(std::getline(std::cin, line)){
		auto secs = sections(line);
		if(secs.size() == 1 && secs[0].size() == 2 && secs[0][0] == "mode"){ floatMode = secs[0][1] == "float"; std::cout << "ok\n"; continue; }
		std::string out = "bad-op";
		std::vector<double> p, xs, cs; std::vector<std::size_t> d;
		if(secs.size() == 4 && secs[0].size() == 6 && secs[0][0] == "dense" && vh::allNat(secs[0], 2, d) && d.size() == 4 && nums(secs[1], p) && nums(secs[2], xs) && nums(secs[3], cs)){
			std::string act = secs[0][1]; bool hb = d[0] == 1; std::size_t nIn = d[1], nOut = d[2], B = d[3];
			if(p.size() == nOut*nIn + (hb ? nOut : 0) && xs.size() == B*nIn && cs.size() == B*nOut){
				if(act == "linear") out = dense<LinearNeuron>(hb, nIn, nOut, B, p, xs, cs, !floatMode);
				else if(act == "rectifier") out = dense<RectifierNeuron>(hb, nIn, nOut, B, p, xs, cs, !floatMode);
				else if(act == "tanh") out = dense<TanhNeuron>(hb, nIn, nOut, B, p, xs, cs, !floatMode);
				else if(act == "logistic") out = dense<LogisticNeuron>(hb, nIn, nOut, B, p, xs, cs, !floatMode);
				else if(act == "fastsigmoid") out = dense<FastSigmoidNeuron>(hb, nIn, nOut, B, p, xs, cs, !floatMode);
			}
		}else if(secs.size() == 4 && secs[0].size() == 9 && secs[0][0] == "concat" && nums(secs[1], p) && nums(secs[2], xs) && nums(secs[3], cs)){
			std::vector<std::string> const& h = secs[0];
			std::size_t nIn = std::stoul(h[5]), nHid = std::stoul(h[6]), nOut = std::stoul(h[7]), B = std::stoul(h[8]);
			bool h1 = h[2] == "1", h2 = h[4] == "1";
			if(p.size() == nHid*nIn + (h1 ? nHid : 0) + nOut*nHid + (h2 ? nOut : 0) && xs.size() == B*nIn && cs.size() == B*nOut)
				out = concat1(h[1], h[3], h1, h2, nIn, nHid, nOut, B, p, xs, cs);
		}else if(secs.size() == 3 && secs[0].size() == 4 && secs[0][0] == "rowact" && nums(secs[1], xs) && nums(secs[2], cs)){
			std::size_t n = std::stoul(secs[0][2]), B = std::stoul(secs[0][3]);
			if(xs.size() == n*B && cs.size() == n*B){
				if(secs[0][1] == "normalizer") out = rowact<NormalizerNeuron<> >(n, B, xs, cs);
				else if(secs[0][1] == "softmax") out = rowact<SoftmaxNeuron<> >(n, B, xs, cs);
			}
		}
		std::cout << out << "\n";
	}
	return 0;
}
