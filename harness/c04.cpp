// K-C04: LinearModel<RealVector, Activation>, ConcatenatedModel of two layers, NeuronLayer with
// normalizer / softmax rows.  Line protocol of lean/Driver/C04.lean.  Independent oracle:
// batch rows == single evaluation, eval with state == eval without, combined derivative call ==
// the two separate calls, parameter round trip, number of parameters.
#include <shark/Models/LinearModel.h>
#include <shark/Models/NeuronLayers.h>
#include <shark/Models/ConcatenatedModel.h>
#include <shark/Models/Normalizer.h>
#include <shark/Models/Classifier.h>
#include <shark/Models/PoolingLayer.h>
#include <shark/Models/ResizeLayer.h>
#include <shark/Models/RBFLayer.h>
#include <shark/Models/CMAC.h>
#include <shark/Models/ConvolutionalModel.h>
#include <shark/Models/Ensemble.h>
#include <shark/Models/Kernels/KernelExpansion.h>
#include <shark/Models/Kernels/LinearKernel.h>
#include <shark/Models/Kernels/GaussianRbfKernel.h>
#include "common.hpp"
#include <memory>
using namespace shark;

static bool parseDy(std::string const& t, double& out){
	std::size_t s = t.find('/');
	try{ long long a = std::stoll(t.substr(0, s)); long long k = (s == std::string::npos) ? 0 : std::stoll(t.substr(s+1)); out = std::ldexp((double)a, -(int)k); return true; }
	catch(...){ return false; }
}
static std::vector<std::vector<std::string> > sections(std::string const& line){
	std::vector<std::vector<std::string> > r(1);
	for(std::string const& w: vh::tokens(line)){ if(w == "|") r.push_back(std::vector<std::string>()); else r.back().push_back(w); }
	return r;
}
static bool nums(std::vector<std::string> const& t, std::vector<double>& o){ o.clear(); for(auto const& w: t){ double x; if(!parseDy(w, x)) return false; o.push_back(x); } return true; }
static std::string showMat(RealMatrix const& g){
	std::string s;
	for(std::size_t i = 0; i != g.size1(); ++i){ if(i) s += ";"; for(std::size_t j = 0; j != g.size2(); ++j){ if(j) s += ","; s += vh::exactDouble(g(i,j)); } }
	return s;
}
static std::string showVec(RealVector const& g){ std::string s; for(std::size_t j = 0; j != g.size(); ++j){ if(j) s += ","; s += vh::exactDouble(g(j)); } return s; }
static RealMatrix toMat(std::vector<double> const& v, std::size_t r, std::size_t c){ RealMatrix m(r, c); for(std::size_t i = 0; i != r; ++i) for(std::size_t j = 0; j != c; ++j) m(i,j) = v[i*c+j]; return m; }
static bool same(RealMatrix const& a, RealMatrix const& b){ if(a.size1() != b.size1() || a.size2() != b.size2()) return false; for(std::size_t i = 0; i != a.size1(); ++i) for(std::size_t j = 0; j != a.size2(); ++j) if(!(a(i,j) == b(i,j)) && !(std::isnan(a(i,j)) && std::isnan(b(i,j)))) return false; return true; }
static bool sameV(RealVector const& a, RealVector const& b){ if(a.size() != b.size()) return false; for(std::size_t i = 0; i != a.size(); ++i) if(!(a(i) == b(i))) return false; return true; }

// `probe gradient-size 0` switches the check `gradient.size() == numberOfParameters()` for a non-empty result object off
// (finding F-C04-5: parameter-less layers leave the gradient untouched)
static bool g_sizeProbe = true;
// everything the property says about one model object, checked on the real code
template<class Model>
std::string oracle(Model& model, RealMatrix const& X, RealMatrix const& C, RealVector const& p, bool exactSingle, bool withDeriv = true, bool inputDeriv = true, double ptol = 0.0, bool bufferProbe = true){
	std::string bad;
	if(model.numberOfParameters() != p.size()) bad += " !oracle number-of-parameters";
	model.setParameterVector(p);
	{ RealVector q = model.parameterVector(); bool ok = q.size() == p.size();
	  for(std::size_t i = 0; ok && i != p.size(); ++i) if(!(std::fabs(q(i) - p(i)) <= ptol * (1 + std::fabs(p(i))))) ok = false;
	  if(!ok) bad += " !oracle parameter-roundtrip"; }
	RealMatrix out; model.eval(X, out);
	boost::shared_ptr<State> st = model.createState();
	RealMatrix outS; model.eval(X, outS, *st);
	if(!same(out, outS)) bad += " !oracle state-changes-output";
	for(std::size_t i = 0; i != X.size1(); ++i){
		RealVector x = row(X, i), o;
		model.eval(x, o);
		bool ok = o.size() == out.size2();
		for(std::size_t k = 0; ok && k != o.size(); ++k){
			if(exactSingle ? !(o(k) == out(i,k)) : !(std::fabs(o(k) - out(i,k)) <= 1e-12 * (1 + std::fabs(o(k))))) ok = false;
		}
		if(!ok){ bad += " !oracle batch-row-differs-from-single"; break; }
		// a batch made of this row alone
		RealMatrix X1(1, X.size2()); noalias(row(X1, 0)) = x; RealMatrix o1; model.eval(X1, o1);
		for(std::size_t k = 0; k != o.size(); ++k) if(!(o1(0,k) == out(i,k))){ bad += " !oracle batch-composition-changes-row"; i = X.size1() - 1; break; }
	}
	if(!withDeriv) return bad;
	RealVector g1, g2; RealMatrix d1, d2;
	model.weightedParameterDerivative(X, outS, C, *st, g1);
	if(inputDeriv){
		model.weightedInputDerivative(X, outS, C, *st, d1);
		model.weightedDerivatives(X, outS, C, *st, g2, d2);
		if(!sameV(g1, g2) || !same(d1, d2)) bad += " !oracle combined-derivative-differs-from-separate";
		// the result objects are outputs: their previous content must not matter
		RealMatrix d3(d1.size1(), d1.size2(), 1.0);
		if(bufferProbe) model.weightedInputDerivative(X, outS, C, *st, d3); else d3 = d1;
		if(!same(d1, d3)) bad += " !oracle input-derivative-depends-on-previous-buffer-content";
	}
	RealVector g3(g1.size(), 1.0);
	model.weightedParameterDerivative(X, outS, C, *st, g3);
	if(!sameV(g1, g3)) bad += " !oracle parameter-derivative-depends-on-previous-buffer-content";
	// ... nor its previous size
	RealVector g4(model.numberOfParameters() + 2, 1.0);
	if(g_sizeProbe) model.weightedParameterDerivative(X, outS, C, *st, g4); else g4 = g1;
	if(g4.size() != model.numberOfParameters()) bad += " !oracle gradient-not-resized";
	if(g1.size() != model.numberOfParameters()) bad += " !oracle gradient-size";
	return bad;
}

// finite-difference search aid (independent of the Lean model): central differences of the
// coefficient-weighted output sum w.r.t. every input entry and every parameter
template<class Model>
std::string fdOracle(Model& model, RealMatrix const& X, RealMatrix const& C, RealVector const& p, bool inputDeriv = true){
	std::string bad;
	model.setParameterVector(p);
	boost::shared_ptr<State> st = model.createState();
	RealMatrix out; model.eval(X, out, *st);
	RealVector g; RealMatrix d;
	model.weightedParameterDerivative(X, out, C, *st, g);
	if(inputDeriv) model.weightedInputDerivative(X, out, C, *st, d);
	auto objective = [&](RealMatrix const& XX){ RealMatrix o; model.eval(XX, o); double s = 0; for(std::size_t i = 0; i != o.size1(); ++i) for(std::size_t k = 0; k != o.size2(); ++k) s += C(i,k)*o(i,k); return s; };
	double const h = 1e-5;
	if(!inputDeriv){}
	else if(d.size1() == X.size1() && d.size2() == X.size2()){
		for(std::size_t i = 0; i != X.size1() && bad.empty(); ++i) for(std::size_t j = 0; j != X.size2(); ++j){
			RealMatrix A = X, B = X; A(i,j) += h; B(i,j) -= h;
			double fd = (objective(A) - objective(B)) / (2*h);
			if(!(std::fabs(fd - d(i,j)) <= 1e-4 * (1 + std::fabs(fd)))){ bad += " !oracle input-derivative-differs-from-finite-differences"; break; }
		}
	}else bad += " !oracle input-derivative-shape";
	for(std::size_t q = 0; q != p.size(); ++q){
		RealVector a = p, b = p; a(q) += h; b(q) -= h;
		model.setParameterVector(a); double fa = objective(X);
		model.setParameterVector(b); double fb = objective(X);
		double fd = (fa - fb) / (2*h);
		if(!(std::fabs(fd - g(q)) <= 1e-4 * (1 + std::fabs(fd)))){ bad += " !oracle parameter-derivative-differs-from-finite-differences"; break; }
	}
	model.setParameterVector(p);
	return bad;
}

typedef AbstractModel<RealVector,RealVector,RealVector> AnyModel;
static AnyModel* makeDense(std::string const& act, std::size_t nIn, std::size_t nOut, bool hb){
	if(act == "linear") return new LinearModel<RealVector, LinearNeuron>(nIn, nOut, hb);
	if(act == "rectifier") return new LinearModel<RealVector, RectifierNeuron>(nIn, nOut, hb);
	if(act == "tanh") return new LinearModel<RealVector, TanhNeuron>(nIn, nOut, hb);
	if(act == "logistic") return new LinearModel<RealVector, LogisticNeuron>(nIn, nOut, hb);
	if(act == "fastsigmoid") return new LinearModel<RealVector, FastSigmoidNeuron>(nIn, nOut, hb);
	return 0;
}
static AnyModel* makeNeuron(std::string const& act, std::size_t n){
	if(act == "linear") return new NeuronLayer<LinearNeuron>(n);
	if(act == "rectifier") return new NeuronLayer<RectifierNeuron>(n);
	if(act == "tanh") return new NeuronLayer<TanhNeuron>(n);
	if(act == "logistic") return new NeuronLayer<LogisticNeuron>(n);
	if(act == "fastsigmoid") return new NeuronLayer<FastSigmoidNeuron>(n);
	if(act == "softmax") return new NeuronLayer<SoftmaxNeuron<> >(n);
	if(act == "normalizer") return new NeuronLayer<NormalizerNeuron<> >(n);
	return 0;
}
// chain B nIn | specs | params (ALL dense layers, optimised or not, in layer order) | X | C
static std::string chain(std::size_t B, std::size_t nIn0, std::vector<std::string> const& specs, std::vector<double> const& p, std::vector<double> const& xs, std::vector<double> const& cs){
	std::vector<std::unique_ptr<AnyModel> > layers; std::vector<bool> opt;
	std::size_t nIn = nIn0, used = 0; bool kinky = false;
	ConcatenatedModel<RealVector> m;
	RealVector optParams;
	for(std::string const& sp: specs){
		std::vector<std::string> f; { std::string cur; for(char ch: sp){ if(ch == ':'){ f.push_back(cur); cur.clear(); } else cur += ch; } f.push_back(cur); }
		if(f[0] == "d" && f.size() == 5){
			bool hb = f[2] == "1"; std::size_t nOut = std::stoul(f[3]); bool o = f[4] == "1";
			AnyModel* l = makeDense(f[1], nIn, nOut, hb); if(!l) return "bad-op";
			std::size_t np = nOut*nIn + (hb ? nOut : 0);
			if(used + np > p.size()) return "bad-op";
			RealVector lp(np); for(std::size_t i = 0; i != np; ++i) lp(i) = p[used+i];
			used += np; l->setParameterVector(lp);
			if(o){ RealVector np2(optParams.size() + np); noalias(subrange(np2, 0, optParams.size())) = optParams; noalias(subrange(np2, optParams.size(), np2.size())) = lp; optParams = np2; }
			layers.emplace_back(l); opt.push_back(o); nIn = nOut;
			if(f[1] == "rectifier" || f[1] == "fastsigmoid") kinky = true;
		}else if((f[0] == "n" || f[0] == "r") && f.size() == 3){
			AnyModel* l = makeNeuron(f[1], nIn); if(!l) return "bad-op";
			layers.emplace_back(l); opt.push_back(f[2] == "1");
			if(f[1] == "rectifier" || f[1] == "fastsigmoid") kinky = true;
		}else return "bad-op";
	}
	if(used != p.size() || xs.size() != B*nIn0 || cs.size() != B*nIn) return "bad-op";
	for(std::size_t i = 0; i != layers.size(); ++i) m.add(layers[i].get(), opt[i]);
	RealMatrix X = toMat(xs, B, nIn0), C = toMat(cs, B, nIn);
	std::string orc = oracle(m, X, C, optParams, true);
	if(!kinky) orc += fdOracle(m, X, C, optParams);
	m.setParameterVector(optParams);
	boost::shared_ptr<State> st = m.createState();
	RealMatrix E; m.eval(X, E, *st);
	RealVector gp, gp2; RealMatrix gx, gx2;
	m.weightedParameterDerivative(X, E, C, *st, gp);
	m.weightedInputDerivative(X, E, C, *st, gx);
	m.weightedDerivatives(X, E, C, *st, gp2, gx2);
	std::ostringstream os;
	os << "NP=" << m.numberOfParameters() << " PV=" << showVec(m.parameterVector()) << " E=" << showMat(E) << " GP=" << showVec(gp) << " GX=" << showMat(gx)
	   << " GP2=" << showVec(gp2) << " GX2=" << showMat(gx2) << orc;
	return os.str();
}

template<class Act>
std::string dense(bool hasB, std::size_t nIn, std::size_t nOut, std::size_t B, std::vector<double> const& p, std::vector<double> const& xs, std::vector<double> const& cs, bool exact){
	LinearModel<RealVector, Act> m(nIn, nOut, hasB);
	RealVector pv(p.size()); for(std::size_t i = 0; i != p.size(); ++i) pv(i) = p[i];
	RealMatrix X = toMat(xs, B, nIn), C = toMat(cs, B, nOut);
	std::string orc = oracle(m, X, C, pv, true);
	m.setParameterVector(pv);
	RealMatrix S(B, nOut);
	for(std::size_t i = 0; i != B; ++i){ RealVector x = row(X, i), o; m.eval(x, o); noalias(row(S, i)) = o; }
	boost::shared_ptr<State> st = m.createState();
	RealMatrix E; m.eval(X, E, *st);
	RealVector gp; RealMatrix gx;
	m.weightedParameterDerivative(X, E, C, *st, gp);
	m.weightedInputDerivative(X, E, C, *st, gx);
	std::ostringstream os;
	os << "NP=" << m.numberOfParameters() << " PV=" << showVec(m.parameterVector()) << " S=" << showMat(S) << " E=" << showMat(E)
	   << " GP=" << showVec(gp) << " GX=" << showMat(gx) << orc;
	return os.str();
}
template<class A1, class A2>
std::string concat(bool h1, bool h2, std::size_t nIn, std::size_t nHid, std::size_t nOut, std::size_t B, std::vector<double> const& p, std::vector<double> const& xs, std::vector<double> const& cs){
	LinearModel<RealVector, A1> f(nIn, nHid, h1); LinearModel<RealVector, A2> g(nHid, nOut, h2);
	ConcatenatedModel<RealVector> m = f >> g;
	RealVector pv(p.size()); for(std::size_t i = 0; i != p.size(); ++i) pv(i) = p[i];
	RealMatrix X = toMat(xs, B, nIn), C = toMat(cs, B, nOut);
	std::string orc = oracle(m, X, C, pv, true);
	m.setParameterVector(pv);
	boost::shared_ptr<State> st = m.createState();
	RealMatrix E; m.eval(X, E, *st);
	RealVector gp; RealMatrix gx;
	m.weightedParameterDerivative(X, E, C, *st, gp);
	m.weightedInputDerivative(X, E, C, *st, gx);
	std::ostringstream os;
	os << "NP=" << m.numberOfParameters() << " PV=" << showVec(m.parameterVector()) << " E=" << showMat(E) << " GP=" << showVec(gp) << " GX=" << showMat(gx) << orc;
	return os.str();
}
template<class Neuron>
std::string rowact(std::size_t n, std::size_t B, std::vector<double> const& zs, std::vector<double> const& ds){
	NeuronLayer<Neuron> m(n);
	RealMatrix Z = toMat(zs, B, n), D = toMat(ds, B, n);
	std::string orc = oracle(m, Z, D, RealVector(), false);
	{ RealVector none; orc += fdOracle(m, Z, D, none); }
	boost::shared_ptr<State> st = m.createState();
	RealMatrix E; m.eval(Z, E, *st);
	RealMatrix der; m.weightedInputDerivative(Z, E, D, *st, der);
	return "E=" + showMat(E) + " D=" + showMat(der) + orc;
}
#define ACT1(NAME, TYPE) if(a1 == NAME) return concat2<TYPE>(a2, h1, h2, nIn, nHid, nOut, B, p, xs, cs);
template<class A1>
std::string concat2(std::string const& a2, bool h1, bool h2, std::size_t nIn, std::size_t nHid, std::size_t nOut, std::size_t B, std::vector<double> const& p, std::vector<double> const& xs, std::vector<double> const& cs){
	if(a2 == "linear") return concat<A1, LinearNeuron>(h1, h2, nIn, nHid, nOut, B, p, xs, cs);
	if(a2 == "rectifier") return concat<A1, RectifierNeuron>(h1, h2, nIn, nHid, nOut, B, p, xs, cs);
	if(a2 == "tanh") return concat<A1, TanhNeuron>(h1, h2, nIn, nHid, nOut, B, p, xs, cs);
	if(a2 == "logistic") return concat<A1, LogisticNeuron>(h1, h2, nIn, nHid, nOut, B, p, xs, cs);
	if(a2 == "fastsigmoid") return concat<A1, FastSigmoidNeuron>(h1, h2, nIn, nHid, nOut, B, p, xs, cs);
	return "bad-op";
}
static std::string concat1(std::string const& a1, std::string const& a2, bool h1, bool h2, std::size_t nIn, std::size_t nHid, std::size_t nOut, std::size_t B, std::vector<double> const& p, std::vector<double> const& xs, std::vector<double> const& cs){
	ACT1("linear", LinearNeuron) ACT1("rectifier", RectifierNeuron) ACT1("tanh", TanhNeuron) ACT1("logistic", LogisticNeuron) ACT1("fastsigmoid", FastSigmoidNeuron)
	return "bad-op";
}

// ---------------------------------------------------------------------------------------------
// further model types: Normalizer, Classifier, PoolingLayer, ResizeLayer, RBFLayer, KernelExpansion,
// Ensemble, CMACMap
static RealVector toVec(std::vector<double> const& v){ RealVector r(v.size()); for(std::size_t i = 0; i != v.size(); ++i) r(i) = v[i]; return r; }
static std::string showLabels(blas::vector<unsigned int> const& l){ std::string s; for(std::size_t i = 0; i != l.size(); ++i){ if(i) s += ","; s += std::to_string(l(i)); } return s; }
template<class Model>
static RealMatrix singles(Model& m, RealMatrix const& X, std::size_t nOut){
	RealMatrix S(X.size1(), nOut);
	for(std::size_t i = 0; i != X.size1(); ++i){ RealVector x = row(X, i), o; m.eval(x, o); noalias(row(S, i)) = o; }
	return S;
}
// normalizer hasB n B | params | X
static std::string normalizerOp(bool hb, std::size_t n, std::size_t B, std::vector<double> const& p, std::vector<double> const& xs){
	Normalizer<RealVector> m(n, hb);
	RealVector pv = toVec(p); RealMatrix X = toMat(xs, B, n), C(B, n, 0.0);
	std::string orc = oracle(m, X, C, pv, true, false);
	m.setParameterVector(pv);
	RealMatrix E; m.eval(X, E);
	std::ostringstream os;
	os << "NP=" << m.numberOfParameters() << " PV=" << showVec(m.parameterVector()) << " S=" << showMat(singles(m, X, n)) << " E=" << showMat(E) << orc;
	return os.str();
}
// classifier nIn nOut hasB hasBias B probe | params of the linear decision function | bias | X
static std::string classifierOp(std::size_t nIn, std::size_t nOut, bool hb, bool hasBias, std::size_t B, bool probe, std::vector<double> const& p, std::vector<double> const& bias, std::vector<double> const& xs){
	Classifier<LinearModel<RealVector> > c;
	c.decisionFunction().setStructure(nIn, nOut, hb);
	std::string bad;
	RealVector pv = toVec(p);
	if(c.numberOfParameters() != pv.size()) bad += " !oracle number-of-parameters";
	c.setParameterVector(pv);
	if(!sameV(c.parameterVector(), pv)) bad += " !oracle parameter-roundtrip";
	if(hasBias) c.bias() = toVec(bias);
	RealMatrix X = toMat(xs, B, nIn);
	blas::vector<unsigned int> R; c.eval(X, R);
	boost::shared_ptr<State> st = c.createState();
	blas::vector<unsigned int> RS; c.eval(X, RS, *st);
	bool sameState = R.size() == RS.size(); for(std::size_t i = 0; sameState && i != R.size(); ++i) if(R(i) != RS(i)) sameState = false;
	if(!sameState) bad += " !oracle state-changes-output";
	blas::vector<unsigned int> S(B);
	bool rowOk = true, compOk = true;
	for(std::size_t i = 0; i != B; ++i){
		RealVector x = row(X, i);
		unsigned int o = 77777u;          // sentinel: a single evaluation must assign its output
		if(probe || !hasBias){ c.eval(x, o); S(i) = o; if(o != R(i)) rowOk = false; }
		RealMatrix X1(1, nIn); noalias(row(X1, 0)) = x; blas::vector<unsigned int> r1; c.eval(X1, r1);
		if(r1(0) != R(i)) compOk = false;
	}
	if(!rowOk) bad += " !oracle batch-row-differs-from-single";
	if(!compOk) bad += " !oracle batch-composition-changes-row";
	std::ostringstream os;
	os << "NP=" << c.numberOfParameters() << " PV=" << showVec(c.parameterVector()) << " R=" << showLabels(R) << bad;
	return os.str();
}
// pool h w d ph pw B fd probe | X | C
static std::string poolOp(std::size_t h, std::size_t w, std::size_t d, std::size_t ph, std::size_t pw, std::size_t B, std::vector<double> const& xs, std::vector<double> const& cs, bool distinct, bool probe){
	PoolingLayer<RealVector> m(Shape({h, w, d}), Shape({ph, pw}));
	std::size_t nIn = h*w*d, nOut = (h/ph)*(w/pw)*d;
	if(xs.size() != B*nIn || cs.size() != B*nOut) return "bad-op";
	RealMatrix X = toMat(xs, B, nIn), C = toMat(cs, B, nOut);
	RealVector none;
	std::string orc = oracle(m, X, C, none, true, true, true, 0.0, probe);
	if(distinct) orc += fdOracle(m, X, C, none);
	boost::shared_ptr<State> st = m.createState();
	RealMatrix E; m.eval(X, E, *st);
	RealMatrix gx; m.weightedInputDerivative(X, E, C, *st, gx);
	std::ostringstream os;
	os << "NP=" << m.numberOfParameters() << " S=" << showMat(singles(m, X, nOut)) << " E=" << showMat(E) << " GX=" << showMat(gx) << orc;
	return os.str();
}
// resize h w d oh ow B | X | C
static std::string resizeOp(std::size_t h, std::size_t w, std::size_t d, std::size_t oh, std::size_t ow, std::size_t B, std::vector<double> const& xs, std::vector<double> const& cs){
	ResizeLayer<RealVector> m(Shape({h, w, d}), Shape({oh, ow}));
	std::size_t nIn = h*w*d, nOut = oh*ow*d;
	if(xs.size() != B*nIn || cs.size() != B*nOut) return "bad-op";
	RealMatrix X = toMat(xs, B, nIn), C = toMat(cs, B, nOut);
	RealVector none;
	std::string orc = oracle(m, X, C, none, true);
	orc += fdOracle(m, X, C, none);
	boost::shared_ptr<State> st = m.createState();
	RealMatrix E; m.eval(X, E, *st);
	RealMatrix gx; m.weightedInputDerivative(X, E, C, *st, gx);
	std::ostringstream os;
	os << "NP=" << m.numberOfParameters() << " S=" << showMat(singles(m, X, nOut)) << " E=" << showMat(E) << " GX=" << showMat(gx) << orc;
	return os.str();
}
// rbf nIn nOut trainCenters trainWidth B | centers | log gamma | X | C
static std::string rbfOp(std::size_t nIn, std::size_t nOut, bool tc, bool tw, std::size_t B, std::vector<double> const& cen, std::vector<double> const& lg, std::vector<double> const& xs, std::vector<double> const& cs){
	if(cen.size() != nIn*nOut || lg.size() != nOut || xs.size() != B*nIn || cs.size() != B*nOut) return "bad-op";
	RBFLayer m(nIn, nOut);
	RealVector all(nIn*nOut + nOut);
	for(std::size_t i = 0; i != cen.size(); ++i) all(i) = cen[i];
	for(std::size_t i = 0; i != nOut; ++i) all(cen.size() + i) = lg[i];
	m.setTrainingParameters(true, true); m.setParameterVector(all);
	m.setTrainingParameters(tc, tw);
	RealVector pv((tc ? nIn*nOut : 0) + (tw ? nOut : 0));
	{ std::size_t q = 0; if(tc) for(std::size_t i = 0; i != cen.size(); ++i) pv(q++) = cen[i]; if(tw) for(std::size_t i = 0; i != nOut; ++i) pv(q++) = lg[i]; }
	RealMatrix X = toMat(xs, B, nIn), C = toMat(cs, B, nOut);
	std::string orc = oracle(m, X, C, pv, true, true, false, 1e-12);
	orc += fdOracle(m, X, C, pv, false);
	m.setParameterVector(pv);
	boost::shared_ptr<State> st = m.createState();
	RealMatrix E; m.eval(X, E, *st);
	RealVector gp; m.weightedParameterDerivative(X, E, C, *st, gp);
	std::ostringstream os;
	os << "NP=" << m.numberOfParameters() << " TPV=" << showVec(m.parameterVector()) << " TS=" << showMat(singles(m, X, nOut)) << " TE=" << showMat(E) << " GP=" << showVec(gp) << orc;
	return os.str();
}
// kexp <linear|gauss> gamma nIn nBasis nOut hasB basisBatch B | basis | params | X
static std::string kexpOp(std::string const& kern, double gamma, std::size_t nIn, std::size_t nBasis, std::size_t nOut, bool hb, std::size_t bb, std::size_t B, std::vector<double> const& bs, std::vector<double> const& p, std::vector<double> const& xs, bool exact){
	if(bs.size() != nBasis*nIn || xs.size() != B*nIn || p.size() != nBasis*nOut + (hb ? nOut : 0)) return "bad-op";
	LinearKernel<RealVector> lin; GaussianRbfKernel<RealVector> gauss(gamma);
	AbstractKernelFunction<RealVector>* k = kern == "linear" ? (AbstractKernelFunction<RealVector>*)&lin : (AbstractKernelFunction<RealVector>*)&gauss;
	std::vector<RealVector> pts(nBasis, RealVector(nIn));
	for(std::size_t s = 0; s != nBasis; ++s) for(std::size_t j = 0; j != nIn; ++j) pts[s](j) = bs[s*nIn + j];
	Data<RealVector> basis = createDataFromRange(pts, bb);
	KernelExpansion<RealVector> m(k, basis, hb, nOut);
	RealVector pv = toVec(p); RealMatrix X = toMat(xs, B, nIn), C(B, nOut, 0.0);
	std::string orc = oracle(m, X, C, pv, exact, false);
	m.setParameterVector(pv);
	RealMatrix E; m.eval(X, E);
	std::ostringstream os;
	os << "NP=" << m.numberOfParameters() << " PV=" << showVec(m.parameterVector()) << (exact ? " S=" : " TS=") << showMat(singles(m, X, nOut)) << (exact ? " E=" : " TE=") << showMat(E) << orc;
	return os.str();
}
// ensemble <mean|vote> M nIn nOut hasB B | weights | params of all members | X
static std::string ensembleOp(std::string const& kind, std::size_t M, std::size_t nIn, std::size_t nOut, bool hb, std::size_t B, std::vector<double> const& ws, std::vector<double> const& p, std::vector<double> const& xs){
	std::size_t np = nOut*nIn + (hb ? nOut : 0);
	if(ws.size() != M || p.size() != M*np || xs.size() != B*nIn) return "bad-op";
	RealMatrix X = toMat(xs, B, nIn);
	std::ostringstream os; std::string bad;
	if(kind == "mean"){
		Ensemble<LinearModel<RealVector> > e;
		for(std::size_t m = 0; m != M; ++m){
			LinearModel<RealVector> lm(nIn, nOut, hb); RealVector lp(np); for(std::size_t i = 0; i != np; ++i) lp(i) = p[m*np + i];
			lm.setParameterVector(lp); e.addModel(lm, ws[m]);
		}
		RealMatrix C(B, nOut, 0.0); RealVector none;
		bad = oracle(e, X, C, none, true, false);
		RealMatrix E; e.eval(X, E);
		os << "NP=" << e.numberOfParameters() << " S=" << showMat(singles(e, X, nOut)) << " E=" << showMat(E) << bad;
	}else{
		Ensemble<LinearClassifier<RealVector> > e;
		for(std::size_t m = 0; m != M; ++m){
			LinearClassifier<RealVector> lc; lc.setStructure(nIn, nOut, hb);
			RealVector lp(np); for(std::size_t i = 0; i != np; ++i) lp(i) = p[m*np + i];
			lc.setParameterVector(lp); e.addModel(lc, ws[m]);
		}
		if(e.numberOfParameters() != 0) bad += " !oracle number-of-parameters";
		blas::vector<unsigned int> R; e.eval(X, R);
		RealMatrix V; e.decisionFunction().eval(X, V);
		bool rowOk = true, compOk = true;
		for(std::size_t i = 0; i != B; ++i){
			RealVector x = row(X, i); unsigned int o = 77777u; e.eval(x, o); if(o != R(i)) rowOk = false;
			RealMatrix X1(1, nIn); noalias(row(X1, 0)) = x; blas::vector<unsigned int> r1; e.eval(X1, r1); if(r1(0) != R(i)) compOk = false;
		}
		if(!rowOk) bad += " !oracle batch-row-differs-from-single";
		if(!compOk) bad += " !oracle batch-composition-changes-row";
		os << "NP=" << e.numberOfParameters() << " V=" << showMat(V) << " R=" << showLabels(R) << bad;
	}
	return os.str();
}
// cmac nIn nOut tilings tiles B | lower upper | params | X | C
static std::string cmacOp(std::size_t nIn, std::size_t nOut, std::size_t tilings, std::size_t tiles, std::size_t B, double lower, double upper, std::vector<double> const& p, std::vector<double> const& xs, std::vector<double> const& cs){
	CMACMap m; m.setStructure(Shape({nIn}), Shape({nOut}), tilings, tiles, lower, upper, false);
	if(xs.size() != B*nIn || cs.size() != B*nOut) return "bad-op";
	if(p.size() != m.numberOfParameters()){ std::ostringstream os; os << "NP=" << m.numberOfParameters() << " bad-parameter-count"; return os.str(); }
	RealVector pv = toVec(p); RealMatrix X = toMat(xs, B, nIn), C = toMat(cs, B, nOut);
	std::string orc = oracle(m, X, C, pv, true, true, false);
	m.setParameterVector(pv);
	boost::shared_ptr<State> st = m.createState();
	RealMatrix E; m.eval(X, E, *st);
	RealVector gp; m.weightedParameterDerivative(X, E, C, *st, gp);
	// the map is linear in its parameters: the gradient must be the exact difference quotient
	for(std::size_t q = 0; q != pv.size() && q < 64; ++q){
		RealVector a = pv; a(q) += 1.0; m.setParameterVector(a); RealMatrix o; m.eval(X, o);
		double diff = 0; for(std::size_t i = 0; i != B; ++i) for(std::size_t k = 0; k != nOut; ++k) diff += C(i,k) * (o(i,k) - E(i,k));
		if(!(std::fabs(diff - gp(q)) <= 1e-9 * (1 + std::fabs(diff)))){ orc += " !oracle parameter-derivative-differs-from-finite-differences"; break; }
	}
	m.setParameterVector(pv);
	std::ostringstream os;
	os << "NP=" << m.numberOfParameters() << " PV=" << showVec(m.parameterVector()) << " S=" << showMat(singles(m, X, nOut)) << " E=" << showMat(E) << " GP=" << showVec(gp) << orc;
	return os.str();
}
// conv <act> valid h w c nf fh fw B probe | params (filters [f][dy][dx][channel], then offsets) | X | C
template<class Act>
static std::string convOp(bool valid, std::size_t h, std::size_t w, std::size_t c, std::size_t nf, std::size_t fh, std::size_t fw, std::size_t B, std::vector<double> const& p, std::vector<double> const& xs, std::vector<double> const& cs, bool kinky, bool exact, bool probe){
	Conv2DModel<RealVector, Act> m(Shape({h, w, c}), Shape({nf, fh, fw}), valid ? Padding::Valid : Padding::ZeroPad);
	std::size_t nIn = h*w*c, nOut = m.outputShape().numElements();
	if(p.size() != m.numberOfParameters() || xs.size() != B*nIn || cs.size() != B*nOut) return "bad-op";
	RealVector pv = toVec(p); RealMatrix X = toMat(xs, B, nIn), C = toMat(cs, B, nOut);
	// probe = 0: the input derivative (finding F-C04-4) is left out, everything else is still checked
	std::string orc = oracle(m, X, C, pv, exact, true, probe);
	if(!kinky) orc += fdOracle(m, X, C, pv, probe);
	m.setParameterVector(pv);
	boost::shared_ptr<State> st = m.createState();
	RealMatrix E; m.eval(X, E, *st);
	RealVector gp; RealMatrix gx;
	m.weightedParameterDerivative(X, E, C, *st, gp);
	if(probe) m.weightedInputDerivative(X, E, C, *st, gx);
	std::ostringstream os;
	os << "NP=" << m.numberOfParameters() << " PV=" << showVec(m.parameterVector()) << (exact ? " S=" : " TS=") << showMat(singles(m, X, nOut)) << (exact ? " E=" : " TE=") << showMat(E)
	   << " GP=" << showVec(gp) << " GX=" << (probe ? showMat(gx) : std::string("-")) << orc;
	return os.str();
}
static bool natsFrom(std::vector<std::string> const& t, std::size_t from, std::size_t count, std::vector<std::size_t>& d){ return t.size() == from + count && vh::allNat(t, from, d) && d.size() == count; }

int main(){
	std::string line; bool floatMode = false;
	while(std::getline(std::cin, line)){
		auto secs = sections(line);
		if(secs.size() == 1 && secs[0].size() == 2 && secs[0][0] == "mode"){ floatMode = secs[0][1] == "float"; std::cout << "ok\n"; continue; }
		if(secs.size() == 1 && secs[0].size() == 3 && secs[0][0] == "probe"){ if(secs[0][1] == "gradient-size") g_sizeProbe = secs[0][2] == "1"; std::cout << "ok\n"; continue; }
		std::string out = "bad-op";
		std::vector<double> p, xs, cs, q2; std::vector<std::size_t> d;
		if(secs.size() == 4 && secs[0].size() == 6 && secs[0][0] == "dense" && vh::allNat(secs[0], 2, d) && d.size() == 4 && nums(secs[1], p) && nums(secs[2], xs) && nums(secs[3], cs)){
			std::string act = secs[0][1]; bool hb = d[0] == 1; std::size_t nIn = d[1], nOut = d[2], B = d[3];
			if(p.size() == nOut*nIn + (hb ? nOut : 0) && xs.size() == B*nIn && cs.size() == B*nOut){
				if(act == "linear") out = dense<LinearNeuron>(hb, nIn, nOut, B, p, xs, cs, !floatMode);
				else if(act == "rectifier") out = dense<RectifierNeuron>(hb, nIn, nOut, B, p, xs, cs, !floatMode);
				else if(act == "tanh") out = dense<TanhNeuron>(hb, nIn, nOut, B, p, xs, cs, !floatMode);
				else if(act == "logistic") out = dense<LogisticNeuron>(hb, nIn, nOut, B, p, xs, cs, !floatMode);
				else if(act == "fastsigmoid") out = dense<FastSigmoidNeuron>(hb, nIn, nOut, B, p, xs, cs, !floatMode);
			}
		}else if(secs.size() == 4 && secs[0].size() == 9 && secs[0][0] == "concat" && nums(secs[1], p) && nums(secs[2], xs) && nums(secs[3], cs)){
			std::vector<std::string> const& h = secs[0];
			std::size_t nIn = std::stoul(h[5]), nHid = std::stoul(h[6]), nOut = std::stoul(h[7]), B = std::stoul(h[8]);
			bool h1 = h[2] == "1", h2 = h[4] == "1";
			if(p.size() == nHid*nIn + (h1 ? nHid : 0) + nOut*nHid + (h2 ? nOut : 0) && xs.size() == B*nIn && cs.size() == B*nOut)
				out = concat1(h[1], h[3], h1, h2, nIn, nHid, nOut, B, p, xs, cs);
		}else if(secs.size() == 5 && secs[0].size() == 3 && secs[0][0] == "chain" && nums(secs[2], p) && nums(secs[3], xs) && nums(secs[4], cs)){
			out = chain(std::stoul(secs[0][1]), std::stoul(secs[0][2]), secs[1], p, xs, cs);
		}else if(secs.size() == 3 && secs[0][0] == "normalizer" && natsFrom(secs[0], 1, 3, d) && nums(secs[1], p) && nums(secs[2], xs)){
			if(p.size() == d[1] + (d[0] ? d[1] : 0) && xs.size() == d[2]*d[1]) out = normalizerOp(d[0] == 1, d[1], d[2], p, xs);
		}else if(secs.size() == 4 && secs[0][0] == "classifier" && natsFrom(secs[0], 1, 6, d) && nums(secs[1], p) && nums(secs[2], cs) && nums(secs[3], xs)){
			if(p.size() == d[1]*d[0] + (d[2] ? d[1] : 0) && xs.size() == d[4]*d[0] && cs.size() == (d[3] ? d[1] : 0)) out = classifierOp(d[0], d[1], d[2] == 1, d[3] == 1, d[4], d[5] == 1, p, cs, xs);
		}else if(secs.size() == 2 && secs[0].size() == 2 && secs[0][0] == "argmax" && nums(secs[1], xs)){
			if(xs.size() == std::stoul(secs[0][1]) && !xs.empty()){ RealVector z = toVec(xs); out = "R=" + std::to_string(arg_max(z)); }
		}else if(secs.size() == 3 && secs[0][0] == "pool" && natsFrom(secs[0], 1, 8, d) && nums(secs[1], xs) && nums(secs[2], cs)){
			if(d[3] > 0 && d[4] > 0) out = poolOp(d[0], d[1], d[2], d[3], d[4], d[5], xs, cs, d[6] == 1, d[7] == 1);
		}else if(secs.size() == 3 && secs[0][0] == "resize" && natsFrom(secs[0], 1, 6, d) && nums(secs[1], xs) && nums(secs[2], cs)){
			out = resizeOp(d[0], d[1], d[2], d[3], d[4], d[5], xs, cs);
		}else if(secs.size() == 5 && secs[0][0] == "rbf" && natsFrom(secs[0], 1, 5, d) && nums(secs[1], p) && nums(secs[2], q2) && nums(secs[3], xs) && nums(secs[4], cs)){
			out = rbfOp(d[0], d[1], d[2] == 1, d[3] == 1, d[4], p, q2, xs, cs);
		}else if(secs.size() == 4 && secs[0].size() == 9 && secs[0][0] == "kexp" && vh::allNat(secs[0], 3, d) && d.size() == 6 && nums(secs[1], q2) && nums(secs[2], p) && nums(secs[3], xs)){
			double gamma; if(parseDy(secs[0][2], gamma)) out = kexpOp(secs[0][1], gamma, d[0], d[1], d[2], d[3] == 1, d[4], d[5], q2, p, xs, secs[0][1] == "linear");
		}else if(secs.size() == 4 && secs[0].size() == 7 && secs[0][0] == "ensemble" && vh::allNat(secs[0], 2, d) && d.size() == 5 && nums(secs[1], q2) && nums(secs[2], p) && nums(secs[3], xs)){
			out = ensembleOp(secs[0][1], d[0], d[1], d[2], d[3] == 1, d[4], q2, p, xs);
		}else if(secs.size() == 4 && secs[0].size() == 11 && secs[0][0] == "conv" && vh::allNat(secs[0], 2, d) && d.size() == 9 && nums(secs[1], p) && nums(secs[2], xs) && nums(secs[3], cs)){
			std::string act = secs[0][1];
			if(d[1] >= d[5] && d[2] >= d[6] && d[5] >= 1 && d[6] >= 1 && d[3] >= 1 && d[4] >= 1){
				if(act == "linear") out = convOp<LinearNeuron>(d[0] == 1, d[1], d[2], d[3], d[4], d[5], d[6], d[7], p, xs, cs, false, true, d[8] == 1);
				else if(act == "rectifier") out = convOp<RectifierNeuron>(d[0] == 1, d[1], d[2], d[3], d[4], d[5], d[6], d[7], p, xs, cs, true, true, d[8] == 1);
				else if(act == "tanh") out = convOp<TanhNeuron>(d[0] == 1, d[1], d[2], d[3], d[4], d[5], d[6], d[7], p, xs, cs, false, false, d[8] == 1);
				else if(act == "logistic") out = convOp<LogisticNeuron>(d[0] == 1, d[1], d[2], d[3], d[4], d[5], d[6], d[7], p, xs, cs, false, false, d[8] == 1);
			}
		}else if(secs.size() == 5 && secs[0][0] == "cmac" && natsFrom(secs[0], 1, 5, d) && nums(secs[1], q2) && q2.size() == 2 && nums(secs[2], p) && nums(secs[3], xs) && nums(secs[4], cs)){
			if(d[3] >= 2 && d[2] >= 1) out = cmacOp(d[0], d[1], d[2], d[3], d[4], q2[0], q2[1], p, xs, cs);
		}else if(secs.size() == 3 && secs[0].size() == 4 && secs[0][0] == "rowact" && nums(secs[1], xs) && nums(secs[2], cs)){
			std::size_t n = std::stoul(secs[0][2]), B = std::stoul(secs[0][3]);
			if(xs.size() == n*B && cs.size() == n*B){
				if(secs[0][1] == "normalizer") out = rowact<NormalizerNeuron<> >(n, B, xs, cs);
				else if(secs[0][1] == "softmax") out = rowact<SoftmaxNeuron<> >(n, B, xs, cs);
			}
		}
		std::cout << out << "\n";
	}
	return 0;
}
