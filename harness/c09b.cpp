// K-C09 (wrappers): KernelMatrix, RegularizedKernelMatrix, ModifiedKernelMatrix,
// PrecomputedMatrix, BlockMatrix2x2, DifferenceKernelMatrix, PartlyPrecomputedMatrix
// over integer points and a LinearKernel (all values exact).  Line protocol of
// lean/Driver/C09.lean (ops starting with 'w').
#include <shark/Models/Kernels/LinearKernel.h>
#include <shark/Models/Kernels/EvalSkipMissingFeatures.h>
#include <shark/LinAlg/ExampleModifiedKernelMatrix.h>
#include <shark/LinAlg/KernelMatrix.h>
#include <shark/LinAlg/RegularizedKernelMatrix.h>
#include <shark/LinAlg/ModifiedKernelMatrix.h>
#include <shark/LinAlg/PrecomputedMatrix.h>
#include <shark/LinAlg/PartlyPrecomputedMatrix.h>
#include <shark/LinAlg/BlockMatrix2x2.h>
#include <shark/LinAlg/DifferenceKernelMatrix.h>
#include <shark/LinAlg/GaussianKernelMatrix.h>
#include <shark/Models/Kernels/GaussianRbfKernel.h>
#include <shark/LinAlg/CachedMatrix.h>
#include <shark/Models/Kernels/LinearKernel.h>
#include <shark/Data/Dataset.h>
#include "common.hpp"
#include "c09_state.hpp"
#include <memory>
#include <cstring>
using namespace shark;

template<class T>
struct AnyMatrix{
	virtual ~AnyMatrix(){}
	virtual std::size_t size() const = 0;
	virtual T entry(std::size_t i, std::size_t j) const = 0;
	virtual void row(std::size_t k, std::size_t s, std::size_t e, T* st) const = 0;
	virtual void flip(std::size_t i, std::size_t j) = 0;
	virtual bool matrix(blas::matrix<T>& m) const{ return false; }
};
// the base-matrix interface CachedMatrix<Matrix> needs, forwarding to the wrapper under test
template<class T>
struct Dyn{
	typedef T QpFloatType;
	AnyMatrix<T>* m;
	explicit Dyn(AnyMatrix<T>* m): m(m){}
	std::size_t size() const{ return m->size(); }
	T entry(std::size_t i, std::size_t j) const{ return m->entry(i,j); }
	T operator()(std::size_t i, std::size_t j) const{ return m->entry(i,j); }
	void row(std::size_t k, std::size_t s, std::size_t e, T* st) const{ m->row(k,s,e,st); }
	void flipColumnsAndRows(std::size_t i, std::size_t j){ m->flip(i,j); }
};
template<class T>
struct ProbeW: public CachedMatrix<Dyn<T> >{
	ProbeW(Dyn<T>* b, std::size_t cap): CachedMatrix<Dyn<T> >(b, cap){}
	LRUCache<T>& cache(){ return this->m_cache; }
};
template<class T, class M> bool callMatrix(M const& m, blas::matrix<T>& out, std::size_t n, std::true_type){ out.resize(n,n); m.matrix(out); return true; }
template<class T, class M> bool callMatrix(M const&, blas::matrix<T>&, std::size_t, std::false_type){ return false; }
template<class T, class M, bool HasMatrix = true>
struct Wrap: AnyMatrix<T>{
	std::unique_ptr<M> m; std::size_t n;
	Wrap(M* p, std::size_t n): m(p), n(n){}
	std::size_t size() const{ return n; }
	T entry(std::size_t i, std::size_t j) const{ return m->entry(i,j); }
	void row(std::size_t k, std::size_t s, std::size_t e, T* st) const{ m->row(k,s,e,st); }
	void flip(std::size_t i, std::size_t j){ m->flipColumnsAndRows(i,j); }
	bool matrix(blas::matrix<T>& out) const{ return callMatrix<T,M>(*m, out, n, std::integral_constant<bool,HasMatrix>()); }
};
// PartlyPrecomputedMatrix has neither flips nor a pointer row
template<class T, class M>
struct WrapPartly: AnyMatrix<T>{
	std::unique_ptr<M> m; std::size_t n;
	WrapPartly(M* p, std::size_t n): m(p), n(n){}
	std::size_t size() const{ return n; }
	T entry(std::size_t i, std::size_t j) const{ return m->entry(i,j); }
	void row(std::size_t k, std::size_t s, std::size_t e, T* st) const{
		blas::vector<T> v(n); m->row(k, v);
		for(std::size_t j = s; j < e; ++j) st[j-s] = v(j);
	}
	void flip(std::size_t, std::size_t){}
};

template<class T>
int run(){
	typedef KernelMatrix<RealVector,T> KM;
	LinearKernel<RealVector> kernel;
	Data<RealVector> data; LabeledData<RealVector,unsigned int> ldata;
	std::vector<RealVector> pts; std::vector<unsigned int> labels; RealVector diag;
	std::size_t n = 0;
	std::unique_ptr<AnyMatrix<T> > w;
	std::unique_ptr<KM> keepBase;                 // base for wrappers that hold a pointer
	// independent oracle: the defining formula evaluated directly on the points,
	// under a permutation the harness tracks itself
	std::vector<std::size_t> perm; std::string wty; double modE = 0, modN = 0;
	std::vector<std::pair<std::size_t,std::size_t> > opairs;
	std::vector<double> oscale;                    // exmod: 1/s_i per ORIGINAL example
	std::map<std::uint64_t, long> gdecode;         // gauss: bit pattern of T(exp(-gamma d)) -> d
	std::unique_ptr<Dyn<T> > dyn; std::unique_ptr<ProbeW<T> > cm; c09::BufferIds<T> ids; c09::RecentRows<T> rr;
	auto bits = [](T v){ std::uint64_t b = 0; std::memcpy(&b, &v, sizeof(T)); return b; };
	// observation of a value: exact integer, or (gauss) the squared distance it encodes
	auto obs = [&](T v) -> std::string {
		if(wty != "gauss") return vh::intval(v);
		typename std::map<std::uint64_t, long>::const_iterator it = gdecode.find(bits(v));
		return it == gdecode.end() ? std::string("?") + vh::exactDouble(double(v)) : std::to_string(it->second);
	};
	auto sqdist = [&](std::size_t p, std::size_t q){ double s = 0; for(std::size_t c = 0; c != pts[p].size(); ++c){ double d = pts[p](c) - pts[q](c); s += d*d; } return s; };
	auto K = [&](std::size_t p, std::size_t q){ double s = 0; for(std::size_t c = 0; c != pts[p].size(); ++c) s += pts[p](c)*pts[q](c); return s; };
	auto expected = [&](std::size_t i, std::size_t j) -> double {
		std::size_t p = perm[i], q = perm[j];
		if(wty == "reg") return K(p,q) + (i == j ? diag(p) : 0.0);
		if(wty == "mod") return (labels[p] == labels[q] ? modE : modN) * K(p,q);
		if(wty == "block") return K(p < n ? p : p-n, q < n ? q : q-n);
		if(wty == "diff") return K(opairs[p].second,opairs[q].second) - K(opairs[p].second,opairs[q].first)
			- K(opairs[p].first,opairs[q].second) + K(opairs[p].first,opairs[q].first);
		if(wty == "exmod") return K(p,q) * oscale[p] * oscale[q];
		if(wty == "gauss") return sqdist(p,q);       // compared with the DECODED value
		return K(p,q);
	};
	// value as compared with `expected`
	auto val = [&](T v) -> double {
		if(wty != "gauss") return double(v);
		typename std::map<std::uint64_t, long>::const_iterator it = gdecode.find(bits(v));
		return it == gdecode.end() ? -1.0 : double(it->second);
	};
	auto showVals = [&](T const* p, std::size_t len){ std::string s = "["; for(std::size_t c = 0; c != len; ++c){ if(c) s += ","; s += obs(p[c]); } return s + "]"; };
	auto showCache = [&]() -> std::string {
		LRUCache<T>& c = cm->cache(); std::size_t sz = w->size();
		std::ostringstream os;
		os << "size=" << c.size() << " cached=" << c.cachedLines() << " lru=[";
		for(std::size_t p = 0; p != c.cachedLines(); ++p){ if(p) os << ", "; os << c.listIndex(p); }
		os << "]";
		for(std::size_t i = 0; i != sz; ++i) os << " " << showVals(c.getLinePointer(i), c.lineLength(i));
		os << ids.show(c, sz);
		return os.str();
	};
	std::string line; std::vector<std::size_t> a;
	while(std::getline(std::cin, line)){
		std::vector<std::string> t = vh::tokens(line);
		if(t.empty()){ std::cout << "\n"; continue; }
		std::string const& op = t[0];
		if(op == "wdata"){
			// wdata n d batch  x(n*d)  labels(n)  diag(n)     (all non-negative ints; x is offset by 8)
			if(!vh::allNat(t, 1, a) || a.size() < 3 || a.size() != 3 + a[0]*a[1] + 2*a[0]){ std::cout << "bad-op\n"; continue; }
			n = a[0]; std::size_t d = a[1], bs = a[2];
			pts.assign(n, RealVector(d)); labels.resize(n); diag.resize(n);
			for(std::size_t i = 0; i != n; ++i){
				for(std::size_t c = 0; c != d; ++c) pts[i](c) = double(a[3+i*d+c]) - 8.0;
				labels[i] = (unsigned int)a[3+n*d+i];
				diag(i) = double(a[3+n*d+n+i]);
			}
			data = createDataFromRange(pts, bs);
			ldata = createLabeledDataFromRange(pts, labels, bs);
			cm.reset(); dyn.reset(); w.reset(); keepBase.reset();
			std::cout << "ok\n"; continue;
		}
		if(op == "wflags"){ std::cout << "ok\n"; continue; }   // source flags: for the model only
		if(op == "wgauss"){
			// wgauss g k  i1 j1 i2 j2 ... : GaussianKernelMatrix(gamma = g/2^k) against direct kernel evaluation
			// (not modelled in Lean: transcendental; oracle only, relative tolerance), after the given flips
			if(!vh::allNat(t, 1, a) || a.size() < 2 || a.size() % 2){ std::cout << "bad-op\n"; continue; }
			double gamma = std::ldexp(double(a[0]), -int(a[1]));
			GaussianKernelMatrix<RealVector,T> gm(gamma, data);
			GaussianRbfKernel<RealVector> gk(gamma);
			std::vector<std::size_t> pm(n); for(std::size_t i = 0; i != n; ++i) pm[i] = i;
			for(std::size_t q = 2; q + 1 < a.size(); q += 2){ if(a[q] < n && a[q+1] < n){ gm.flipColumnsAndRows(a[q], a[q+1]); std::swap(pm[a[q]], pm[a[q+1]]); } }
			double tol = sizeof(T) == 4 ? 1e-6 : 1e-12; bool bad = false;
			std::vector<T> st(n);
			for(std::size_t i = 0; i != n; ++i){
				gm.row(i, 0, n, n ? &st[0] : 0);
				for(std::size_t j = 0; j != n; ++j){
					double direct = gk.eval(pts[pm[i]], pts[pm[j]]);
					if(std::fabs(double(gm.entry(i,j)) - direct) > tol * (1 + direct) || std::fabs(double(st[j]) - direct) > tol * (1 + direct)) bad = true;
				}
			}
			std::cout << "R=ok" << (bad ? " !oracle gaussian-matrix-differs-from-direct-evaluation" : "") << "\n"; continue;
		}
		if(op == "wmk"){
			if(t.size() < 2 || !vh::allNat(t, 2, a)){ std::cout << "bad-op\n"; continue; }
			std::string const& ty = t[1];
			cm.reset(); dyn.reset(); w.reset(); keepBase.reset();
			if(ty == "kernel") w.reset(new Wrap<T,KM>(new KM(kernel, data), n));
			else if(ty == "reg") w.reset(new Wrap<T,RegularizedKernelMatrix<RealVector,T> >(new RegularizedKernelMatrix<RealVector,T>(kernel, data, diag), n));
			else if(ty == "mod" && a.size() == 2) w.reset(new Wrap<T,ModifiedKernelMatrix<RealVector,T> >(new ModifiedKernelMatrix<RealVector,T>(kernel, ldata, T(a[0]), T(a[1])), n));
			else if(ty == "pre" && a.size() % 2 == 0){
				// flips applied to the base BEFORE precomputation: a = i1 j1 i2 j2 ...
				keepBase.reset(new KM(kernel, data));
				for(std::size_t q = 0; q + 1 < a.size(); q += 2) keepBase->flipColumnsAndRows(a[q], a[q+1]);
				w.reset(new Wrap<T,PrecomputedMatrix<KM>,false>(new PrecomputedMatrix<KM>(keepBase.get()), n));
			}else if(ty == "block"){
				keepBase.reset(new KM(kernel, data));
				w.reset(new Wrap<T,BlockMatrix2x2<KM> >(new BlockMatrix2x2<KM>(keepBase.get()), 2*n));
			}else if(ty == "diff" && a.size() % 2 == 0 && !a.empty()){
				std::vector<std::pair<std::size_t,std::size_t> > pairs;
				for(std::size_t q = 0; q + 1 < a.size(); q += 2) pairs.push_back(std::make_pair(a[q], a[q+1]));
				w.reset(new Wrap<T,DifferenceKernelMatrix<RealVector,T> >(new DifferenceKernelMatrix<RealVector,T>(kernel, data, pairs), pairs.size()));
			}else if(ty == "partly" && a.size() == 1){
				keepBase.reset(new KM(kernel, data));
				w.reset(new WrapPartly<T,PartlyPrecomputedMatrix<KM> >(new PartlyPrecomputedMatrix<KM>(keepBase.get(), a[0]), n));
			}else if(ty == "gauss" && a.size() == 2){
				// GaussianKernelMatrix(gamma = g/2^k); values are observed through the squared distance they encode
				double gamma = std::ldexp(double(a[0]), -int(a[1]));
				w.reset(new Wrap<T,GaussianKernelMatrix<RealVector,T> >(new GaussianKernelMatrix<RealVector,T>(gamma, data), n));
				gdecode.clear();
				for(long d = 0; d <= 4096; ++d) gdecode[bits(T(std::exp(-gamma * double(d))))] = d;
			}else if(ty == "exmod" && a.size() == n){
				// scaling coefficients s_i = 2^-a_i (so 1/s_i is a small integer)
				typedef ExampleModifiedKernelMatrix<RealVector,T> EM;
				EM* em = new EM(kernel, data);
				RealVector sc(n); oscale.assign(n, 1.0);
				for(std::size_t i = 0; i != n; ++i){ sc(i) = std::ldexp(1.0, -int(a[i])); oscale[i] = std::ldexp(1.0, int(a[i])); }
				em->setScalingCoefficients(sc);
#ifdef C09_EXMOD_MATRIX
				w.reset(new Wrap<T,EM>(em, n));
#else
				w.reset(new Wrap<T,EM,false>(em, n));        // matrix() cannot be instantiated (finding F-C09-2)
#endif
			}else{ std::cout << "bad-op\n"; continue; }
			wty = ty; perm.resize(w->size()); for(std::size_t i = 0; i != perm.size(); ++i) perm[i] = i;
			if(ty == "mod"){ modE = double(a[0]); modN = double(a[1]); }
			if(ty == "pre") for(std::size_t q = 0; q + 1 < a.size(); q += 2) std::swap(perm[a[q]], perm[a[q+1]]);
			if(ty == "diff"){ opairs.clear(); for(std::size_t q = 0; q + 1 < a.size(); q += 2) opairs.push_back(std::make_pair(a[q], a[q+1])); }
			std::cout << "size=" << w->size() << "\n"; continue;
		}
		if(!w || !vh::allNat(t, 1, a)){ std::cout << "bad-op\n"; continue; }
		if(op == "wflip" && a.size() == 2){ w->flip(a[0], a[1]); if(wty != "partly") std::swap(perm[a[0]], perm[a[1]]); std::cout << "ok\n"; }
		else if(op == "wentry" && a.size() == 2){
			T v = w->entry(a[0], a[1]);
			std::cout << "R=" << obs(v) << (val(v) != expected(a[0], a[1]) ? " !oracle wrong-entry" : "") << "\n"; }
		else if(op == "wrow" && a.size() == 3){
			std::size_t len = a[2] - a[1];
			T* st = new T[len];
			w->row(a[0], a[1], a[2], st);
			std::string s = "R=[";
			bool bad = false;
			for(std::size_t c = 0; c != len; ++c){ if(c) s += ","; s += obs(st[c]); if(st[c] != w->entry(a[0], a[1]+c) || val(st[c]) != expected(a[0], a[1]+c)) bad = true; }
			delete[] st;
			std::cout << s << "]" << (bad ? " !oracle wrong-row" : "") << "\n";
		}else if(op == "wmatrix" && a.empty()){
			blas::matrix<T> m;
			if(!w->matrix(m)){ std::cout << "bad-op\n"; continue; }
			std::string s = "R=[";
			bool bad = false;
			for(std::size_t i = 0; i != m.size1(); ++i) for(std::size_t j = 0; j != m.size2(); ++j){
				if(i || j) s += ","; s += obs(m(i,j)); if(m(i,j) != w->entry(i,j) || val(m(i,j)) != expected(i,j)) bad = true; }
			std::cout << s << "]" << (bad ? " !oracle matrix-differs-from-entry" : "") << "\n";
		}else if(op == "wcache" && a.size() == 1){
			// CachedMatrix on top of the wrapper: the combination the solvers use
			cm.reset(); dyn.reset(new Dyn<T>(w.get())); cm.reset(new ProbeW<T>(dyn.get(), a[0])); ids.reset(); rr.forget();
			std::cout << showCache() << "\n";
		}else if(cm && op.size() > 1 && op[0] == 'c'){
			std::string cop = op.substr(1), r; bool ok = true;
			if(cop == "row" && a.size() == 2){
				rr.before(cm->cache(), a[0], a[1]);
				T* p = cm->row(a[0], 0, a[1]);
				r = "R=" + showVals(p, cm->cache().lineLength(a[0])) + " " + rr.after(cm->cache(), a[0]);
				for(std::size_t c = 0; c < a[1]; ++c) if(val(p[c]) != expected(a[0], c)){ r += "!oracle returned-row-wrong "; break; }
			}else if(cop == "rows" && a.size() == 3){
				std::size_t len = a[2] - a[1];
				T* st = new T[len];               // exactly the documented size: ASan sees any overrun
				cm->row(a[0], a[1], a[2], st);
				r = "R=" + showVals(st, len) + " ";
				for(std::size_t c = 0; c < len; ++c) if(val(st[c]) != expected(a[0], a[1]+c)){ r += "!oracle storage-row-wrong "; break; }
				delete[] st;
			}else if(cop == "entry" && a.size() == 2){
				T v = cm->entry(a[0], a[1]);
				r = "R=" + obs(v) + " " + (val(v) != expected(a[0], a[1]) ? "!oracle wrong-entry " : "");
			}else if(cop == "flip" && a.size() == 2){
				cm->flipColumnsAndRows(a[0], a[1]); std::swap(perm[a[0]], perm[a[1]]); rr.forget();
			}else if(cop == "maxidx" && a.size() == 1){ cm->setMaxCachedIndex(a[0]); rr.forget(); }
			else if(cop == "clear" && a.empty()){ cm->clear(); rr.forget(); }
			else ok = false;
			if(!ok){ std::cout << "bad-op\n"; continue; }
			// every value the cache holds is the direct formula under the current order
			std::string orc;
			for(std::size_t i = 0; i != w->size(); ++i){
				T const* p = cm->cache().getLinePointer(i);
				for(std::size_t c = 0; c < cm->cache().lineLength(i); ++c)
					if(c >= w->size() || val(p[c]) != expected(i,c)){ orc += " !oracle wrong-cached-entry row=" + std::to_string(i); break; }
			}
			orc += c09::accounting(cm->cache(), w->size());
			std::size_t q = r.find("!oracle");
			if(q != std::string::npos){ orc = " " + r.substr(q) + orc; r = r.substr(0, q); }
			std::cout << r << showCache() << orc << "\n";
		}else std::cout << "bad-op\n";
	}
	return 0;
}
int main(int argc, char** argv){
	std::string ty = argc > 1 ? argv[1] : "double";
	return ty == "float" ? run<float>() : run<double>();
}
