// K-C09 (wrappers): KernelMatrix, RegularizedKernelMatrix, ModifiedKernelMatrix,
// PrecomputedMatrix, BlockMatrix2x2, DifferenceKernelMatrix, PartlyPrecomputedMatrix
// over integer points and a LinearKernel (all values exact).  Line protocol of
// lean/Driver/C09.lean (ops starting with 'w').
#include <shark/LinAlg/KernelMatrix.h>
#include <shark/LinAlg/RegularizedKernelMatrix.h>
#include <shark/LinAlg/ModifiedKernelMatrix.h>
#include <shark/LinAlg/PrecomputedMatrix.h>
#include <shark/LinAlg/PartlyPrecomputedMatrix.h>
#include <shark/LinAlg/BlockMatrix2x2.h>
#include <shark/LinAlg/DifferenceKernelMatrix.h>
#include <shark/LinAlg/GaussianKernelMatrix.h>
#include <shark/Models/Kernels/GaussianRbfKernel.h>
#include <shark/LinAlg/CachedMatrix.h>
#include <shark/Models/Kernels/LinearKernel.h>
#include <shark/Data/Dataset.h>
#include "common.hpp"
#include <memory>
using namespace shark;

template<class T>
struct AnyMatrix{
	virtual ~AnyMatrix(){}
	virtual std::size_t size() const = 0;
	virtual T entry(std::size_t i, std::size_t j) const = 0;
	virtual void row(std::size_t k, std::size_t s, std::size_t e, T* st) const = 0;
	virtual void flip(std::size_t i, std::size_t j) = 0;
	virtual bool matrix(blas::matrix<T>& m) const{ return false; }
};
template<class T, class M> bool callMatrix(M const& m, blas::matrix<T>& out, std::size_t n, std::true_type){ out.resize(n,n); m.matrix(out); return true; }
template<class T, class M> bool callMatrix(M const&, blas::matrix<T>&, std::size_t, std::false_type){ return false; }
template<class T, class M, bool HasMatrix = true>
struct Wrap: AnyMatrix<T>{
	std::unique_ptr<M> m; std::size_t n;
	Wrap(M* p, std::size_t n): m(p), n(n){}
	std::size_t size() const{ return n; }
	T entry(std::size_t i, std::size_t j) const{ return m->entry(i,j); }
	void row(std::size_t k, std::size_t s, std::size_t e, T* st) const{ m->row(k,s,e,st); }
	void flip(std::size_t i, std::size_t j){ m->flipColumnsAndRows(i,j); }
	bool matrix(blas::matrix<T>& out) const{ return callMatrix<T,M>(*m, out, n, std::integral_constant<bool,HasMatrix>()); }
};
// PartlyPrecomputedMatrix has neither flips nor a pointer row
template<class T, class M>
struct WrapPartly: AnyMatrix<T>{
	std::unique_ptr<M> m; std::size_t n;
	WrapPartly(M* p, std::size_t n): m(p), n(n){}
	std::size_t size() const{ return n; }
	T entry(std::size_t i, std::size_t j) const{ return m->entry(i,j); }
	void row(std::size_t k, std::size_t s, std::size_t e, T* st) const{
		blas::vector<T> v(n); m->row(k, v);
		for(std::size_t j = s; j < e; ++j) st[j-s] = v(j);
	}
	void flip(std::size_t, std::size_t){}
};

template<class T>
int run(){
	typedef KernelMatrix<RealVector,T> KM;
	LinearKernel<RealVector> kernel;
	Data<RealVector> data; LabeledData<RealVector,unsigned int> ldata;
	std::vector<RealVector> pts; std::vector<unsigned int> labels; RealVector diag;
	std::size_t n = 0;
	std::unique_ptr<AnyMatrix<T> > w;
	std::unique_ptr<KM> keepBase;                 // base for wrappers that hold a pointer
	// independent oracle: the defining formula evaluated directly on the points,
	// under a permutation the harness tracks itself
	std::vector<std::size_t> perm; std::string wty; double modE = 0, modN = 0;
	std::vector<std::pair<std::size_t,std::size_t> > opairs;
	auto K = [&](std::size_t p, std::size_t q){ double s = 0; for(std::size_t c = 0; c != pts[p].size(); ++c) s += pts[p](c)*pts[q](c); return s; };
	auto expected = [&](std::size_t i, std::size_t j) -> double {
		std::size_t p = perm[i], q = perm[j];
		if(wty == "reg") return K(p,q) + (i == j ? diag(p) : 0.0);
		if(wty == "mod") return (labels[p] == labels[q] ? modE : modN) * K(p,q);
		if(wty == "block") return K(p < n ? p : p-n, q < n ? q : q-n);
		if(wty == "diff") return K(opairs[p].second,opairs[q].second) - K(opairs[p].second,opairs[q].first)
			- K(opairs[p].first,opairs[q].second) + K(opairs[p].first,opairs[q].first);
		return K(p,q);
	};
	std::string line; std::vector<std::size_t> a;
	while(std::getline(std::cin, line)){
		std::vector<std::string> t = vh::tokens(line);
		if(t.empty()){ std::cout << "\n"; continue; }
		std::string const& op = t[0];
		if(op == "wdata"){
			// wdata n d batch  x(n*d)  labels(n)  diag(n)     (all non-negative ints; x is offset by 8)
			if(!vh::allNat(t, 1, a) || a.size() < 3 || a.size() != 3 + a[0]*a[1] + 2*a[0]){ std::cout << "bad-op\n"; continue; }
			n = a[0]; std::size_t d = a[1], bs = a[2];
			pts.assign(n, RealVector(d)); labels.resize(n); diag.resize(n);
			for(std::size_t i = 0; i != n; ++i){
				for(std::size_t c = 0; c != d; ++c) pts[i](c) = double(a[3+i*d+c]) - 8.0;
				labels[i] = (unsigned int)a[3+n*d+i];
				diag(i) = double(a[3+n*d+n+i]);
			}
			data = createDataFromRange(pts, bs);
			ldata = createLabeledDataFromRange(pts, labels, bs);
			w.reset(); keepBase.reset();
			std::cout << "ok\n"; continue;
		}
		if(op == "wgauss"){
			// wgauss g k  i1 j1 i2 j2 ... : GaussianKernelMatrix(gamma = g/2^k) against direct kernel evaluation
			// (not modelled in Lean: transcendental; oracle only, relative tolerance), after the given flips
			if(!vh::allNat(t, 1, a) || a.size() < 2 || a.size() % 2){ std::cout << "bad-op\n"; continue; }
			double gamma = std::ldexp(double(a[0]), -int(a[1]));
			GaussianKernelMatrix<RealVector,T> gm(gamma, data);
			GaussianRbfKernel<RealVector> gk(gamma);
			std::vector<std::size_t> pm(n); for(std::size_t i = 0; i != n; ++i) pm[i] = i;
			for(std::size_t q = 2; q + 1 < a.size(); q += 2){ if(a[q] < n && a[q+1] < n){ gm.flipColumnsAndRows(a[q], a[q+1]); std::swap(pm[a[q]], pm[a[q+1]]); } }
			double tol = sizeof(T) == 4 ? 1e-6 : 1e-12; bool bad = false;
			std::vector<T> st(n);
			for(std::size_t i = 0; i != n; ++i){
				gm.row(i, 0, n, n ? &st[0] : 0);
				for(std::size_t j = 0; j != n; ++j){
					double direct = gk.eval(pts[pm[i]], pts[pm[j]]);
					if(std::fabs(double(gm.entry(i,j)) - direct) > tol * (1 + direct) || std::fabs(double(st[j]) - direct) > tol * (1 + direct)) bad = true;
				}
			}
			std::cout << "R=ok" << (bad ? " !oracle gaussian-matrix-differs-from-direct-evaluation" : "") << "\n"; continue;
		}
		if(op == "wmk"){
			if(t.size() < 2 || !vh::allNat(t, 2, a)){ std::cout << "bad-op\n"; continue; }
			std::string const& ty = t[1];
			w.reset(); keepBase.reset();
			if(ty == "kernel") w.reset(new Wrap<T,KM>(new KM(kernel, data), n));
			else if(ty == "reg") w.reset(new Wrap<T,RegularizedKernelMatrix<RealVector,T> >(new RegularizedKernelMatrix<RealVector,T>(kernel, data, diag), n));
			else if(ty == "mod" && a.size() == 2) w.reset(new Wrap<T,ModifiedKernelMatrix<RealVector,T> >(new ModifiedKernelMatrix<RealVector,T>(kernel, ldata, T(a[0]), T(a[1])), n));
			else if(ty == "pre" && a.size() % 2 == 0){
				// flips applied to the base BEFORE precomputation: a = i1 j1 i2 j2 ...
				keepBase.reset(new KM(kernel, data));
				for(std::size_t q = 0; q + 1 < a.size(); q += 2) keepBase->flipColumnsAndRows(a[q], a[q+1]);
				w.reset(new Wrap<T,PrecomputedMatrix<KM>,false>(new PrecomputedMatrix<KM>(keepBase.get()), n));
			}else if(ty == "block"){
				keepBase.reset(new KM(kernel, data));
				w.reset(new Wrap<T,BlockMatrix2x2<KM> >(new BlockMatrix2x2<KM>(keepBase.get()), 2*n));
			}else if(ty == "diff" && a.size() % 2 == 0 && !a.empty()){
				std::vector<std::pair<std::size_t,std::size_t> > pairs;
				for(std::size_t q = 0; q + 1 < a.size(); q += 2) pairs.push_back(std::make_pair(a[q], a[q+1]));
				w.reset(new Wrap<T,DifferenceKernelMatrix<RealVector,T> >(new DifferenceKernelMatrix<RealVector,T>(kernel, data, pairs), pairs.size()));
			}else if(ty == "partly" && a.size() == 1){
				keepBase.reset(new KM(kernel, data));
				w.reset(new WrapPartly<T,PartlyPrecomputedMatrix<KM> >(new PartlyPrecomputedMatrix<KM>(keepBase.get(), a[0]), n));
			}else{ std::cout << "bad-op\n"; continue; }
			wty = ty; perm.resize(w->size()); for(std::size_t i = 0; i != perm.size(); ++i) perm[i] = i;
			if(ty == "mod"){ modE = double(a[0]); modN = double(a[1]); }
			if(ty == "pre") for(std::size_t q = 0; q + 1 < a.size(); q += 2) std::swap(perm[a[q]], perm[a[q+1]]);
			if(ty == "diff"){ opairs.clear(); for(std::size_t q = 0; q + 1 < a.size(); q += 2) opairs.push_back(std::make_pair(a[q], a[q+1])); }
			std::cout << "size=" << w->size() << "\n"; continue;
		}
		if(!w || !vh::allNat(t, 1, a)){ std::cout << "bad-op\n"; continue; }
		if(op == "wflip" && a.size() == 2){ w->flip(a[0], a[1]); if(wty != "partly") std::swap(perm[a[0]], perm[a[1]]); std::cout << "ok\n"; }
		else if(op == "wentry" && a.size() == 2){
			T v = w->entry(a[0], a[1]);
			std::cout << "R=" << vh::intval(v) << (double(v) != expected(a[0], a[1]) ? " !oracle wrong-entry" : "") << "\n"; }
		else if(op == "wrow" && a.size() == 3){
			std::size_t len = a[2] - a[1];
			T* st = new T[len];
			w->row(a[0], a[1], a[2], st);
			std::string s = "R=[";
			bool bad = false;
			for(std::size_t c = 0; c != len; ++c){ if(c) s += ","; s += vh::intval(st[c]); if(st[c] != w->entry(a[0], a[1]+c) || double(st[c]) != expected(a[0], a[1]+c)) bad = true; }
			delete[] st;
			std::cout << s << "]" << (bad ? " !oracle wrong-row" : "") << "\n";
		}else if(op == "wmatrix" && a.empty()){
			blas::matrix<T> m;
			if(!w->matrix(m)){ std::cout << "bad-op\n"; continue; }
			std::string s = "R=[";
			bool bad = false;
			for(std::size_t i = 0; i != m.size1(); ++i) for(std::size_t j = 0; j != m.size2(); ++j){
				if(i || j) s += ","; s += vh::intval(m(i,j)); if(m(i,j) != w->entry(i,j)) bad = true; }
			std::cout << s << "]" << (bad ? " !oracle matrix-differs-from-entry" : "") << "\n";
		}else std::cout << "bad-op\n";
	}
	return 0;
}
int main(int argc, char** argv){
	std::string ty = argc > 1 ? argv[1] : "double";
	return ty == "float" ? run<float>() : run<double>();
}
