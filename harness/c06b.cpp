// K-C06, second part: the real ErrorFunction (unweighted / weighted / mini-batch / with regularizer /
// inside a CombinedObjectiveFunction), AbstractLoss::eval(Data,Data), NegativeLogLikelihood,
// NegativeAUC, the weighted ZeroOneLoss overload.  Same line protocol as lean/Driver/C06.lean.
#include <shark/ObjectiveFunctions/Loss/SquaredLoss.h>
#include <shark/ObjectiveFunctions/Loss/HingeLoss.h>
#include <shark/ObjectiveFunctions/Loss/SquaredHingeLoss.h>
#include <shark/ObjectiveFunctions/Loss/EpsilonHingeLoss.h>
#include <shark/ObjectiveFunctions/Loss/SquaredEpsilonHingeLoss.h>
#include <shark/ObjectiveFunctions/Loss/ZeroOneLoss.h>
#include <shark/ObjectiveFunctions/ErrorFunction.h>
#include <shark/ObjectiveFunctions/Regularizer.h>
#include <shark/ObjectiveFunctions/CombinedObjectiveFunction.h>
#include <shark/ObjectiveFunctions/NegativeLogLikelihood.h>
#include <shark/ObjectiveFunctions/NegativeAUC.h>
#include <shark/Models/LinearModel.h>
#include <shark/Models/ConcatenatedModel.h>
#include <shark/Core/OpenMP.h>
#include "c06_common.hpp"
#include <memory>
#include <unistd.h>
#include <sys/wait.h>
#include <cfenv>

typedef AbstractModel<RealVector, RealVector> AnyModel;

// model spec: nIn followed by layers `act:hasB:nOut` (act = linear | rectifier); every layer is optimised
struct Net{
	std::vector<std::unique_ptr<AnyModel> > layers;
	ConcatenatedModel<RealVector> chain;
	AnyModel* model = nullptr;
	std::size_t nIn = 0, nOut = 0;
	bool build(std::vector<std::string> const& spec){
		if(spec.size() < 2) return false;
		try{ nIn = std::stoul(spec[0]); }catch(...){ return false; }
		std::size_t cur = nIn;
		for(std::size_t q = 1; q != spec.size(); ++q){
			std::vector<std::string> f; { std::string c; for(char ch: spec[q]){ if(ch == ':'){ f.push_back(c); c.clear(); } else c += ch; } f.push_back(c); }
			if(f.size() != 3) return false;
			bool hb = f[1] == "1"; std::size_t no = std::stoul(f[2]);
			if(f[0] == "linear") layers.emplace_back(new LinearModel<RealVector>(cur, no, hb));
			else if(f[0] == "rectifier") layers.emplace_back(new LinearModel<RealVector, RectifierNeuron>(cur, no, hb));
			else return false;
			cur = no;
		}
		nOut = cur;
		if(layers.size() == 1) model = layers[0].get();
		else { for(auto& l: layers) chain.add(l.get(), true); model = &chain; }
		return true;
	}
};

template<class LT> struct LabelIO;
template<> struct LabelIO<RealVector>{
	typedef RealMatrix Batch;
	static bool make(std::vector<double> const& labs, std::size_t from, std::size_t n, std::size_t m, Batch& b){
		if(labs.size() < (from+n)*m) return false;
		b.resize(n, m); for(std::size_t i = 0; i != n; ++i) for(std::size_t j = 0; j != m; ++j) b(i,j) = labs[(from+i)*m+j];
		return true;
	}
	static std::size_t width(std::size_t m){ return m; }
};
template<> struct LabelIO<unsigned int>{
	typedef UIntVector Batch;
	static bool make(std::vector<double> const& labs, std::size_t from, std::size_t n, std::size_t, Batch& b){
		if(labs.size() < from+n) return false;
		b.resize(n); for(std::size_t i = 0; i != n; ++i) b(i) = (unsigned int)labs[from+i];
		return true;
	}
	static std::size_t width(std::size_t){ return 1; }
};

static std::string showRes(double v, RealVector const* g){
	std::string s = "V=" + vh::exactDouble(v);
	if(g) s += " G=" + showVec(*g);
	return s;
}

// ef eval|deriv | loss par.. | nIn layers.. | T | params.. | sizes.. | X.. | labels.. | extra..
//   extra: none | w <weights..> | mini <seed> | reg one|two <strength> [mask..] | comb <w0> <w1> <w2>
template<class LT>
static std::string runEf(bool deriv, AbstractLoss<LT, RealVector>& loss, Net& net, std::size_t T, std::vector<double> const& params,
		std::vector<std::size_t> const& sizes, std::vector<double> const& xs, std::vector<double> const& labs, std::vector<std::string> const& extra){
	std::size_t B = sizes.size(), n = 0; for(std::size_t s: sizes) n += s;
	std::size_t nIn = net.nIn, m = net.nOut;
	if(xs.size() != n*nIn || params.size() != net.model->numberOfParameters()) return "bad-op";
	Data<RealVector> in(B); Data<LT> lab(B);
	std::size_t pos = 0;
	for(std::size_t b = 0; b != B; ++b){
		RealMatrix X(sizes[b], nIn); for(std::size_t i = 0; i != sizes[b]; ++i) for(std::size_t j = 0; j != nIn; ++j) X(i,j) = xs[(pos+i)*nIn+j];
		in.batch(b) = X;
		typename LabelIO<LT>::Batch lb; if(!LabelIO<LT>::make(labs, pos, sizes[b], m, lb)) return "bad-op";
		lab.batch(b) = lb; pos += sizes[b];
	}
	if(labs.size() != n*LabelIO<LT>::width(m)) return "bad-op";
	LabeledData<RealVector, LT> ds(in, lab);
	RealVector w(params.size()); for(std::size_t i = 0; i != params.size(); ++i) w(i) = params[i];
	omp_set_num_threads((int)T);
	if(B == 0){
		// the empty data set: the mean of nothing is undefined (NaN, or a Shark exception); run it in a child process,
		// because a crash of the library here cannot be caught
		std::cout.flush();
		int fd[2]; if(pipe(fd) != 0) return "bad-op";
		pid_t pid = fork();
		if(pid == 0){
			close(fd[0]); std::string r;
			try{ ErrorFunction<> E(ds, net.model, &loss); RealVector G0; double v0 = deriv ? E.evalDerivative(w, G0) : E.eval(w); r = std::isnan(v0) ? "V=nan" : "V=" + vh::exactDouble(v0); }
			catch(shark::Exception const&){ r = "V=nan"; }
			if(deriv){ r += " G="; for(std::size_t i = 0; i != w.size(); ++i) r += (i ? ",nan" : "nan"); }
			if(write(fd[1], r.c_str(), r.size()) < 0){}
			_exit(0);
		}
		close(fd[1]); char buf[256]; ssize_t k = read(fd[0], buf, 255); close(fd[0]);
		int status = 0; waitpid(pid, &status, 0);
		if(k > 0 && WIFEXITED(status) && WEXITSTATUS(status) == 0) return std::string(buf, (std::size_t)k);
		return "crashed !oracle F-C06-4-empty-dataset-integer-division-by-zero";
	}

	// independent reference: element by element through the single-element interfaces, one thread
	std::vector<double> elemLoss(n); std::vector<RealVector> elemGrad(n);
	{
		net.model->setParameterVector(w);
		std::size_t e = 0;
		for(std::size_t b = 0; b != B; ++b) for(std::size_t i = 0; i != sizes[b]; ++i, ++e){
			RealMatrix X1(1, nIn); noalias(row(X1, 0)) = row(in.batch(b), i);
			boost::shared_ptr<State> st = net.model->createState(); RealMatrix P1; net.model->eval(X1, P1, *st);
			RealVector p = row(P1, 0), g; LT li = getBatchElement(lab.batch(b), i);
			elemLoss[e] = loss.eval(li, p);
			if(deriv){
				loss.evalDerivative(li, p, g);
				RealMatrix C(1, m); noalias(row(C, 0)) = g;
				net.model->weightedParameterDerivative(X1, P1, C, *st, elemGrad[e]);
			}
		}
	}
	std::string kind = extra.empty() ? "none" : extra[0];
	std::string out, orc;
	RealVector G; double v = 0;
	auto refMean = [&](std::vector<double> const& wt, double denom, double& rv, RealVector& rg){
		rv = 0; rg = RealVector(w.size(), 0.0);
		for(std::size_t e = 0; e != n; ++e){ rv += wt[e]*elemLoss[e]; if(deriv) noalias(rg) += wt[e]*elemGrad[e]; }
		rv /= denom; if(deriv) rg /= denom;
	};
	auto cmp = [&](double rv, RealVector const& rg){
		if(!(v == rv) && !(std::isnan(v) && std::isnan(rv))) orc += " !oracle error-differs-from-mean-loss";
		if(deriv){
			if(G.size() != rg.size()) orc += " !oracle gradient-size";
			else for(std::size_t i = 0; i != rg.size(); ++i) if(!(G(i) == rg(i)) && !(std::isnan(G(i)) && std::isnan(rg(i)))){ orc += " !oracle gradient-differs-from-mean-of-element-gradients"; break; }
		}
	};
	std::vector<double> ones(n, 1.0);
	if(kind == "none" || kind == "reg" || kind == "comb"){
		ErrorFunction<> E(ds, net.model, &loss);
		OneNormRegularizer<> r1; TwoNormRegularizer<> r2;
		double rv; RealVector rg; refMean(ones, double(n), rv, rg);
		if(kind == "reg"){
			if(extra.size() < 3) return "bad-op";
			double strength; if(!parseDy(extra[2], strength)) return "bad-op";
			std::vector<double> mk; for(std::size_t i = 3; i < extra.size(); ++i){ double x; if(!parseDy(extra[i], x)) return "bad-op"; mk.push_back(x); }
			if(!mk.empty() && mk.size() != w.size()) return "bad-op";
			RealVector mask(mk.size()); for(std::size_t i = 0; i != mk.size(); ++i) mask(i) = mk[i];
			bool one = extra[1] == "one";
			if(one){ if(!mk.empty()) r1.setMask(mask); E.setRegularizer(strength, &r1); } else { if(!mk.empty()) r2.setMask(mask); E.setRegularizer(strength, &r2); }
			// stated term, computed directly
			double term = 0; RealVector tg(w.size(), 0.0);
			for(std::size_t i = 0; i != w.size(); ++i){
				double mi = mk.empty() ? 1.0 : mk[i];
				if(one){ term += std::fabs(w(i)*mi); tg(i) = (w(i) > 0 ? 1.0 : (w(i) < 0 ? -1.0 : 0.0))*mi; }
				else { term += mi*w(i)*w(i); tg(i) = mi*w(i); }
			}
			if(!one) term *= 0.5;
			rv += strength*term; if(deriv) noalias(rg) += strength*tg;
			v = deriv ? E.evalDerivative(w, G) : E.eval(w);
		}else if(kind == "comb"){
			if(extra.size() != 4) return "bad-op";
			double c0, c1, c2; if(!parseDy(extra[1], c0) || !parseDy(extra[2], c1) || !parseDy(extra[3], c2)) return "bad-op";
			CombinedObjectiveFunction<RealVector, double> comb; comb.add(c0, E); comb.add(c1, r2); comb.add(c2, r1);
			double t2 = 0, t1 = 0; RealVector g1(w.size());
			for(std::size_t i = 0; i != w.size(); ++i){ t2 += w(i)*w(i); t1 += std::fabs(w(i)); g1(i) = (w(i) > 0 ? 1.0 : (w(i) < 0 ? -1.0 : 0.0)); }
			rv = c0*rv + c1*(0.5*t2) + c2*t1; if(deriv){ RealVector t = c0*rg + c1*w + c2*g1; rg = t; }
			v = deriv ? comb.evalDerivative(w, G) : comb.eval(w);
		}else v = deriv ? E.evalDerivative(w, G) : E.eval(w);
		cmp(rv, rg);
		out = showRes(v, deriv ? &G : nullptr);
		// the value returned by the derivative call is the value of eval
		if(deriv && kind == "none"){ double ve = E.eval(w); if(!(ve == v) && !(std::isnan(v) && std::isnan(ve))) orc += " !oracle derivative-call-value-differs-from-eval"; }
	}else if(kind == "w"){
		if(extra.size() != n + 1) return "bad-op";
		std::vector<double> wt(n); double sw = 0;
		for(std::size_t e = 0; e != n; ++e){ if(!parseDy(extra[e+1], wt[e])) return "bad-op"; sw += wt[e]; }
		Data<double> wd(B);
		{ std::size_t e = 0; for(std::size_t b = 0; b != B; ++b){ RealVector wb(sizes[b]); for(std::size_t i = 0; i != sizes[b]; ++i, ++e) wb(i) = wt[e]; wd.batch(b) = wb; } }
		WeightedLabeledData<RealVector, LT> wds(ds, wd);
		ErrorFunction<> E(wds, net.model, &loss);
		v = deriv ? E.evalDerivative(w, G) : E.eval(w);
		double rv; RealVector rg; refMean(wt, sw, rv, rg); cmp(rv, rg);
		out = showRes(v, deriv ? &G : nullptr);
	}else if(kind == "mini"){
		if(extra.size() != 2 || B == 0) return "bad-op";
		random::rng_type rng; rng.seed((unsigned)std::stoul(extra[1]));
		ErrorFunction<> E(ds, net.model, &loss, true); E.setRng(&rng); E.init();
		std::vector<std::string> seen(B); std::size_t have = 0;
		std::vector<std::size_t> start(B+1, 0); for(std::size_t b = 0; b != B; ++b) start[b+1] = start[b] + sizes[b];
		for(std::size_t draw = 0; draw != 400 && have != B; ++draw){
			random::rng_type copy = rng; std::size_t idx = random::discrete(copy, std::size_t(0), B-1);
			v = deriv ? E.evalDerivative(w, G) : E.eval(w);
			// the mini-batch result is the mean (and mean gradient) over the drawn batch
			double rv = 0; RealVector rg(w.size(), 0.0);
			for(std::size_t e = start[idx]; e != start[idx+1]; ++e){ rv += elemLoss[e]; if(deriv) noalias(rg) += elemGrad[e]; }
			rv /= double(sizes[idx]); if(deriv) rg /= double(sizes[idx]);
			cmp(rv, rg);
			if(seen[idx].empty()){ seen[idx] = showRes(v, deriv ? &G : nullptr); ++have; }
		}
		for(std::size_t b = 0; b != B; ++b) out += (b ? " # " : "") + (seen[b].empty() ? std::string("unseen") : seen[b]);
	}else return "bad-op";
	return out + orc;
}

template<class LT, class Loss>
static std::string runEfL(bool deriv, Loss loss, Net& net, std::size_t T, std::vector<double> const& params, std::vector<std::size_t> const& sizes,
		std::vector<double> const& xs, std::vector<double> const& labs, std::vector<std::string> const& extra){
	return runEf<LT>(deriv, loss, net, T, params, sizes, xs, labs, extra);
}

// cost <loss> | par | T | sizes | m | labels | preds : AbstractLoss::eval(Data<Label>, Data<Output>)
template<class LT>
static std::string runCost(AbstractLoss<LT, RealVector>& loss, std::size_t T, std::vector<std::size_t> const& sizes, std::size_t m, std::vector<double> const& labs, std::vector<double> const& prs){
	std::size_t B = sizes.size(), n = 0; for(std::size_t s: sizes) n += s;
	if(prs.size() != n*m || labs.size() != n*LabelIO<LT>::width(m)) return "bad-op";
	Data<RealVector> pr(B); Data<LT> lab(B); std::size_t pos = 0; double direct = 0;
	for(std::size_t b = 0; b != B; ++b){
		RealMatrix P(sizes[b], m); for(std::size_t i = 0; i != sizes[b]; ++i) for(std::size_t j = 0; j != m; ++j) P(i,j) = prs[(pos+i)*m+j];
		pr.batch(b) = P; typename LabelIO<LT>::Batch lb; LabelIO<LT>::make(labs, pos, sizes[b], m, lb); lab.batch(b) = lb;
		for(std::size_t i = 0; i != sizes[b]; ++i){ RealVector p = row(P, i); direct += loss.eval(getBatchElement(lb, i), p); }
		pos += sizes[b];
	}
	omp_set_num_threads((int)T);
	double v = loss.eval(lab, pr);
	std::string out = "V=" + vh::exactDouble(v);
	double ref = direct / double(n);
	if(!(v == ref) && !(std::isnan(v) && std::isnan(ref))) out += " !oracle cost-differs-from-mean-loss";
	return out;
}

bool c06b_dispatch(Secs const& secs, bool floatMode, std::string& out){
	(void)floatMode;
	if(secs.empty() || secs[0].empty()) return false;
	std::string const& op = secs[0][0];
	if(op == "ef" && secs.size() == 9 && secs[0].size() == 2 && !secs[1].empty()){
		out = "bad-op";
		bool deriv = secs[0][1] == "deriv";
		Net net; if(!net.build(secs[2])) return true;
		std::vector<std::size_t> tv, sizes; std::vector<double> params, xs, labs, par;
		if(!vh::allNat(secs[3], 0, tv) || tv.size() < 1 || !nums(secs[4], params) || !vh::allNat(secs[5], 0, sizes) || !nums(secs[6], xs) || !nums(secs[7], labs)) return true;
		std::vector<std::string> p1(secs[1].begin() + 1, secs[1].end()); if(!nums(p1, par)) return true;
		std::string const& loss = secs[1][0];
		try{
			if(loss == "squared") out = runEfL<RealVector>(deriv, SquaredLoss<>(), net, tv[0], params, sizes, xs, labs, secs[8]);
			else if(loss == "squaredclass") out = runEfL<unsigned int>(deriv, SquaredLoss<RealVector, unsigned int>(), net, tv[0], params, sizes, xs, labs, secs[8]);
			else if(loss == "hinge") out = runEfL<unsigned int>(deriv, HingeLoss(), net, tv[0], params, sizes, xs, labs, secs[8]);
			else if(loss == "sqhinge") out = runEfL<unsigned int>(deriv, SquaredHingeLoss(), net, tv[0], params, sizes, xs, labs, secs[8]);
			else if(loss == "epshinge" && par.size() == 1) out = runEfL<RealVector>(deriv, EpsilonHingeLoss(par[0]), net, tv[0], params, sizes, xs, labs, secs[8]);
			else if(loss == "sqepshinge" && par.size() == 1) out = runEfL<RealVector>(deriv, SquaredEpsilonHingeLoss(par[0]), net, tv[0], params, sizes, xs, labs, secs[8]);
		}catch(shark::Exception const& e){ out = std::string("exception"); }
		return true;
	}
	if(op == "cost" && secs.size() == 7 && secs[0].size() == 2){
		out = "bad-op";
		std::vector<std::size_t> tv, sizes, mv; std::vector<double> par, labs, prs;
		if(!nums(secs[1], par) || !vh::allNat(secs[2], 0, tv) || tv.size() < 1 || !vh::allNat(secs[3], 0, sizes) || !vh::allNat(secs[4], 0, mv) || mv.size() != 1 || !nums(secs[5], labs) || !nums(secs[6], prs)) return true;
		std::string const& loss = secs[0][1];
		if(loss == "squared"){ SquaredLoss<> l; out = runCost<RealVector>(l, tv[0], sizes, mv[0], labs, prs); }
		else if(loss == "hinge"){ HingeLoss l; out = runCost<unsigned int>(l, tv[0], sizes, mv[0], labs, prs); }
		else if(loss == "zeroone"){ ZeroOneLoss<unsigned int, RealVector> l(par.empty() ? 0.0 : par[0]); out = runCost<unsigned int>(l, tv[0], sizes, mv[0], labs, prs); }
		else if(loss == "epshinge" && par.size() == 1){ EpsilonHingeLoss l(par[0]); out = runCost<RealVector>(l, tv[0], sizes, mv[0], labs, prs); }
		return true;
	}
	if((op == "auc" || op == "wmw") && secs.size() == 4 && secs[0].size() == 2){
		// auc|wmw invert | sizes | labels | scores   (one prediction column)
		out = "bad-op";
		std::vector<std::size_t> sizes, lc; std::vector<double> sc;
		if(!vh::allNat(secs[1], 0, sizes) || !vh::allNat(secs[2], 0, lc) || !nums(secs[3], sc) || lc.size() != sc.size()) return true;
		std::size_t B = sizes.size(), n = 0; for(std::size_t s: sizes) n += s;
		if(n != lc.size() || n == 0) return true;
		bool invert = secs[0][1] == "1";
		Data<unsigned int> lab(B); Data<RealVector> pr(B); std::size_t pos = 0;
		for(std::size_t b = 0; b != B; ++b){
			UIntVector l(sizes[b]); RealMatrix P(sizes[b], 1);
			for(std::size_t i = 0; i != sizes[b]; ++i){ l(i) = (unsigned)lc[pos+i]; P(i,0) = sc[pos+i]; }
			lab.batch(b) = l; pr.batch(b) = P; pos += sizes[b];
		}
		// definition: fraction of (positive, negative) pairs ranked correctly, ties count one half (auc) / zero (wmw)
		double pairs = 0, ties = 0, P = 0, N = 0;
		for(std::size_t i = 0; i != n; ++i){ if(lc[i] > 0) ++P; else ++N; }
		for(std::size_t i = 0; i != n; ++i) for(std::size_t j = 0; j != n; ++j) if(lc[i] > 0 && !(lc[j] > 0)){
			double a = invert ? -sc[i] : sc[i], b = invert ? -sc[j] : sc[j];
			if(a > b) pairs += 1; else if(a == b) ties += 1;
		}
		double v;
		if(op == "auc"){
			NegativeAUC<unsigned int, RealVector> auc(invert); v = auc.eval(lab, pr);
			double ref = -(pairs + 0.5*ties) / (P*N);
			out = "V=" + vh::exactDouble(v);
			if(P > 0 && N > 0 && std::fabs(v - ref) > 1e-12) out += " !oracle auc-differs-from-pair-count";
		}else{
#ifdef C06_HAVE_WMW
			NegativeWilcoxonMannWhitneyStatistic<unsigned int, RealVector> w(invert); v = w.eval(lab, pr);
			double ref = -pairs / (P*N);
			out = "V=" + vh::exactDouble(v);
			if(P > 0 && N > 0 && std::fabs(v - ref) > 1e-12) out += " !oracle wmw-differs-from-pair-count";
#else
			out = "unavailable";
#endif
		}
		return true;
	}
	if(op == "zow" && secs.size() == 7){
		// zow | threshold | sizes | m | labels | preds | weights : ZeroOneLoss::eval(Data, Data, weights)
		out = "bad-op";
		std::vector<std::size_t> sizes, mv, lc; std::vector<double> thr, prs, wt;
		if(!nums(secs[1], thr) || thr.size() != 1 || !vh::allNat(secs[2], 0, sizes) || !vh::allNat(secs[3], 0, mv) || mv.size() != 1 || !vh::allNat(secs[4], 0, lc) || !nums(secs[5], prs) || !nums(secs[6], wt)) return true;
		std::size_t B = sizes.size(), n = 0, m = mv[0]; for(std::size_t s: sizes) n += s;
		if(lc.size() != n || prs.size() != n*m || wt.size() != n || n == 0) return true;
		ZeroOneLoss<unsigned int, RealVector> l(thr[0]);
		Data<unsigned int> lab(B); Data<RealVector> pr(B); std::size_t pos = 0;
		double perElement = 0, perBatch = 0;
		for(std::size_t b = 0; b != B; ++b){
			UIntVector lb(sizes[b]); RealMatrix P(sizes[b], m);
			for(std::size_t i = 0; i != sizes[b]; ++i){ lb(i) = (unsigned)lc[pos+i]; for(std::size_t j = 0; j != m; ++j) P(i,j) = prs[(pos+i)*m+j]; }
			lab.batch(b) = lb; pr.batch(b) = P;
			for(std::size_t i = 0; i != sizes[b]; ++i){ RealVector p = row(P, i); double e = l.eval(lb(i), p); perElement += wt[pos+i]*e; perBatch += wt[b]*e; }
			pos += sizes[b];
		}
		RealVector w(n); for(std::size_t i = 0; i != n; ++i) w(i) = wt[i];
		double v = l.eval(lab, pr, w);
		out = "V=" + vh::exactDouble(v);
		if(v != perElement / double(n)){
			if(v == perBatch / double(n)) out += " !oracle F-C06-1-weights-indexed-by-batch";
			else out += " !oracle weighted-zero-one-differs-from-weighted-mean";
		}
		return true;
	}
	if(op == "nll" && secs.size() == 6 && secs[0].size() == 2){
		// nll eval|deriv | nIn layers.. | T | params | sizes | X     (float mode; bit comparison with one thread, thread sweep in the oracle)
		out = "bad-op";
		bool deriv = secs[0][1] == "deriv";
		Net net; if(!net.build(secs[1]) || net.nOut != 1) return true;
		std::vector<std::size_t> tv, sizes; std::vector<double> params, xs;
		if(!vh::allNat(secs[2], 0, tv) || tv.size() != 1 || !nums(secs[3], params) || !vh::allNat(secs[4], 0, sizes) || !nums(secs[5], xs)) return true;
		std::size_t B = sizes.size(), n = 0; for(std::size_t s: sizes) n += s;
		if(xs.size() != n*net.nIn || params.size() != net.model->numberOfParameters() || n == 0) return true;
		Data<RealVector> in(B); std::size_t pos = 0;
		for(std::size_t b = 0; b != B; ++b){ RealMatrix X(sizes[b], net.nIn); for(std::size_t i = 0; i != sizes[b]; ++i) for(std::size_t j = 0; j != net.nIn; ++j) X(i,j) = xs[(pos+i)*net.nIn+j]; in.batch(b) = X; pos += sizes[b]; }
		RealVector w(params.size()); for(std::size_t i = 0; i != params.size(); ++i) w(i) = params[i];
		NegativeLogLikelihood nll(in, net.model);
		omp_set_num_threads(1);
		RealVector G; double v = deriv ? nll.evalDerivative(w, G) : nll.eval(w);
		out = showRes(v, deriv ? &G : nullptr);
		// definition, element by element
		net.model->setParameterVector(w);
		long double s = 0; for(std::size_t b = 0; b != B; ++b){ RealMatrix P = (*net.model)(in.batch(b)); for(std::size_t i = 0; i != P.size1(); ++i) s += std::log(std::max((long double)P(i,0), 1e-100L)); }
		double ref = (double)(-s / (long double)n);
		if(std::fabs(v - ref) > 1e-11*(1+std::fabs(ref))) out += " !oracle nll-differs-from-definition";
		omp_set_num_threads((int)tv[0]);
		RealVector G2; double v2 = deriv ? nll.evalDerivative(w, G2) : nll.eval(w);
		if(std::fabs(v - v2) > 1e-12*(1+std::fabs(v))) out += " !oracle nll-depends-on-thread-count";
		if(deriv) for(std::size_t i = 0; i != G.size(); ++i) if(std::fabs(G(i) - G2(i)) > 1e-11*(1+std::fabs(G(i)))){ out += " !oracle nll-gradient-depends-on-thread-count"; break; }
		double ve = nll.eval(w); if(deriv && std::fabs(ve - v) > 1e-12*(1+std::fabs(v))) out += " !oracle derivative-call-value-differs-from-eval";
		return true;
	}
	return false;
}
