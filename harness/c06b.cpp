// K-C06, second part: the real ErrorFunction (unweighted / weighted / mini-batch / with regularizer /
// inside a CombinedObjectiveFunction), AbstractLoss::eval(Data,Data), NegativeLogLikelihood,
// NegativeAUC, the weighted ZeroOneLoss overload.  Same line protocol as lean/Driver/C06.lean.
#include <shark/ObjectiveFunctions/Loss/SquaredLoss.h>
#include <shark/ObjectiveFunctions/Loss/HingeLoss.h>
#include <shark/ObjectiveFunctions/Loss/SquaredHingeLoss.h>
#include <shark/ObjectiveFunctions/Loss/EpsilonHingeLoss.h>
#include <shark/ObjectiveFunctions/Loss/SquaredEpsilonHingeLoss.h>
#include <shark/ObjectiveFunctions/Loss/ZeroOneLoss.h>
#include <shark/ObjectiveFunctions/ErrorFunction.h>
#include <shark/ObjectiveFunctions/Regularizer.h>
#include <shark/ObjectiveFunctions/CombinedObjectiveFunction.h>
#include <shark/ObjectiveFunctions/NegativeLogLikelihood.h>
#include <shark/ObjectiveFunctions/NegativeAUC.h>
#include <shark/Models/LinearModel.h>
#include <shark/Models/ConcatenatedModel.h>
#include <shark/Core/OpenMP.h>
#include "c06_common.hpp"
#include <memory>
#include <unistd.h>
#include <sys/wait.h>
#include <cfenv>
#include <cstring>
#include <new>

typedef AbstractModel<RealVector, RealVector> AnyModel;

// model spec: nIn followed by layers `act:hasB:nOut` (act = linear | rectifier); every layer is optimised
struct Net{
	std::vector<std::unique_ptr<AnyModel> > layers;
	ConcatenatedModel<RealVector> chain;
	AnyModel* model = nullptr;
	std::size_t nIn = 0, nOut = 0;
	bool build(std::vector<std::string> const& spec){
		if(spec.size() < 2) return false;
		try{ nIn = std::stoul(spec[0]); }catch(...){ return false; }
		std::size_t cur = nIn;
		for(std::size_t q = 1; q != spec.size(); ++q){
			std::vector<std::string> f; { std::string c; for(char ch: spec[q]){ if(ch == ':'){ f.push_back(c); c.clear(); } else c += ch; } f.push_back(c); }
			if(f.size() != 3) return false;
			bool hb = f[1] == "1"; std::size_t no = std::stoul(f[2]);
			if(f[0] == "linear") layers.emplace_back(new LinearModel<RealVector>(cur, no, hb));
			else if(f[0] == "rectifier") layers.emplace_back(new LinearModel<RealVector, RectifierNeuron>(cur, no, hb));
			else return false;
			cur = no;
		}
		nOut = cur;
		if(layers.size() == 1) model = layers[0].get();
		else { for(auto& l: layers) chain.add(l.get(), true); model = &chain; }
		return true;
	}
};

template<class LT> struct LabelIO;
template<> struct LabelIO<RealVector>{
	typedef RealMatrix Batch;
	static bool make(std::vector<double> const& labs, std::size_t from, std::size_t n, std::size_t m, Batch& b){
		if(labs.size() < (from+n)*m) return false;
		b.resize(n, m); for(std::size_t i = 0; i != n; ++i) for(std::size_t j = 0; j != m; ++j) b(i,j) = labs[(from+i)*m+j];
		return true;
	}
	static std::size_t width(std::size_t m){ return m; }
};
template<> struct LabelIO<unsigned int>{
	typedef UIntVector Batch;
	static bool make(std::vector<double> const& labs, std::size_t from, std::size_t n, std::size_t, Batch& b){
		if(labs.size() < from+n) return false;
		b.resize(n); for(std::size_t i = 0; i != n; ++i) b(i) = (unsigned int)labs[from+i];
		return true;
	}
	static std::size_t width(std::size_t){ return 1; }
};

static std::string showRes(double v, RealVector const* g){
	std::string s = "V=" + vh::exactDouble(v);
	if(g) s += " G=" + showVec(*g);
	return s;
}

// ef eval|deriv | loss par.. | nIn layers.. | T | params.. | sizes.. | X.. | labels.. | extra..
//   extra: none | w <weights..> | mini <seed> | reg one|two <strength> [mask..] | comb <w0> <w1> <w2>
template<class LT>
static std::string runEf(bool deriv, AbstractLoss<LT, RealVector>& loss, Net& net, std::size_t T, std::vector<double> const& params,
		std::vector<std::size_t> const& sizes, std::vector<double> const& xs, std::vector<double> const& labs, std::vector<std::string> const& extra){
	std::size_t B = sizes.size(), n = 0; for(std::size_t s: sizes) n += s;
	std::size_t nIn = net.nIn, m = net.nOut;
	if(xs.size() != n*nIn || params.size() != net.model->numberOfParameters()) return "bad-op";
	Data<RealVector> in(B); Data<LT> lab(B);
	std::size_t pos = 0;
	for(std::size_t b = 0; b != B; ++b){
		RealMatrix X(sizes[b], nIn); for(std::size_t i = 0; i != sizes[b]; ++i) for(std::size_t j = 0; j != nIn; ++j) X(i,j) = xs[(pos+i)*nIn+j];
		in.batch(b) = X;
		typename LabelIO<LT>::Batch lb; if(!LabelIO<LT>::make(labs, pos, sizes[b], m, lb)) return "bad-op";
		lab.batch(b) = lb; pos += sizes[b];
	}
	if(labs.size() != n*LabelIO<LT>::width(m)) return "bad-op";
	LabeledData<RealVector, LT> ds(in, lab);
	RealVector w(params.size()); for(std::size_t i = 0; i != params.size(); ++i) w(i) = params[i];
	omp_set_num_threads((int)T);
	if(B == 0){
		// the empty data set: the mean of nothing is undefined (NaN, or a Shark exception); run it in a child process,
		// because a crash of the library here cannot be caught
		std::cout.flush();
		int fd[2]; if(pipe(fd) != 0) return "bad-op";
		pid_t pid = fork();
		if(pid == 0){
			close(fd[0]); std::string r;
			try{ ErrorFunction<> E(ds, net.model, &loss); RealVector G0; double v0 = deriv ? E.evalDerivative(w, G0) : E.eval(w); r = std::isnan(v0) ? "V=nan" : "V=" + vh::exactDouble(v0); }
			catch(shark::Exception const&){ r = "V=nan"; }
			if(deriv){ r += " G="; for(std::size_t i = 0; i != w.size(); ++i) r += (i ? ",nan" : "nan"); }
			if(write(fd[1], r.c_str(), r.size()) < 0){}
			_exit(0);
		}
		close(fd[1]); char buf[256]; ssize_t k = read(fd[0], buf, 255); close(fd[0]);
		int status = 0; waitpid(pid, &status, 0);
		if(k > 0 && WIFEXITED(status) && WEXITSTATUS(status) == 0) return std::string(buf, (std::size_t)k);
		return "crashed !oracle F-C06-4-empty-dataset-integer-division-by-zero";
	}

	// independent reference: element by element through the single-element interfaces, one thread
	std::vector<double> elemLoss(n); std::vector<RealVector> elemGrad(n);
	{
		net.model->setParameterVector(w);
		std::size_t e = 0;
		for(std::size_t b = 0; b != B; ++b) for(std::size_t i = 0; i != sizes[b]; ++i, ++e){
			RealMatrix X1(1, nIn); noalias(row(X1, 0)) = row(in.batch(b), i);
			boost::shared_ptr<State> st = net.model->createState(); RealMatrix P1; net.model->eval(X1, P1, *st);
			RealVector p = row(P1, 0), g; LT li = getBatchElement(lab.batch(b), i);
			elemLoss[e] = loss.eval(li, p);
			if(deriv){
				loss.evalDerivative(li, p, g);
				RealMatrix C(1, m); noalias(row(C, 0)) = g;
				net.model->weightedParameterDerivative(X1, P1, C, *st, elemGrad[e]);
			}
		}
	}
	std::string kind = extra.empty() ? "none" : extra[0];
	std::string out, orc;
	RealVector G; double v = 0;
	auto refMean = [&](std::vector<double> const& wt, double denom, double& rv, RealVector& rg){
		rv = 0; rg = RealVector(w.size(), 0.0);
		for(std::size_t e = 0; e != n; ++e){ rv += wt[e]*elemLoss[e]; if(deriv) noalias(rg) += wt[e]*elemGrad[e]; }
		rv /= denom; if(deriv) rg /= denom;
	};
	auto cmp = [&](double rv, RealVector const& rg){
		if(!(v == rv) && !(std::isnan(v) && std::isnan(rv))) orc += " !oracle error-differs-from-mean-loss";
		if(deriv){
			if(G.size() != rg.size()) orc += " !oracle gradient-size";
			else for(std::size_t i = 0; i != rg.size(); ++i) if(!(G(i) == rg(i)) && !(std::isnan(G(i)) && std::isnan(rg(i)))){ orc += " !oracle gradient-differs-from-mean-of-element-gradients"; break; }
		}
	};
	std::vector<double> ones(n, 1.0);
	if(kind == "none" || kind == "reg" || kind == "comb"){
		ErrorFunction<> E(ds, net.model, &loss);
		OneNormRegularizer<> r1; TwoNormRegularizer<> r2;
		double rv; RealVector rg; refMean(ones, double(n), rv, rg);
		if(kind == "reg"){
			if(extra.size() < 3) return "bad-op";
			double strength; if(!parseDy(extra[2], strength)) return "bad-op";
			std::vector<double> mk; for(std::size_t i = 3; i < extra.size(); ++i){ double x; if(!parseDy(extra[i], x)) return "bad-op"; mk.push_back(x); }
			if(!mk.empty() && mk.size() != w.size()) return "bad-op";
			RealVector mask(mk.size()); for(std::size_t i = 0; i != mk.size(); ++i) mask(i) = mk[i];
			bool one = extra[1] == "one";
			if(one){ if(!mk.empty()) r1.setMask(mask); E.setRegularizer(strength, &r1); } else { if(!mk.empty()) r2.setMask(mask); E.setRegularizer(strength, &r2); }
			// stated term, computed directly
			double term = 0; RealVector tg(w.size(), 0.0);
			for(std::size_t i = 0; i != w.size(); ++i){
				double mi = mk.empty() ? 1.0 : mk[i];
				if(one){ term += std::fabs(w(i)*mi); tg(i) = (w(i) > 0 ? 1.0 : (w(i) < 0 ? -1.0 : 0.0))*mi; }
				else { term += mi*w(i)*w(i); tg(i) = mi*w(i); }
			}
			if(!one) term *= 0.5;
			rv += strength*term; if(deriv) noalias(rg) += strength*tg;
			v = deriv ? E.evalDerivative(w, G) : E.eval(w);
		}else if(kind == "comb"){
			if(extra.size() != 4) return "bad-op";
			double c0, c1, c2; if(!parseDy(extra[1], c0) || !parseDy(extra[2], c1) || !parseDy(extra[3], c2)) return "bad-op";
			CombinedObjectiveFunction<RealVector, double> comb; comb.add(c0, E); comb.add(c1, r2); comb.add(c2, r1);
			double t2 = 0, t1 = 0; RealVector g1(w.size());
			for(std::size_t i = 0; i != w.size(); ++i){ t2 += w(i)*w(i); t1 += std::fabs(w(i)); g1(i) = (w(i) > 0 ? 1.0 : (w(i) < 0 ? -1.0 : 0.0)); }
			rv = c0*rv + c1*(0.5*t2) + c2*t1; if(deriv){ RealVector t = c0*rg + c1*w + c2*g1; rg = t; }
			v = deriv ? comb.evalDerivative(w, G) : comb.eval(w);
		}else v = deriv ? E.evalDerivative(w, G) : E.eval(w);
		cmp(rv, rg);
		out = showRes(v, deriv ? &G : nullptr);
		// the value returned by the derivative call is the value of eval
		if(deriv && kind == "none"){ double ve = E.eval(w); if(!(ve == v) && !(std::isnan(v) && std::isnan(ve))) orc += " !oracle derivative-call-value-differs-from-eval"; }
	}else if(kind == "w"){
		if(extra.size() != n + 1) return "bad-op";
		std::vector<double> wt(n); double sw = 0;
		for(std::size_t e = 0; e != n; ++e){ if(!parseDy(extra[e+1], wt[e])) return "bad-op"; sw += wt[e]; }
		Data<double> wd(B);
		{ std::size_t e = 0; for(std::size_t b = 0; b != B; ++b){ RealVector wb(sizes[b]); for(std::size_t i = 0; i != sizes[b]; ++i, ++e) wb(i) = wt[e]; wd.batch(b) = wb; } }
		WeightedLabeledData<RealVector, LT> wds(ds, wd);
		ErrorFunction<> E(wds, net.model, &loss);
		v = deriv ? E.evalDerivative(w, G) : E.eval(w);
		double rv; RealVector rg; refMean(wt, sw, rv, rg); cmp(rv, rg);
		out = showRes(v, deriv ? &G : nullptr);
	}else if(kind == "mini"){
		if(extra.size() != 2 || B == 0) return "bad-op";
		random::rng_type rng; rng.seed((unsigned)std::stoul(extra[1]));
		ErrorFunction<> E(ds, net.model, &loss, true); E.setRng(&rng); E.init();
		std::vector<std::string> seen(B); std::size_t have = 0;
		std::vector<std::size_t> start(B+1, 0); for(std::size_t b = 0; b != B; ++b) start[b+1] = start[b] + sizes[b];
		for(std::size_t draw = 0; draw != 400 && have != B; ++draw){
			random::rng_type copy = rng; std::size_t idx = random::discrete(copy, std::size_t(0), B-1);
			v = deriv ? E.evalDerivative(w, G) : E.eval(w);
			// the mini-batch result is the mean (and mean gradient) over the drawn batch
			double rv = 0; RealVector rg(w.size(), 0.0);
			for(std::size_t e = start[idx]; e != start[idx+1]; ++e){ rv += elemLoss[e]; if(deriv) noalias(rg) += elemGrad[e]; }
			rv /= double(sizes[idx]); if(deriv) rg /= double(sizes[idx]);
			cmp(rv, rg);
			if(seen[idx].empty()){ seen[idx] = showRes(v, deriv ? &G : nullptr); ++have; }
		}
		for(std::size_t b = 0; b != B; ++b) out += (b ? " # " : "") + (seen[b].empty() ? std::string("unseen") : seen[b]);
	}else return "bad-op";
	return out + orc;
}

template<class LT, class Loss>
static std::string runEfL(bool deriv, Loss loss, Net& net, std::size_t T, std::vector<double> const& params, std::vector<std::size_t> const& sizes,
		std::vector<double> const& xs, std::vector<double> const& labs, std::vector<std::string> const& extra){
	return runEf<LT>(deriv, loss, net, T, params, sizes, xs, labs, extra);
}

// cost <loss> | par | T | sizes | m | labels | preds : AbstractLoss::eval(Data<Label>, Data<Output>)
template<class LT>
static std::string runCost(AbstractLoss<LT, RealVector>& loss, std::size_t T, std::vector<std::size_t> const& sizes, std::size_t m, std::vector<double> const& labs, std::vector<double> const& prs){
	std::size_t B = sizes.size(), n = 0; for(std::size_t s: sizes) n += s;
	if(prs.size() != n*m || labs.size() != n*LabelIO<LT>::width(m)) return "bad-op";
	Data<RealVector> pr(B); Data<LT> lab(B); std::size_t pos = 0; double direct = 0;
	for(std::size_t b = 0; b != B; ++b){
		RealMatrix P(sizes[b], m); for(std::size_t i = 0; i != sizes[b]; ++i) for(std::size_t j = 0; j != m; ++j) P(i,j) = prs[(pos+i)*m+j];
		pr.batch(b) = P; typename LabelIO<LT>::Batch lb; LabelIO<LT>::make(labs, pos, sizes[b], m, lb); lab.batch(b) = lb;
		for(std::size_t i = 0; i != sizes[b]; ++i){ RealVector p = row(P, i); direct += loss.eval(getBatchElement(lb, i), p); }
		pos += sizes[b];
	}
	omp_set_num_threads((int)T);
	double v = loss.eval(lab, pr);
	std::string out = "V=" + vh::exactDouble(v);
	double ref = direct / double(n);
	if(!(v == ref) && !(std::isnan(v) && std::isnan(ref))) out += " !oracle cost-differs-from-mean-loss";
	return out;
}


// ---------------------------------------------------------------------------------------------------------------------
// efh: call histories on several ErrorFunction objects that share ONE model object (Model/ErrFnHist.lean).
// efh vec|cls | nIn layers.. | T | points (flat, np each) | X | labels | partitions (';'-separated) | weights | strength mask.. |
//     objects (';'-separated: plain|w|mini loss par|- partition none|one|two) | steps (';'-separated:
//     e o pt | d o pt | set pt | copy o | asg dst src | init o | thr T)
// Output: the results of the e/d steps joined by " ## "; a mini-batch step prints "{@<drawn batch> result}".
// Oracle: every e/d step is repeated on a freshly built model + loss + data set + ErrorFunction of the same flavour.
template<class LT> struct LossFactory;
template<> struct LossFactory<RealVector>{
	static AbstractLoss<RealVector, RealVector>* make(std::string const& name, double par){
		if(name == "squared") return new SquaredLoss<>();
		if(name == "epshinge") return new EpsilonHingeLoss(par);
		if(name == "sqepshinge") return new SquaredEpsilonHingeLoss(par);
		return nullptr;
	}
};
template<> struct LossFactory<unsigned int>{
	static AbstractLoss<unsigned int, RealVector>* make(std::string const& name, double){
		if(name == "squaredclass") return new SquaredLoss<RealVector, unsigned int>();
		if(name == "hinge") return new HingeLoss();
		if(name == "sqhinge") return new SquaredHingeLoss();
		return nullptr;
	}
};
static std::vector<std::vector<std::string> > splitSemi(std::vector<std::string> const& t){
	std::vector<std::vector<std::string> > r(1);
	for(auto const& w: t){ if(w == ";") r.push_back(std::vector<std::string>()); else r.back().push_back(w); }
	if(r.size() == 1 && r[0].empty()) r.clear();
	return r;
}
template<class LT>
static bool makeData(std::vector<std::size_t> const& sizes, std::vector<double> const& xs, std::vector<double> const& labs, std::size_t nIn, std::size_t m,
		LabeledData<RealVector, LT>& ds, std::size_t onlyBatch = std::size_t(-1)){
	std::size_t B = sizes.size();
	std::vector<RealMatrix> ins; std::vector<typename LabelIO<LT>::Batch> lbs; std::size_t pos = 0;
	for(std::size_t b = 0; b != B; ++b){
		RealMatrix X(sizes[b], nIn); for(std::size_t i = 0; i != sizes[b]; ++i) for(std::size_t j = 0; j != nIn; ++j) X(i,j) = xs[(pos+i)*nIn+j];
		typename LabelIO<LT>::Batch lb; if(!LabelIO<LT>::make(labs, pos, sizes[b], m, lb)) return false;
		if(onlyBatch == std::size_t(-1) || onlyBatch == b){ ins.push_back(X); lbs.push_back(lb); }
		pos += sizes[b];
	}
	Data<RealVector> in(ins.size()); Data<LT> lab(ins.size());
	for(std::size_t b = 0; b != ins.size(); ++b){ in.batch(b) = ins[b]; lab.batch(b) = lbs[b]; }
	ds = LabeledData<RealVector, LT>(in, lab);
	return true;
}
static Data<double> makeWeights(std::vector<std::size_t> const& sizes, std::vector<double> const& wt){
	Data<double> wd(sizes.size()); std::size_t e = 0;
	for(std::size_t b = 0; b != sizes.size(); ++b){ RealVector wb(sizes[b]); for(std::size_t i = 0; i != sizes[b]; ++i, ++e) wb(i) = wt[e]; wd.batch(b) = wb; }
	return wd;
}

// Does the copy constructor of ErrorFunction initialise every member?  The copy is constructed twice by placement new into
// buffers pre-filled with two different byte patterns; a word that shows the first pattern in the first copy and the second
// pattern in the second copy was never written (finding F-C06-7: m_regularizer / m_regularizationStrength).
static bool efCopyInitialisesAllMembers(){
	static int cached = -1; if(cached >= 0) return cached == 1;
	LinearModel<> model(1, 1, false); SquaredLoss<> loss; Data<RealVector> in(1), lab(1);
	in.batch(0) = RealMatrix(1, 1, 1.0); lab.batch(0) = RealMatrix(1, 1, 0.0);
	LabeledData<RealVector, RealVector> ds(in, lab);
	ErrorFunction<> E(ds, &model, &loss); TwoNormRegularizer<> r; E.setRegularizer(0.5, &r);
	alignas(16) static unsigned char bufA[sizeof(ErrorFunction<>)], bufB[sizeof(ErrorFunction<>)];
	std::memset(bufA, 0xAB, sizeof bufA); std::memset(bufB, 0xCD, sizeof bufB);
	ErrorFunction<>* a = new (bufA) ErrorFunction<>(E); ErrorFunction<>* b = new (bufB) ErrorFunction<>(E);
	bool ok = true;
	// only the members ErrorFunction itself declares (they follow the base-class subobject); the base class is default-constructed
	for(std::size_t w = (sizeof(AbstractObjectiveFunction<RealVector, double>) + 7) / 8 * 8; w + 8 <= sizeof bufA; w += 8){
		unsigned long long x, y; std::memcpy(&x, bufA + w, 8); std::memcpy(&y, bufB + w, 8);
		if(x == 0xABABABABABABABABull && y == 0xCDCDCDCDCDCDCDCDull) ok = false;
	}
	a->~ErrorFunction(); b->~ErrorFunction();
	cached = ok ? 1 : 0; return ok;
}

template<class LT>
struct HistObj{
	std::shared_ptr<ErrorFunction<> > ef;
	std::string flavour, lossName, regKind; double par; std::size_t part;
	std::shared_ptr<AbstractLoss<LT, RealVector> > loss;
	std::shared_ptr<random::rng_type> rng;
};
template<class LT>
static std::string runEfh(Secs const& secs){
	Net net; if(!net.build(secs[1])) return "bad-op";
	std::size_t np = net.model->numberOfParameters(), nIn = net.nIn, m = net.nOut;
	std::vector<std::size_t> tv; std::vector<double> ptsFlat, xs, labs, wt, regv;
	if(!vh::allNat(secs[2], 0, tv) || tv.size() != 1 || !nums(secs[3], ptsFlat) || !nums(secs[4], xs) || !nums(secs[5], labs) || !nums(secs[7], wt) || !nums(secs[8], regv)) return "bad-op";
	if(np == 0 || ptsFlat.size() % np != 0 || ptsFlat.empty() || xs.size() % nIn != 0) return "bad-op";
	std::size_t n = xs.size() / nIn; if(n == 0 || labs.size() != n*LabelIO<LT>::width(m)) return "bad-op";
	std::vector<RealVector> pts; for(std::size_t k = 0; k != ptsFlat.size()/np; ++k){ RealVector p(np); for(std::size_t i = 0; i != np; ++i) p(i) = ptsFlat[k*np+i]; pts.push_back(p); }
	std::vector<std::vector<std::size_t> > parts;
	for(auto const& t: splitSemi(secs[6])){ std::vector<std::size_t> sz; if(!vh::allNat(t, 0, sz) || sz.empty()) return "bad-op"; std::size_t tot = 0; for(std::size_t x: sz) tot += x; if(tot != n) return "bad-op"; parts.push_back(sz); }
	if(!wt.empty() && wt.size() != n) return "bad-op";
	if(regv.empty() || (regv.size() != 1 && regv.size() != 1 + np)) return "bad-op";
	double strength = regv[0]; RealVector mask(regv.size() - 1); for(std::size_t i = 0; i != mask.size(); ++i) mask(i) = regv[1+i];
	auto setup = [&](OneNormRegularizer<>& r1, TwoNormRegularizer<>& r2){ if(mask.size()){ r1.setMask(mask); r2.setMask(mask); } };
	OneNormRegularizer<> r1; TwoNormRegularizer<> r2; setup(r1, r2);
	auto build = [&](HistObj<LT>& o, AnyModel* model, AbstractLoss<LT, RealVector>* loss, OneNormRegularizer<>& q1, TwoNormRegularizer<>& q2, std::size_t onlyBatch) -> ErrorFunction<>* {
		LabeledData<RealVector, LT> ds; if(!makeData<LT>(parts[o.part], xs, labs, nIn, m, ds, onlyBatch)) return nullptr;
		ErrorFunction<>* e = nullptr;
		if(o.flavour == "w"){ WeightedLabeledData<RealVector, LT> wds(ds, makeWeights(parts[o.part], wt)); e = new ErrorFunction<>(wds, model, loss); }
		else if(o.flavour == "mini" && onlyBatch == std::size_t(-1)){ e = new ErrorFunction<>(ds, model, loss, true); e->setRng(o.rng.get()); e->init(); }
		else e = new ErrorFunction<>(ds, model, loss);
		if(o.regKind == "one") e->setRegularizer(strength, &q1); else if(o.regKind == "two") e->setRegularizer(strength, &q2);
		return e;
	};
	std::vector<HistObj<LT> > objs;
	for(auto const& t: splitSemi(secs[9])){
		if(t.size() != 5) return "bad-op";
		HistObj<LT> o; o.flavour = t[0]; o.lossName = t[1]; o.par = 0; o.regKind = t[4];
		if(t[2] != "-" && !parseDy(t[2], o.par)) return "bad-op";
		try{ o.part = std::stoul(t[3]); }catch(...){ return "bad-op"; }
		if(o.part >= parts.size() || (o.flavour != "plain" && o.flavour != "w" && o.flavour != "mini") || (o.flavour == "w" && wt.empty())) return "bad-op";
		o.loss.reset(LossFactory<LT>::make(o.lossName, o.par)); if(!o.loss) return "bad-op";
		o.rng.reset(new random::rng_type()); o.rng->seed(1000u + (unsigned)objs.size());
		ErrorFunction<>* e = build(o, net.model, o.loss.get(), r1, r2, std::size_t(-1)); if(!e) return "bad-op";
		o.ef.reset(e); objs.push_back(o);
	}
	if(objs.empty()) return "bad-op";
	std::size_t T = tv[0]; omp_set_num_threads((int)T);
	std::string out, orc; bool first = true;
	for(auto const& t: splitSemi(secs[10])){
		if(t.empty()) return "bad-op";
		std::vector<std::size_t> a; std::vector<std::string> rest(t.begin() + 1, t.end());
		if(!vh::allNat(rest, 0, a)) return "bad-op";
		if((t[0] == "e" || t[0] == "d") && a.size() == 2 && a[0] < objs.size() && a[1] < pts.size()){
			bool deriv = t[0] == "d"; HistObj<LT>& o = objs[a[0]]; RealVector const& p = pts[a[1]];
			std::size_t B = parts[o.part].size(), idx = std::size_t(-1);
			if(o.flavour == "mini"){ random::rng_type copy = *o.rng; idx = random::discrete(copy, std::size_t(0), B - 1); }
			RealVector G; double v = deriv ? o.ef->evalDerivative(p, G) : o.ef->eval(p);
			std::string res = showRes(v, deriv ? &G : nullptr);
			out += (first ? "" : " ## ") + ("{@" + std::to_string(o.flavour == "mini" ? idx : 0) + " " + res + "}"); first = false;
			// the same call on fresh objects
			Net fresh; fresh.build(secs[1]);
			std::unique_ptr<AbstractLoss<LT, RealVector> > loss2(LossFactory<LT>::make(o.lossName, o.par));
			OneNormRegularizer<> q1; TwoNormRegularizer<> q2; setup(q1, q2);
			std::unique_ptr<ErrorFunction<> > F(build(o, fresh.model, loss2.get(), q1, q2, idx));
			RealVector Gf; double vf = deriv ? F->evalDerivative(p, Gf) : F->eval(p);
			bool same = (v == vf || (std::isnan(v) && std::isnan(vf))) && G.size() == Gf.size();
			for(std::size_t i = 0; same && i != G.size(); ++i) if(!(G(i) == Gf(i)) && !(std::isnan(G(i)) && std::isnan(Gf(i)))) same = false;
			if(!same && orc.empty()) orc = " !oracle result-depends-on-history";
		}
		else if(t[0] == "set" && a.size() == 1 && a[0] < pts.size()) net.model->setParameterVector(pts[a[0]]);
		else if(t[0] == "copy" && a.size() == 1 && a[0] < objs.size() && !efCopyInitialisesAllMembers()) return "unavailable";   // evaluating such a copy is undefined behaviour (F-C06-7)
		else if(t[0] == "copy" && a.size() == 1 && a[0] < objs.size()){ HistObj<LT> c = objs[a[0]]; c.ef.reset(new ErrorFunction<>(*objs[a[0]].ef)); objs.push_back(c); }
		else if(t[0] == "asg" && a.size() == 2 && a[0] < objs.size() && a[1] < objs.size()){
#ifdef C06_HAVE_EF_ASSIGN
			std::shared_ptr<ErrorFunction<> > keep = objs[a[0]].ef; *keep = *objs[a[1]].ef;
			objs[a[0]] = objs[a[1]]; objs[a[0]].ef = keep;
#else
			return "unavailable";     // ErrorFunction::operator= cannot be instantiated on this tree (finding F-C06-6)
#endif
		}
		else if(t[0] == "init" && a.size() == 1 && a[0] < objs.size()){ if(objs[a[0]].flavour == "mini") objs[a[0]].ef->setRng(objs[a[0]].rng.get()); objs[a[0]].ef->init(); }
		else if(t[0] == "thr" && a.size() == 1 && a[0] >= 1){ T = a[0]; omp_set_num_threads((int)T); }
		else return "bad-op";
	}
	return (first ? std::string("none") : out) + orc;
}

bool c06b_dispatch(Secs const& secs, bool floatMode, std::string& out){
	(void)floatMode;
	if(secs.empty() || secs[0].empty()) return false;
	std::string const& op = secs[0][0];
	if(op == "ef" && secs.size() == 9 && secs[0].size() == 2 && !secs[1].empty()){
		out = "bad-op";
		bool deriv = secs[0][1] == "deriv";
		Net net; if(!net.build(secs[2])) return true;
		std::vector<std::size_t> tv, sizes; std::vector<double> params, xs, labs, par;
		if(!vh::allNat(secs[3], 0, tv) || tv.size() < 1 || !nums(secs[4], params) || !vh::allNat(secs[5], 0, sizes) || !nums(secs[6], xs) || !nums(secs[7], labs)) return true;
		std::vector<std::string> p1(secs[1].begin() + 1, secs[1].end()); if(!nums(p1, par)) return true;
		std::string const& loss = secs[1][0];
		try{
			if(loss == "squared") out = runEfL<RealVector>(deriv, SquaredLoss<>(), net, tv[0], params, sizes, xs, labs, secs[8]);
			else if(loss == "squaredclass") out = runEfL<unsigned int>(deriv, SquaredLoss<RealVector, unsigned int>(), net, tv[0], params, sizes, xs, labs, secs[8]);
			else if(loss == "hinge") out = runEfL<unsigned int>(deriv, HingeLoss(), net, tv[0], params, sizes, xs, labs, secs[8]);
			else if(loss == "sqhinge") out = runEfL<unsigned int>(deriv, SquaredHingeLoss(), net, tv[0], params, sizes, xs, labs, secs[8]);
			else if(loss == "epshinge" && par.size() == 1) out = runEfL<RealVector>(deriv, EpsilonHingeLoss(par[0]), net, tv[0], params, sizes, xs, labs, secs[8]);
			else if(loss == "sqepshinge" && par.size() == 1) out = runEfL<RealVector>(deriv, SquaredEpsilonHingeLoss(par[0]), net, tv[0], params, sizes, xs, labs, secs[8]);
		}catch(shark::Exception const& e){ out = std::string("exception"); }
		return true;
	}
	if(op == "efcopyprobe" && secs.size() == 1){
		out = efCopyInitialisesAllMembers() ? "copy-initialises-all-members" : "copy-leaves-members-uninitialised !oracle F-C06-7-errorfunction-copy-leaves-regularizer-uninitialised";
		return true;
	}
	if(op == "efh" && secs.size() == 11 && secs[0].size() == 2){
		out = "bad-op";
		try{
			if(secs[0][1] == "vec") out = runEfh<RealVector>(secs);
			else if(secs[0][1] == "cls") out = runEfh<unsigned int>(secs);
		}catch(shark::Exception const&){ out = "exception"; }
		return true;
	}
	if(op == "cost" && secs.size() == 7 && secs[0].size() == 2){
		out = "bad-op";
		std::vector<std::size_t> tv, sizes, mv; std::vector<double> par, labs, prs;
		if(!nums(secs[1], par) || !vh::allNat(secs[2], 0, tv) || tv.size() < 1 || !vh::allNat(secs[3], 0, sizes) || !vh::allNat(secs[4], 0, mv) || mv.size() != 1 || !nums(secs[5], labs) || !nums(secs[6], prs)) return true;
		std::string const& loss = secs[0][1];
		if(loss == "squared"){ SquaredLoss<> l; out = runCost<RealVector>(l, tv[0], sizes, mv[0], labs, prs); }
		else if(loss == "hinge"){ HingeLoss l; out = runCost<unsigned int>(l, tv[0], sizes, mv[0], labs, prs); }
		else if(loss == "zeroone"){ ZeroOneLoss<unsigned int, RealVector> l(par.empty() ? 0.0 : par[0]); out = runCost<unsigned int>(l, tv[0], sizes, mv[0], labs, prs); }
		else if(loss == "epshinge" && par.size() == 1){ EpsilonHingeLoss l(par[0]); out = runCost<RealVector>(l, tv[0], sizes, mv[0], labs, prs); }
		return true;
	}
	if((op == "auc" || op == "wmw") && secs.size() == 4 && secs[0].size() == 2){
		// auc|wmw invert | sizes | labels | scores   (one prediction column)
		out = "bad-op";
		std::vector<std::size_t> sizes, lc; std::vector<double> sc;
		if(!vh::allNat(secs[1], 0, sizes) || !vh::allNat(secs[2], 0, lc) || !nums(secs[3], sc) || lc.size() != sc.size()) return true;
		std::size_t B = sizes.size(), n = 0; for(std::size_t s: sizes) n += s;
		if(n != lc.size() || n == 0) return true;
		bool invert = secs[0][1] == "1";
		Data<unsigned int> lab(B); Data<RealVector> pr(B); std::size_t pos = 0;
		for(std::size_t b = 0; b != B; ++b){
			UIntVector l(sizes[b]); RealMatrix P(sizes[b], 1);
			for(std::size_t i = 0; i != sizes[b]; ++i){ l(i) = (unsigned)lc[pos+i]; P(i,0) = sc[pos+i]; }
			lab.batch(b) = l; pr.batch(b) = P; pos += sizes[b];
		}
		// definition: fraction of (positive, negative) pairs ranked correctly, ties count one half (auc) / zero (wmw)
		double pairs = 0, ties = 0, P = 0, N = 0;
		for(std::size_t i = 0; i != n; ++i){ if(lc[i] > 0) ++P; else ++N; }
		for(std::size_t i = 0; i != n; ++i) for(std::size_t j = 0; j != n; ++j) if(lc[i] > 0 && !(lc[j] > 0)){
			double a = invert ? -sc[i] : sc[i], b = invert ? -sc[j] : sc[j];
			if(a > b) pairs += 1; else if(a == b) ties += 1;
		}
		double v;
		if(op == "auc"){
			NegativeAUC<unsigned int, RealVector> auc(invert); v = auc.eval(lab, pr);
			double ref = -(pairs + 0.5*ties) / (P*N);
			out = "V=" + vh::exactDouble(v);
			if(P > 0 && N > 0 && std::fabs(v - ref) > 1e-12) out += " !oracle auc-differs-from-pair-count";
		}else{
#ifdef C06_HAVE_WMW
			NegativeWilcoxonMannWhitneyStatistic<unsigned int, RealVector> w(invert); v = w.eval(lab, pr);
			double ref = -pairs / (P*N);
			out = "V=" + vh::exactDouble(v);
			if(P > 0 && N > 0 && std::fabs(v - ref) > 1e-12) out += " !oracle wmw-differs-from-pair-count";
#else
			out = "unavailable";
#endif
		}
		return true;
	}
	if(op == "zow" && secs.size() == 7){
		// zow | threshold | sizes | m | labels | preds | weights : ZeroOneLoss::eval(Data, Data, weights)
		out = "bad-op";
		std::vector<std::size_t> sizes, mv, lc; std::vector<double> thr, prs, wt;
		if(!nums(secs[1], thr) || thr.size() != 1 || !vh::allNat(secs[2], 0, sizes) || !vh::allNat(secs[3], 0, mv) || mv.size() != 1 || !vh::allNat(secs[4], 0, lc) || !nums(secs[5], prs) || !nums(secs[6], wt)) return true;
		std::size_t B = sizes.size(), n = 0, m = mv[0]; for(std::size_t s: sizes) n += s;
		if(lc.size() != n || prs.size() != n*m || wt.size() != n || n == 0) return true;
		ZeroOneLoss<unsigned int, RealVector> l(thr[0]);
		Data<unsigned int> lab(B); Data<RealVector> pr(B); std::size_t pos = 0;
		double perElement = 0, perBatch = 0;
		for(std::size_t b = 0; b != B; ++b){
			UIntVector lb(sizes[b]); RealMatrix P(sizes[b], m);
			for(std::size_t i = 0; i != sizes[b]; ++i){ lb(i) = (unsigned)lc[pos+i]; for(std::size_t j = 0; j != m; ++j) P(i,j) = prs[(pos+i)*m+j]; }
			lab.batch(b) = lb; pr.batch(b) = P;
			for(std::size_t i = 0; i != sizes[b]; ++i){ RealVector p = row(P, i); double e = l.eval(lb(i), p); perElement += wt[pos+i]*e; perBatch += wt[b]*e; }
			pos += sizes[b];
		}
		RealVector w(n); for(std::size_t i = 0; i != n; ++i) w(i) = wt[i];
		double v = l.eval(lab, pr, w);
		out = "V=" + vh::exactDouble(v);
		if(v != perElement / double(n)){
			if(v == perBatch / double(n)) out += " !oracle F-C06-1-weights-indexed-by-batch";
			else out += " !oracle weighted-zero-one-differs-from-weighted-mean";
		}
		return true;
	}
	if(op == "nll" && secs.size() == 6 && secs[0].size() == 2){
		// nll eval|deriv | nIn layers.. | T | params | sizes | X     (float mode; bit comparison with one thread, thread sweep in the oracle)
		out = "bad-op";
		bool deriv = secs[0][1] == "deriv";
		Net net; if(!net.build(secs[1]) || net.nOut != 1) return true;
		std::vector<std::size_t> tv, sizes; std::vector<double> params, xs;
		if(!vh::allNat(secs[2], 0, tv) || tv.size() != 1 || !nums(secs[3], params) || !vh::allNat(secs[4], 0, sizes) || !nums(secs[5], xs)) return true;
		std::size_t B = sizes.size(), n = 0; for(std::size_t s: sizes) n += s;
		if(xs.size() != n*net.nIn || params.size() != net.model->numberOfParameters() || n == 0) return true;
		Data<RealVector> in(B); std::size_t pos = 0;
		for(std::size_t b = 0; b != B; ++b){ RealMatrix X(sizes[b], net.nIn); for(std::size_t i = 0; i != sizes[b]; ++i) for(std::size_t j = 0; j != net.nIn; ++j) X(i,j) = xs[(pos+i)*net.nIn+j]; in.batch(b) = X; pos += sizes[b]; }
		RealVector w(params.size()); for(std::size_t i = 0; i != params.size(); ++i) w(i) = params[i];
		NegativeLogLikelihood nll(in, net.model);
		omp_set_num_threads(1);
		RealVector G; double v = deriv ? nll.evalDerivative(w, G) : nll.eval(w);
		out = showRes(v, deriv ? &G : nullptr);
		// definition, element by element
		net.model->setParameterVector(w);
		long double s = 0; for(std::size_t b = 0; b != B; ++b){ RealMatrix P = (*net.model)(in.batch(b)); for(std::size_t i = 0; i != P.size1(); ++i) s += std::log(std::max((long double)P(i,0), 1e-100L)); }
		double ref = (double)(-s / (long double)n);
		if(std::fabs(v - ref) > 1e-11*(1+std::fabs(ref))) out += " !oracle nll-differs-from-definition";
		omp_set_num_threads((int)tv[0]);
		RealVector G2; double v2 = deriv ? nll.evalDerivative(w, G2) : nll.eval(w);
		if(std::fabs(v - v2) > 1e-12*(1+std::fabs(v))) out += " !oracle nll-depends-on-thread-count";
		if(deriv) for(std::size_t i = 0; i != G.size(); ++i) if(std::fabs(G(i) - G2(i)) > 1e-11*(1+std::fabs(G(i)))){ out += " !oracle nll-gradient-depends-on-thread-count"; break; }
		double ve = nll.eval(w); if(deriv && std::fabs(ve - v) > 1e-12*(1+std::fabs(v))) out += " !oracle derivative-call-value-differs-from-eval";
		return true;
	}
	return false;
}
