// K-C12: correspondence harness for include/shark/Data/CVDatasetTools.h.
// Same line protocol as lean/Driver/C12.lean (every op line is self-contained).
// argv[1]: uint | real | sparse | blob  (input element type; blob = user struct in std::vector batches).  The RNG-dependent functions are seeded from
// the op line; what the real code drew is *observed* from the result and printed as obs=[…]
// (tools/obsfeed.py feeds it to the Lean driver, which checks it against the model's relation).
// Independent oracle: disjointness / cover / complement / pairing / balance / shape, evaluated on the
// real folds against the flat std::vector the dataset was built from.
#include "dscodec.hpp"
#include <shark/Data/CVDatasetTools.h>
#include <map>

template<class I>
struct H{
	typedef LabeledData<I, unsigned int> DS;
	std::string msg;
	void fail(std::string const& t){ msg += " !oracle " + t; }

	static Flat flat(DS const& s){
		Flat f;
		for(std::size_t b = 0; b != s.numberOfBatches(); ++b){
			auto const& batch = s.batch(b);
			for(std::size_t i = 0; i != batchSize(batch); ++i){
				auto e = getBatchElement(batch, i);
				f.push_back(Elem(Codec<I>::dec(e.input), e.label));
			}
		}
		return f;
	}
	static std::string showDS(DS const& s){
		std::ostringstream os;
		os << "{ish=" << showShape(s.inputShape()) << " lsh=" << showShape(s.labelShape())
		   << " part=" << showNats(s.inputs().getPartitioning()) << " lpart=" << showNats(s.labels().getPartitioning())
		   << " el=" << showEls(flat(s)) << "}";
		return os.str();
	}
	static Flat sorted(Flat f){ std::sort(f.begin(), f.end()); return f; }

	std::string showFolds(CVFolds<DS> const& folds, Flat const& orig, Shape const& origShape, std::size_t k, std::size_t bs,
	                      bool sameSize, bool balanced, std::vector<std::size_t> const* wanted){
		std::ostringstream os;
		DS const& set = folds.dataset();
		os << "DS" << showDS(set);
		if(folds.size() != k) fail("number-of-folds");
		Flat all; std::vector<std::size_t> seenBatch(set.numberOfBatches(), 0);
		std::size_t minSize = (std::size_t)-1, maxSize = 0;
		std::map<unsigned, std::pair<std::size_t, std::size_t> > classMinMax;
		std::vector<std::map<unsigned, std::size_t> > perFoldClass(folds.size());
		for(std::size_t i = 0; i != folds.size(); ++i){
			std::vector<std::size_t> v = folds.validationFoldIndices(i), t = folds.trainingFoldIndices(i);
			DS val = folds.validation(i), train = folds.training(i);
			os << " F" << i << "{v=" << showNats(v) << " t=" << showNats(t) << " val=" << showDS(val) << " train=" << showDS(train) << "}";
			Flat fv = flat(val), ft = flat(train);
			for(std::size_t b: v){ if(b >= seenBatch.size()) fail("validation-batch-out-of-range"); else ++seenBatch[b]; }
			all.insert(all.end(), fv.begin(), fv.end());
			// training = complement of validation: together they are exactly the original elements with their labels
			Flat both = fv; both.insert(both.end(), ft.begin(), ft.end());
			if(sorted(both) != sorted(orig)) fail("training-is-not-complement fold=" + std::to_string(i));
			std::vector<std::size_t> vt = v; vt.insert(vt.end(), t.begin(), t.end()); std::sort(vt.begin(), vt.end());
			for(std::size_t b = 0; b != vt.size(); ++b) if(vt[b] != b){ fail("fold-indices-not-a-partition fold=" + std::to_string(i)); break; }
			if(vt.size() != set.numberOfBatches()) fail("fold-indices-count fold=" + std::to_string(i));
			minSize = std::min(minSize, fv.size()); maxSize = std::max(maxSize, fv.size());
			for(Elem const& e: fv) perFoldClass[i][e.second]++;
			if(bs) for(std::size_t s: val.getPartitioning()) if(s > bs) fail("batch-larger-than-maximum");
			if(val.inputShape() != origShape || train.inputShape() != origShape) fail("fold-shape-lost fold=" + std::to_string(i));
			if(wanted) for(Elem const& e: fv) if((*wanted)[e.first] != i) fail("element-in-wrong-fold id=" + std::to_string(e.first));
		}
		for(std::size_t b = 0; b != seenBatch.size(); ++b) if(seenBatch[b] != 1){ fail("validation-parts-not-disjoint-cover batch=" + std::to_string(b)); break; }
		if(sorted(all) != sorted(orig)) fail("validation-union-differs-from-original");
		if(sorted(flat(set)) != sorted(orig)) fail("reorganised-dataset-differs-from-original");
		if(set.inputShape() != origShape) fail("dataset-shape-lost");
		if((sameSize || balanced) && maxSize > minSize + 1) fail("fold-sizes-differ-by-more-than-one");
		if(balanced){
			std::map<unsigned, bool> classes; for(Elem const& e: orig) classes[e.second] = true;
			for(auto const& c: classes){
				std::size_t lo = (std::size_t)-1, hi = 0;
				for(std::size_t i = 0; i != folds.size(); ++i){
					std::size_t n = perFoldClass[i].count(c.first) ? perFoldClass[i][c.first] : 0;
					lo = std::min(lo, n); hi = std::max(hi, n);
				}
				if(hi > lo + 1) fail("class-balance class=" + std::to_string(c.first));
			}
		}
		for(Elem const& e: all) if(e.first == BAD){ fail("element-corrupted"); break; }
		return os.str();
	}

	// fold of every original element, read off the result (ids are the original positions)
	static std::vector<std::size_t> foldOf(CVFolds<DS> const& folds, std::size_t n){
		std::vector<std::size_t> r(n, 0);
		for(std::size_t i = 0; i != folds.size(); ++i) for(Elem const& e: flat(folds.validation(i))) if(e.first < n) r[e.first] = i;
		return r;
	}

	std::string exec(std::string const& op, std::vector<std::size_t> const& a){
		if(a.size() < 4) return "undefined";
		std::size_t k = a[0], bs = a[1], m0 = a[2], n = a[3];
		bool rng = (op == "iid" || op == "samesize" || op == "balanced" || op == "batch");
		std::size_t off = rng ? 5 : 4;
		if(n == 0 || a.size() < off + n) return "undefined";
		if(rng && k == 0) return "undefined";
		if(op != "batch" && bs == 0) return "undefined";
		std::vector<I> in; std::vector<unsigned int> lab; Flat orig;
		for(std::size_t i = 0; i != n; ++i){
			in.push_back(Codec<I>::enc(i)); lab.push_back((unsigned int)a[off + i]); orig.push_back(Elem(i, (unsigned int)a[off + i]));
		}
		DS set = createLabeledDataFromRange(in, lab, m0);
		Shape origShape = set.inputShape();
		if(rng) random::globalRng.seed((unsigned)a[4]);
		std::ostringstream os;
		if(op == "indexed"){
			if(a.size() != 4 + 2 * n) return "undefined";
			std::vector<std::size_t> idx(a.begin() + 4 + n, a.end());
			for(std::size_t x: idx) if(x >= k) return "undefined";
			CVFolds<DS> f = createCVIndexed(set, k, idx, bs);
			os << showFolds(f, orig, origShape, k, bs, false, false, &idx);
		}else if(op == "fully"){
			if(a.size() != 4 + 3 * n) return "undefined";
			RecreationIndices ri;
			ri.first.assign(a.begin() + 4 + n, a.begin() + 4 + 2 * n); ri.second.assign(a.begin() + 4 + 2 * n, a.end());
			for(std::size_t x: ri.first) if(x >= n) return "undefined";
			for(std::size_t x: ri.second) if(x >= k) return "undefined";
			bool isPerm = true; { std::vector<std::size_t> s = ri.first; std::sort(s.begin(), s.end()); for(std::size_t i = 0; i != n; ++i) if(s[i] != i) isPerm = false; }
			CVFolds<DS> f = createCVFullyIndexed(set, k, ri, bs);
			if(isPerm){
				std::vector<std::size_t> wanted(n); for(std::size_t j = 0; j != n; ++j) wanted[ri.first[j]] = ri.second[j];
				os << showFolds(f, orig, origShape, k, bs, false, false, &wanted);
			}else{  // order vector with repetitions: a gather, not a partition of the original — compare with the gathered multiset
				Flat g; for(std::size_t j = 0; j != n; ++j) g.push_back(orig[ri.first[j]]);
				os << showFolds(f, g, origShape, k, bs, false, false, 0);
			}
		}else if(op == "iid"){
			CVFolds<DS> f = createCVIID(set, k, bs);
			std::vector<std::size_t> drawn = foldOf(f, n);
			os << "obs=" << showNats(drawn) << " " << showFolds(f, orig, origShape, k, bs, false, false, &drawn);
		}else if(op == "samesize"){
			CVFolds<DS> f = createCVSameSize(set, k, bs);
			Flat after = flat(f.dataset());
			std::vector<std::size_t> p; for(Elem const& e: after) p.push_back(e.first);
			os << "obs=" << showNats(p) << " " << showFolds(f, orig, origShape, k, bs, true, false, 0);
		}else if(op == "balanced"){
			RecreationIndices ri;
			CVFolds<DS> f = createCVSameSizeBalanced(set, k, bs, &ri);
			os << "obs=" << showNats(ri.first) << " rec=" << showNats(ri.first) << "/" << showNats(ri.second) << " "
			   << showFolds(f, orig, origShape, k, bs, true, true, 0);
			// the recreation indices must describe the folds that were built
			std::vector<std::size_t> got = foldOf(f, n);
			if(ri.first.size() != n || ri.second.size() != n) fail("recreation-indices-size");
			else for(std::size_t j = 0; j != n; ++j) if(ri.first[j] >= n || got[ri.first[j]] != ri.second[j]){ fail("recreation-indices-wrong"); break; }
		}else if(op == "batch"){
			DS const& cset = set;
			CVFolds<DS> f = createCVBatch(cset, k);
			std::vector<std::size_t> p;
			for(std::size_t i = 0; i != f.size(); ++i) for(std::size_t b: f.validationFoldIndices(i)) p.push_back(b);
			os << "obs=" << showNats(p) << " " << showFolds(f, orig, origShape, k, 0, false, false, 0);
			std::size_t lo = (std::size_t)-1, hi = 0;
			for(std::size_t i = 0; i != f.size(); ++i){ lo = std::min(lo, f.validationFoldIndices(i).size()); hi = std::max(hi, f.validationFoldIndices(i).size()); }
			if(hi > lo + 1) fail("batch-fold-sizes-differ-by-more-than-one");
		}else return "undefined";
		return "ok " + os.str();
	}

	int run(){
		std::string line;
		while(std::getline(std::cin, line)){
			std::string body = line.substr(0, line.find('!'));
			std::vector<std::string> t = vh::tokens(body);
			if(t.empty()){ std::cout << "\n"; continue; }
			std::vector<std::size_t> a;
			if(!vh::allNat(t, 1, a)){ std::cout << "bad-op" << std::endl; continue; }
			msg.clear();
			std::string out;
			try{ out = exec(t[0], a); }
			catch(shark::Exception const& e){ out = "exception"; }
			std::cout << out << msg << std::endl;
		}
		return 0;
	}
};

int main(int argc, char** argv){
	std::string ty = argc > 1 ? argv[1] : "uint";
	if(ty == "uint"){ H<unsigned int> h; return h.run(); }
	if(ty == "real"){ H<RealVector> h; return h.run(); }
	if(ty == "sparse"){ H<CompressedRealVector> h; return h.run(); }
	if(ty == "blob"){ H<Blob> h; return h.run(); }
	std::cerr << "unknown element type " << ty << std::endl;
	return 2;
}
