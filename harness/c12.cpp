// K-C12: correspondence harness for include/shark/Data/CVDatasetTools.h.
// Same line protocol as lean/Driver/C12.lean (constructor lines are self-contained, follow-up lines work on the state).
// argv[1]: uint | real | sparse | blob  (input element type; blob = user struct in std::vector batches)
// argv[2]: cls | reg                    (label type: unsigned int class labels | RealVector regression labels)
// Three binaries are built from this file: c12 (class labels), c12reg (-DC12_REG: regression labels) and c12dbg
// (-UNDEBUG: the SIZE_CHECK / SHARK_ASSERT / RANGE_CHECK assertions of a debug build are active).
// The RNG-dependent functions are seeded from the op line; what the real code drew is *observed* from the result and
// printed as obs=[…] (tools/obsfeed.py feeds it to the Lean driver, which checks it against the model's relation).
// Independent oracle: disjointness / cover / complement / pairing / fold sizes / class balance / batch layout / requested
// fold / shape / repeatability, evaluated on the real folds against the flat element list of the dataset the folds were
// built from and against the batches of folds.dataset().
#include "dscodec.hpp"
#include <shark/Data/CVDatasetTools.h>
#include <shark/Data/WeightedDataset.h>
#include <map>
#include <type_traits>

static const unsigned BADL = 4294967295u;
template<class L> struct LCodec;
template<> struct LCodec<unsigned int>{
	static unsigned int enc(unsigned c){ return c; }
	template<class X> static unsigned dec(X const& x){ return (unsigned)x; }
};
template<> struct LCodec<RealVector>{
	static RealVector enc(unsigned c){ RealVector v(2); v(0) = c; v(1) = c + 0.25; return v; }
	template<class X> static unsigned dec(X const& x){
		if(x.size() != 2) return BADL;
		unsigned c = (unsigned)x(0);
		if(x(0) != (double)c || x(1) != c + 0.25) return BADL;
		return c;
	}
};

// does CVFolds<W>::training compile, i.e. does W::indexedSubset return something convertible to W?
template<class W, class = void> struct SubsetKeepsType : std::false_type{};
template<class W> struct SubsetKeepsType<W, typename std::enable_if<std::is_convertible<
	decltype(std::declval<W const&>().indexedSubset(std::declval<std::vector<std::size_t> const&>())), W>::value>::type> : std::true_type{};

static const std::size_t NONE = (std::size_t)-1;

template<class I, class L>
struct H{
	typedef LabeledData<I, L> DS;
	typedef WeightedLabeledData<I, L> WDS;
	typedef std::vector<std::size_t> Ix;
	std::string msg;
	void fail(std::string const& t){ msg += " !oracle " + t; }

	DS set; bool haveSet; CVFolds<DS> cur, prev; bool haveCur, havePrev;
	H(): haveSet(false), haveCur(false), havePrev(false){}

	template<class B> static void flatBatch(B const& batch, Flat& f){
		for(std::size_t i = 0; i != batchSize(batch); ++i){
			auto e = getBatchElement(batch, i);
			f.push_back(Elem(Codec<I>::dec(e.input), LCodec<L>::dec(e.label)));
		}
	}
	static Flat flat(DS const& s){
		Flat f;
		for(std::size_t b = 0; b != s.numberOfBatches(); ++b) flatBatch(s.batch(b), f);
		return f;
	}
	static std::string showDS(DS const& s){
		std::ostringstream os;
		os << "{ish=" << showShape(s.inputShape()) << " lsh=" << showShape(s.labelShape())
		   << " part=" << showNats(s.inputs().getPartitioning()) << " lpart=" << showNats(s.labels().getPartitioning())
		   << " el=" << showEls(flat(s)) << "}";
		return os.str();
	}
	static Flat sorted(Flat f){ std::sort(f.begin(), f.end()); return f; }

	// what the folds are expected to be
	struct Expect{
		Flat base; bool partition; Shape ishape; std::size_t k; std::size_t bs; bool sameSize, balanced;
		std::map<std::size_t, std::size_t> const* wanted;       // element id -> requested fold
		Expect(): partition(false), k(NONE), bs(NONE), sameSize(false), balanced(false), wanted(0){}
	};

	// oracle on index sets and element lists that does not depend on the dataset type
	void checkFold(std::size_t i, Ix const& v, Ix const& t, std::vector<Flat> const& batches, Flat const& fv, Flat const& ft){
		std::size_t nb = batches.size();
		std::vector<char> inV(nb, 0);
		for(std::size_t b: v){ if(b >= nb){ fail("validation-batch-out-of-range"); return; } inV[b] = 1; }
		Ix comp; for(std::size_t b = 0; b != nb; ++b) if(!inV[b]) comp.push_back(b);
		if(t != comp) fail("training-indices-not-complement fold=" + std::to_string(i));
		Flat ev, et;
		for(std::size_t b: v) ev.insert(ev.end(), batches[b].begin(), batches[b].end());
		for(std::size_t b: comp) et.insert(et.end(), batches[b].begin(), batches[b].end());
		if(fv != ev) fail("validation-elements-differ fold=" + std::to_string(i));
		if(ft != et) fail("training-elements-not-complement fold=" + std::to_string(i));
	}

	std::string showFolds(CVFolds<DS> const& folds, Expect const& e){
		std::ostringstream os;
		DS const& set = folds.dataset();
		os << "DS" << showDS(set) << " size=" << folds.size();
		if(e.k != NONE && folds.size() != e.k) fail("number-of-folds");
		std::vector<Flat> batches(set.numberOfBatches());
		for(std::size_t b = 0; b != set.numberOfBatches(); ++b) flatBatch(set.batch(b), batches[b]);
		Flat all; std::vector<std::size_t> seenBatch(set.numberOfBatches(), 0);
		std::size_t minSize = NONE, maxSize = 0;
		std::vector<std::map<unsigned, std::size_t> > perFoldClass(folds.size());
		for(std::size_t i = 0; i != folds.size(); ++i){
			Ix v = folds.validationFoldIndices(i), t = folds.trainingFoldIndices(i);
			DS val = folds.validation(i), train = folds.training(i);
			os << " F" << i << "{v=" << showNats(v) << " t=" << showNats(t) << " val=" << showDS(val) << " train=" << showDS(train) << "}";
			Flat fv = flat(val), ft = flat(train);
			checkFold(i, v, t, batches, fv, ft);
			// asking again gives the same (the accessors must not change the object)
			if(folds.trainingFoldIndices(i) != t || folds.validationFoldIndices(i) != v || flat(folds.training(i)) != ft || flat(folds.validation(i)) != fv)
				fail("repeated-access-differs fold=" + std::to_string(i));
			for(std::size_t b: v) if(b < seenBatch.size()) ++seenBatch[b];
			all.insert(all.end(), fv.begin(), fv.end());
			if(e.partition){
				Flat both = fv; both.insert(both.end(), ft.begin(), ft.end());
				if(sorted(both) != sorted(e.base)) fail("training-is-not-complement fold=" + std::to_string(i));
			}
			minSize = std::min(minSize, fv.size()); maxSize = std::max(maxSize, fv.size());
			for(Elem const& x: fv) perFoldClass[i][x.second]++;
			if(e.bs != NONE){
				Ix part = val.getPartitioning();
				std::size_t want = fv.empty() ? 0 : (e.bs == 0 ? 1 : (fv.size() + e.bs - 1) / e.bs);
				if(part.size() != want) fail("fold-batch-count fold=" + std::to_string(i));
				std::size_t lo = NONE, hi = 0;
				for(std::size_t s: part){ lo = std::min(lo, s); hi = std::max(hi, s); if(e.bs && s > e.bs) fail("batch-larger-than-maximum"); if(s == 0) fail("empty-batch"); }
				if(!part.empty() && hi > lo + 1) fail("fold-batches-unbalanced fold=" + std::to_string(i));
			}
			if(val.inputShape() != e.ishape || train.inputShape() != e.ishape) fail("fold-shape-lost fold=" + std::to_string(i));
			if(val.labelShape() != set.labelShape() || train.labelShape() != set.labelShape()) fail("fold-label-shape-lost fold=" + std::to_string(i));
			if(e.wanted) for(Elem const& x: fv){ auto w = e.wanted->find(x.first); if(w == e.wanted->end() || w->second != i) fail("element-in-wrong-fold id=" + std::to_string(x.first)); }
		}
		if(set.inputShape() != e.ishape) fail("dataset-shape-lost");
		for(Elem const& x: all) if(x.first == BAD || x.second == BADL){ fail("element-corrupted"); break; }
		if(e.partition){
			for(std::size_t b = 0; b != seenBatch.size(); ++b) if(seenBatch[b] != 1){ fail("validation-parts-not-disjoint-cover batch=" + std::to_string(b)); break; }
			if(sorted(all) != sorted(e.base)) fail("validation-union-differs-from-original");
			if(sorted(flat(set)) != sorted(e.base)) fail("reorganised-dataset-differs-from-original");
			if(e.wanted && all.size() != e.wanted->size()) fail("requested-elements-missing");
		}
		if((e.sameSize || e.balanced) && folds.size() && maxSize > minSize + 1) fail("fold-sizes-differ-by-more-than-one");
		if(e.balanced){
			std::map<unsigned, bool> classes; for(Elem const& x: e.base) classes[x.second] = true;
			for(auto const& c: classes){
				std::size_t lo = NONE, hi = 0;
				for(std::size_t i = 0; i != folds.size(); ++i){
					std::size_t n = perFoldClass[i].count(c.first) ? perFoldClass[i][c.first] : 0;
					lo = std::min(lo, n); hi = std::max(hi, n);
				}
				if(hi > lo + 1) fail("class-balance class=" + std::to_string(c.first));
			}
		}
		return os.str();
	}

	// fold of every element id, read off the result
	static std::map<std::size_t, std::size_t> foldOf(CVFolds<DS> const& folds){
		std::map<std::size_t, std::size_t> r;
		for(std::size_t i = 0; i != folds.size(); ++i) for(Elem const& x: flat(folds.validation(i))) r[x.first] = i;
		return r;
	}

	// construction function number fn on s (0 indexed, 1 fully, 2 iid, 3 samesize, 4 balanced, 5 batch); idx/ri given or computed from (a, b)
	std::string construct(std::size_t fn, DS& s, std::size_t k, std::size_t bs, std::size_t seed, std::size_t a, std::size_t b,
	                      Ix const* idxGiven, RecreationIndices const* riGiven, CVFolds<DS>& out){
		Flat base = flat(s);
		std::size_t n = base.size();
		Expect e; e.base = base; e.partition = true; e.ishape = s.inputShape(); e.k = k; e.bs = bs;
		std::map<std::size_t, std::size_t> wanted;
		std::ostringstream os;
		Ix idx; RecreationIndices ri;
		if(fn == 0){ if(idxGiven) idx = *idxGiven; else for(std::size_t j = 0; j != n; ++j) idx.push_back((a * j + b) % k); }
		if(fn == 1){ if(riGiven) ri = *riGiven; else for(std::size_t j = 0; j != n; ++j){ ri.first.push_back((j + a) % n); ri.second.push_back((a * j + b) % k); } }
		// second code path: the same call on a copy of the elements stored in the fresh createLabeledDataFromRange layout
		// (functions 0-4 promise a result that does not depend on how the incoming dataset is cut into batches)
		Ix part2; Flat flat2; std::vector<Ix> val2; bool have2 = false;
		if(fn <= 4){
			std::vector<I> in2; std::vector<L> lab2;
			for(Elem const& x: base){ in2.push_back(Codec<I>::enc(x.first)); lab2.push_back(LCodec<L>::enc(x.second)); }
			DS s2 = createLabeledDataFromRange(in2, lab2);
			if(fn >= 2) random::globalRng.seed((unsigned)seed);
			CVFolds<DS> o2 = plainCall(fn, s2, k, bs, idx, ri, base);
			part2 = o2.dataset().getPartitioning(); flat2 = flat(o2.dataset());
			for(std::size_t i = 0; i != o2.size(); ++i) val2.push_back(o2.validationFoldIndices(i));
			have2 = true;
		}
		if(fn >= 2) random::globalRng.seed((unsigned)seed);
		if(fn == 0){
			for(std::size_t j = 0; j != n; ++j) wanted[base[j].first] = idx[j];
			out = bs == 256 ? createCVIndexed(s, k, idx) : createCVIndexed(s, k, idx, bs);      // 256: the default argument
			e.wanted = &wanted;
		}else if(fn == 1){
			bool isPerm = true; { Ix t = ri.first; std::sort(t.begin(), t.end()); for(std::size_t i = 0; i != n; ++i) if(t[i] != i) isPerm = false; }
			if(isPerm){ for(std::size_t j = 0; j != n; ++j) wanted[base[ri.first[j]].first] = ri.second[j]; e.wanted = &wanted; }
			else{ Flat g; for(std::size_t j = 0; j != n; ++j) g.push_back(base[ri.first[j]]); e.base = g; }   // a gather, not a partition of the original
			out = bs == 256 ? createCVFullyIndexed(s, k, ri) : createCVFullyIndexed(s, k, ri, bs);
		}else if(fn == 2){
			out = bs == 256 ? createCVIID(s, k) : createCVIID(s, k, bs);
			wanted = foldOf(out);
			Ix drawn; for(std::size_t j = 0; j != n; ++j) drawn.push_back(wanted.count(base[j].first) ? wanted[base[j].first] : 0);
			os << "obs=" << showNats(drawn) << " ";
			e.wanted = &wanted;
		}else if(fn == 3){
			out = bs == 256 ? createCVSameSize(s, k) : createCVSameSize(s, k, bs);
			std::map<std::size_t, std::size_t> posOf; for(std::size_t j = 0; j != n; ++j) posOf[base[j].first] = j;
			Ix p; for(Elem const& x: flat(out.dataset())) p.push_back(posOf.count(x.first) ? posOf[x.first] : n);
			os << "obs=" << showNats(p) << " ";
			e.sameSize = true;
		}else if(fn == 4){
			out = balanced(s, k, bs, &ri, base);
			os << "obs=" << showNats(ri.first) << " rec=" << showNats(ri.first) << "/" << showNats(ri.second) << " ";
			e.sameSize = true; e.balanced = true;
			// the recreation indices must describe the folds that were built
			std::map<std::size_t, std::size_t> got = foldOf(out);
			if(ri.first.size() != n || ri.second.size() != n) fail("recreation-indices-size");
			else for(std::size_t j = 0; j != n; ++j) if(ri.first[j] >= n || got[base[ri.first[j]].first] != ri.second[j]){ fail("recreation-indices-wrong"); break; }
		}else{
			DS const& cs = s;
			out = createCVBatch(cs, k);
			Ix p; for(std::size_t i = 0; i != out.size(); ++i) for(std::size_t x: out.validationFoldIndices(i)) p.push_back(x);
			os << "obs=" << showNats(p) << " ";
			e.bs = NONE;
			std::size_t lo = NONE, hi = 0;
			for(std::size_t i = 0; i != out.size(); ++i){ lo = std::min(lo, out.validationFoldIndices(i).size()); hi = std::max(hi, out.validationFoldIndices(i).size()); }
			if(hi > lo + 1) fail("batch-fold-sizes-differ-by-more-than-one");
			if(flat(s) != base || s.getPartitioning() != out.dataset().getPartitioning()) fail("createCVBatch-changed-the-dataset");
		}
		if(have2){
			bool same = part2 == out.dataset().getPartitioning() && flat2 == flat(out.dataset()) && val2.size() == out.size();
			for(std::size_t i = 0; same && i != out.size(); ++i) same = val2[i] == out.validationFoldIndices(i);
			if(!same) fail("result-depends-on-incoming-batch-layout");
		}
		os << showFolds(out, e);
		return os.str();
	}
	CVFolds<DS> plainCall(std::size_t fn, DS& s, std::size_t k, std::size_t bs, Ix const& idx, RecreationIndices const& ri, Flat const& base){
		if(fn == 0) return bs == 256 ? createCVIndexed(s, k, idx) : createCVIndexed(s, k, idx, bs);
		if(fn == 1) return bs == 256 ? createCVFullyIndexed(s, k, ri) : createCVFullyIndexed(s, k, ri, bs);
		if(fn == 2) return bs == 256 ? createCVIID(s, k) : createCVIID(s, k, bs);
		if(fn == 3) return bs == 256 ? createCVSameSize(s, k) : createCVSameSize(s, k, bs);
		RecreationIndices r; return balanced(s, k, bs, &r, base);
	}
	// class labels: the public function; other labels: detail:: with a membership vector
	static CVFolds<LabeledData<I, unsigned int> > balancedImpl(LabeledData<I, unsigned int>& s, std::size_t k, std::size_t bs, RecreationIndices* ri, Flat const&){
		return createCVSameSizeBalanced(s, k, bs, ri);
	}
	template<class LL> static CVFolds<LabeledData<I, LL> > balancedImpl(LabeledData<I, LL>& s, std::size_t k, std::size_t bs, RecreationIndices* ri, Flat const& base){
		unsigned nc = 0; for(Elem const& x: base) nc = std::max(nc, x.second + 1);
		std::vector<std::vector<std::size_t> > members(nc);
		for(std::size_t j = 0; j != base.size(); ++j) members[base[j].second].push_back(j);
		return detail::createCVSameSizeBalanced(s, k, members, bs, ri);
	}
	static CVFolds<DS> balanced(DS& s, std::size_t k, std::size_t bs, RecreationIndices* ri, Flat const& base){ return balancedImpl(s, k, bs, ri, base); }

	static bool parseSets(std::vector<std::size_t> const& a, std::vector<Ix>& sets){
		if(a.empty()) return false;
		std::size_t m = a[0], p = 1;
		for(std::size_t i = 0; i != m; ++i){
			if(p >= a.size()) return false;
			std::size_t len = a[p++];
			if(a.size() - p < len) return false;
			sets.push_back(Ix(a.begin() + p, a.begin() + p + len)); p += len;
		}
		return p == a.size();
	}
	static bool isPartition(std::vector<Ix> const& sets, std::size_t nb){
		std::vector<std::size_t> seen(nb, 0);
		for(Ix const& s: sets) for(std::size_t b: s) if(b < nb) ++seen[b];
		for(std::size_t c: seen) if(c != 1) return false;
		return true;
	}

	// the two CVFolds constructors on a weighted dataset
	// CVFolds<WDS>::training(i) / validation(i) are `m_dataset.indexedSubset(…FoldIndices(i))`; they do not compile as long as
	// BaseWeightedDataset::indexedSubset returns the base class (finding F-C12-1): then their body is executed here instead
	template<class FoldsT> static typename FoldsT::DatasetType wpart(FoldsT const& f, std::size_t i, bool train, Ix const&, std::true_type){
		return train ? f.training(i) : f.validation(i);
	}
	template<class FoldsT> static decltype(std::declval<WDS const&>().indexedSubset(std::declval<Ix const&>()))
	wpart(FoldsT const& f, std::size_t, bool, Ix const& ix, std::false_type){ return f.dataset().indexedSubset(ix); }
	std::string weighted(bool fromStarts, Ix const& starts, std::vector<Ix> const& sets){
		DS const& d = cur.dataset();
		WDS w(d, 1.0);
		for(std::size_t b = 0; b != d.numberOfBatches(); ++b){
			Flat f; flatBatch(d.batch(b), f);
			for(std::size_t i = 0; i != f.size(); ++i) w.weights().batch(b)(i) = f[i].first + 0.5;
		}
		CVFolds<WDS> folds = fromStarts ? CVFolds<WDS>(w, starts) : CVFolds<WDS>(w, sets);
		std::ostringstream os;
		os << "DS" << showDS(folds.dataset().data()) << " size=" << folds.size();
		std::vector<Flat> batches(d.numberOfBatches());
		for(std::size_t b = 0; b != d.numberOfBatches(); ++b) flatBatch(d.batch(b), batches[b]);
		for(std::size_t i = 0; i != folds.size(); ++i){
			Ix v = folds.validationFoldIndices(i), t = folds.trainingFoldIndices(i);
			auto val = wpart(folds, i, false, v, SubsetKeepsType<WDS>());
			auto train = wpart(folds, i, true, t, SubsetKeepsType<WDS>());
			os << " F" << i << "{v=" << showNats(v) << " t=" << showNats(t) << " val=" << showDS(val.data()) << " train=" << showDS(train.data()) << "}";
			Flat fv = flat(val.data()), ft = flat(train.data());
			checkFold(i, v, t, batches, fv, ft);
			if(val.data().inputShape() != d.inputShape()) fail("fold-shape-lost fold=" + std::to_string(i));
			// every element still carries its weight
			for(int side = 0; side != 2; ++side){
				auto const& part = side ? train : val;
				Flat const& fl = side ? ft : fv;
				std::size_t p = 0;
				for(std::size_t b = 0; b != part.numberOfBatches(); ++b){
					auto const& wb = part.weights().batch(b);
					if(wb.size() != batchSize(part.data().batch(b))){ fail("weight-batch-size"); break; }
					for(std::size_t j = 0; j != wb.size(); ++j, ++p) if(p >= fl.size() || wb(j) != fl[p].first + 0.5){ fail("weight-not-with-its-element fold=" + std::to_string(i)); break; }
				}
			}
		}
		return os.str();
	}

	std::string exec(std::string const& op, std::vector<std::size_t> const& a){
		bool ctor = (op == "indexed" || op == "fully" || op == "iid" || op == "samesize" || op == "balanced" || op == "batch");
		if(ctor){
			if(a.size() < 4) return "undefined";
			std::size_t k = a[0], bs = a[1], m0 = a[2], n = a[3];
			bool rng = (op != "indexed" && op != "fully");
			std::size_t off = rng ? 5 : 4;
			if(n == 0 || a.size() < off + n) return "undefined";
			if(k == 0) return "undefined";
			if(rng && a.size() != off + n) return "undefined";
			std::vector<I> in; std::vector<L> lab;
			for(std::size_t i = 0; i != n; ++i){ in.push_back(Codec<I>::enc(i)); lab.push_back(LCodec<L>::enc((unsigned int)a[off + i])); }
			DS s = createLabeledDataFromRange(in, lab, m0);
			CVFolds<DS> f; std::string out;
			if(op == "indexed"){
				if(a.size() != 4 + 2 * n) return "undefined";
				Ix idx(a.begin() + 4 + n, a.end());
				for(std::size_t x: idx) if(x >= k) return "undefined";
				out = construct(0, s, k, bs, 0, 0, 0, &idx, 0, f);
			}else if(op == "fully"){
				if(a.size() != 4 + 3 * n) return "undefined";
				RecreationIndices ri;
				ri.first.assign(a.begin() + 4 + n, a.begin() + 4 + 2 * n); ri.second.assign(a.begin() + 4 + 2 * n, a.end());
				for(std::size_t x: ri.first) if(x >= n) return "undefined";
				for(std::size_t x: ri.second) if(x >= k) return "undefined";
				out = construct(1, s, k, bs, 0, 0, 0, 0, &ri, f);
			}else{
				std::size_t fn = op == "iid" ? 2 : op == "samesize" ? 3 : op == "balanced" ? 4 : 5;
				out = construct(fn, s, k, fn == 5 ? 0 : bs, a[4], 0, 0, 0, 0, f);
			}
			prev = cur; havePrev = haveCur; cur = f; haveCur = true; set = s; haveSet = true;
			return "ok " + out;
		}
		Expect e;
		if(op == "new"){
			if(!a.empty()) return "undefined";
			set = DS(); cur = CVFolds<DS>(); prev = CVFolds<DS>(); haveSet = haveCur = havePrev = false;
			return "ok";
		}
		if(op == "show" || op == "copy"){
			if(!a.empty() || !haveCur) return "undefined";
			if(op == "copy"){ CVFolds<DS> c(cur); cur = CVFolds<DS>(); cur = c; }
			e.ishape = cur.dataset().inputShape();
			return "ok " + showFolds(cur, e);
		}
		if(op == "prev"){
			if(!a.empty() || !havePrev) return "undefined";
			e.ishape = prev.dataset().inputShape();
			return "ok " + showFolds(prev, e);
		}
		if(op == "starts" || op == "wstarts"){
			if(!haveCur || a.empty()) return "undefined";
			std::size_t nb = cur.dataset().numberOfBatches();
			for(std::size_t i = 0; i != a.size(); ++i) if(a[i] > nb || (i && a[i] < a[i - 1])) return "undefined";
			if(op == "wstarts") return "ok " + weighted(true, a, std::vector<Ix>());
			CVFolds<DS> f(cur.dataset(), a);
			e.base = flat(cur.dataset()); e.partition = (a[0] == 0); e.ishape = cur.dataset().inputShape(); e.k = a.size();
			std::string out = showFolds(f, e);
			prev = cur; havePrev = true; cur = f;
			return "ok " + out;
		}
		if(op == "sets" || op == "wsets"){
			std::vector<Ix> sets;
			if(!haveCur || !parseSets(a, sets)) return "undefined";
			std::size_t nb = cur.dataset().numberOfBatches();
			for(Ix const& s: sets) for(std::size_t b: s) if(b >= nb) return "undefined";
			if(op == "wsets") return "ok " + weighted(false, Ix(), sets);
			CVFolds<DS> f(cur.dataset(), sets);
			e.base = flat(cur.dataset()); e.partition = isPartition(sets, nb); e.ishape = cur.dataset().inputShape(); e.k = sets.size();
			std::string out = showFolds(f, e);
			prev = cur; havePrev = true; cur = f;
			return "ok " + out;
		}
		// ---- incoming batch layout of the dataset variable (the fold-construction functions must not depend on it) ----
		if(op == "data"){                                              // data m0 n l_1..l_n : set := createLabeledDataFromRange(…, m0)
			if(a.size() < 2 || a[1] == 0 || a.size() != 2 + a[1]) return "undefined";
			std::vector<I> in; std::vector<L> lab;
			for(std::size_t i = 0; i != a[1]; ++i){ in.push_back(Codec<I>::enc(i)); lab.push_back(LCodec<L>::enc((unsigned int)a[2 + i])); }
			set = createLabeledDataFromRange(in, lab, a[0]); haveSet = true;
			return "ok DS" + showDS(set);
		}
		if(op == "repart" || op == "splitat" || op == "splice"){
			if(!haveSet || set.numberOfElements() == 0) return "undefined";
			Flat before = flat(set);
			for(std::size_t s: set.getPartitioning()) if(s == 0) return "undefined";
			Shape ish = set.inputShape();
			set.makeIndependent();            // documented precondition of changing the batch structure of a dataset that shares batches
			Flat expect;
			if(op == "repart"){                                          // repart s_1..s_m : set.repartition(sizes)
				std::size_t sum = 0;
				for(std::size_t s: a){ if(s == 0) return "undefined"; sum += s; }
				if(a.empty() || sum != before.size()) return "undefined";
				set.repartition(a);
				expect = before;
				if(set.getPartitioning() != a) fail("repartition-layout");
			}else{
				// splitat e w : tail = splitAtElement(set, e);  splice b w : tail = set.splice(b)
				// w: 0 keep the head, 1 keep the tail, 2 set.append(tail), 3 tail.append(set); set = tail
				if(a.size() != 2 || a[1] > 3 || a[0] == 0) return "undefined";
				if(op == "splitat" ? a[0] >= before.size() : a[0] >= set.numberOfBatches()) return "undefined";
				DS tail = op == "splitat" ? splitAtElement(set, a[0]) : set.splice(a[0]);
				Flat fh = flat(set), ft = flat(tail);
				Flat both = fh; both.insert(both.end(), ft.begin(), ft.end());
				if(both != before) fail("split-changed-the-elements");
				if(op == "splitat" && fh.size() != a[0]) fail("split-point");
				if(a[1] == 0) expect = fh;
				else if(a[1] == 1){ set = tail; expect = ft; }
				else if(a[1] == 2){ set.append(tail); expect = both; }
				else{ tail.append(set); set = tail; expect = ft; expect.insert(expect.end(), fh.begin(), fh.end()); }
			}
			if(flat(set) != expect) fail("layout-op-changed-the-elements");
			if(set.inputShape() != ish) fail("layout-op-shape-lost");
			return "ok DS" + showDS(set);
		}
		if(op == "debug") return a.empty() ? "ok" : "undefined";      // marks cases for the binary built without NDEBUG
		if(op == "wprobe"){
			if(!SubsetKeepsType<WDS>::value) fail("weighted-folds-training-does-not-compile");
			return "ok";
		}
		if(op == "again" || op == "nest"){
			std::size_t o = op == "nest" ? 2 : 0;
			if(a.size() != 6 + o) return "undefined";
			DS s;
			if(op == "nest"){
				if(!haveCur || a[1] >= cur.size()) return "undefined";
				s = a[0] == 0 ? cur.training(a[1]) : cur.validation(a[1]);
			}else{
				if(!haveSet) return "undefined";
				s = set;
			}
			std::size_t fn = a[o], k = a[o + 1], bs = a[o + 2], seed = a[o + 3], x = a[o + 4], y = a[o + 5];
			if(s.numberOfElements() == 0 || k == 0 || fn > 5) return "undefined";
			{	// a part with a batch listed twice holds elements twice: the oracle identifies elements by their id, so such parts are skipped
				Flat fl = flat(s); std::vector<std::size_t> ids; for(Elem const& x: fl) ids.push_back(x.first);
				std::sort(ids.begin(), ids.end());
				if(std::adjacent_find(ids.begin(), ids.end()) != ids.end()) return "undefined";
			}
			s.makeIndependent();              // documented precondition of repartitioning a subset (dataset_subsets tutorial)
			CVFolds<DS> f;
			std::string out = construct(fn, s, k, fn == 5 ? 0 : bs, seed, x, y, 0, 0, f);
			prev = cur; havePrev = haveCur; cur = f; haveCur = true; set = s; haveSet = true;
			return "ok " + out;
		}
		return "undefined";
	}

	int run(){
		std::string line;
		while(std::getline(std::cin, line)){
			std::string body = line.substr(0, line.find('!'));
			std::vector<std::string> t = vh::tokens(body);
			if(t.empty()){ std::cout << "\n"; continue; }
			std::vector<std::size_t> a;
			if(!vh::allNat(t, 1, a)){ std::cout << "bad-op" << std::endl; continue; }
			msg.clear();
			std::string out;
			try{ out = exec(t[0], a); }
			catch(shark::Exception const& e){ out = "exception"; }
			std::cout << out << msg << std::endl;
		}
		return 0;
	}
};

template<class L> int runL(std::string const& ty){
	if(ty == "uint"){ H<unsigned int, L> h; return h.run(); }
	if(ty == "real"){ H<RealVector, L> h; return h.run(); }
	if(ty == "sparse"){ H<CompressedRealVector, L> h; return h.run(); }
	if(ty == "blob"){ H<Blob, L> h; return h.run(); }
	std::cerr << "unknown element type " << ty << std::endl;
	return 2;
}

int main(int argc, char** argv){
	std::string ty = argc > 1 ? argv[1] : "uint";
	std::string lt = argc > 2 ? argv[2] : "cls";
#ifdef C12_REG
	if(lt == "reg") return runL<RealVector>(ty);
#else
	if(lt == "cls") return runL<unsigned int>(ty);
#endif
	std::cerr << "label type " << lt << " not in this binary" << std::endl;
	return 2;
}
