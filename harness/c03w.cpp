// K-C03 (weighted): the same line protocol and the same Lean model as harness/c03.cpp, executed on
// shark::WeightedLabeledData<I, unsigned int> (include/shark/Data/WeightedDataset.h).  A weighted dataset is a
// LabeledData plus a Data<double> of weights that must go through every structural operation in lock-step;
// element id carries weight id + 0.25, so the oracle can tell when a weight is separated from its element.
// Supported ops: new repart splitb splitat splice append subset shuffle copy swap indep, the raw forms rrepart rsplitb
// rsplitat rsplice (no makeIndependent() first) and the probe `boot a k seed` (bootstrap(data, k): oracle only, no
// state change, answered `undefined` like the model does).  The generator restricts itself to these.
// The independence flags (`ind=`) are those of the data part; the oracle demands that the weight container is shared
// exactly when the label container is (all operations treat data and weights in lock-step).
// argv[1]: wuint | wreal
#define C03_NO_MAIN
#include "c03.cpp"
#include <shark/Data/WeightedDataset.h>
#include <cmath>

template<class I>
struct WHarness: public Harness<I>{
	typedef Harness<I> Base;
	typedef typename Base::DS DS;
	typedef WeightedLabeledData<I, unsigned int> WDS;
	WDS wd[4];

	static double weightOf(std::size_t id){ return id + 0.25; }

	void weightOracle(std::size_t k){
		WDS const& s = wd[k];
		if(s.weights().getPartitioning() != s.data().getPartitioning()) this->fail("weight-partition-differs slot=" + std::to_string(k));
		if(s.numberOfElements() != s.data().numberOfElements() || s.numberOfBatches() != s.data().numberOfBatches()) this->fail("weighted-counts slot=" + std::to_string(k));
		// via elements()
		std::size_t i = 0;
		for(auto it = s.elements().begin(); it != s.elements().end(); ++it, ++i){
			std::size_t id = Codec<I>::dec((*it).data.input);
			if(id == BAD || (*it).weight != weightOf(id)){ this->fail("weight-separated-from-element(elements) slot=" + std::to_string(k) + " pos=" + std::to_string(i)); break; }
			if(i < this->sh[k].size() && (id != this->sh[k][i].first || (*it).data.label != this->sh[k][i].second)){ this->fail("weighted-element-order slot=" + std::to_string(k)); break; }
		}
		// the WeightedUnlabeledData flavour built on the fly: same inputs, same weights, same batches
		if(s.weights().getPartitioning() == s.data().getPartitioning() && !Base::hasEmptyBatch(s.data())){
			WeightedUnlabeledData<I> wi = s.weightedInputs();
			if(wi.numberOfElements() != s.numberOfElements() || wi.getPartitioning() != s.getPartitioning()) this->fail("weightedInputs-structure slot=" + std::to_string(k));
			std::size_t j = 0;
			for(auto it = wi.elements().begin(); it != wi.elements().end(); ++it, ++j){
				std::size_t id = Codec<I>::dec((*it).data);
				if(id == BAD || (*it).weight != weightOf(id) || (j < this->sh[k].size() && id != this->sh[k][j].first)){ this->fail("weightedInputs-element slot=" + std::to_string(k)); break; }
			}
		}
		// via element(i) and via batches
		for(std::size_t j = 0; j != s.numberOfElements(); ++j){
			auto e = s.element(j);
			std::size_t id = Codec<I>::dec(e.data.input);
			if(id == BAD || e.weight != weightOf(id)){ this->fail("weight-separated-from-element(element(i)) slot=" + std::to_string(k)); break; }
		}
		for(std::size_t b = 0; b != s.numberOfBatches(); ++b){
			auto const& batch = s.batch(b);
			for(std::size_t j = 0; j != batchSize(batch); ++j){
				auto e = getBatchElement(batch, j);
				std::size_t id = Codec<I>::dec(e.data.input);
				if(id == BAD || e.weight != weightOf(id)){ this->fail("weight-separated-from-element(batches) slot=" + std::to_string(k)); b = s.numberOfBatches() - 1; break; }
			}
		}
	}

	bool wvalid(std::string const& op, std::vector<std::size_t> const& a){
		if(op == "reset") return a.empty();
		static const char* ok[] = {"new", "repart", "splitb", "splitat", "splice", "append", "subset", "shuffle", "copy",
		                           "swap", "indep", "rrepart", "rsplitb", "rsplitat", "rsplice"};
		bool found = false; for(const char* o: ok) if(op == o) found = true;
		if(!found) return false;
		for(std::size_t k = 0; k != 4; ++k) this->d[k] = wd[k].data();   // the preconditions are those of the data part
		bool r = this->valid(op, a);
		for(std::size_t k = 0; k != 4; ++k) this->d[k] = DS();            // do not keep the batches alive (use-counts!)
		return r;
	}

	// bootstrap(data, k): the weights count how often each element was drawn
	void bootProbe(std::vector<std::size_t> const& a){
		if(a.size() != 3 || a[0] >= 4 || wd[a[0]].numberOfElements() == 0) return;
		random::globalRng.seed((unsigned)a[2]);
		DS src = wd[a[0]].data();
		std::size_t n = src.numberOfElements(), k = a[1] == 0 ? n : a[1];
		try{
			WDS b = bootstrap(src, a[1]);
			double total = 0; bool integral = true;
			for(std::size_t j = 0; j != b.numberOfElements(); ++j){
				double w = b.element(j).weight; total += w;
				if(w < 0 || w != std::floor(w)) integral = false;
			}
			if(total != (double)k || !integral) this->fail("bootstrap-weights-do-not-count-the-draws");
			if(b.numberOfElements() != n || Base::viaBatches(b.data()) != Base::viaBatches(src)) this->fail("bootstrap-changed-elements");
			if(b.inputShape() != src.inputShape() || b.labelShape() != src.labelShape()) this->fail("bootstrap-shape");
			if(b.weights().getPartitioning() != src.getPartitioning()) this->fail("bootstrap-weight-partition");
		}catch(shark::Exception const&){ this->fail("bootstrap-threw"); }
	}

	std::string wexec(std::string const& op0, std::vector<std::size_t> const& a){
		bool raw = op0 == "rrepart" || op0 == "rsplitb" || op0 == "rsplitat" || op0 == "rsplice";
		std::string op = raw ? op0.substr(1) : op0;
		if(op == "reset"){ for(std::size_t k = 0; k != 4; ++k){ wd[k] = WDS(); this->sh[k].clear(); } return ""; }
		if(op == "indep"){ wd[a[0]].makeIndependent(); return ""; }
		if(op == "swap"){ swap(wd[a[0]], wd[a[1]]); std::swap(this->sh[a[0]], this->sh[a[1]]); return ""; }
		if(op == "new"){
			std::size_t s = a[0], m = a[1], base = a[2];
			std::vector<I> in; std::vector<unsigned int> lab; std::vector<double> w; Flat f;
			for(std::size_t i = 3; i < a.size(); ++i){
				in.push_back(Codec<I>::enc(base + i - 3)); lab.push_back((unsigned int)a[i]); w.push_back(weightOf(base + i - 3));
				f.push_back(Elem(base + i - 3, (unsigned int)a[i]));
			}
			std::size_t mm = m == 0 ? DS::DefaultBatchSize : m;
			wd[s] = WDS(createLabeledDataFromRange(in, lab, mm), createDataFromRange(w, mm));
			this->sh[s] = f;
			return "";
		}
		if(op == "repart"){
			std::vector<std::size_t> sizes(a.begin() + 1, a.end());
			if(!raw) wd[a[0]].makeIndependent();
			wd[a[0]].repartition(sizes);
			return "";
		}
		if(op == "splitb"){ if(!raw) wd[a[0]].makeIndependent(); wd[a[0]].splitBatch(a[1], a[2]); return ""; }
		if(op == "splitat"){
			if(!raw) wd[a[0]].makeIndependent();
			wd[a[1]] = splitAtElement(wd[a[0]], a[2]);
			this->sh[a[1]] = Flat(this->sh[a[0]].begin() + a[2], this->sh[a[0]].end());
			this->sh[a[0]].resize(a[2]);
			if(wd[a[0]].numberOfElements() != a[2]) this->fail("splitAtElement-left-size");
			return "";
		}
		if(op == "splice"){
			std::vector<std::size_t> part = wd[a[0]].getPartitioning();
			std::size_t k = 0; for(std::size_t i = 0; i != a[2]; ++i) k += part[i];
			if(!raw) wd[a[0]].makeIndependent();
			wd[a[1]] = wd[a[0]].splice(a[2]);
			this->sh[a[1]] = Flat(this->sh[a[0]].begin() + k, this->sh[a[0]].end());
			this->sh[a[0]].resize(k);
			return "";
		}
		if(op == "append"){
			wd[a[0]].append(wd[a[1]]);
			Flat add = this->sh[a[1]];
			this->sh[a[0]].insert(this->sh[a[0]].end(), add.begin(), add.end());
			return "";
		}
		if(op == "subset"){
			std::vector<std::size_t> idx(a.begin() + 2, a.end());
			Flat f = Base::batchesOf(this->sh[a[0]], wd[a[0]].getPartitioning(), idx);
			detail::BaseWeightedDataset<DS> sub = wd[a[0]].indexedSubset(idx);
			WDS r(sub.data(), sub.weights());
			wd[a[1]] = r; this->sh[a[1]] = f;
			return "";
		}
		if(op == "shuffle"){
			random::globalRng.seed((unsigned)a[1]);
			Flat before = Base::viaBatches(wd[a[0]].data());
			std::vector<std::size_t> part = wd[a[0]].getPartitioning();
			wd[a[0]].shuffle();
			Flat after = Base::viaBatches(wd[a[0]].data());
			std::vector<std::size_t> p; std::vector<bool> used(before.size(), false);
			for(std::size_t j = 0; j != after.size(); ++j){
				std::size_t hit = BAD;
				for(std::size_t i = 0; i != before.size(); ++i) if(!used[i] && before[i] == after[j]){ hit = i; break; }
				if(hit == BAD){ this->fail("shuffle-lost-or-invented-element"); hit = 0; } else used[hit] = true;
				p.push_back(hit);
			}
			if(wd[a[0]].getPartitioning() != part) this->fail("shuffle-changed-partitioning");
			Flat x = before, y = after; std::sort(x.begin(), x.end()); std::sort(y.begin(), y.end());
			if(x != y) this->fail("shuffle-multiset");
			this->sh[a[0]] = after;
			return "obs=" + showNats(p);
		}
		if(op == "copy"){ WDS r = wd[a[0]]; Flat f = this->sh[a[0]]; wd[a[1]] = r; this->sh[a[1]] = f; return ""; }
		return "bad-op";
	}

	int run(){
		std::string line;
		while(std::getline(std::cin, line)){
			std::string body = line.substr(0, line.find('!'));
			std::vector<std::string> t = vh::tokens(body);
			if(t.empty()){ std::cout << "\n"; continue; }
			std::vector<std::size_t> a;
			if(!vh::allNat(t, 1, a)){ std::cout << "bad-op" << std::endl; continue; }
			this->oracleMsg.clear();
			std::string status = "ok", extra;
			if(t[0] == "boot"){ bootProbe(a); status = "undefined"; }
			else if(!wvalid(t[0], a)) status = "undefined";
			else{
				try{ extra = wexec(t[0], a); }
				catch(shark::Exception const& e){ status = "exception"; }
			}
			// independence is probed on the weighted objects themselves, before the data parts are copied for printing
			this->indOverride = true;
			for(std::size_t k = 0; k != 4; ++k){
				this->d[k] = DS();
				bool ii = Base::independent(wd[k].data().inputs()), il = Base::independent(wd[k].data().labels()), iw = Base::independent(wd[k].weights());
				this->indFlags[k] = std::string(ii ? "1" : "0") + (il ? "1" : "0");
				if(iw != il) this->fail("weights-shared-differently-from-labels slot=" + std::to_string(k));
			}
			for(std::size_t k = 0; k != 4; ++k){ this->d[k] = wd[k].data(); weightOracle(k); }
			std::string st = this->showState();
			for(std::size_t k = 0; k != 4; ++k) this->d[k] = DS();
			std::cout << status << (extra.empty() ? "" : " " + extra) << " | " << st << this->oracleMsg << std::endl;
		}
		return 0;
	}
};

int main(int argc, char** argv){
	std::string ty = argc > 1 ? argv[1] : "wuint";
	if(ty == "wuint"){ WHarness<unsigned int> h; return h.run(); }
	if(ty == "wreal"){ WHarness<RealVector> h; return h.run(); }
	std::cerr << "unknown element type " << ty << std::endl;
	return 2;
}
