// K-C13: correspondence harness for Pareto dominance, non-dominated sorting,
// exact hypervolume algorithms, hypervolume contributions and 2-D subset selection.
// One op per stdin line, one observation line per op (format of lean/Driver/C13.lean).
// All coordinates are integers (exactly representable), so every comparison is exact;
// the only inexact step in the C++ is exp(sum(log(ref-p))) in HypervolumeContributionMD,
// whose results are rounded to the nearest integer (and flagged if not within 1e-6 of one).
// sub-routine ties (ops dca/dcb): ndHelperA/ndHelperB/sweepA/sweepB of BaseDCNonDominatedSort are private; the REAL
// header is compiled with access control lifted (every header it includes is included before, with access control intact)
#include <shark/LinAlg/Base.h>
#include <shark/Algorithms/DirectSearch/Operators/Domination/ParetoDominance.h>
#include <vector>
#include <list>
#include <set>
#include <map>
#include <utility>
#include <algorithm>
#include <functional>
#include <sstream>
#include <iostream>
#define private public
#include <shark/Algorithms/DirectSearch/Operators/Domination/DCNonDominatedSort.h>
#undef private
#include <shark/Algorithms/DirectSearch/Operators/Domination/NonDominatedSort.h>
#include <shark/Algorithms/DirectSearch/Operators/Hypervolume/HypervolumeCalculator.h>
#include <shark/Algorithms/DirectSearch/Operators/Hypervolume/HypervolumeContribution.h>
#include <shark/Algorithms/DirectSearch/Operators/Hypervolume/HypervolumeSubsetSelection2D.h>
#include "common.hpp"
#include <algorithm>
#include <set>

using namespace shark;
typedef std::vector<RealVector> Points;

static bool parseInts(std::vector<std::string> const& t, std::size_t from, std::vector<long long>& out){
	out.clear();
	for(std::size_t i = from; i < t.size(); ++i){
		std::string const& s = t[i];
		if(s.empty()) return false;
		std::size_t b = (s[0] == '-') ? 1 : 0;
		if(b == s.size()) return false;
		for(std::size_t c = b; c < s.size(); ++c) if(s[c] < '0' || s[c] > '9') return false;
		out.push_back(std::stoll(s));
	}
	return true;
}
// rational (dyadic) coordinates: a line may start with the token q<den> (den a power of two); the real algorithms then
// get every coordinate divided by den (exact in binary floating point), the oracles work on the integer numerators, and
// volumes are reported multiplied by den^m (exact) - by homogeneity the same line as without the token
static double g_den = 1;
// translation classes: a line may start with the token t<k> / t-<k>: the real algorithms get every coordinate (points AND
// reference) shifted by +2^k / -2^k (k <= 45: exact integers below 2^53; all algorithms work on differences ref - p, so every
// result must be IDENTICAL to the unshifted line: rankSpec_shift, hvSpec_scale_shift) - a RELATIVE tolerance shows here
static double g_off = 0;
static double scaleOf(std::size_t m){ double s = 1; for(std::size_t i = 0; i != m; ++i) s *= g_den; return s; }
static RealVector vec(std::vector<long long> const& a, std::size_t from, std::size_t m){
	RealVector v(m);
	for(std::size_t i = 0; i != m; ++i) v(i) = (double)a[from+i] / g_den + g_off;
	return v;
}
static Points pts(std::vector<long long> const& a, std::size_t from, std::size_t m, std::size_t n){
	Points P;
	for(std::size_t i = 0; i != n; ++i) P.push_back(vec(a, from + i*m, m));
	return P;
}
template<class V> static std::string showV(V const& v){
	std::string s = "[";
	for(std::size_t i = 0; i != v.size(); ++i){ if(i) s += ","; s += std::to_string(v[i]); }
	return s + "]";
}
// ---- independent oracles (own code, no Shark algorithm involved) ----
static bool weakDom(RealVector const& p, RealVector const& q){
	for(std::size_t i = 0; i != p.size(); ++i) if(p(i) > q(i)) return false;
	return true;
}
static bool strictDom(RealVector const& p, RealVector const& q){ return weakDom(p,q) && !weakDom(q,p); }
// rank definition: rank[i] = 1 + max rank of the dominators
static bool rankDefHolds(Points const& P, std::vector<unsigned> const& rk){
	for(std::size_t i = 0; i != P.size(); ++i){
		unsigned best = 0;
		for(std::size_t j = 0; j != P.size(); ++j) if(strictDom(P[j], P[i])) best = std::max(best, rk[j]);
		if(rk[i] != best + 1) return false;
	}
	return true;
}
// ranks computed from the definition by memoised recursion (independent of all Shark algorithms)
static unsigned rankOf(Points const& P, std::vector<unsigned>& memo, std::size_t i){
	if(memo[i]) return memo[i];
	unsigned best = 0;
	for(std::size_t j = 0; j != P.size(); ++j) if(strictDom(P[j], P[i])) best = std::max(best, rankOf(P, memo, j));
	return memo[i] = best + 1;
}
// hypervolume by inclusion of unit cells (integer grid): counts cells z with lo<=z<ref dominated by some p
static long long cellHv(Points const& P, RealVector const& ref){
	std::size_t m = ref.size();
	if(P.empty()) return 0;
	std::vector<long long> lo(m), z(m);
	for(std::size_t d = 0; d != m; ++d){
		lo[d] = (long long)((ref(d) - g_off) * g_den);
		for(auto const& p: P) lo[d] = std::min(lo[d], (long long)((p(d) - g_off) * g_den));
		if(lo[d] >= (long long)((ref(d) - g_off) * g_den)) return 0;
	}
	z = lo;
	long long count = 0;
	while(true){
		bool cov = false;
		for(auto const& p: P){
			bool le = true;
			for(std::size_t d = 0; d != m && le; ++d) if((p(d) - g_off) * g_den > (double)z[d]) le = false;
			if(le){ cov = true; break; }
		}
		if(cov) ++count;
		std::size_t d = 0;
		while(d != m){ if(++z[d] < (long long)((ref(d) - g_off) * g_den)) break; z[d] = lo[d]; ++d; }
		if(d == m) break;
	}
	return count;
}
static std::string num(double x){ return vh::intval(x); }
// contributions may come out of exp(log(.)): round, flag when not integral within 1e-6
static std::string numR(double x, bool& inexact){
	double r = std::floor(x + 0.5);
	if(std::fabs(x - r) > 1e-6 * (1 + std::fabs(x))) return "?" + vh::exactDouble(x);
	if(x != r) inexact = true;
	return vh::intval(r);
}

int main(){
	std::string line;
	std::vector<long long> a;
	while(std::getline(std::cin, line)){
		std::vector<std::string> t = vh::tokens(line);
		if(t.empty()){ std::cout << "\n"; continue; }
		g_den = 1; g_off = 0;
		if(t[0].size() > 1 && t[0][0] == 't' && t.size() > 1 && (t[0][1] == '-' || (t[0][1] >= '0' && t[0][1] <= '9'))){
			bool okt = true; int kt = 0;
			std::size_t b0 = t[0][1] == '-' ? 2 : 1;
			if(b0 == t[0].size() || t[0].size() > b0 + 2) okt = false;
			for(std::size_t c = b0; okt && c < t[0].size(); ++c){ if(t[0][c] < '0' || t[0][c] > '9'){ okt = false; break; } kt = kt * 10 + (t[0][c] - '0'); }
			if(!okt || kt > 45 || t[1] == "hoys" || t[1] == "dca" || t[1] == "dcb" || t[1] == "sort"){ std::cout << "bad-op\n"; continue; }
			g_off = std::ldexp(t[0][1] == '-' ? -1.0 : 1.0, kt); t.erase(t.begin());
		}else
		// scale classes: a line may start with the token e<k> (k an integer, |k| <= 120): the real algorithms get every
		// coordinate (points AND reference) multiplied by 2^k - exact in binary floating point, and every comparison, difference
		// and product inside the algorithms stays exact (no over-/underflow: |coordinate| < 2^53, m <= 6) - the oracles work on
		// the integers, volumes are reported divided by 2^(k*m) (exact). Order-theoretic results must be IDENTICAL to the
		// unscaled line, volumes scale by exactly 2^(k*m) (rankSpec_scale, hvSpec_scale_shift, hvQ_scale): any absolute
		// tolerance hidden in the code shows up at some scale
		if(t[0].size() > 1 && t[0][0] == 'e' && t.size() > 1 && (t[0][1] == '-' || (t[0][1] >= '0' && t[0][1] <= '9'))){
			bool oke = true; int ke = 0;
			std::size_t b0 = t[0][1] == '-' ? 2 : 1;
			if(b0 == t[0].size() || t[0].size() > b0 + 3) oke = false;
			for(std::size_t c = b0; oke && c < t[0].size(); ++c){ if(t[0][c] < '0' || t[0][c] > '9'){ oke = false; break; } ke = ke * 10 + (t[0][c] - '0'); }
			if(!oke || ke > 120 || t[1] == "hoys" || t[1] == "dca" || t[1] == "dcb"){ std::cout << "bad-op\n"; continue; }
			g_den = std::ldexp(1.0, t[0][1] == '-' ? ke : -ke); t.erase(t.begin());
		}else
		if(t[0].size() > 1 && t[0][0] == 'q' && t.size() > 1){
			long long dq = 0; bool okq = true;
			for(std::size_t c = 1; c < t[0].size(); ++c){ if(t[0][c] < '0' || t[0][c] > '9'){ okq = false; break; } dq = dq * 10 + (t[0][c] - '0'); }
			if(!okq || dq <= 0 || (dq & (dq - 1)) != 0 || dq > 1024 || t[1] == "hoys" || t[1] == "dca" || t[1] == "dcb"){ std::cout << "bad-op\n"; continue; }
			g_den = (double)dq; t.erase(t.begin());
		}
		std::string const& op = t[0];
		std::ostringstream os; std::string orc;
		try{
		if(op == "dom" && parseInts(t, 1, a) && a.size() >= 1 && a.size() == 1 + 2*(std::size_t)a[0]){
			std::size_t m = a[0];
			RealVector p = vec(a, 1, m), q = vec(a, 1+m, m);
			int rel = dominance(p, q), rev = dominance(q, p);
			os << "rel=" << rel << " rev=" << rev;
			int want = weakDom(p,q) ? (weakDom(q,p) ? 3 : 1) : (weakDom(q,p) ? 2 : 0);
			if(rel != want) orc += " !oracle dominance-def";
		}else if(op == "sort" && parseInts(t, 1, a) && a.size() >= 2 && a.size() == 2 + (std::size_t)(a[0]*a[1])){
			std::size_t m = a[0], n = a[1];
			Points P = pts(a, 2, m, n);
			std::vector<unsigned> rf(n, 0), rd(n, 0), rn(n, 0);
			fastNonDominatedSort(P, rf);
			if(n > 0) dcNonDominatedSort(P, rd);      // the DC sorter reads points[0] unconditionally
			nonDominatedSort(P, rn);
			std::vector<unsigned> memo(n, 0), rs(n, 0);
			for(std::size_t i = 0; i != n; ++i) rs[i] = rankOf(P, memo, i);
			os << "fast=" << showV(rf) << " dc=" << showV(rd) << " nds=" << showV(rn) << " spec=" << showV(rs);
			if(!rankDefHolds(P, rf)) orc += " !oracle rank-def fast";
			if(!rankDefHolds(P, rd)) orc += " !oracle rank-def dc";
			if(!rankDefHolds(P, rn)) orc += " !oracle rank-def nds";
		}else if(op == "hv" && parseInts(t, 1, a) && a.size() >= 2 && a.size() == 2 + (std::size_t)(a[0]*(a[1]+1))){
			std::size_t m = a[0], n = a[1];
			RealVector ref = vec(a, 2, m);
			Points P = pts(a, 2+m, m, n);
			long long want = cellHv(P, ref);
			double const S = scaleOf(m);
			auto emit = [&](char const* name, double v0){
				double v = v0 * S;
				os << (os.tellp() > 0 ? " " : "") << name << "=" << num(v);
				if(v != (double)want) orc += std::string(" !oracle hv-def ") + name;
			};
			if(m == 2){ HypervolumeCalculator2D c; emit("hv2d", c(P, ref)); }
			if(m == 3){ HypervolumeCalculator3D c; emit("hv3d", c(P, ref)); }
			if(m >= 3){ HypervolumeCalculatorMDHOY c; emit("hoy", c(P, ref)); }
			// WFG is exponential in the number of duplicates/ties (limitSet keeps equal points): small sets only
			if(n <= 12){ HypervolumeCalculatorMDWFG c; emit("wfg", c(P, ref)); }
			{ HypervolumeCalculator c; emit("disp", c(P, ref)); }
		}else if(op == "con" && t.size() >= 3 && parseInts(t, 3, a) && a.size() >= 3 && a.size() == 3 + (std::size_t)(a[1]*(a[2]+1))){
			std::string alg = t[1], kind = t[2];
			std::size_t k = a[0], m = a[1], n = a[2];
			RealVector ref = vec(a, 3, m);
			Points P = pts(a, 3+m, m, n);
			typedef std::vector<KeyValuePair<double,std::size_t> > Res;
			double const S = scaleOf(m);
			auto call0 = [&](std::size_t kk) -> Res {
				if(alg == "2d"){ HypervolumeContribution2D c; return kind == "small" ? c.smallest(P, kk, ref) : c.largest(P, kk, ref); }
				if(alg == "3d"){ HypervolumeContribution3D c; return kind == "small" ? c.smallest(P, kk, ref) : c.largest(P, kk, ref); }
				if(alg == "md"){ HypervolumeContributionMD c; return kind == "small" ? c.smallest(P, kk, ref) : c.largest(P, kk, ref); }
				HypervolumeContribution c; return kind == "small" ? c.smallest(P, kk, ref) : c.largest(P, kk, ref);
			};
			auto call = [&](std::size_t kk) -> Res { Res res = call0(kk); for(auto& kv: res) kv.key *= S; return res; };
			bool inexact = false;
			// (1) k = n: every point is reported once; canonical form = contribution by index
			Res full = call(n);
			std::vector<std::string> byIdx(n, "missing");
			std::vector<double> val(n, -1);
			std::vector<int> seen(n, 0);
			if(full.size() != n) orc += " !oracle contribution-count-full";
			for(auto const& kv: full){
				if(kv.value >= n){ orc += " !oracle contribution-index-range"; continue; }
				if(seen[kv.value]++) orc += " !oracle contribution-index-twice";
				byIdx[kv.value] = numR(kv.key, inexact); val[kv.value] = kv.key;
			}
			for(std::size_t i = 1; i < full.size(); ++i)
				if(kind == "small" ? full[i-1].key > full[i].key : full[i-1].key < full[i].key) orc += " !oracle contribution-order";
			// independent definition: hv(S) - hv(S \ i)
			long long hvAll = cellHv(P, ref);
			std::vector<long long> specv(n, 0);
			for(std::size_t i = 0; i != n; ++i){
				Points Q = P; Q.erase(Q.begin() + i);
				long long want = hvAll - cellHv(Q, ref);
				specv[i] = want;
				if(seen[i] && std::fabs(val[i] - (double)want) > 1e-6 * (1 + std::fabs((double)want))){ orc += " !oracle contribution-def"; break; }
			}
			// every k: the reported keys are the first k of the full result (2-D and 3-D algorithms: cheap)
			if(alg == "2d" || alg == "3d"){
				for(std::size_t kk = 0; kk <= n; ++kk){
					Res part = call(kk);
					if(part.size() != kk){ orc += " !oracle contribution-k-count"; break; }
					bool same = true;
					for(std::size_t i = 0; i != kk && same; ++i) if(i >= full.size() || part[i].key != full[i].key) same = false;
					if(!same){ orc += " !oracle contribution-k-prefix"; break; }
				}
			}
			// (2) the requested k: values in reported order; each must be the contribution of its index
			Res sel = call(k);
			if(sel.size() != k) orc += " !oracle contribution-count";
			std::set<std::size_t> idx;
			std::vector<std::string> selv;
			for(auto const& kv: sel){
				selv.push_back(numR(kv.key, inexact));
				if(kv.value >= n || !idx.insert(kv.value).second){ orc += " !oracle contribution-sel-index"; continue; }
				if(std::fabs(kv.key - val[kv.value]) > 1e-6 * (1 + std::fabs(kv.key))) orc += " !oracle contribution-sel-value";
			}
			os << "all=[";
			for(std::size_t i = 0; i != n; ++i) os << (i ? "," : "") << byIdx[i];
			os << "] sel=[";
			for(std::size_t i = 0; i != selv.size(); ++i) os << (i ? "," : "") << selv[i];
			os << "] spec=" << showV(specv);
		}else if(op == "hoys" && parseInts(t, 1, a) && a.size() >= 5 && a.size() == 5 + (std::size_t)(a[0]*(a[1]+2))){
			// hoys m n sqrtN split cover low.. up.. pts..: HypervolumeCalculatorMDHOY::stream called directly (public member)
			std::size_t m = a[0], n = a[1];
			HypervolumeCalculatorMDHOY c; c.m_sqrtNoPoints = (std::size_t)a[2];
			int split = (int)a[3]; double cover = (double)a[4];
			RealVector low = vec(a, 5, m), up = vec(a, 5+m, m);
			Points P = pts(a, 5+2*m, m, n);
			// preconditions of a reachable call (otherwise the C++ indexes regionLow[split] out of range): checked here
			bool ok = m >= 2 && split >= 0 && split <= (int)m - 2;
			for(std::size_t d = 0; d + 1 < m; ++d) if(!(low(d) < up(d))) ok = false;
			for(std::size_t i = 0; i != n && ok; ++i){
				if(!(P[i](m-1) < cover)) ok = false;
				if(i && P[i-1](m-1) > P[i](m-1)) ok = false;
				int below = 0;
				for(std::size_t d = 0; d + 1 < m; ++d){
					if(!(P[i](d) < up(d))) ok = false;
					if((int)d < split && low(d) < P[i](d)) ++below;
					// objectives behind `split` have never been cut in a real run: regionLow is the minimum over all points there
					if((int)d > split && P[i](d) < low(d)) ok = false;
				}
				if(below >= 2) ok = false;
			}
			if(!ok){ os << "skip"; }
			else{
				double v = n ? c.stream(low, up, P, split, cover) : 0.0;
				os << "stream=" << num(v);
				// definition: cells x of the (m-1)-dimensional region, height cover - min{last(p) | p <= x}
				std::vector<long long> z(m-1);
				for(std::size_t d = 0; d + 1 < m; ++d) z[d] = (long long)low(d);
				long long want = 0;
				while(true){
					double best = cover;
					for(auto const& p: P){
						bool le = true;
						for(std::size_t d = 0; d + 1 < m && le; ++d) if(p(d) > (double)z[d]) le = false;
						if(le) best = std::min(best, p(m-1));
					}
					want += (long long)(cover - best);
					std::size_t d = 0;
					while(d + 1 < m){ if(++z[d] < (long long)up(d)) break; z[d] = (long long)low(d); ++d; }
					if(d + 1 == m) break;
				}
				if(v != (double)want) orc += " !oracle hoy-stream-def";
			}
		}else if((op == "dca" || op == "dcb") && parseInts(t, 1, a) && a.size() >= 4){
			// dca k m n 0 pts.. frt..   : ndHelperA(S, k) on the n points as given (front numbers preset)
			// dcb k m nL nH pts.. frt.. : ndHelperB(L, H, k), L = first nL points, H = the following nH points
			std::size_t k = a[0], m = a[1], nL = a[2], nH = a[3], n = nL + nH;
			if(a.size() != 4 + n*m + n || k < 2 || k > m){ std::cout << "bad-op\n"; continue; }
			Points P = pts(a, 4, m, n);
			std::vector<BaseDCNonDominatedSort::Point> pv;
			for(std::size_t i = 0; i != n; ++i){ pv.push_back(BaseDCNonDominatedSort::Point(P[i])); pv.back().frt = (unsigned)a[4 + n*m + i]; }
			BaseDCNonDominatedSort sorter;
			BaseDCNonDominatedSort::ContainerType L, H;
			for(std::size_t i = 0; i != nL; ++i) L.push_back(&pv[i]);
			for(std::size_t i = nL; i != n; ++i) H.push_back(&pv[i]);
			std::vector<unsigned> before(n), after(n);
			for(std::size_t i = 0; i != n; ++i) before[i] = pv[i].frt;
			if(op == "dca") sorter.ndHelperA(L, k); else sorter.ndHelperB(L, H, k);
			for(std::size_t i = 0; i != n; ++i) after[i] = pv[i].frt;
			os << "frt=" << showV(after);
			// independent postconditions (definitions of figures 2 and 7 of the paper, on the first k objectives)
			auto leK = [&](std::size_t i, std::size_t j){ for(std::size_t d = 0; d != k; ++d) if(P[i](d) > P[j](d)) return false; return true; };
			if(op == "dcb"){
				for(std::size_t i = 0; i != nL; ++i) if(after[i] != before[i]) orc += " !oracle dcb-changes-L";
				for(std::size_t h = nL; h != n; ++h){
					unsigned want = before[h];
					for(std::size_t l = 0; l != nL; ++l) if(leK(l, h)) want = std::max(want, before[l] + 1);
					if(after[h] != want){ orc += " !oracle dcb-def"; break; }
				}
			}else{
				// A: frt'[s] = max(frt[s], 1 + max frt'[t] over t in S strictly dominating s in the first k objectives)
				// (precondition of ndHelperA: the projections on the first k objectives are pairwise distinct)
				bool distinct = true;
				for(std::size_t i = 0; i != n && distinct; ++i) for(std::size_t j = 0; j != i; ++j) if(leK(i, j) && leK(j, i)){ distinct = false; break; }
				for(std::size_t s2 = 0; s2 != n && distinct; ++s2){
					unsigned want = before[s2];
					for(std::size_t t2 = 0; t2 != n; ++t2) if(t2 != s2 && leK(t2, s2) && !leK(s2, t2)) want = std::max(want, after[t2] + 1);
					if(after[s2] != want){ orc += " !oracle dca-def"; break; }
				}
			}
		}else if(op == "ssp" && parseInts(t, 1, a) && a.size() >= 4 && a.size() == 4 + (std::size_t)(2*a[1])){
			std::size_t k = a[0], n = a[1];
			RealVector ref = vec(a, 2, 2);
			Points P = pts(a, 4, 2, n);
			std::vector<bool> selected(n, false);
			HypervolumeSubsetSelection2D sel;
			sel(P, selected, k, ref);
			Points Q; std::size_t cnt = 0;
			for(std::size_t i = 0; i != n; ++i) if(selected[i]){ Q.push_back(P[i]); ++cnt; }
			long long got = cellHv(Q, ref);
			os << "cnt=" << cnt << " hv=" << got;
			if(cnt != k) orc += " !oracle subset-count";
			// brute force over all k-subsets (n is small)
			if(n <= 12){
				long long best = 0;
				for(unsigned long mask = 0; mask < (1ul << n); ++mask){
					if((std::size_t)__builtin_popcountl(mask) != k) continue;
					Points R; for(std::size_t i = 0; i != n; ++i) if(mask >> i & 1) R.push_back(P[i]);
					best = std::max(best, cellHv(R, ref));
				}
				os << " best=" << best;
				if(got < best) orc += " !oracle subset-not-optimal";
			}else{
				os << " best=-";
				// larger sets: the optimum over the k-subsets of the distinct non-dominated points by an own O(n^2 k) recursion
				Points F;
				for(std::size_t i = 0; i != n; ++i){
					bool keep = true;
					for(std::size_t j = 0; j != n && keep; ++j) if(strictDom(P[j], P[i]) || (j < i && weakDom(P[j], P[i]) && weakDom(P[i], P[j]))) keep = false;
					if(keep) F.push_back(P[i]);
				}
				std::sort(F.begin(), F.end(), [](RealVector const& a, RealVector const& b){ return a(0) < b(0); });
				std::size_t f = F.size();
				// best[j][i]: largest area left of x_i... use: A[c][i] = best hv of c points the last (right-most) of which is i
				std::vector<std::vector<double> > A(k + 1, std::vector<double>(f, -1));
				for(std::size_t i = 0; i != f; ++i) A[1][i] = (ref(0) - F[i](0)) * (ref(1) - F[i](1));
				for(std::size_t c = 2; c <= k; ++c) for(std::size_t i = 0; i != f; ++i) for(std::size_t j = 0; j != i; ++j)
					if(A[c-1][j] >= 0) A[c][i] = std::max(A[c][i], A[c-1][j] + (ref(0) - F[i](0)) * (F[j](1) - F[i](1)));
				double best = 0;
				for(std::size_t c = 1; c <= k; ++c) for(std::size_t i = 0; i != f; ++i) best = std::max(best, A[c][i]);
				if((double)got < best * scaleOf(2)) orc += " !oracle subset-not-optimal";
			}
			os << " sel=[";
			{ bool first = true; for(std::size_t i = 0; i != n; ++i) if(selected[i]){ os << (first ? "" : ",") << i; first = false; } }
			os << "]";
		}else{ std::cout << "bad-op\n"; continue; }
		}catch(std::exception const& e){
			os.str(""); os << "exception";
			orc += std::string(" !oracle exception ") + e.what();
		}
		std::cout << os.str() << orc << "\n";
	}
	return 0;
}
