// C10 compile probe (finding F8c): shark::TrustRegionNewton must be a concrete class.
// As shipped, TrustRegionNewton::init(ObjectiveFunctionType&, SearchPointType const&) takes a non-const
// objective and therefore does not override the pure virtual
// AbstractSingleObjectiveOptimizer::init(ObjectiveFunctionType const&, SearchPointType const&).
#include <shark/Algorithms/GradientDescent/TrustRegionNewton.h>
int main(){ shark::TrustRegionNewton optimizer; (void)optimizer; return 0; }
