// K-C18 compile probes (syntax only): can these classes be archived at all in this tree?
//   -DPROBE_MOEAD_RVEA : MOEAD / RVEA through OutArchive/InArchive
//   -DPROBE_CVEC       : remora::compressed_vector
#include <shark/Core/ISerializable.h>
#ifdef PROBE_MOEAD_RVEA
#include <shark/Algorithms/DirectSearch/MOEAD.h>
#include <shark/Algorithms/DirectSearch/RVEA.h>
void probe(shark::OutArchive& o, shark::InArchive& i, shark::MOEAD& m, shark::RVEA& r){ o << m; o << r; i >> m; i >> r; }
#endif
#ifdef PROBE_CVEC
#include <shark/LinAlg/Base.h>
void probe(shark::OutArchive& o, shark::InArchive& i, shark::CompressedRealVector& v){ o << v; i >> v; }
#endif
