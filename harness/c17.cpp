// K-C17: correspondence harness for IterativeNNQuery / TreeNearestNeighbors /
// SimpleNearestNeighbors / NearestNeighborModel over KDTree, LCTree, KHCTree.
//
// Protocol: one op per stdin line, one observation per stdout line (format of
// lean/Driver/C17.lean).  Because the real trees contain two things no model
// can predict (the order std::nth_element leaves inside a leaf, and the heap
// addresses of the tree nodes that IterativeNNQuery uses as tie-break), the
// harness also writes an *annotated* copy of the op lines (tree dump appended
// to `build`, per-node lower bounds / isLeft appended to `query`) to
// <annot-dir>/<fnv64 of stdin>.ops; tools/c17_drv.py feeds that file to the
// Lean driver.  The driver re-derives everything it can (kd construction,
// kd bounds, distances) and uses the annotation only for what is genuinely
// implementation-defined; every use is cross-checked (see Driver/C17.lean).
//
// Independent property oracle: brute force over the data (no tree, no Shark
// search code); appends ` !oracle <key>` when the real code violates C17.
#include <boost/intrusive/rbtree.hpp>
#include <shark/Models/Trees/BinaryTree.h>
#include <shark/Models/Trees/KDTree.h>
#include <shark/Models/Trees/LCTree.h>
#include <shark/Models/Trees/KHCTree.h>
#include <shark/Models/Kernels/LinearKernel.h>
#include <shark/Algorithms/NearestNeighbors/AbstractNearestNeighbors.h>
#include <shark/Algorithms/NearestNeighbors/SimpleNearestNeighbors.h>
#include <shark/Data/DataView.h>
#include <shark/Data/Dataset.h>
#include <shark/Models/Classifier.h>
#include "common.hpp"
#include <algorithm>
#include <fstream>
#include <map>
#include <memory>
#include <unistd.h>
// private members of IterativeNNQuery (trace tree, radius, head) are observed
// through a harness-local redefinition around this single include (DESIGN §8)
#define private public
#include <shark/Algorithms/NearestNeighbors/TreeNearestNeighbors.h>
#undef private
#include <shark/Models/NearestNeighborModel.h>

using namespace shark;
typedef BinaryTree<RealVector> Tree;
typedef DataView<Data<RealVector> const> View;
typedef IterativeNNQuery<View> Query;

static std::vector<std::vector<long long> > g_pts;   // integer points
static std::vector<unsigned int> g_labels;
static std::size_t g_dim = 0;
static Data<RealVector> g_data;
static std::unique_ptr<View> g_view;
static LinearKernel<RealVector> g_kernel;
static std::unique_ptr<Tree> g_tree;
static std::string g_kind;
static std::vector<Tree const*> g_pre;               // nodes in preorder
static std::map<Tree const*, std::size_t> g_id;      // node -> preorder id

static RealVector toVec(std::vector<long long> const& p){
	RealVector v(p.size());
	for(std::size_t i = 0; i != p.size(); ++i) v(i) = (double)p[i];
	return v;
}
static long long d2int(std::vector<long long> const& a, std::vector<long long> const& b){
	long long s = 0;
	for(std::size_t i = 0; i != a.size(); ++i) s += (a[i]-b[i])*(a[i]-b[i]);
	return s;
}
static void preorder(Tree const* t){
	g_id[t] = g_pre.size(); g_pre.push_back(t);
	if(t->hasChildren()){ preorder(t->left()); preorder(t->right()); }
}
// reported distance r = sqrt(D) for an integer D (nearest-double rule) -> D
static std::string sqOfReported(double r){
	double sq = r*r;
	long long D = (long long)std::floor(sq + 0.5);
	for(long long c = D-1; c <= D+1; ++c)
		if(c >= 0 && std::sqrt((double)c) == r){ std::ostringstream os; os << c; return os.str(); }
	return "?" + vh::exactDouble(r);
}
static std::string radiusStr(double r){
	if(r == 1e100) return "BIG";
	return vh::exactDouble(r);
}
static bool leafHasDistinct(Tree const* t){
	for(std::size_t i = 1; i < t->size(); ++i)
		if(g_pts[t->index(i)] != g_pts[t->index(0)]) return true;
	return false;
}
static bool treeHasDistinctLeaf(){
	for(Tree const* t: g_pre) if(t->isLeaf() && leafHasDistinct(t)) return true;
	return false;
}
static bool treeHasEmptyLeaf(){
	for(Tree const* t: g_pre) if(t->isLeaf() && t->size() == 0) return true;
	return false;
}
// T1: every inner node must separate its two index ranges (left: funct < threshold,
// right: funct >= threshold) and the threshold must be the midpoint between the
// largest left and the smallest right value (BinaryTree::splitList's stated intent).
// 0 = fine, 1 = separating but not the midpoint, 2 = not separating
static int g_t1 = 0;
static void collect(Tree const* t, std::vector<std::size_t>& out){
	for(std::size_t i = 0; i != t->size(); ++i) out.push_back(t->index(i));
}
static int checkSplits(){
	int worst = 0;
	for(Tree const* t: g_pre){
		if(!t->hasChildren()) continue;
		std::vector<std::size_t> L, R; collect(t->left(), L); collect(t->right(), R);
		if(L.empty() || R.empty()) continue;   // L1 territory
		// kd-trees are exact on integer data; LC/KHC projections are rounded doubles, so a point may sit
		// within rounding distance of its own threshold: tolerance there (floating point, not T1)
		double tol = g_kind == "kd" ? 0.0 : 1e-9*(1.0 + std::fabs(t->threshold()));
		double maxL = -1e300, minR = 1e300; bool sep = true;
		for(std::size_t i: L){ RealVector v = toVec(g_pts[i]); double f = t->distanceFromPlane(v); if(g_kind == "kd" ? !t->isLeft(v) : f > tol) sep = false; maxL = std::max(maxL, f); }
		for(std::size_t i: R){ RealVector v = toVec(g_pts[i]); double f = t->distanceFromPlane(v); if(g_kind == "kd" ? !t->isRight(v) : f < -tol) sep = false; minR = std::min(minR, f); }
		if(!sep) worst = 2;
		else if(std::fabs(maxL + minR) > 1e-9*(std::fabs(maxL) + std::fabs(minR)) + 2*tol && worst < 1) worst = 1;
	}
	return worst;
}
static std::string failKey(std::string const& what){
	if(g_t1 == 2) return "T1:threshold-not-separating:" + g_kind + ":" + what;
	if(treeHasEmptyLeaf()) return "L1:empty-leaf:" + g_kind + ":" + what;
	if(treeHasDistinctLeaf()) return "K1:leaf-with-distinct-points:" + g_kind + ":" + what;
	return "wrong-result:" + g_kind + ":" + what;
}

struct KDProbe: public KDTree<RealVector>{
	// protected member read through a pointer-to-member (no downcast)
	static std::size_t cutDim(KDTree<RealVector> const* t){ std::size_t KDTree<RealVector>::* p = &KDProbe::m_cutDim; return t->*p; }
};

static std::string canonTree(Tree const* t){
	std::ostringstream os;
	if(t->hasChildren()){
		if(g_kind == "kd") os << "N(" << KDProbe::cutDim(static_cast<KDTree<RealVector> const*>(t)) << "," << vh::exactDouble(t->threshold()) << ")";
		else os << "N";
		os << canonTree(t->left()) << canonTree(t->right());
	}else{
		std::vector<std::size_t> ix;
		for(std::size_t i = 0; i != t->size(); ++i) ix.push_back(t->index(i));
		std::sort(ix.begin(), ix.end());
		os << "L[";
		for(std::size_t i = 0; i != ix.size(); ++i){ if(i) os << ","; os << ix[i]; }
		os << "]";
	}
	return os.str();
}

// trace-tree digest: status of every tree node in preorder (uncreated = N)
static void traceDigest(Query::TraceNode const* tn, std::vector<char>& out){
	static const char names[3] = {'N','P','C'};
	out[g_id[tn->m_tree]] = names[(int)tn->m_status];
	if(tn->mep_left) traceDigest(tn->mep_left, out);
	if(tn->mep_right) traceDigest(tn->mep_right, out);
}
static std::string stateStr(Query& q){
	std::ostringstream os;
	std::vector<char> st(g_pre.size(), 'N');
	traceDigest(q.mp_trace, st);
	os << "r=" << radiusStr(q.m_squaredRadius) << " qs=" << q.queuesize() << " nb=" << q.neighbors()
	   << " ni=" << q.m_nextIndex << " hd=";
	if(q.mep_head) os << g_id[q.mep_head->m_tree]; else os << "-";
	os << " st=" << std::string(st.begin(), st.end());
	return os.str();
}

int main(int argc, char** argv){
	std::string annotDir = argc > 1 ? argv[1] : "";
	// read everything first: the annotation file is keyed by a hash of stdin
	std::vector<std::string> lines; std::string line;
	std::uint64_t h = 1469598103934665603ULL;
	while(std::getline(std::cin, line)){
		lines.push_back(line);
		for(unsigned char c: line){ h ^= c; h *= 1099511628211ULL; }
		h ^= '\n'; h *= 1099511628211ULL;
	}
	std::ofstream annot;
	std::string annotTmp, annotFinal;
	if(!annotDir.empty()){
		std::ostringstream fn; fn << annotDir << "/" << std::hex << h;
		annotFinal = fn.str() + ".ops"; annotTmp = fn.str() + ".tmp" + std::to_string((long long)getpid());
		annot.open(annotTmp.c_str());
	}
	for(std::string const& ln: lines){
		std::vector<std::string> t = vh::tokens(ln);
		std::ostringstream out, ann;
		ann << ln;
		if(t.empty()){ std::cout << "\n"; if(annot.is_open()) annot << "\n"; continue; }
		std::string const& op = t[0];
		try{
		if(op == "data" && t.size() >= 3){
			g_dim = std::stoul(t[1]); std::size_t n = std::stoul(t[2]);
			if(t.size() != 3 + g_dim*n || n == 0 || g_dim == 0){ out << "bad-op"; }
			else{
				g_tree.reset(); g_view.reset(); g_pre.clear(); g_id.clear();
				g_pts.assign(n, std::vector<long long>(g_dim));
				std::vector<RealVector> vecs;
				for(std::size_t i = 0; i != n; ++i){
					for(std::size_t d = 0; d != g_dim; ++d) g_pts[i][d] = std::stoll(t[3 + i*g_dim + d]);
					vecs.push_back(toVec(g_pts[i]));
				}
				g_labels.assign(n, 0);
				// several batches so that DataView / batch handling is exercised too
				g_data = createDataFromRange(vecs, n > 5 ? 3 : 256);
				g_view.reset(new View(g_data));
				out << "ok n=" << n << " d=" << g_dim;
			}
		}
		else if(op == "labels" && t.size() == 1 + g_pts.size()){
			for(std::size_t i = 0; i != g_pts.size(); ++i) g_labels[i] = (unsigned)std::stoul(t[1+i]);
			out << "ok";
		}
		else if(op == "build" && t.size() == 4 && g_view){
			g_kind = t[1];
			unsigned maxDepth = (unsigned)std::stoul(t[2]), bucket = (unsigned)std::stoul(t[3]);
			TreeConstruction tc(maxDepth, bucket);
			g_tree.reset(); g_pre.clear(); g_id.clear();
			if(g_kind == "kd") g_tree.reset(new KDTree<RealVector>(g_data, tc));
			else if(g_kind == "lc") g_tree.reset(new LCTree<RealVector>(g_data, tc));
			else if(g_kind == "khc") g_tree.reset(new KHCTree<View>(*g_view, &g_kernel, tc));
			else { out << "bad-op"; }
			if(g_tree){
				preorder(g_tree.get());
				// address rank of every node (the tie-break of the leaf queue)
				std::vector<Tree const*> sorted(g_pre); std::sort(sorted.begin(), sorted.end(), std::less<Tree const*>());
				std::map<Tree const*, std::size_t> rank;
				for(std::size_t i = 0; i != sorted.size(); ++i) rank[sorted[i]] = i;
				ann << " |";
				for(Tree const* nd: g_pre){
					if(nd->hasChildren()){
						std::size_t cd = g_kind == "kd" ? KDProbe::cutDim(static_cast<KDTree<RealVector> const*>(nd)) : 0;
						ann << " N " << rank[nd] << " " << cd << " " << vh::exactDouble(nd->threshold());
					}else{
						ann << " L " << rank[nd] << " " << nd->size();
						for(std::size_t i = 0; i != nd->size(); ++i) ann << " " << nd->index(i);
					}
				}
				// the index list must be a permutation of 0..n-1 and node sizes must add up
				std::vector<std::size_t> all;
				for(std::size_t i = 0; i != g_tree->size(); ++i) all.push_back(g_tree->index(i));
				std::sort(all.begin(), all.end());
				bool perm = all.size() == g_pts.size();
				for(std::size_t i = 0; perm && i != all.size(); ++i) perm = all[i] == i;
				out << "tree " << canonTree(g_tree.get()) << " nodes=" << g_tree->nodes() << " perm=" << (perm ? 1 : 0);
				if(!perm) out << " !oracle index-list-not-a-permutation:" << g_kind;
				if(treeHasEmptyLeaf()) out << " !oracle L1:empty-leaf:" << g_kind << ":build";
				g_t1 = checkSplits();
				if(g_t1 == 2) out << " !oracle T1:threshold-not-separating:" << g_kind << ":build";
				else if(g_t1 == 1) out << " !oracle T1:threshold-not-midpoint:" << g_kind << ":build";
			}
		}
		else if(op == "query" && t.size() == 1 + g_dim && g_tree){
			std::vector<long long> q(g_dim);
			for(std::size_t d = 0; d != g_dim; ++d) q[d] = std::stoll(t[1+d]);
			RealVector qv = toVec(q);
			ann << " |";
			for(Tree const* nd: g_pre)
				ann << " " << vh::exactDouble(nd->squaredDistanceLowerBound(qv)) << " " << (nd->hasChildren() && nd->isLeft(qv) ? 1 : 0);
			std::size_t n = g_pts.size();
			// brute force (independent oracle)
			std::vector<long long> bf(n);
			for(std::size_t i = 0; i != n; ++i) bf[i] = d2int(g_pts[i], q);
			std::vector<long long> sortedBf(bf); std::sort(sortedBf.begin(), sortedBf.end());
			Query query(g_tree.get(), *g_view, qv);
			out << "init " << stateStr(query);
			std::string bad;
			std::vector<char> seen(n, 0);
			double prev = -1;
			for(std::size_t i = 0; i != n; ++i){
				Query::result_type r = query.next();
				std::string D = sqOfReported(r.first);
				out << " ; " << D << " " << r.second << " " << stateStr(query);
				if(!bad.empty()) continue;
				std::ostringstream si; si << i;
				if(r.second >= n) bad = "index-out-of-range@" + si.str();
				else if(seen[r.second]) bad = "point-returned-twice";
				else if(D != std::to_string(bf[r.second])) bad = "distance-not-true";
				else if(r.first < prev) bad = "order-decreasing";
				else if(bf[r.second] != sortedBf[i]) bad = "not-ith-nearest";
				if(r.second < n) seen[r.second] = 1;
				prev = r.first;
			}
			if(!bad.empty()) out << " !oracle " << failKey(bad);
		}
		else if((op == "knn" || op == "model") && t.size() == 3 + g_dim && g_tree){
			std::size_t k = std::stoul(t[1]); int weighted = std::stoi(t[2]);
			std::size_t n = g_pts.size();
			std::vector<long long> q(g_dim);
			for(std::size_t d = 0; d != g_dim; ++d) q[d] = std::stoll(t[3+d]);
			RealMatrix batch(1, g_dim); for(std::size_t d = 0; d != g_dim; ++d) batch(0,d) = (double)q[d];
			ann << " |";
			{ RealVector qv = toVec(q);
			  for(Tree const* nd: g_pre)
				ann << " " << vh::exactDouble(nd->squaredDistanceLowerBound(qv)) << " " << (nd->hasChildren() && nd->isLeft(qv) ? 1 : 0); }
			Data<unsigned int> lab = createDataFromRange(g_labels, n > 5 ? 3 : 256);
			LabeledData<RealVector, unsigned int> ds(g_data, lab);
			TreeNearestNeighbors<RealVector, unsigned int> tnn(ds, g_tree.get());
			SimpleNearestNeighbors<RealVector, unsigned int> snn(ds, &g_kernel);
			// brute force
			std::vector<std::pair<long long, unsigned> > bf(n);
			for(std::size_t i = 0; i != n; ++i) bf[i] = std::make_pair(d2int(g_pts[i], q), g_labels[i]);
			std::stable_sort(bf.begin(), bf.end(), [](std::pair<long long,unsigned> const& a, std::pair<long long,unsigned> const& b){ return a.first < b.first; });
			if(op == "knn"){
				typedef AbstractNearestNeighbors<RealVector, unsigned int>::DistancePair DP;
				std::vector<DP> a = tnn.getNeighbors(batch, k), b = snn.getNeighbors(batch, k);
				std::string bad;
				out << "tree";
				for(std::size_t i = 0; i != k; ++i){
					std::string D = sqOfReported(a[i].key);
					out << " " << D << ":" << a[i].value;
					if(bad.empty() && D != std::to_string(bf[i].first)) bad = "knn-distance";
				}
				// exhaustive-search back-end: canonical form = squared distances in order +
				// sorted labels strictly inside the k-th distance.  The property wants the SAME
				// distances from both back-ends; a key that equals the squared distance where the
				// tree back-end reports the distance is finding S1.
				out << " simple";
				std::vector<unsigned> inner;
				std::string bad2;
				for(std::size_t i = 0; i != k; ++i){
					double sq = (double)bf[i].first, rt = std::sqrt(sq);
					if(b[i].key == rt){ out << " " << bf[i].first; if(bf[i].first < bf[k-1].first) inner.push_back(b[i].value); }
					else if(b[i].key == sq){
						out << " " << bf[i].first;
						if(bf[i].first < bf[k-1].first) inner.push_back(b[i].value);
						if(bad2.empty()) bad2 = "S1:simple-backend-reports-squared-distance";
					}
					else{ out << " ?" << vh::exactDouble(b[i].key); if(bad2.empty() || bad2[0] == 'S') bad2 = "wrong-result:simple:distance"; }
				}
				std::sort(inner.begin(), inner.end());
				out << " inner";
				for(unsigned l: inner) out << " " << l;
				if(!bad.empty()) out << " !oracle " << failKey(bad);
				if(!bad2.empty()) out << " !oracle " << bad2;
			}else{
				NearestNeighborModel<RealVector, unsigned int> mt(&tnn, (unsigned)k), ms(&snn, (unsigned)k);
				typedef NearestNeighborModel<RealVector, unsigned int> M;
				mt.setDistanceWeightType(weighted ? M::ONE_OVER_DISTANCE : M::UNIFORM);
				ms.setDistanceWeightType(weighted ? M::ONE_OVER_DISTANCE : M::UNIFORM);
				UIntVector ot, os2; RealMatrix st;
				mt.eval(batch, ot); ms.eval(batch, os2);
				mt.decisionFunction().eval(batch, st);
				// is the k-neighbourhood unambiguous (no tie with different labels across the k-th boundary)?
				bool ambiguous = false;
				if(k < n && bf[k-1].first == bf[k].first){
					for(std::size_t i = 0; i != n; ++i)
						if(bf[i].first == bf[k-1].first && bf[i].second != bf[k-1].second) ambiguous = true;
				}
				// expected decision by definition, from the brute-force neighbours:
				// pw = 1: weights 1/d (specification), pw = 2: weights 1/d^2 (what S1 produces)
				std::size_t nc = st.size2();
				auto expect = [&](int pw){
					std::vector<double> v(nc, 0.0); double wsum = 0;
					for(std::size_t i = 0; i != k; ++i){
						double w = 1.0;
						if(weighted){ double d = pw == 1 ? std::sqrt((double)bf[i].first) : (double)bf[i].first; w = d < 1e-100 ? 1e100 : 1.0/d; }
						v[bf[i].second] += w; wsum += w;
					}
					std::size_t best = 0;
					for(std::size_t c = 0; c != nc; ++c){ v[c] /= wsum; if(v[c] > v[best]) best = c; }
					return (unsigned)best;
				};
				unsigned e1 = expect(1), e2 = expect(2);
				out << "class tree=" << ot(0) << " simple=";
				if(ambiguous) out << "*"; else out << os2(0);
				if(!weighted){
					out << " votes";
					for(std::size_t c = 0; c != nc; ++c) out << " " << vh::intval(std::floor(st(0,c)*k + 0.5));
				}
				if(!ambiguous){
					if(ot(0) != e1) out << " !oracle " << failKey("prediction");
					if(os2(0) != e1){
						if(weighted && os2(0) == e2) out << " !oracle S1:weighted-prediction-differs-between-backends";
						else out << " !oracle wrong-result:simple:prediction";
					}
				}
			}
		}
		else out << "bad-op";
		}catch(std::exception const& e){ out.str(""); out << "exception " << e.what(); }
		std::cout << out.str() << "\n";
		if(annot.is_open()) annot << ann.str() << "\n";
	}
	std::cout.flush();
	if(annot.is_open()){ annot.close(); std::rename(annotTmp.c_str(), annotFinal.c_str()); }
	return 0;
}
