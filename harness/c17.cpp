// K-C17: correspondence harness for IterativeNNQuery / TreeNearestNeighbors /
// SimpleNearestNeighbors / NearestNeighborModel over KDTree, LCTree, KHCTree.
//
// Protocol: one op per stdin line, one observation per stdout line (format of
// lean/Driver/C17.lean).  Because the real trees contain two things no model
// can predict (the order std::nth_element leaves inside a leaf, and the heap
// addresses of the tree nodes that IterativeNNQuery uses as tie-break), the
// harness also writes an *annotated* copy of the op lines (tree dump appended
// to `build`, per-node lower bounds / isLeft appended to `query`) to
// <annot-dir>/<fnv64 of stdin>.ops; tools/c17_drv.py feeds that file to the
// Lean driver.  The driver re-derives everything it can (kd construction,
// kd bounds, distances) and uses the annotation only for what is genuinely
// implementation-defined; every use is cross-checked (see Driver/C17.lean).
//
// Independent property oracle: brute force over the data (no tree, no Shark
// search code); appends ` !oracle <key>` when the real code violates C17.
#include <boost/intrusive/rbtree.hpp>
#include <shark/Models/Trees/BinaryTree.h>
#include <shark/Models/Trees/KDTree.h>
#include <shark/Models/Trees/LCTree.h>
#include <shark/Models/Trees/KHCTree.h>
#include <shark/Models/Kernels/LinearKernel.h>
#include <shark/Models/Kernels/PolynomialKernel.h>
#include <shark/Algorithms/NearestNeighbors/AbstractNearestNeighbors.h>
#include <shark/Algorithms/NearestNeighbors/SimpleNearestNeighbors.h>
#include <shark/Data/DataView.h>
#include <shark/Data/Dataset.h>
#include <shark/Models/Classifier.h>
#include "common.hpp"
#include <algorithm>
#include <fstream>
#include <map>
#include <memory>
#include <unistd.h>
// private members of IterativeNNQuery (trace tree, radius, head) are observed
// through a harness-local redefinition around this single include (DESIGN §8)
#define private public
#include <shark/Algorithms/NearestNeighbors/TreeNearestNeighbors.h>
#undef private
#include <shark/Models/NearestNeighborModel.h>

using namespace shark;
typedef BinaryTree<RealVector> Tree;
typedef DataView<Data<RealVector> const> View;
typedef IterativeNNQuery<View> Query;

static std::vector<std::vector<long long> > g_pts;   // integer points
static std::vector<unsigned int> g_labels;
static std::size_t g_dim = 0;
static std::size_t g_batchSize = 0;                  // batch size of the data set (0: 3 if n > 5, else one batch)
static Data<RealVector> g_data;
static std::unique_ptr<View> g_view;
static LinearKernel<RealVector> g_kernel;
// a genuinely non-Euclidean, exactly computable (integer valued on integer points) kernel metric:
// k(x,y) = (<x,y> + 1)^2, feature distance k(x,x) - 2 k(x,y) + k(y,y)   (tree kind `khcp`)
static PolynomialKernel<RealVector> g_poly(2, 1.0, false);
static AbstractKernelFunction<RealVector> const* g_metric = &g_kernel;   // metric of the current tree
static bool g_polyMetric = false;
static unsigned g_bucket = 1;                        // normalised maxBucketSize of the current tree
static std::vector<std::size_t> g_leafFirst;         // point index -> index(0) of the leaf that holds it
static std::unique_ptr<Tree> g_tree;
static std::string g_kind;
static std::vector<Tree const*> g_pre;               // nodes in preorder
static std::map<Tree const*, std::size_t> g_id;      // node -> preorder id

// all coordinates (data and queries) are the integers of the op lines times 2^g_scale (op `scale e`): huge and
// tiny magnitudes on which every squared distance is still exact; the oracles work on the integers
static int g_scale = 0;
static double sc(long long x){ return std::ldexp((double)x, g_scale); }
static RealVector toVec(std::vector<long long> const& p){
	RealVector v(p.size());
	for(std::size_t i = 0; i != p.size(); ++i) v(i) = sc(p[i]);
	return v;
}
static long long polyK(std::vector<long long> const& a, std::vector<long long> const& b){
	long long s = 1;
	for(std::size_t i = 0; i != a.size(); ++i) s += a[i]*b[i];
	return s*s;
}
// exact squared distance in the metric of the current tree (Euclidean, or the feature distance of g_poly)
static long long d2int(std::vector<long long> const& a, std::vector<long long> const& b){
	if(g_polyMetric) return polyK(a,a) - 2*polyK(a,b) + polyK(b,b);
	long long s = 0;
	for(std::size_t i = 0; i != a.size(); ++i) s += (a[i]-b[i])*(a[i]-b[i]);
	return s;
}
static void preorder(Tree const* t){
	g_id[t] = g_pre.size(); g_pre.push_back(t);
	if(t->hasChildren()){ preorder(t->left()); preorder(t->right()); }
}
// reported distance r = sqrt(D) for an integer D (nearest-double rule) -> D
static std::string sqOfReported(double r){
	r = std::ldexp(r, -g_scale);
	double sq = r*r;
	long long D = (long long)std::floor(sq + 0.5);
	for(long long c = D-1; c <= D+1; ++c)
		if(c >= 0 && std::sqrt((double)c) == r){ std::ostringstream os; os << c; return os.str(); }
	return "?" + vh::exactDouble(r);
}
static std::string radiusStr(double r){
	if(r == 1e100) return "BIG";
	return vh::exactDouble(r);
}
static bool leafHasDistinct(Tree const* t){
	for(std::size_t i = 1; i < t->size(); ++i)
		if(g_pts[t->index(i)] != g_pts[t->index(0)]) return true;
	return false;
}
static bool treeHasDistinctLeaf(){
	for(Tree const* t: g_pre) if(t->isLeaf() && leafHasDistinct(t)) return true;
	return false;
}
static bool treeHasEmptyLeaf(){
	for(Tree const* t: g_pre) if(t->isLeaf() && t->size() == 0) return true;
	return false;
}
// T1: every inner node must separate its two index ranges (left: funct < threshold,
// right: funct >= threshold) and the threshold must be the midpoint between the
// largest left and the smallest right value (BinaryTree::splitList's stated intent).
// 0 = fine, 1 = separating but not the midpoint, 2 = not separating
static int g_t1 = 0;
static void collect(Tree const* t, std::vector<std::size_t>& out){
	for(std::size_t i = 0; i != t->size(); ++i) out.push_back(t->index(i));
}
static int checkSplits(){
	int worst = 0;
	for(Tree const* t: g_pre){
		if(!t->hasChildren()) continue;
		std::vector<std::size_t> L, R; collect(t->left(), L); collect(t->right(), R);
		if(L.empty() || R.empty()) continue;   // L1 territory
		// kd-trees are exact on integer data; LC/KHC projections are rounded doubles, so a point may sit
		// within rounding distance of its own threshold: tolerance there (floating point, not T1)
		double tol = g_kind == "kd" ? 0.0 : 1e-9*(1.0 + std::fabs(t->threshold()));
		double maxL = -1e300, minR = 1e300; bool sep = true;
		for(std::size_t i: L){ RealVector v = toVec(g_pts[i]); double f = t->distanceFromPlane(v); if(g_kind == "kd" ? !t->isLeft(v) : f > tol) sep = false; maxL = std::max(maxL, f); }
		for(std::size_t i: R){ RealVector v = toVec(g_pts[i]); double f = t->distanceFromPlane(v); if(g_kind == "kd" ? !t->isRight(v) : f < -tol) sep = false; minR = std::min(minR, f); }
		if(!sep) worst = 2;
		else if(std::fabs(maxL + minR) > 1e-9*(std::fabs(maxL) + std::fabs(minR)) + 2*tol && worst < 1) worst = 1;
	}
	return worst;
}
// Classification of an oracle failure.  K1 (known finding) is claimed ONLY for the listed defect:
// the tree was built with a bucket size > 1, has a leaf with two distinct points, AND the observed
// results are exactly what the defect predicts (`k1Explains`: every check passes once the true
// distance of a point is replaced by the distance of the FIRST point of its leaf - the search is an
// exact search for those pseudo distances).  Everything else is a fresh `wrong-result`.
static std::string failKey(std::string const& what, bool k1Explains, bool kh1Explains){
	if(g_t1 == 2) return "T1:threshold-not-separating:" + g_kind + ":" + what;
	if(treeHasEmptyLeaf()) return "L1:empty-leaf:" + g_kind + ":" + what;
	// KH1 (listed finding): KHCTree does not override BinaryTree::kernel(), so IterativeNNQuery measures the
	// points with the Euclidean distance although the tree (cells, bounds) lives in the kernel's feature space
	if(kh1Explains && g_polyMetric && g_tree && g_tree->kernel() == NULL) return "KH1:khctree-kernel-not-exposed:" + what;
	if(treeHasDistinctLeaf()){
		if(g_bucket <= 1) return "wrong-result:" + g_kind + ":distinct-leaf-at-bucket-1:" + what;
		if(k1Explains) return "K1:leaf-with-distinct-points:" + g_kind + ":bucket>1:" + what;
		return "wrong-result:" + g_kind + ":beyond-K1:" + what;
	}
	return "wrong-result:" + g_kind + ":" + what;
}
static long long euclid2(std::vector<long long> const& a, std::vector<long long> const& b){
	long long s = 0;
	for(std::size_t i = 0; i != a.size(); ++i) s += (a[i]-b[i])*(a[i]-b[i]);
	return s;
}
static bool g_perm = true;
template<class Q> static auto hasLeafQueue(Q* q, int) -> decltype(q->m_nextIndex, true){ return true; }
template<class Q> static bool hasLeafQueue(Q*, long){ return false; }
// which queue does this tree's IterativeNNQuery keep?  the leaf queue (member m_nextIndex: the position inside
// the front leaf; finding K1 lives there) or the point queue of the K1 repair (no such member)
static bool leafQueue(){ return hasLeafQueue((Query*)0, 0); }
static bool k1Possible(){ return leafQueue() && g_perm && g_bucket > 1 && g_t1 != 2 && !treeHasEmptyLeaf() && treeHasDistinctLeaf(); }

// reference squared distances of all points to q: the true ones, or (pseudo = true) the distance of the
// first point of the point's leaf - what the listed defect K1 reports
static std::vector<long long> refDistances(std::vector<long long> const& q, bool pseudo){
	std::size_t n = g_pts.size();
	std::vector<long long> d(n);
	for(std::size_t i = 0; i != n; ++i) d[i] = d2int(g_pts[pseudo ? g_leafFirst[i] : i], q);
	return d;
}
// a full enumeration (n calls of next()): (squared distance as text, index).  "" = fine
static std::string checkEnumeration(std::vector<std::pair<std::string, std::size_t> > const& res, std::vector<long long> const& ref){
	std::size_t n = ref.size();
	std::vector<long long> sorted(ref); std::sort(sorted.begin(), sorted.end());
	std::vector<char> seen(n, 0);
	long long prev = -1;
	for(std::size_t i = 0; i != res.size(); ++i){
		std::size_t ix = res[i].second;
		std::ostringstream si; si << i;
		if(ix >= n) return "index-out-of-range@" + si.str();
		if(seen[ix]) return "point-returned-twice";
		if(res[i].first != std::to_string(ref[ix])) return "distance-not-true";
		if(ref[ix] < prev) return "order-decreasing";
		if(ref[ix] != sorted[i]) return "not-ith-nearest";
		seen[ix] = 1; prev = ref[ix];
	}
	return "";
}
// a k-neighbour list (squared distance as text, label) against exhaustive search by definition:
// the i-th distance is the i-th smallest reference distance, and no (distance,label) combination
// is reported more often than data points with that distance and label exist (any valid resolution
// of ties at the k-th distance passes, a point reported twice / a foreign label does not).
static std::string checkNeighbours(std::vector<std::pair<std::string, unsigned> > const& res, std::vector<long long> const& ref){
	std::vector<long long> sorted(ref); std::sort(sorted.begin(), sorted.end());
	std::map<std::pair<std::string, unsigned>, long> avail;
	for(std::size_t i = 0; i != ref.size(); ++i) avail[std::make_pair(std::to_string(ref[i]), g_labels[i])]++;
	for(std::size_t i = 0; i != res.size(); ++i)
		if(i >= sorted.size() || res[i].first != std::to_string(sorted[i])) return "knn-distance";
	for(std::size_t i = 0; i != res.size(); ++i)
		if(--avail[res[i]] < 0) return "knn-label";
	return "";
}

struct KDProbe: public KDTree<RealVector>{
	// protected member read through a pointer-to-member (no downcast)
	static std::size_t cutDim(KDTree<RealVector> const* t){ std::size_t KDTree<RealVector>::* p = &KDProbe::m_cutDim; return t->*p; }
};

// pivot pair of an LC-tree node: m_normal = factor*(x_i - x_j) is re-computed with the expression of
// LCTree::calculateNormal for every ordered pair of the node's points until it matches bit by bit
struct LCProbe: public LCTree<RealVector>{
	static RealVector const& normal(LCTree<RealVector> const* t){ RealVector LCTree<RealVector>::* p = &LCProbe::m_normal; return t->*p; }
};
struct KHCProbe: public KHCTree<View>{
	static std::size_t pos(KHCTree<View> const* t){ KHCTree<View>::const_iterator KHCTree<View>::* p = &KHCProbe::mep_positive; return (t->*p).index(); }
	static std::size_t neg(KHCTree<View> const* t){ KHCTree<View>::const_iterator KHCTree<View>::* p = &KHCProbe::mep_negative; return (t->*p).index(); }
};
static std::pair<std::size_t,std::size_t> pivotOf(Tree const* t){
	std::size_t none = (std::size_t)-1;
	if(g_kind == "khc" || g_kind == "khcp"){
		KHCTree<View> const* k = static_cast<KHCTree<View> const*>(t);
		return std::make_pair(KHCProbe::pos(k), KHCProbe::neg(k));
	}
	if(g_kind == "lc"){
		// (several pairs may give the same normal vector: the one of largest distance is reported - the model then
		// checks that it is a farthest pair of the cell)
		RealVector const& nrm = LCProbe::normal(static_cast<LCTree<RealVector> const*>(t));
		std::pair<std::size_t,std::size_t> best(none, none); double bestD = -1;
		for(std::size_t a = 0; a != t->size(); ++a) for(std::size_t b = 0; b != t->size(); ++b){
			if(a == b) continue;
			RealVector xi = toVec(g_pts[t->index(a)]), xj = toVec(g_pts[t->index(b)]);
			double d2 = distanceSqr(xi, xj);
			double factor = 1.0 / std::sqrt(d2);
			if(!(boost::math::isfinite)(factor)) factor = 1.0;
			RealVector cand = factor * (xi - xj);
			bool same = cand.size() == nrm.size();
			for(std::size_t d = 0; same && d != cand.size(); ++d) same = cand(d) == nrm(d);
			if(same && d2 > bestD){ bestD = d2; best = std::make_pair(t->index(a), t->index(b)); }
		}
		return best;
	}
	return std::make_pair(none, none);
}
// which queue does this tree's IterativeNNQuery keep?  the leaf queue (member m_nextIndex: the position inside
// the front leaf) or the point queue of the K1 repair (no such member)
template<class Q> static auto nextIndexOf(Q& q, int) -> decltype(q.m_nextIndex){ return q.m_nextIndex; }
template<class Q> static std::size_t nextIndexOf(Q& q, long){ return q.neighbors() > 0 ? 1 : 0; }
static std::string canonTree(Tree const* t){
	std::ostringstream os;
	if(t->hasChildren()){
		if(g_kind == "kd") os << "N(" << KDProbe::cutDim(static_cast<KDTree<RealVector> const*>(t)) << "," << vh::exactDouble(t->threshold()) << ")";
		else os << "N";
		os << canonTree(t->left()) << canonTree(t->right());
	}else{
		std::vector<std::size_t> ix;
		for(std::size_t i = 0; i != t->size(); ++i) ix.push_back(t->index(i));
		std::sort(ix.begin(), ix.end());
		os << "L[";
		for(std::size_t i = 0; i != ix.size(); ++i){ if(i) os << ","; os << ix[i]; }
		os << "]";
	}
	return os.str();
}

// trace-tree digest: status of every tree node in preorder (uncreated = N)
static void traceDigest(Query::TraceNode const* tn, std::vector<char>& out){
	static const char names[3] = {'N','P','C'};
	out[g_id[tn->m_tree]] = names[(int)tn->m_status];
	if(tn->mep_left) traceDigest(tn->mep_left, out);
	if(tn->mep_right) traceDigest(tn->mep_right, out);
}
static std::string stateStr(Query& q){
	std::ostringstream os;
	std::vector<char> st(g_pre.size(), 'N');
	traceDigest(q.mp_trace, st);
	os << "r=" << radiusStr(q.m_squaredRadius) << " qs=" << q.queuesize() << " nb=" << q.neighbors()
	   << " ni=" << nextIndexOf(q, 0) << " hd=";
	if(q.mep_head) os << g_id[q.mep_head->m_tree]; else os << "-";
	os << " st=" << std::string(st.begin(), st.end());
	return os.str();
}

int main(int argc, char** argv){
	std::string annotDir = argc > 1 ? argv[1] : "";
	// read everything first: the annotation file is keyed by a hash of stdin
	std::vector<std::string> lines; std::string line;
	std::uint64_t h = 1469598103934665603ULL;
	while(std::getline(std::cin, line)){
		lines.push_back(line);
		for(unsigned char c: line){ h ^= c; h *= 1099511628211ULL; }
		h ^= '\n'; h *= 1099511628211ULL;
	}
	std::ofstream annot;
	std::string annotTmp, annotFinal;
	if(!annotDir.empty()){
		std::ostringstream fn; fn << annotDir << "/" << std::hex << h;
		annotFinal = fn.str() + ".ops"; annotTmp = fn.str() + ".tmp" + std::to_string((long long)getpid());
		annot.open(annotTmp.c_str());
	}
	for(std::string const& ln: lines){
		std::vector<std::string> t = vh::tokens(ln);
		std::ostringstream out, ann;
		ann << ln;
		if(t.empty()){ std::cout << "\n"; if(annot.is_open()) annot << "\n"; continue; }
		std::string const& op = t[0];
		try{
		if(op == "scale" && t.size() == 2){
			int e = std::stoi(t[1]);
			if(e < -40 || e > 40){ out << "bad-op"; }
			else{ g_scale = e; g_tree.reset(); g_view.reset(); g_pts.clear(); g_pre.clear(); g_id.clear(); out << "ok"; }
		}
		else if(op == "batch" && t.size() == 2){
			// batch size of the Data objects created by the following `data` ops (DataView lookups,
			// numberOfBatches() of the exhaustive search)
			g_batchSize = std::stoul(t[1]);
			out << "ok";
		}
		else if(op == "data" && t.size() >= 3){
			g_dim = std::stoul(t[1]); std::size_t n = std::stoul(t[2]);
			if(t.size() != 3 + g_dim*n || n == 0 || g_dim == 0){ out << "bad-op"; }
			else{
				g_tree.reset(); g_view.reset(); g_pre.clear(); g_id.clear();
				g_pts.assign(n, std::vector<long long>(g_dim));
				std::vector<RealVector> vecs;
				for(std::size_t i = 0; i != n; ++i){
					for(std::size_t d = 0; d != g_dim; ++d) g_pts[i][d] = std::stoll(t[3 + i*g_dim + d]);
					vecs.push_back(toVec(g_pts[i]));
				}
				g_labels.assign(n, 0);
				// several batches so that DataView / batch handling is exercised too
				g_data = createDataFromRange(vecs, g_batchSize ? g_batchSize : (n > 5 ? 3 : 256));
				g_view.reset(new View(g_data));
				out << "ok n=" << n << " d=" << g_dim;
			}
		}
		else if(op == "labels" && t.size() == 1 + g_pts.size()){
			for(std::size_t i = 0; i != g_pts.size(); ++i) g_labels[i] = (unsigned)std::stoul(t[1+i]);
			out << "ok";
		}
		else if(op == "build" && t.size() == 4 && g_view){
			g_kind = t[1];
			unsigned maxDepth = (unsigned)std::stoul(t[2]), bucket = (unsigned)std::stoul(t[3]);
			TreeConstruction tc(maxDepth, bucket);
			g_tree.reset(); g_pre.clear(); g_id.clear(); g_leafFirst.clear();
			g_bucket = tc.maxBucketSize();
			g_polyMetric = g_kind == "khcp";
			g_metric = g_polyMetric ? static_cast<AbstractKernelFunction<RealVector> const*>(&g_poly) : &g_kernel;
			if(g_kind == "kd") g_tree.reset(new KDTree<RealVector>(g_data, tc));
			else if(g_kind == "lc") g_tree.reset(new LCTree<RealVector>(g_data, tc));
			else if(g_kind == "khc") g_tree.reset(new KHCTree<View>(*g_view, &g_kernel, tc));
			else if(g_kind == "khcp") g_tree.reset(new KHCTree<View>(*g_view, &g_poly, tc));
			else { out << "bad-op"; }
			if(g_tree){
				preorder(g_tree.get());
				// address rank of every node (the tie-break of the leaf queue)
				std::vector<Tree const*> sorted(g_pre); std::sort(sorted.begin(), sorted.end(), std::less<Tree const*>());
				std::map<Tree const*, std::size_t> rank;
				for(std::size_t i = 0; i != sorted.size(); ++i) rank[sorted[i]] = i;
				ann << " | " << (leafQueue() ? "LQ" : "PQ");
				for(Tree const* nd: g_pre){
					if(nd->hasChildren()){
						if(g_kind == "kd")
							ann << " N " << rank[nd] << " " << KDProbe::cutDim(static_cast<KDTree<RealVector> const*>(nd)) << " " << vh::exactDouble(nd->threshold());
						else{
							std::pair<std::size_t,std::size_t> pv = pivotOf(nd);
							ann << " P " << rank[nd] << " " << pv.first << " " << pv.second << " " << vh::exactDouble(nd->threshold());
						}
					}else{
						ann << " L " << rank[nd] << " " << nd->size();
						for(std::size_t i = 0; i != nd->size(); ++i) ann << " " << nd->index(i);
					}
				}
				// the index list must be a permutation of 0..n-1 and node sizes must add up
				std::vector<std::size_t> all;
				for(std::size_t i = 0; i != g_tree->size(); ++i) all.push_back(g_tree->index(i));
				std::sort(all.begin(), all.end());
				bool perm = all.size() == g_pts.size();
				for(std::size_t i = 0; perm && i != all.size(); ++i) perm = all[i] == i;
				out << "tree " << canonTree(g_tree.get()) << " nodes=" << g_tree->nodes() << " perm=" << (perm ? 1 : 0);
				if(!perm) out << " !oracle index-list-not-a-permutation:" << g_kind;
				g_perm = perm;
				g_leafFirst.assign(g_pts.size(), 0);
				for(Tree const* nd: g_pre) if(nd->isLeaf())
					for(std::size_t i = 0; i != nd->size(); ++i) if(nd->index(i) < g_pts.size()) g_leafFirst[nd->index(i)] = nd->index(0);
				// with bucket size 1 (the documented precondition of IterativeNNQuery) a leaf may only hold copies of ONE point
				if(g_bucket <= 1 && treeHasDistinctLeaf()) out << " !oracle wrong-result:" << g_kind << ":distinct-leaf-at-bucket-1:build";
				if(treeHasEmptyLeaf()) out << " !oracle L1:empty-leaf:" << g_kind << ":build";
				g_t1 = checkSplits();
				if(g_t1 == 2) out << " !oracle T1:threshold-not-separating:" << g_kind << ":build";
				else if(g_t1 == 1) out << " !oracle T1:threshold-not-midpoint:" << g_kind << ":build";
			}
		}
		else if(op == "query" && t.size() == 1 + g_dim && g_tree){
			std::vector<long long> q(g_dim);
			for(std::size_t d = 0; d != g_dim; ++d) q[d] = std::stoll(t[1+d]);
			RealVector qv = toVec(q);
			ann << " |";
			for(Tree const* nd: g_pre)
				ann << " " << vh::exactDouble(nd->squaredDistanceLowerBound(qv)) << " " << (nd->hasChildren() && nd->isLeft(qv) ? 1 : 0);
			std::size_t n = g_pts.size();
			Query query(g_tree.get(), *g_view, qv);
			out << "init " << stateStr(query);
			std::vector<std::pair<std::string, std::size_t> > res;
			for(std::size_t i = 0; i != n; ++i){
				Query::result_type r = query.next();
				std::string D = sqOfReported(r.first);
				out << " ; " << D << " " << r.second << " " << stateStr(query);
				res.push_back(std::make_pair(D, r.second));
			}
			// brute force (independent oracle)
			std::string bad = checkEnumeration(res, refDistances(q, false));
			if(!bad.empty()){
				// KH1: every reported value is the EUCLIDEAN distance of (the first point of the leaf of) the reported point
				bool kh1 = g_perm;
				for(std::size_t i = 0; kh1 && i != res.size(); ++i)
					kh1 = res[i].second < n && res[i].first == std::to_string(euclid2(g_pts[g_leafFirst[res[i].second]], q));
				out << " !oracle " << failKey(bad, k1Possible() && checkEnumeration(res, refDistances(q, true)).empty(), kh1);
			}
		}
		else if(op == "reg" && t.size() >= 3 + g_dim && (t.size() - 3) % g_dim == 0 && g_tree){
			// NearestNeighborModel<RealVector, RealVector> (regression) with both back-ends on a batch of query points.
			// Targets: y_i = (label_i, (7 i + 3) mod 5 - 2)
			std::size_t k = std::stoul(t[1]); int weighted = std::stoi(t[2]);
			std::size_t n = g_pts.size();
			std::size_t m = (t.size() - 3) / g_dim;
			if(k == 0 || k > n){ out << "bad-op"; }
			else{
			std::vector<std::vector<long long> > qs(m, std::vector<long long>(g_dim));
			RealMatrix batch(m, g_dim);
			for(std::size_t p = 0; p != m; ++p){
				for(std::size_t d = 0; d != g_dim; ++d){ qs[p][d] = std::stoll(t[3 + p*g_dim + d]); batch(p,d) = sc(qs[p][d]); }
				ann << " |";
				RealVector qv = toVec(qs[p]);
				for(Tree const* nd: g_pre)
					ann << " " << vh::exactDouble(nd->squaredDistanceLowerBound(qv)) << " " << (nd->hasChildren() && nd->isLeft(qv) ? 1 : 0);
			}
			std::vector<RealVector> ys(n, RealVector(2));
			for(std::size_t i = 0; i != n; ++i){ ys[i](0) = (double)g_labels[i]; ys[i](1) = (double)((long long)((7*i + 3) % 5) - 2); }
			Data<RealVector> lab = createDataFromRange(ys, g_batchSize ? g_batchSize : (n > 5 ? 3 : 256));
			LabeledData<RealVector, RealVector> ds(g_data, lab);
			TreeNearestNeighbors<RealVector, RealVector> tnn(ds, g_tree.get());
			SimpleNearestNeighbors<RealVector, RealVector> snn(ds, g_metric);
			typedef NearestNeighborModel<RealVector, RealVector> M;
			M mt(&tnn, (unsigned)k), ms(&snn, (unsigned)k);
			// (setDistanceWeightType of the regression model cannot be instantiated on a tree with finding REG1,
			// see harness/c17_regprobe.cpp; uniformWeights() is the member it is meant to set)
			mt.uniformWeights() = !weighted;
			ms.uniformWeights() = !weighted;
			RealMatrix ot, os2;
			mt.eval(batch, ot); ms.eval(batch, os2);
			std::vector<std::string> oracle;
			for(std::size_t p = 0; p != m; ++p){
				if(p) out << " / ";
				if(ot.size1() != m || os2.size1() != m || ot.size2() != 2 || os2.size2() != 2){ out << "wrong-size"; oracle.push_back("wrong-result:" + g_kind + ":reg-result-size"); continue; }
				std::vector<long long> refTrue = refDistances(qs[p], false);
				std::vector<std::pair<long long, std::size_t> > bf(n);
				for(std::size_t i = 0; i != n; ++i) bf[i] = std::make_pair(refTrue[i], i);
				std::stable_sort(bf.begin(), bf.end(), [](std::pair<long long,std::size_t> const& a, std::pair<long long,std::size_t> const& b){ return a.first < b.first; });
				// ambiguous: a tie across the k-th boundary (the targets of the tied points differ in general)
				bool ambiguous = k < n && bf[k-1].first == bf[k].first;
				out << "reg tree=" << vh::exactDouble(ot(p,0)) << "," << vh::exactDouble(ot(p,1)) << " simple=";
				bool same = true;
				for(std::size_t c = 0; c != 2; ++c) same = same && std::fabs(ot(p,c) - os2(p,c)) <= 1e-12*(1.0 + std::fabs(ot(p,c)));
				if(ambiguous) out << "*"; else out << (same ? "same" : "DIFF");
				if(!ambiguous){
					// expectation by definition from the brute-force neighbours
					long double e[2] = {0, 0}, wsum = 0;
					for(std::size_t i = 0; i != k; ++i){
						long double w = 1;
						if(weighted){ long double d = std::ldexp(std::sqrt((long double)bf[i].first), g_scale); w = d < 1e-100L ? 1e100L : 1.0L/d; }
						for(std::size_t c = 0; c != 2; ++c) e[c] += w * (long double)ys[bf[i].second](c);
						wsum += w;
					}
					bool okT = true, okS = true;
					for(std::size_t c = 0; c != 2; ++c){
						long double ex = e[c]/wsum;
						okT = okT && std::fabs((double)(ot(p,c) - ex)) <= 1e-9*(1.0 + std::fabs((double)ex));
						okS = okS && std::fabs((double)(os2(p,c) - ex)) <= 1e-9*(1.0 + std::fabs((double)ex));
					}
					if(!okT){
						bool k1 = false;
						if(k1Possible()){
							// explained by the listed defect K1?  the mean over the k nearest w.r.t. the leaf-first distances
							// (undecidable if tied there)
							std::vector<long long> refP = refDistances(qs[p], true);
							std::vector<std::pair<long long, std::size_t> > pf(n);
							for(std::size_t i = 0; i != n; ++i) pf[i] = std::make_pair(refP[i], i);
							std::stable_sort(pf.begin(), pf.end(), [](std::pair<long long,std::size_t> const& a, std::pair<long long,std::size_t> const& b){ return a.first < b.first; });
							if(k < n && pf[k-1].first == pf[k].first) k1 = true;
							else{
								long double e2[2] = {0, 0}, ws2 = 0;
								for(std::size_t i = 0; i != k; ++i){
									long double w = 1;
									if(weighted){ long double d = std::ldexp(std::sqrt((long double)pf[i].first), g_scale); w = d < 1e-100L ? 1e100L : 1.0L/d; }
									for(std::size_t c = 0; c != 2; ++c) e2[c] += w * (long double)ys[pf[i].second](c);
									ws2 += w;
								}
								k1 = true;
								for(std::size_t c = 0; c != 2; ++c) k1 = k1 && std::fabs((double)(ot(p,c) - e2[c]/ws2)) <= 1e-9*(1.0 + std::fabs((double)(e2[c]/ws2)));
							}
						}
						oracle.push_back(failKey("prediction", k1, true));
					}
					if(!okS) oracle.push_back("wrong-result:simple:regression");
				}
			}
			for(std::string const& o: oracle) out << " !oracle " << o;
			}
		}
		else if((op == "knn" || op == "model") && t.size() >= 3 + g_dim && (t.size() - 3) % g_dim == 0 && g_tree){
			// one call of getNeighbors / eval on a BATCH of m >= 1 query points (m = number of coordinate groups);
			// the observations of the patterns are joined by " / "
			std::size_t k = std::stoul(t[1]); int weighted = std::stoi(t[2]);
			std::size_t n = g_pts.size();
			std::size_t m = (t.size() - 3) / g_dim;
			std::vector<std::vector<long long> > qs(m, std::vector<long long>(g_dim));
			RealMatrix batch(m, g_dim);
			for(std::size_t p = 0; p != m; ++p){
				for(std::size_t d = 0; d != g_dim; ++d){ qs[p][d] = std::stoll(t[3 + p*g_dim + d]); batch(p,d) = sc(qs[p][d]); }
				ann << " |";
				RealVector qv = toVec(qs[p]);
				for(Tree const* nd: g_pre)
					ann << " " << vh::exactDouble(nd->squaredDistanceLowerBound(qv)) << " " << (nd->hasChildren() && nd->isLeft(qv) ? 1 : 0);
			}
			Data<unsigned int> lab = createDataFromRange(g_labels, g_batchSize ? g_batchSize : (n > 5 ? 3 : 256));
			LabeledData<RealVector, unsigned int> ds(g_data, lab);
			TreeNearestNeighbors<RealVector, unsigned int> tnn(ds, g_tree.get());
			SimpleNearestNeighbors<RealVector, unsigned int> snn(ds, g_metric);
			typedef AbstractNearestNeighbors<RealVector, unsigned int>::DistancePair DP;
			std::vector<DP> a, b;
			UIntVector ot, os2; RealMatrix st;
			// k > n (outside the property's quantifier, observed all the same): the tree back-end throws
			// "No more neighbors available"; the exhaustive back-end pads with (DBL_MAX, label 0) entries
			bool treeThrows = false;
			if(k > n){
				try{ a = tnn.getNeighbors(batch, k); }catch(std::exception const&){ treeThrows = true; }
				if(op == "knn"){
					b = snn.getNeighbors(batch, k);
					for(std::size_t p = 0; p != m; ++p){
						if(p) out << " / ";
						std::vector<long long> refTrue = refDistances(qs[p], false);
						std::sort(refTrue.begin(), refTrue.end());
						bool ok = b.size() == k*m;
						for(std::size_t i = 0; ok && i != k; ++i){
							DP const& bi = b[i+p*k];
							if(i < n) ok = bi.key == std::ldexp(std::sqrt((double)refTrue[i]), g_scale);
							else ok = bi.key == std::sqrt(std::numeric_limits<double>::max()) && bi.value == 0;
						}
						out << (treeThrows ? "tree-throws" : "tree-returns") << " simple-pads=" << (ok ? (long long)(k - n) : -1LL);
					}
				}else{
					typedef NearestNeighborModel<RealVector, unsigned int> M;
					M ms(&snn, (unsigned)k);
					ms.setDistanceWeightType(weighted ? M::ONE_OVER_DISTANCE : M::UNIFORM);
					ms.eval(batch, os2);
					for(std::size_t p = 0; p != m; ++p){
						if(p) out << " / ";
						out << "class tree=" << (treeThrows ? "throws" : "returns") << " simple=" << os2(p);
					}
				}
				std::cout << out.str() << "\n";
				if(annot.is_open()) annot << ann.str() << "\n";
				continue;
			}
			if(op == "knn"){ a = tnn.getNeighbors(batch, k); b = snn.getNeighbors(batch, k); }
			else{
				typedef NearestNeighborModel<RealVector, unsigned int> M;
				M mt(&tnn, (unsigned)k), ms(&snn, (unsigned)k);
				mt.setDistanceWeightType(weighted ? M::ONE_OVER_DISTANCE : M::UNIFORM);
				ms.setDistanceWeightType(weighted ? M::ONE_OVER_DISTANCE : M::UNIFORM);
				mt.eval(batch, ot); ms.eval(batch, os2);
				mt.decisionFunction().eval(batch, st);
			}
			std::vector<std::string> oracle;
			for(std::size_t p = 0; p != m; ++p){
			std::vector<long long> const& q = qs[p];
			if(p) out << " / ";
			// brute force
			std::vector<long long> refTrue = refDistances(q, false);
			std::vector<std::pair<long long, unsigned> > bf(n);
			for(std::size_t i = 0; i != n; ++i) bf[i] = std::make_pair(refTrue[i], g_labels[i]);
			std::stable_sort(bf.begin(), bf.end(), [](std::pair<long long,unsigned> const& a, std::pair<long long,unsigned> const& b){ return a.first < b.first; });
			if(op == "knn"){
				if(a.size() != k*m || b.size() != k*m){ out << "wrong-size"; oracle.push_back("wrong-result:" + g_kind + ":knn-result-size"); continue; }
				std::vector<std::pair<std::string, unsigned> > tl, sl;
				out << "tree";
				for(std::size_t i = 0; i != k; ++i){
					std::string D = sqOfReported(a[i+p*k].key);
					out << " " << D << ":" << a[i+p*k].value;
					tl.push_back(std::make_pair(D, a[i+p*k].value));
				}
				std::string bad = checkNeighbours(tl, refTrue);
				// exhaustive-search back-end: canonical form = squared distances in order +
				// sorted labels strictly inside the k-th distance.  The property wants the SAME
				// distances from both back-ends; a key that equals the squared distance where the
				// tree back-end reports the distance is finding S1.
				out << " simple";
				std::vector<unsigned> inner;
				std::string bad2;
				for(std::size_t i = 0; i != k; ++i){
					DP const& bi = b[i+p*k];
					double sq = std::ldexp((double)bf[i].first, 2*g_scale), rt = std::ldexp(std::sqrt((double)bf[i].first), g_scale);
					if(bi.key == rt){ out << " " << bf[i].first; if(bf[i].first < bf[k-1].first) inner.push_back(bi.value); }
					else if(bi.key == sq){
						out << " " << bf[i].first;
						if(bf[i].first < bf[k-1].first) inner.push_back(bi.value);
						if(bad2.empty()) bad2 = "S1:simple-backend-reports-squared-distance";
					}
					else{ out << " ?" << vh::exactDouble(bi.key); if(bad2.empty() || bad2[0] == 'S') bad2 = "wrong-result:simple:distance"; }
					sl.push_back(std::make_pair(std::to_string(bf[i].first), bi.value));
				}
				std::sort(inner.begin(), inner.end());
				out << " inner";
				for(unsigned l: inner) out << " " << l;
				if(bad2.empty() && !checkNeighbours(sl, refTrue).empty()) bad2 = "wrong-result:simple:label";
				if(!bad.empty()){
					// KH1: every reported (value, label) is the Euclidean distance (of the leaf's first point) and label of some data point
					bool kh1 = g_perm;
					for(std::size_t i = 0; kh1 && i != tl.size(); ++i){
						bool some = false;
						for(std::size_t j = 0; !some && j != n; ++j)
							some = g_labels[j] == tl[i].second && tl[i].first == std::to_string(euclid2(g_pts[g_leafFirst[j]], q));
						kh1 = some;
					}
					oracle.push_back(failKey(bad, k1Possible() && checkNeighbours(tl, refDistances(q, true)).empty(), kh1));
				}
				if(!bad2.empty()) oracle.push_back(bad2);
			}else{
				// expected decision by definition, from brute-force neighbours w.r.t. the reference distances
				// pw = 1: weights 1/d (specification), pw = 2: weights 1/d^2 (what S1 produced)
				std::size_t nc = st.size2();
				auto isAmbiguous = [&](std::vector<std::pair<long long, unsigned> > const& nb){
					// no tie with different labels across the k-th boundary?
					if(k < n && nb[k-1].first == nb[k].first)
						for(std::size_t i = 0; i != n; ++i)
							if(nb[i].first == nb[k-1].first && nb[i].second != nb[k-1].second) return true;
					return false;
				};
				auto expect = [&](std::vector<std::pair<long long, unsigned> > const& nb, int pw){
					std::vector<double> v(nc, 0.0); double wsum = 0;
					for(std::size_t i = 0; i != k; ++i){
						double w = 1.0;
						if(weighted){ double d = pw == 1 ? std::ldexp(std::sqrt((double)nb[i].first), g_scale) : std::ldexp((double)nb[i].first, 2*g_scale); w = d < 1e-100 ? 1e100 : 1.0/d; }
						if(nb[i].second < nc) v[nb[i].second] += w;
						wsum += w;
					}
					std::size_t best = 0;
					for(std::size_t c = 0; c != nc; ++c){ v[c] /= wsum; if(v[c] > v[best]) best = c; }
					return (unsigned)best;
				};
				if(ot.size() != m || os2.size() != m || st.size1() != m){ out << "wrong-size"; oracle.push_back("wrong-result:" + g_kind + ":model-result-size"); continue; }
				bool ambiguous = isAmbiguous(bf);
				unsigned e1 = expect(bf, 1), e2 = expect(bf, 2);
				out << "class tree=" << ot(p) << " simple=";
				if(ambiguous) out << "*"; else out << os2(p);
				if(!weighted){
					out << " votes";
					for(std::size_t c = 0; c != nc; ++c) out << " " << vh::intval(std::floor(st(p,c)*k + 0.5));
				}
				if(!ambiguous){
					if(ot(p) != e1){
						// explained by the listed defect K1?  the decision from the pseudo distances (undecidable if tied there)
						bool k1 = false;
						if(k1Possible()){
							std::vector<long long> refP = refDistances(q, true);
							std::vector<std::pair<long long, unsigned> > pf(n);
							for(std::size_t i = 0; i != n; ++i) pf[i] = std::make_pair(refP[i], g_labels[i]);
							std::stable_sort(pf.begin(), pf.end(), [](std::pair<long long,unsigned> const& a, std::pair<long long,unsigned> const& b){ return a.first < b.first; });
							k1 = isAmbiguous(pf) || ot(p) == expect(pf, 1);
						}
						oracle.push_back(failKey("prediction", k1, true));
					}
					if(os2(p) != e1){
						if(weighted && os2(p) == e2) oracle.push_back("S1:weighted-prediction-differs-between-backends");
						else oracle.push_back("wrong-result:simple:prediction");
					}
				}
			}
			}
			for(std::string const& o: oracle) out << " !oracle " << o;
		}
		else out << "bad-op";
		}catch(std::exception const& e){ out.str(""); out << "exception " << e.what(); }
		std::cout << out.str() << "\n";
		if(annot.is_open()) annot << ann.str() << "\n";
	}
	std::cout.flush();
	if(annot.is_open()){ annot.close(); std::rename(annotTmp.c_str(), annotFinal.c_str()); }
	return 0;
}
