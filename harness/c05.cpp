// K-C05: correspondence harness for Shark's kernel functions and Gram assembly.
// Reads ops (one per line) from stdin, prints one observation line per op in the
// format of lean/Driver/C05.lean.  argv[1] = dense | sparse (RealVector or
// CompressedRealVector inputs).  Values are printed exactly as m:e (= m*2^e).
//
// Besides the trace, every op is checked by an independent property oracle on the
// real code (no Lean model involved): symmetry, block == matrix of single
// evaluations, Gram == single evaluations (+ regulariser), normalised diagonal,
// smallest eigenvalue, feature distance.  A failure appends " !oracle <tag>".
#include <shark/Models/Kernels/LinearKernel.h>
#include <shark/Models/Kernels/PolynomialKernel.h>
#include <shark/Models/Kernels/MonomialKernel.h>
#include <shark/Models/Kernels/GaussianRbfKernel.h>
#include <shark/Models/Kernels/ArdKernel.h>
#include <shark/Models/Kernels/NormalizedKernel.h>
#include <shark/Models/Kernels/ScaledKernel.h>
#include <shark/Models/Kernels/WeightedSumKernel.h>
#include <shark/Models/Kernels/ProductKernel.h>
#include <shark/Models/Kernels/SubrangeKernel.h>
#include <shark/Models/Kernels/DiscreteKernel.h>
#include <shark/Models/Kernels/KernelHelpers.h>
#include <shark/Models/Kernels/ModelKernel.h>
#include <shark/Models/Kernels/PointSetKernel.h>
#include <shark/Models/Kernels/KernelExpansion.h>
#include <shark/Models/Kernels/EvalSkipMissingFeatures.h>
#include <shark/Models/LinearModel.h>
#include <shark/Models/NeuronLayers.h>
#include <shark/Models/ConcatenatedModel.h>
#include <omp.h>
#include <shark/Algorithms/Trainers/NormalizeKernelUnitVariance.h>
#include <shark/Data/Dataset.h>
#include <boost/shared_ptr.hpp>
#include <cstring>
#include "common.hpp"

using namespace shark;

static std::string val(double x){
	std::string s = vh::exactDouble(x);
	for(char& c: s) if(c == ' ') c = ':';
	return s;
}
static bool parseVal(std::string const& t, double& out){
	try{
		std::size_t p = t.find(':');
		if(p == std::string::npos){ out = (double)std::stoll(t); return true; }
		long long m = std::stoll(t.substr(0,p)); int e = std::stoi(t.substr(p+1));
		out = std::ldexp((double)m, e); return true;
	}catch(...){ return false; }
}
static bool parseNat(std::string const& t, std::size_t& out){
	if(t.empty()) return false;
	for(char c: t) if(c < '0' || c > '9') return false;
	out = std::stoull(t); return true;
}
// distance in units in the last place (doubles of equal sign), huge if not comparable
static double ulps(double a, double b){
	if(a == b) return 0;
	if(std::isnan(a) || std::isnan(b) || std::isinf(a) || std::isinf(b)) return 1e300;
	std::int64_t ia, ib; std::memcpy(&ia,&a,8); std::memcpy(&ib,&b,8);
	if((ia < 0) != (ib < 0)) return std::fabs(a-b) < 1e-300 ? 1 : 1e300;
	return std::fabs((double)(ia - ib));
}

template<class I>
struct WSumDirect: public WeightedSumKernel<I>{
	WSumDirect(std::vector<AbstractKernelFunction<I>*> const& b): WeightedSumKernel<I>(b){}
	void setDirect(std::vector<double> const& w, double sum){
		for(std::size_t i = 0; i != w.size(); ++i) this->m_base[i].weight = w[i];
		this->m_weightsum = sum;
	}
};

template<class I> struct MakePoint;
template<> struct MakePoint<RealVector>{
	static RealVector make(std::vector<double> const& v){
		RealVector x(v.size()); for(std::size_t i = 0; i != v.size(); ++i) x(i) = v[i]; return x;
	}
};
template<> struct MakePoint<CompressedRealVector>{
	// NB: remora::compressed_vector has an implicit copy constructor that copies the raw
	// storage pointers of the source (VectorStorage::m_storage), so a copied non-empty
	// sparse vector dangles once the source dies (ASan: heap-use-after-free).  The harness
	// therefore never copies a filled sparse vector: it is assigned through the
	// expression-assignment path into an element that already lives in `pts`.
	static CompressedRealVector make(std::vector<double> const& v){ return CompressedRealVector(v.size()); }
};
template<class I> static void fillPoint(I& x, std::vector<double> const& v){ x = MakePoint<I>::make(v); }
template<> void fillPoint<CompressedRealVector>(CompressedRealVector& x, std::vector<double> const& v){
	x.resize(v.size()); x.clear();
	for(std::size_t i = 0; i != v.size(); ++i) if(v[i] != 0) x.set_element(x.end(), i, v[i]);
}

// ARDKernelUnconstrained<CompressedRealVector> cannot be instantiated (its
// weightedInputDerivative does not compile for sparse batches), although the header
// declares the typedef CompressedARDKernel: sparse runs answer "unsupported".
template<class I> struct MakeArd{
	static AbstractKernelFunction<I>* make(RealVector const& g){
		ARDKernelUnconstrained<I>* k = new ARDKernelUnconstrained<I>((unsigned)g.size());
		k->setGammaVector(g);
		return k;
	}
};
template<> struct MakeArd<CompressedRealVector>{
	static AbstractKernelFunction<CompressedRealVector>* make(RealVector const&){ return 0; }
};

// detail::SubrangeKernelWrapper<CompressedRealVector> does not compile either
// (no subrange/columns for sparse proxies): sparse runs answer "bad-op".
template<class I> struct MakeSub{
	static AbstractKernelFunction<I>* make(AbstractKernelFunction<I>* base, std::size_t a, std::size_t b){
		return new detail::SubrangeKernelWrapper<I>(base, a, b);
	}
};
template<> struct MakeSub<CompressedRealVector>{
	static AbstractKernelFunction<CompressedRealVector>* make(AbstractKernelFunction<CompressedRealVector>*, std::size_t, std::size_t){ return 0; }
};

// NormalizedKernel<CompressedRealVector> (typedef CompressedNormalizedKernel) does not
// compile (weightedInputDerivative binds a temporary sparse batch to a non-const reference).
template<class I> struct MakeNorm{
	static AbstractKernelFunction<I>* make(AbstractKernelFunction<I>* base){ return new NormalizedKernel<I>(base); }
};
template<> struct MakeNorm<CompressedRealVector>{
	static AbstractKernelFunction<CompressedRealVector>* make(AbstractKernelFunction<CompressedRealVector>*){ return 0; }
};

// ModelKernel over a LinearModel (x -> A x + b) and the real SubrangeKernel class: dense inputs only
template<class I> struct MakeModel{
	static AbstractKernelFunction<I>* make(RealMatrix const&, RealVector const&, AbstractKernelFunction<I>*, std::vector<boost::shared_ptr<void> >&){ return 0; }
};
template<> struct MakeModel<RealVector>{
	static AbstractKernelFunction<RealVector>* make(RealMatrix const& A, RealVector const& b, AbstractKernelFunction<RealVector>* base,
			std::vector<boost::shared_ptr<void> >& keepAlive){
		boost::shared_ptr<LinearModel<RealVector> > m(new LinearModel<RealVector>(A, b));
		keepAlive.push_back(m);
		return new ModelKernel<RealVector>(base, m.get());
	}
};
template<class I> struct MakeSubk{
	static AbstractKernelFunction<I>* make(std::vector<AbstractKernelFunction<I>*> const&, std::vector<std::pair<std::size_t,std::size_t> > const&, RealVector const&){ return 0; }
};
template<> struct MakeSubk<RealVector>{
	static AbstractKernelFunction<RealVector>* make(std::vector<AbstractKernelFunction<RealVector>*> const& ks,
			std::vector<std::pair<std::size_t,std::size_t> > const& ranges, RealVector const& ps){
		SubrangeKernel<RealVector>* k = new SubrangeKernel<RealVector>(ks, ranges);
		k->setParameterVector(ps);
		return k;
	}
};

// kernel-expression parser (same grammar as Driver/C05.lean)
template<class I>
struct Builder{
	typedef AbstractKernelFunction<I> K;
	std::vector<boost::shared_ptr<K> > pool;
	std::vector<boost::shared_ptr<void> > keepAlive;   // models wrapped by ModelKernel
	bool hasNorm;       // contains a NormalizedKernel: rounding differs between the evaluation paths
	bool inexact;       // contains exp/sqrt: values are not exact
	std::string paramOracle;   // parameter bookkeeping of composed kernels (ProductKernel::m_numberOfParameters)
	std::vector<ScaledKernel<I>*> scaled;   // the ScaledKernel objects in pre-order (op setfactor)
	std::vector<WeightedSumKernel<I>*> wsums; // the WeightedSumKernel / SubrangeKernel objects, inner ones first (op adaptall)
	K* keepW(K* k){ if(WeightedSumKernel<I>* w = dynamic_cast<WeightedSumKernel<I>*>(k)) wsums.push_back(w); return keep(k); }
	Builder(): hasNorm(false), inexact(false){}
	K* keep(K* k){ pool.push_back(boost::shared_ptr<K>(k)); return k; }
	K* parse(std::vector<std::string> const& t, std::size_t& p){
		if(p >= t.size()) return 0;
		std::string op = t[p++];
		std::size_t n, a, b; double v;
		if(op == "lin") return keep(new LinearKernel<I>());
		if(op == "poly"){
			if(p + 2 > t.size() || !parseNat(t[p], n) || !parseVal(t[p+1], v)) return 0;
			p += 2; return keep(new PolynomialKernel<I>((unsigned)n, v, false, false));
		}
		// unconstrained parameter encodings (parameter = log of the value); same kernel values
		if(op == "polyu"){
			if(p + 2 > t.size() || !parseNat(t[p], n) || !parseVal(t[p+1], v)) return 0;
			p += 2; return keep(new PolynomialKernel<I>((unsigned)n, v, false, true));
		}
		if(op == "gaussu"){
			if(p + 1 > t.size() || !parseVal(t[p], v)) return 0;
			p += 1; inexact = true; return keep(new GaussianRbfKernel<I>(v, true));
		}
		if(op == "mono"){
			if(p + 1 > t.size() || !parseNat(t[p], n)) return 0;
			p += 1; return keep(new MonomialKernel<I>((unsigned)n));
		}
		if(op == "gauss"){
			if(p + 1 > t.size() || !parseVal(t[p], v)) return 0;
			p += 1; inexact = true; return keep(new GaussianRbfKernel<I>(v));
		}
		if(op == "ard"){
			if(p + 1 > t.size() || !parseNat(t[p], n)) return 0;
			p += 1; if(p + n > t.size()) return 0;
			RealVector g(n);
			for(std::size_t i = 0; i != n; ++i){ if(!parseVal(t[p+i], v)) return 0; g(i) = v; }
			p += n; inexact = true;
			K* k = MakeArd<I>::make(g);
			return k ? keep(k) : 0;
		}
		if(op == "norm"){
			K* base = parse(t, p); if(!base) return 0;
			hasNorm = true; inexact = true;
			K* k = MakeNorm<I>::make(base);
			return k ? keep(k) : 0;
		}
		if(op == "scaled"){
			if(p + 1 > t.size() || !parseVal(t[p], v)) return 0;
			p += 1;
			std::size_t slot = scaled.size(); scaled.push_back(0);      // pre-order position
			K* base = parse(t, p); if(!base) return 0;
			// factor 1 is the constructor default (`ScaledKernel<> k(&base)`): use that constructor call
			ScaledKernel<I>* sk = (v == 1.0) ? new ScaledKernel<I>(base) : new ScaledKernel<I>(base, v);
			scaled[slot] = sk;
			return keep(sk);
		}
		if(op == "wsum"){
			double sum;
			if(p + 2 > t.size() || !parseNat(t[p], n) || !parseVal(t[p+1], sum)) return 0;
			p += 2;
			std::vector<double> w(n); std::vector<K*> ks(n);
			for(std::size_t i = 0; i != n; ++i){
				if(p >= t.size() || !parseVal(t[p], w[i])) return 0;
				++p; ks[i] = parse(t, p); if(!ks[i]) return 0;
			}
			WSumDirect<I>* k = new WSumDirect<I>(ks);
			k->setDirect(w, sum);
			return keepW(k);
		}
		if(op == "wsump"){
			if(p + 1 > t.size() || !parseNat(t[p], n) || n == 0) return 0;
			p += 1;
			RealVector ps(n-1);
			for(std::size_t i = 0; i + 1 < n; ++i){ if(p >= t.size() || !parseVal(t[p], v)) return 0; ps(i) = v; ++p; }
			std::vector<K*> ks(n);
			for(std::size_t i = 0; i != n; ++i){ ks[i] = parse(t, p); if(!ks[i]) return 0; }
			WeightedSumKernel<I>* k = new WeightedSumKernel<I>(ks);
			k->setParameterVector(ps);
			inexact = true;
			return keepW(k);
		}
		if(op == "prod"){
			if(p + 1 > t.size() || !parseNat(t[p], n)) return 0;
			p += 1;
			std::vector<K*> ks(n);
			for(std::size_t i = 0; i != n; ++i){ ks[i] = parse(t, p); if(!ks[i]) return 0; }
			K* pk = keep(new ProductKernel<I>(ks));
			// oracle: the parameter count of a product is the sum of its factors' counts
			std::size_t expected = 0;
			for(std::size_t i = 0; i != n; ++i) expected += ks[i]->numberOfParameters();
			if(pk->numberOfParameters() != expected){
				std::ostringstream os; os << " !oracle product-parameter-count numberOfParameters=" << pk->numberOfParameters() << " expected=" << expected;
				paramOracle = os.str();
			}
			return pk;
		}
		if(op == "model"){
			std::size_t r, c;
			if(p + 2 > t.size() || !parseNat(t[p], r) || !parseNat(t[p+1], c)) return 0;
			p += 2; if(p + r*c + r > t.size()) return 0;
			RealMatrix A(r,c); RealVector bb(r);
			for(std::size_t i = 0; i != r*c; ++i){ if(!parseVal(t[p+i], v)) return 0; A(i/c, i%c) = v; }
			p += r*c;
			for(std::size_t i = 0; i != r; ++i){ if(!parseVal(t[p+i], v)) return 0; bb(i) = v; }
			p += r;
			K* base = parse(t, p); if(!base) return 0;
			K* k = MakeModel<I>::make(A, bb, base, keepAlive);
			return k ? keep(k) : 0;
		}
		if(op == "subk"){
			if(p + 1 > t.size() || !parseNat(t[p], n) || n == 0) return 0;
			p += 1;
			RealVector ps(n-1);
			for(std::size_t i = 0; i + 1 < n; ++i){ if(p >= t.size() || !parseVal(t[p], v)) return 0; ps(i) = v; ++p; }
			std::vector<K*> ks(n); std::vector<std::pair<std::size_t,std::size_t> > ranges(n);
			for(std::size_t i = 0; i != n; ++i){
				if(p + 2 > t.size() || !parseNat(t[p], a) || !parseNat(t[p+1], b)) return 0;
				p += 2; ranges[i] = std::make_pair(a, b);
				ks[i] = parse(t, p); if(!ks[i]) return 0;
			}
			inexact = true;
			K* k = MakeSubk<I>::make(ks, ranges, ps);
			return k ? keepW(k) : 0;
		}
		if(op == "sub"){
			if(p + 2 > t.size() || !parseNat(t[p], a) || !parseNat(t[p+1], b)) return 0;
			p += 2; K* base = parse(t, p); if(!base) return 0;
			K* k = MakeSub<I>::make(base, a, b);
			return k ? keep(k) : 0;
		}
		return 0;
	}
};

static std::string showMat(RealMatrix const& M){
	std::ostringstream os;
	for(std::size_t i = 0; i != M.size1(); ++i){
		if(i) os << ";";
		for(std::size_t j = 0; j != M.size2(); ++j){ if(j) os << ","; os << val(M(i,j)); }
	}
	return os.str();
}


// weightedInputDerivative needs a dense batch type; for sparse inputs the op is not offered
template<class I> struct InputDeriv{
	static bool supported(){ return false; }
	template<class K, class B> static RealMatrix run(K const&, B const&, B const&, RealMatrix const&, State const&){ return RealMatrix(); }
	template<class P> static void perturb(P&, std::size_t, double){}
	template<class K, class B> static std::string stale(K const&, B const&, B const&, RealMatrix const&, State const&, RealMatrix const&){ return ""; }
};
template<> struct InputDeriv<RealVector>{
	static bool supported(){ return true; }
	template<class K, class B> static RealMatrix run(K const& k, B const& b1, B const& b2, RealMatrix const& C, State const& st){
		RealMatrix g; k.weightedInputDerivative(b1, b2, C, st, g); return g;
	}
	static void perturb(RealVector& x, std::size_t t, double h){ x(t) += h; }
	template<class K, class B> static std::string stale(K const& k, B const& b1, B const& b2, RealMatrix const& C, State const& st, RealMatrix const& fresh){
		RealMatrix g(fresh.size1(), fresh.size2(), 3.25);
		k.weightedInputDerivative(b1, b2, C, st, g);
		if(g.size1() != fresh.size1() || g.size2() != fresh.size2()) return " !oracle stale-output-input shape";
		for(std::size_t i = 0; i != g.size1(); ++i) for(std::size_t j = 0; j != g.size2(); ++j)
			if(!(g(i,j) == fresh(i,j) || (std::isnan(g(i,j)) && std::isnan(fresh(i,j))))){
				std::ostringstream os; os << " !oracle stale-output-input (" << i << "," << j << ") fresh=" << fresh(i,j) << " reused=" << g(i,j); return os.str();
			}
		return "";
	}
};

// one session = current kernel + current points of input type I
template<class I>
struct Session{
	typedef AbstractKernelFunction<I> K;
	K* k; std::vector<I> pts; double tolUlp; bool inexact;
	Session(): k(0), tolUlp(0), inexact(false){}

	typename Batch<I>::type batch(std::size_t a, std::size_t b) const{
		return createBatch<I>(pts.begin() + a, pts.begin() + b);
	}
	Data<I> dataset(std::size_t from, std::vector<std::size_t> const& sizes) const{
		Data<I> d;
		std::size_t pos = from;
		for(std::size_t s: sizes){ d.push_back(batch(pos, pos + s)); pos += s; }
		return d;
	}
	// bitwise equality for kernels without NormalizedKernel; with it, the evaluation paths round
	// differently (two divisions vs. one division by a product) and sums may cancel: allow 4 ulp or
	// 1e-13 relative to the largest magnitude in the compared matrix.
	bool close(double a, double b, double scale = 0) const{
		if(ulps(a,b) <= tolUlp) return true;
		if(tolUlp == 0) return false;
		if(std::isnan(a) && std::isnan(b)) return true;
		double m = std::max(std::max(std::fabs(a), std::fabs(b)), std::max(scale, 1.0));
		return std::fabs(a-b) <= 1e-13*m;
	}
	static double maxAbs(RealMatrix const& M){
		double m = 0;
		for(std::size_t i = 0; i != M.size1(); ++i) for(std::size_t j = 0; j != M.size2(); ++j)
			if(std::isfinite(M(i,j))) m = std::max(m, std::fabs(M(i,j)));
		return m;
	}

	std::string single(std::size_t i, std::size_t j) const{
		double v = k->eval(pts[i], pts[j]);
		std::string out = val(v);
		double w = k->eval(pts[j], pts[i]);
		if(!close(v, w)) out += " !oracle asymmetric-single " + val(w);
		if(k->isNormalized() && i == j && !(ulps(v, 1.0) <= 4)) out += " !oracle normalized-diag";
		return out;
	}
	std::string blockOracle(RealMatrix const& M, std::size_t a, std::size_t c, const char* tag) const{
		for(std::size_t i = 0; i != M.size1(); ++i) for(std::size_t j = 0; j != M.size2(); ++j){
			double s = k->eval(pts[a+i], pts[c+j]);
			if(!close(M(i,j), s, maxAbs(M))){
				std::ostringstream os; os << " !oracle " << tag << "-vs-single (" << i << "," << j << ") block=" << val(M(i,j)) << " single=" << val(s);
				return os.str();
			}
		}
		return "";
	}
	std::string block(std::size_t a, std::size_t b, std::size_t c, std::size_t d, bool stateful) const{
		if(!(a < b && b <= pts.size() && c < d && d <= pts.size())) return "bad-op";
		typename Batch<I>::type b1 = batch(a,b), b2 = batch(c,d);
		RealMatrix M;
		if(stateful){ boost::shared_ptr<State> st = k->createState(); k->eval(b1, b2, M, *st); }
		else M = (*k)(b1, b2);
		std::string out = showMat(M);
		if(M.size1() != b-a || M.size2() != d-c) return out + " !oracle block-shape";
		out += blockOracle(M, a, c, stateful ? "sblock" : "block");
		// transposed block must be the transpose
		RealMatrix T = (*k)(b2, b1);
		for(std::size_t i = 0; i != M.size1(); ++i) for(std::size_t j = 0; j != M.size2(); ++j)
			if(!close(M(i,j), T(j,i), maxAbs(M))){ out += " !oracle asymmetric-block"; return out; }
		return out;
	}
	std::string fdist(std::size_t i, std::size_t j) const{
		double v = k->featureDistanceSqr(pts[i], pts[j]);
		double k11 = k->eval(pts[i],pts[i]), k12 = k->eval(pts[i],pts[j]), k22 = k->eval(pts[j],pts[j]);
		double ref = k11 - 2*k12 + k22;
		std::string out = val(v);
		if(!(std::fabs(v - ref) <= 1e-12*(std::fabs(k11) + 2*std::fabs(k12) + std::fabs(k22)))) out += " !oracle feature-distance " + val(ref);
		// batch version of featureDistanceSqr
		typename Batch<I>::type bi = batch(i,i+1), bj = batch(j,j+1);
		RealMatrix D = k->featureDistanceSqr(bi, bj);
		if(!(std::fabs(D(0,0) - ref) <= 1e-12*(std::fabs(k11) + 2*std::fabs(k12) + std::fabs(k22)))) out += " !oracle feature-distance-batch " + val(D(0,0));
		return out;
	}
	// batch version of featureDistanceSqr on a whole block, against the definition built from single evaluations
	std::string fdistBlock(std::size_t a, std::size_t b, std::size_t c, std::size_t d) const{
		if(!(a < b && b <= pts.size() && c < d && d <= pts.size())) return "bad-op";
		typename Batch<I>::type b1 = batch(a,b), b2 = batch(c,d);
		RealMatrix D = k->featureDistanceSqr(b1, b2);
		std::string out = showMat(D);
		if(D.size1() != b-a || D.size2() != d-c) return out + " !oracle feature-distance-shape";
		for(std::size_t i = 0; i != D.size1(); ++i) for(std::size_t j = 0; j != D.size2(); ++j){
			double k11 = k->eval(pts[a+i],pts[a+i]), k12 = k->eval(pts[a+i],pts[c+j]), k22 = k->eval(pts[c+j],pts[c+j]);
			double ref = k11 - 2*k12 + k22;
			if(!(std::fabs(D(i,j) - ref) <= 1e-12*(std::fabs(k11) + 2*std::fabs(k12) + std::fabs(k22)))){
				std::ostringstream os; os << " !oracle feature-distance-batch (" << i << "," << j << ") got=" << val(D(i,j)) << " definition=" << val(ref);
				return out + os.str();
			}
		}
		return out;
	}
	// what a kernel object CLAIMS must hold on all current points: IS_NORMALIZED => unit diagonal, and
	// featureDistanceSqr (single + batch, both trust the flag) == k(x,x) - 2k(x,z) + k(z,z)
	std::string claimOracle(K const& kk) const{
		std::size_t n = pts.size();
		if(n == 0) return "";
		std::ostringstream os;
		if(kk.isNormalized())
			for(std::size_t i = 0; i != n; ++i){
				double v = kk.eval(pts[i], pts[i]);
				if(!(ulps(v, 1.0) <= 4)){ os << " !oracle normalized-diag (" << i << ") k(x,x)=" << val(v); return os.str(); }
			}
		typename Batch<I>::type all = batch(0, n);
		RealMatrix D = kk.featureDistanceSqr(all, all);
		for(std::size_t i = 0; i != n; ++i) for(std::size_t j = 0; j != n; ++j){
			double k11 = kk.eval(pts[i],pts[i]), k12 = kk.eval(pts[i],pts[j]), k22 = kk.eval(pts[j],pts[j]);
			double ref = k11 - 2*k12 + k22, tol = 1e-12*(std::fabs(k11) + 2*std::fabs(k12) + std::fabs(k22));
			double v = kk.featureDistanceSqr(pts[i], pts[j]);
			if(!(std::fabs(v - ref) <= tol)){ os << " !oracle feature-distance (" << i << "," << j << ") got=" << val(v) << " definition=" << val(ref); return os.str(); }
			if(!(std::fabs(D(i,j) - ref) <= tol)){ os << " !oracle feature-distance-batch (" << i << "," << j << ") got=" << val(D(i,j)) << " definition=" << val(ref); return os.str(); }
		}
		return os.str();
	}
	std::string flags() const{
		std::ostringstream os; os << "norm=" << (k->isNormalized() ? 1 : 0) << " np=" << k->numberOfParameters();
		if(k->parameterVector().size() != k->numberOfParameters()) os << " !oracle parameter-vector-size";
		return os.str() + claimOracle(*k);
	}
	// setParameterVector on the live object; the vector must read back (log/exp encodings: 1e-12 relative)
	std::string setParams(std::vector<std::string> const& t){
		if(t.size() - 1 != k->numberOfParameters()) return "bad-op";
		RealVector p(t.size() - 1);
		for(std::size_t i = 1; i != t.size(); ++i){ double v; if(!parseVal(t[i], v)) return "bad-op"; p(i-1) = v; }
		k->setParameterVector(p);
		std::string out = "ok";
		RealVector q = k->parameterVector();
		if(q.size() != p.size()) out += " !oracle parameter-vector-size";
		else for(std::size_t i = 0; i != p.size(); ++i)
			if(!(std::fabs(q(i) - p(i)) <= 1e-12*(1 + std::fabs(p(i))))){
				std::ostringstream os; os << " !oracle parameter-roundtrip p=" << i << " set=" << p(i) << " got=" << q(i); out += os.str(); break;
			}
		return out + claimOracle(*k);
	}
	std::string gramOracle(RealMatrix const& M, std::size_t n1, std::size_t off2, std::size_t n2, double reg, bool square) const{
		std::ostringstream os;
		if(M.size1() != n1 || M.size2() != n2){ os << " !oracle gram-shape"; return os.str(); }
		for(std::size_t i = 0; i != n1; ++i) for(std::size_t j = 0; j != n2; ++j){
			double s = k->eval(pts[i], pts[off2+j]);
			if(square && i == j) s += reg;
			if(!close(M(i,j), s, maxAbs(M))){ os << " !oracle gram-vs-single (" << i << "," << j << ") gram=" << val(M(i,j)) << " single=" << val(s); return os.str(); }
		}
		if(square){
			for(std::size_t i = 0; i != n1; ++i) for(std::size_t j = 0; j != i; ++j)
				if(!close(M(i,j), M(j,i), maxAbs(M))){ os << " !oracle asymmetric-gram (" << i << "," << j << ")"; return os.str(); }
			if(k->isNormalized() && reg == 0)
				for(std::size_t i = 0; i != n1; ++i) if(!(ulps(M(i,i), 1.0) <= 4)){ os << " !oracle normalized-diag (" << i << ") " << val(M(i,i)); return os.str(); }
			// smallest eigenvalue (search aid): symmetrised copy, LAPACK syev through remora
			RealMatrix A = 0.5*(M + trans(M)); RealMatrix V(n1,n1); RealVector ev(n1);
			double scale = 1; for(std::size_t i = 0; i != n1; ++i) scale += std::fabs(A(i,i));
			bool finite = true;
			for(std::size_t i = 0; i != n1; ++i) for(std::size_t j = 0; j != n1; ++j) if(!std::isfinite(A(i,j))) finite = false;
			if(finite && n1 > 0){
				blas::symm_eigenvalue_decomposition<RealMatrix> dec(A);
				ev = dec.D();
				double mn = ev(0); for(std::size_t i = 0; i != n1; ++i) mn = std::min(mn, ev(i));
				if(mn < -1e-9*scale) os << " !oracle negative-eigenvalue " << mn;
			}
		}
		return os.str();
	}
	std::string gram(double reg, std::vector<std::size_t> const& sizes) const{
		std::size_t n = 0; for(std::size_t s: sizes){ if(s == 0) return "bad-op"; n += s; }
		if(n > pts.size() || sizes.empty()) return "bad-op";
		Data<I> d = dataset(0, sizes);
		RealMatrix M = calculateRegularizedKernelMatrix(*k, d, reg);
		return showMat(M) + gramOracle(M, n, 0, n, reg, true);
	}
	std::string mixed(std::size_t nb1, std::vector<std::size_t> const& sizes) const{
		if(nb1 == 0 || nb1 >= sizes.size()) return "bad-op";
		std::vector<std::size_t> s1(sizes.begin(), sizes.begin()+nb1), s2(sizes.begin()+nb1, sizes.end());
		std::size_t n1 = 0, n2 = 0;
		for(std::size_t s: s1){ if(s == 0) return "bad-op"; n1 += s; }
		for(std::size_t s: s2){ if(s == 0) return "bad-op"; n2 += s; }
		if(n1 + n2 > pts.size()) return "bad-op";
		Data<I> d1 = dataset(0, s1), d2 = dataset(n1, s2);
		RealMatrix M = calculateMixedKernelMatrix(*k, d1, d2);
		return showMat(M) + gramOracle(M, n1, n1, n2, 0, false);
	}

	// ---- derivatives ----
	bool coeffs(std::vector<std::string> const& t, std::size_t from, std::size_t r, std::size_t c, RealMatrix& C) const{
		if(t.size() != from + r*c) return false;
		C.resize(r,c);
		for(std::size_t i = 0; i != r*c; ++i){ double v; if(!parseVal(t[from+i], v)) return false; C(i/c, i%c) = v; }
		return true;
	}
	double weightedSum(RealMatrix const& C, std::size_t a, std::size_t c, std::vector<I> const& p1) const{
		double s = 0;
		for(std::size_t i = 0; i != C.size1(); ++i) for(std::size_t j = 0; j != C.size2(); ++j)
			s += C(i,j) * k->eval(p1[i], pts[c+j]);
		return s;
	}
	// the result objects of the derivative calls are re-used by callers (calculateKernelMatrixParameterDerivative keeps ONE
	// blockGradient for all blocks): a call into an output object that already holds values of the right size must
	// return what a call into a fresh object returns
	template<class B>
	std::string staleParam(B const& b1, B const& b2, RealMatrix const& C, State const& st, RealVector const& fresh) const{
		RealVector g(fresh.size(), 3.25);
		k->weightedParameterDerivative(b1, b2, C, st, g);
		if(g.size() != fresh.size()) return " !oracle stale-output-param size";
		for(std::size_t i = 0; i != g.size(); ++i)
			if(!(g(i) == fresh(i) || (std::isnan(g(i)) && std::isnan(fresh(i))))){
				std::ostringstream os; os << " !oracle stale-output-param p=" << i << " fresh=" << fresh(i) << " reused=" << g(i); return os.str();
			}
		return "";
	}
	std::string deriv(std::vector<std::string> const& t) const{
		std::vector<std::size_t> a;
		std::vector<std::string> head(t.begin(), t.begin() + std::min<std::size_t>(t.size(), 5));
		if(t.size() < 5 || !vh::allNat(head, 1, a) || a.size() != 4) return "bad-op";
		if(!(a[0] < a[1] && a[1] <= pts.size() && a[2] < a[3] && a[3] <= pts.size())) return "bad-op";
		RealMatrix C;
		if(!coeffs(t, 5, a[1]-a[0], a[3]-a[2], C)) return "bad-op";
		typename Batch<I>::type b1 = batch(a[0],a[1]), b2 = batch(a[2],a[3]);
		boost::shared_ptr<State> st = k->createState();
		RealMatrix M; k->eval(b1, b2, M, *st);
		std::string const& op = t[0];
		if(op == "pderiv"){
			if(!k->hasFirstParameterDerivative()) return "unsupported";
			RealVector g; k->weightedParameterDerivative(b1, b2, C, *st, g);
			std::string out = "g=";
			for(std::size_t i = 0; i != g.size(); ++i){ if(i) out += ","; out += val(g(i)); }
			return out + staleParam(b1, b2, C, *st, g);
		}
		if(op == "ideriv"){
			if(!k->hasFirstInputDerivative() || !InputDeriv<I>::supported()) return "unsupported";
			RealMatrix G = InputDeriv<I>::run(*k, b1, b2, C, *st);
			return showMat(G) + InputDeriv<I>::stale(*k, b1, b2, C, *st, G);
		}
		if(op == "stale"){
			// both derivative calls into output objects that already hold values (see staleParam)
			std::string out = "ok";
			if(k->hasFirstParameterDerivative()){ RealVector g; k->weightedParameterDerivative(b1, b2, C, *st, g); out += staleParam(b1, b2, C, *st, g); }
			if(out == "ok" && k->hasFirstInputDerivative() && InputDeriv<I>::supported()){
				RealMatrix G = InputDeriv<I>::run(*k, b1, b2, C, *st); out += InputDeriv<I>::stale(*k, b1, b2, C, *st, G);
			}
			return out;
		}
		// dcheck: both derivative calls against central finite differences of the weighted sum of
		// single evaluations (numerical oracle on the real code; tolerance 2e-5 relative)
		std::string out = "ok";
		std::vector<I> p1(pts.begin()+a[0], pts.begin()+a[1]);
		double h = 1e-5, scale = 1;
		for(std::size_t i = 0; i != C.size1(); ++i) for(std::size_t j = 0; j != C.size2(); ++j)
			scale += std::fabs(C(i,j) * k->eval(p1[i], pts[a[2]+j]));
		if(k->hasFirstParameterDerivative()){
			RealVector g; k->weightedParameterDerivative(b1, b2, C, *st, g);
			RealVector th = k->parameterVector();
			if(g.size() != th.size()) out += " !oracle param-gradient-size";
			else for(std::size_t p = 0; p != th.size(); ++p){
				RealVector tp = th, tm = th; tp(p) += h; tm(p) -= h;
				k->setParameterVector(tp); double sp = weightedSum(C, a[0], a[2], p1);
				k->setParameterVector(tm); double sm = weightedSum(C, a[0], a[2], p1);
				k->setParameterVector(th);
				double fd = (sp - sm) / (2*h);
				if(!(std::fabs(fd - g(p)) <= 2e-5*(scale + std::fabs(g(p))))){
					std::ostringstream os; os << " !oracle param-derivative p=" << p << " analytic=" << g(p) << " finite-diff=" << fd; out += os.str(); break;
				}
			}
		}
		if(k->hasFirstInputDerivative() && InputDeriv<I>::supported()){
			RealMatrix G = InputDeriv<I>::run(*k, b1, b2, C, *st);
			if(G.size1() != p1.size()) out += " !oracle input-gradient-shape";
			else for(std::size_t i = 0; i != G.size1() && out == "ok"; ++i) for(std::size_t tt = 0; tt != G.size2(); ++tt){
				std::vector<I> pp = p1, pm = p1;
				InputDeriv<I>::perturb(pp[i], tt, h); InputDeriv<I>::perturb(pm[i], tt, -h);
				RealMatrix Ci(1, C.size2()); for(std::size_t j = 0; j != C.size2(); ++j) Ci(0,j) = C(i,j);
				std::vector<I> qp(1, pp[i]), qm(1, pm[i]);
				double fd = (weightedSum(Ci, 0, a[2], qp) - weightedSum(Ci, 0, a[2], qm)) / (2*h);
				if(!(std::fabs(fd - G(i,tt)) <= 2e-5*(scale + std::fabs(G(i,tt))))){
					std::ostringstream os; os << " !oracle input-derivative (" << i << "," << tt << ") analytic=" << G(i,tt) << " finite-diff=" << fd; out += os.str(); break;
				}
			}
		}
		return out;
	}
	// op `gderiv s1 s2 ..`: calculateKernelMatrixParameterDerivative over the dataset batched as given, with a fixed
	// symmetric weight matrix, against ONE weightedParameterDerivative call on the unbatched data (which dcheck ties
	// to finite differences): the Gram-level derivative must not depend on the batching.  Oracle only (1e-9 relative).
	std::string gramDeriv(std::vector<std::size_t> const& sizes, bool print = false) const{
		std::size_t n = 0; for(std::size_t q: sizes){ if(q == 0) return "bad-op"; n += q; }
		if(n > pts.size() || n == 0) return "bad-op";
		if(!k->hasFirstParameterDerivative()) return print ? "unsupported" : "ok";
		RealMatrix W(n,n);
		for(std::size_t i = 0; i != n; ++i) for(std::size_t j = 0; j != n; ++j) W(i,j) = (double)(((i+1)*(j+1)*7 + (i+j)*3 + 1) % 5) - 2;   // symmetric, no zero row
		Data<I> d = dataset(0, sizes);
		RealVector g = calculateKernelMatrixParameterDerivative(*k, d, W);
		typename Batch<I>::type all = batch(0, n);
		boost::shared_ptr<State> st = k->createState();
		RealMatrix M; k->eval(all, all, M, *st);
		RealVector ref; k->weightedParameterDerivative(all, all, W, *st, ref);
		std::string out = "ok";
		if(print){ out = "g="; for(std::size_t p = 0; p != g.size(); ++p){ if(p) out += ","; out += val(g(p)); } }
		if(g.size() != k->numberOfParameters() || ref.size() != g.size()) return out + " !oracle gram-gradient-size";
		double scale = 1; for(std::size_t p = 0; p != g.size(); ++p) if(std::isfinite(ref(p))) scale = std::max(scale, std::fabs(ref(p)));
		for(std::size_t p = 0; p != g.size(); ++p)
			if(!(std::fabs(g(p) - ref(p)) <= 1e-9*scale)){
				std::ostringstream os; os << " !oracle gram-param-derivative p=" << p << " batched=" << g(p) << " unbatched=" << ref(p); return out + os.str();
			}
		return out;
	}

	// op `gramt N bs`: THREAD-COUNT SWEEP of the blockwise Gram assembly.  calculateRegularizedKernelMatrix /
	// calculateMixedKernelMatrix evaluate the blocks of a block row inside SHARK_PARALLEL_FOR on ONE shared kernel
	// object; the dataset is N points (the current points, cyclically, as contiguous segments of alternating sizes
	// bs / bs-1, so that consecutive blocks have different shapes), assembled with 2, 3, 4 and 1 OpenMP threads and
	// compared entry by entry with single evaluations (oracle only; bitwise for kernels without NormalizedKernel).
	std::string gramThreads(std::size_t N, std::size_t bs) const{
		std::size_t n = pts.size();
		if(n == 0 || bs == 0 || N == 0 || N > 4096) return "bad-op";
		RealMatrix R(n,n);
		for(std::size_t i = 0; i != n; ++i) for(std::size_t j = 0; j != n; ++j) R(i,j) = k->eval(pts[i], pts[j]);
		double scale = maxAbs(R);
		Data<I> d; std::vector<std::size_t> idx; std::size_t a = 0; bool alt = false;
		std::vector<std::pair<std::size_t,std::size_t> > segs;
		while(idx.size() < N){
			std::size_t want = (alt && bs > 1) ? bs - 1 : bs;
			std::size_t sz = std::min(std::min(want, n - a), N - idx.size());
			d.push_back(batch(a, a + sz)); segs.push_back(std::make_pair(a, sz));
			for(std::size_t q = 0; q != sz; ++q) idx.push_back(a + q);
			a = (a + sz) % n; alt = !alt;
		}
		std::size_t nb1 = segs.size() / 2, n1 = 0;
		Data<I> d1, d2;
		for(std::size_t b = 0; b != segs.size(); ++b){
			if(b < nb1){ d1.push_back(batch(segs[b].first, segs[b].first + segs[b].second)); n1 += segs[b].second; }
			else d2.push_back(batch(segs[b].first, segs[b].first + segs[b].second));
		}
		int before = omp_get_max_threads();
		std::string out = "ok";
		static const int sweep[4] = {2, 3, 4, 1};
		for(int T: sweep){
			omp_set_num_threads(T);
			RealMatrix M = calculateRegularizedKernelMatrix(*k, d, 0.0);
			if(M.size1() != N || M.size2() != N){ out += " !oracle gram-threads-shape"; break; }
			bool bad = false;
			for(std::size_t i = 0; i != N && !bad; ++i) for(std::size_t j = 0; j != N; ++j)
				if(!close(M(i,j), R(idx[i],idx[j]), scale)){
					std::ostringstream os; os << " !oracle gram-threads T=" << T << " batches=" << d.numberOfBatches() << " (" << i << "," << j << ") gram=" << val(M(i,j)) << " single=" << val(R(idx[i],idx[j]));
					out += os.str(); bad = true; break;
				}
			if(bad) break;
			if(nb1 > 0 && T != 1){
				RealMatrix X = calculateMixedKernelMatrix(*k, d1, d2);
				if(X.size1() != n1 || X.size2() != N - n1){ out += " !oracle gram-threads-shape"; break; }
				for(std::size_t i = 0; i != n1 && !bad; ++i) for(std::size_t j = 0; j != N - n1; ++j)
					if(!close(X(i,j), R(idx[i],idx[n1+j]), scale)){
						std::ostringstream os; os << " !oracle gram-threads-mixed T=" << T << " (" << i << "," << j << ") gram=" << val(X(i,j)) << " single=" << val(R(idx[i],idx[n1+j]));
						out += os.str(); bad = true; break;
					}
				if(bad) break;
			}
		}
		omp_set_num_threads(before);
		return out;
	}
	// op `reuse a b c d  a2 b2 c2 d2  coeffs((b2-a2)*(d2-c2))`: ONE State object is used for two consecutive stateful
	// evaluations on different pairs of batches (different shapes), with derivative calls after each; what the second
	// round returns must be what a fresh State returns (kernel value block, parameter and input derivative, bitwise)
	std::string reuseState(std::vector<std::string> const& t) const{
		std::vector<std::size_t> a;
		std::vector<std::string> head(t.begin(), t.begin() + std::min<std::size_t>(t.size(), 9));
		if(t.size() < 9 || !vh::allNat(head, 1, a) || a.size() != 8) return "bad-op";
		for(int q = 0; q != 8; q += 2) if(!(a[q] < a[q+1] && a[q+1] <= pts.size())) return "bad-op";
		RealMatrix C;
		if(!coeffs(t, 9, a[5]-a[4], a[7]-a[6], C)) return "bad-op";
		typename Batch<I>::type p1 = batch(a[0],a[1]), p2 = batch(a[2],a[3]), b1 = batch(a[4],a[5]), b2 = batch(a[6],a[7]);
		boost::shared_ptr<State> st = k->createState(), fresh = k->createState();
		RealMatrix M0, M, Mf;
		k->eval(p1, p2, M0, *st);
		RealMatrix C0(a[1]-a[0], a[3]-a[2], 1.0);
		if(k->hasFirstParameterDerivative()){ RealVector g0; k->weightedParameterDerivative(p1, p2, C0, *st, g0); }
		if(k->hasFirstInputDerivative() && InputDeriv<I>::supported()) InputDeriv<I>::run(*k, p1, p2, C0, *st);
		k->eval(b1, b2, M, *st);
		k->eval(b1, b2, Mf, *fresh);
		std::string out = "ok";
		if(M.size1() != Mf.size1() || M.size2() != Mf.size2()) return out + " !oracle state-reuse-eval shape";
		for(std::size_t i = 0; i != M.size1(); ++i) for(std::size_t j = 0; j != M.size2(); ++j)
			if(!(M(i,j) == Mf(i,j) || (std::isnan(M(i,j)) && std::isnan(Mf(i,j))))) return out + " !oracle state-reuse-eval";
		if(k->hasFirstParameterDerivative()){
			RealVector g, gf; k->weightedParameterDerivative(b1, b2, C, *st, g); k->weightedParameterDerivative(b1, b2, C, *fresh, gf);
			if(g.size() != gf.size()) return out + " !oracle state-reuse-param size";
			for(std::size_t i = 0; i != g.size(); ++i)
				if(!(g(i) == gf(i) || (std::isnan(g(i)) && std::isnan(gf(i))))){
					std::ostringstream os; os << " !oracle state-reuse-param p=" << i << " fresh=" << gf(i) << " reused=" << g(i); return out + os.str();
				}
		}
		if(k->hasFirstInputDerivative() && InputDeriv<I>::supported()){
			RealMatrix G = InputDeriv<I>::run(*k, b1, b2, C, *st), Gf = InputDeriv<I>::run(*k, b1, b2, C, *fresh);
			if(G.size1() != Gf.size1() || G.size2() != Gf.size2()) return out + " !oracle state-reuse-input shape";
			for(std::size_t i = 0; i != G.size1(); ++i) for(std::size_t j = 0; j != G.size2(); ++j)
				if(!(G(i,j) == Gf(i,j) || (std::isnan(G(i,j)) && std::isnan(Gf(i,j))))) return out + " !oracle state-reuse-input";
		}
		return out;
	}
	// generic op dispatch; returns false if the op is not a session op
	bool dispatch(std::vector<std::string> const& t, std::string& out) const{
		std::string const& op = t[0];
		std::vector<std::size_t> a;
		if(op == "single" || op == "fdist"){
			if(!vh::allNat(t, 1, a) || a.size() != 2 || a[0] >= pts.size() || a[1] >= pts.size()){ out = "bad-op"; return true; }
			out = op == "single" ? single(a[0], a[1]) : fdist(a[0], a[1]); return true;
		}
		if(op == "block" || op == "sblock" || op == "fdistb"){
			if(!vh::allNat(t, 1, a) || a.size() != 4){ out = "bad-op"; return true; }
			out = op == "fdistb" ? fdistBlock(a[0], a[1], a[2], a[3]) : block(a[0], a[1], a[2], a[3], op == "sblock"); return true;
		}
		if(op == "flags"){ out = t.size() == 1 ? flags() : "bad-op"; return true; }
		if(op == "gramt"){
			if(!vh::allNat(t, 1, a) || a.size() != 2){ out = "bad-op"; return true; }
			out = gramThreads(a[0], a[1]); return true;
		}
		if(op == "reuse"){ out = reuseState(t); return true; }
		if(op == "gderiv" || op == "gderivx"){
			if(!vh::allNat(t, 1, a) || a.empty()){ out = "bad-op"; return true; }
			out = gramDeriv(a, op == "gderivx"); return true;
		}
		if(op == "gram"){
			double reg;
			if(t.size() < 3 || !parseVal(t[1], reg) || !vh::allNat(t, 2, a)){ out = "bad-op"; return true; }
			out = gram(reg, a); return true;
		}
		if(op == "pderiv" || op == "ideriv" || op == "dcheck" || op == "stale"){ out = deriv(t); return true; }
		if(op == "mixed"){
			if(!vh::allNat(t, 1, a) || a.size() < 3){ out = "bad-op"; return true; }
			std::size_t nb1 = a[0]; a.erase(a.begin());
			out = mixed(nb1, a); return true;
		}
		return false;
	}
};


// PointSetKernel<RealVector>: inputs are point sets (RealMatrix); dense only
template<class I> struct PointSets{
	static bool supported(){ return false; }
	static bool make(AbstractKernelFunction<I>*, std::vector<I> const&, std::vector<std::size_t> const&, Session<RealMatrix>&,
			boost::shared_ptr<AbstractKernelFunction<RealMatrix> >&){ return false; }
};
template<> struct PointSets<RealVector>{
	static bool supported(){ return true; }
	static bool make(AbstractKernelFunction<RealVector>* base, std::vector<RealVector> const& pts, std::vector<std::size_t> const& sizes,
			Session<RealMatrix>& ps, boost::shared_ptr<AbstractKernelFunction<RealMatrix> >& holder){
		std::size_t total = 0; for(std::size_t s: sizes){ if(s == 0) return false; total += s; }
		if(total > pts.size() || !base) return false;
		holder.reset(new PointSetKernel<RealVector>(base));
		ps.k = holder.get(); ps.pts.clear();
		std::size_t pos = 0;
		for(std::size_t s: sizes){
			RealMatrix X(s, pts[pos].size());
			for(std::size_t i = 0; i != s; ++i) noalias(row(X,i)) = pts[pos+i];
			ps.pts.push_back(X); pos += s;
		}
		return true;
	}
};


// ModelKernel over a ConcatenatedModel chain (models WITH a batch-dependent State: the chain stores the hidden
// responses of every layer): op `mnet L spec_1 .. spec_L  params..` wraps the current vector kernel; layer specs as in
// harness/c04.cpp: d:<act>:<hasB>:<nOut>:<opt> (LinearModel<RealVector,Act>), n:<act>:<opt> (NeuronLayer), r:<softmax|
// normalizer>:<opt>; params = the parameters of ALL dense layers in layer order.  Dense inputs only.
typedef AbstractModel<RealVector,RealVector,RealVector> AnyModel;
static AnyModel* makeDenseLayer(std::string const& act, std::size_t nIn, std::size_t nOut, bool hb){
	if(act == "linear") return new LinearModel<RealVector, LinearNeuron>(nIn, nOut, hb);
	if(act == "rectifier") return new LinearModel<RealVector, RectifierNeuron>(nIn, nOut, hb);
	if(act == "tanh") return new LinearModel<RealVector, TanhNeuron>(nIn, nOut, hb);
	if(act == "logistic") return new LinearModel<RealVector, LogisticNeuron>(nIn, nOut, hb);
	if(act == "fastsigmoid") return new LinearModel<RealVector, FastSigmoidNeuron>(nIn, nOut, hb);
	return 0;
}
static AnyModel* makeNeuronLayer(std::string const& act, std::size_t n){
	if(act == "linear") return new NeuronLayer<LinearNeuron>(n);
	if(act == "rectifier") return new NeuronLayer<RectifierNeuron>(n);
	if(act == "tanh") return new NeuronLayer<TanhNeuron>(n);
	if(act == "logistic") return new NeuronLayer<LogisticNeuron>(n);
	if(act == "fastsigmoid") return new NeuronLayer<FastSigmoidNeuron>(n);
	if(act == "softmax") return new NeuronLayer<SoftmaxNeuron<> >(n);
	if(act == "normalizer") return new NeuronLayer<NormalizerNeuron<> >(n);
	return 0;
}
struct NetHolder{
	std::vector<boost::shared_ptr<AnyModel> > owned;
	ConcatenatedModel<RealVector> net;
	boost::shared_ptr<AbstractKernelFunction<RealVector> > kernel;
	bool exactActs;
	NetHolder(): exactActs(true){}
};
template<class I> struct ModelNets{
	static bool supported(){ return false; }
	static std::string make(AbstractKernelFunction<I>*, std::vector<I> const&, std::vector<std::string> const&, boost::shared_ptr<NetHolder>&, Session<RealVector>&, double){ return "unsupported"; }
};
template<> struct ModelNets<RealVector>{
	static bool supported(){ return true; }
	static std::string make(AbstractKernelFunction<RealVector>* base, std::vector<RealVector> const& pts, std::vector<std::string> const& t,
			boost::shared_ptr<NetHolder>& holder, Session<RealVector>& ms, double baseTol){
		std::size_t L;
		if(!base || pts.empty() || t.size() < 2 || !parseNat(t[1], L) || L == 0 || t.size() < 2 + L) return "bad-op";
		boost::shared_ptr<NetHolder> h(new NetHolder());
		std::size_t nIn = pts[0].size(), pos = 2 + L;
		for(std::size_t l = 0; l != L; ++l){
			std::vector<std::string> f; { std::string cur; for(char ch: t[2+l]){ if(ch == ':'){ f.push_back(cur); cur.clear(); } else cur += ch; } f.push_back(cur); }
			if(f[0] == "d" && f.size() == 5){
				bool hb = f[2] == "1"; std::size_t nOut; if(!parseNat(f[3], nOut) || nOut == 0) return "bad-op";
				AnyModel* m = makeDenseLayer(f[1], nIn, nOut, hb); if(!m) return "bad-op";
				h->owned.push_back(boost::shared_ptr<AnyModel>(m));
				std::size_t np = nOut*nIn + (hb ? nOut : 0);
				if(pos + np > t.size()) return "bad-op";
				RealVector lp(np); for(std::size_t q = 0; q != np; ++q){ double v; if(!parseVal(t[pos+q], v)) return "bad-op"; lp(q) = v; }
				pos += np; m->setParameterVector(lp);
				h->net.add(m, f[4] == "1"); nIn = nOut;
				if(f[1] != "linear" && f[1] != "rectifier") h->exactActs = false;
			}else if((f[0] == "n" || f[0] == "r") && f.size() == 3){
				AnyModel* m = makeNeuronLayer(f[1], nIn); if(!m) return "bad-op";
				h->owned.push_back(boost::shared_ptr<AnyModel>(m));
				h->net.add(m, f[2] == "1");
				if(f[1] != "linear" && f[1] != "rectifier") h->exactActs = false;
			}else return "bad-op";
		}
		if(pos != t.size()) return "bad-op";
		h->kernel.reset(new ModelKernel<RealVector>(base, &h->net));
		holder = h;
		ms.k = h->kernel.get(); ms.pts = pts;
		// hidden responses behind tanh / exp are inexact: the model's matrix products may round differently for
		// different batch shapes (single evaluation = 1-row batch), so the value oracles allow 4 ulp / 1e-13 relative there
		ms.tolUlp = h->exactActs ? baseTol : 4; ms.inexact = true;
		std::ostringstream os; os << "ok np=" << ms.k->numberOfParameters() << " pd=" << (ms.k->hasFirstParameterDerivative() ? 1 : 0);
		if(ms.k->parameterVector().size() != ms.k->numberOfParameters()) os << " !oracle parameter-vector-size";
		if(ms.k->numberOfParameters() != base->numberOfParameters() + h->net.numberOfParameters()) os << " !oracle model-kernel-parameter-count";
		return os.str();
	}
};

// evalSkipMissingFeatures needs element access on the input type: dense only
template<class I> struct SkipMissing{
	static std::string run(Session<I> const&, std::size_t, std::size_t, std::size_t, std::size_t, std::size_t){ return "unsupported"; }
};
template<> struct SkipMissing<RealVector>{
	static RealVector filtered(RealVector const& a, std::vector<bool> const& keep){
		std::size_t n = 0; for(bool b: keep) n += b;
		RealVector r(n); std::size_t p = 0;
		for(std::size_t t = 0; t != a.size(); ++t) if(keep[t]) r(p++) = a(t);
		return r;
	}
	// op `skip i j ma mb mm`: bit t of ma / mb / mm set = feature t of x_i / x_j / the missingness vector is NaN
	static std::string run(Session<RealVector> const& s, std::size_t i, std::size_t j, std::size_t ma, std::size_t mb, std::size_t mm){
		if(i >= s.pts.size() || j >= s.pts.size()) return "bad-op";
		RealVector a = s.pts[i], b = s.pts[j], m(a.size(), 0.0);
		double nan = std::numeric_limits<double>::quiet_NaN();
		std::vector<bool> keep3(a.size()), keep4(a.size());
		for(std::size_t t = 0; t != a.size(); ++t){
			if(ma >> t & 1) a(t) = nan;
			if(mb >> t & 1) b(t) = nan;
			if(mm >> t & 1) m(t) = nan;
			keep3[t] = !(ma >> t & 1) && !(mb >> t & 1); keep4[t] = keep3[t] && !(mm >> t & 1);
		}
		if(!s.k->supportsVariableInputSize()){
			// the function must refuse kernels whose parameters are tied to the input dimension
			try{ evalSkipMissingFeatures(*s.k, a, b); }catch(std::exception const&){ return "unsupported"; }
			return "unsupported !oracle skip-accepts-fixed-size-kernel";
		}
		double v3 = evalSkipMissingFeatures(*s.k, a, b), v4 = evalSkipMissingFeatures(*s.k, a, b, m);
		std::string out = val(v3) + " " + val(v4);
		// independent oracle: the kernel on the vectors of the features present in both inputs
		RealVector fa3 = filtered(a, keep3), fb3 = filtered(b, keep3), fa4 = filtered(a, keep4), fb4 = filtered(b, keep4);
		double r3 = s.k->eval(fa3, fb3), r4 = s.k->eval(fa4, fb4);
		if(!s.close(v3, r3)) out += " !oracle skip-missing-3 expected " + val(r3);
		if(!s.close(v4, r4)) out += " !oracle skip-missing-4 expected " + val(r4);
		double w3 = evalSkipMissingFeatures(*s.k, b, a), w4 = evalSkipMissingFeatures(*s.k, b, a, m);
		if(!s.close(v3, w3) || !s.close(v4, w4)) out += " !oracle skip-missing-asymmetric";
		return out;
	}
};

// op `kexp nout off nb s1..snb alpha(n*nout) [b(nout)]`: a KernelExpansion over the first n points (basis batched as
// given), then `kx a b` evaluates it on the batch [a,b).  Oracle: f(x)_o = b_o + sum_n alpha(n,o) k(x_n, x) from single
// evaluations (bitwise for exact kernels, 1e-12 relative otherwise: the sum is a BLAS product).
template<class I>
std::string kexpSetup(Session<I> const& s, std::vector<std::string> const& t, boost::shared_ptr<KernelExpansion<I> >& ke){
	std::size_t nout, off, nb;
	if(t.size() < 4 || !parseNat(t[1], nout) || !parseNat(t[2], off) || !parseNat(t[3], nb) || nout == 0 || off > 1 || nb == 0 || t.size() < 4 + nb) return "bad-op";
	std::vector<std::size_t> sizes(nb); std::size_t n = 0;
	for(std::size_t i = 0; i != nb; ++i){ if(!parseNat(t[4+i], sizes[i]) || sizes[i] == 0) return "bad-op"; n += sizes[i]; }
	if(n > s.pts.size() || t.size() != 4 + nb + n*nout + off*nout) return "bad-op";
	ke.reset(new KernelExpansion<I>(s.k, s.dataset(0, sizes), off == 1, nout));
	std::size_t p = 4 + nb;
	for(std::size_t i = 0; i != n; ++i) for(std::size_t o = 0; o != nout; ++o){ double v; if(!parseVal(t[p++], v)) return "bad-op"; ke->alpha(i, o) = v; }
	for(std::size_t o = 0; o != off*nout; ++o){ double v; if(!parseVal(t[p++], v)) return "bad-op"; ke->offset(o) = v; }
	std::ostringstream os; os << "ok " << n << " " << nout;
	if(ke->numberOfParameters() != n*nout + off*nout || ke->parameterVector().size() != ke->numberOfParameters()) os << " !oracle kexp-parameter-count";
	return os.str();
}
template<class I>
std::string kexpEvalOp(Session<I> const& s, KernelExpansion<I> const& ke, std::size_t a, std::size_t b){
	if(!(a < b && b <= s.pts.size())) return "bad-op";
	RealMatrix out = ke(s.batch(a, b));
	std::string res = showMat(out);
	std::size_t n = ke.alpha().size1(), nout = ke.alpha().size2();
	if(out.size1() != b - a || out.size2() != nout) return res + " !oracle kexp-shape";
	for(std::size_t p = 0; p != b - a; ++p) for(std::size_t o = 0; o != nout; ++o){
		double ref = ke.hasOffset() ? ke.offset(o) : 0.0, scale = std::fabs(ref);
		for(std::size_t i = 0; i != n; ++i){ double v = ke.alpha(i, o) * s.k->eval(s.pts[i], s.pts[a+p]); ref += v; scale += std::fabs(v); }
		bool ok = out(p,o) == ref || std::fabs(out(p,o) - ref) <= 1e-12*(scale + 1);   // the sum is a BLAS product: order-dependent rounding
		if(!ok){ std::ostringstream os; os << " !oracle kexp-vs-definition (" << p << "," << o << ") got=" << val(out(p,o)) << " definition=" << val(ref); return res + os.str(); }
	}
	return res;
}

// op `unitvar s1 s2 ..`: the library's own user of ScaledKernel::setFactor.  A ScaledKernel is constructed
// with the default factor over the current kernel, NormalizeKernelUnitVariance::train rescales it on the
// current points (batched as given); afterwards everything the rescaled object claims must hold
// (oracle only, the factor itself is behind BLAS sums: unit variance is checked to 1e-9).
template<class I>
std::string unitVar(Session<I> const& s, std::vector<std::size_t> const& sizes){
	std::size_t n = 0; for(std::size_t q: sizes){ if(q == 0) return "bad-op"; n += q; }
	if(n != s.pts.size() || n < 2) return "bad-op";
	ScaledKernel<I> sk(s.k);
	std::string out = "ok";
	if(sk.isNormalized() != s.k->isNormalized() && sk.isNormalized()) out += s.claimOracle(sk);
	UnlabeledData<I> data(s.dataset(0, sizes));
	NormalizeKernelUnitVariance<I> trainer;
	// degenerate data (zero variance in feature space) is the trainer's precondition: since /repo 7cd73391 the
	// library rejects it with its exception type (before: factor 1/0 = inf); both are "nothing to check" here
	try{ trainer.train(sk, data); }
	catch(shark::Exception const&){ return out; }
	double f = sk.factor();
	if(!(f > 0) || !std::isfinite(f)) return out;      // degenerate data (zero variance in feature space): precondition of the trainer
	out += s.claimOracle(sk);
	double tr = 0, mean = 0;
	for(std::size_t i = 0; i != n; ++i){ tr += sk.eval(s.pts[i], s.pts[i]); for(std::size_t j = 0; j != n; ++j) mean += sk.eval(s.pts[i], s.pts[j]); }
	double var = tr/n - mean/n/n;
	if(f < 1e12 && !(std::fabs(var - 1) <= 1e-9)){ std::ostringstream os; os << " !oracle unit-variance " << var; out += os.str(); }
	return out;
}

template<class I>
int run(){
	Builder<I>* builder = new Builder<I>();
	Session<I> vs;                      // vector-input kernels
	Session<std::size_t> ds;            // DiscreteKernel
	Session<RealMatrix> ps;             // PointSetKernel over the current vector kernel
	Session<RealVector> ms;             // ModelKernel over a ConcatenatedModel chain over the current vector kernel
	boost::shared_ptr<NetHolder> net;
	boost::shared_ptr<AbstractKernelFunction<RealMatrix> > psHolder;
	boost::shared_ptr<DiscreteKernel> disc;
	boost::shared_ptr<KernelExpansion<I> > kexp;
	bool discrete = false;
	std::string line;
	while(std::getline(std::cin, line)){
		std::vector<std::string> t = vh::tokens(line);
		std::string out;
		try{
			if(t.empty()) out = "";
			else if(t[0] == "kern" && t.size() >= 3 && t[1] == "disc"){
				std::size_t n;
				if(!parseNat(t[2], n) || t.size() != 3 + n*n) out = "bad-op";
				else{
					RealMatrix T(n,n); bool ok = true;
					for(std::size_t i = 0; i != n*n; ++i){ double v; ok = ok && parseVal(t[3+i], v); T(i/n, i%n) = v; }
					if(!ok) out = "bad-op";
					else{
						disc.reset(new DiscreteKernel(T)); ds.k = disc.get(); ds.tolUlp = 0; discrete = true; vs.k = 0;
						std::ostringstream os; os << "ok disc " << n; out = os.str();
					}
				}
			}
			else if(t[0] == "kern"){
				ps.k = 0; psHolder.reset(); kexp.reset(); ms.k = 0; net.reset();
				delete builder; builder = new Builder<I>();
				std::size_t p = 1;
				vs.k = builder->parse(t, p);
				if(!vs.k || p != t.size()){ vs.k = 0; out = "bad-op"; }
				else{
					vs.tolUlp = builder->hasNorm ? 4 : 0; vs.inexact = builder->inexact; discrete = false; out = "ok";
					out += builder->paramOracle;
					// parameterVector() must have numberOfParameters() entries (only asked when the counts are sane)
					if(builder->paramOracle.empty() && vs.k->parameterVector().size() != vs.k->numberOfParameters())
						out += " !oracle parameter-vector-size";
				}
			}
			else if(t[0] == "pts"){
				std::size_t n, d;
				if(t.size() < 3 || !parseNat(t[1], n) || !parseNat(t[2], d) || t.size() != 3 + n*d) out = "bad-op";
				else{
					vs.pts.clear(); bool ok = true; kexp.reset();
					vs.pts.resize(n);
					for(std::size_t i = 0; i != n; ++i){
						std::vector<double> v(d);
						for(std::size_t c = 0; c != d; ++c) ok = ok && parseVal(t[3 + i*d + c], v[c]);
						fillPoint<I>(vs.pts[i], v);
					}
					std::ostringstream os; os << "ok " << n << " " << d; out = ok ? os.str() : "bad-op";
				}
			}
			else if(t[0] == "psets"){
				std::vector<std::size_t> a;
				if(!PointSets<I>::supported()) out = "unsupported";
				else if(!vh::allNat(t, 1, a) || discrete || !PointSets<I>::make(vs.k, vs.pts, a, ps, psHolder)) out = "bad-op";
				else{ ps.tolUlp = vs.inexact ? 4 : 0; ps.inexact = vs.inexact; /* sums of inexact values: order-dependent rounding */ std::ostringstream os; os << "ok " << a.size(); out = os.str(); }
			}
			else if(t[0] == "ps"){
				std::vector<std::string> rest(t.begin()+1, t.end());
				if(!PointSets<I>::supported()) out = "unsupported";
				else if(rest.empty() || !ps.k || !ps.dispatch(rest, out)) out = "bad-op";
			}
			else if(t[0] == "mnet"){
				ms.k = 0; net.reset();
				if(!ModelNets<I>::supported()) out = "unsupported";
				else if(discrete) out = "bad-op";
				else out = ModelNets<I>::make(vs.k, vs.pts, t, net, ms, vs.tolUlp);
			}
			else if(t[0] == "mn"){
				std::vector<std::string> rest(t.begin()+1, t.end());
				if(!ModelNets<I>::supported()) out = "unsupported";
				else if(rest.empty() || !ms.k) out = "bad-op";
				else if(rest[0] == "setparams") out = ms.setParams(rest);
				else if(!ms.dispatch(rest, out)) out = "bad-op";
			}
			else if(t[0] == "ipts"){
				std::vector<std::size_t> a;
				if(!vh::allNat(t, 1, a)) out = "bad-op";
				else{ ds.pts = a; std::ostringstream os; os << "ok " << a.size(); out = os.str(); }
			}
			else if(discrete){
				bool inRange = true;
				for(std::size_t i: ds.pts) if(i >= disc->size()) inRange = false;
				if(!inRange) out = "bad-op";
				else if(!ds.dispatch(t, out)) out = "bad-op";
			}
			else if(vs.k && t[0] == "setfactor"){
				// in-place reconfiguration: ScaledKernel::setFactor on the i-th ScaledKernel object (pre-order)
				std::size_t i; double f;
				if(t.size() != 3 || !parseNat(t[1], i) || !parseVal(t[2], f) || i >= builder->scaled.size() || !builder->scaled[i]) out = "bad-op";
				else{ builder->scaled[i]->setFactor(f); out = "ok" + vs.claimOracle(*vs.k); }
			}
			else if(vs.k && t[0] == "setparams") out = vs.setParams(t);
			else if(vs.k && t[0] == "adaptall"){
				// every sub-kernel of every weighted sum becomes part of the parameter vector (inner sums first, the
				// outer sums cache the parameter counts of their sub-kernels); not modelled: oracle-only cases
				for(WeightedSumKernel<I>* w: builder->wsums) w->setAdaptiveAll(true);
				std::ostringstream os; os << "ok np=" << vs.k->numberOfParameters();
				out = os.str();
				if(vs.k->parameterVector().size() != vs.k->numberOfParameters()) out += " !oracle parameter-vector-size";
			}
			else if(vs.k && t[0] == "kexp") out = kexpSetup(vs, t, kexp);
			else if(vs.k && t[0] == "kx"){
				std::vector<std::size_t> a;
				if(!kexp || !vh::allNat(t, 1, a) || a.size() != 2) out = "bad-op"; else out = kexpEvalOp(vs, *kexp, a[0], a[1]);
			}
			else if(vs.k && t[0] == "skip"){
				std::vector<std::size_t> a;
				if(!vh::allNat(t, 1, a) || a.size() != 5) out = "bad-op"; else out = SkipMissing<I>::run(vs, a[0], a[1], a[2], a[3], a[4]);
			}
			else if(vs.k && t[0] == "unitvar"){
				std::vector<std::size_t> a;
				if(!vh::allNat(t, 1, a) || a.empty()) out = "bad-op"; else out = unitVar(vs, a);
			}
			else if(vs.k){ if(!vs.dispatch(t, out)) out = "bad-op"; }
			else out = "no-kernel";
		}catch(std::exception const& e){
			out = std::string("exception ") + e.what();
		}
		std::cout << out << "\n";
	}
	std::cout.flush();
	return 0;
}

#ifndef C05_NO_MAIN
int main(int argc, char** argv){
	std::string ty = argc > 1 ? argv[1] : "dense";
	if(ty == "sparse") return run<CompressedRealVector>();
	return run<RealVector>();
}
#endif
