// K-C08: correspondence harness for the SMO problem classes and QpSolver.
// Reads ops (one per line) from stdin, prints one observation line per op in the
// format of lean/Driver/C08.lean.  argv[1]: matrix kind
//   dd = harness matrix with double entries      df = harness matrix with float entries
//   cd / cf = shark::CachedMatrix over it (double / float); argv[2] = cache size in rows (>= 2)
//
// The real classes are driven through thin subclasses that shadow
// updateSMO / shrink / unshrink (call the base, then record the full state), both
// from explicit (also adversarial) op sequences and from the real QpSolver::solve.
// An independent oracle recomputes lin - K*alpha from its own copy of the data and
// checks every clause of property C08 after every operation.
#include <shark/Algorithms/QP/QpSolver.h>
#include <shark/Algorithms/QP/SvmProblems.h>
#include <shark/Algorithms/QP/BoxConstrainedProblems.h>
#include <shark/LinAlg/CachedMatrix.h>
#include "common.hpp"
#include <cfenv>
#include <cmath>
#include <memory>
#include <functional>
#include <cstdlib>

using namespace shark;

// ---------------------------------------------------------------- number tokens
static std::string tok(double x){
	if(std::isnan(x)) return "nan";
	if(std::isinf(x)) return x > 0 ? "inf" : "-inf";
	if(x == 0) return std::signbit(x) ? "-0@0" : "0@0";
	int e; double m = std::frexp(x, &e);
	long long mi = (long long)std::ldexp(m, 53); e -= 53;
	while(mi % 2 == 0){ mi /= 2; ++e; }
	std::ostringstream os; os << mi << "@" << e; return os.str();
}
static double untok(std::string const& t){
	if(t == "nan") return std::nan("");
	if(t == "inf") return INFINITY;
	if(t == "-inf") return -INFINITY;
	if(t == "-0@0") return -0.0;
	std::size_t at = t.find('@');
	long long m = std::stoll(t.substr(0, at));
	int e = std::stoi(t.substr(at + 1));
	return std::ldexp((double)m, e);
}

// ---------------------------------------------------------------- matrices
template<class T>
struct HMatrix{
	typedef T QpFloatType;
	std::size_t n;
	std::vector<double> K;                 // original matrix
	std::vector<std::size_t> perm;
	mutable std::vector<std::vector<T> > buf;   // one buffer per row index: returned pointers stay valid
	HMatrix(std::size_t n, std::vector<double> const& K): n(n), K(K), perm(n), buf(n, std::vector<T>(n)){
		for(std::size_t i = 0; i != n; ++i) perm[i] = i;
	}
	std::size_t size() const{ return n; }
	T entry(std::size_t i, std::size_t j) const{ return T(K[perm[i]*n + perm[j]]); }
	T operator()(std::size_t i, std::size_t j) const{ return entry(i, j); }
	T* row(std::size_t k, std::size_t start, std::size_t end){
		for(std::size_t j = start; j < end; ++j) buf[k][j] = entry(k, j);
		return &buf[k][0];
	}
	void row(std::size_t k, std::size_t start, std::size_t end, T* storage) const{
		for(std::size_t j = start; j < end; ++j) storage[j-start] = entry(k, j);
	}
	void flipColumnsAndRows(std::size_t i, std::size_t j){ std::swap(perm[i], perm[j]); }
	std::size_t getMaxCacheSize() const{ return n*n; }
	void setMaxCachedIndex(std::size_t){}
};

// ---------------------------------------------------------------- coverage counters (printed to stderr at exit)
// measured by the harness on the REAL objects; the check script asserts that the histories the clause
// "shrinking removes only variables that cannot improve the objective" quantifies over are reached
struct Coverage{
	unsigned long long shrinkCalls = 0, shrinkCallsRemoving = 0, removedVars = 0;
	unsigned long long shrinkInSolve = 0;
	unsigned long long internalUnshrink = 0;            // shrink() un-shrank a really shrunk problem first
	unsigned long long internalUnshrinkInSolve = 0;
	unsigned long long unshrinkThresholdsDiffer = 0;    // ... and a re-activated variable moved largestUp / smallestDown
	unsigned long long unshrinkDiscriminating = 0;      // ... and the thresholds of the formerly active variables alone
	                                                    //     would have removed a different set of variables
	unsigned long long unshrinkDiscriminatingSvm = 0, unshrinkDiscriminatingBox = 0, unshrinkDiscriminatingInSolve = 0;
	unsigned long long unshrinkViolatorKept = 0;        // a re-activated variable stayed active after the re-shrink
	unsigned long long explicitUnshrinkReal = 0;        // unshrink() with shrunk variables present
	unsigned long long shrunkBecameViolator = 0;        // unshrink (any) re-activated a variable that can improve the objective
	unsigned long long smoWhileShrunk = 0;              // SMO steps with active < n
	unsigned long long shrinkAfterFlagSet = 0;          // shrink() calls that removed variables after the one automatic un-shrink
} cov;
static void printCoverage(){
	std::cerr << "C08COV shrink_calls=" << cov.shrinkCalls << " shrink_calls_removing=" << cov.shrinkCallsRemoving
		<< " removed_vars=" << cov.removedVars << " shrink_in_solve=" << cov.shrinkInSolve
		<< " internal_unshrink=" << cov.internalUnshrink << " internal_unshrink_in_solve=" << cov.internalUnshrinkInSolve
		<< " unshrink_thresholds_differ=" << cov.unshrinkThresholdsDiffer
		<< " unshrink_discriminating=" << cov.unshrinkDiscriminating
		<< " unshrink_discriminating_svm=" << cov.unshrinkDiscriminatingSvm
		<< " unshrink_discriminating_box=" << cov.unshrinkDiscriminatingBox
		<< " unshrink_discriminating_in_solve=" << cov.unshrinkDiscriminatingInSolve
		<< " unshrink_violator_kept=" << cov.unshrinkViolatorKept
		<< " explicit_unshrink_real=" << cov.explicitUnshrinkReal
		<< " shrunk_became_violator=" << cov.shrunkBecameViolator
		<< " smo_while_shrunk=" << cov.smoWhileShrunk
		<< " shrink_after_flag_set=" << cov.shrinkAfterFlagSet << "\n";
}

// ---------------------------------------------------------------- recording subclass
struct Oracle;
template<class Base>
struct Probe: public Base{
	template<class P> Probe(P& p, bool shrink): Base(p, shrink), inexact(false){}
	bool inexact;                    // some shadowed operation raised FE_INEXACT
	std::vector<std::string> events; // recorded during QpSolver::solve
	bool recording = false;
	std::function<std::string(std::string const&, double)> after;  // state dump + oracle
	std::function<void(std::string const&, double)> before;        // snapshot for the oracle (state before the call)

	void updateSMO(std::size_t i, std::size_t j){
		before("smo", 0);
		std::feclearexcept(FE_ALL_EXCEPT);
		Base::updateSMO(i, j);
		if(std::fetestexcept(FE_INEXACT)) inexact = true;
		std::ostringstream os; os << "smo " << i << " " << j;
		std::string s = after(os.str(), 0);
		if(recording) events.push_back(os.str() + " " + s);
	}
	bool shrink(double eps){
		before("shrink", eps);
		std::feclearexcept(FE_ALL_EXCEPT);
		bool r = Base::shrink(eps);
		if(std::fetestexcept(FE_INEXACT)) inexact = true;
		std::string s = after("shrink", eps);
		if(recording) events.push_back(std::string("shrink ") + (r ? "1 " : "0 ") + s);
		return r;
	}
	void unshrink(){
		before("unshrink", 0);
		std::feclearexcept(FE_ALL_EXCEPT);
		Base::unshrink();
		if(std::fetestexcept(FE_INEXACT)) inexact = true;
		std::string s = after("unshrink", 0);
		if(recording) events.push_back("unshrink " + s);
	}
	bool hasEdge() const{
#ifdef SHARK_VERIF_HOOK_GRADIENT_EDGE
		return true;
#else
		return false;
#endif
	}
	double edge(std::size_t i) const{
#ifdef SHARK_VERIF_HOOK_GRADIENT_EDGE
		return this->verifGradientEdge(i);
#else
		return 0;
#endif
	}
	bool unshrinked() const{
#ifdef SHARK_VERIF_HOOK_GRADIENT_EDGE
		return this->verifIsUnshrinked();
#else
		return false;
#endif
	}
};

// ---------------------------------------------------------------- one problem instance
struct Instance{
	virtual ~Instance(){}
	virtual std::string op(std::vector<std::string> const& t) = 0;
	virtual std::string state() = 0;
};

template<class Matrix, class Prob>   // Prob = Probe<SvmShrinkingProblem<GQP>> or Probe<BoxConstrainedShrinkingProblem<GQP>>
struct Inst: Instance{
	typedef GeneralQuadraticProblem<Matrix> GQP;
	std::size_t n; bool eqc, shrinkOn, edge;
	std::vector<double> K0, lin0, L0, U0;         // the oracle's own copy of the data
	std::unique_ptr<HMatrix<typename Matrix::QpFloatType> > base;
	std::unique_ptr<Matrix> mat;
	std::unique_ptr<GQP> gqp;
	std::unique_ptr<Prob> p;
	long double sum0, lastObj, guardSlack; bool haveObj;
	std::vector<double> lastAlpha;                // by original id
	std::vector<char> wasActive;                  // by original id, before the current call of updateSMO/shrink/unshrink
	std::size_t activeBefore = 0;                 // active() before the current call
	bool flagBefore = false, mirrorUn = false, mirrorBefore = false;   // m_isUnshrinked before the call (hook) / the oracle's own mirror of it
	double luBefore = -1e100, sdBefore = 1e100, epsArg = 0;           // thresholds of the variables active before the call
	std::string oracleTags;

	// ---------- independent oracle
	long double objective(long double& scale){
		long double lin = 0, quad = 0; scale = 0;
		for(std::size_t a = 0; a != n; ++a){
			long double aa = p->alpha(a);
			lin += (long double)lin0[p->permutation(a)] * aa; scale += std::fabs((long double)lin0[p->permutation(a)] * aa);
			for(std::size_t b = 0; b != n; ++b){
				long double t = aa * (long double)K0[p->permutation(a)*n + p->permutation(b)] * (long double)p->alpha(b);
				quad += t; scale += std::fabs(t);
			}
		}
		return lin - 0.5L * quad;
	}
	bool atBound(std::size_t a){ return p->alpha(a) == L0[p->permutation(a)] || p->alpha(a) == U0[p->permutation(a)]; }
	void snapshotActive(){
		wasActive.assign(n, 0);
		for(std::size_t a = 0; a != p->active(); ++a) wasActive[p->permutation(a)] = 1;
	}
	// state before a call of updateSMO / shrink / unshrink (from an op line or from inside QpSolver::solve)
	void beforeCall(std::string const& what, double eps){
		snapshotActive();
		activeBefore = p->active();
		flagBefore = p->unshrinked(); mirrorBefore = mirrorUn; epsArg = eps;
		luBefore = -1e100; sdBefore = 1e100;
		for(std::size_t a = 0; a != p->active(); ++a){
			bool lower = p->alpha(a) == L0[p->permutation(a)], upper = p->alpha(a) == U0[p->permutation(a)];
			if(!lower) sdBefore = std::min(sdBefore, p->gradient(a));
			if(!upper) luBefore = std::max(luBefore, p->gradient(a));
		}
		if(what == "smo" && p->active() < n) ++cov.smoWhileShrunk;
	}
	std::string oracle(std::string const& what, double){
		std::ostringstream os;
		bool exact = !p->inexact;
		// permutation
		std::vector<char> seen(n, 0);
		for(std::size_t a = 0; a != n; ++a){
			std::size_t o = p->permutation(a);
			if(o >= n || seen[o]){ os << " !oracle perm-not-a-permutation"; return os.str(); }
			seen[o] = 1;
		}
		if(p->active() > n) os << " !oracle active>n";
		long double sum = 0;
		for(std::size_t a = 0; a != n; ++a){
			std::size_t o = p->permutation(a);
			double al = p->alpha(a);
			sum += al;
			if(p->linear(a) != lin0[o] || p->diagonal(a) != (double)(typename Matrix::QpFloatType)K0[o*n+o]) os << " !oracle data-not-permuted@" << a;
			if(p->boxMin(a) != L0[o] || p->boxMax(a) != U0[o]){
				// a variable with both bits set reports alpha as its box: must then be L == U == alpha
				if(!(L0[o] == U0[o] && al == L0[o])) os << " !oracle box-not-permuted@" << a;
			}
			if(al < L0[o] || al > U0[o]) os << " !oracle box@" << a;
			if(p->isLowerBound(a) != (al == L0[o]) || p->isUpperBound(a) != (al == U0[o])) os << " !oracle flags@" << a;
			if(a >= p->active() && !atBound(a)) os << " !oracle shrunk-not-at-bound@" << a;
			// gradient of the active variables (all variables after unshrink)
			if(a < p->active()){
				long double g = lin0[o], scale = std::fabs((long double)lin0[o]);
				for(std::size_t b = 0; b != n; ++b){
					long double t = (long double)(typename Matrix::QpFloatType)K0[o*n + p->permutation(b)] * (long double)p->alpha(b);
					g -= t; scale += std::fabs(t);
				}
				long double err = std::fabs(g - (long double)p->gradient(a));
				if(exact ? err != 0 : err > 1e-9L * (1 + scale)) os << " !oracle gradient@" << a;
			}
			if(p->hasEdge() && shrinkOn){
				long double g = lin0[o], scale = std::fabs((long double)lin0[o]);
				for(std::size_t b = 0; b != n; ++b) if(atBound(b)){
					long double t = (long double)(typename Matrix::QpFloatType)K0[o*n + p->permutation(b)] * (long double)p->alpha(b);
					g -= t; scale += std::fabs(t);
				}
				long double err = std::fabs(g - (long double)p->edge(a));
				if(exact ? err != 0 : err > 1e-9L * (1 + scale)) os << " !oracle gradient-edge@" << a;
			}
		}
		if(what == "unshrink" && p->active() != n) os << " !oracle unshrink-left-inactive";
		if(eqc){
			long double err = std::fabs(sum - sum0);
			if(exact ? err != 0 : err > 1e-9L * (1 + std::fabs(sum0))) os << " !oracle sum-changed";
		}
		// objective never decreases in an SMO step, and is unchanged by everything else
		long double scale; long double obj = objective(scale);
		guardSlack = 0;
		if(!eqc && lastAlpha.size() == n) for(std::size_t a = 0; a != n; ++a){
			long double d = (long double)p->alpha(a) - lastAlpha[p->permutation(a)];
			guardSlack += 1e-12L * d * d;
		}
		lastAlpha.assign(n, 0);
		for(std::size_t a = 0; a != n; ++a) lastAlpha[p->permutation(a)] = p->alpha(a);
		if(haveObj){
			// slack: rounding (when a step was inexact) plus the documented 1e-12 curvature guard of
			// solveQuadraticEdge (curvature below 1e-12 is treated as 0: loses at most 0.5e-12*step^2)
			long double tol = (exact ? 0 : 1e-12L * (1 + scale)) + guardSlack;
			if(what.compare(0, 3, "smo") == 0){ if(obj < lastObj - tol) os << " !oracle objective-decreased(" << (double)(obj - lastObj) << ")"; }
			else if(std::fabs(obj - lastObj) > tol) os << " !oracle objective-changed-by-" << what;
		}
		lastObj = obj; haveObj = true;
		// shrinking removes only variables that cannot improve the objective at this moment.
		// INDEPENDENT of the implementation's thresholds: the oracle's own gradient lin - K*alpha (long double, own copy
		// of the data) of ALL variables, the oracle's own notion of "at a bound" (alpha == L / alpha == U).
		// start set  = the variables the back-to-front loop of this call ran over: the variables active before the call,
		//              or ALL variables when the call un-shrank first (the one automatic un-shrink);
		// removed    = start set minus the variables active now.
		// Clause (theorem shrink_sound, NoGainSvm / NoGainBox at every removal): no removed variable has a feasible
		// first-order ascending move -- equality-constrained kind: with ANY partner of the start set (the partner was
		// active when the first of the two was removed); box kind: on its own.
		if(what == "shrink" || what == "unshrink"){
			std::vector<long double> G(n), S(n);
			for(std::size_t a = 0; a != n; ++a){
				std::size_t o = p->permutation(a);
				long double g = lin0[o], scale = std::fabs((long double)lin0[o]);
				for(std::size_t b = 0; b != n; ++b){
					long double t = (long double)(typename Matrix::QpFloatType)K0[o*n + p->permutation(b)] * (long double)p->alpha(b);
					g -= t; scale += std::fabs(t);
				}
				G[a] = g; S[a] = scale;
			}
			bool anyReactivated = false, anyKept = false;
			for(std::size_t a = 0; a != p->active(); ++a) if(!wasActive[p->permutation(a)]) anyKept = true;
			bool fired = false;           // did this call really un-shrink (re-activate variables)?
			if(what == "unshrink") fired = activeBefore < n;
			else if(p->hasEdge()) fired = activeBefore < n && !flagBefore && p->unshrinked();
			else fired = anyKept || (activeBefore < n && !mirrorUn && luBefore - sdBefore < 10.0 * epsArg);
			anyReactivated = fired;
			if(fired) mirrorUn = true;
			// thresholds over all variables now (after an un-shrink the maintained gradient of every variable is current)
			double luAll = -1e100, sdAll = 1e100;
			for(std::size_t a = 0; a != n; ++a){
				bool lower = p->alpha(a) == L0[p->permutation(a)], upper = p->alpha(a) == U0[p->permutation(a)];
				if(!lower) sdAll = std::min(sdAll, p->gradient(a));
				if(!upper) luAll = std::max(luAll, p->gradient(a));
			}
			if(what == "unshrink"){
				if(fired){
					++cov.explicitUnshrinkReal;
					if(luAll != luBefore || sdAll != sdBefore) ++cov.shrunkBecameViolator;
				}
			}else{
				++cov.shrinkCalls; if(p->recording) ++cov.shrinkInSolve;
				std::size_t removed = 0;
				for(std::size_t a = p->active(); a != n; ++a){
					if(!(fired || wasActive[p->permutation(a)])) continue;     // shrunk by an earlier call, not looked at by this one
					++removed;
					bool lower = p->alpha(a) == L0[p->permutation(a)], upper = p->alpha(a) == U0[p->permutation(a)];
					if(lower && upper) continue;                               // L == U: cannot move at all
					bool aUp = !upper, aDown = !lower;
					if(!eqc){
						long double tol = exact ? 0 : 1e-9L * (1 + S[a]);
						if((aUp && G[a] > tol) || (aDown && G[a] < -tol)) os << " !oracle shrunk-could-improve@" << a;
					}else for(std::size_t b = 0; b != n; ++b){
						if(b == a) continue;
						if(!(fired || wasActive[p->permutation(b)])) continue;
						bool bl = p->alpha(b) == L0[p->permutation(b)], bu = p->alpha(b) == U0[p->permutation(b)];
						long double tol = exact ? 0 : 1e-9L * (1 + S[a] + S[b]);
						// a up / b down has first-order gain g_a - g_b; a down / b up has g_b - g_a
						if(aUp && !bl && G[a] - G[b] > tol) os << " !oracle shrunk-could-improve@" << a << "," << b;
						if(aDown && !bu && G[b] - G[a] > tol) os << " !oracle shrunk-could-improve@" << a << "," << b;
					}
				}
				if(removed){ ++cov.shrinkCallsRemoving; cov.removedVars += removed; if(flagBefore || mirrorBefore) ++cov.shrinkAfterFlagSet; }
				if(fired){
					++cov.internalUnshrink; if(p->recording) ++cov.internalUnshrinkInSolve;
					if(anyKept) ++cov.unshrinkViolatorKept;
					if(luAll != luBefore || sdAll != sdBefore){
						++cov.unshrinkThresholdsDiffer; ++cov.shrunkBecameViolator;
						// would the thresholds of the formerly active variables alone have removed a different set?
						bool differs = false;
						for(std::size_t a = 0; a != n && !differs; ++a){
							bool lower = p->alpha(a) == L0[p->permutation(a)], upper = p->alpha(a) == U0[p->permutation(a)];
							double ga = p->gradient(a);
							double sdF = eqc ? sdAll : std::min(sdAll, 0.0), luF = eqc ? luAll : std::max(luAll, 0.0);
							double sdS = eqc ? sdBefore : std::min(sdBefore, 0.0), luS = eqc ? luBefore : std::max(luBefore, 0.0);
							bool tF = (lower && ga < sdF) || (upper && ga > luF);
							bool tS = (lower && ga < sdS) || (upper && ga > luS);
							if(tF != tS) differs = true;
						}
						if(differs){
							++cov.unshrinkDiscriminating; (eqc ? cov.unshrinkDiscriminatingSvm : cov.unshrinkDiscriminatingBox)++;
							if(p->recording) ++cov.unshrinkDiscriminatingInSolve;
						}
					}
				}
			}
			(void)anyReactivated;
		}
		return os.str();
	}

	// ---------- state dump
	std::string vec(std::function<std::string(std::size_t)> f){
		std::string s = "[";
		for(std::size_t k = 0; k != n; ++k){ if(k) s += ","; s += f(k); }
		return s + "]";
	}
	std::string state(){
		std::ostringstream os;
		os << "act=" << p->active();
		if(edge) os << " un=" << (p->unshrinked() ? 1 : 0);
		os << " perm=" << vec([&](std::size_t k){ return std::to_string(p->permutation(k)); });
		os << " a=" << vec([&](std::size_t k){ return tok(p->alpha(k)); });
		os << " g=" << vec([&](std::size_t k){ return tok(p->gradient(k)); });
		if(edge) os << " ge=" << vec([&](std::size_t k){ return tok(p->edge(k)); });
		os << " lo=" << vec([&](std::size_t k){ return std::string(p->isLowerBound(k) ? "1" : "0"); });
		os << " up=" << vec([&](std::size_t k){ return std::string(p->isUpperBound(k) ? "1" : "0"); });
		os << " L=" << vec([&](std::size_t k){ return tok(p->boxMin(k)); });
		os << " U=" << vec([&](std::size_t k){ return tok(p->boxMax(k)); });
		os << " lin=" << vec([&](std::size_t k){ return tok(p->linear(k)); });
		os << " d=" << vec([&](std::size_t k){ return tok(p->diagonal(k)); });
		return os.str();
	}
	std::string suffix(){
		std::ostringstream os;
		os << " ;x=" << (p->inexact ? 0 : 1);
		std::feclearexcept(FE_ALL_EXCEPT);
		double fv = p->functionValue();
		bool fvExact = !std::fetestexcept(FE_INEXACT);
		os << " ;fv=" << ((!p->inexact && fvExact) ? tok(fv) : std::string("-"));
		// reported objective = recomputed objective (property C07 clause, checked here on every state)
		long double scale; long double obj = objective(scale);
		if(p->active() == n && std::fabs(obj - (long double)fv) > 1e-9L * (1 + scale)) os << " !oracle functionValue-differs";
		os << oracleTags; oracleTags.clear();
		return os.str();
	}

	Inst(std::size_t n, bool eqc, bool shrinkOn, bool edge, std::vector<double> const& nums, std::size_t cacheRows)
	: n(n), eqc(eqc), shrinkOn(shrinkOn), edge(edge), haveObj(false){
		K0.assign(nums.begin(), nums.begin() + n*n);
		lin0.assign(nums.begin() + n*n, nums.begin() + n*n + n);
		L0.assign(nums.begin() + n*n + n, nums.begin() + n*n + 2*n);
		U0.assign(nums.begin() + n*n + 2*n, nums.begin() + n*n + 3*n);
		std::vector<double> a0(nums.begin() + n*n + 3*n, nums.begin() + n*n + 4*n);
		base.reset(new HMatrix<typename Matrix::QpFloatType>(n, K0));
		mat.reset(makeMatrix((Matrix*)0, cacheRows));
		gqp.reset(new GQP(*mat));
		for(std::size_t i = 0; i != n; ++i){ gqp->linear(i) = lin0[i]; gqp->boxMin(i) = L0[i]; gqp->boxMax(i) = U0[i]; }
		p.reset(new Prob(*gqp, shrinkOn));
		p->before = [this](std::string const& what, double eps){ beforeCall(what, eps); };
		p->after = [this](std::string const& what, double eps){
			std::string o = oracle(what, eps);
			std::string s = state();
			if(p->recording) return s + o;
			oracleTags += o;
			return s;
		};
		std::feclearexcept(FE_ALL_EXCEPT);
		bool any = false; RealVector av(n);
		for(std::size_t i = 0; i != n; ++i){ av(i) = a0[i]; if(a0[i] != 0 || std::signbit(a0[i])) any = true; }
		if(any) p->setInitialSolution(av);
		if(std::fetestexcept(FE_INEXACT)) p->inexact = true;
		sum0 = 0; for(std::size_t i = 0; i != n; ++i) sum0 += a0[i];
		snapshotActive();
		oracleTags = oracle("new", 0);
	}
	HMatrix<typename Matrix::QpFloatType>* makeMatrix(HMatrix<typename Matrix::QpFloatType>*, std::size_t){ return base.get(); }
	CachedMatrix<HMatrix<typename Matrix::QpFloatType> >* makeMatrix(CachedMatrix<HMatrix<typename Matrix::QpFloatType> >*, std::size_t rows){
		return new CachedMatrix<HMatrix<typename Matrix::QpFloatType> >(base.get(), rows * n);
	}
	~Inst(){ if((void*)mat.get() == (void*)base.get()) mat.release(); }

	template<class Strategy>
	std::string select(){
		Strategy s; std::size_t i = 0, j = 0;
		double v = s(*p, i, j);
		std::ostringstream os; os << "sel " << i << " " << j << " " << tok(v);
		return os.str();
	}
	// one solver-style step: working set chosen by the REAL selection criterion, then updateSMO -- QpSolver's step
	// without its shrinking schedule, so that the op sequence decides when shrink()/unshrink() happen
	template<class Strategy>
	std::string selectStep(){
		Strategy s; std::size_t i = 0, j = 0;
		double v = s(*p, i, j);
		if(!(v > 0)) return "skip " + state() + suffix();
		p->updateSMO(i, j);
		std::ostringstream os; os << "smo " << i << " " << j << " ";
		return os.str() + state() + suffix();
	}
	template<class Strategy>
	std::string solve(double eps, unsigned long long maxit){
		QpSolver<Prob, Strategy> solver(*p);
		QpStoppingCondition stop(eps, maxit);
		QpSolutionProperties prop;
		p->events.clear(); p->recording = true;
		solver.solve(stop, &prop);
		p->recording = false;
		std::ostringstream os;
		for(std::size_t k = 0; k != p->events.size(); ++k) os << p->events[k] << " | ";
		os << "end acc=" << (prop.type == QpAccuracyReached ? 1 : 0) << " it=" << prop.iterations;
		return os.str() + suffix();
	}
	std::string op(std::vector<std::string> const& t){
		std::string const& o = t[0];
		if(o == "suffix") return suffix();
		snapshotActive();
		if(o == "smo" && t.size() == 3){ p->updateSMO(std::stoul(t[1]), std::stoul(t[2])); return state() + suffix(); }
		// adversarial but admissible step: indices reduced into the active range; for the equality
		// constrained problem the pair is ordered so that gradient(i) >= gradient(j) (a solver never
		// proposes a descent pair) and i == j is skipped
		if(o == "asmo" && t.size() == 3){
			std::size_t act = p->active();
			if(act == 0) return "skip " + state() + suffix();
			std::size_t i = std::stoul(t[1]) % act, j = std::stoul(t[2]) % act;
			if(eqc && i == j) return "skip " + state() + suffix();
			if(eqc && p->gradient(i) < p->gradient(j)) std::swap(i, j);
			p->updateSMO(i, j);
			std::ostringstream os; os << "smo " << i << " " << j << " ";
			return os.str() + state() + suffix();
		}
		if(o == "aflip" && t.size() == 3){
			std::size_t act = p->active();
			if(act == 0) return "skip " + state() + suffix();
			p->flipCoordinates(std::stoul(t[1]) % act, std::stoul(t[2]) % act);
			oracleTags += oracle("flip", 0);
			return state() + suffix();
		}
		if(o == "flip" && t.size() == 3){
			p->flipCoordinates(std::stoul(t[1]), std::stoul(t[2]));
			oracleTags += oracle("flip", 0);
			return state() + suffix();
		}
		if(o == "unshrink" && t.size() == 1){ p->unshrink(); return state() + suffix(); }
		if(o == "shrink" && t.size() == 2){ bool r = p->shrink(untok(t[1])); return std::string("ret=") + (r ? "1 " : "0 ") + state() + suffix(); }
		if(o == "kkt") return "kkt " + tok(p->checkKKT());
		if(o == "select" && t.size() == 2){
			if(t[1] == "mvp") return select<MVPSelectionCriterion>();
			if(t[1] == "libsvm") return select<LibSVMSelectionCriterion>();
			return select<MaximumGainCriterion>();
		}
		if(o == "ssmo" && t.size() == 2){
			if(p->active() == 0) return "skip " + state() + suffix();
			if(t[1] == "mvp") return selectStep<MVPSelectionCriterion>();
			if(t[1] == "libsvm") return selectStep<LibSVMSelectionCriterion>();
			return selectStep<MaximumGainCriterion>();
		}
		if(o == "solve" && t.size() == 4){
			double eps = untok(t[2]); unsigned long long maxit = std::stoull(t[3]);
			if(t[1] == "mvp") return solve<MVPSelectionCriterion>(eps, maxit);
			if(t[1] == "libsvm") return solve<LibSVMSelectionCriterion>(eps, maxit);
			// hybrid maximum gain: stateful (last working set survives shrink()'s flips until reset()); not modelled in
			// Lean -- such ops are run against the oracle alone (checks/c08.py, K-C08[hmg])
			if(t[1] == "hmg") return eqc ? solve<HMGSelectionCriterion>(eps, maxit) : std::string("bad-op");
			return solve<MaximumGainCriterion>(eps, maxit);
		}
		return "bad-op";
	}
};

template<class Matrix>
Instance* make(std::size_t n, bool eqc, bool sh, bool edge, std::vector<double> const& nums, std::size_t cacheRows){
	typedef GeneralQuadraticProblem<Matrix> GQP;
	if(eqc) return new Inst<Matrix, Probe<SvmShrinkingProblem<GQP> > >(n, true, sh, edge, nums, cacheRows);
	return new Inst<Matrix, Probe<BoxConstrainedShrinkingProblem<GQP> > >(n, false, sh, edge, nums, cacheRows);
}

int main(int argc, char** argv){
	std::string kind = argc > 1 ? argv[1] : "dd";
	std::size_t cacheRows = argc > 2 ? std::stoul(argv[2]) : 2;
	if(kind == "caps"){
#ifdef SHARK_VERIF_HOOK_GRADIENT_EDGE
		std::cout << "edge=1\n";
#else
		std::cout << "edge=0\n";
#endif
		return 0;
	}
	std::atexit(printCoverage);
	std::unique_ptr<Instance> inst;
	std::string line;
	while(std::getline(std::cin, line)){
		std::vector<std::string> t = vh::tokens(line);
		if(t.empty()){ std::cout << "\n"; continue; }
		std::string const& o = t[0];
		std::string r = "bad-op";
		if(o == "new" && t.size() >= 5){
			std::size_t n = std::stoul(t[2]);
			if(t.size() == 5 + n*n + 4*n){
				std::vector<double> nums;
				for(std::size_t k = 5; k != t.size(); ++k) nums.push_back(untok(t[k]));
				bool eqc = t[1] == "svm", sh = t[3] == "1", edge = t[4] == "1";
				inst.reset();
				if(kind == "dd") inst.reset(make<HMatrix<double> >(n, eqc, sh, edge, nums, cacheRows));
				else if(kind == "df") inst.reset(make<HMatrix<float> >(n, eqc, sh, edge, nums, cacheRows));
				else if(kind == "cd") inst.reset(make<CachedMatrix<HMatrix<double> > >(n, eqc, sh, edge, nums, cacheRows));
				else inst.reset(make<CachedMatrix<HMatrix<float> > >(n, eqc, sh, edge, nums, cacheRows));
				Instance* I = inst.get();
				r = I->state();
				// suffix (x, fv, oracle tags) through a no-op: reuse op("kkt")? no: dedicated call
				r += static_cast<Instance*>(I)->op(std::vector<std::string>(1, "suffix"));
			}
		}else if(o == "edge" && t.size() == 6){
			double a = untok(t[1]);
			detail::solveQuadraticEdge(a, untok(t[2]), untok(t[3]), untok(t[4]), untok(t[5]));
			r = "r " + tok(a);
		}else if(o == "box" && t.size() == 12){
			double v[11]; for(int k = 0; k != 11; ++k) v[k] = untok(t[k+1]);
			double ai = v[0], aj = v[1];
			detail::solveQuadratic2DBox(ai, aj, v[2], v[3], v[4], v[5], v[6], v[7], v[8], v[9], v[10]);
			r = "r " + tok(ai) + " " + tok(aj);
			// oracle: result in the box, gain >= 0 (objective of the 2-D sub-problem does not decrease)
			if(ai < v[7] || ai > v[8] || aj < v[9] || aj > v[10]) r += " !oracle box2d-outside-box";
			long double mi = (long double)ai - v[0], mj = (long double)aj - v[1];
			long double gain = mi * (v[2] - 0.5L * (v[4]*mi + v[5]*mj)) + mj * (v[3] - 0.5L * (v[5]*mi + v[6]*mj));
			long double scale = std::fabs(mi*v[2]) + std::fabs(mj*v[3]) + std::fabs(mi*mi*v[4]) + std::fabs(mj*mj*v[6]) + 2*std::fabs(mi*mj*v[5]);
			// rounding slack: the C++ forms g - Qij*(bound - alpha) and alpha + g/Q, whose terms can be much larger
			// than the final move (ill-conditioned Q): scale with the magnitudes of those intermediates
			long double wi = std::max(std::fabs((long double)v[7] - v[0]), std::fabs((long double)v[8] - v[0]));
			long double wj = std::max(std::fabs((long double)v[9] - v[1]), std::fabs((long double)v[10] - v[1]));
			long double inter = (std::fabs(mi) + std::fabs(mj)) * (std::fabs((long double)v[2]) + std::fabs((long double)v[3])
				+ (std::fabs((long double)v[4]) + std::fabs((long double)v[5])) * wi + (std::fabs((long double)v[5]) + std::fabs((long double)v[6])) * wj);
			if(gain < -1e-12L * (scale + inter) - 1e-12L * (mi*mi + mj*mj)) r += " !oracle box2d-negative-gain";
		}else if(o == "tri" && t.size() == 9){
			double v[8]; for(int k = 0; k != 8; ++k) v[k] = untok(t[k+1]);
			double ai = v[0], aj = v[1];
			detail::solveQuadratic2DTriangle(ai, aj, v[2], v[3], v[4], v[5], v[6], v[7]);
			r = "r " + tok(ai) + " " + tok(aj);
		}else if(o == "mg2d" && t.size() == 6){
			r = "r " + tok(detail::maximumGainQuadratic2D(untok(t[1]), untok(t[2]), untok(t[3]), untok(t[4]), untok(t[5])));
		}else if(o == "mgline" && t.size() == 6){
			r = "r " + tok(detail::maximumGainQuadratic2DOnLine(untok(t[1]), untok(t[2]), untok(t[3]), untok(t[4]), untok(t[5])));
		}else if(inst){
			r = inst->op(t);
		}
		std::cout << r << "\n";
	}
	return 0;
}
