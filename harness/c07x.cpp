// K-C07x: the trainers and configuration axes of property C07 that harness/c07.cpp does not reach.
// One training per input line:
//   trx <kind> <kern lin|rbf> <gamma> <bias> <shrink> <pre> <cache> <eps> <maxit> <maxsec> <warmmode> <warmit> <warmfac>
//       <weighted> <p1> <p2> <dbl> <sparse> <n> <d> x.. y.. w.. a..           (21 + n*d + 3n tokens)
//   kind  c  CSvmTrainer (p1 = C of label 0, p2 = C of label 1; one-C constructor when equal; weighted: WeightedLabeledData)
//         q  SquaredHingeCSvmTrainer (p1, p2 as for c): dual over K + diag(1/(2 C_i)), boxes [0,1e100] / [-1e100,0]
//         e  EpsilonSvmTrainer (p1 = C, p2 = tube)      o  OneClassSvmTrainer (p1 = nu)
//         r  RankingSvmTrainer on labelled data (pairs = examples with different labels; p1 = C); box problem over the pairs
//         m  MissingFeatureSvmTrainer with setMaxIterations(1) (scaling coefficients 1: the plain C-SVM dual, own offset loop)
//   pre   0 cached (through the trainer; setCacheSize(cache) when cache > 0 -- ignored by the binary trainers, see DESIGN.md)
//         1 precomputed          2 (kind c only) the harness builds KernelMatrix + CachedMatrix(&km, cache) + the problem
//         itself and calls the trainer's own optimize(): the trainer code WITH the requested cache size (2*dim is the minimum)
//   maxsec  "inf" or a double (m@e token): stoppingCondition().maxSeconds
//   warmmode 0 cold   1 previous training with C*warmfac, at most warmit iterations   2 explicit start vector a..
//            3 previous training on the first `warmit` examples only (coefficients of the others 0)
//            4 previous training with the OPPOSITE bias setting (C*warmfac, at most warmit iterations)
//   dbl   1: CacheType = double (template parameter)       sparse 1: CompressedRealVector inputs
//   csvm3 <same fields>      same run, output in the format of the model driver (no oracle suffix; linear kernel, exact data)
// Output:  stop=<type> it=<iterations> alpha=[..] b=<offset> ;obj=<own objective> ;width=<sum U-L> ;val=<reported value>
//          + " !oracle <tag>" for every clause of the property that fails on the returned machine.
#include "c07x.hpp"

static Result trainMissing(Cfg const& c){
	LinearKernel<RealVector> lin; GaussianRbfKernel<RealVector> rbf(c.gamma);
	AbstractKernelFunction<RealVector>* k = c.kern == "lin" ? (AbstractKernelFunction<RealVector>*)&lin : (AbstractKernelFunction<RealVector>*)&rbf;
	std::vector<RealVector> pts(c.n); std::vector<unsigned int> labels(c.n);
	for(std::size_t i = 0; i != c.n; ++i){ fillPoint(pts[i], c.xs[i]); labels[i] = c.ys[i] > 0 ? 1 : 0; }
	ClassificationDataset data = createLabeledDataFromRange(pts, labels);
	MissingFeatureSvmTrainer<RealVector> t(k, c.p1, c.bias);
	t.setMaxIterations(1);
	configure(t, c, c.maxit);
	MissingFeaturesKernelExpansion<RealVector> svm;
	t.train(svm, data);
	Result r; props(t, r);
	for(std::size_t i = 0; i != c.n; ++i) r.alpha.push_back(svm.alpha()(i, 0));
	r.b = c.bias ? svm.offset()(0) : 0.0;
	return r;
}

// ---------------------------------------------------------------------------------------------------------- oracle
// Independent of every Shark class: own kernel matrix (long double accumulation, rounded to the cache type as the
// solver sees it), the dual rebuilt from the configuration alone:
//    maximise lin.a - 1/2 a^T Q a,   L <= a <= U,   (sum a = target when an equality constraint exists)
static std::string oracle(Cfg const& c, Result const& r, long double* objOut, long double* widthOut){
	std::ostringstream os;
	std::size_t n = c.n;
	std::vector<std::vector<long double> > K(n, std::vector<long double>(n));
	for(std::size_t i = 0; i != n; ++i) for(std::size_t j = 0; j != n; ++j){
		long double s = 0, d2 = 0;
		for(std::size_t k = 0; k != c.d; ++k){ s += (long double)c.xs[i][k] * c.xs[j][k]; long double d = (long double)c.xs[i][k] - c.xs[j][k]; d2 += d*d; }
		long double v = c.kern == "lin" ? s : std::exp(-(long double)c.gamma * d2);
		K[i][j] = c.dbl ? (long double)(double)v : (long double)(float)v;
	}
	bool acc = r.type == (int)QpAccuracyReached;
	// stop type reported truthfully
	if(r.type != (int)QpAccuracyReached && r.type != (int)QpMaxIterationsReached && r.type != (int)QpTimeout) os << " !oracle stop-type-none(" << r.type << ")";
	if(r.type == (int)QpMaxIterationsReached && r.it != c.maxit) os << " !oracle stop-type-maxit(" << r.it << ")";
	if(r.type != (int)QpMaxIterationsReached && r.it > c.maxit) os << " !oracle iterations-beyond-limit(" << r.it << ")";
	if(r.type == (int)QpTimeout && !(c.maxsec < 1e100)) os << " !oracle stop-type-timeout-without-limit";
	if(acc && !(r.accuracy < c.eps)) os << " !oracle reported-accuracy(" << r.accuracy << ")";
	*objOut = 0; *widthOut = 0;
	if(c.kind == "r"){
		// the pair coefficients are not returned: the oracle is the duality gap.  primal(c) = 1/2 c^T K c + C sum_p hinge_p
		// >= dual optimum >= reported dual value, and KKT(eps) of the pair variables bounds the gap by eps * C * #pairs
		std::vector<long double> f(n, 0);
		long double quad = 0;
		for(std::size_t i = 0; i != n; ++i){ for(std::size_t j = 0; j != n; ++j) f[i] += K[i][j] * r.alpha[j]; }
		for(std::size_t i = 0; i != n; ++i) quad += f[i] * r.alpha[i];
		long double hinge = 0, sumc = 0, scale = std::fabs(quad); std::size_t P = 0;
		for(std::size_t i = 0; i != n; ++i) for(std::size_t j = 0; j != i; ++j){
			if(c.ys[i] == c.ys[j]) continue;
			std::size_t lo = c.ys[i] < c.ys[j] ? i : j, hi = c.ys[i] < c.ys[j] ? j : i;    // f(lo) should be smaller
			hinge += std::max(0.0L, 1 - (f[hi] - f[lo])); ++P;
		}
		for(std::size_t i = 0; i != n; ++i) sumc += r.alpha[i];
		long double primal = 0.5L * quad + c.p1 * hinge;
		// the solver's matrix holds the differences of kernel values rounded to the cache type: exact for integer points with
		// the linear kernel and for the double cache, float-accurate otherwise
		long double tol = 1e-9L * (1 + scale + c.p1 * P + c.p1 * hinge);
		if(!c.dbl && c.kern != "lin"){
			// every entry of the difference matrix (four kernel values <= 1, combined and stored in float) is off by up to ~3e-7,
			// so a^T Q a as the solver sees it is off by up to 3e-7 (sum_p a_p)^2, with sum_p a_p = value + 1/2 c^T K c
			long double suma = std::fabs((long double)r.value) + 0.5L * std::fabs(quad);
			tol += 3e-7L * suma * suma + 1e-6L * (1 + scale);
		}
		*objOut = primal; *widthOut = c.p1 * P;
		if(std::fabs(sumc) > tol) os << " !oracle ranking-coefficients-sum(" << (double)sumc << ")";
		if((long double)r.value > primal + tol) os << " !oracle weak-duality" << (acc ? "" : "-unconverged") << "(" << std::setprecision(17) << r.value << " > " << (double)primal << ")";
		if(acc && primal - (long double)r.value > c.eps * c.p1 * P + tol) os << " !oracle duality-gap(" << (double)(primal - r.value) << ")";
		return os.str();
	}
	std::size_t m = c.kind == "e" ? 2 * n : n;
	std::vector<long double> a(m), lin(m), L(m), U(m), g(m), D(m, 0);
	bool equality = true; long double target = 0;
	if(c.kind == "c" || c.kind == "m"){
		equality = c.bias;
		for(std::size_t i = 0; i != n; ++i){
			bool pos = c.ys[i] > 0; long double w = c.weighted ? c.ws[i] : 1.0;
			long double cn = c.p1, cp = c.kind == "m" ? c.p1 : c.p2;
			a[i] = r.alpha[i]; lin[i] = pos ? 1 : -1;
			L[i] = pos ? 0 : -cn * w; U[i] = pos ? cp * w : 0;
		}
	}else if(c.kind == "q"){
		equality = c.bias;
		for(std::size_t i = 0; i != n; ++i){
			bool pos = c.ys[i] > 0;
			a[i] = r.alpha[i]; lin[i] = pos ? 1 : -1;
			L[i] = pos ? 0 : -1e100L; U[i] = pos ? 1e100L : 0;
			double dm = 0.5 / (pos ? c.p2 : c.p1);
			D[i] = c.dbl ? (long double)dm : (long double)(float)dm;
		}
	}else if(c.kind == "e"){
		for(std::size_t i = 0; i != n; ++i){
			a[i] = std::max((long double)r.alpha[i], 0.0L); a[i+n] = std::min((long double)r.alpha[i], 0.0L);
			lin[i] = (long double)c.ys[i] - c.p2; lin[i+n] = (long double)c.ys[i] + c.p2;
			L[i] = 0; U[i] = c.p1; L[i+n] = -(long double)c.p1; U[i+n] = 0;
		}
	}else{
		target = 1;
		double upper = 1.0 / (c.p1 * n);
		for(std::size_t i = 0; i != n; ++i){ a[i] = r.alpha[i]; lin[i] = 0; L[i] = 0; U[i] = upper; }
	}
	long double sum = 0, obj = 0, scale = 0, width = 0;
	for(std::size_t i = 0; i != m; ++i){
		if(a[i] < L[i] || a[i] > U[i]) os << " !oracle box@" << i;
		sum += a[i]; width += (c.kind == "q") ? std::fabs(a[i]) : U[i] - L[i];
		g[i] = lin[i] - D[i] * a[i];
		for(std::size_t j = 0; j != m; ++j) g[i] -= K[i % n][j % n] * a[j];
	}
	for(std::size_t i = 0; i != m; ++i){
		obj += lin[i] * a[i] - 0.5L * D[i] * a[i] * a[i]; scale += std::fabs(lin[i] * a[i]) + D[i] * a[i] * a[i];
		for(std::size_t j = 0; j != m; ++j){ obj -= 0.5L * a[i] * K[i % n][j % n] * a[j]; scale += std::fabs(a[i] * K[i % n][j % n] * a[j]); }
	}
	*objOut = obj; *widthOut = width;
	long double tol = 1e-9L * (1 + scale);
	if(!equality && r.b != 0) os << " !oracle offset-without-bias(" << r.b << ")";
	// feasibility is kept by every solver step, whatever the reason for stopping
	if(equality && std::fabs(sum - target) > tol) os << " !oracle equality-constraint(" << (double)sum << ")";
	if(acc){
		if(equality){
			long double up = -1e100L, down = 1e100L;
			for(std::size_t i = 0; i != m; ++i){
				if(a[i] < U[i]) up = std::max(up, g[i]);
				if(a[i] > L[i]) down = std::min(down, g[i]);
			}
			if(up - down > c.eps + tol) os << " !oracle kkt(" << (double)(up - down) << ")";
			for(std::size_t i = 0; i != m; ++i){
				if(a[i] < U[i] && g[i] - r.b > c.eps + tol){ os << " !oracle bias-interval@" << i << "(" << (double)(g[i] - r.b) << ")"; break; }
				if(a[i] > L[i] && r.b - g[i] > c.eps + tol){ os << " !oracle bias-interval@" << i << "(" << (double)(r.b - g[i]) << ")"; break; }
			}
		}else{
			long double viol = 0;
			for(std::size_t i = 0; i != m; ++i){
				if(a[i] < U[i]) viol = std::max(viol, g[i]);
				if(a[i] > L[i]) viol = std::max(viol, -g[i]);
			}
			if(viol > c.eps + tol) os << " !oracle kkt(" << (double)viol << ")";
		}
	}
	// the reported objective is the objective of the returned coefficients -- whatever the reason for stopping
	if(std::fabs(obj - (long double)r.value) > tol)
		os << " !oracle objective-not-reproduced" << (acc ? "" : "-unconverged") << "(" << std::setprecision(17) << r.value << " vs " << (double)obj << ")";
	return os.str();
}

Result runSparse(Cfg const& c);      // harness/c07xs.cpp
static Result run(Cfg const& c){
	if(c.kind == "m") return trainMissing(c);
	if(c.sparse) return runSparse(c);
	return c.dbl ? train<RealVector, double>(c) : train<RealVector, float>(c);
}

int main(){
	std::string line;
	while(std::getline(std::cin, line)){
		std::vector<std::string> t = vh::tokens(line);
		if(t.empty()){ std::cout << "\n"; continue; }
		if((t[0] != "trx" && t[0] != "csvm3") || t.size() < 21){ std::cout << "bad-op\n"; continue; }
		Cfg c;
		c.kind = t[1]; c.kern = t[2]; c.gamma = untok(t[3]); c.bias = t[4] == "1"; c.shrink = t[5] == "1"; c.pre = std::stoi(t[6]);
		c.cache = std::stoul(t[7]); c.eps = untok(t[8]); c.maxit = std::stoull(t[9]); c.maxsec = untok(t[10]);
		c.warmmode = std::stoi(t[11]); c.warmit = std::stoull(t[12]); c.warmfac = untok(t[13]); c.weighted = t[14] == "1";
		c.p1 = untok(t[15]); c.p2 = untok(t[16]); c.dbl = t[17] == "1"; c.sparse = t[18] == "1";
		c.n = std::stoul(t[19]); c.d = std::stoul(t[20]);
		std::size_t n = c.n, d = c.d;
		static const std::string kinds = "cqeorm";
		if(t.size() != 21 + n*d + 3*n || c.kind.size() != 1 || kinds.find(c.kind) == std::string::npos || (c.pre == 2 && c.kind != "c")){ std::cout << "bad-op\n"; continue; }
		c.xs.assign(n, std::vector<double>(d));
		for(std::size_t i = 0; i != n; ++i) for(std::size_t k = 0; k != d; ++k) c.xs[i][k] = untok(t[21 + i*d + k]);
		for(std::size_t i = 0; i != n; ++i) c.ys.push_back(untok(t[21 + n*d + i]));
		for(std::size_t i = 0; i != n; ++i) c.ws.push_back(untok(t[21 + n*d + n + i]));
		for(std::size_t i = 0; i != n; ++i) c.a1.push_back(untok(t[21 + n*d + 2*n + i]));
		std::ostringstream os;
		try{
			Result r = run(c);
			if(t[0] == "csvm3"){
				os << "acc=" << (r.type == (int)QpAccuracyReached ? 1 : 0) << " it=" << r.it << " alpha=[";
				for(std::size_t i = 0; i != n; ++i){ if(i) os << ","; os << tok(r.alpha[i]); }
				os << "] b=" << tok(r.b);
			}else{
				long double obj, width;
				std::string o = oracle(c, r, &obj, &width);
				os << "stop=" << r.type << " it=" << r.it << " alpha=[";
				for(std::size_t i = 0; i != n; ++i){ if(i) os << ","; os << tok(r.alpha[i]); }
				os << "] b=" << tok(r.b) << " ;obj=" << tok((double)obj) << " ;width=" << tok((double)width) << " ;val=" << tok(r.value) << o;
			}
		}catch(std::exception const& e){ os << "exception " << e.what(); }
		std::cout << os.str() << "\n";
	}
	return 0;
}
