// K-C03: correspondence harness for shark::Data / LabeledData / DataView.
// Reads ops (one per line) from stdin and prints one observation line per op in
// the format of lean/Driver/C03.lean.  argv[1] selects the input element type:
//   uint   -> LabeledData<unsigned int, unsigned int>
//   real   -> LabeledData<RealVector, unsigned int>          (dimension 3)
//   sparse -> LabeledData<CompressedRealVector, unsigned int> (dimension 7)
//   blob   -> LabeledData<Blob, unsigned int>                 (user struct, std::vector batches)
// Every element carries an id (encoded in the input) and a label; the *independent
// property oracle* keeps a flat std::vector<(id,label)> per slot, updates it by the
// documented meaning of each operation, and compares it with what the real dataset
// contains after every op ("!oracle <tag>" is appended to the output line on failure).
// Sharing: every state line carries `ind=xy` per slot (is the input / label container independent, i.e. do all its
// batch pointers have use-count 1); the Lean side computes the same from its heap model (Model/DatasetShared.lean).
// `repart splitb splitat splice rbc` call makeIndependent() first, `rrepart rsplitb rsplitat rsplice rrbc` do not (the
// library then throws exactly when something is shared), `indep` is makeIndependent() alone, `setel cpel vset` write in
// place through element proxies of a dataset / a view (every holder of the batch changes), `mk3` is the sized
// constructor, `ushuf` UnlabeledData::shuffle, `vrand` randomSubset; all ops are listed in lean/Driver/C03.lean.
// The oracle also re-reads every state through the non-const element and batch proxies, repeats every iterator jump on
// the Data<I> / Data<label> (const and non-const) and non-const LabeledData iterators, and rebuilds every view as
// DataView<LabeledData const>, DataView<UnlabeledData const> and DataView<Data<label> const>.
#include <shark/Data/Dataset.h>
#include <shark/Data/DataView.h>
#include "common.hpp"
#include <algorithm>
#include <map>

using namespace shark;

struct Blob{
	std::string text; std::size_t id;
	Blob(): id(0){}
	explicit Blob(std::size_t i): text("blob" + std::to_string(i)), id(i){}
	template<class A> void serialize(A& ar, unsigned int){ ar & text; ar & id; }
};

typedef std::pair<std::size_t, unsigned> Elem;   // (id, label)
typedef std::vector<Elem> Flat;
static const std::size_t BAD = (std::size_t)-1;

template<class I> struct Codec;
template<> struct Codec<unsigned int>{
	static unsigned int enc(std::size_t id){ return (unsigned int)id; }
	template<class X> static std::size_t dec(X const& x){ return (std::size_t)(unsigned int)x; }
	static std::string shape(){ return "[]"; }
};
template<> struct Codec<RealVector>{
	static RealVector enc(std::size_t id){ RealVector v(3); v(0) = (double)id; v(1) = id + 0.5; v(2) = -(double)id; return v; }
	template<class X> static std::size_t dec(X const& x){
		if(x.size() != 3) return BAD;
		double d = x(0); std::size_t id = (std::size_t)d;
		if(d != (double)id || x(1) != id + 0.5 || x(2) != -(double)id) return BAD;
		return id;
	}
};
template<> struct Codec<CompressedRealVector>{
	static CompressedRealVector enc(std::size_t id){
		CompressedRealVector v(7);
		std::size_t p1 = id % 7, p2 = (id + 3) % 7;
		double v1 = id + 1.0, v2 = id + 2.0;
		if(p1 > p2){ std::swap(p1, p2); std::swap(v1, v2); }
		auto pos = v.end();
		pos = v.set_element(pos, p1, v1);
		pos = v.set_element(pos, p2, v2);
		return v;
	}
	template<class X> static std::size_t dec(X const& x){
		if(x.size() != 7) return BAD;
		RealVector d(7, 0.0);
		std::size_t nnz = 0;
		for(auto it = x.begin(); it != x.end(); ++it){ d(it.index()) = *it; ++nnz; }
		if(nnz != 2) return BAD;
		for(std::size_t p = 0; p != 7; ++p){
			if(d(p) >= 1.0){
				std::size_t id = (std::size_t)(d(p) - 1.0);
				if(id % 7 == p && d((id + 3) % 7) == id + 2.0 && d(p) == id + 1.0) return id;
			}
		}
		return BAD;
	}
};
template<> struct Codec<Blob>{
	static Blob enc(std::size_t id){ return Blob(id); }
	template<class X> static std::size_t dec(X const& x){
		Blob const& b = x;
		return b.text == "blob" + std::to_string(b.id) ? b.id : BAD;
	}
};

std::string showNats(std::vector<std::size_t> const& v){
	std::ostringstream os; os << "[";
	for(std::size_t i = 0; i != v.size(); ++i){ if(i) os << " "; os << v[i]; }
	os << "]"; return os.str();
}
std::string showShape(Shape const& s){
	std::vector<std::size_t> d; for(std::size_t i = 0; i != s.size(); ++i) d.push_back(s[i]);
	return showNats(d);
}
std::string showEls(Flat const& f){
	std::ostringstream os; os << "[";
	for(std::size_t i = 0; i != f.size(); ++i){
		if(i) os << " ";
		if(f[i].first == BAD) os << "?"; else os << f[i].first << ":" << f[i].second;
	}
	os << "]"; return os.str();
}

// element-wise / batch-wise functors for transformInputs
template<class I> struct ShiftElem{
	typedef I result_type;
	std::size_t k;
	I operator()(I const& x) const{ return Codec<I>::enc(Codec<I>::dec(x) + k); }
};
struct ShiftLabel{
	typedef unsigned int result_type;
	unsigned int k;
	unsigned int operator()(unsigned int l) const{ return l + k; }
};
struct ShiftRealBatch{
	std::size_t k;
	RealMatrix operator()(RealMatrix const& m) const{
		RealMatrix r(m.size1(), m.size2());
		for(std::size_t i = 0; i != m.size1(); ++i) noalias(row(r, i)) = Codec<RealVector>::enc(Codec<RealVector>::dec(row(m, i)) + k);
		return r;
	}
};
// batch-wise functor over sparse batches: rebuilds every row of the compressed matrix
struct ShiftSparseBatch{
	std::size_t k;
	CompressedRealMatrix operator()(CompressedRealMatrix const& m) const{
		std::vector<CompressedRealVector> rows;
		for(std::size_t i = 0; i != m.size1(); ++i) rows.push_back(Codec<CompressedRealVector>::enc(Codec<CompressedRealVector>::dec(row(m, i)) + k));
		return createBatch<CompressedRealVector>(rows);
	}
};
// element type changing transforms: I -> unsigned int (the id) -> I (the id shifted)
template<class I> struct ToId{
	typedef unsigned int result_type;
	unsigned int operator()(I const& x) const{ return (unsigned int)Codec<I>::dec(x); }
};
template<class I> struct FromId{
	typedef I result_type;
	std::size_t k;
	I operator()(unsigned int id) const{ return Codec<I>::enc(id + k); }
};
template<class I> struct BatchWise{   // default: no batch-wise variant, fall back to element-wise
	template<class D> static D apply(D const& d, std::size_t k){ ShiftElem<I> f; f.k = k; return transformInputs(d, f); }
};
template<> struct BatchWise<RealVector>{
	template<class D> static D apply(D const& d, std::size_t k){ ShiftRealBatch f; f.k = k; return transformInputs(d, f); }
};

#ifndef C03_NO_SPARSE
template<> struct BatchWise<CompressedRealVector>{
	template<class D> static D apply(D const& d, std::size_t k){ ShiftSparseBatch f; f.k = k; return transformInputs(d, f); }
};
#endif

template<class I>
struct Harness{
	typedef LabeledData<I, unsigned int> DS;
	typedef DataView<DS> View;
	DS d[4];
	Flat sh[4];          // oracle: what each slot must contain, in order
	View v[2]; bool vset[2]; Flat vsh[2];
	std::string oracleMsg;

	Harness(): indOverride(false), probeSlot(0){ vset[0] = vset[1] = false; }

	void fail(std::string const& tag){ oracleMsg += " !oracle " + tag; }

	// ---- the four access paths
	static Flat viaBatches(DS const& s){
		Flat f;
		for(std::size_t b = 0; b != s.numberOfBatches(); ++b){
			auto const& batch = s.batch(b);
			for(std::size_t i = 0; i != batchSize(batch); ++i){
				auto e = getBatchElement(batch, i);
				f.push_back(Elem(Codec<I>::dec(e.input), e.label));
			}
		}
		return f;
	}
	static Flat viaBatchRange(DS const& s){
		Flat f;
		for(auto const& batch: s.batches()){
			for(std::size_t i = 0; i != batchSize(batch); ++i){
				auto e = getBatchElement(batch, i);
				f.push_back(Elem(Codec<I>::dec(e.input), e.label));
			}
		}
		return f;
	}
	static Flat viaElements(DS const& s){
		Flat f;
		for(auto it = s.elements().begin(); it != s.elements().end(); ++it)
			f.push_back(Elem(Codec<I>::dec((*it).input), (*it).label));
		return f;
	}
	static Flat viaIndex(DS const& s){
		Flat f;
		for(std::size_t i = 0; i != s.numberOfElements(); ++i){
			auto e = s.element(i);
			f.push_back(Elem(Codec<I>::dec(e.input), e.label));
		}
		return f;
	}
	static Flat viaReverse(DS const& s){
		Flat f;
		auto it = s.elements().end();
		auto b = s.elements().begin();
		while(it != b){ --it; f.push_back(Elem(Codec<I>::dec((*it).input), (*it).label)); }
		std::reverse(f.begin(), f.end());
		return f;
	}
	// inputs and labels read separately must pair up like the labeled elements
	static Flat viaSeparate(DS const& s){
		Flat f;
		auto li = s.labels().elements().begin();
		for(auto ii = s.inputs().elements().begin(); ii != s.inputs().elements().end(); ++ii, ++li)
			f.push_back(Elem(Codec<I>::dec(*ii), *li));
		return f;
	}

	// SharedContainer::isIndependent() of the protected Data::m_data, reached through a pointer to member formed in a
	// derived class (no exception involved; the public probe would be splitBatch(0, 0), which checks independence first
	// and then returns without touching anything -- it is used once per op as a cross-check, exceptions are slow under ASan)
	template<class T> struct Peek: public Data<T>{
		static bool independent(Data<T> const& c){ return (c.*(&Peek::m_data)).isIndependent(); }
	};
	template<class T> static bool independent(Data<T> const& c){ return Peek<T>::independent(c); }
	template<class C> static bool independentByProbe(C& c){
		if(c.numberOfBatches() == 0) return true;
		try{ c.splitBatch(0, 0); }catch(shark::Exception const&){ return false; }
		return true;
	}
	static bool hasEmptyBatch(DS const& s){
		for(std::size_t x: s.inputs().getPartitioning()) if(x == 0) return true;
		for(std::size_t x: s.labels().getPartitioning()) if(x == 0) return true;
		return false;
	}
	bool indOverride; std::string indFlags[4];     // the weighted harness probes its own objects
	std::size_t probeSlot;
	// the non-const flavours of the access paths (element_reference / batch_reference proxies)
	static Flat viaMutable(DS& s){
		Flat f;
		for(auto it = s.elements().begin(); it != s.elements().end(); ++it)
			f.push_back(Elem(Codec<I>::dec((*it).input), (*it).label));
		return f;
	}
	static Flat viaMutableBatches(DS& s){
		Flat f;
		for(auto&& batch: s.batches()){
			for(std::size_t i = 0; i != batchSize(batch); ++i){
				auto e = getBatchElement(batch, i);
				f.push_back(Elem(Codec<I>::dec(e.input), e.label));
			}
		}
		return f;
	}

	std::string showDS(std::size_t k){
		DS const& s = d[k];
		if(s.inputs().getPartitioning() != s.labels().getPartitioning()){
			// inputs and labels no longer batched alike: reading (input, label) batches would run out of bounds
			fail("input-label-partition-differs slot=" + std::to_string(k));
			std::ostringstream os;
			os << "D" << k << "{ish=" << showShape(s.inputShape()) << " lsh=" << showShape(s.labelShape())
			   << " part=" << showNats(s.inputs().getPartitioning()) << " lpart=" << showNats(s.labels().getPartitioning())
			   << " n=" << s.numberOfElements() << " el=[] paths=na ind=--}";
			return os.str();
		}
		Flat f = viaBatches(s);
		std::vector<std::string> bad;
		std::string paths = "ok";
		if(hasEmptyBatch(s)) paths = "na";      // the element iterator is not defined on empty batches
		else{
			if(viaElements(s) != f) bad.push_back("elements");
			if(viaIndex(s) != f) bad.push_back("element(i)");
			if(viaReverse(s) != f) bad.push_back("reverse");
			if(viaBatchRange(s) != f) bad.push_back("batches()");
			if(viaMutable(d[k]) != f || viaMutableBatches(d[k]) != f) fail("non-const-access-paths slot=" + std::to_string(k));
		}
		if(!bad.empty()){
			paths = "BAD:";
			for(std::size_t i = 0; i != bad.size(); ++i) paths += (i ? "," : "") + bad[i];
			fail("access-paths-disagree slot=" + std::to_string(k));
		}
		std::string ind = indOverride ? indFlags[k]
			: std::string(independent(d[k].inputs()) ? "1" : "0") + (independent(d[k].labels()) ? "1" : "0");
		if(!indOverride && k == probeSlot % 4){     // the public route must agree (one slot per line, round robin)
			if(independentByProbe(d[k].inputs()) != independent(d[k].inputs()) || independentByProbe(d[k].labels()) != independent(d[k].labels()))
				fail("isIndependent-vs-splitBatch-probe slot=" + std::to_string(k));
		}
		std::vector<std::size_t> part = s.inputs().getPartitioning(), lpart = s.labels().getPartitioning();
		// ---- oracle
		std::size_t sum = 0; for(std::size_t x: part) sum += x;
		if(sum != s.numberOfElements() || f.size() != sum) fail("batch-sizes-do-not-sum slot=" + std::to_string(k));
		if(part != lpart) fail("input-label-partition-differs slot=" + std::to_string(k));
		else if(paths != "na" && viaSeparate(s) != f) fail("inputs()/labels()-pairing slot=" + std::to_string(k));
		if(part != s.getPartitioning()) fail("getPartitioning slot=" + std::to_string(k));
		for(Elem const& e: f) if(e.first == BAD){ fail("element-corrupted slot=" + std::to_string(k)); break; }
		if(f != sh[k]) fail("flat-contents slot=" + std::to_string(k) + " expected=" + showEls(sh[k]));
		std::ostringstream os;
		os << "D" << k << "{ish=" << showShape(s.inputShape()) << " lsh=" << showShape(s.labelShape())
		   << " part=" << showNats(part) << " lpart=" << showNats(lpart) << " n=" << s.numberOfElements()
		   << " el=" << showEls(f) << " paths=" << paths << " ind=" << ind << "}";
		return os.str();
	}
	std::string showView(std::size_t k){
		if(!vset[k]) return "V" + std::to_string(k) + "{-}";
		View const& w = v[k];
		std::vector<std::size_t> idx; Flat f, g;
		for(std::size_t i = 0; i != w.size(); ++i){
			idx.push_back(w.index(i));
			f.push_back(Elem(Codec<I>::dec(w[i].input), w[i].label));
		}
		for(auto it = w.begin(); it != w.end(); ++it) g.push_back(Elem(Codec<I>::dec((*it).input), (*it).label));
		if(f != g) fail("view-iterator-vs-index view=" + std::to_string(k));
		if(f != vsh[k]) fail("view-contents view=" + std::to_string(k));
		return "V" + std::to_string(k) + "{idx=" + showNats(idx) + " el=" + showEls(f) + "}";
	}
	std::string showState(){
		std::string s;
		++probeSlot;
		for(std::size_t k = 0; k != 4; ++k) s += (k ? " " : "") + showDS(k);
		for(std::size_t k = 0; k != 2; ++k) s += " " + showView(k);
		return s;
	}

	static Flat gather(Flat const& f, std::vector<std::size_t> const& idx){
		Flat g; for(std::size_t i: idx) g.push_back(f[i]); return g;
	}
	// flat contents of the listed batches, using the partitioning observed before the op
	static Flat batchesOf(Flat const& f, std::vector<std::size_t> const& part, std::vector<std::size_t> const& idx){
		std::vector<std::size_t> start(part.size() + 1, 0);
		for(std::size_t i = 0; i != part.size(); ++i) start[i + 1] = start[i] + part[i];
		Flat g;
		for(std::size_t b: idx) g.insert(g.end(), f.begin() + start[b], f.begin() + start[b + 1]);
		return g;
	}

	// preconditions of the C++ operations (the same ones the Lean model demands); an op that violates
	// them is answered with "undefined" instead of being executed (shrunk / hand-written histories)
	bool valid(std::string const& op, std::vector<std::size_t> const& a){
		auto slot = [&](std::size_t i){ return i < a.size() && a[i] < 4; };
		auto vslot = [&](std::size_t i){ return i < a.size() && a[i] < 2; };
		auto nb = [&](std::size_t s){ return d[s].numberOfBatches(); };
		auto ne = [&](std::size_t s){ return d[s].numberOfElements(); };
		auto allBelow = [&](std::size_t from, std::size_t bound){ for(std::size_t i = from; i < a.size(); ++i) if(a[i] >= bound) return false; return true; };
		auto full = [&](std::size_t s){ return !hasEmptyBatch(d[s]); };
		if(op == "new") return a.size() >= 3 && slot(0);
		if(op == "reset") return a.empty();
		if(op == "mk3") return a.size() == 5 && slot(0);
		if(op == "ushuf") return a.size() == 3 && slot(0) && slot(1) && full(a[0]) && ne(a[0]) >= 1;
		if(op == "indep") return a.size() == 1 && slot(0);
		if(op == "swap") return a.size() == 2 && slot(0) && slot(1);
		if(op == "setel") return a.size() == 4 && slot(0) && full(a[0]) && a[1] < ne(a[0]);
		if(op == "cpel") return a.size() == 3 && slot(0) && full(a[0]) && a[1] < ne(a[0]) && a[2] < ne(a[0]);
		if(op == "vset") return a.size() == 4 && vslot(0) && vset[a[0]] && a[1] < v[a[0]].size();
		if(op == "vrand") return a.size() == 4 && vslot(0) && vslot(1) && vset[a[0]] && v[a[0]].size() >= 1 && a[2] <= v[a[0]].size();
		if(op[0] == 'r' && (op == "rrepart" || op == "rsplitb" || op == "rsplitat" || op == "rsplice" || op == "rrbc")) return valid(op.substr(1), a);
		if(op == "repart"){
			if(!slot(0) || !full(a[0])) return false;
			std::size_t sum = 0; for(std::size_t i = 1; i < a.size(); ++i){ if(a[i] == 0) return false; sum += a[i]; }
			return sum == ne(a[0]);
		}
		if(op == "splitb") return a.size() == 3 && slot(0) && a[1] < nb(a[0]) && a[2] <= d[a[0]].getPartitioning()[a[1]];
		if(op == "splitat") return a.size() == 3 && slot(0) && slot(1) && a[0] != a[1] && nb(a[0]) >= 1 && full(a[0]) && a[2] <= ne(a[0]);
		if(op == "splice") return a.size() == 3 && slot(0) && slot(1) && a[0] != a[1] && a[2] <= nb(a[0]);
		if(op == "append") return a.size() == 2 && slot(0) && slot(1) && a[0] != a[1];
		if(op == "pushb") return a.size() == 3 && slot(0) && slot(1) && a[0] != a[1] && a[2] < nb(a[1]);
		if(op == "subset") return a.size() >= 2 && slot(0) && slot(1) && allBelow(2, nb(a[0]));
		if(op == "subc") return a.size() >= 3 && slot(0) && slot(1) && slot(2) && a[1] != a[2] && allBelow(3, nb(a[0]));
		if(op == "reorder"){
			if(!slot(0) || !full(a[0]) || a.size() - 1 < ne(a[0])) return false;
			for(std::size_t i = 0; i != ne(a[0]); ++i) if(a[1 + i] >= ne(a[0])) return false;
			return true;
		}
		if(op == "shuffle") return a.size() == 2 && slot(0) && full(a[0]) && ne(a[0]) >= 1;   // shark::shuffle on an empty range is undefined (weighted datasets)
		if(op == "rbc") return a.size() == 2 && slot(0) && full(a[0]) && a[1] > 0 && ne(a[0]) >= 1;
		if(op == "bin") return a.size() == 4 && slot(0) && slot(1) && full(a[0]);
		if(op == "ovr") return a.size() == 3 && slot(0) && slot(1) && full(a[0]);
		if(op == "xform") return a.size() == 4 && slot(0) && slot(1) && full(a[0]) && (ne(a[0]) >= 1 || nb(a[0]) == 0);   // nb == 0: the empty dataset
		if(op == "xlab") return a.size() == 3 && slot(0) && slot(1) && full(a[0]);
		if(op == "copy") return a.size() == 2 && slot(0) && slot(1);
		if(op == "iter"){
			if(a.size() != 3 || !slot(0) || !full(a[0]) || a[1] > ne(a[0])) return false;
			std::ptrdiff_t q = (std::ptrdiff_t)a[1] + (std::ptrdiff_t)a[2] - 1000;
			return q >= 0 && q <= (std::ptrdiff_t)ne(a[0]);
		}
		if(op == "view") return a.size() == 2 && vslot(0) && slot(1) && full(a[1]);
		if(op == "vsub") return a.size() >= 2 && vslot(0) && vslot(1) && vset[a[0]] && allBelow(2, v[a[0]].size());
		if(op == "v2d") return a.size() == 3 && vslot(0) && slot(1) && vset[a[0]];
		if(op == "vbat") return a.size() >= 3 && vslot(0) && slot(1) && vset[a[0]] && allBelow(2, v[a[0]].size());
		if(op == "zero") return a.empty();
		return false;
	}

	// returns extra observation text; throws shark::Exception like the library
	// after a write through an element proxy every holder of the written batch changes (documented aliasing; a dataset
	// may even hold the written batch twice).  The oracle knows the written value: every position that changed
	// anywhere must now hold exactly that value, everything else must be untouched; who changes is decided by the model.
	// inputs and labels are shared separately (transformInputs shares the labels only): per component, a position either
	// keeps its value or takes the written one
	static bool okAfterWrite(Elem const& before, Elem const& after, Elem const& val){
		return (after.first == before.first || after.first == val.first) && (after.second == before.second || after.second == val.second);
	}
	void resyncWith(Elem val){
		for(std::size_t k = 0; k != 4; ++k){
			Flat now = viaBatches(d[k]);
			if(now.size() != sh[k].size()) fail("in-place-write-changed-count slot=" + std::to_string(k));
			else for(std::size_t p = 0; p != now.size(); ++p)
				if(!okAfterWrite(sh[k][p], now[p], val)){ fail("in-place-write-changed-unrelated-position slot=" + std::to_string(k)); break; }
			sh[k] = now;
		}
		for(std::size_t k = 0; k != 2; ++k) if(vset[k]){
			Flat f; View const& w = v[k];
			for(std::size_t i = 0; i != w.size(); ++i) f.push_back(Elem(Codec<I>::dec(w[i].input), w[i].label));
			if(f.size() != vsh[k].size()) fail("in-place-write-changed-count view=" + std::to_string(k));
			else for(std::size_t p = 0; p != f.size(); ++p)
				if(!okAfterWrite(vsh[k][p], f[p], val)){ fail("in-place-write-changed-unrelated-position view=" + std::to_string(k)); break; }
			vsh[k] = f;
		}
	}
	std::string exec(std::string const& op0, std::vector<std::size_t> const& a){
		// rrepart / rsplitb / rsplitat / rsplice / rrbc: the operation without makeIndependent() before it
		bool raw = op0 == "rrepart" || op0 == "rsplitb" || op0 == "rsplitat" || op0 == "rsplice" || op0 == "rrbc";
		std::string op = raw ? op0.substr(1) : op0;
		typedef typename DS::element_type Pair;
		if(op == "reset"){
			for(std::size_t k = 0; k != 4; ++k){ d[k] = DS(); sh[k].clear(); }
			for(std::size_t k = 0; k != 2; ++k){ v[k] = View(); vset[k] = false; vsh[k].clear(); }
			return "";
		}
		if(op == "mk3"){
			// the element is a blueprint (vector-valued batches take its size only): fill like toDataset does
			DS r(a[1], Pair(Codec<I>::enc(a[3]), (unsigned int)a[4]), a[2]);
			if(r.numberOfElements() != a[1]) fail("sized-constructor-element-count");
			if(a[1] != 0) for(auto it = r.elements().begin(); it != r.elements().end(); ++it) *it = Pair(Codec<I>::enc(a[3]), (unsigned int)a[4]);
			d[a[0]] = r;
			sh[a[0]] = Flat(a[1], Elem(a[3], (unsigned int)a[4]));
			return "";
		}
		if(op == "indep"){ d[a[0]].makeIndependent(); return ""; }
		if(op == "swap"){ swap(d[a[0]], d[a[1]]); std::swap(sh[a[0]], sh[a[1]]); return ""; }
		if(op == "setel"){
			Elem val(a[2], (unsigned int)a[3]);
			d[a[0]].element(a[1]) = Pair(Codec<I>::enc(a[2]), (unsigned int)a[3]);
			resyncWith(val);
			if(sh[a[0]][a[1]] != val) fail("in-place-write-lost");
			return "";
		}
		if(op == "cpel"){
			Elem val = sh[a[0]][a[2]];
			d[a[0]].element(a[1]) = d[a[0]].element(a[2]);        // proxy = proxy of the same type
			resyncWith(val);
			if(sh[a[0]][a[1]] != val) fail("in-place-write-lost");
			return "";
		}
		if(op == "vset"){
			Elem val(a[2], (unsigned int)a[3]);
			v[a[0]][a[1]] = Pair(Codec<I>::enc(a[2]), (unsigned int)a[3]);
			resyncWith(val);
			if(vsh[a[0]][a[1]] != val) fail("in-place-write-lost");
			return "";
		}
		if(op == "vrand"){
			random::globalRng.seed((unsigned)a[3]);
			View const& src = v[a[0]];
			View r = randomSubset(src, a[2]);
			std::vector<std::size_t> pos; std::vector<bool> used(src.size(), false);
			for(std::size_t i = 0; i != r.size(); ++i){
				std::size_t hit = BAD;
				for(std::size_t q = 0; q != src.size(); ++q)
					if(!used[q] && src.index(q) == r.index(i) && src.batch(q) == r.batch(i) && src.positionInBatch(q) == r.positionInBatch(i)){ hit = q; break; }
				if(hit == BAD){ fail("randomSubset-element-not-from-view-or-drawn-twice"); hit = 0; } else used[hit] = true;
				pos.push_back(hit);
			}
			if(r.size() != a[2]) fail("randomSubset-size");
			Flat f = gather(vsh[a[0]], pos);
			v[a[1]] = r; vset[a[1]] = true; vsh[a[1]] = f;
			return "obs=" + showNats(pos);
		}
		if(op == "new"){
			std::size_t s = a[0], m = a[1], base = a[2];
			std::vector<I> in; std::vector<unsigned int> lab; Flat f;
			for(std::size_t i = 3; i < a.size(); ++i){
				in.push_back(Codec<I>::enc(base + i - 3)); lab.push_back((unsigned int)a[i]);
				f.push_back(Elem(base + i - 3, (unsigned int)a[i]));
			}
			d[s] = createLabeledDataFromRange(in, lab, m);     // a.size() == 3: the empty range
			sh[s] = f;
			return "";
		}
		if(op == "repart"){
			std::vector<std::size_t> sizes(a.begin() + 1, a.end());
			if(!raw) d[a[0]].makeIndependent();
			d[a[0]].repartition(sizes);
			if(d[a[0]].getPartitioning() != sizes) fail("repartition-sizes");
			return "";
		}
		if(op == "splitb"){ if(!raw) d[a[0]].makeIndependent(); d[a[0]].splitBatch(a[1], a[2]); return ""; }
		if(op == "splitat"){
			if(!raw) d[a[0]].makeIndependent();
			d[a[1]] = splitAtElement(d[a[0]], a[2]);
			sh[a[1]] = Flat(sh[a[0]].begin() + a[2], sh[a[0]].end());
			sh[a[0]].resize(a[2]);
			if(d[a[0]].numberOfElements() != a[2]) fail("splitAtElement-left-size");
			return "";
		}
		if(op == "splice"){
			std::vector<std::size_t> part = d[a[0]].getPartitioning();
			std::size_t k = 0; for(std::size_t i = 0; i != a[2]; ++i) k += part[i];
			if(!raw) d[a[0]].makeIndependent();
			d[a[1]] = d[a[0]].splice(a[2]);
			sh[a[1]] = Flat(sh[a[0]].begin() + k, sh[a[0]].end());
			sh[a[0]].resize(k);
			return "";
		}
		if(op == "append"){
			d[a[0]].append(d[a[1]]);
			Flat add = sh[a[1]];
			sh[a[0]].insert(sh[a[0]].end(), add.begin(), add.end());
			return "";
		}
		if(op == "pushb"){
			std::vector<std::size_t> part = d[a[1]].getPartitioning();
			Flat add = batchesOf(sh[a[1]], part, std::vector<std::size_t>(1, a[2]));
			DS const& src = d[a[1]];
			d[a[0]].push_back(src.batch(a[2]));
			sh[a[0]].insert(sh[a[0]].end(), add.begin(), add.end());
			return "";
		}
		if(op == "subset"){
			std::vector<std::size_t> idx(a.begin() + 2, a.end());
			Flat f = batchesOf(sh[a[0]], d[a[0]].getPartitioning(), idx);
			d[a[1]] = d[a[0]].indexedSubset(idx);
			sh[a[1]] = f;
			return "";
		}
		if(op == "subc"){
			std::vector<std::size_t> idx(a.begin() + 3, a.end());
			std::vector<std::size_t> part = d[a[0]].getPartitioning(), comp;
			for(std::size_t b = 0; b != part.size(); ++b) if(std::find(idx.begin(), idx.end(), b) == idx.end()) comp.push_back(b);
			Flat fs = batchesOf(sh[a[0]], part, idx), fc = batchesOf(sh[a[0]], part, comp);
			UnlabeledData<I> si, ci; Data<unsigned int> sl, cl;
			d[a[0]].inputs().indexedSubset(idx, si, ci);
			d[a[0]].labels().indexedSubset(idx, sl, cl);
			d[a[1]] = DS(si, sl); d[a[2]] = DS(ci, cl);
			sh[a[1]] = fs; sh[a[2]] = fc;
			return "";
		}
		if(op == "reorder"){
			std::vector<std::size_t> idx(a.begin() + 1, a.end());
			std::vector<std::size_t> part = d[a[0]].getPartitioning();
			d[a[0]].reorderElements(idx);
			sh[a[0]] = gather(sh[a[0]], std::vector<std::size_t>(idx.begin(), idx.begin() + sh[a[0]].size()));
			if(d[a[0]].getPartitioning() != part) fail("reorder-changed-partitioning");
			return "";
		}
		if(op == "shuffle"){
			random::globalRng.seed((unsigned)a[1]);
			Flat before = viaBatches(d[a[0]]);
			std::vector<std::size_t> part = d[a[0]].getPartitioning();
			d[a[0]].shuffle();
			Flat after = viaBatches(d[a[0]]);
			// observed permutation: after[j] = before[p[j]]
			std::vector<std::size_t> p; std::vector<bool> used(before.size(), false);
			for(std::size_t j = 0; j != after.size(); ++j){
				std::size_t hit = BAD;
				for(std::size_t i = 0; i != before.size(); ++i) if(!used[i] && before[i] == after[j]){ hit = i; break; }
				if(hit == BAD){ fail("shuffle-lost-or-invented-element"); hit = 0; } else used[hit] = true;
				p.push_back(hit);
			}
			if(after.size() != before.size()) fail("shuffle-changed-count");
			if(d[a[0]].getPartitioning() != part) fail("shuffle-changed-partitioning");
			Flat x = before, y = after; std::sort(x.begin(), x.end()); std::sort(y.begin(), y.end());
			if(x != y) fail("shuffle-multiset");
			sh[a[0]] = after;
			return "obs=" + showNats(p);
		}
		if(op == "ushuf"){
			random::globalRng.seed((unsigned)a[2]);
			UnlabeledData<I> u = d[a[0]].inputs();
			Flat before = sh[a[0]];
			u.shuffle();
			if(u.getPartitioning() != d[a[0]].getPartitioning()) fail("shuffle-changed-partitioning");
			if(u.shape() != d[a[0]].inputShape()) fail("shuffle-changed-shape");
			std::vector<std::size_t> ids;
			for(auto it = u.elements().begin(); it != u.elements().end(); ++it) ids.push_back(Codec<I>::dec(*it));
			std::vector<std::size_t> p; std::vector<bool> used(before.size(), false);
			for(std::size_t j = 0; j != ids.size(); ++j){
				std::size_t hit = BAD;
				for(std::size_t i = 0; i != before.size(); ++i) if(!used[i] && before[i].first == ids[j]){ hit = i; break; }
				if(hit == BAD){ fail("shuffle-lost-or-invented-element"); hit = 0; } else used[hit] = true;
				p.push_back(hit);
			}
			if(ids.size() != before.size()) fail("shuffle-changed-count");
			Flat f;
			for(std::size_t j = 0; j != ids.size() && j != before.size(); ++j) f.push_back(Elem(before[p[j]].first, before[j].second));
			DS r(u, d[a[0]].labels());
			d[a[1]] = r; sh[a[1]] = f;
			return "obs=" + showNats(p);
		}
		if(op == "rbc"){
			if(!raw) d[a[0]].makeIndependent();
			repartitionByClass(d[a[0]], a[1]);
			std::stable_sort(sh[a[0]].begin(), sh[a[0]].end(), [](Elem const& x, Elem const& y){ return x.second < y.second; });
			// every batch holds one class only, no batch above the maximum size
			DS const& s = d[a[0]];
			for(std::size_t b = 0; b != s.numberOfBatches(); ++b){
				auto const& lb = s.labels().batch(b);
				if(lb.size() > a[1]) fail("rbc-batch-too-large");
				for(std::size_t i = 1; i < lb.size(); ++i) if(lb(i) != lb(0)){ fail("rbc-mixed-batch"); break; }
			}
			return "";
		}
		if(op == "bin"){
			unsigned int c0 = (unsigned int)a[2], c1 = (unsigned int)a[3];
			DS r = binarySubProblem(d[a[0]], c0, c1);
			// oracle (only meaningful if the source is grouped by class with ascending labels, as rbc leaves it)
			Flat f; bool sorted = true;
			for(std::size_t i = 1; i < sh[a[0]].size(); ++i) if(sh[a[0]][i - 1].second > sh[a[0]][i].second) sorted = false;
			unsigned int lo = std::min(c0, c1), hi = std::max(c0, c1);
			for(int pass = 0; pass != 2; ++pass)
				for(Elem const& e: sh[a[0]]) if(e.second == (pass ? hi : lo) && (pass == 0 || hi != lo)) f.push_back(Elem(e.first, e.second == c1 ? 1u : 0u));
			d[a[1]] = r;
			if(sorted && pureBatches(d[a[0]])) sh[a[1]] = f; else sh[a[1]] = viaBatches(r);
			return "";
		}
		if(op == "ovr"){
			DS r = oneVersusRestProblem(d[a[0]], (unsigned int)a[2]);
			Flat f = sh[a[0]]; for(Elem& e: f) e.second = (e.second == a[2]) ? 1u : 0u;
			d[a[1]] = r; sh[a[1]] = f;
			return "";
		}
		if(op == "xform"){
			DS r;
			if(a[3] == 1) r = BatchWise<I>::apply(d[a[0]], a[2]);
			else if(a[3] == 2){
				// through another element type and back: Data<I> -> Data<unsigned int> -> Data<I>
				ToId<I> g; FromId<I> f; f.k = a[2];
				Data<unsigned int> ids = transform(d[a[0]].inputs(), g);
				if(ids.getPartitioning() != d[a[0]].getPartitioning()) fail("transform-changed-partitioning");
				if(ids.shape() != Shape()) fail("transform-scalar-shape");
				r = DS(transform(ids, f), d[a[0]].labels());
			}
			else { ShiftElem<I> f; f.k = a[2]; r = transformInputs(d[a[0]], f); }
			Flat f = sh[a[0]]; for(Elem& e: f) e.first += a[2];
			d[a[1]] = r; sh[a[1]] = f;
			return "";
		}
		if(op == "xlab"){
			ShiftLabel fn; fn.k = (unsigned int)a[2];
			DS r = transformLabels(d[a[0]], fn);
			Flat f = sh[a[0]]; for(Elem& e: f) e.second += (unsigned int)a[2];
			d[a[1]] = r; sh[a[1]] = f;
			return "";
		}
		if(op == "copy"){ DS r = d[a[0]]; Flat f = sh[a[0]]; d[a[1]] = r; sh[a[1]] = f; return ""; }
		if(op == "iter"){
			DS const& s = d[a[0]];
			std::ptrdiff_t n = (std::ptrdiff_t)a[2] - 1000;
			auto it = s.elements().begin() + a[1];
			it += n;
			std::size_t pos = it.index();
			if((std::ptrdiff_t)pos != (std::ptrdiff_t)a[1] + n) fail("iterator-index");
			if(it - s.elements().begin() != (std::ptrdiff_t)pos) fail("iterator-distance");
			iterFlavours(a[0], a[1], n);
			std::ostringstream os; os << "idx=" << pos << " val=";
			if(pos < s.numberOfElements()){
				Elem e(Codec<I>::dec((*it).input), (*it).label);
				if(e != sh[a[0]][pos]) fail("iterator-deref");
				os << e.first << ":" << e.second;
			} else os << "end";
			return os.str();
		}
		if(op == "view"){ v[a[0]] = View(d[a[1]]); vset[a[0]] = true; vsh[a[0]] = sh[a[1]]; viewFlavours(a[1]); return ""; }
		if(op == "vsub"){
			std::vector<std::size_t> idx(a.begin() + 2, a.end());
			View w = subset(v[a[0]], idx); Flat f = gather(vsh[a[0]], idx);
			v[a[1]] = w; vset[a[1]] = true; vsh[a[1]] = f;
			return "";
		}
		if(op == "v2d"){
			d[a[1]] = toDataset(v[a[0]], a[2]);
			sh[a[1]] = vsh[a[0]];
			if(a[2] != 0) for(std::size_t s: d[a[1]].getPartitioning()) if(s > a[2]) fail("toDataset-batch-too-large");
			return "";
		}
		if(op == "vbat"){
			std::vector<std::size_t> idx(a.begin() + 2, a.end());
			typename DS::batch_type b = subBatch(v[a[0]], idx);
			DS r; r.push_back(b.input, b.label);
			d[a[1]] = r; sh[a[1]] = gather(vsh[a[0]], idx);
			return "";
		}
		if(op == "zero"){
			std::vector<std::size_t> r = detail::optimalBatchSizes(0, 1);
			return "obs0=" + showNats(r);
		}
		return "bad-op";
	}
	// the same jump on every flavour of the element iterator: Data<I> / Data<unsigned> (const and non-const),
	// LabeledData non-const; += / -= / + / [] / stepping with ++ and -- must all land on the same element
	template<class It> static bool jumps(It begin, std::size_t p, std::ptrdiff_t n, std::size_t total){
		It it = begin + p; it += n;
		std::size_t q = (std::size_t)((std::ptrdiff_t)p + n);
		if(it.index() != q || it - begin != (std::ptrdiff_t)q) return false;
		It jt = begin + p; jt -= -n;
		if(jt.index() != q || !(jt == it)) return false;
		It kt = begin + p;
		for(std::ptrdiff_t s = 0; s < n; ++s) ++kt;
		for(std::ptrdiff_t s = 0; s > n; --s) --kt;
		if(kt.index() != q) return false;
		if(q < total){
			if(!(kt.getInnerIterator() == it.getInnerIterator())) return false;    // same (batch, offset)
			if(!(jt.getInnerIterator() == it.getInnerIterator())) return false;
		}
		It back = it; back -= n;
		if(back.index() != p) return false;
		if(p < total && !(back.getInnerIterator() == (begin + p).getInnerIterator())) return false;
		return true;
	}
	void iterFlavours(std::size_t slot, std::size_t p, std::ptrdiff_t n){
		DS& m = d[slot]; DS const& c = d[slot];
		std::size_t total = c.numberOfElements();
		if(!jumps(c.inputs().elements().begin(), p, n, total)) fail("iterator-flavour Data<I>-const");
		if(!jumps(m.inputs().elements().begin(), p, n, total)) fail("iterator-flavour Data<I>");
		if(!jumps(c.labels().elements().begin(), p, n, total)) fail("iterator-flavour Data<label>-const");
		if(!jumps(m.labels().elements().begin(), p, n, total)) fail("iterator-flavour Data<label>");
		std::size_t q = (std::size_t)((std::ptrdiff_t)p + n);
		auto it = m.elements().begin() + p; it += n;
		if(it.index() != q) fail("iterator-flavour LabeledData-non-const");
		if(q < total){
			Elem e(Codec<I>::dec((*it).input), (*it).label);
			if(e != sh[slot][q]) fail("iterator-flavour LabeledData-non-const-deref");
			Elem e2(Codec<I>::dec(*(c.inputs().elements().begin() + q)), *(c.labels().elements().begin() + q));
			if(e2 != sh[slot][q]) fail("iterator-flavour Data-deref");
		}
	}
	// the other flavours of DataView over the same data (oracle only): a view over a const LabeledData, over the
	// UnlabeledData of the inputs and over the Data of the labels; index(), iterators, subset and toDataset of them
	void viewFlavours(std::size_t slot){
		DS const& c = d[slot];
		Flat const& f = sh[slot];
		DataView<DS const> cv(c);
		DataView<UnlabeledData<I> const> uv(c.inputs());
		DataView<Data<unsigned int> const> lv(c.labels());
		if(cv.size() != f.size() || uv.size() != f.size() || lv.size() != f.size()){ fail("view-flavour-size"); return; }
		for(std::size_t i = 0; i != f.size(); ++i){
			if(Elem(Codec<I>::dec(cv[i].input), cv[i].label) != f[i] || cv.index(i) != i){ fail("view-flavour const-LabeledData"); break; }
			if(Codec<I>::dec(uv[i]) != f[i].first || uv.index(i) != i){ fail("view-flavour UnlabeledData"); break; }
			if(lv[i] != f[i].second || lv.index(i) != i){ fail("view-flavour Data<label>"); break; }
		}
		std::size_t k = 0;
		for(auto it = cv.begin(); it != cv.end(); ++it, ++k)
			if(it.index() != k || Elem(Codec<I>::dec((*it).input), (*it).label) != f[k]){ fail("view-flavour const-iterator"); break; }
		if(k != f.size()) fail("view-flavour const-iterator-count");
		if(f.empty()) return;
		// every second element, back to front, through subset and toDataset of the unlabeled / label views
		std::vector<std::size_t> idx;
		for(std::size_t i = f.size(); i-- > 0; ) if(i % 2 == 0) idx.push_back(i);
		UnlabeledData<I> ub = toDataset(subset(uv, idx), 2);
		Data<unsigned int> lb = toDataset(subset(lv, idx), 2);
		if(ub.numberOfElements() != idx.size() || lb.numberOfElements() != idx.size() || ub.getPartitioning() != lb.getPartitioning()){ fail("view-flavour toDataset-structure"); return; }
		for(std::size_t s: ub.getPartitioning()) if(s == 0 || s > 2) fail("view-flavour toDataset-batch-size");
		for(std::size_t j = 0; j != idx.size(); ++j){
			if(Codec<I>::dec(ub.element(j)) != f[idx[j]].first || lb.element(j) != f[idx[j]].second){ fail("view-flavour toDataset-elements"); break; }
			if(subset(uv, idx).index(j) != idx[j]){ fail("view-flavour subset-index"); break; }
		}
	}
	static bool pureBatches(DS const& s){
		for(std::size_t b = 0; b != s.numberOfBatches(); ++b){
			auto const& lb = s.labels().batch(b);
			for(std::size_t i = 1; i < lb.size(); ++i) if(lb(i) != lb(0)) return false;
		}
		return true;
	}

	int run(){
		std::string line;
		while(std::getline(std::cin, line)){
			std::string body = line.substr(0, line.find('!'));
			std::vector<std::string> t = vh::tokens(body);
			if(t.empty()){ std::cout << "\n"; continue; }
			std::vector<std::size_t> a;
			if(!vh::allNat(t, 1, a)){ std::cout << "bad-op" << std::endl; continue; }
			oracleMsg.clear();
			std::string status = "ok", extra;
			if(!valid(t[0], a)){ std::cout << "undefined | " << showState() << oracleMsg << std::endl; continue; }
			try{ extra = exec(t[0], a); }
			catch(shark::Exception const& e){ status = "exception"; }
			std::string st = showState();
			std::cout << status << (extra.empty() ? "" : " " + extra) << " | " << st << oracleMsg << std::endl;
		}
		return 0;
	}
};

#ifndef C03_NO_MAIN
int main(int argc, char** argv){
	std::string ty = argc > 1 ? argv[1] : "uint";
	if(ty == "uint"){ Harness<unsigned int> h; return h.run(); }
	if(ty == "real"){ Harness<RealVector> h; return h.run(); }
#ifndef C03_NO_SPARSE
	if(ty == "sparse"){ Harness<CompressedRealVector> h; return h.run(); }
#endif
#ifndef C03_NO_BLOB
	if(ty == "blob"){ Harness<Blob> h; return h.run(); }
#endif
	std::cerr << "unknown element type " << ty << std::endl;
	return 2;
}
#endif
