// K-C07x, second translation unit: the trainers on sparse inputs (CompressedRealVector), float and double cache
#include "c07x.hpp"
Result runSparse(Cfg const& c){
	return c.dbl ? train<CompressedRealVector, double>(c) : train<CompressedRealVector, float>(c);
}
